/-
  Proofs/CrashLemmas5.lean — `Base` and the tail's file along a step; a crash preserves `Rec`.
-/
import RaftWal.Proofs.CrashLemmas4
namespace RaftWal.Crash

theorem Base.tid_ne {d : Disk} {P : List Seg} {t : Seg} (hb : Base d P t) : ∀ s ∈ P, s.id ≠ t.id := by
  intro s hs e
  have := hb.nodupS
  simp only [List.map_append, List.map_cons, List.map_nil] at this
  have h2 := (List.nodup_append.1 this).2.2
  exact h2 s.id (List.mem_map.2 ⟨s, hs, rfl⟩) t.id (by simp) e

/-- a step that leaves the meta store alone and keeps the files of the sealed segments -/
theorem Base.step {d d' : Disk} {P : List Seg} {t : Seg} (hb : Base d P t) (hmd : d'.md = d.md)
    (hk : ∀ s ∈ P, Keeps d d' s.id) (hf : (fids d').Nodup) (hlt : ∀ j ∈ fids d', j < d.md.nextID) (hl : HL d') :
    Base d' P t ∧ logP d' P = logP d P := by
  have ht := sealed_transfer_keeps hk hb.sealed
  exact ⟨⟨by rw [hmd]; exact hb.segs, ht.1, hb.chain, hb.nodupS, by rw [hmd]; exact hb.idlt, hf, by rw [hmd]; exact hlt,
    hb.tsl, hb.tbm, hb.tb1, hl⟩, ht.2⟩

theorem Base.write {d : Disk} {P : List Seg} {t : Seg} (hb : Base d P t) (id es sl) (hid : ∀ s ∈ P, s.id ≠ id) :
    Base (d.apply (.write id es sl)) P t ∧ logP (d.apply (.write id es sl)) P = logP d P :=
  hb.step rfl (fun s hs => keeps_write d id es sl (hid s hs)) (by rw [fids_write]; exact hb.nodupF)
    (by rw [fids_write]; exact hb.fidlt) (HL_apply hb.hl _)

theorem Base.fsync {d : Disk} {P : List Seg} {t : Seg} (hb : Base d P t) (id) (hid : ∀ s ∈ P, s.id ≠ id) :
    Base (d.apply (.fsync id)) P t ∧ logP (d.apply (.fsync id)) P = logP d P :=
  hb.step rfl (fun s hs => keeps_fsync d id (hid s hs)) (by rw [fids_fsync]; exact hb.nodupF)
    (by rw [fids_fsync]; exact hb.fidlt) (HL_apply hb.hl _)

theorem Base.delete {d : Disk} {P : List Seg} {t : Seg} (hb : Base d P t) (id) (hid : ∀ s ∈ P, s.id ≠ id) :
    Base (d.apply (.delete id)) P t ∧ logP (d.apply (.delete id)) P = logP d P :=
  hb.step rfl (fun s hs => keeps_delete d id (hid s hs))
    (by rw [fids_delete]; exact hb.nodupF.sublist List.filter_sublist)
    (by rw [fids_delete]; intro j hj; exact hb.fidlt j (List.mem_filter.1 hj).1) (HL_apply hb.hl _)

theorem Base.create {d : Disk} {P : List Seg} {t : Seg} (hb : Base d P t) (id b) (hlt : id < d.md.nextID) :
    Base (d.apply (.create id b)) P t ∧ logP (d.apply (.create id b)) P = logP d P := by
  refine hb.step (by simp) (fun s _ => keeps_create d id b s.id) ?_ ?_ (HL_apply hb.hl _)
  · cases h : d.file? id with
    | some f0 => rw [apply_create_exists b (by simp [h])]; exact hb.nodupF
    | none =>
      rw [fids_create d id b h]
      refine List.nodup_append.2 ⟨hb.nodupF, by simp, ?_⟩
      intro a ha c hc
      simp only [List.mem_cons, List.not_mem_nil, or_false] at hc
      subst hc
      intro e; subst e
      exact (file?_none_iff d a).1 h ha
  · cases h : d.file? id with
    | some f0 => rw [apply_create_exists b (by simp [h])]; exact hb.fidlt
    | none =>
      rw [fids_create d id b h]
      intro j hj
      simp only [List.mem_append, List.mem_cons, List.not_mem_nil, or_false] at hj
      rcases hj with hj | rfl
      · exact hb.fidlt j hj
      · exact hlt

/-! ### the tail's file -/

theorem visU_nil (mn b : Nat) : visU mn b [] = [] := rfl

theorem RTail.mono {A A' : Log → Prop} {LP : Log} {t : Seg} {f : File} (h : RTail A LP t f) (hA : ∀ l, A l → A' l) :
    RTail A' LP t f :=
  ⟨h.base, h.lk, h.mn, h.vis, h.ss, h.sp, hA _ h.a1, hA _ h.a2⟩

theorem RTail.same {A : Log → Prop} {LP : Log} {t : Seg} {f f' : File} (h : RTail A LP t f) (e : FileSame f f') :
    RTail A LP t f' := by
  refine ⟨e.base.trans h.base, ?_, ?_, ?_, ?_, ?_, ?_, ?_⟩
  · rcases h.lk with h1 | h1
    · exact Or.inl (e.lk h1)
    · exact Or.inr (by rw [e.synced, e.ss]; exact h1)
  · rw [e.base, e.synced]; exact h.mn
  · rw [e.base, e.synced]; exact h.vis
  · rw [e.ss, e.pending, e.sp, e.synced]; exact h.ss
  · rw [e.sp, e.pending, e.synced]; exact h.sp
  · rw [e.base, e.synced]; exact h.a1
  · rw [e.base, e.synced, e.pending]; exact h.a2

/-- the pending batch becomes durable (fsync, or a power loss that kept it) -/
theorem RTail.keep {A A' : Log → Prop} {LP : Log} {t : Seg} {f f' : File} (h : RTail A LP t f)
    (hb : f'.base = f.base) (hs : f'.synced = f.synced ++ f.pending) (hp : f'.pending = [])
    (hss : f'.sealedS = (f.sealedS || f.sealedP)) (hsp : f'.sealedP = false) (hl : f'.linked = true)
    (ha : A' (LP ++ visU t.min f.base (f.synced ++ f.pending))) : RTail A' LP t f' := by
  have hmn := h.mn
  have hvis := h.vis
  refine ⟨hb.trans h.base, Or.inl hl, ?_, ?_, ?_, ?_, ?_, ?_⟩
  · rw [hb, hs, List.length_append]; omega
  · rw [hb, hs, List.length_append]
    intro hne
    by_cases hx : f.synced = []
    · have : f.pending ≠ [] := by intro hy; apply hne; simp [hx, hy]
      have := List.length_pos_iff.2 this
      omega
    · have := hvis hx; omega
  · rw [hss, hp, hsp, hs]
    intro hsl
    refine ⟨rfl, rfl, ?_⟩
    simp only [Bool.or_eq_true] at hsl
    rcases hsl with h1 | h1
    · have := h.ss h1
      simp [this.1, this.2.2]
    · exact h.sp h1
  · rw [hsp]; intro hc; cases hc
  · rw [hb, hs]; exact ha
  · rw [hb, hs, hp, List.append_nil]; exact ha

/-- the pending batch is lost (a power loss that did not keep it) -/
theorem RTail.drop {A A' : Log → Prop} {LP : Log} {t : Seg} {f f' : File} (h : RTail A LP t f)
    (hb : f'.base = f.base) (hs : f'.synced = f.synced) (hp : f'.pending = [])
    (hss : f'.sealedS = f.sealedS) (hsp : f'.sealedP = false) (hl : f.linked = true → f'.linked = true)
    (ha : A' (LP ++ visU t.min f.base f.synced)) : RTail A' LP t f' := by
  refine ⟨hb.trans h.base, ?_, ?_, ?_, ?_, ?_, ?_, ?_⟩
  · rcases h.lk with h1 | h1
    · exact Or.inl (hl h1)
    · exact Or.inr (by rw [hs, hss]; exact h1)
  · rw [hb, hs]; exact h.mn
  · rw [hb, hs]; exact h.vis
  · rw [hss, hp, hsp, hs]; intro hsl; exact ⟨rfl, rfl, (h.ss hsl).2.2⟩
  · rw [hsp]; intro hc; cases hc
  · rw [hb, hs]; exact ha
  · rw [hb, hs, hp, List.append_nil]; exact ha

/-! ### `Rec` -/

theorem Rec.mono {A A' : Log → Prop} {d : Disk} {P : List Seg} {t : Seg} (h : Rec A d P t) (hA : ∀ l, A l → A' l) :
    Rec A' d P t :=
  ⟨h.base, fun f hf => (h.tsome f hf).mono hA, fun hn => ⟨(h.tnone hn).1, hA _ (h.tnone hn).2⟩⟩

theorem crash_keeps_sealed {d : Disk} (hn : (fids d).Nodup) (c : CrashKind) {s : Seg} {f : File}
    (hf : d.file? s.id = some f) (hs : SealedFile s f) : ∃ f', (d.crash c).file? s.id = some f' ∧ FileSame f f' := by
  cases c with
  | proc => exact keeps_crash_proc d s.id f hf
  | power kp ku => exact keeps_crash_power d hn kp ku hf hs.pend hs.sp hs.lk

theorem Rec.crash {A : Log → Prop} {d : Disk} {P : List Seg} {t : Seg} (h : Rec A d P t) (c : CrashKind) :
    Rec A (d.crash c) P t := by
  have hb := h.base
  have ht := sealed_transfer (d' := d.crash c) (fun s _ f hf hsf => crash_keeps_sealed hb.nodupF c hf hsf) hb.sealed
  have hsub := fids_crash_sublist d c
  have hb' : Base (d.crash c) P t :=
    ⟨by rw [crash_md]; exact hb.segs, ht.1, hb.chain, hb.nodupS, by rw [crash_md]; exact hb.idlt,
      hb.nodupF.sublist hsub, by rw [crash_md]; exact fun j hj => hb.fidlt j (hsub.subset hj), hb.tsl, hb.tbm, hb.tb1,
      HL_crash d hb.nodupF c⟩
  refine ⟨hb', ?_, ?_⟩
  · intro f' hf'
    rw [ht.2]
    cases c with
    | proc =>
      rw [crash_proc_file?] at hf'
      cases h0 : d.file? t.id with
      | none => rw [h0] at hf'; cases hf'
      | some f =>
        rw [h0] at hf'; cases hf'
        exact (h.tsome f h0).same ⟨rfl, rfl, rfl, rfl, rfl, id⟩
    | power kp ku =>
      rw [crash_power_file? d hb.nodupF] at hf'
      cases h0 : d.file? t.id with
      | none => rw [h0] at hf'; cases hf'
      | some f =>
        rw [h0] at hf'
        have hr := h.tsome f h0
        simp only [Option.bind_some, File.afterPower] at hf'
        split at hf'
        · cases hf'
        · cases hf'
          cases hk : kp f.id with
          | true => exact hr.keep rfl (by simp) rfl (by simp) rfl rfl hr.a2
          | false => exact hr.drop rfl (by simp) rfl (by simp) rfl (fun _ => rfl) hr.a1
  · intro hn
    rw [ht.2]
    cases c with
    | proc =>
      rw [crash_proc_file?] at hn
      cases h0 : d.file? t.id with
      | none => exact h.tnone h0
      | some f => rw [h0] at hn; cases hn
    | power kp ku =>
      rw [crash_power_file? d hb.nodupF] at hn
      cases h0 : d.file? t.id with
      | none => exact h.tnone h0
      | some f =>
        rw [h0] at hn
        have hr := h.tsome f h0
        simp only [Option.bind_some, File.afterPower] at hn
        split at hn
        · rename_i hc
          simp only [Bool.and_eq_true, Bool.not_eq_eq_eq_not, Bool.not_true] at hc
          rcases hr.lk with h1 | h1
          · rw [h1] at hc; cases hc.1
          · have := hr.mn
            have hbm := hb.tbm
            rw [h1.1] at this
            have hbase := hr.base
            refine ⟨by simp at this; omega, ?_⟩
            have := hr.a1
            rw [h1.1, visU_nil, List.append_nil] at this
            exact this
        · cases hn

end RaftWal.Crash
