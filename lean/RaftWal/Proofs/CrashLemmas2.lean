/-
  Proofs/CrashLemmas2.lean — file lookup after each I/O action and after a crash.
-/
import RaftWal.Proofs.CrashLemmas1
namespace RaftWal.Crash

/-- the identifiers of the files present -/
def fids (d : Disk) : List Nat := d.files.map (·.id)

/-! ### the file updates of the actions -/

def File.wr (es : List Entry) (sl : Bool) (f : File) : File :=
  { f with pending := f.pending ++ es, sealedP := f.sealedP || sl }
def File.fs (f : File) : File :=
  { f with synced := f.synced ++ f.pending, pending := [], sealedS := f.sealedS || f.sealedP, sealedP := false, hsynced := true }
def File.lk (f : File) : File := { f with linked := true }
def File.unh (f : File) : File := { f with hsynced := false }
def File.fresh (id base : Nat) : File :=
  { id := id, base := base, synced := [], pending := [], sealedS := false, sealedP := false, linked := false, hsynced := false }

@[simp] theorem File.wr_id (es sl) (f : File) : (f.wr es sl).id = f.id := rfl
@[simp] theorem File.fs_id (f : File) : f.fs.id = f.id := rfl
@[simp] theorem File.lk_id (f : File) : f.lk.id = f.id := rfl
@[simp] theorem File.unh_id (f : File) : f.unh.id = f.id := rfl

/-! ### lookup in a list of files -/

def look (fs : List File) (j : Nat) : Option File := fs.find? (fun f => decide (f.id = j))

theorem file?_eq_look (d : Disk) (j : Nat) : d.file? j = look d.files j := rfl

theorem look_some {fs : List File} {j : Nat} {f : File} (h : look fs j = some f) : f ∈ fs ∧ f.id = j := by
  unfold look at h
  exact ⟨List.mem_of_find?_eq_some h, by simpa using List.find?_some h⟩

theorem look_none {fs : List File} {j : Nat} : look fs j = none ↔ j ∉ fs.map (·.id) := by
  unfold look
  simp only [List.find?_eq_none, decide_eq_true_eq, List.mem_map, not_exists, not_and]

theorem look_of_mem {fs : List File} (hn : (fs.map (·.id)).Nodup) {f : File} (hf : f ∈ fs) : look fs f.id = some f := by
  induction fs with
  | nil => simp at hf
  | cons a l ih =>
    simp only [List.map_cons, List.nodup_cons, List.mem_map, not_exists, not_and] at hn
    simp only [List.mem_cons] at hf
    unfold look
    simp only [List.find?_cons]
    rcases hf with rfl | hf
    · simp
    · have : ¬ a.id = f.id := fun e => hn.1 f hf e.symm
      simp only [this, decide_false]
      exact ih hn.2 hf

theorem look_map (fs : List File) (h : File → File) (hid : ∀ f, (h f).id = f.id) (j : Nat) :
    look (fs.map h) j = (look fs j).map h := by
  unfold look
  induction fs with
  | nil => rfl
  | cons a l ih =>
    simp only [List.map_cons, List.find?_cons, hid]
    split <;> simp [ih]

theorem look_updFile (fs : List File) (id : Nat) (g : File → File) (hg : ∀ f, (g f).id = f.id) (j : Nat) :
    look (updFile fs id g) j = if j = id then (look fs j).map g else look fs j := by
  unfold updFile
  rw [look_map _ _ (by intro f; split <;> simp [hg])]
  cases h : look fs j with
  | none => simp
  | some f =>
    have := (look_some h).2
    subst this
    by_cases e : f.id = id <;> simp [e]

theorem look_filter_ne (fs : List File) (id j : Nat) :
    look (fs.filter (fun f => decide (f.id ≠ id))) j = if j = id then none else look fs j := by
  unfold look
  induction fs with
  | nil => simp
  | cons a l ih =>
    simp only [List.filter_cons]
    by_cases e : a.id = id
    · simp only [e, ne_eq, not_true_eq_false, decide_false, Bool.false_eq_true, ↓reduceIte, List.find?_cons]
      rw [ih]
      by_cases e2 : j = id
      · simp [e2]
      · have : ¬ id = j := fun h => e2 h.symm
        simp [e2, this]
    · simp only [ne_eq, e, not_false_eq_true, decide_true, ↓reduceIte, List.find?_cons]
      rw [ih]
      by_cases e2 : a.id = j
      · have : ¬ j = id := fun h => e (e2.trans h)
        simp [e2, this]
      · simp [e2]

theorem look_append_single (fs : List File) (nf : File) (j : Nat) :
    look (fs ++ [nf]) j = match look fs j with | some f => some f | none => if nf.id = j then some nf else none := by
  unfold look
  rw [List.find?_append]
  cases List.find? (fun f => decide (f.id = j)) fs with
  | none => by_cases e : nf.id = j <;> simp [e]
  | some f => simp

theorem look_filterMap (fs : List File) (hn : (fs.map (·.id)).Nodup) (h : File → Option File)
    (hid : ∀ f f', h f = some f' → f'.id = f.id) (j : Nat) :
    look (fs.filterMap h) j = (look fs j).bind h := by
  induction fs with
  | nil => rfl
  | cons a l ih =>
    simp only [List.map_cons, List.nodup_cons] at hn
    have ih := ih hn.2
    unfold look at ih ⊢
    simp only [List.filterMap_cons, List.find?_cons]
    by_cases e : a.id = j
    · simp only [e, decide_true]
      cases hh : h a with
      | none =>
        simp only [Option.bind_some, hh]
        rw [ih]
        have : List.find? (fun f => decide (f.id = j)) l = none := by
          have := look_none (fs := l) (j := j)
          unfold look at this
          rw [this, ← e]; exact hn.1
        rw [this]; rfl
      | some a' =>
        have := hid _ _ hh
        simp [this, e, hh]
    · simp only [e, decide_false]
      cases hh : h a with
      | none => simpa using ih
      | some a' =>
        have := hid _ _ hh
        simp only [List.find?_cons, this, e, decide_false]
        simpa using ih

/-! ### the actions -/

@[simp] theorem apply_ack (d : Disk) : d.apply .ack = d := rfl
@[simp] theorem apply_commit_md (d : Disk) (m : Meta) : (d.apply (.commit m)).md = m := rfl
@[simp] theorem apply_commit_files (d : Disk) (m : Meta) : (d.apply (.commit m)).files = d.files := rfl
@[simp] theorem apply_commit_file? (d : Disk) (m : Meta) (j : Nat) : (d.apply (.commit m)).file? j = d.file? j := rfl
@[simp] theorem apply_write_md (d : Disk) (id es sl) : (d.apply (.write id es sl)).md = d.md := rfl
@[simp] theorem apply_fsync_md (d : Disk) (id) : (d.apply (.fsync id)).md = d.md := rfl
@[simp] theorem apply_delete_md (d : Disk) (id) : (d.apply (.delete id)).md = d.md := rfl
@[simp] theorem apply_create_md (d : Disk) (id b) : (d.apply (.create id b)).md = d.md := by
  simp only [Disk.apply]; split <;> rfl

theorem apply_write_file? (d : Disk) (id : Nat) (es : List Entry) (sl : Bool) (j : Nat) :
    (d.apply (.write id es sl)).file? j = if j = id then (d.file? j).map (File.wr es sl) else d.file? j := by
  simp only [file?_eq_look, Disk.apply]
  exact look_updFile d.files id (File.wr es sl) (fun _ => rfl) j

/-- does this fsync also fsync the directory -/
def dirSync (d : Disk) (id : Nat) : Bool := match d.file? id with | some f => !f.hsynced | none => false

theorem apply_fsync_file? (d : Disk) (id : Nat) (j : Nat) :
    (d.apply (.fsync id)).file? j =
      ((if j = id then (d.file? j).map File.fs else d.file? j).map (fun f => if dirSync d id then f.lk else f)) := by
  simp only [file?_eq_look, Disk.apply]
  have h1 := look_updFile d.files id File.fs (fun _ => rfl) j
  show look (if dirSync d id then _ else _) j = _
  cases dirSync d id with
  | false =>
    simp only [Bool.false_eq_true, ↓reduceIte]
    rw [show (updFile d.files id fun f => { f with synced := f.synced ++ f.pending, pending := [], sealedS := f.sealedS || f.sealedP, sealedP := false, hsynced := true }) = updFile d.files id File.fs from rfl, h1]
    simp
  | true =>
    simp only [↓reduceIte]
    rw [show (updFile d.files id fun f => { f with synced := f.synced ++ f.pending, pending := [], sealedS := f.sealedS || f.sealedP, sealedP := false, hsynced := true }) = updFile d.files id File.fs from rfl]
    show look (List.map File.lk (updFile d.files id File.fs)) j = _
    rw [look_map _ File.lk (fun _ => rfl), h1]

theorem apply_delete_file? (d : Disk) (id j : Nat) :
    (d.apply (.delete id)).file? j = if j = id then none else d.file? j := by
  simp only [file?_eq_look, Disk.apply]
  exact look_filter_ne d.files id j

theorem apply_create_file? (d : Disk) (id b : Nat) (h : d.file? id = none) (j : Nat) :
    (d.apply (.create id b)).file? j = if j = id then some (File.fresh id b) else d.file? j := by
  simp only [Disk.apply, h, Option.isSome_none, Bool.false_eq_true, ↓reduceIte, file?_eq_look]
  rw [look_append_single]
  by_cases e : j = id
  · subst e
    rw [file?_eq_look] at h
    simp [h, File.fresh]
  · have : ¬ id = j := fun h => e h.symm
    simp only [e, ↓reduceIte, this]
    cases look d.files j <;> rfl

/-! ### the identifiers present -/

@[simp] theorem fids_commit (d : Disk) (m : Meta) : fids (d.apply (.commit m)) = fids d := rfl
@[simp] theorem fids_write (d : Disk) (id es sl) : fids (d.apply (.write id es sl)) = fids d := by
  simp only [fids, Disk.apply, updFile, List.map_map]
  apply List.map_congr_left; intro f _; simp only [Function.comp]; split <;> rfl
@[simp] theorem fids_fsync (d : Disk) (id) : fids (d.apply (.fsync id)) = fids d := by
  have h1 : (updFile d.files id File.fs).map (·.id) = d.files.map (·.id) := by
    simp only [updFile, List.map_map]
    apply List.map_congr_left; intro f _; simp only [Function.comp]; split <;> rfl
  simp only [fids, Disk.apply]
  show List.map (·.id) (if dirSync d id then (updFile d.files id File.fs).map File.lk else updFile d.files id File.fs) = _
  cases dirSync d id with
  | false => exact h1
  | true =>
    rw [← h1]; simp only [↓reduceIte, List.map_map]
    apply List.map_congr_left; intro f _; rfl
theorem fids_delete (d : Disk) (id) : fids (d.apply (.delete id)) = (fids d).filter (fun j => decide (j ≠ id)) := by
  simp only [fids, Disk.apply, List.filter_map]; rfl
theorem fids_create (d : Disk) (id b : Nat) (h : d.file? id = none) : fids (d.apply (.create id b)) = fids d ++ [id] := by
  simp [fids, Disk.apply, h]

theorem file?_none_iff (d : Disk) (j : Nat) : d.file? j = none ↔ j ∉ fids d := look_none
theorem file?_some_mem {d : Disk} {j : Nat} {f : File} (h : d.file? j = some f) : f ∈ d.files ∧ f.id = j := look_some h
theorem file?_mem_fids {d : Disk} {j : Nat} {f : File} (h : d.file? j = some f) : j ∈ fids d := by
  have := look_some h
  exact List.mem_map.2 ⟨f, this.1, this.2⟩
theorem file?_of_mem {d : Disk} (hn : (fids d).Nodup) {f : File} (hf : f ∈ d.files) : d.file? f.id = some f :=
  look_of_mem hn hf

/-! ### crashes -/

@[simp] theorem crash_md (d : Disk) (c : CrashKind) : (d.crash c).md = d.md := by cases c <;> rfl

theorem afterPower_id {kp ku : Nat → Bool} {f f' : File} (h : f.afterPower kp ku = some f') : f'.id = f.id := by
  unfold File.afterPower at h
  split at h
  · cases h
  · cases h; rfl

theorem crash_proc_file? (d : Disk) (j : Nat) : (d.crash .proc).file? j = (d.file? j).map File.unh := by
  simp only [file?_eq_look, Disk.crash]
  exact look_map d.files File.unh (fun _ => rfl) j

theorem crash_power_file? (d : Disk) (hn : (fids d).Nodup) (kp ku : Nat → Bool) (j : Nat) :
    ((d.crash (.power kp ku)).file? j) = (d.file? j).bind (File.afterPower kp ku) := by
  simp only [file?_eq_look, Disk.crash]
  exact look_filterMap d.files hn _ (fun _ _ h => afterPower_id h) j

theorem fids_crash_proc (d : Disk) : fids (d.crash .proc) = fids d := by
  simp only [fids, Disk.crash, List.map_map]; rfl

theorem fids_crash_power (d : Disk) (kp ku : Nat → Bool) : (fids (d.crash (.power kp ku))).Sublist (fids d) := by
  simp only [fids, Disk.crash]
  induction d.files with
  | nil => simp
  | cons a l ih =>
    simp only [List.filterMap_cons, List.map_cons]
    cases h : a.afterPower kp ku with
    | none => exact ih.trans (List.sublist_cons_self _ _)
    | some a' =>
      simp only [List.map_cons, afterPower_id h]
      exact ih.cons_cons _

theorem fids_crash_sublist (d : Disk) (c : CrashKind) : (fids (d.crash c)).Sublist (fids d) := by
  cases c with
  | proc => rw [fids_crash_proc]; exact List.Sublist.refl _
  | power kp ku => exact fids_crash_power d kp ku

end RaftWal.Crash
