/-
  Proofs/CrashLemmas10.lean — the strengthened quiescent invariant `QS`; Open from a `Rec` state: it succeeds, every
  crash image of a prefix is again `Rec`, and its result is `QS` with an admissible log.
-/
import RaftWal.Proofs.CrashLemmas9
namespace RaftWal.Crash

structure QS (d : Disk) (P : List Seg) (t : Seg) (f : File) : Prop where
  base : Base d P t
  tf : d.file? t.id = some f
  qt : QTail t f
  vis : f.synced ≠ [] → t.min < f.base + f.synced.length
  sub : ∀ j ∈ fids d, j ∈ segIds (P ++ [t])

theorem QS.content {d : Disk} {P : List Seg} {t : Seg} {f : File} (h : QS d P t f) : f.content = f.synced := by
  simp [File.content, h.qt.pend]

theorem QS.log_eq {d : Disk} {P : List Seg} {t : Seg} {f : File} (h : QS d P t f) :
    absLog d = logP d P ++ visU t.min f.base f.synced := by
  rw [absLog_eq, h.base.segs, logP_append, logP_single, segEntries_some h.tf, visF_unsealed h.qt.sl, h.content]

theorem QS.toQInv {d : Disk} {P : List Seg} {t : Seg} {f : File} (h : QS d P t f) : QInv d P t :=
  ⟨h.base.segs, h.base.sealed, ⟨f, h.tf, h.qt⟩, h.base.chain, h.base.nodupS, h.base.idlt, h.base.nodupF, by
    intro g hg
    have := h.sub g.id (List.mem_map.2 ⟨g, hg, rfl⟩)
    obtain ⟨s, hs, e⟩ := List.mem_map.1 this
    exact ⟨s, hs, e⟩⟩

theorem QS.quiescent {d : Disk} {P : List Seg} {t : Seg} {f : File} (h : QS d P t f) : Quiescent d :=
  (quiescent_iff d).2 ⟨P, t, h.toQInv⟩

theorem QS.toRec {A : Log → Prop} {d : Disk} {P : List Seg} {t : Seg} {f : File} (h : QS d P t f)
    (ha : A (absLog d)) : Rec A d P t := by
  rw [h.log_eq] at ha
  refine ⟨h.base, ?_, ?_⟩
  · intro g hg
    rw [h.tf] at hg; cases hg
    refine ⟨h.qt.base, ?_, h.qt.mn, h.vis, ?_, ?_, ha, ?_⟩
    · rcases h.qt.lk with h1 | h1
      · exact Or.inl h1
      · exact Or.inr ⟨h1, h.qt.ss⟩
    · intro hc; rw [h.qt.ss] at hc; cases hc
    · intro hc; rw [h.qt.sp] at hc; cases hc
    · rw [h.qt.pend, List.append_nil]; exact ha
  · intro hn; rw [h.tf] at hn; cases hn

theorem Rec.toQS {A : Log → Prop} {d : Disk} {P : List Seg} {t : Seg} (h : Rec A d P t) (hc : CleanTail d t)
    (hsub : ∀ j ∈ fids d, j ∈ segIds (P ++ [t])) : ∃ f, QS d P t f ∧ A (absLog d) := by
  obtain ⟨f, hf, hp, hss, hsp⟩ := hc
  have hr := h.tsome f hf
  have hq : QS d P t f := by
    refine ⟨h.base, hf, ⟨hr.base, hp, hsp, h.base.tbm, h.base.tb1, h.base.tsl, hss, ?_, hr.mn⟩, hr.vis, hsub⟩
    rcases hr.lk with h1 | h1
    · exact Or.inl h1
    · exact Or.inr h1.1
  exact ⟨f, hq, by rw [hq.log_eq]; exact hr.a1⟩

/-! ### deleting the orphans -/

theorem deletes_md (ids : List Nat) (d : Disk) : (d.applyAll (ids.map .delete)).md = d.md := by
  induction ids generalizing d with
  | nil => rfl
  | cons a l ih => simp [ih]

theorem deletes_file? (ids : List Nat) (d : Disk) (j : Nat) (hj : j ∉ ids) :
    (d.applyAll (ids.map .delete)).file? j = d.file? j := by
  induction ids generalizing d with
  | nil => rfl
  | cons a l ih =>
    simp only [List.mem_cons, not_or] at hj
    simp only [List.map_cons, applyAll_cons]
    rw [ih _ hj.2, apply_delete_file?]; simp [hj.1]

theorem deletes_fids (ids : List Nat) (d : Disk) (j : Nat) (hj : j ∈ fids (d.applyAll (ids.map .delete))) :
    j ∈ fids d ∧ j ∉ ids := by
  induction ids generalizing d with
  | nil => exact ⟨hj, by simp⟩
  | cons a l ih =>
    simp only [List.map_cons, applyAll_cons] at hj
    have := ih _ hj
    rw [fids_delete] at this
    simp only [List.mem_filter, decide_eq_true_eq] at this
    exact ⟨this.1.1, by simp [this.1.2, this.2]⟩

/-- the identifiers Open removes -/
def orphanIds (d : Disk) : List Nat :=
  (d.files.filter (fun f => !d.md.segs.any (·.id = f.id))).map (·.id)

theorem orphanDeletes_eq (d : Disk) : orphanDeletes d d.md = (orphanIds d).map .delete := by
  simp [orphanDeletes, orphanIds, List.map_map, Function.comp_def]

theorem mem_orphanIds {d : Disk} {j : Nat} : j ∈ orphanIds d ↔ j ∈ fids d ∧ j ∉ segIds d.md.segs := by
  simp only [orphanIds, List.mem_map, List.mem_filter, Bool.not_eq_eq_eq_not, Bool.not_true, List.any_eq_false,
    decide_eq_true_eq, fids, segIds, not_exists, not_and]
  constructor
  · rintro ⟨f, ⟨hf, hn⟩, rfl⟩
    exact ⟨⟨f, hf, rfl⟩, fun s hs e => hn s hs e⟩
  · rintro ⟨⟨f, hf, rfl⟩, hn⟩
    exact ⟨f, ⟨hf, fun s hs e => hn s hs e⟩, rfl⟩

/-! ### Open -/

def RecE (A : Log → Prop) (d : Disk) : Prop := ∃ P t, Rec A d P t

theorem open_isSome {A : Log → Prop} {d : Disk} (h : RecE A d) : (openProg d).isSome = true := by
  obtain ⟨P, t, h⟩ := h
  rw [open_shape h]; rfl

theorem orphan_ne {A : Log → Prop} {d d' : Disk} {P P' : List Seg} {t t' : Seg} (h : Rec A d P t)
    (hp : PreRes A d P t d' P' t') {j : Nat} (hj : j ∈ orphanIds d) : ∀ s ∈ P' ++ [t'], s.id ≠ j := by
  intro s hs e
  have hj' := mem_orphanIds.1 hj
  rcases hp.orph s hs with h1 | h1
  · apply hj'.2; rw [h.base.segs, ← e]; exact h1
  · have := h.base.fidlt j hj'.1; omega

theorem open_steps {A : Log → Prop} {d : Disk} (h : RecE A d) {as : List Act} (ho : openProg d = some as)
    (k : Nat) (c : CrashKind) : RecE A (crashAfter d as k c) := by
  obtain ⟨P, t, h⟩ := h
  rw [open_shape h] at ho
  cases ho
  obtain ⟨P', t', hp, _⟩ := open_pre_steps h k
  unfold crashAfter
  rw [List.take_append, applyAll_append]
  refine ⟨P', t', Rec.crash ?_ c⟩
  apply hp.rc.deletes
  intro a ha
  have ha' := List.mem_of_mem_take ha
  rw [orphanDeletes_eq] at ha'
  obtain ⟨j, hj, rfl⟩ := List.mem_map.1 ha'
  exact Or.inr ⟨j, rfl, orphan_ne h hp hj⟩

theorem open_final {A : Log → Prop} {d d' : Disk} (h : RecE A d) (ho : openResult d = some d') :
    (∃ P t f, QS d' P t f) ∧ A (absLog d') ∧ d'.md.stable = d.md.stable := by
  obtain ⟨P, t, h⟩ := h
  unfold openResult at ho
  rw [open_shape h] at ho
  simp only [Option.map_some, Option.some.injEq] at ho
  subst ho
  obtain ⟨P', t', hp, hc⟩ := open_pre_steps h (openPre d t).length
  rw [List.take_length] at hp hc
  have hc := hc (Nat.le_refl _)
  rw [applyAll_append, orphanDeletes_eq]
  have hne : ∀ j ∈ orphanIds d, ∀ s ∈ P' ++ [t'], s.id ≠ j := fun j hj => orphan_ne h hp hj
  have hrec : Rec A ((d.applyAll (openPre d t)).applyAll ((orphanIds d).map .delete)) P' t' := by
    apply hp.rc.deletes
    intro a ha
    obtain ⟨j, hj, rfl⟩ := List.mem_map.1 ha
    exact Or.inr ⟨j, rfl, hne j hj⟩
  have hclean : CleanTail ((d.applyAll (openPre d t)).applyAll ((orphanIds d).map .delete)) t' := by
    obtain ⟨f, hf, hrest⟩ := hc
    refine ⟨f, ?_, hrest⟩
    rw [deletes_file? _ _ _ (fun hj => hne _ hj t' (by simp) rfl)]
    exact hf
  have hsub : ∀ j ∈ fids ((d.applyAll (openPre d t)).applyAll ((orphanIds d).map .delete)), j ∈ segIds (P' ++ [t']) := by
    intro j hj
    have := deletes_fids _ _ _ hj
    rcases hp.fsub j this.1 with h1 | h1
    · apply hp.ids
      rw [← h.base.segs]
      apply Classical.byContradiction
      intro hn
      exact this.2 (mem_orphanIds.2 ⟨h1, hn⟩)
    · exact h1
  obtain ⟨f, hq, ha⟩ := hrec.toQS hclean hsub
  exact ⟨⟨P', t', f, hq⟩, ha, by rw [deletes_md]; exact hp.stable⟩

end RaftWal.Crash
