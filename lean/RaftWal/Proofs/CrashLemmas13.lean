/-
  Proofs/CrashLemmas13.lean — the rotation that follows a sealing append.
-/
import RaftWal.Proofs.CrashLemmas12
namespace RaftWal.Crash

/-- the sealed version of the tail and the tail that follows it -/
def sealSeg (t : Seg) (mx : Nat) : Seg := { t with sealed := true, max := mx }
def rotCommit (d : Disk) (P : List Seg) (t : Seg) (mx : Nat) : Act :=
  .commit ⟨d.md.nextID + 1, P ++ [sealSeg t mx] ++ [newSeg d.md.nextID (mx + 1)], d.md.stable⟩

theorem rotateActs_eq {d : Disk} {P : List Seg} {t : Seg} {f : File} (hb : Base d P t) (hf : d.file? t.id = some f) :
    rotateActs d = [rotCommit d P t f.lastIdx, .create d.md.nextID (f.lastIdx + 1)] := by
  have h3 : (P ++ [t]).getLast? = some t := by simp
  unfold rotateActs rotCommit sealSeg
  simp only [hb.segs, h3, hf, newTailActs]
  rw [setSeg_tail (t' := { t with sealed := true, max := f.lastIdx }) hb.tid_ne rfl]

theorem Rec.rotate_full {A : Log → Prop} {d : Disk} {P : List Seg} {t : Seg} (h : Rec A d P t) {f : File}
    (hf : d.file? t.id = some f) (hss : f.sealedS = true) :
    Rec A (d.apply (rotCommit d P t f.lastIdx)) (P ++ [sealSeg t f.lastIdx]) (newSeg d.md.nextID (f.lastIdx + 1)) := by
  have hr := h.tsome f hf
  have hs := hr.ss hss
  have hlen : 0 < f.synced.length := List.length_pos_iff.2 hs.2.2
  have hvis := hr.vis hs.2.2
  have hc : f.content = f.synced := by simp [File.content, hs.1]
  have hli : f.lastIdx = f.base + f.synced.length - 1 := by simp [File.lastIdx, hc]
  exact h.rotate hf hss f.lastIdx (by omega) (by omega) d.md.stable (by
    rw [visF_sealed_full _ _ _ (by rw [hc]; omega), hc]
    exact hr.a1)

/-- commit of the rotation, then creation of the next tail's file -/
theorem rotate_create {A : Log → Prop} {d : Disk} {P : List Seg} {t : Seg} (h : Rec A d P t) {f : File}
    (hf : d.file? t.id = some f) (hss : f.sealedS = true) :
    let d3 := d.apply (rotCommit d P t f.lastIdx)
    let d4 := d3.apply (.create d.md.nextID (f.lastIdx + 1))
    Rec A d3 (P ++ [sealSeg t f.lastIdx]) (newSeg d.md.nextID (f.lastIdx + 1)) ∧
    Rec A d4 (P ++ [sealSeg t f.lastIdx]) (newSeg d.md.nextID (f.lastIdx + 1)) ∧
    CleanTail d4 (newSeg d.md.nextID (f.lastIdx + 1)) ∧ fids d4 = fids d ++ [d.md.nextID] ∧ fids d3 = fids d := by
  intro d3 d4
  have h3 : Rec A d3 _ _ := h.rotate_full hf hss
  have hnone : d3.file? (newSeg d.md.nextID (f.lastIdx + 1)).id = none := by
    simp only [d3, rotCommit, apply_commit_file?, newSeg]
    rw [file?_none_iff]
    intro hc; exact Nat.lt_irrefl _ (h.base.fidlt _ hc)
  have h4 : Rec A d4 _ _ := h3.create hnone
  refine ⟨h3, h4, ⟨File.fresh d.md.nextID (f.lastIdx + 1), ?_, rfl, rfl, rfl⟩, ?_, rfl⟩
  · have := apply_create_file? d3 _ (f.lastIdx + 1) hnone d.md.nextID
    simpa [newSeg] using this
  · exact fids_create d3 _ (f.lastIdx + 1) hnone

/-- what follows the acknowledgement of an append -/
def appPost (d : Disk) (tid : Nat) (es : List Entry) (sl : Bool) (ids : List Nat) : List Act :=
  if sl then rotateActs (appState d tid es sl ids) else []

theorem appState_md (d : Disk) (tid : Nat) (es : List Entry) (sl : Bool) (ids : List Nat) :
    (appState d tid es sl ids).md = d.md := by
  unfold appState; rw [deletes_md]; rfl

theorem appState_fids (d : Disk) (tid : Nat) (es : List Entry) (sl : Bool) (ids : List Nat) (j : Nat)
    (hj : j ∈ fids (appState d tid es sl ids)) : j ∈ fids d ∧ j ∉ ids := by
  unfold appState at hj
  have := deletes_fids _ _ _ hj
  simpa using this

theorem app_post {d : Disk} {P : List Seg} {t : Seg} {f : File} (h : QO d P t f) (es : List Entry) (sl : Bool)
    (hes : es ≠ []) (ids : List Nat) (hid : ∀ j ∈ ids, ∀ s ∈ P ++ [t], s.id ≠ j) :
    (∀ k, RecE (fun l => l = appLog d P t f es)
      ((appState d t.id es sl ids).applyAll ((appPost d t.id es sl ids).take k))) ∧
    ∃ P' t' f', QO ((appState d t.id es sl ids).applyAll (appPost d t.id es sl ids)) P' t' f' ∧
      absLog ((appState d t.id es sl ids).applyAll (appPost d t.id es sl ids)) = appLog d P t f es ∧
      (∀ j ∈ segIds (P ++ [t]), j ∈ segIds (P' ++ [t'])) ∧
      (∀ j ∈ fids ((appState d t.id es sl ids).applyAll (appPost d t.id es sl ids)),
        (j ∈ fids d ∧ j ∉ ids) ∨ j ∈ segIds (P' ++ [t'])) := by
  obtain ⟨h2, f2, hf2, g1, g2, g3, g4, g5⟩ := app_ack h es sl hes ids hid
  cases sl with
  | false =>
    simp only [appPost, Bool.false_eq_true, ↓reduceIte, List.take_nil, applyAll_nil]
    refine ⟨fun _ => ⟨P, t, h2⟩, ?_⟩
    obtain ⟨f', hq, ha⟩ := h2.toQO ⟨f2, hf2, g3, g4, g5⟩
    exact ⟨P, t, f', hq, ha, fun _ hj => hj, fun j hj => Or.inl (appState_fids _ _ _ _ _ _ hj)⟩
  | true =>
    have hrot := rotateActs_eq h2.base hf2
    obtain ⟨h3, h4, hc, hfid4, hfid3⟩ := rotate_create h2 hf2 g4
    simp only [appPost, ↓reduceIte, hrot]
    constructor
    · intro k
      rcases k with _ | _ | k
      · exact ⟨P, t, by simpa using h2⟩
      · exact ⟨_, _, by simpa using h3⟩
      · exact ⟨_, _, by simpa using h4⟩
    · obtain ⟨f', hq, ha⟩ := h4.toQO hc
      refine ⟨_, _, f', by simpa using hq, by simpa using ha, ?_, ?_⟩
      · intro j hj
        simp only [segIds, sealSeg, List.map_append, List.map_cons, List.map_nil, List.mem_append, List.mem_cons,
          List.not_mem_nil, or_false] at hj ⊢
        rcases hj with hj | hj
        · exact Or.inl (Or.inl hj)
        · exact Or.inl (Or.inr hj)
      · intro j hj
        simp only [applyAll_cons, applyAll_nil, hfid4, List.mem_append, List.mem_cons, List.not_mem_nil,
          or_false] at hj
        rcases hj with hj | rfl
        · exact Or.inl (appState_fids _ _ _ _ _ _ hj)
        · exact Or.inr (by simp [segIds, newSeg])

end RaftWal.Crash
