/-
  Proofs/FaultLemmasA5.lean — StoreLogs cut into its phases (base-index reset, append, deferred deletion, background
  rotation); the rotation phase.
-/
import RaftWal.Proofs.FaultLemmasA4
namespace RaftWal.Fault.A
open RaftWal.Crash

/-- the background rotation: its errors are logged; a failing Create stops the process -/
def rotPhase (d3 : Disk) (k3 : Plan) : Proc :=
  match runActs d3 (rotateActs (vdisk d3)) k3 with
  | (d4, some a, _) => if isCreate a then { disk := d4, frozen := some d3.md.segs } else { disk := d4 }
  | (d4, none, _) => { disk := d4 }

/-- append, deferred deletion, rotation -/
def appendPhase (d1 : Disk) (tid : Nat) (es : List Entry) (seals : Bool) (del : List Act) (k1 : Plan) : Proc × Bool :=
  match runActs d1 [.write tid es seals, .fsync tid] k1 with
  | (d2, f2, k2) =>
    match runActs d2 del k2 with
    | (d3, _, k3) =>
      if f2.isSome then ({ disk := d3 }, false)
      else if seals then (rotPhase d3 k3, true)
      else ({ disk := d3 }, true)

/-- what follows the base-index reset -/
def afterReset (p : Proc) (es : List Entry) (seals : Bool) (del : List Act)
    (r : Disk × Option Act × Plan) : Proc × Bool :=
  match r with
  | (d1, some a, _) => if isCreate a then ({ disk := d1, frozen := some p.disk.md.segs }, false) else ({ disk := d1 }, false)
  | (d1, none, k1) =>
    match (vdisk d1).md.segs.getLast? with
    | none => ({ disk := d1 }, false)
    | some t => if tailSealedMem (vdisk d1) then ({ disk := d1 }, false) else appendPhase d1 t.id es seals del k1

theorem runOp_store_eq (p : Proc) (hfz : p.frozen = none) (first : Nat) (es : List Entry) (seals : Bool)
    (pl : Plan) :
    runOp p (.store first es seals) pl =
      afterReset p es seals (resetActs (vdisk p.disk) first).2
        (runActs p.disk (resetActs (vdisk p.disk) first).1 pl) := by
  unfold runOp
  simp only [hfz, Option.isSome_none, Bool.false_eq_true, ↓reduceIte]
  generalize runActs p.disk (resetActs (vdisk p.disk) first).1 pl = r1
  obtain ⟨d1, f1, k1⟩ := r1
  cases f1 with
  | some a => rfl
  | none =>
    simp only [afterReset]
    cases (vdisk d1).md.segs.getLast? with
    | none => rfl
    | some t =>
      simp only
      split
      · rfl
      · unfold appendPhase
        generalize runActs d1 [Act.write t.id es seals, Act.fsync t.id] k1 = r2
        obtain ⟨d2, f2, k2⟩ := r2
        simp only
        generalize runActs d2 (resetActs (vdisk p.disk) first).2 k2 = r3
        obtain ⟨d3, f3, k3⟩ := r3
        simp only
        split
        · rfl
        · split
          · unfold rotPhase
            generalize runActs d3 (rotateActs (vdisk d3)) k3 = r4
            obtain ⟨d4, f4, k4⟩ := r4
            cases f4 with
            | none => rfl
            | some a =>
              simp only
              split <;> rfl
          · rfl

/-! ### `runActs` on the two pairs of actions of StoreLogs -/

/-- commit then create under any plan: the commit fails, or the create fails, or both go through -/
theorem runActs_commit_create (d : Disk) (m : Meta) (i b : Nat) (pl : Plan) :
    (∃ rest, runActs d [.commit m, .create i b] pl = (d, some (.commit m), rest)) ∨
    (∃ rest, runActs d [.commit m, .create i b] pl = (d.apply (.commit m), some (.create i b), rest)) ∨
    (∃ rest, runActs d [.commit m, .create i b] pl = ((d.apply (.commit m)).apply (.create i b), none, rest)) := by
  match pl with
  | [] => exact Or.inr (Or.inr ⟨[], by rw [runActs_cons_nil, runActs_cons_nil, runActs_nil]; rfl⟩)
  | some wf :: pl => exact Or.inl ⟨pl, runActs_fail_commit d wf m _ pl⟩
  | [none] => exact Or.inr (Or.inr ⟨[], by rw [runActs_cons_none, runActs_cons_nil, runActs_nil]; rfl⟩)
  | none :: some wf :: pl => exact Or.inr (Or.inl ⟨pl, by rw [runActs_cons_none, runActs_fail_create]; rfl⟩)
  | none :: none :: pl =>
    exact Or.inr (Or.inr ⟨pl, by rw [runActs_cons_none, runActs_cons_none, runActs_nil]; rfl⟩)

/-- write then fsync under any plan: the write fails, or the fsync fails, or both go through -/
theorem runActs_write_fsync (d : Disk) (id : Nat) (es : List Entry) (sl : Bool) (pl : Plan) :
    (∃ wf rest, runActs d [.write id es sl, .fsync id] pl =
      (failEffect d wf (.write id es sl), some (.write id es sl), rest)) ∨
    (∃ rest, runActs d [.write id es sl, .fsync id] pl = (updT d id (setPend es sl), some (.fsync id), rest)) ∨
    (∃ rest, runActs d [.write id es sl, .fsync id] pl =
      ((updT d id (setPend es sl)).apply (.fsync id), none, rest)) := by
  match pl with
  | [] => exact Or.inr (Or.inr ⟨[], by rw [runActs_cons_nil, runActs_cons_nil, runActs_nil]; rfl⟩)
  | some wf :: pl => exact Or.inl ⟨wf, pl, runActs_fail_write d wf id es sl _ pl⟩
  | [none] => exact Or.inr (Or.inr ⟨[], by rw [runActs_cons_none, runActs_cons_nil, runActs_nil]; rfl⟩)
  | none :: some wf :: pl => exact Or.inr (Or.inl ⟨pl, by rw [runActs_cons_none, runActs_fail_fsync]; rfl⟩)
  | none :: none :: pl =>
    exact Or.inr (Or.inr ⟨pl, by rw [runActs_cons_none, runActs_cons_none, runActs_nil]; rfl⟩)

/-! ### the rotation phase -/

/-- the process `q` is in a state of the (strengthened) invariant, its readers see `L`, and its disk stands for `L` -/
def Good (q : Proc) (L : Log) : Prop := FInv q ∧ view q = L ∧ absLog q.disk = L ∧ fextraB q = true

theorem FRun.good {d : Disk} {P : List Seg} {t : Seg} {f : File} (h : FRun d P t f) (hp : f.pending = [])
    (hx : XT f) : Good { disk := d } (absLog (vdisk d)) :=
  ⟨h.finv, rfl, h.log_eq_view hp, fextraRun_of h hx⟩

theorem rotPhase_spec {d3 : Disk} {P : List Seg} {t : Seg} {f : File} (h : FRun d3 P t f) (hss : f.sealedS = true)
    (hne : f.synced ≠ []) (hlk : f.linked = true) (k3 : Plan) :
    Good (rotPhase d3 k3) (absLog (vdisk d3)) := by
  obtain ⟨hp, hsp⟩ := h.ft.ss hss
  have hrec := h.toRec hne hlk hp hsp
  obtain ⟨h3, h4, _, _, _⟩ := rotate_create hrec h.tf hss
  have hnone : d3.file? d3.md.nextID = none := nextID_none h.base.fidlt
  have hf4 : ((d3.apply (rotCommit d3 P t f.lastIdx)).apply (.create d3.md.nextID (f.lastIdx + 1))).file?
      (newSeg d3.md.nextID (f.lastIdx + 1)).id = some (File.fresh d3.md.nextID (f.lastIdx + 1)) := by
    have := apply_create_file? (d3.apply (rotCommit d3 P t f.lastIdx)) d3.md.nextID (f.lastIdx + 1) hnone d3.md.nextID
    simpa [newSeg] using this
  have hfull : Good { disk := (d3.apply (rotCommit d3 P t f.lastIdx)).apply (.create d3.md.nextID (f.lastIdx + 1)) }
      (absLog (vdisk d3)) := by
    have hr := FRun.of_rec h4 hf4
    have ht := h4.tsome _ hf4
    exact ⟨hr.finv, by rw [view_run, hr.view_eq]; exact ht.a1, by rw [hr.log_eq]; exact ht.a2,
      fextraRun_of hr (XT_of_noseal rfl rfl)⟩
  unfold rotPhase
  rw [rotateActs_vdisk h hp, show rotCommit d3 P t f.lastIdx = Act.commit
    ⟨d3.md.nextID + 1, P ++ [sealSeg t f.lastIdx] ++ [newSeg d3.md.nextID (f.lastIdx + 1)], d3.md.stable⟩ from rfl]
  rcases runActs_commit_create d3 ⟨d3.md.nextID + 1, P ++ [sealSeg t f.lastIdx] ++
      [newSeg d3.md.nextID (f.lastIdx + 1)], d3.md.stable⟩ d3.md.nextID (f.lastIdx + 1) k3 with
    ⟨rest, hr⟩ | ⟨rest, hr⟩ | ⟨rest, hr⟩
  · rw [hr]
    exact h.good hp (XT_of_synced hne)
  · rw [hr]
    simp only [isCreate, ↓reduceIte]
    refine ⟨?_, ?_, ?_, fextraStop_of_base h3.base rfl _⟩
    · exact finvStop_of (nt := newSeg d3.md.nextID (f.lastIdx + 1)) h.finv rfl rfl (by simp) rfl rfl h.base.fidlt
    · rw [view_stop]
      exact logP_files rfl _
    · have ht := (h3.tnone hnone).2
      have hs : segEntries (d3.apply (rotCommit d3 P t f.lastIdx)) (newSeg d3.md.nextID (f.lastIdx + 1)) = [] :=
        segEntries_none hnone
      show absLog (d3.apply (rotCommit d3 P t f.lastIdx)) = _
      rw [absLog_eq]
      show logP _ (P ++ [sealSeg t f.lastIdx] ++ [newSeg d3.md.nextID (f.lastIdx + 1)]) = _
      rw [logP_append, logP_single, hs, List.append_nil]
      exact ht
  · rw [hr]
    exact hfull

end RaftWal.Fault.A
