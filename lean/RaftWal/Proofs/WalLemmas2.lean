/-
  Proofs/WalLemmas2.lean — what the read-only calls observe in a state related to the specification:
  `findSegment`, `firstIndex`, `lastIndex`, `getLogRaw`.
-/
import RaftWal.Proofs.WalLemmas1
namespace RaftWal

/-! ## `findSegment` -/

theorem fs_some {segs : List (SegS × Rdr)} {idx : Nat} {c : SegS × Rdr}
    (h : findSegment segs idx = some c) :
    c ∈ segs ∧ c.1.min ≤ idx ∧ (c.1.max = 0 ∨ idx ≤ c.1.max) := by
  unfold findSegment at h
  simp only at h
  split at h
  · cases h
  · rename_i s rest hd
    have hs : s ∈ segs := by
      have : s ∈ List.drop (List.takeWhile (fun s => decide (s.1.base < idx)) segs).length segs := by
        rw [hd]; simp
      exact List.mem_of_mem_drop this
    split at h
    · cases h
    · rename_i c' hc
      split at h
      · rename_i hcond
        cases h
        refine ⟨?_, hcond.1, ?_⟩
        · split at hc
          · have := List.mem_of_getLast? hc
            exact (List.takeWhile_sublist _).subset this
          · cases hc; exact hs
        · rcases hcond.2 with h | h
          · exact Or.inl h
          · exact Or.inr h
      · cases h

theorem fs_hit {l1 l2 : List (SegS × Rdr)} {c d : SegS × Rdr} {idx : Nat}
    (hs : (l1 ++ c :: d :: l2).Pairwise SegLt)
    (hb : ∀ x ∈ l1, x.1.base ≤ x.1.max)
    (h1 : c.1.base ≤ c.1.min) (h2 : c.1.min ≤ idx) (h3 : idx ≤ c.1.max) :
    findSegment (l1 ++ c :: d :: l2) idx = some c := by
  rw [List.pairwise_append] at hs
  obtain ⟨_, hs2, hs3⟩ := hs
  rw [List.pairwise_cons] at hs2
  have hd : idx < d.1.base := by
    have := (hs2.1 d (by simp)).2.1
    omega
  have hl1 : ∀ a ∈ l1, decide (a.1.base < idx) = true := by
    intro a ha
    have := (hs3 a ha c (by simp)).2.1
    have := hb a ha
    simp; omega
  unfold findSegment
  simp only
  rw [List.takeWhile_append_of_pos hl1]
  by_cases hc : c.1.base < idx
  · have e : List.takeWhile (fun s : SegS × Rdr => decide (s.1.base < idx)) (c :: d :: l2) = [c] := by
      rw [List.takeWhile_cons_of_pos (by simpa using hc), List.takeWhile_cons_of_neg (by simp; omega)]
    rw [e]
    have e2 : List.drop (l1 ++ [c]).length (l1 ++ c :: d :: l2) = d :: l2 := by
      have : l1 ++ c :: d :: l2 = (l1 ++ [c]) ++ d :: l2 := by simp
      rw [this, List.drop_left]
    rw [e2]
    simp only [hd, if_true, List.getLast?_concat]
    have : c.1.min ≤ idx ∧ (c.1.max = 0 ∨ c.1.max ≥ idx) := ⟨h2, Or.inr h3⟩
    simp only [this, and_self, if_true]
  · have e : List.takeWhile (fun s : SegS × Rdr => decide (s.1.base < idx)) (c :: d :: l2) = [] := by
      rw [List.takeWhile_cons_of_neg (by simpa using hc)]
    rw [e, List.append_nil, List.drop_left]
    have : ¬ c.1.base > idx := by omega
    simp only [this, if_false]
    have : c.1.min ≤ idx ∧ (c.1.max = 0 ∨ c.1.max ≥ idx) := ⟨h2, Or.inr h3⟩
    simp only [this, and_self, if_true]

/-! ## shape of a related state -/

theorem shape {cfg : WalCfg} {nextID : Nat} {segs : List (SegS × Rdr)} {files : List FileL} {F : Nat}
    {es : List Log} (hc : Core cfg nextID segs files F es) (ht : TailOpen segs files) :
    ∃ pre t r ft, segs = pre ++ [(t, r)] ∧ t.sealed = false ∧ fileOf files t.id = some ft ∧
      ft.indexStart = 0 ∧ SegF cfg nextID F es t r ft ∧ ft.base + ft.entries.length = F + es.length ∧
      (∀ c ∈ pre, c.1.sealed = true ∧ c.1.max < t.base) := by
  obtain ⟨t, r, f, hl, hsl, hf, hi0⟩ := ht
  obtain ⟨pre, hpre⟩ := List.getLast?_eq_some_iff.mp hl
  obtain ⟨f', hf', hseg⟩ := hc.segOK t r (by rw [hpre]; simp)
  rw [hf] at hf'; cases hf'
  obtain ⟨t', f'', hl', hf'', hhi⟩ := hc.endE
  rw [hl] at hl'; cases hl'
  rw [hf] at hf''; cases hf''
  refine ⟨pre, t, r, f, hpre, hsl, hf, hi0, hseg, ?_, ?_⟩
  · simpa [hi, hsl] using hhi
  · intro c hcm
    have := hc.sorted
    rw [hpre, List.pairwise_append] at this
    have := this.2.2 c hcm (t, r) (by simp)
    exact ⟨this.1, this.2.1⟩

/-- the abstract log is non-empty as soon as the tail file has an entry -/
theorem es_pos_of_tail {cfg : WalCfg} {nextID F : Nat} {es : List Log} {t : SegS} {r : Rdr} {ft : FileL}
    (hseg : SegF cfg nextID F es t r ft) (hsl : t.sealed = false) (hlen : 0 < ft.entries.length) :
    0 < es.length := by
  have h1 := (hseg.tailOK hsl).2
  have h2 := hseg.basemin
  have h3 := hseg.fbase
  have := hseg.pt t.min (Nat.le_refl _) (by simp [hi, hsl]; omega)
  omega

/-- the abstract log is non-empty as soon as there is a sealed segment -/
theorem es_pos_of_sealed {cfg : WalCfg} {nextID F : Nat} {es : List Log} {c : SegS} {r : Rdr} {f : FileL}
    (hseg : SegF cfg nextID F es c r f) (hsl : c.sealed = true) :
    0 < es.length := by
  have h1 := (hseg.sealedOK hsl).1
  have := hseg.pt c.min (Nat.le_refl _) (by simp [hi, hsl]; omega)
  omega

theorem commitIdx_eq (f : FileL) : f.commitIdx = if 0 < f.entries.length then f.base + f.entries.length - 1 else 0 := by
  simp [FileL.commitIdx]

theorem tailCommitIdx_eq {w : Wal} {pre : List (SegS × Rdr)} {t : SegS} {r : Rdr} {ft : FileL}
    (hs : w.segs = pre ++ [(t, r)]) (hf : fileOf w.files t.id = some ft) :
    w.tailCommitIdx = ft.commitIdx := by
  simp [Wal.tailCommitIdx, Wal.tailSeg, hs, Wal.file?_eq, hf]

theorem lastIndex_eq {w : Wal} {F : Nat} {es : List Log}
    (hc : Core w.cfg w.nextID w.segs w.files F es) (ht : TailOpen w.segs w.files) :
    w.lastIndex = if es.length = 0 then 0 else F + es.length - 1 := by
  obtain ⟨pre, t, r, ft, hs, hsl, hf, hi0, hseg, hE, hpre⟩ := shape hc ht
  have htci := tailCommitIdx_eq hs hf
  unfold Wal.lastIndex lastIndexOf
  rw [htci, commitIdx_eq, hs]
  have hb1 := hseg.base1
  have hfb := hseg.fbase
  by_cases hlen : 0 < ft.entries.length
  · have := es_pos_of_tail hseg hsl hlen
    have e1 : ft.base + ft.entries.length - 1 > 0 := by omega
    simp only [hlen, if_true, e1]
    have : ¬ es.length = 0 := by omega
    simp only [this, if_false]; omega
  · simp only [hlen, if_false, Nat.lt_irrefl, List.reverse_append, List.reverse_cons, List.reverse_nil,
      List.nil_append, List.cons_append]
    cases hp : pre.reverse with
    | nil =>
      have : pre = [] := by simpa using hp
      subst this
      simp only []
      obtain ⟨c0, hh, hF⟩ := hc.headF
      rw [hs] at hh; simp at hh; subst hh
      have := (hseg.tailOK hsl).2
      have := hseg.basemin
      simp at hF
      have : es.length = 0 := by omega
      simp [this]
    | cons x xs =>
      simp only []
      have hx : x ∈ pre := by
        have : x ∈ pre.reverse := by rw [hp]; simp
        simpa using this
      obtain ⟨fx, _, hsx⟩ := hc.segOK x.1 x.2 (by rw [hs]; simp [hx])
      have := es_pos_of_sealed hsx (hpre x hx).1
      have h0 : ¬ t.base = 0 := by omega
      have : ¬ es.length = 0 := by omega
      simp only [h0, this, if_false]
      omega

theorem firstIndex_eq {w : Wal} {F : Nat} {es : List Log}
    (hc : Core w.cfg w.nextID w.segs w.files F es) (ht : TailOpen w.segs w.files) :
    w.firstIndex = if es.length = 0 then 0 else F := by
  obtain ⟨pre, t, r, ft, hs, hsl, hf, hi0, hseg, hE, hpre⟩ := shape hc ht
  have htci := tailCommitIdx_eq hs hf
  obtain ⟨c0, hh, hF⟩ := hc.headF
  obtain ⟨rest, hrest⟩ := List.head?_eq_some_iff.mp hh
  unfold Wal.firstIndex
  rw [htci, commitIdx_eq]
  rw [hrest]
  obtain ⟨c0, r0⟩ := c0
  simp only
  have hmem : (c0, r0) ∈ w.segs := by rw [hrest]; simp
  obtain ⟨f0, hf0, hs0⟩ := hc.segOK c0 r0 hmem
  cases hsl0 : c0.sealed
  · -- the first segment is the tail
    have : (c0, r0) = (t, r) := by
      rw [hs] at hmem
      rcases List.mem_append.mp hmem with h | h
      · have := (hpre _ h).1
        simp [hsl0] at this
      · simpa using h
    cases this
    have hpre0 : pre = [] := by
      cases pre with
      | nil => rfl
      | cons a l =>
        rw [hs] at hrest
        simp at hrest
        have := (hpre a (by simp)).1
        rw [hrest.1] at this
        simp [hsl0] at this
    subst hpre0
    by_cases hlen : 0 < ft.entries.length
    · have := es_pos_of_tail hseg hsl hlen
      have h1 := hseg.base1
      have h2 := hseg.fbase
      have e1 : ¬ (ft.base + ft.entries.length - 1 = 0) := by omega
      have : ¬ es.length = 0 := by omega
      simp [hlen, e1, this]; exact hF
    · have := (hseg.tailOK hsl).2
      have := hseg.basemin
      have h2 := hseg.fbase
      simp at hF
      have : es.length = 0 := by omega
      simp [hlen, this]
  · have := es_pos_of_sealed hs0 hsl0
    have : ¬ es.length = 0 := by omega
    simp [this]; exact hF

/-! ## reads -/

/-- abstract lookup -/
def look (F : Nat) (es : List Log) (idx : Nat) : Option Log := if F ≤ idx then es[idx - F]? else none

def ansOf : Option Log → Except Err Log
  | some l => .ok l
  | none => .error .notFound

theorem readVia_sealed {cfg : WalCfg} {nextID F : Nat} {es : List Log} {c : SegS} {r : Rdr} {f : FileL}
    (hseg : SegF cfg nextID F es c r f) (hsl : c.sealed = true) {idx : Nat} (h1 : c.min ≤ idx)
    (h2 : idx ≤ c.max) : readVia r f idx = ansOf (look F es idx) := by
  obtain ⟨hF, hlt, hpt⟩ := hseg.pt idx h1 (by simp [hi, hsl]; omega)
  have hso := hseg.sealedOK hsl
  have hb := hseg.basemin
  have hfb := hseg.fbase
  have hl : look F es idx = es[idx - F]? := by simp [look, hF]
  have hsome : ∃ l, es[idx - F]? = some l := ⟨es[idx - F]'(by omega), by simp⟩
  obtain ⟨l, hl2⟩ := hsome
  rw [hl, hl2]
  rw [hl2] at hpt
  have hr := hseg.rdr
  cases r with
  | writer fm =>
    simp only [RdrOK] at hr
    have : ¬ (idx < f.base ∨ idx < fm ∨ idx > f.commitIdx) := by
      rw [commitIdx_eq]; split <;> omega
    simp only [readVia, this, if_false, hpt, ansOf]
  | sealed mn mx is =>
    simp only [RdrOK] at hr
    obtain ⟨_, hr1, hr2, hr3⟩ := hr
    have e1 : ¬ (idx < mn ∨ (mx > 0 ∧ idx > mx)) := by omega
    have e2 : ¬ idx < f.base := by omega
    simp only [readVia, hr3, if_false, e1, e2, hpt, ansOf]


theorem readVia_tail_beyond {cfg : WalCfg} {nextID F : Nat} {es : List Log} {t : SegS} {r : Rdr} {ft : FileL}
    (hseg : SegF cfg nextID F es t r ft) (hsl : t.sealed = false) {idx : Nat} (h1 : t.min ≤ idx)
    (h2 : ft.base + ft.entries.length ≤ idx) : readVia r ft idx = .error .notFound := by
  have hr := hseg.rdr
  have := hseg.base1
  have := hseg.basemin
  cases r with
  | writer fm =>
    have : (idx < ft.base ∨ idx < fm ∨ idx > ft.commitIdx) := by
      rw [commitIdx_eq]; split <;> omega
    simp only [readVia, this, if_true]
  | sealed mn mx is =>
    simp [RdrOK, hsl] at hr

theorem readVia_tail_in {cfg : WalCfg} {nextID F : Nat} {es : List Log} {t : SegS} {r : Rdr} {ft : FileL}
    (hseg : SegF cfg nextID F es t r ft) (hsl : t.sealed = false) {idx : Nat} (h1 : t.min ≤ idx)
    (h2 : idx < ft.base + ft.entries.length) :
    ∃ l, look F es idx = some l ∧ readVia r ft idx = .ok l := by
  obtain ⟨hF, hlt, hpt⟩ := hseg.pt idx h1 (by simp [hi, hsl]; omega)
  have hr := hseg.rdr
  have := hseg.base1
  have := hseg.basemin
  have hfb := hseg.fbase
  have hl : look F es idx = es[idx - F]? := by simp [look, hF]
  obtain ⟨l, hl2⟩ : ∃ l, es[idx - F]? = some l := ⟨es[idx - F]'(by omega), by simp⟩
  rw [hl, hl2]
  rw [hl2] at hpt
  refine ⟨l, rfl, ?_⟩
  cases r with
  | writer fm =>
    simp only [RdrOK] at hr
    have : ¬ (idx < ft.base ∨ idx < fm ∨ idx > ft.commitIdx) := by
      rw [commitIdx_eq]; split <;> omega
    simp only [readVia, this, if_false, hpt]
  | sealed mn mx is =>
    simp [RdrOK, hsl] at hr

/-- the lookup through the segment map is right below the tail's range and beyond the end of the log -/
theorem viaSegs_eq {cfg : WalCfg} {nextID : Nat} {segs : List (SegS × Rdr)} {files : List FileL} {F : Nat}
    {es : List Log} (hc : Core cfg nextID segs files F es)
    {pre : List (SegS × Rdr)} {t : SegS} {r : Rdr} {ft : FileL}
    (hs : segs = pre ++ [(t, r)]) (hsl : t.sealed = false) (hf : fileOf files t.id = some ft)
    (hseg : SegF cfg nextID F es t r ft) (hE : ft.base + ft.entries.length = F + es.length)
    (hpre : ∀ c ∈ pre, c.1.sealed = true ∧ c.1.max < t.base)
    (idx : Nat) (hidx : idx < t.min ∨ F + es.length ≤ idx) :
    (match findSegment segs idx with
      | none => Except.error Err.notFound
      | some (s, r) => match fileOf files s.id with
        | none => .error .other
        | some f => readVia r f idx) = ansOf (look F es idx) := by
  by_cases hex : ∃ c ∈ pre, c.1.min ≤ idx ∧ idx ≤ c.1.max
  · obtain ⟨c, hcm, h1, h2⟩ := hex
    obtain ⟨l1, l2, hl⟩ := List.append_of_mem hcm
    obtain ⟨fc, hfc, hsc⟩ := hc.segOK c.1 c.2 (by rw [hs]; simp [hcm])
    have hne : l2 ++ [(t, r)] ≠ [] := by simp
    obtain ⟨d, l3, hd⟩ := List.exists_cons_of_ne_nil hne
    have hsegs : segs = l1 ++ c :: d :: l3 := by rw [hs, hl, ← hd]; simp
    have hfs : findSegment segs idx = some c := by
      rw [hsegs]
      apply fs_hit
      · rw [← hsegs]; exact hc.sorted
      · intro x hx
        have hxp : x ∈ pre := by rw [hl]; simp [hx]
        obtain ⟨fx, _, hsx⟩ := hc.segOK x.1 x.2 (by rw [hs]; simp [hxp])
        have := hsx.sealedOK (hpre x hxp).1
        have := hsx.basemin
        omega
      · exact hsc.basemin
      · exact h1
      · exact h2
    rw [hfs]
    simp only [hfc]
    exact readVia_sealed hsc (hpre c hcm).1 h1 h2
  · -- nothing below the tail holds idx: the abstract log does not have it
    have hlook : look F es idx = none := by
      unfold look
      split
      · rename_i hF
        by_cases hlt : idx < F + es.length
        · exfalso
          obtain ⟨c, rc, fc, hcm, hfc, h1, h2⟩ := hc.cover idx hF hlt
          rw [hs] at hcm
          rcases List.mem_append.mp hcm with h | h
          · have hsl' := (hpre _ h).1
            simp only at hsl'
            simp only [hi, hsl', if_true] at h2
            exact hex ⟨(c, rc), h, h1, by simp; omega⟩
          · simp at h
            obtain ⟨rfl, rfl⟩ := h
            omega
        · exact List.getElem?_eq_none (by omega)
      · rfl
    rw [hlook]
    cases hfs : findSegment segs idx with
    | none => rfl
    | some c' =>
      obtain ⟨hcm, h1, h2⟩ := fs_some hfs
      rw [hs] at hcm
      rcases List.mem_append.mp hcm with h | h
      · exfalso
        obtain ⟨fx, _, hsx⟩ := hc.segOK c'.1 c'.2 (by rw [hs]; simp [h])
        have := hsx.sealedOK (hpre _ h).1
        have := hsx.basemin
        have := hsx.base1
        exact hex ⟨c', h, h1, by omega⟩
      · simp at h
        subst h
        simp only [hf]
        apply readVia_tail_beyond hseg hsl h1
        simp only at h1
        omega

theorem getLogRaw_eq {w : Wal} {F : Nat} {es : List Log}
    (hc : Core w.cfg w.nextID w.segs w.files F es) (ht : TailOpen w.segs w.files) (idx : Nat) :
    w.getLogRaw idx = ansOf (look F es idx) := by
  obtain ⟨pre, t, r, ft, hs, hsl, hf, hi0, hseg, hE, hpre⟩ := shape hc ht
  have hv := viaSegs_eq hc hs hsl hf hseg hE hpre idx
  unfold Wal.getLogRaw
  simp only [Wal.tailSeg, hs, List.getLast?_concat, Wal.file?_eq, hf]
  rw [← hs]
  by_cases h1 : idx < t.min
  · simp only [h1, if_true]
    exact hv (Or.inl h1)
  · simp only [h1, if_false]
    by_cases h2 : idx < ft.base + ft.entries.length
    · obtain ⟨l, hl1, hl2⟩ := readVia_tail_in hseg hsl (Nat.le_of_not_lt h1) h2
      rw [hl1, hl2]; rfl
    · rw [readVia_tail_beyond hseg hsl (by omega) (by omega)]
      simp only
      exact hv (Or.inr (by omega))

end RaftWal
