/-
  Proofs/WalLemmas1.lean — simulation relation between the WAL model and the
  contiguous-log specification, and basic facts about the directory lookups.
-/
import RaftWal.Model.WalRun
namespace RaftWal

/-! ## directory lookups -/

/-- `Wal.file?` on a bare directory -/
def fileOf (files : List FileL) (id : Nat) : Option FileL := files.find? (·.id = id)

theorem Wal.file?_eq (w : Wal) (id : Nat) : w.file? id = fileOf w.files id := rfl

theorem fileOf_some_id {files : List FileL} {id : Nat} {f : FileL} (h : fileOf files id = some f) :
    f.id = id := by
  have := List.find?_some h
  simpa using this

theorem fileOf_some_mem {files : List FileL} {id : Nat} {f : FileL} (h : fileOf files id = some f) :
    f ∈ files := List.mem_of_find?_eq_some h

theorem fileOf_append_of_some {files : List FileL} {id : Nat} {f : FileL} (g : List FileL)
    (h : fileOf files id = some f) : fileOf (files ++ g) id = some f := by
  simp only [fileOf] at h ⊢
  rw [List.find?_append, h]; rfl

theorem fileOf_eq_none_of_lt {files : List FileL} {n id : Nat} (h : ∀ f ∈ files, f.id < n) (hid : n ≤ id) :
    fileOf files id = none := by
  simp only [fileOf, List.find?_eq_none]
  intro f hf
  have := h f hf
  simp; omega

theorem fileOf_append_new {files : List FileL} {n : Nat} (h : ∀ f ∈ files, f.id < n) (g : FileL)
    (hg : g.id = n) : fileOf (files ++ [g]) n = some g := by
  have h0 := fileOf_eq_none_of_lt h (Nat.le_refl n)
  simp only [fileOf] at h0 ⊢
  rw [List.find?_append, h0]
  simp [hg]

theorem fileOf_updFile (files : List FileL) (g : FileL) (id : Nat) :
    fileOf (updFile files g) id =
      if id = g.id then (fileOf files id).map (fun _ => g) else fileOf files id := by
  induction files with
  | nil => simp [fileOf, updFile]
  | cons a l ih =>
    simp only [fileOf, updFile] at ih ⊢
    simp only [List.map_cons, List.find?_cons]
    by_cases h1 : a.id = g.id
    · by_cases h2 : id = g.id
      · simp [h1, h2]
      · have : ¬ a.id = id := by omega
        have h3 : ¬ g.id = id := by omega
        simp only [h1, if_true, h3, decide_false, h2, if_false] at ih ⊢
        exact ih
    · by_cases h2 : id = g.id
      · have : ¬ a.id = id := by omega
        simp only [h1, if_false, decide_false, h2, if_true] at ih ⊢
        rw [← h2]; rw [← h2] at ih; simpa [h2] using ih
      · by_cases h3 : a.id = id
        · simp [h2, h3]
        · simp only [h1, if_false, h3, decide_false, h2] at ih ⊢
          exact ih

theorem fileOf_filter (files : List FileL) (q : Nat → Bool) (id : Nat) :
    fileOf (files.filter (fun f => q f.id)) id = if q id then fileOf files id else none := by
  induction files with
  | nil => simp [fileOf]
  | cons a l ih =>
    simp only [fileOf] at ih ⊢
    cases h1 : q a.id
    · have e : List.filter (fun f => q f.id) (a :: l) = List.filter (fun f => q f.id) l := by
        simp [h1]
      rw [e, ih, List.find?_cons]
      by_cases h2 : a.id = id
      · subst h2; simp [h1]
      · simp [h2]
    · have e : List.filter (fun f => q f.id) (a :: l) = a :: List.filter (fun f => q f.id) l := by
        simp [h1]
      rw [e, List.find?_cons, List.find?_cons, ih]
      by_cases h2 : a.id = id
      · subst h2; simp [h1]
      · simp [h2]

/-- lookup by id and base (as `Open` and `Create` do) agrees with the lookup by id when the bases agree -/
theorem find_id_base {files : List FileL} {id b : Nat} {f : FileL} (h : fileOf files id = some f)
    (hb : f.base = b) : files.find? (fun g => g.id = id ∧ g.base = b) = some f := by
  induction files with
  | nil => simp [fileOf] at h
  | cons a l ih =>
    simp only [fileOf, List.find?_cons] at h ih ⊢
    by_cases h1 : a.id = id
    · simp only [h1, decide_true] at h
      cases h
      simp [h1, hb]
    · simp only [h1, decide_false] at h
      simp only [h1, false_and, decide_false]
      exact ih h

theorem any_id_base_false {files : List FileL} {n b : Nat} (h : ∀ f ∈ files, f.id < n) :
    files.any (fun f => f.id = n ∧ f.base = b) = false := by
  simp only [List.any_eq_false]
  intro f hf
  have := h f hf
  simp; omega

/-! ## the simulation relation -/

/-- exclusive upper end of the index range a segment serves -/
def hi (c : SegS) (f : FileL) : Nat := if c.sealed then c.max + 1 else f.base + f.entries.length

theorem hi_open {c : SegS} (h : c.sealed = false) (f : FileL) : hi c f = f.base + f.entries.length := by
  simp [hi, h]

theorem hi_sealed {c : SegS} (h : c.sealed = true) (f : FileL) : hi c f = c.max + 1 := by
  simp [hi, h]

def RdrOK (c : SegS) : Rdr → Prop
  | .writer fm => fm ≤ c.min
  | .sealed mn mx is => c.sealed = true ∧ mn ≤ c.min ∧ (mx = 0 ∨ c.max ≤ mx) ∧ is ≠ 0

/-- facts about one live segment, its reader and its file, relative to the abstract log
    `es` whose first entry has index `F` -/
structure SegF (cfg : WalCfg) (nextID F : Nat) (es : List Log) (c : SegS) (r : Rdr) (f : FileL) : Prop where
  fbase : f.base = c.base
  fcodec : f.codec = c.codec
  codec : c.codec = cfg.codecId
  idlt : c.id < nextID
  base1 : 1 ≤ c.base
  basemin : c.base ≤ c.min
  Fmin : F ≤ c.min
  sealedOK : c.sealed = true → c.min ≤ c.max ∧ c.max + 1 ≤ f.base + f.entries.length ∧ 0 < f.wsize ∧ c.indexStart ≠ 0
  tailOK : c.sealed = false → c.max = 0 ∧ (c.min = c.base ∨ c.min < f.base + f.entries.length)
  rdr : RdrOK c r
  pt : ∀ idx, c.min ≤ idx → idx < hi c f →
        F ≤ idx ∧ idx < F + es.length ∧ f.entries[idx - f.base]? = es[idx - F]?

/-- order on the segment map: everything that has a successor is sealed and ends before the successor
    starts; only the first segment may have lost a prefix; ids are distinct -/
def SegLt (a b : SegS × Rdr) : Prop :=
  a.1.sealed = true ∧ a.1.max < b.1.base ∧ b.1.min = b.1.base ∧ a.1.id ≠ b.1.id

/-- the part of the invariant that also holds in the middle of a rotation (the last segment may be sealed) -/
structure Core (cfg : WalCfg) (nextID : Nat) (segs : List (SegS × Rdr)) (files : List FileL)
    (F : Nat) (es : List Log) : Prop where
  cfgOK : cfg.newSegCodec = cfg.codecId
  fileIds : ∀ f ∈ files, f.id < nextID
  segOK : ∀ c r, (c, r) ∈ segs → ∃ f, fileOf files c.id = some f ∧ SegF cfg nextID F es c r f
  sorted : segs.Pairwise SegLt
  headF : ∃ c0, segs.head? = some c0 ∧ c0.1.min = F
  endE : ∃ t f, segs.getLast? = some t ∧ fileOf files t.1.id = some f ∧ hi t.1 f = F + es.length
  cover : ∀ idx, F ≤ idx → idx < F + es.length →
    ∃ c r f, (c, r) ∈ segs ∧ fileOf files c.id = some f ∧ c.min ≤ idx ∧ idx < hi c f
  bound : F + es.length ≤ 2^64 - 1

/-- between calls the last segment is an unsealed tail whose file carries no index frame -/
def TailOpen (segs : List (SegS × Rdr)) (files : List FileL) : Prop :=
  ∃ t r f, segs.getLast? = some (t, r) ∧ t.sealed = false ∧ fileOf files t.id = some f ∧ f.indexStart = 0

/-- the simulation relation -/
def Sim (w : Wal) (s : Spec.SLog) : Prop :=
  ∃ F, Core w.cfg w.nextID w.segs w.files F s.entries ∧ TailOpen w.segs w.files ∧
    s.closed = w.closed ∧ (s.entries ≠ [] → s.first = F)

end RaftWal
