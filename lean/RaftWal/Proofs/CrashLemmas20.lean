/-
  Proofs/CrashLemmas20.lean — head truncation whose first kept segment is a sealed one; all head truncations.
-/
import RaftWal.Proofs.CrashLemmas19
namespace RaftWal.Crash

theorem delHead_sealed {d : Disk} {D r0 : List Seg} {h t : Seg} {f : File} (hq' : QS d (D ++ h :: r0) t f)
    {newMin : Nat} (hok : (Op.delHead newMin).ok d)
    (hk : d.md.segs.dropWhile (goneB (lastIndex d) newMin) = h :: (r0 ++ [t]))
    (hD : d.md.segs.takeWhile (goneB (lastIndex d) newMin) = D) :
    CallRes d (.delHead newMin)
      ([.commit { d.md with segs := { h with min := newMin } :: (r0 ++ [t]) }] ++ (segIds D).map .delete) [] := by
  have hb := hq'.base
  have hq := hq'.toQO
  have hhP : h ∈ D ++ h :: r0 := by simp
  have hsh := hb.sealed h hhP
  have hgh := (dropWhile_cons hk).1
  rw [goneB_sealed hsh] at hgh
  simp only [decide_eq_false_iff_not, Nat.not_lt] at hgh
  have hgone : ∀ s ∈ D, s.max < newMin := by
    intro s hs
    have : s ∈ d.md.segs.takeWhile (goneB (lastIndex d) newMin) := by rw [hD]; exact hs
    have := mem_takeWhile_imp' this
    rw [goneB_sealed (hb.sealed s (by simp [hs]))] at this
    simpa using this
  have hsplit : (D ++ h :: r0) ++ [t] = D ++ h :: (r0 ++ [t]) := by simp
  have hmin : h.min ≤ newMin := head_min_le hb hsplit hgone hok.1 hok.2.1
  obtain ⟨fh, hfh, hsf⟩ := hsh
  -- later segments lie above h.max
  have hpw := hb.pw
  rw [hsplit] at hpw
  have hlater : ∀ s ∈ r0 ++ [t], h.max < s.base := by
    intro s hs
    have := (List.pairwise_cons.1 (List.pairwise_append.1 hpw).2.1).1 s hs
    exact this.1
  have hafter : specApply (absLog d) (.delHead newMin) =
      logP d ({ h with min := newMin } :: r0) ++ visU t.min f.base f.synced := by
    rw [specApply_delHead, hq.log_eq, List.filter_append, logP_append, logP_cons, logP_cons, List.filter_append,
      List.filter_append]
    rw [logP_filter_nil (P := D), List.nil_append]
    · congr 1
      · congr 1
        · rw [segEntries_some hfh, segEntries_some (s := { h with min := newMin }) hfh, visF_setMin hmin]
        · apply logP_filter_all
          intro s hs p hp
          have := mem_sealed (hb.sealed s (by simp [hs])) hp
          have := (hb.sealed s (by simp [hs])).bounds
          have := hlater s (by simp [hs])
          simp only [decide_eq_true_eq]; omega
      · apply List.filter_eq_self.2
        intro p hp
        have := mem_visU hp
        have := hlater t (by simp)
        have := hb.tbm
        simp only [decide_eq_true_eq]; omega
    · intro s hs p hp
      have := mem_sealed (hb.sealed s (by simp [hs])) hp
      have := hgone s hs
      simp only [decide_eq_false_iff_not, Nat.not_le]; omega
  have hch : chainOK (({ h with min := newMin } :: r0) ++ [t]) = true := by
    have := hb.chain
    rw [hsplit, chainOK_append] at this
    exact chainOK_setMin newMin this.2.1
  have hnd : ((({ h with min := newMin } :: r0) ++ [t]).map (·.id)).Nodup := by
    have := hb.nodupS
    rw [hsplit] at this
    show ((h :: (r0 ++ [t])).map (·.id)).Nodup
    exact nodup_ids_suffix this
  have hfull : Rec (fun l => l = specApply (absLog d) (.delHead newMin))
      (d.apply (.commit { d.md with segs := { h with min := newMin } :: (r0 ++ [t]) }))
      ({ h with min := newMin } :: r0) t := by
    apply Rec.recommit (P' := { h with min := newMin } :: r0) (t' := t) hb
      { d.md with segs := { h with min := newMin } :: (r0 ++ [t]) } rfl (Nat.le_refl _) ?_ hch hnd ?_ hb.tsl hb.tbm hb.tb1
    · intro g hg
      rw [hq.tf] at hg; cases hg
      refine ⟨hq.qt.base, ?_, hq.qt.mn, hq.vis, ?_, ?_, hafter.symm, ?_⟩
      · rcases hq.qt.lk with h1 | h1
        · exact Or.inl h1
        · exact Or.inr ⟨h1, hq.qt.ss⟩
      · intro hc; rw [hq.qt.ss] at hc; cases hc
      · intro hc; rw [hq.qt.sp] at hc; cases hc
      · rw [hq.qt.pend, List.append_nil]; exact hafter.symm
    · intro hn; rw [hq.tf] at hn; cases hn
    · intro s hs
      simp only [List.mem_cons] at hs
      rcases hs with rfl | hs
      · exact ⟨fh, hfh, ⟨hsf.base, hsf.pend, hsf.sp, by show h.base ≤ newMin; have := hsf.bm; omega, hsf.b1, hsf.sl,
          hsf.ss, hsf.lk, hgh, hsf.mx⟩⟩
      · exact hb.sealed s (by simp [hs])
    · intro s hs
      simp only [List.cons_append, List.mem_cons, List.mem_append, List.not_mem_nil, or_false] at hs
      rcases hs with hs | hs | hs
      · rw [hs]; exact hb.idlt h (by simp)
      · exact hb.idlt s (by simp [hs])
      · rw [hs]; exact hb.idlt t (by simp)
  apply callres_mk hq' (.delHead newMin) [.commit { d.md with segs := { h with min := newMin } :: (r0 ++ [t]) }] (segIds D)
  · show delHeadProg d newMin = _
    rw [delHeadProg_eq, hk, hD, map_delete_eq]
  · simp
  · intro k hk'
    simp only [List.length_cons, List.length_nil, Nat.zero_add, Nat.lt_one_iff] at hk'
    subst hk'
    exact ⟨_, t, by simpa using hq.toRec (Or.inl rfl)⟩
  · simpa using hfull
  · exact ⟨f, by simpa using hq.tf, hq.qt.pend, hq.qt.ss, hq.qt.sp⟩
  · intro j hj s hs e
    obtain ⟨s', hs', rfl⟩ := List.mem_map.1 hj
    have hnd := hb.nodupS
    rw [hsplit, List.map_append] at hnd
    have := (List.nodup_append.1 hnd).2.2 s'.id (List.mem_map.2 ⟨s', hs', rfl⟩) s.id
      (by
        simp only [List.cons_append, List.mem_cons, List.mem_append, List.not_mem_nil, or_false] at hs
        simp only [List.map_cons, List.map_append, List.map_nil, List.mem_cons, List.mem_append, List.mem_map,
          List.not_mem_nil, or_false]
        rcases hs with hs | hs | hs
        · exact Or.inl (by rw [hs])
        · exact Or.inr (Or.inl ⟨s, hs, rfl⟩)
        · exact Or.inr (Or.inr (by rw [hs])))
    exact this e.symm
  · intro j hj
    have := hq'.sub j (by simpa using hj)
    simp only [segIds, List.map_append, List.map_cons, List.map_nil, List.mem_append, List.mem_cons,
      List.not_mem_nil, or_false] at this ⊢
    rcases this with (h1 | h1 | h1) | h1
    · exact Or.inl h1
    · exact Or.inr (Or.inl (Or.inl h1))
    · exact Or.inr (Or.inl (Or.inr h1))
    · exact Or.inr (Or.inr h1)

theorem delHead_res {d : Disk} {P : List Seg} {t : Seg} {f : File} (h : QS d P t f) {newMin : Nat}
    (hok : (Op.delHead newMin).ok d) : ∃ pre post, CallRes d (.delHead newMin) pre post := by
  cases hk : d.md.segs.dropWhile (goneB (lastIndex d) newMin) with
  | nil => exact ⟨_, _, delHead_all h hok hk⟩
  | cons hd rest =>
    have hsplit := (dropWhile_cons hk).2
    rw [h.base.segs] at hsplit
    rcases split_last hsplit.symm with ⟨hr, hD, hh⟩ | ⟨r0, hr, hP⟩
    · subst hr hh
      exact ⟨_, _, delHead_tail h hok hk (by rw [← h.base.segs] at hD; exact hD)⟩
    · subst hr
      rw [← h.base.segs] at hP
      generalize hDd : d.md.segs.takeWhile (goneB (lastIndex d) newMin) = D at hP
      subst hP
      exact ⟨_, _, delHead_sealed h hok hk hDd⟩

end RaftWal.Crash
