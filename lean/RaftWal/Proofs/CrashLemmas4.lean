/-
  Proofs/CrashLemmas4.lean — how the actions and the crashes act on the files of segments they do not write to;
  preservation of `HL` and of `Base`.
-/
import RaftWal.Proofs.CrashLemmas3
namespace RaftWal.Crash

/-- same file as far as the invariants are concerned (the handle flag is free, the link can only become durable) -/
structure FileSame (f f' : File) : Prop where
  base : f'.base = f.base
  synced : f'.synced = f.synced
  pending : f'.pending = f.pending
  ss : f'.sealedS = f.sealedS
  sp : f'.sealedP = f.sealedP
  lk : f.linked = true → f'.linked = true

theorem FileSame.refl (f : File) : FileSame f f := ⟨rfl, rfl, rfl, rfl, rfl, id⟩

theorem FileSame.content {f f' : File} (h : FileSame f f') : f'.content = f.content := by
  simp [File.content, h.synced, h.pending]

/-- file `j` is kept by the step from `d` to `d'` -/
def Keeps (d d' : Disk) (j : Nat) : Prop := ∀ f, d.file? j = some f → ∃ f', d'.file? j = some f' ∧ FileSame f f'

theorem SealedFile.same {s : Seg} {f f' : File} (h : SealedFile s f) (e : FileSame f f') : SealedFile s f' :=
  ⟨e.base.trans h.base, e.pending.trans h.pend, e.sp.trans h.sp, h.bm, h.b1, h.sl, e.ss.trans h.ss, e.lk h.lk, h.mm,
    by rw [e.base, e.synced]; exact h.mx⟩

theorem visF_same {f f' : File} (s : Seg) (e : FileSame f f') : visF f' s = visF f s :=
  visF_congr s e.base e.content

/-- the sealed segments keep their files and their entries -/
theorem sealed_transfer {d d' : Disk} {P : List Seg}
    (hk : ∀ s ∈ P, ∀ f, d.file? s.id = some f → SealedFile s f → ∃ f', d'.file? s.id = some f' ∧ FileSame f f')
    (hs : ∀ s ∈ P, SealedOK d s) : (∀ s ∈ P, SealedOK d' s) ∧ logP d' P = logP d P := by
  constructor
  · intro s hsP
    obtain ⟨f, hf, hsf⟩ := hs s hsP
    obtain ⟨f', hf', e⟩ := hk s hsP f hf hsf
    exact ⟨f', hf', hsf.same e⟩
  · unfold logP
    apply flatMap_congr'
    intro s hsP
    obtain ⟨f, hf, hsf⟩ := hs s hsP
    obtain ⟨f', hf', e⟩ := hk s hsP f hf hsf
    rw [segEntries_some hf, segEntries_some hf', visF_same s e]

theorem sealed_transfer_keeps {d d' : Disk} {P : List Seg} (hk : ∀ s ∈ P, Keeps d d' s.id)
    (hs : ∀ s ∈ P, SealedOK d s) : (∀ s ∈ P, SealedOK d' s) ∧ logP d' P = logP d P :=
  sealed_transfer (fun s hsP f hf _ => hk s hsP f hf) hs

/-! ### which files each action keeps -/

theorem keeps_of_eq {d d' : Disk} {j : Nat} (h : d'.file? j = d.file? j) : Keeps d d' j :=
  fun f hf => ⟨f, h.trans hf, FileSame.refl f⟩

theorem keeps_write (d : Disk) (id es sl) {j : Nat} (h : j ≠ id) : Keeps d (d.apply (.write id es sl)) j :=
  keeps_of_eq (by rw [apply_write_file?]; simp [h])

theorem keeps_delete (d : Disk) (id) {j : Nat} (h : j ≠ id) : Keeps d (d.apply (.delete id)) j :=
  keeps_of_eq (by rw [apply_delete_file?]; simp [h])

theorem keeps_commit (d : Disk) (m : Meta) (j : Nat) : Keeps d (d.apply (.commit m)) j := keeps_of_eq rfl

theorem keeps_fsync (d : Disk) (id) {j : Nat} (h : j ≠ id) : Keeps d (d.apply (.fsync id)) j := by
  intro f hf
  rw [apply_fsync_file?]
  simp only [h, ↓reduceIte, hf, Option.map_some]
  refine ⟨_, rfl, ?_⟩
  split
  · exact ⟨rfl, rfl, rfl, rfl, rfl, fun _ => rfl⟩
  · exact FileSame.refl f

theorem apply_create_exists {d : Disk} {id : Nat} (b : Nat) (h : (d.file? id).isSome = true) : d.apply (.create id b) = d := by
  simp [Disk.apply, h]

theorem keeps_create (d : Disk) (id b : Nat) (j : Nat) : Keeps d (d.apply (.create id b)) j := by
  cases h : d.file? id with
  | some f0 => rw [apply_create_exists b (by simp [h])]; exact keeps_of_eq rfl
  | none =>
    intro f hf
    have : j ≠ id := by rintro rfl; rw [h] at hf; cases hf
    exact ⟨f, by rw [apply_create_file? d id b h]; simp [this, hf], FileSame.refl f⟩

theorem keeps_crash_proc (d : Disk) (j : Nat) : Keeps d (d.crash .proc) j := by
  intro f hf
  rw [crash_proc_file?, hf]
  exact ⟨_, rfl, ⟨rfl, rfl, rfl, rfl, rfl, id⟩⟩

/-- a power loss keeps a linked file with nothing pending -/
theorem keeps_crash_power (d : Disk) (hn : (fids d).Nodup) (kp ku : Nat → Bool) {j : Nat} {f : File}
    (hf : d.file? j = some f) (hp : f.pending = []) (hsp : f.sealedP = false) (hl : f.linked = true) :
    ∃ f', (d.crash (.power kp ku)).file? j = some f' ∧ FileSame f f' := by
  rw [crash_power_file? d hn, hf]
  simp only [Option.bind_some, File.afterPower, hl, Bool.not_true, Bool.false_and, Bool.false_eq_true, ↓reduceIte]
  refine ⟨_, rfl, ⟨rfl, ?_, hp.symm, ?_, hsp.symm, fun _ => rfl⟩⟩
  · simp [hp]
  · simp [hsp]

/-! ### `HL` -/

theorem HL_apply {d : Disk} (h : HL d) (a : Act) : HL (d.apply a) := by
  intro j f hf hh
  cases a with
  | ack => exact h j f hf hh
  | commit m => exact h j f hf hh
  | write id es sl =>
    rw [apply_write_file?] at hf
    by_cases e : j = id
    · simp only [e, ↓reduceIte] at hf
      cases h0 : d.file? id with
      | none => rw [h0] at hf; cases hf
      | some f0 => rw [h0] at hf; cases hf; exact h id f0 h0 hh
    · simp only [e, ↓reduceIte] at hf; exact h j f hf hh
  | delete id =>
    rw [apply_delete_file?] at hf
    by_cases e : j = id
    · simp [e] at hf
    · simp only [e, ↓reduceIte] at hf; exact h j f hf hh
  | create id b =>
    cases h0 : d.file? id with
    | some f0 => rw [apply_create_exists b (by simp [h0])] at hf; exact h j f hf hh
    | none =>
      rw [apply_create_file? d id b h0] at hf
      by_cases e : j = id
      · simp only [e, ↓reduceIte, Option.some.injEq] at hf; subst hf; simp [File.fresh] at hh
      · simp only [e, ↓reduceIte] at hf; exact h j f hf hh
  | fsync id =>
    rw [apply_fsync_file?] at hf
    cases hd : dirSync d id with
    | true =>
      simp only [hd, ↓reduceIte] at hf
      cases h1 : (if j = id then Option.map File.fs (d.file? j) else d.file? j) with
      | none => rw [h1] at hf; cases hf
      | some f1 => rw [h1] at hf; cases hf; rfl
    | false =>
      simp only [hd, Bool.false_eq_true, ↓reduceIte, Option.map_id'] at hf
      by_cases e : j = id
      · subst e
        simp only [↓reduceIte] at hf
        cases h0 : d.file? j with
        | none => rw [h0] at hf; cases hf
        | some f0 =>
          rw [h0] at hf; cases hf
          simp only [dirSync, h0, Bool.not_eq_false'] at hd
          exact h j f0 h0 hd
      · simp only [e, ↓reduceIte] at hf; exact h j f hf hh

theorem HL_crash (d : Disk) (hn : (fids d).Nodup) (c : CrashKind) : HL (d.crash c) := by
  intro j f hf hh
  cases c with
  | proc =>
    rw [crash_proc_file?] at hf
    cases h0 : d.file? j with
    | none => rw [h0] at hf; cases hf
    | some f0 => rw [h0] at hf; cases hf; simp [File.unh] at hh
  | power kp ku =>
    rw [crash_power_file? d hn] at hf
    cases h0 : d.file? j with
    | none => rw [h0] at hf; cases hf
    | some f0 =>
      rw [h0] at hf
      simp only [Option.bind_some, File.afterPower] at hf
      split at hf
      · cases hf
      · cases hf; rfl

end RaftWal.Crash
