/-
  Proofs/VerifierReach.lean — lift the one-step verifier invariants to every
  reachable node state (any sequence of middleware operations).
-/
import RaftWal.Proofs.VerifierProps
namespace RaftWal.Verifier
open RaftWal

/-- everything that can happen to a node's middleware -/
inductive NodeOp
  | store (logs : List Log)
  | del (mn mx : Nat)
  | release
  | restart
  deriving Repr

def Node.apply (n : Node) : NodeOp → Node
  | .store logs => (n.storeLogs logs).1
  | .del mn mx => (n.deleteRange mn mx).1
  | .release => n.release.1
  | .restart => n.restart

def Node.run (n : Node) (ops : List NodeOp) : Node := ops.foldl Node.apply n

theorem verify_reset (n : Node) (r : Report) : (n.verify r).1.resetOnDelete = n.resetOnDelete := by
  unfold Node.verify
  split
  · rfl
  · split
    · rfl
    · split
      · rfl
      · split
        · rfl
        · split <;> rfl

theorem take_reset (n : Node) (r : Report) : (n.take r).resetOnDelete = n.resetOnDelete := by
  unfold Node.take
  simp only []
  generalize (if n.lastCP > 0 ∧ n.lastCP ≠ r.start then { r with skipped := some (n.lastCP, r.start) } else r) = r'
  exact verify_reset { n with lastCP := r'.stop } r'

theorem trigger_reset (n : Node) (r : Report) : (n.trigger r).resetOnDelete = n.resetOnDelete := by
  unfold Node.trigger
  split
  · exact take_reset n r
  · split <;> rfl

theorem foldl_trigger_reset (rs : List Report) (n : Node) :
    (rs.foldl Node.trigger n).resetOnDelete = n.resetOnDelete := by
  induction rs generalizing n with
  | nil => rfl
  | cons r rs ih => simp only [List.foldl_cons]; rw [ih, trigger_reset]

theorem release_frame (n : Node) :
    n.release.1.store = n.store ∧ n.release.1.checksum = n.checksum ∧ n.release.1.sumStartIdx = n.sumStartIdx ∧
    n.release.1.resetOnDelete = n.resetOnDelete := by
  unfold Node.release
  split
  · exact ⟨rfl, rfl, rfl, rfl⟩
  · simp only []
    split
    · exact ⟨rfl, rfl, rfl, rfl⟩
    · rename_i q _
      have h1 := take_frame { n with busy := none, verified := n.verified + 1, queued := none } q
      have h2 := take_reset { n with busy := none, verified := n.verified + 1, queued := none } q
      exact ⟨h1.1, h1.2.1, h1.2.2.1, h2⟩

theorem storeLogs_reset (n : Node) (logs : List Log) : (n.storeLogs logs).1.resetOnDelete = n.resetOnDelete := by
  unfold Node.storeLogs
  split
  · rfl
  · simp only []
    split
    · rfl
    · split
      · rfl
      · simp only []
        rw [foldl_trigger_reset]

theorem deleteRange_reset (n : Node) (mn mx : Nat) : (n.deleteRange mn mx).1.resetOnDelete = n.resetOnDelete := by
  unfold Node.deleteRange
  simp only []
  split
  · rfl
  · simp only []
    split <;> rfl

theorem sumInv_of_frame (n m : Node) (hs : m.store = n.store) (hc : m.checksum = n.checksum)
    (hi : m.sumStartIdx = n.sumStartIdx) (h : SumInv n) (hwf : StoreWF n) : SumInv m ∧ StoreWF m := by
  constructor
  · unfold SumInv storeFrom at *
    rw [hs, hc, hi]; exact h
  · unfold StoreWF at *
    rw [hs]; exact hwf

end RaftWal.Verifier

namespace RaftWal.Verifier
open RaftWal

theorem slog_store_closed (s : Spec.SLog) (logs : List Log) : (s.store logs).1.closed = s.closed := by
  unfold Spec.SLog.store
  split
  · rfl
  · split
    · rfl
    · split <;> rfl

theorem slog_delete_closed (s : Spec.SLog) (mn mx : Nat) : (s.delete mn mx).1.closed = s.closed := by
  unfold Spec.SLog.delete
  split
  · rfl
  · split
    · rfl
    · split
      · rfl
      · split
        · rfl
        · split <;> rfl

theorem storeLogs_closed (n : Node) (logs : List Log) : (n.storeLogs logs).1.store.closed = n.store.closed := by
  unfold Node.storeLogs
  split
  · rfl
  · simp only []
    split
    · rfl
    · split
      · rfl
      · simp only []
        rw [(foldl_trigger_frame _ _).1]
        exact slog_store_closed n.store _

theorem deleteRange_closed (n : Node) (mn mx : Nat) : (n.deleteRange mn mx).1.store.closed = n.store.closed := by
  unfold Node.deleteRange
  simp only []
  split
  · rfl
  · have := slog_delete_closed n.store mn mx
    simp only []
    split <;> exact this

/-- the invariants every reachable node state satisfies (with the DeleteRange reset in place) -/
structure Reach (n : Node) : Prop where
  sum   : SumInv n
  wf    : StoreWF n
  acct  : Acct n
  reset : n.resetOnDelete = true
  opened : n.store.closed = false

theorem reach_init : Reach { resetOnDelete := true } := by
  refine ⟨?_, ?_, ?_, rfl, rfl⟩
  · exact (sumInv_of_frame {} { resetOnDelete := true } rfl rfl rfl sumInv_init.1 sumInv_init.2).1
  · exact (sumInv_of_frame {} { resetOnDelete := true } rfl rfl rfl sumInv_init.1 sumInv_init.2).2
  · exact acct_init

theorem restart_acct (n : Node) : Acct n.restart := by
  unfold Node.restart Acct outstanding; simp

theorem reach_step (n : Node) (op : NodeOp) (h : Reach n) : Reach (n.apply op) := by
  cases op with
  | store logs =>
    have hs := sumInv_storeLogs n logs h.sum h.wf h.opened
    exact ⟨hs.1, hs.2, acct_storeLogs n logs h.acct, by rw [Node.apply, storeLogs_reset]; exact h.reset,
      by rw [Node.apply, storeLogs_closed]; exact h.opened⟩
  | del mn mx =>
    have hs := sumInv_deleteRange n mn mx h.sum h.wf h.reset
    exact ⟨hs.1, hs.2, acct_deleteRange n mn mx h.acct, by rw [Node.apply, deleteRange_reset]; exact h.reset,
      by rw [Node.apply, deleteRange_closed]; exact h.opened⟩
  | release =>
    have hf := release_frame n
    have hs := sumInv_of_frame n n.release.1 hf.1 hf.2.1 hf.2.2.1 h.sum h.wf
    exact ⟨hs.1, hs.2, acct_release n h.acct, by rw [Node.apply, hf.2.2.2]; exact h.reset,
      by rw [Node.apply, hf.1]; exact h.opened⟩
  | restart =>
    have hs := sumInv_restart n h.wf
    exact ⟨hs.1, hs.2, restart_acct n, by simp [Node.apply, Node.restart, h.reset], by simp [Node.apply, Node.restart, h.opened]⟩

/-- every state reachable by any sequence of middleware operations satisfies the invariants -/
theorem reach_run (ops : List NodeOp) (n : Node) (h : Reach n) : Reach (n.run ops) := by
  induction ops generalizing n with
  | nil => exact h
  | cons op ops ih => exact ih (n.apply op) (reach_step n op h)

end RaftWal.Verifier
