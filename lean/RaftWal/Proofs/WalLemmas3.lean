/-
  Proofs/WalLemmas3.lean — simulation of the calls that do not change the log:
  `first`, `last`, `get`, `close`, and calls on a closed WAL.
-/
import RaftWal.Proofs.WalLemmas2
namespace RaftWal

/-- the relation does not look at counters or the stable store -/
theorem Sim.of_eq {w w' : Wal} {s s' : Spec.SLog} (h : Sim w s) (h1 : w'.cfg = w.cfg)
    (h2 : w'.nextID = w.nextID) (h3 : w'.segs = w.segs) (h4 : w'.files = w.files)
    (h5 : s'.closed = w'.closed) (h6 : s'.entries = s.entries) (h7 : s'.first = s.first) : Sim w' s' := by
  obtain ⟨F, hc, ht, _, hf⟩ := h
  refine ⟨F, ?_, ?_, h5, ?_⟩
  · rw [h1, h2, h3, h4, h6]; exact hc
  · rw [h3, h4]; exact ht
  · rw [h6, h7]; exact hf

def sAnsOf : Option Log → Except Spec.SErr Log
  | some l => .ok l
  | none => .error .notFound

theorem spec_get_eq {s : Spec.SLog} {F : Nat} (hcl : s.closed = false) (hf : s.entries ≠ [] → s.first = F)
    (i : Nat) : s.get i = sAnsOf (look F s.entries i) := by
  unfold Spec.SLog.get look
  simp only [hcl, Bool.false_eq_true, if_false]
  cases he : s.entries with
  | nil => simp [sAnsOf]
  | cons a l =>
    have : s.first = F := hf (by simp [he])
    rw [this]
    simp only [List.isEmpty_cons, Bool.false_eq_true, false_or]
    by_cases h : i < F
    · have : ¬ F ≤ i := by omega
      simp [h, this, sAnsOf]
    · have h' : F ≤ i := by omega
      simp only [h, h', if_false, if_true]
      cases (a :: l)[i - F]? <;> simp [sAnsOf]

theorem getLogRaw_congr {w w' : Wal} (h1 : w'.segs = w.segs) (h2 : w'.files = w.files) (idx : Nat) :
    w'.getLogRaw idx = w.getLogRaw idx := by
  simp only [Wal.getLogRaw, Wal.tailSeg, Wal.file?, h1, h2]

theorem getLog_open (w : Wal) (idx : Nat) (hw : w.closed = false) :
    (w.getLog idx).2 = w.getLogRaw idx ∧ (w.getLog idx).1.cfg = w.cfg ∧ (w.getLog idx).1.nextID = w.nextID ∧
    (w.getLog idx).1.segs = w.segs ∧ (w.getLog idx).1.files = w.files ∧ (w.getLog idx).1.closed = w.closed := by
  unfold Wal.getLog
  rw [if_neg (by simp [hw])]
  simp only
  have e : Wal.getLogRaw { w with ctr := { w.ctr with entriesR := w.ctr.entriesR + 1 } } idx = w.getLogRaw idx :=
    getLogRaw_congr rfl rfl idx
  rw [e]
  cases w.getLogRaw idx <;> simp

theorem sim_get {w : Wal} {s : Spec.SLog} (h : Sim w s) (i : Nat) :
    (w.step (.get i)).2 = (s.step (.get i)).2 ∧ Sim (w.step (.get i)).1 (s.step (.get i)).1 := by
  obtain ⟨F, hc, ht, hcl, hf⟩ := h
  simp only [Wal.step, Spec.SLog.step]
  cases hw : w.closed
  · rw [hw] at hcl
    obtain ⟨g1, g2, g3, g4, g5, g6⟩ := getLog_open w i hw
    rw [spec_get_eq hcl hf i, g1, getLogRaw_eq hc ht i]
    refine ⟨by cases look F s.entries i <;> rfl, ⟨F, ?_, ?_, ?_, hf⟩⟩
    · rw [g2, g3, g4, g5]; exact hc
    · rw [g4, g5]; exact ht
    · rw [g6, hcl, hw]
  · rw [hw] at hcl
    simp only [Wal.getLog, hw, if_true, Spec.SLog.get, hcl]
    exact ⟨rfl, ⟨F, hc, ht, by rw [hcl]; exact hw.symm, hf⟩⟩

theorem spec_firstIndex_eq {s : Spec.SLog} {F : Nat} (hf : s.entries ≠ [] → s.first = F) :
    s.firstIndex = if s.entries.length = 0 then 0 else F := by
  unfold Spec.SLog.firstIndex
  cases he : s.entries with
  | nil => simp
  | cons a l => simp [hf (by simp [he])]

theorem spec_lastIndex_eq {s : Spec.SLog} {F : Nat} (hf : s.entries ≠ [] → s.first = F) :
    s.lastIndex = if s.entries.length = 0 then 0 else F + s.entries.length - 1 := by
  unfold Spec.SLog.lastIndex
  cases he : s.entries with
  | nil => simp
  | cons a l => simp [hf (by simp [he])]

theorem sim_first {w : Wal} {s : Spec.SLog} (h : Sim w s) :
    (w.step .first).2 = (s.step .first).2 ∧ Sim (w.step .first).1 (s.step .first).1 := by
  refine ⟨?_, h⟩
  obtain ⟨F, hc, ht, hcl, hf⟩ := h
  simp only [Wal.step, Spec.SLog.step, Wal.firstIndexApi, hcl]
  cases hw : w.closed
  · simp [firstIndex_eq hc ht, spec_firstIndex_eq hf]
  · simp [Err.ans]

theorem sim_last {w : Wal} {s : Spec.SLog} (h : Sim w s) :
    (w.step .last).2 = (s.step .last).2 ∧ Sim (w.step .last).1 (s.step .last).1 := by
  refine ⟨?_, h⟩
  obtain ⟨F, hc, ht, hcl, hf⟩ := h
  simp only [Wal.step, Spec.SLog.step, Wal.lastIndexApi, hcl]
  cases hw : w.closed
  · simp [lastIndex_eq hc ht, spec_lastIndex_eq hf]
  · simp [Err.ans]

theorem sim_close {w : Wal} {s : Spec.SLog} (h : Sim w s) :
    (w.step .close).2 = (s.step .close).2 ∧ Sim (w.step .close).1 (s.step .close).1 := by
  refine ⟨rfl, ?_⟩
  exact h.of_eq rfl rfl rfl rfl rfl rfl rfl

end RaftWal
