/-
  Proofs/WalLemmas8.lean — tail truncation (`truncateTailLocked`): the reverse walk, force-sealing the
  surviving last segment, the new tail.
-/
import RaftWal.Proofs.WalLemmas7
namespace RaftWal
theorem walkTail_spec (newMax : Nat) : ∀ (l : List (SegS × Rdr)) (del : List Nat),
    Wal.truncateTail.walk newMax l del =
      (l.dropWhile (fun c => decide (newMax < c.1.base)),
       del ++ (l.takeWhile (fun c => decide (newMax < c.1.base))).map (·.1.id)) := by
  intro l
  induction l with
  | nil => intro del; simp [Wal.truncateTail.walk]
  | cons a l ih =>
    intro del
    obtain ⟨a1, a2⟩ := a
    unfold Wal.truncateTail.walk
    by_cases h : a1.base ≤ newMax
    · have : ¬ newMax < a1.base := by omega
      simp [h, this]
    · have : newMax < a1.base := by omega
      simp [h, this, ih]

/-- a tail truncation: keep `kept`, cut `c` down to `newMax` (sealing it), drop the rest -/
theorem Core.cutTail {cfg : WalCfg} {n : Nat} {kept : List (SegS × Rdr)} {c : SegS} {rc : Rdr}
    {dropped : List (SegS × Rdr)} {files files' : List FileL} {F : Nat} {es : List Log}
    (hc : Core cfg n (kept ++ (c, rc) :: dropped) files F es) (newMax is : Nat)
    (hF : F ≤ newMax) (hlt : newMax + 1 < F + es.length) (hcb : c.base ≤ newMax)
    (hdr : ∀ d ∈ dropped, newMax < d.1.base)
    (hids' : ∀ f ∈ files', f.id < n)
    (hsame : ∀ id, id ≠ c.id → fileOf files' id = fileOf files id)
    {f f' : FileL} (hf : fileOf files c.id = some f) (hf' : fileOf files' c.id = some f')
    (e1 : f'.base = f.base) (e2 : f'.codec = f.codec) (e3 : f'.entries = f.entries) (hw : 0 < f'.wsize)
    (his : is ≠ 0) :
    Core cfg n (kept ++ [({ c with sealed := true, indexStart := is, max := newMax }, rc)]) files' F
      (es.take (newMax + 1 - F)) := by
  have hs := hc.sorted
  rw [List.pairwise_append, List.pairwise_cons] at hs
  obtain ⟨hs1, ⟨hs2, hs3⟩, hs4⟩ := hs
  obtain ⟨f0, hf0, hsc⟩ := hc.segOK c rc (by simp)
  rw [hf] at hf0; cases hf0
  have hkept : ∀ x ∈ kept, x.1.sealed = true ∧ x.1.max < c.base ∧ x.1.id ≠ c.id := by
    intro x hx
    have := hs4 x hx (c, rc) (by simp)
    exact ⟨this.1, this.2.1, this.2.2.2⟩
  -- `newMax` lies in the range of `c`
  have hK : c.min ≤ newMax ∧ newMax < hi c f := by
    obtain ⟨d, rd, fd, hm, hfd, h3, h4⟩ := hc.cover newMax hF (by omega)
    rcases List.mem_append.mp hm with hm' | hm'
    · exfalso
      obtain ⟨q1, q2, _⟩ := hkept (d, rd) hm'
      simp only at q1 q2
      rw [hi_sealed q1] at h4
      omega
    · rcases List.mem_cons.mp hm' with hm'' | hm''
      · cases hm''
        rw [hf] at hfd; cases hfd
        exact ⟨h3, h4⟩
      · exfalso
        obtain ⟨fd', _, hsd⟩ := hc.segOK d rd hm
        have := hsd.basemin
        have : newMax < d.base := hdr (d, rd) hm''
        omega
  have hhile : hi c f ≤ f.base + f.entries.length := by
    cases hsl : c.sealed
    · rw [hi_open hsl]; exact Nat.le_refl _
    · rw [hi_sealed hsl]; exact (hsc.sealedOK hsl).2.1
  have hlen : (es.take (newMax + 1 - F)).length = newMax + 1 - F := by
    rw [List.length_take]; omega
  have hget : ∀ idx, F ≤ idx → idx ≤ newMax → (es.take (newMax + 1 - F))[idx - F]? = es[idx - F]? := by
    intro idx h1 h2
    rw [List.getElem?_take, if_pos (by omega)]
  have hhi' : ∀ g, hi { c with sealed := true, indexStart := is, max := newMax } g = newMax + 1 := by
    intro g; rw [hi_sealed rfl]
  refine ⟨hc.cfgOK, hids', ?_, ?_, ?_, ?_, ?_, by rw [hlen]; have := hc.bound; omega⟩
  · intro x rx hm
    rcases List.mem_append.mp hm with hm' | hm'
    · obtain ⟨q1, q2, q3⟩ := hkept (x, rx) hm'
      simp only at q1 q2 q3
      obtain ⟨fx, hfx, hsx⟩ := hc.segOK x rx (by simp [hm'])
      refine ⟨fx, by rw [hsame x.id q3]; exact hfx, ?_⟩
      refine { hsx with pt := ?_ }
      intro idx h1 h2
      obtain ⟨p1, p2, p3⟩ := hsx.pt idx h1 h2
      rw [hi_sealed q1] at h2
      exact ⟨p1, by rw [hlen]; omega, by rw [hget idx p1 (by omega)]; exact p3⟩
    · simp at hm'
      obtain ⟨rfl, rfl⟩ := hm'
      refine ⟨f', hf', ?_⟩
      refine ⟨by rw [e1]; exact hsc.fbase, by rw [e2]; exact hsc.fcodec, hsc.codec, hsc.idlt, hsc.base1,
        hsc.basemin, hsc.Fmin, ?_, ?_, ?_, ?_⟩
      · intro _
        simp only
        exact ⟨hK.1, by rw [e1, e3]; omega, hw, his⟩
      · intro h; simp at h
      · have := hsc.rdr
        cases rx with
        | writer fm => simpa [RdrOK] using this
        | sealed a b d =>
          simp only [RdrOK] at this ⊢
          obtain ⟨r1, r2, r3, r4⟩ := this
          rw [hi_sealed r1] at hK
          exact ⟨trivial, r2, by omega, r4⟩
      · intro idx h1 h2
        rw [hhi'] at h2
        simp only at h1
        obtain ⟨p1, p2, p3⟩ := hsc.pt idx h1 (by omega)
        exact ⟨p1, by rw [hlen]; omega, by rw [hget idx p1 (by omega), e1, e3]; exact p3⟩
  · rw [List.pairwise_append]
    refine ⟨hs1, by simp, ?_⟩
    intro a ha b hb
    simp at hb; subst hb
    exact hs4 a ha (c, rc) (by simp)
  · obtain ⟨c0, hh, hF0⟩ := hc.headF
    cases kept with
    | nil => simp at hh; subst hh; exact ⟨_, rfl, hF0⟩
    | cons a l => simp at hh; subst hh; exact ⟨_, rfl, hF0⟩
  · refine ⟨_, f', List.getLast?_concat, hf', ?_⟩
    rw [hhi', hlen]; omega
  · intro idx h1 h2
    rw [hlen] at h2
    obtain ⟨d, rd, fd, hm, hfd, h3, h4⟩ := hc.cover idx h1 (by omega)
    rcases List.mem_append.mp hm with hm' | hm'
    · obtain ⟨q1, q2, q3⟩ := hkept (d, rd) hm'
      exact ⟨d, rd, fd, List.mem_append_left _ hm', by rw [hsame d.id q3]; exact hfd, h3, h4⟩
    · rcases List.mem_cons.mp hm' with hm'' | hm''
      · cases hm''
        refine ⟨_, rc, f', List.mem_append_right _ (List.mem_singleton.mpr rfl), hf', h3, ?_⟩
        rw [hhi']; omega
      · exfalso
        obtain ⟨fd', _, hsd⟩ := hc.segOK d rd hm
        have := hsd.basemin
        have : newMax < d.base := hdr (d, rd) hm''
        omega

theorem dropWhile_head_false {α : Type} (p : α → Bool) : ∀ (l : List α) (a : α) (b : List α),
    l.dropWhile p = a :: b → p a = false := by
  intro l
  induction l with
  | nil => intro a b h; simp at h
  | cons x xs ih =>
    intro a b h
    rw [List.dropWhile_cons] at h
    split at h
    · exact ih a b h
    · cases h; simpa using ‹¬ p x = true›

theorem takeWhile_all {α : Type} (p : α → Bool) : ∀ (l : List α) (a : α), a ∈ l.takeWhile p → p a = true := by
  intro l
  induction l with
  | nil => intro a h; simp at h
  | cons x xs ih =>
    intro a h
    rw [List.takeWhile_cons] at h
    split at h
    · rcases List.mem_cons.mp h with rfl | h'
      · assumption
      · exact ih a h'
    · simp at h

/-- after the surviving last segment has been sealed: add the new tail, unlink the dropped files -/
theorem finishTail (w1 : Wal) (del : List Nat) {F : Nat} {es : List Log}
    (hc1 : Core w1.cfg w1.nextID w1.segs w1.files F es)
    (hl : ∃ c r, w1.segs.getLast? = some (c, r) ∧ c.sealed = true)
    (hdel : ∀ id ∈ del, id < w1.nextID ∧ ∀ c r, (c, r) ∈ w1.segs → c.id ≠ id) :
    ∃ w2, w1.createNext 0 = some w2 ∧ w2.cfg = w1.cfg ∧ w2.closed = w1.closed ∧ ∀ ctr' : Counters,
      Core w2.cfg w2.nextID w2.segs (Wal.removeFiles { w2 with ctr := ctr' } del).files F es ∧
      TailOpen w2.segs (Wal.removeFiles { w2 with ctr := ctr' } del).files := by
  obtain ⟨w2, hcn, g1, g2, g3, g4, g5, g6, g7⟩ := createNext_sealed w1 0 hc1 hl
  refine ⟨w2, hcn, g1, g2, ?_⟩
  intro ctr'
  have := removeFiles_core (w := { w2 with ctr := ctr' }) del g3 g4 (by
    intro c r hm hin
    obtain ⟨q1, q2⟩ := hdel c.id hin
    rcases g5 c r hm with h | h
    · exact q2 c r h rfl
    · omega)
  exact this

/-- the force-seal step of `truncateTail` -/
def sealFor (w : Wal) (t : SegS) : SegS × List FileL × Bool :=
  if t.sealed then (t, w.files, true)
  else match w.file? t.id with
    | none => (t, w.files, false)
    | some f =>
      if f.indexStart > 0 then ({ t with sealed := true, indexStart := f.indexStart }, w.files, true)
      else if f.entries.length = 0 then (t, w.files, false)
      else
        let hdr := if f.wsize = 0 then fileHeaderLen else 0
        let is := f.wsize + (hdr + frameHeaderLen)
        let f' := { f with indexStart := is, wsize := f.wsize + (hdr + indexFrameSize f.entries.length + frameHeaderLen) }
        ({ t with sealed := true, indexStart := is }, updFile w.files f', true)

def bumpTail (w0 w : Wal) (newMax : Nat) : Wal :=
  { w with ctr := { w.ctr with tailTrunc := u64 (w.ctr.tailTrunc + (if w0.lastIndex > newMax then w0.lastIndex - newMax else 0)) } }

theorem truncateTail_eq (w : Wal) (newMax : Nat) :
    w.truncateTail newMax =
      match Wal.truncateTail.walk newMax w.segs.reverse [] with
      | (keptRev, del) =>
        match keptRev with
        | [] =>
          match Wal.createNext { w with segs := [] } 0 with
          | none => (bumpTail w w newMax, some .other)
          | some w2 => ((bumpTail w w2 newMax).removeFiles del, none)
        | (t, r) :: before =>
          match sealFor w t with
          | (t', files, ok) =>
            if ¬ ok then (w, some .other)
            else
              match Wal.createNext { w with segs := (before.reverse ++ [({ t' with max := newMax }, r)]), files := files } 0 with
              | none => (bumpTail w w newMax, some .other)
              | some w2 => ((bumpTail w w2 newMax).removeFiles del, none) := by
  unfold Wal.truncateTail sealFor bumpTail
  rfl

theorem truncateTail_sim (w : Wal) (newMax : Nat) {F : Nat} {es : List Log}
    (hc : Core w.cfg w.nextID w.segs w.files F es) (ht : TailOpen w.segs w.files)
    (hF : F ≤ newMax) (hlt : newMax + 1 < F + es.length) :
    (w.truncateTail newMax).2 = none ∧ (w.truncateTail newMax).1.cfg = w.cfg ∧
      (w.truncateTail newMax).1.closed = w.closed ∧
      Core (w.truncateTail newMax).1.cfg (w.truncateTail newMax).1.nextID (w.truncateTail newMax).1.segs
        (w.truncateTail newMax).1.files F (es.take (newMax + 1 - F)) ∧
      TailOpen (w.truncateTail newMax).1.segs (w.truncateTail newMax).1.files := by
  obtain ⟨pre, t, r, ft, hs, hsl, hfl, hi0, hseg, hEq, hpre⟩ := shape hc ht
  rw [truncateTail_eq, walkTail_spec]
  simp only
  have hsplit := List.takeWhile_append_dropWhile (p := fun c : SegS × Rdr => decide (newMax < c.1.base))
    (l := w.segs.reverse)
  have hF1 := F_pos hc
  cases hdw : List.dropWhile (fun c : SegS × Rdr => decide (newMax < c.1.base)) w.segs.reverse with
  | nil =>
    -- impossible: the first segment starts at or below `newMax`
    exfalso
    rw [hdw, List.append_nil] at hsplit
    obtain ⟨c0, hh, hF0⟩ := hc.headF
    have hm : c0 ∈ w.segs := List.mem_of_mem_head? hh
    have hm' : c0 ∈ List.takeWhile (fun c : SegS × Rdr => decide (newMax < c.1.base)) w.segs.reverse := by
      rw [hsplit]; simpa using hm
    have := takeWhile_all _ _ _ hm'
    obtain ⟨f0, _, hs0⟩ := hc.segOK c0.1 c0.2 hm
    have := hs0.basemin
    simp at this ‹decide (newMax < c0.1.base) = true›
    omega
  | cons cc before =>
    obtain ⟨c, rc⟩ := cc
    simp only
    have hcb : c.base ≤ newMax := by
      have := dropWhile_head_false _ _ _ _ hdw
      simpa using this
    rw [hdw] at hsplit
    have hsegs : w.segs = before.reverse ++ (c, rc) ::
        (List.takeWhile (fun c : SegS × Rdr => decide (newMax < c.1.base)) w.segs.reverse).reverse := by
      have := congrArg List.reverse hsplit
      simp only [List.reverse_append, List.reverse_reverse, List.reverse_cons, List.append_assoc,
        List.singleton_append] at this
      exact this.symm
    generalize hdropped : (List.takeWhile (fun c : SegS × Rdr => decide (newMax < c.1.base)) w.segs.reverse) = tw at *
    have hdr : ∀ d ∈ tw.reverse, newMax < d.1.base := by
      intro d hd
      have := takeWhile_all (fun c : SegS × Rdr => decide (newMax < c.1.base)) w.segs.reverse d
        (by rw [hdropped]; simpa using hd)
      simpa using this
    have hc' := hc
    rw [hsegs] at hc'
    have hsort := hc'.sorted
    rw [List.pairwise_append, List.pairwise_cons] at hsort
    obtain ⟨hs1, ⟨hs2, hs3⟩, hs4⟩ := hsort
    obtain ⟨f, hf, hsc⟩ := hc'.segOK c rc (by simp)
    -- ids of the dropped segments
    have hdel : ∀ id ∈ ([] ++ tw.map (·.1.id)), id < w.nextID ∧
        ∀ x rx, (x, rx) ∈ before.reverse ++ [(c, rc)] → x.id ≠ id := by
      intro id hid
      simp only [List.nil_append, List.mem_map] at hid
      obtain ⟨d, hd, rfl⟩ := hid
      have hd' : d ∈ tw.reverse := by simpa using hd
      obtain ⟨fd, _, hsd⟩ := hc'.segOK d.1 d.2 (by simp [hd'])
      refine ⟨hsd.idlt, ?_⟩
      intro x rx hx
      rcases List.mem_append.mp hx with hx' | hx'
      · exact (hs4 (x, rx) hx' d (by simp [hd'])).2.2.2
      · simp at hx'; obtain ⟨rfl, rfl⟩ := hx'
        exact (hs2 d hd').2.2.2
    have key : ∃ (t' : SegS) (files' : List FileL), sealFor w c = (t', files', true) ∧ t'.id = c.id ∧
        t'.sealed = true ∧
        Core w.cfg w.nextID (before.reverse ++ [({ t' with max := newMax }, rc)]) files' F
          (es.take (newMax + 1 - F)) := by
      cases hcsl : c.sealed
      · -- `c` is the unsealed tail: force-seal it
        have hmem : (c, rc) ∈ pre ++ [(t, r)] := by rw [← hs, hsegs]; simp
        have hct : (c, rc) = (t, r) := by
          rcases List.mem_append.mp hmem with hm | hm
          · have := (hpre _ hm).1; simp [hcsl] at this
          · simpa using hm
        cases hct
        rw [hfl] at hf; cases hf
        have hfb := hsc.fbase
        have hlen : ¬ ft.entries.length = 0 := by omega
        obtain ⟨f', hf'⟩ : ∃ f' : FileL, f' =
              { ft with
                indexStart := ft.wsize + ((if ft.wsize = 0 then fileHeaderLen else 0) + frameHeaderLen)
                wsize := ft.wsize + ((if ft.wsize = 0 then fileHeaderLen else 0) + indexFrameSize ft.entries.length + frameHeaderLen) } :=
          ⟨_, rfl⟩
        have hseal : sealFor w t =
            ({ t with
                sealed := true
                indexStart := ft.wsize + ((if ft.wsize = 0 then fileHeaderLen else 0) + frameHeaderLen) },
             updFile w.files f', true) := by
          rw [hf']
          simp [sealFor, hcsl, Wal.file?_eq, hfl, hi0, hlen]
        refine ⟨_, _, hseal, rfl, rfl, ?_⟩
        have hfid := fileOf_some_id hfl
        have hf'id : f'.id = ft.id := by rw [hf']
        exact hc'.cutTail newMax _ hF hlt hcb hdr
          (updFile_ids hc.fileIds (by rw [hf'id, hfid]; exact hsc.idlt))
          (by
            intro id hid
            rw [fileOf_updFile, if_neg (by omega)])
          hfl
          (by rw [fileOf_updFile, if_pos (by omega), hfl]; rfl)
          (by rw [hf']) (by rw [hf']) (by rw [hf']) (by rw [hf']; simp only [frameHeaderLen]; omega)
          (by simp only [frameHeaderLen]; omega)
      · have hso := hsc.sealedOK hcsl
        have hseal : sealFor w c = (c, w.files, true) := by simp [sealFor, hcsl]
        refine ⟨c, w.files, hseal, rfl, hcsl, ?_⟩
        have heq : ({ c with max := newMax } : SegS) = { c with sealed := true, indexStart := c.indexStart, max := newMax } := by
          cases c; simp_all
        rw [heq]
        exact hc'.cutTail newMax c.indexStart hF hlt hcb hdr hc.fileIds (fun _ _ => rfl) hf hf rfl rfl rfl
          hso.2.2.1 hso.2.2.2
    obtain ⟨t', files', hseal, htid, htsl, hcore⟩ := key
    rw [hseal]
    simp only [not_true_eq_false, if_false]
    obtain ⟨w2, hcn, g1, g2, g3⟩ := finishTail
      { w with segs := before.reverse ++ [({ t' with max := newMax }, rc)], files := files' }
      ([] ++ tw.map (·.1.id)) hcore ⟨_, _, List.getLast?_concat, htsl⟩ (by
        intro id hid
        obtain ⟨q1, q2⟩ := hdel id hid
        refine ⟨q1, ?_⟩
        intro x rx hx
        rcases List.mem_append.mp hx with hx' | hx'
        · exact q2 x rx (List.mem_append_left _ hx')
        · simp at hx'; obtain ⟨rfl, rfl⟩ := hx'
          simp only [htid]
          exact q2 c rx (by simp))
    rw [hcn]
    simp only
    obtain ⟨g4, g5⟩ := g3 (bumpTail w w2 newMax).ctr
    exact ⟨trivial, g1, g2, g4, g5⟩

end RaftWal
