/-
  Proofs/SegmentL1.lean — byte-level (L1) theorems about the segment model:
  the writer produces exactly the README layout, recovery of an untorn file
  reproduces the writer's state, everything acknowledged is readable.

  STATEMENTS FIRST: the statements below are the contract; helper lemmas go
  above them or into Proofs/SegmentLemmas.lean.
-/
import RaftWal.Model.SegmentRun
import RaftWal.Spec.Format
import RaftWal.Proofs.Bytes
import RaftWal.Proofs.SegmentLemmas
namespace RaftWal

/-- the spec-side description of a run: batch `i` seals iff it is the last one and
    the writer ended up sealed -/
def specBatches (sealedAtEnd : Bool) (bs : List (List Bytes)) : List Spec.Batch :=
  bs.zipIdx.map (fun (b, i) => { payloads := b, sealing := i + 1 = bs.length && sealedAtEnd })

/-- generous upper bound of the bytes a run can occupy (header, frames with padding, commits, one index frame) -/
def runBytesBound (bs : List (List Bytes)) : Nat :=
  32 + (bs.map (fun b => (b.map (fun p => 16 + p.length)).sum + 8)).sum + (16 + 4 * (bs.map List.length).sum)

/-- side conditions under which the uint32/uint64 arithmetic of the Go code does not wrap -/
structure RunWF (info : SegInfo) (bs : List (List Bytes)) : Prop where
  nonempty : ∀ b ∈ bs, b ≠ []
  base_lt  : info.base < 2^64
  id_lt    : info.id < 2^64
  codec_lt : info.codec < 2^64
  limit_lt : info.sizeLimit < 2^32
  size_lt  : runBytesBound bs < 2^32

/-! ## bridging the statement vocabulary to the lemma files -/

open Spec (Acc Batch addEntry addBatch)

theorem sb_cons_ne (s : Bool) (b : List Bytes) (x : List (List Bytes)) (hx : x ≠ []) :
    sb s (b :: x) = ⟨b, false⟩ :: sb s x := by
  cases x with
  | nil => exact absurd rfl hx
  | cons b' r => rfl

theorem specBatches_aux (s : Bool) (n : Nat) (bs : List (List Bytes)) (k : Nat) (hn : n = k + bs.length) :
    (bs.zipIdx k).map (fun (b, i) => ({ payloads := b, sealing := i + 1 = n && s } : Spec.Batch)) = sb s bs := by
  induction bs generalizing k with
  | nil => rfl
  | cons b x ih =>
    cases x with
    | nil =>
      simp only [List.length_cons, List.length_nil] at hn
      simp [List.zipIdx_cons, sb, hn]
    | cons b' r =>
      rw [sb_cons_ne s b _ (by simp), ← ih (k+1) (by simp only [List.length_cons] at hn ⊢; omega)]
      simp only [List.length_cons] at hn
      rw [List.zipIdx_cons, List.map_cons]
      congr 1
      have : ¬ (k + 1 = n) := by omega
      simp [this]

theorem specBatches_eq_sb (s : Bool) (bs : List (List Bytes)) : specBatches s bs = sb s bs :=
  specBatches_aux s bs.length bs 0 (by omega)

theorem sb_concat (s : Bool) (init : List (List Bytes)) (last : List Bytes) :
    sb s (init ++ [last]) = init.map (fun b => ⟨b, false⟩) ++ [⟨last, s⟩] := by
  induction init with
  | nil => rfl
  | cons b x ih => rw [List.cons_append, sb_cons_ne s b _ (by simp), ih]; rfl

theorem idxPos_concat (a : Acc) (init : List (List Bytes)) (last : List Bytes) :
    idxPos a (init ++ [last])
      = (((init.map (fun b => (⟨b, false⟩ : Batch))).foldl addBatch a).bytes ++ encEntries last).length + 8 := by
  induction init generalizing a with
  | nil => rfl
  | cons b x ih =>
    have : ∃ b' r, x ++ [last] = b' :: r := by
      cases x with
      | nil => exact ⟨last, [], rfl⟩
      | cons b' r => exact ⟨b', r ++ [last], rfl⟩
    obtain ⟨b', r, hx⟩ := this
    rw [List.cons_append, hx, idxPos, ← hx, ih]; rfl

theorem specIndexStart_eq_idxPos (base id codec : Nat) (bs : List (List Bytes)) (hne : bs ≠ []) :
    Spec.indexStart base id codec (specBatches true bs) = idxPos ⟨Spec.header base id codec, [], 0⟩ bs := by
  rw [← List.dropLast_concat_getLast hne, specBatches_eq_sb, sb_concat, idxPos_concat]
  simp only [Spec.indexStart, List.reverse_append, List.reverse_cons, List.reverse_nil, List.nil_append,
    List.cons_append, List.reverse_reverse, Spec.layoutAcc, foldl_addEntry]

theorem freshSegment_fst (info : SegInfo) : (freshSegment info).1 =
  { info := info, commitBuf := fileHeader info.hdr, crc := crc32c (fileHeader info.hdr), writeOffset := 0, indexStart := 0,
    offsets := [], commitIdx := 0 } := rfl
theorem freshSegment_snd (info : SegInfo) : (freshSegment info).2 = zeros info.sizeLimit := rfl
theorem init_inv (info : SegInfo) :
    Inv info (freshSegment info).1 (freshSegment info).2 ⟨Spec.header info.base info.id info.codec, [], 0⟩ := by
  rw [freshSegment_fst, freshSegment_snd]
  constructor
  · rfl
  · show Spec.header info.base info.id info.codec = List.take 0 (zeros info.sizeLimit) ++ fileHeader info.hdr
    rw [List.take_zero, List.nil_append, fileHeader_eq]
    rfl
  · exact Nat.zero_le _
  · rfl
  · simp only
  · simp only
  · intro x hx
    exact List.eq_of_mem_replicate (List.mem_of_mem_drop hx)
/-- everything the run invariant says about the final state -/
theorem run_summary (info : SegInfo) (bs : List (List Bytes)) (hwf : RunWF info bs)
    (w : Writer) (file : Bytes)
    (hrun : (freshSegment info).1.appendAll (freshSegment info).2 info.base bs = some (w, file)) :
    Inv info w file (Spec.layoutAcc info.base info.id info.codec (specBatches (w.indexStart > 0) bs))
    ∧ (bs ≠ [] → w.commitBuf = [] ∧ w.commitIdx = info.base + cnt bs - 1 ∧ 0 < cnt bs)
    ∧ (w.indexStart = 0 ∨ w.indexStart = idxPos ⟨Spec.header info.base info.id info.codec, [], 0⟩ bs)
    ∧ (Spec.layoutAcc info.base info.id info.codec (specBatches (w.indexStart > 0) bs)).bytes.length < 2^32 := by
  have hb := hwf.size_lt
  have h := run_inv info bs hwf.nonempty _ _ _ info.base w file (init_inv info) rfl (by simp)
    (by simp only [specHeader_length, List.length_nil, Nat.zero_add]
        simp only [runBytesBound] at hb; simp only [need, cnt]; omega) hrun
  obtain ⟨h1, h2, h3, h4⟩ := h
  rw [specBatches_eq_sb, Spec.layoutAcc]
  refine ⟨h1, h2, h3, ?_⟩
  simp only [specHeader_length, List.length_nil, Nat.zero_add] at h4
  simp only [runBytesBound] at hb; simp only [need, cnt] at h4; omega

theorem file_eq_of_inv {info w file a} (h : Inv info w file a) (hcb : w.commitBuf = []) :
    ∃ k, file = a.bytes ++ zeros k := by
  refine ⟨(file.drop w.writeOffset).length, ?_⟩
  have hz : file.drop w.writeOffset = zeros (file.drop w.writeOffset).length :=
    List.eq_replicate_iff.mpr ⟨rfl, h.zeros⟩
  rw [h.bytes, hcb, List.append_nil, ← hz, List.take_append_drop]

theorem cnt_eq_flatten_length (bs : List (List Bytes)) : cnt bs = bs.flatten.length := by
  rw [cnt, List.length_flatten]

theorem run_empty (info : SegInfo) (w : Writer) (file : Bytes)
    (hrun : (freshSegment info).1.appendAll (freshSegment info).2 info.base [] = some (w, file)) :
    w = (freshSegment info).1 ∧ file = zeros info.sizeLimit := by
  simp only [Writer.appendAll, Option.some.injEq, Prod.mk.injEq] at hrun
  exact ⟨hrun.1.symm, hrun.2.symm⟩

/-! ## the theorems -/

/-- **C09** the bytes the writer put in the file up to its write offset are exactly the README layout,
    and everything behind is still zero -/
theorem writer_bytes_eq_spec (info : SegInfo) (bs : List (List Bytes)) (hwf : RunWF info bs)
    (w : Writer) (file : Bytes)
    (hrun : (freshSegment info).1.appendAll (freshSegment info).2 info.base bs = some (w, file)) (hne : bs ≠ []) :
    file.take w.writeOffset = Spec.layout info.base info.id info.codec (specBatches (w.indexStart > 0) bs)
    ∧ (∀ b ∈ file.drop w.writeOffset, b = 0) := by
  obtain ⟨h1, h2, _, _⟩ := run_summary info bs hwf w file hrun
  refine ⟨?_, h1.zeros⟩
  rw [Spec.layout, h1.bytes, (h2 hne).1, List.append_nil]

/-- **C09** for a sealed run the writer's `indexStart` (what goes into the meta store) is the position
    README assigns to the index array -/
theorem writer_indexStart_eq_spec (info : SegInfo) (bs : List (List Bytes)) (hwf : RunWF info bs)
    (w : Writer) (file : Bytes)
    (hrun : (freshSegment info).1.appendAll (freshSegment info).2 info.base bs = some (w, file))
    (hsealed : w.indexStart > 0) :
    w.indexStart = Spec.indexStart info.base info.id info.codec (specBatches true bs) := by
  obtain ⟨_, _, h3, _⟩ := run_summary info bs hwf w file hrun
  have hne : bs ≠ [] := by
    rintro rfl
    simp only [Writer.appendAll, Option.some.injEq, Prod.mk.injEq] at hrun
    rw [← hrun.1] at hsealed
    exact absurd hsealed (Nat.lt_irrefl 0)
  rw [specIndexStart_eq_idxPos _ _ _ _ hne]
  rcases h3 with h | h
  · omega
  · exact h

/-- **C02/C03** recovery of an untorn tail reproduces the writer (same offsets, write offset, commit index,
    seal state) and leaves the file bytes unchanged.

    Statement updated for the repaired `recoverTail` (Model/Segment.lean, returns the writer and the file as
    recovery leaves it).  Against the previous model the statement read
    `(recoverTail info file).toOption.map Writer.obs = some w.obs`. -/
theorem recover_untorn (info : SegInfo) (bs : List (List Bytes)) (hwf : RunWF info bs)
    (w : Writer) (file : Bytes)
    (hrun : (freshSegment info).1.appendAll (freshSegment info).2 info.base bs = some (w, file)) :
    ((recoverTail info file).toOption.map (fun p => p.1.obs)) = some w.obs
    ∧ ((recoverTail info file).toOption.map (·.2)) = some file := by
  by_cases hne : bs = []
  · subst hne
    obtain ⟨rfl, rfl⟩ := run_empty info w file hrun
    rw [recoverTail_zeros]
    exact ⟨rfl, rfl⟩
  · obtain ⟨h1, h2, h3, h4⟩ := run_summary info bs hwf w file hrun
    obtain ⟨hcb, hci, hpos⟩ := h2 hne
    obtain ⟨n, hn⟩ := file_eq_of_inv h1 hcb
    have hat := entriesAt_foldl ⟨Spec.header info.base info.id info.codec, [], 0⟩
      (specBatches (w.indexStart > 0) bs) [] ⟨rfl, fun x hx => by simp at hx⟩
    rw [List.nil_append, specBatches_eq_sb, sb_payloads, ← specBatches_eq_sb] at hat
    have holen := hat.1
    change (Spec.layoutAcc info.base info.id info.codec (specBatches (w.indexStart > 0) bs)).offsets.length = _ at holen
    have hwo := h1.bytes_length
    rw [hcb, List.length_nil, Nat.add_zero] at hwo
    have hoffs := h1.offsEq
    rw [← cnt_eq_flatten_length] at holen
    -- split off the last batch
    have hsplit := List.dropLast_concat_getLast hne
    have hsb : specBatches (w.indexStart > 0) bs
        = bs.dropLast.map (fun b => (⟨b, false⟩ : Spec.Batch)) ++ [⟨bs.getLast hne, decide (w.indexStart > 0)⟩] := by
      rw [specBatches_eq_sb]; conv => lhs; rw [← hsplit]
      exact sb_concat _ _ _
    rw [hsb] at h4 hwo hoffs holen hn
    have hrec := recover_layout info hwf.base_lt hwf.id_lt hwf.codec_lt _ _ n h4
    simp only at hrec
    rw [← hn] at hrec
    rw [hrec]
    refine ⟨?_, rfl⟩
    simp only [Except.toOption, Option.map_some, Writer.obs, Option.some.injEq, WriterObs.mk.injEq]
    refine ⟨hoffs.symm, hwo, ?_, ?_⟩
    · rw [commitIdxOf, holen, if_pos hpos, hci]
    · by_cases hs : w.indexStart > 0
      · simp only [hs, decide_true, if_true]
        rcases h3 with h | h
        · omega
        · rw [h]; conv => rhs; rw [← hsplit]
          rw [idxPos_concat, List.length_append]; rfl
      · simp only [hs, decide_false, Bool.false_eq_true, if_false]; omega

/-- **C15/C12** whatever the writer acknowledged is readable: entry `k` of the run is returned byte for byte,
    for every read-buffer size of at least one frame header -/
theorem getLog_after_appends (info : SegInfo) (bs : List (List Bytes)) (hwf : RunWF info bs)
    (hmin : info.min = info.base)
    (w : Writer) (file : Bytes)
    (hrun : (freshSegment info).1.appendAll (freshSegment info).2 info.base bs = some (w, file))
    (hmax : ∀ b ∈ bs, ∀ p ∈ b, p.length ≤ maxEntrySize)
    (k : Nat) (hk : k < bs.flatten.length) (bufSize : Nat) (hbuf : 8 ≤ bufSize) :
    w.getLog file (info.base + k) bufSize = .ok (bs.flatten[k]'hk) := by
  have hne : bs ≠ [] := by rintro rfl; simp at hk
  obtain ⟨h1, h2, _, h4⟩ := run_summary info bs hwf w file hrun
  obtain ⟨hcb, hci, _⟩ := h2 hne
  obtain ⟨n, hn⟩ := file_eq_of_inv h1 hcb
  have hat := entriesAt_foldl ⟨Spec.header info.base info.id info.codec, [], 0⟩
    (specBatches (w.indexStart > 0) bs) [] ⟨rfl, fun x hx => by simp at hx⟩
  rw [List.nil_append, specBatches_eq_sb, sb_payloads, ← specBatches_eq_sb] at hat
  change EntriesAt (Spec.layoutAcc info.base info.id info.codec (specBatches (w.indexStart > 0) bs)).bytes
    (Spec.layoutAcc info.base info.id info.codec (specBatches (w.indexStart > 0) bs)).offsets bs.flatten at hat
  obtain ⟨o, pre, post, ho, hbytes, hpre⟩ := hat.get k hk
  have hp : (bs.flatten[k]'hk).length ≤ maxEntrySize := by
    obtain ⟨b, hb, hpb⟩ := List.mem_flatten.mp (List.getElem_mem hk)
    exact hmax b hb _ hpb
  have hoff : pre.length + 8 < 2^32 := by
    have := congrArg List.length hbytes
    simp only [List.length_append, specEntryFrame_length, encodedFrameSize_eq] at this
    omega
  rw [cnt_eq_flatten_length] at hci
  have hofs : w.offsetForFrame (info.base + k) = .ok o := by
    rw [Writer.offsetForFrame, h1.info, hmin, hci, if_neg (by omega), Nat.add_sub_cancel_left, h1.offsEq, ho]
  rw [Writer.getLog, hofs]
  simp only
  rw [hn, hbytes, ← hpre]
  simp only [List.append_assoc]
  exact readFrame_entry pre (post ++ zeros n) _ bufSize hbuf hp hoff

/-- **C15/C12** `getLog_after_appends` without the size hypothesis: the writer refuses payloads above
    `maxEntrySize`, so a successful run implies it (`appendAll_payload_le`, Proofs/Segment/Run.lean) -/
theorem accepted_implies_readable (info : SegInfo) (bs : List (List Bytes)) (hwf : RunWF info bs)
    (hmin : info.min = info.base)
    (w : Writer) (file : Bytes)
    (hrun : (freshSegment info).1.appendAll (freshSegment info).2 info.base bs = some (w, file))
    (k : Nat) (hk : k < bs.flatten.length) (bufSize : Nat) (hbuf : 8 ≤ bufSize) :
    w.getLog file (info.base + k) bufSize = .ok (bs.flatten[k]'hk) :=
  getLog_after_appends info bs hwf hmin w file hrun
    (appendAll_payload_le _ _ _ bs w file hrun) k hk bufSize hbuf

/-- **C09** the independent README decoder reads back what the writer wrote -/
theorem spec_decode_writer (info : SegInfo) (bs : List (List Bytes)) (hwf : RunWF info bs)
    (w : Writer) (file : Bytes)
    (hrun : (freshSegment info).1.appendAll (freshSegment info).2 info.base bs = some (w, file)) :
    Spec.decode file = bs.flatten := by
  by_cases hne : bs = []
  · subst hne
    obtain ⟨_, rfl⟩ := run_empty info w file hrun
    rw [Spec.decode]
    have : (zeros info.sizeLimit).drop 32 = zeros (info.sizeLimit - 32) := by simp [zeros]
    rw [this, decodeBody_zeros]; rfl
  · obtain ⟨h1, h2, _, h4⟩ := run_summary info bs hwf w file hrun
    obtain ⟨k, hk⟩ := file_eq_of_inv h1 (h2 hne).1
    rw [hk, Spec.layoutAcc, decode_layout _ (by simp) _ h4, specBatches_eq_sb, sb_payloads]

/-- **C09** file naming: the code's `%020d-%016x.wal` is README's fixed-width naming for all 64-bit values -/
theorem fileName_eq_spec (base id : Nat) (hb : base < 2^64) (hi : id < 2^64) :
    fileName base id = Spec.fileName base id := by
  have h1 : base < 10 ^ (19+1) := by omega
  have h2 : id < 16 ^ (15+1) := by omega
  rw [fileName, Spec.fileName, fmtPadded_eq 10 19 base h1, fmtPadded_eq 16 15 id h2]
  apply String.toList_inj.mp
  simp only [String.toList_append, String.toList_ofList]
  rfl

end RaftWal

/-! ## axiom audit -/
