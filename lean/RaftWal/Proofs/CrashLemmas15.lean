/-
  Proofs/CrashLemmas15.lean — StoreLogs on an empty log whose first index is not the tail's base: the tail is replaced.
-/
import RaftWal.Proofs.CrashLemmas14
namespace RaftWal.Crash

theorem store_reset {d : Disk} {P : List Seg} {t : Seg} {f : File} (h : QS d P t f) {first : Nat} {es : List Entry}
    {sl : Bool} (hok : (Op.store first es sl).ok d) (hyes : (absLog d).isEmpty ∧ t.base ≠ first) :
    CallRes d (.store first es sl)
      [.commit ⟨d.md.nextID + 1, [newSeg d.md.nextID first], d.md.stable⟩, .create d.md.nextID first,
        .write d.md.nextID es sl, .fsync d.md.nextID, .delete t.id]
      (appPost ((d.apply (.commit ⟨d.md.nextID + 1, [newSeg d.md.nextID first], d.md.stable⟩)).apply
        (.create d.md.nextID first)) d.md.nextID es sl [t.id]) := by
  have hq := h.toQO
  have hb := h.base
  have hes : es ≠ [] := hok.1
  have hempty : absLog d = [] := by simpa using hyes.1
  obtain ⟨hP, hX⟩ := hq.empty hempty
  subst hP
  -- the two steps that replace the tail
  let n := d.md.nextID
  let nt := newSeg n first
  let c0 : Act := .commit ⟨n + 1, [nt], d.md.stable⟩
  let d0 := d.apply c0
  let d1 := d0.apply (.create n first)
  have h1 : Rec (fun l => l = []) d0 [] nt := Rec.fresh (A := fun l => l = []) hb.nodupF n hb.fidlt hb.hl first hok.2.1 rfl d.md.stable
  have hnone : d0.file? nt.id = none := by
    show d.file? n = none
    rw [file?_none_iff]; intro hc; exact Nat.lt_irrefl _ (hb.fidlt _ hc)
  have h2 : Rec (fun l => l = []) d1 [] nt := h1.create hnone
  have hf1 : d1.file? n = some (File.fresh n first) := by
    have := apply_create_file? d0 n first hnone n
    simpa using this
  obtain ⟨f1, hq1, hlog1⟩ := h2.toQO ⟨File.fresh n first, hf1, rfl, rfl, rfl⟩
  have hf1' : f1 = File.fresh n first := by
    have := hq1.tf; rw [show nt.id = n from rfl, hf1] at this; cases this; rfl
  subst hf1'
  have htid : t.id < n := hb.idlt t (by simp)
  have hid : ∀ j ∈ [t.id], ∀ s ∈ ([] : List Seg) ++ [nt], s.id ≠ j := by
    intro j hj s hs
    simp only [List.mem_cons, List.not_mem_nil, or_false, List.nil_append] at hj hs
    subst hj hs
    show n ≠ t.id
    omega
  have hafter : specApply (absLog d) (.store first es sl) = appLog d1 [] nt (File.fresh n first) es := by
    rw [specApply_store, appLog_eq hq1, hlog1, hempty]; rfl
  have hshape : prog d (.store first es sl) = [c0, .create n first, .write n es sl, .fsync n, .delete t.id] ++
      .ack :: appPost d1 n es sl [t.id] := by
    show storeProg d first es sl = _
    rw [storeProg_eq es sl (resetActs_yes hb.segs hyes) (t1 := nt) (by simp only [newTailActs, applyAll_cons, applyAll_nil, apply_create_md, apply_commit_md]; rfl)]
    rfl
  obtain ⟨hpost, P', t', f', hq', hlog, hids, hfids⟩ := app_post hq1 es sl hes [t.id] hid
  have hpre : d.applyAll [c0, .create n first, .write n es sl, .fsync n, .delete t.id] = appState d1 n es sl [t.id] := rfl
  have hfin : d.applyAll (prog d (.store first es sl)) = (appState d1 n es sl [t.id]).applyAll (appPost d1 n es sl [t.id]) := by
    rw [hshape, applyAll_append, hpre]; rfl
  refine ⟨hshape, by simp, ?_, ?_, ?_, ?_⟩
  · intro k
    rw [hafter]
    rcases k with _ | _ | k
    · exact ⟨[], t, by simpa using hq.toRec (Or.inl rfl)⟩
    · exact ⟨[], nt, by simpa using h1.mono (fun l hl => Or.inl (hl.trans hempty.symm))⟩
    · refine ⟨[], nt, ?_⟩
      have := app_pre hq1 es sl hes [t.id] hid k
      simp only [List.take_succ_cons, applyAll_cons]
      refine this.mono ?_
      intro l hl
      rcases hl with hl | hl
      · exact Or.inl (by rw [hl, hlog1, hempty])
      · exact Or.inr hl
  · intro k
    rw [hafter, hpre]
    exact hpost k
  · rw [hfin]
    refine ⟨P', t', f', hq'.toQS ?_⟩
    intro j hj
    rcases hfids j hj with h1 | h1
    · have hj1 : j ∈ fids d ++ [n] := by
        have e : fids d1 = fids d ++ [n] := fids_create d0 n first hnone
        have h1' := h1.1
        rw [e] at h1'; exact h1'
      simp only [List.mem_append, List.mem_cons, List.not_mem_nil, or_false] at hj1
      rcases hj1 with hj1 | hj1
      · have := h.sub j hj1
        simp only [segIds, List.nil_append, List.map_cons, List.map_nil, List.mem_cons, List.not_mem_nil, or_false] at this
        exact absurd (by simp [this]) h1.2
      · exact hids j (by simp [segIds, hj1, nt, newSeg])
    · exact h1
  · rw [hfin, hafter]; exact hlog

end RaftWal.Crash
