/-
  Proofs/FaultLemmasA7.lean — StoreLogs with at most one failing I/O action: the invariant is kept, readers see the
  batch exactly when the call returns nil, and the log the disk stands for is what readers see, or what they would see
  had the call succeeded, or what it was (`finv_call_store`, `call_view_store`, `call_disklog_store`).
-/
import RaftWal.Proofs.FaultLemmasA6
namespace RaftWal.Fault.A
open RaftWal.Crash

/-- the three per-call statements of `FaultStmt.lean` for one result -/
def CallSpec (p : Proc) (op : Op) (r : Proc × Bool) : Prop :=
  FInv r.1 ∧ view r.1 = (if r.2 then specApply (view p) op else view p) ∧
  (absLog r.1.disk = view r.1 ∨ (r.2 = false ∧ absLog r.1.disk = specApply (view p) op) ∨
    absLog r.1.disk = (if r.2 then specApply (absLog p.disk) op else absLog p.disk)) ∧
  (fextraB p = true → fextraB r.1 = true)

/-- the call returns an error and changes nothing -/
theorem callSpec_same (p : Proc) (hi : FInv p) (op : Op) : CallSpec p op (p, false) :=
  ⟨hi, by simp, Or.inr (Or.inr (by simp)), id⟩

theorem tailSealedMem_vdisk {d : Disk} {P : List Seg} {t : Seg} {f : File} (h : FRun d P t f) :
    tailSealedMem (vdisk d) = f.sealedS := by
  have h3 : (P ++ [t]).getLast? = some t := by simp
  have hv : (vdisk d).file? t.id = some (vfile f) := by rw [vdisk_file?, h.tf]; rfl
  unfold tailSealedMem
  simp only [vdisk_md, h.base.segs, h3, hv, h.base.tsl]
  rfl

theorem vdisk_last {d : Disk} {P : List Seg} {t : Seg} {f : File} (h : FRun d P t f) :
    (vdisk d).md.segs.getLast? = some t := h.last

/-- from the append phase to the call -/
theorem AppSpec.toCall {p : Proc} {d1 : Disk} {X : Prop} {V N : Log} {r : Proc × Bool} {op : Op}
    (h : AppSpec d1 X V N r) (hV : view p = V) (hN : specApply (view p) op = N)
    (hd : absLog d1 = absLog p.disk ∨ absLog d1 = V) (hX : fextraB p = true → X) : CallSpec p op r := by
  obtain ⟨h1, h2, h3, h4⟩ := h
  refine ⟨h1, by rw [hN, hV]; exact h2, ?_, fun hx => h4 (hX hx)⟩
  rcases h3 with h3 | ⟨h3, h4⟩ | ⟨h3, h4⟩
  · exact Or.inl h3
  · exact Or.inr (Or.inl ⟨h3, by rw [hN]; exact h4⟩)
  · rcases hd with hd | hd
    · exact Or.inr (Or.inr (by rw [h3, h4, hd]; simp))
    · exact Or.inl (by rw [h2, h3, h4, hd]; simp)

/-- StoreLogs in a running process whose tail is not replaced -/
theorem store_noreset_spec {p : Proc} (hfz : p.frozen = none) {P : List Seg} {t : Seg} {f : File}
    (h : FRun p.disk P t f) {first : Nat} {es : List Entry} {seals : Bool}
    (hok : OkV (view p) (.store first es seals))
    (hno : ¬ ((absLog (vdisk p.disk)).isEmpty ∧ t.base ≠ first)) (pl : Plan) :
    CallSpec p (.store first es seals) (runOp p (.store first es seals) pl) := by
  have hV : view p = absLog (vdisk p.disk) := view_none hfz
  have hi : FInv p := by unfold FInv finvB; rw [hfz]; exact h.finv
  rw [runOp_store_eq p hfz, resetActs_no (d := vdisk p.disk) h.base.segs hno]
  simp only
  rw [runActs_nil]
  unfold afterReset
  simp only [vdisk_last h, tailSealedMem_vdisk h]
  cases hss : f.sealedS with
  | true =>
    simp only [↓reduceIte]
    rw [proc_eta hfz]
    exact callSpec_same p hi _
  | false =>
    simp only [Bool.false_eq_true, ↓reduceIte]
    have hj : ∀ s ∈ P ++ [t], s.id ≠ p.disk.md.nextID := by
      intro s hs e
      have := h.base.idlt s hs
      omega
    have ha := appendPhase_spec h hss hok.1 seals (del := []) (j := p.disk.md.nextID) (Or.inl rfl) hj pl
    have hf := h.first_eq (hV ▸ hok) hno
    refine ha.toCall hV (by rw [specApply_store, hV, hf]) (Or.inl rfl) ?_
    intro hx
    have : fextraRunB p.disk = true := by unfold fextraB at hx; rw [hfz] at hx; exact hx
    exact (fextraRun_iff h).1 this

/-- StoreLogs in a running process on an empty log whose first index is not the tail's base -/
theorem store_reset_spec {p : Proc} (hfz : p.frozen = none) {P : List Seg} {t : Seg} {f : File}
    (h : FRun p.disk P t f) {first : Nat} {es : List Entry} {seals : Bool}
    (hok : OkV (view p) (.store first es seals))
    (hyes : (absLog (vdisk p.disk)).isEmpty ∧ t.base ≠ first) (pl : Plan) :
    CallSpec p (.store first es seals) (runOp p (.store first es seals) pl) := by
  have hV : view p = absLog (vdisk p.disk) := view_none hfz
  have hi : FInv p := by unfold FInv finvB; rw [hfz]; exact h.finv
  have hempty : absLog (vdisk p.disk) = [] := by simpa using hyes.1
  obtain ⟨hP, _⟩ := h.empty hempty
  subst hP
  have hb := h.base
  have hnone : p.disk.file? p.disk.md.nextID = none := nextID_none hb.fidlt
  have hr1 := reset_run hb.nodupF hb.fidlt hb.hl first hok.2.1
  rw [runOp_store_eq p hfz, resetActs_yes (d := vdisk p.disk) hb.segs hyes]
  simp only
  rw [show newTailActs (vdisk p.disk).md [] first =
    [.commit ⟨p.disk.md.nextID + 1, [newSeg p.disk.md.nextID first], p.disk.md.stable⟩,
      .create p.disk.md.nextID first] from rfl]
  -- the state after commit and create, and the rest of the call from there
  have hfull : ∀ k1, CallSpec p (.store first es seals)
      (afterReset p es seals [.delete t.id]
        ((p.disk.apply (.commit ⟨p.disk.md.nextID + 1, [newSeg p.disk.md.nextID first], p.disk.md.stable⟩)).apply
          (.create p.disk.md.nextID first), none, k1)) := by
    intro k1
    unfold afterReset
    have hss1 : (File.fresh p.disk.md.nextID first).sealedS = false := rfl
    simp only [vdisk_last hr1, tailSealedMem_vdisk hr1, hss1, Bool.false_eq_true, ↓reduceIte]
    have hj : ∀ s ∈ ([] : List Seg) ++ [newSeg p.disk.md.nextID first], s.id ≠ t.id := by
      intro s hs e
      simp only [List.nil_append, List.mem_cons, List.not_mem_nil, or_false] at hs
      subst hs
      have := hb.idlt t (by simp)
      simp only [newSeg] at e
      omega
    have ha := appendPhase_spec hr1 hss1 hok.1 seals (del := [.delete t.id]) (j := t.id) (Or.inr rfl) hj k1
    have hv1 : absLog (vdisk ((p.disk.apply (.commit ⟨p.disk.md.nextID + 1, [newSeg p.disk.md.nextID first],
        p.disk.md.stable⟩)).apply (.create p.disk.md.nextID first))) = [] := by
      rw [hr1.view_eq]; rfl
    have hl1 : absLog ((p.disk.apply (.commit ⟨p.disk.md.nextID + 1, [newSeg p.disk.md.nextID first],
        p.disk.md.stable⟩)).apply (.create p.disk.md.nextID first)) = [] := by
      rw [hr1.log_eq]; rfl
    rw [hv1] at ha
    exact ha.toCall (hV.trans hempty) (by rw [specApply_store, hV, hempty]; rfl) (Or.inr hl1)
      (fun _ => XT_of_noseal rfl rfl)
  rcases runActs_commit_create p.disk ⟨p.disk.md.nextID + 1, [newSeg p.disk.md.nextID first], p.disk.md.stable⟩
      p.disk.md.nextID first pl with ⟨rest, hr⟩ | ⟨rest, hr⟩ | ⟨rest, hr⟩
  · rw [hr]
    unfold afterReset
    simp only [isCreate, Bool.false_eq_true, ↓reduceIte]
    rw [proc_eta hfz]
    exact callSpec_same p hi _
  · rw [hr]
    unfold afterReset
    simp only [isCreate, ↓reduceIte]
    have hfi : FInv { disk := p.disk.apply (.commit ⟨p.disk.md.nextID + 1, [newSeg p.disk.md.nextID first],
        p.disk.md.stable⟩), frozen := some p.disk.md.segs } :=
      finvStop_of (nt := newSeg p.disk.md.nextID first) h.finv rfl rfl rfl rfl rfl hb.fidlt
    have hvw : view { disk := p.disk.apply (.commit ⟨p.disk.md.nextID + 1, [newSeg p.disk.md.nextID first],
        p.disk.md.stable⟩), frozen := some p.disk.md.segs } = view p := by
      rw [view_stop, hV]
      exact logP_files rfl _
    have hb0 : Base (p.disk.apply (.commit ⟨p.disk.md.nextID + 1, [newSeg p.disk.md.nextID first], p.disk.md.stable⟩)) []
        (newSeg p.disk.md.nextID first) :=
      (Rec.fresh (A := fun _ => True) hb.nodupF p.disk.md.nextID hb.fidlt hb.hl first hok.2.1 trivial
        p.disk.md.stable).base
    refine ⟨hfi, by simp only [Bool.false_eq_true, ↓reduceIte]; exact hvw, Or.inl ?_,
      fun _ => fextraStop_of_base hb0 rfl _⟩
    rw [hvw, hV, hempty]
    show absLog (p.disk.apply (.commit ⟨p.disk.md.nextID + 1, [newSeg p.disk.md.nextID first], p.disk.md.stable⟩)) = []
    rw [absLog_eq]
    show logP _ [newSeg p.disk.md.nextID first] = []
    rw [logP_single]
    exact segEntries_none hnone
  · rw [hr]
    exact hfull rest

/-- StoreLogs with at most one failing I/O action -/
theorem store_spec (p : Proc) (hi : FInv p) (first : Nat) (es : List Entry) (seals : Bool)
    (hok : OkV (view p) (.store first es seals)) (pl : Plan) :
    CallSpec p (.store first es seals) (runOp p (.store first es seals) pl) := by
  cases hfz : p.frozen with
  | some segs0 =>
    have : runOp p (.store first es seals) pl = (p, false) := by
      unfold runOp; simp [hfz]
    rw [this]
    exact callSpec_same p hi _
  | none =>
    have hrun : finvRunB p.disk = true := by
      unfold FInv finvB at hi; rw [hfz] at hi; exact hi
    obtain ⟨P, t, f, h⟩ := FRun.of_finv hrun
    by_cases hc : (absLog (vdisk p.disk)).isEmpty ∧ t.base ≠ first
    · exact store_reset_spec hfz h hok hc pl
    · exact store_noreset_spec hfz h hok hc pl

/-- **`finv_call_stmt` for StoreLogs** -/
theorem finv_call_store (p : Proc) (hi : FInv p) (first : Nat) (es : List Entry) (seals : Bool)
    (hok : OkV (view p) (.store first es seals)) (pl : Plan) :
    FInv (runOp p (.store first es seals) pl).1 :=
  (store_spec p hi first es seals hok pl).1

/-- **`call_view_stmt` for StoreLogs** -/
theorem call_view_store (p : Proc) (hi : FInv p) (first : Nat) (es : List Entry) (seals : Bool)
    (hok : OkV (view p) (.store first es seals)) (pl : Plan) :
    view (runOp p (.store first es seals) pl).1 =
      if (runOp p (.store first es seals) pl).2 then specApply (view p) (.store first es seals) else view p :=
  (store_spec p hi first es seals hok pl).2.1

/-- **`call_disklog_stmt` for StoreLogs** -/
theorem call_disklog_store (p : Proc) (hi : FInv p) (first : Nat) (es : List Entry) (seals : Bool)
    (hok : OkV (view p) (.store first es seals)) (pl : Plan) :
    absLog (runOp p (.store first es seals) pl).1.disk = view (runOp p (.store first es seals) pl).1 ∨
    ((runOp p (.store first es seals) pl).2 = false ∧
      absLog (runOp p (.store first es seals) pl).1.disk = specApply (view p) (.store first es seals)) ∨
    absLog (runOp p (.store first es seals) pl).1.disk =
      (if (runOp p (.store first es seals) pl).2 then specApply (absLog p.disk) (.store first es seals)
       else absLog p.disk) :=
  (store_spec p hi first es seals hok pl).2.2.1

/-- **the new half of `finv_call_stmt` for StoreLogs**: the two further conjuncts are kept -/
theorem fextra_call_store (p : Proc) (hi : FInvS p) (first : Nat) (es : List Entry) (seals : Bool)
    (hok : OkV (view p) (.store first es seals)) (pl : Plan) :
    fextraB (runOp p (.store first es seals) pl).1 = true :=
  (store_spec p hi.1 first es seals hok pl).2.2.2 hi.2

/-- **`finv_call_stmt` for StoreLogs** -/
theorem finvS_call_store (p : Proc) (hi : FInvS p) (first : Nat) (es : List Entry) (seals : Bool)
    (hok : OkV (view p) (.store first es seals)) (pl : Plan) :
    FInvS (runOp p (.store first es seals) pl).1 :=
  ⟨finv_call_store p hi.1 first es seals hok pl, fextra_call_store p hi first es seals hok pl⟩

/-- non-vacuity: the state Open leaves on an empty directory meets the hypotheses, for a reset (first index 5) and
    for a plain append (first index 1) -/
example : FInvS { disk := disk0 } ∧ OkV (view { disk := disk0 }) (.store 5 [7] true) ∧
    OkV (view { disk := disk0 }) (.store 1 [7] false) := by
  refine ⟨⟨by unfold FInv; decide, by decide⟩, ⟨by decide, by decide, Or.inl (by decide)⟩, ⟨by decide, by decide, Or.inl (by decide)⟩⟩

end RaftWal.Fault.A
