/-
  Proofs/FaultLemmasC4.lean — what a call may do to a process (`Outcome`); `runOp` for a tail truncation in terms of
  `runActs`; a tail truncation that keeps part of the tail segment, for every position of the failing action.
-/
import RaftWal.Proofs.FaultLemmasC3
namespace RaftWal.Fault.C
open RaftWal.Crash

/-- the conclusions of the three per-call statements, for a result `r` of a call `op` on `p` -/
structure Outcome (p : Proc) (op : Op) (r : Proc × Bool) : Prop where
  inv : FInv r.1
  vw : view r.1 = if r.2 = true then specApply (view p) op else view p
  dl : absLog r.1.disk = view r.1 ∨ (r.2 = false ∧ absLog r.1.disk = specApply (view p) op) ∨
       absLog r.1.disk = (if r.2 = true then specApply (absLog p.disk) op else absLog p.disk)
  ex : fextraB p = true → fextraB r.1 = true

/-- the call failed, the process goes on: readers see what they saw; the disk stands for that, or for what it stood -/
theorem Outcome.err {p : Proc} {op : Op} {d : Disk} {P : List Seg} {t : Seg} {f : File} (h : FR d P t f)
    (hv : rlog d P t f = view p) (ha : absLog d = view p ∨ absLog d = absLog p.disk)
    (he : fextraB p = true → fextraRunB d = true) :
    Outcome p op ({ disk := d }, false) := by
  have hvw : view { disk := d } = view p := by rw [h.view_run, hv]
  refine ⟨FInv_run h, by simpa using hvw, ?_, he⟩
  rcases ha with ha | ha
  · exact Or.inl (by rw [hvw]; exact ha)
  · exact Or.inr (Or.inr (by simpa using ha))

/-- the call succeeded -/
theorem Outcome.ok {p : Proc} {op : Op} {d : Disk} {P : List Seg} {t : Seg} {f : File} (h : FR d P t f)
    (hp : f.pending = []) (hv : rlog d P t f = specApply (view p) op)
    (h1 : f.sealedS = false) (h2 : f.sealedP = false) :
    Outcome p op ({ disk := d }, true) := by
  have hvw : view { disk := d } = specApply (view p) op := by rw [h.view_run, hv]
  refine ⟨FInv_run h, by simpa using hvw, Or.inl ?_, fun _ => h.fextra_of_unsealed h1 h2⟩
  show absLog d = view { disk := d }
  rw [h.absLog_clean hp, h.view_run]

/-- the new state is committed, its tail's file could not be created: the process stops -/
theorem Outcome.stop {p : Proc} {op : Op} {d : Disk} {P : List Seg} {t : Seg} {f : File} (h : FR d P t f)
    (hv : rlog d P t f = view p) (hs : p.disk.md.segs = d.md.segs) (sg : List Seg) (b : Nat)
    (ha : absLog (d.apply (.commit ⟨d.md.nextID + 1, sg ++ [newSeg d.md.nextID b], d.md.stable⟩)) =
      specApply (view p) op)
    (hx : fextraStopB (d.apply (.commit ⟨d.md.nextID + 1, sg ++ [newSeg d.md.nextID b], d.md.stable⟩)) = true) :
    Outcome p op ({ disk := d.apply (.commit ⟨d.md.nextID + 1, sg ++ [newSeg d.md.nextID b], d.md.stable⟩),
                    frozen := some p.disk.md.segs }, false) := by
  have hvw : view { disk := d.apply (.commit ⟨d.md.nextID + 1, sg ++ [newSeg d.md.nextID b], d.md.stable⟩),
                    frozen := some p.disk.md.segs } = view p := by
    rw [view_stop, hs, h.base.segs, h.vlog, hv]
  refine ⟨by rw [hs]; exact FInv_stop h sg b, by simpa using hvw, Or.inr (Or.inl ⟨rfl, ha⟩), fun _ => hx⟩

/-! ### `runOp` for a tail truncation -/

theorem runOp_delTail_frozen {p : Proc} (hf : p.frozen.isSome = true) (n : Nat) (pl : Plan) :
    runOp p (.delTail n) pl = (p, false) := by
  simp only [runOp, hf, ↓reduceIte]

theorem runOp_delTail_ok {p : Proc} (hf : p.frozen = none) {n : Nat} {pl : Plan} {d1 : Disk}
    {pl' : Plan} (h : runActs p.disk (delTailActs (vdisk p.disk) n) pl = (d1, none, pl')) :
    runOp p (.delTail n) pl = ({ disk := d1 }, true) := by
  simp only [runOp, hf, Option.isSome_none, Bool.false_eq_true, ↓reduceIte, h]

theorem runOp_delTail_err {p : Proc} (hf : p.frozen = none) {n : Nat} {pl : Plan} {d1 : Disk}
    {a : Act} {pl' : Plan} (h : runActs p.disk (delTailActs (vdisk p.disk) n) pl = (d1, some a, pl'))
    (hc : isCreate a = false) : runOp p (.delTail n) pl = ({ disk := d1 }, false) := by
  simp only [runOp, hf, Option.isSome_none, Bool.false_eq_true, ↓reduceIte, h, hc]

theorem runOp_delTail_stop {p : Proc} (hf : p.frozen = none) {n : Nat} {pl : Plan} {d1 : Disk}
    {a : Act} {pl' : Plan} (h : runActs p.disk (delTailActs (vdisk p.disk) n) pl = (d1, some a, pl'))
    (hc : isCreate a = true) :
    runOp p (.delTail n) pl = ({ disk := d1, frozen := some p.disk.md.segs }, false) := by
  simp only [runOp, hf, Option.isSome_none, Bool.false_eq_true, ↓reduceIte, h, hc]

/-! ### the specification on the log of an `FR` state -/

theorem spec_tail {d : Disk} {P : List Seg} {t : Seg} (hb : Base d P t) {newMax : Nat} (htb : t.base ≤ newMax)
    (X : Log) :
    specApply (logP d P ++ X) (.delTail newMax) = logP d P ++ X.filter (fun p => decide (p.1 ≤ newMax)) := by
  rw [specApply_delTail, List.filter_append]
  congr 1
  apply logP_filter_all
  intro s hs p hp
  have := mem_sealed (hb.sealed s hs) hp
  have hpw := List.pairwise_append.1 hb.pw
  have := (hpw.2.2 s hs t (by simp)).1
  simp only [decide_eq_true_eq]; omega

/-! ### commit and create on a durably sealed tail: the three outcomes -/

theorem tail_CR {p : Proc} {dd : Disk} {P : List Seg} {t : Seg} {ff : File} (h : FR dd P t ff)
    (hss : ff.sealedS = true) {mx : Nat} (hmn : t.min ≤ mx) (hmx : mx < ff.base + ff.synced.length)
    (hv : rlog dd P t ff = view p) (hs : p.disk.md.segs = dd.md.segs)
    (hspec : logP dd P ++ visF ff (sealSeg t mx) = specApply (view p) (.delTail mx)) :
    Outcome p (.delTail mx) ({ disk := dd }, false) ∧
    Outcome p (.delTail mx) ({ disk := dd.apply (rotCommit dd P t mx), frozen := some p.disk.md.segs }, false) ∧
    Outcome p (.delTail mx) ({ disk := (dd.apply (rotCommit dd P t mx)).apply (.create dd.md.nextID (mx + 1)) }, true) := by
  obtain ⟨h3, h4, h5, h6, hsyn⟩ := h.rotated hss hmn hmx (fun l => l = specApply (view p) (.delTail mx)) hspec
  refine ⟨Outcome.err h hv (Or.inl ?_) (fun _ => h.fextra_of_syn hsyn),
    Outcome.stop h hv hs (P ++ [sealSeg t mx]) (mx + 1) h3 h6, Outcome.ok h4 rfl h5 rfl rfl⟩
  rw [h.absLog_clean (h.ss hss).1, hv]

/-! ### the truncation point lies in the tail segment -/

theorem runActs_nil (d : Disk) (pl : Plan) : runActs d [] pl = (d, none, pl) := by
  simp only [runActs]

/-- the plan is exhausted: the action succeeds -/
theorem runActs_cons_nil (d : Disk) (a : Act) (as : List Act) :
    runActs d (a :: as) [] = runActs (applyF d a) as [] := by
  simp only [runActs]

/-- the plan lets the action succeed -/
theorem runActs_cons_ok (d : Disk) (a : Act) (as : List Act) (pl : Plan) :
    runActs d (a :: as) (none :: pl) = runActs (applyF d a) as pl := by
  simp only [runActs]

theorem runActs_commit_fail (d : Disk) (wf : WriteFail) (m : Meta) (as : List Act) (pl : Plan) :
    runActs d (.commit m :: as) (some wf :: pl) = (d, some (.commit m), pl) := by
  simp only [runActs, failEffect]

theorem runActs_create_fail (d : Disk) (wf : WriteFail) (id b : Nat) (as : List Act) (pl : Plan) :
    runActs d (.create id b :: as) (some wf :: pl) = (d, some (.create id b), pl) := by
  simp only [runActs, failEffect]

theorem runActs_fsync_fail (d : Disk) (wf : WriteFail) (id : Nat) (as : List Act) (pl : Plan) :
    runActs d (.fsync id :: as) (some wf :: pl) = (d, some (.fsync id), pl) := by
  simp only [runActs, failEffect]

theorem runActs_write_fail (d : Disk) (wf : WriteFail) (id : Nat) (es : List Entry) (sl : Bool) (as : List Act)
    (pl : Plan) :
    runActs d (.write id es sl :: as) (some wf :: pl) =
      (failEffect d wf (.write id es sl), some (.write id es sl), pl) := by
  simp only [runActs]

/-- two actions that both succeed -/
theorem runActs_two_ok (d : Disk) (a b : Act) (as : List Act) (pl : Plan)
    (h : pl = [] ∨ pl = [none] ∨ ∃ pl', pl = none :: none :: pl') :
    ∃ pl'', runActs d (a :: b :: as) pl = runActs (applyF (applyF d a) b) as pl'' := by
  rcases h with rfl | rfl | ⟨pl', rfl⟩
  · exact ⟨[], by rw [runActs_cons_nil, runActs_cons_nil]⟩
  · exact ⟨[], by rw [runActs_cons_ok, runActs_cons_nil]⟩
  · exact ⟨pl', by rw [runActs_cons_ok, runActs_cons_ok]⟩

/-- the shapes of a plan with respect to the first two actions -/
theorem plan_two (pl : Plan) :
    (pl = [] ∨ pl = [none] ∨ ∃ pl', pl = none :: none :: pl') ∨ (∃ wf pl', pl = some wf :: pl') ∨
      (∃ wf pl', pl = none :: some wf :: pl') := by
  rcases pl with _ | ⟨_ | wf, _ | ⟨_ | wf', pl'⟩⟩
  · exact Or.inl (Or.inl rfl)
  · exact Or.inl (Or.inr (Or.inl rfl))
  · exact Or.inl (Or.inr (Or.inr ⟨pl', rfl⟩))
  · exact Or.inr (Or.inr ⟨wf', pl', rfl⟩)
  · exact Or.inr (Or.inl ⟨wf, [], rfl⟩)
  · exact Or.inr (Or.inl ⟨wf, _, rfl⟩)
  · exact Or.inr (Or.inl ⟨wf, _, rfl⟩)

def rotMeta (d : Disk) (P : List Seg) (t : Seg) (mx : Nat) : Meta :=
  ⟨d.md.nextID + 1, P ++ [sealSeg t mx] ++ [newSeg d.md.nextID (mx + 1)], d.md.stable⟩

theorem rotCommit_eq (d : Disk) (P : List Seg) (t : Seg) (mx : Nat) : rotCommit d P t mx = .commit (rotMeta d P t mx) := rfl

/-- commit, create (nothing follows): the three results -/
theorem runActs_CR (d : Disk) (m : Meta) (id b : Nat) (pl : Plan) :
    (∃ pl', runActs d [.commit m, .create id b] pl = (d, some (.commit m), pl')) ∨
    (∃ pl', runActs d [.commit m, .create id b] pl = (d.apply (.commit m), some (.create id b), pl')) ∨
    ∃ pl', runActs d [.commit m, .create id b] pl = ((d.apply (.commit m)).apply (.create id b), none, pl') := by
  rcases plan_two pl with h | ⟨wf, pl', rfl⟩ | ⟨wf, pl', rfl⟩
  · obtain ⟨pl'', e⟩ := runActs_two_ok d (.commit m) (.create id b) [] pl h
    exact Or.inr (Or.inr ⟨pl'', by rw [e, runActs_nil]; rfl⟩)
  · exact Or.inl ⟨pl', runActs_commit_fail _ _ _ _ _⟩
  · exact Or.inr (Or.inl ⟨pl', by rw [runActs_cons_ok, runActs_create_fail]; rfl⟩)

/-! ### from `runActs` to `runOp` -/

theorem out_err {d : Disk} {n : Nat} {pl : Plan} {d1 : Disk} {a : Act} {pl' : Plan}
    (h : runActs d (delTailActs (vdisk d) n) pl = (d1, some a, pl')) (hc : isCreate a = false)
    (o : Outcome { disk := d } (.delTail n) ({ disk := d1 }, false)) :
    Outcome { disk := d } (.delTail n) (runOp { disk := d } (.delTail n) pl) := by
  rw [runOp_delTail_err (p := { disk := d }) rfl h hc]; exact o

theorem out_stop {d : Disk} {n : Nat} {pl : Plan} {d1 : Disk} {a : Act} {pl' : Plan}
    (h : runActs d (delTailActs (vdisk d) n) pl = (d1, some a, pl')) (hc : isCreate a = true)
    (o : Outcome { disk := d } (.delTail n) ({ disk := d1, frozen := some d.md.segs }, false)) :
    Outcome { disk := d } (.delTail n) (runOp { disk := d } (.delTail n) pl) := by
  rw [runOp_delTail_stop (p := { disk := d }) rfl h hc]; exact o

theorem out_ok {d : Disk} {n : Nat} {pl : Plan} {d1 : Disk} {pl' : Plan}
    (h : runActs d (delTailActs (vdisk d) n) pl = (d1, none, pl'))
    (o : Outcome { disk := d } (.delTail n) ({ disk := d1 }, true)) :
    Outcome { disk := d } (.delTail n) (runOp { disk := d } (.delTail n) pl) := by
  rw [runOp_delTail_ok (p := { disk := d }) rfl h]; exact o

/-- a write over the leftover batch, or what a failed one leaves: nothing a reader or a restart sees changes -/
theorem FR.setP_log {d : Disk} {P : List Seg} {t : Seg} {f : File} (h : FR d P t f) (hss : f.sealedS = false)
    (sl : Bool) :
    FR (C.setP d t.id [] sl) P t (spf [] sl f) ∧ rlog (C.setP d t.id [] sl) P t (spf [] sl f) = rlog d P t f ∧
      absLog (C.setP d t.id [] sl) = rlog d P t f := by
  obtain ⟨h1, h2⟩ := h.setP hss [] sl
  have e : rlog (C.setP d t.id [] sl) P t (spf [] sl f) = rlog d P t f := by
    unfold rlog; rw [h2]; rfl
  exact ⟨h1, e, by rw [h1.absLog_clean rfl, e]⟩

theorem caseA {d : Disk} {P : List Seg} {t : Seg} {f : File} (h : FR d P t f)
    {newMax : Nat} (hk : d.md.segs.filter (keptB newMax) = P ++ [t])
    (hD : d.md.segs.filter (fun s => !keptB newMax s) = []) (htb : t.base ≤ newMax) (hmn : t.min ≤ newMax)
    (hmx : newMax < f.base + f.synced.length) (pl : Plan) :
    Outcome { disk := d } (.delTail newMax) (runOp { disk := d } (.delTail newMax) pl) := by
  have hv : rlog d P t f = view { disk := d } := by rw [h.view_run]
  have hsp : specApply (view { disk := d }) (.delTail newMax) =
      logP d P ++ (visU t.min f.base f.synced).filter (fun q => decide (q.1 ≤ newMax)) := by
    rw [← hv]; exact spec_tail h.base htb _
  have hacts := delTailActs_tail h hk hD
  have hsyn : f.synced ≠ [] := by
    intro hc
    have := h.fb
    rw [hc] at hmx; simp at hmx; omega
  cases hss : f.sealedS with
  | true =>
    have hpe := (h.ss hss).1
    have hspec : logP d P ++ visF f (sealSeg t newMax) = specApply (view { disk := d }) (.delTail newMax) := by
      rw [hsp, sealSeg, visF_sealed]; simp [File.content, hpe]
    obtain ⟨o1, o2, o3⟩ := tail_CR (p := { disk := d }) h hss hmn hmx hv rfl hspec
    simp only [hss, ↓reduceIte, List.nil_append, rotCommit_eq] at hacts
    rcases runActs_CR d (rotMeta d P t newMax) d.md.nextID (newMax + 1) pl with ⟨pl', hr⟩ | ⟨pl', hr⟩ | ⟨pl', hr⟩
    · exact out_err (by rw [hacts]; exact hr) rfl o1
    · exact out_stop (by rw [hacts]; exact hr) rfl o2
    · exact out_ok (by rw [hacts]; exact hr) o3
  | false =>
    simp only [hss, Bool.false_eq_true, ↓reduceIte, List.cons_append, List.nil_append, rotCommit_eq] at hacts
    obtain ⟨h1, e1, a1⟩ := h.setP_log hss true
    obtain ⟨f2, h2, l2, b2, s2, p2, ss2, _⟩ := h1.fsync rfl
    have hss2 : f2.sealedS = true := by rw [ss2]; simp [spf]
    have hv2 : rlog ((setP d t.id [] true).apply (.fsync t.id)) P t f2 = view { disk := d } := by
      rw [← hv, ← e1]; unfold rlog; rw [l2, b2, s2]
    have hspec2 : logP ((setP d t.id [] true).apply (.fsync t.id)) P ++ visF f2 (sealSeg t newMax) =
        specApply (view { disk := d }) (.delTail newMax) := by
      rw [hsp, sealSeg, visF_sealed, l2, (h.setP hss [] true).2]
      simp [File.content, p2, s2, b2, spf]
    obtain ⟨o1, o2, o3⟩ := tail_CR (p := { disk := d }) h2 hss2 hmn (by rw [b2, s2]; exact hmx) hv2 rfl hspec2
    -- the run, according to the plan
    rcases plan_two pl with hpl | ⟨wf, pl', rfl⟩ | ⟨wf, pl', rfl⟩
    · -- ForceSeal succeeds
      obtain ⟨pl'', e⟩ := runActs_two_ok d (.write t.id [] true) (.fsync t.id)
        [.commit (rotMeta d P t newMax), .create d.md.nextID (newMax + 1)] pl hpl
      have hk'' : runActs d (delTailActs (vdisk d) newMax) pl =
          runActs ((setP d t.id [] true).apply (.fsync t.id))
            [.commit (rotMeta d P t newMax), .create d.md.nextID (newMax + 1)] pl'' := by
        rw [hacts, e]; rfl
      rcases runActs_CR ((setP d t.id [] true).apply (.fsync t.id)) (rotMeta d P t newMax) d.md.nextID
        (newMax + 1) pl'' with ⟨q, hr⟩ | ⟨q, hr⟩ | ⟨q, hr⟩
      · exact out_err (by rw [hk'']; exact hr) rfl o1
      · exact out_stop (by rw [hk'']; exact hr) rfl o2
      · exact out_ok (by rw [hk'']; exact hr) o3
    · -- the write of ForceSeal fails
      have hr : runActs d (delTailActs (vdisk d) newMax) (some wf :: pl') =
          (failEffect d wf (.write t.id [] true), some (.write t.id [] true), pl') := by
        rw [hacts, runActs_write_fail]
      apply out_err hr rfl
      rw [failEffect_write]
      cases wf with
      | nothing => exact Outcome.err h hv (Or.inr rfl) (fun _ => h.fextra_of_syn hsyn)
      | garbage =>
        obtain ⟨g1, g2, g3⟩ := h.setP_log hss false
        exact Outcome.err g1 (by rw [g2, hv]) (Or.inl (by rw [g3, hv])) (fun _ => g1.fextra_of_syn hsyn)
      | whole => exact Outcome.err h1 (by rw [e1, hv]) (Or.inl (by rw [a1, hv])) (fun _ => h1.fextra_of_syn hsyn)
    · -- its fsync fails
      have hr : runActs d (delTailActs (vdisk d) newMax) (none :: some wf :: pl') =
          (setP d t.id [] true, some (.fsync t.id), pl') := by
        rw [hacts, runActs_cons_ok, runActs_fsync_fail]; rfl
      exact out_err hr rfl (Outcome.err h1 (by rw [e1, hv]) (Or.inl (by rw [a1, hv]))
        (fun _ => h1.fextra_of_syn hsyn))

end RaftWal.Fault.C
