/-
  Proofs/OpenCheckProps.lean — theorems about Model/OpenCheck.lean (C11, C03):
  `wal.Open` fails when a segment the meta store lists as sealed is missing,
  shorter than its header, or carries another segment's header; the converse
  characterisation; totality; examples written by the model's own writer.
-/
import RaftWal.Model.OpenCheck
import RaftWal.Model.SegmentRun
import RaftWal.Proofs.Bytes
import RaftWal.Proofs.Segment.Frames
namespace RaftWal.OpenCheck
open RaftWal

/-! ## directory lookup -/

theorem lookup_mem {dir : Dir} {n : String} {b : Bytes} (h : dir.lookup n = some b) : (n, b) ∈ dir := by
  induction dir with
  | nil => simp [List.lookup] at h
  | cons p rest ih =>
    obtain ⟨k, v⟩ := p
    rw [List.lookup_cons] at h
    by_cases hk : n == k
    · simp only [hk] at h
      have : n = k := by simpa using hk
      subst this
      cases h
      exact List.mem_cons_self
    · simp only [hk] at h
      exact List.mem_cons_of_mem _ (ih h)

theorem lookup_none_of_not_mem {dir : Dir} {n : String} (h : ∀ b, (n, b) ∉ dir) : dir.lookup n = none := by
  cases hl : dir.lookup n with
  | none => rfl
  | some b => exact absurd (lookup_mem hl) (h b)

/-! ## `Filer.Open` -/

theorem validate_iff (got expect : HdrInfo) : validateFileHeader got expect = true ↔ got = expect := by
  cases got; cases expect
  simp only [validateFileHeader, decide_eq_true_eq, HdrInfo.mk.injEq]
  constructor
  · rintro ⟨h1, h2, h3⟩; exact ⟨h2.symm, h1.symm, h3.symm⟩
  · rintro ⟨h1, h2, h3⟩; exact ⟨h2.symm, h1.symm, h3.symm⟩

theorem filerOpen_ok_iff (dir : Dir) (s : SegInfo) :
    filerOpen dir s = .ok () ↔
      ∃ bytes, dir.lookup (segName s) = some bytes ∧ fileHeaderLen ≤ bytes.length ∧
        readFileHeader (bytes.take fileHeaderLen) = some s.hdr := by
  unfold filerOpen
  cases hl : dir.lookup (segName s) with
  | none => simp
  | some file =>
    simp only [readAt, List.drop_zero, List.length_take, Option.some.injEq, exists_eq_left']
    by_cases hlen : min fileHeaderLen file.length < fileHeaderLen
    · rw [if_pos hlen]
      constructor
      · intro h; cases h
      · rintro ⟨h, _⟩; omega
    · rw [if_neg hlen]
      have hge : fileHeaderLen ≤ file.length := by omega
      cases hr : readFileHeader (List.take fileHeaderLen file) with
      | none => simp
      | some got =>
        simp only [Option.some.injEq]
        by_cases hv : validateFileHeader got s.hdr = true
        · rw [if_pos hv]; exact ⟨fun _ => ⟨hge, (validate_iff _ _).1 hv⟩, fun _ => rfl⟩
        · rw [if_neg hv]
          constructor
          · intro h; cases h
          · rintro ⟨_, h⟩; exact absurd ((validate_iff _ _).2 h) hv

/-! ## the walk -/

theorem walOpenCheck_cons_sealed_ok {dir : Dir} {s : SegInfo} {rest : List SegInfo} {codec : Nat} {r : TailRes}
    (hs : s.sealed = true) (h : walOpenCheck dir (s :: rest) codec = .ok r) :
    s.codec = codec ∧ filerOpen dir s = .ok () ∧ walOpenCheck dir rest codec = .ok r := by
  rw [walOpenCheck] at h
  by_cases hc : s.codec ≠ codec
  · rw [if_pos hc] at h; cases h
  · rw [if_neg hc, if_pos hs] at h
    cases hf : filerOpen dir s with
    | error e => rw [hf] at h; cases h
    | ok u => rw [hf] at h; exact ⟨by omega, rfl, h⟩

theorem walOpenCheck_cons_unsealed_ok {dir : Dir} {s : SegInfo} {rest : List SegInfo} {codec : Nat} {r : TailRes}
    (hs : s.sealed = false) (h : walOpenCheck dir (s :: rest) codec = .ok r) : rest = [] := by
  rw [walOpenCheck] at h
  by_cases hc : s.codec ≠ codec
  · rw [if_pos hc] at h; cases h
  · rw [if_neg hc, if_neg (by simp [hs])] at h
    by_cases hr : rest ≠ []
    · rw [if_pos hr] at h; cases h
    · simpa using hr

/-- **4.** a successful walk pins down every sealed record: codec as configured, a file under the record's name, a
    full header, and the parsed header fields equal to the record's. -/
theorem open_ok_characterised (dir : Dir) (segs : List SegInfo) (codec : Nat) (r : TailRes)
    (h : walOpenCheck dir segs codec = .ok r) :
    ∀ s ∈ segs, s.sealed = true →
      s.codec = codec ∧
      ∃ bytes, dir.lookup (segName s) = some bytes ∧ (segName s, bytes) ∈ dir ∧ bytes.length ≥ fileHeaderLen ∧
        readFileHeader (bytes.take fileHeaderLen) = some { base := s.base, id := s.id, codec := s.codec } := by
  induction segs with
  | nil => intro s hs; cases hs
  | cons a rest ih =>
    intro s hmem hsealed
    cases ha : a.sealed with
    | true =>
      obtain ⟨hc, hf, hrest⟩ := walOpenCheck_cons_sealed_ok ha h
      rcases List.mem_cons.1 hmem with rfl | hin
      · obtain ⟨bytes, hl, hlen, hhdr⟩ := (filerOpen_ok_iff dir s).1 hf
        exact ⟨hc, bytes, hl, lookup_mem hl, hlen, hhdr⟩
      · exact ih hrest s hin hsealed
    | false =>
      have hnil := walOpenCheck_cons_unsealed_ok ha h
      subst hnil
      rcases List.mem_cons.1 hmem with rfl | hin
      · rw [ha] at hsealed; cases hsealed
      · cases hin

/-- **1.** a sealed segment with no file under its name: Open fails. -/
theorem open_fails_on_missing_sealed (dir : Dir) (segs : List SegInfo) (codec : Nat) (s : SegInfo)
    (hmem : s ∈ segs) (hsealed : s.sealed = true) (hmissing : ∀ bytes, (segName s, bytes) ∉ dir) :
    ∀ r, walOpenCheck dir segs codec ≠ .ok r := by
  intro r h
  obtain ⟨_, bytes, _, hin, _⟩ := open_ok_characterised dir segs codec r h s hmem hsealed
  exact hmissing bytes hin

/-- **2.** a sealed segment whose file is shorter than the 32-byte header: Open fails. -/
theorem open_fails_on_short_sealed (dir : Dir) (segs : List SegInfo) (codec : Nat) (s : SegInfo) (bytes : Bytes)
    (hmem : s ∈ segs) (hsealed : s.sealed = true) (hfile : dir.lookup (segName s) = some bytes)
    (hshort : bytes.length < fileHeaderLen) :
    ∀ r, walOpenCheck dir segs codec ≠ .ok r := by
  intro r h
  obtain ⟨_, bytes', hl, _, hlen, _⟩ := open_ok_characterised dir segs codec r h s hmem hsealed
  rw [hfile] at hl; cases hl; omega

/-- **3.** a sealed segment whose file starts with a well-formed header (`readFileHeader` accepts it) whose BaseIndex or ID
    differs from the record: Open fails. -/
theorem open_fails_on_foreign_header (dir : Dir) (segs : List SegInfo) (codec : Nat) (s : SegInfo) (bytes : Bytes)
    (hdr : HdrInfo)
    (hmem : s ∈ segs) (hsealed : s.sealed = true) (hfile : dir.lookup (segName s) = some bytes)
    (hwell : readFileHeader (bytes.take fileHeaderLen) = some hdr)
    (hforeign : hdr.base ≠ s.base ∨ hdr.id ≠ s.id) :
    ∀ r, walOpenCheck dir segs codec ≠ .ok r := by
  intro r h
  obtain ⟨_, bytes', hl, _, _, hh⟩ := open_ok_characterised dir segs codec r h s hmem hsealed
  rw [hfile] at hl; cases hl
  rw [hwell] at hh; cases hh
  rcases hforeign with h | h <;> exact h rfl

/-- **5.** the walk is total: it returns `.ok` or `.error`, on every directory content.

    Inputs on which the model answers `.error` or recovers and where Go code slicing by a value read from the
    file could have panicked — none does; each is guarded in the source:
    * file shorter than 32 bytes, sealed: fixed `[32]byte` + `ReadAt`, io.EOF → ErrCorrupt (segment/filer.go:93-103);
    * `readFileHeader` slices `buf[0:8] … buf[24:32]` only after `len(buf) < fileHeaderLen` (segment/format.go:89-91);
    * tail shorter than 32 bytes: fixed `[32]byte`, io.EOF tolerated, rest stays zero (segment/writer.go:584-590);
      a header that does not decode becomes the zero `SegmentInfo`, not a nil dereference (writer.go:592-610);
    * frame scan: fixed `[8]byte`, a short read ends the scan (writer.go:618-622), `readFrameHeader` checks the
      length first (segment/format.go:175-177); the frame length is never used to slice, only to advance `offset`
      (writer.go:656), and an `offset` past EOF is a short read;
    * CRC batches: `make([]byte, c.offset-c.crcStart)` with `crcStart ≤ offset` by construction of the scan
      (writer.go:157-166, 186); `offsets[:accepted.offsetsLen]` is a length recorded from the same slice (:163, :208).
    (On a platform with 32-bit `int`, `int(fh.len)` at writer.go:656 can be negative and the scan may fail to
    advance; the model, like the 64-bit builds, uses unbounded arithmetic there.) -/
theorem open_total (dir : Dir) (segs : List SegInfo) (codec : Nat) :
    (∃ r, walOpenCheck dir segs codec = .ok r) ∨ (∃ e, walOpenCheck dir segs codec = .error e) := by
  cases walOpenCheck dir segs codec with
  | ok r => exact .inl ⟨r, rfl⟩
  | error e => exact .inr ⟨e, rfl⟩

/-! ## header bytes -/

theorem chunk8 (c : Bytes) (h : c.length = 8) : c = putLE 8 (getLE c) := by
  have := putLE_getLE c
  rw [h] at this; exact this.symm

theorem readFileHeader_exact (buf : Bytes) (h : HdrInfo) (hlen : buf.length = fileHeaderLen)
    (hr : readFileHeader buf = some h) : buf = fileHeader h := by
  unfold readFileHeader at hr
  rw [if_neg (by omega)] at hr
  by_cases hm : getLE (buf.take 8) ≠ magic
  · rw [if_pos hm] at hr; cases hr
  · rw [if_neg hm] at hr
    by_cases hv : (buf.drop 7).headD 0 ≠ formatVersion.toUInt8
    · rw [if_pos hv] at hr; cases hr
    · rw [if_neg hv] at hr
      cases hr
      have hm' : getLE (buf.take 8) = magic := by omega
      have h32 : buf.length = 32 := hlen
      have e0 : buf.take 8 = putLE 8 magic := by
        rw [← hm']; exact chunk8 _ (by simp; omega)
      have e1 : (buf.drop 8).take 8 = putLE 8 (getLE ((buf.drop 8).take 8)) := chunk8 _ (by simp; omega)
      have e2 : (buf.drop 16).take 8 = putLE 8 (getLE ((buf.drop 16).take 8)) := chunk8 _ (by simp; omega)
      have e3 : (buf.drop 24).take 8 = putLE 8 (getLE ((buf.drop 24).take 8)) := chunk8 _ (by simp; omega)
      have e3' : buf.drop 24 = (buf.drop 24).take 8 := (List.take_of_length_le (by simp; omega)).symm
      have split : buf = buf.take 8 ++ ((buf.drop 8).take 8 ++ ((buf.drop 16).take 8 ++ (buf.drop 24).take 8)) := by
        rw [← e3']
        have a : buf.drop 16 = (buf.drop 16).take 8 ++ buf.drop 24 := by
          rw [show buf.drop 24 = (buf.drop 16).drop 8 by simp]; exact (List.take_append_drop 8 _).symm
        have b : buf.drop 8 = (buf.drop 8).take 8 ++ buf.drop 16 := by
          rw [show buf.drop 16 = (buf.drop 8).drop 8 by simp]; exact (List.take_append_drop 8 _).symm
        rw [← a, ← b]; exact (List.take_append_drop 8 _).symm
      have hmag : putLE 8 magic = putLE 4 magic ++ [0, 0, 0, formatVersion.toUInt8] := by decide
      have rhs : fileHeader { base := getLE ((buf.drop 8).take 8), id := getLE ((buf.drop 16).take 8),
                              codec := getLE ((buf.drop 24).take 8) }
          = buf.take 8 ++ ((buf.drop 8).take 8 ++ ((buf.drop 16).take 8 ++ (buf.drop 24).take 8)) := by
        simp only [fileHeader, List.append_assoc]
        rw [← e1, ← e2, ← e3, e0, hmag, List.append_assoc]
      exact split.trans rhs.symm

theorem readFileHeader_fileHeader (h : HdrInfo) (hb : h.base < 2^64) (hi : h.id < 2^64) (hc : h.codec < 2^64)
    (rest : Bytes) : readFileHeader ((fileHeader h ++ rest).take fileHeaderLen) = some h := by
  rw [take_app_len _ _ fileHeaderLen (by rw [fileHeader_eq]; simp [fileHeaderLen]), fileHeader_eq,
    readFileHeader_specHeader _ _ _ hb hi hc]

/-! ## sharper forms of 3 and 4, the converse, the link to `openSealed` -/

/-- 4, on the bytes: after a successful walk the first 32 bytes of every sealed segment's file are exactly the header
    `writeFileHeader` produces for the record (magic, zero reserved bytes, version, BaseIndex, ID, Codec). -/
theorem open_ok_header_bytes (dir : Dir) (segs : List SegInfo) (codec : Nat) (r : TailRes)
    (h : walOpenCheck dir segs codec = .ok r) (s : SegInfo) (hmem : s ∈ segs) (hsealed : s.sealed = true) :
    ∃ bytes, dir.lookup (segName s) = some bytes ∧ bytes.take fileHeaderLen = fileHeader s.hdr := by
  obtain ⟨_, bytes, hl, _, hlen, hh⟩ := open_ok_characterised dir segs codec r h s hmem hsealed
  exact ⟨bytes, hl, readFileHeader_exact _ _ (by rw [List.length_take]; omega) hh⟩

/-- 3, with the foreign header given as bytes: the file starts with the header the writer produces for some
    (BaseIndex, ID, Codec) triple of 64-bit values that is not the record's (Codec included). -/
theorem open_fails_on_foreign_written_header (dir : Dir) (segs : List SegInfo) (codec : Nat) (s : SegInfo)
    (hdr : HdrInfo) (rest : Bytes)
    (hmem : s ∈ segs) (hsealed : s.sealed = true) (hfile : dir.lookup (segName s) = some (fileHeader hdr ++ rest))
    (hb : hdr.base < 2^64) (hi : hdr.id < 2^64) (hc : hdr.codec < 2^64)
    (hforeign : hdr ≠ s.hdr) :
    ∀ r, walOpenCheck dir segs codec ≠ .ok r := by
  intro r h
  obtain ⟨_, bytes', hl, _, _, hh⟩ := open_ok_characterised dir segs codec r h s hmem hsealed
  rw [hfile] at hl; cases hl
  rw [readFileHeader_fileHeader hdr hb hi hc rest] at hh
  cases hh; exact hforeign rfl

/-- a header `readFileHeader` rejects (magic, reserved bytes or version not as written) also makes Open fail -/
theorem open_fails_on_malformed_header (dir : Dir) (segs : List SegInfo) (codec : Nat) (s : SegInfo) (bytes : Bytes)
    (hmem : s ∈ segs) (hsealed : s.sealed = true) (hfile : dir.lookup (segName s) = some bytes)
    (hbad : readFileHeader (bytes.take fileHeaderLen) = none) :
    ∀ r, walOpenCheck dir segs codec ≠ .ok r := by
  intro r h
  obtain ⟨_, bytes', hl, _, _, hh⟩ := open_ok_characterised dir segs codec r h s hmem hsealed
  rw [hfile] at hl; cases hl
  rw [hbad] at hh; cases hh

/-- converse of 4 for a list of sealed records: the conditions of 4 are all the walk asks for. In particular
    nothing about the file beyond its first 32 bytes, and nothing about `indexStart`, `min`, `max`. -/
theorem open_ok_of_sealed_good (dir : Dir) (segs : List SegInfo) (codec : Nat)
    (h : ∀ s ∈ segs, s.sealed = true ∧ s.codec = codec ∧
      ∃ bytes, dir.lookup (segName s) = some bytes ∧ bytes.length ≥ fileHeaderLen ∧
        readFileHeader (bytes.take fileHeaderLen) = some s.hdr) :
    walOpenCheck dir segs codec = .ok .noTail := by
  induction segs with
  | nil => rfl
  | cons a rest ih =>
    obtain ⟨hs, hc, hex⟩ := h a List.mem_cons_self
    rw [walOpenCheck, if_neg (by omega), if_pos hs, (filerOpen_ok_iff dir a).2 hex]
    exact ih (fun s hs => h s (List.mem_cons_of_mem _ hs))

/-- `filerOpen` is the existing `openSealed` (Model/Segment.lean) on the file found under the record's name -/
theorem filerOpen_eq_openSealed (dir : Dir) (s : SegInfo) :
    filerOpen dir s = match dir.lookup (segName s) with
      | none => .error .notExist
      | some file => (openSealed s file).mapError (fun _ => .corrupt) := by
  unfold filerOpen openSealed
  cases dir.lookup (segName s) with
  | none => rfl
  | some file =>
    simp only
    by_cases hlen : (readAt file 0 fileHeaderLen).length < fileHeaderLen
    · rw [if_pos hlen, if_pos hlen]; rfl
    · rw [if_neg hlen, if_neg hlen]
      cases readFileHeader (readAt file 0 fileHeaderLen) with
      | none => rfl
      | some got =>
        simp only
        by_cases hv : validateFileHeader got s.hdr = true
        · rw [if_pos hv, if_pos hv]; rfl
        · rw [if_neg hv, if_neg hv]; rfl

/-! ## non-vacuity: a directory written by the model's own writer, and damaged variants

`decide +kernel`: plain `decide` gets stuck on `String` equality (file names) in Lean 4.33; the kernel evaluates
it. No compiled evaluation: no `ofReduceBool` among the axioms (see Props/OpenAudit.lean). -/

deriving instance DecidableEq for Except

/-- which `TailRes` and the writer's commit index -/
def TailRes.kind : TailRes → Nat × Nat
  | .noTail => (0, 0)
  | .created w => (1, w.commitIdx)
  | .recovered w _ => (2, w.commitIdx)
  | .sealedTail w _ => (3, w.commitIdx)

def outcome (dir : Dir) (segs : List SegInfo) (codec : Nat) : Except OpenErr (Nat × Nat) :=
  (walOpenCheck dir segs codec).map TailRes.kind

/-- a fresh segment (`Create` on a preallocated file) with the batches appended, entries numbered from `info.base` -/
def run (info : SegInfo) (batches : List (List Bytes)) : Writer × Bytes :=
  ((freshSegment info).1.appendAll (freshSegment info).2 info.base batches).getD default

def seg1w : SegInfo :=
  { id := 1, base := 1, min := 1, max := 0, codec := 1, indexStart := 0, sizeLimit := 64, sealed := false }
/-- two batches; the second one exceeds the 64-byte limit and seals the segment -/
def seg1Run : Writer × Bytes := run seg1w [[[1, 2, 3]], [[4, 5]]]
/-- the record the meta store holds once the rotation is committed -/
def seg1 : SegInfo := { seg1w with max := 2, indexStart := seg1Run.1.indexStart, sealed := true }
def seg2 : SegInfo :=
  { id := 2, base := 3, min := 3, max := 0, codec := 1, indexStart := 0, sizeLimit := 128, sealed := false }
def seg2Run : Writer × Bytes := run seg2 [[[7]]]
/-- a segment with another ID (and base) written by the same writer -/
def seg9Run : Writer × Bytes := run { seg1w with id := 9, base := 5, min := 5 } [[[1, 2, 3]], [[4, 5]]]
def goodDir : Dir := [(segName seg1, seg1Run.2), (segName seg2, seg2Run.2)]

/-- the writer did seal segment 1: index at 80, 96 bytes, entries 1..2 -/
theorem ex_sealed_written : seg1Run.1.indexStart = 80 ∧ seg1Run.2.length = 96 ∧ seg1Run.1.commitIdx = 2 := by
  decide +kernel
/-- intact directory: Open succeeds, tail recovered with entry 3 -/
theorem ex_good_ok : outcome goodDir [seg1, seg2] 1 = .ok (2, 3) := by decide +kernel
/-- 1: sealed file missing -/
theorem ex_missing : outcome [(segName seg2, seg2Run.2)] [seg1, seg2] 1 = .error .notExist := by decide +kernel
/-- 2: sealed file cut to 31 bytes -/
theorem ex_short :
    outcome [(segName seg1, seg1Run.2.take 31), (segName seg2, seg2Run.2)] [seg1, seg2] 1 = .error .corrupt := by
  decide +kernel
/-- 3: the file of segment (base 5, id 9) under the name of segment 1 -/
theorem ex_foreign :
    outcome [(segName seg1, seg9Run.2), (segName seg2, seg2Run.2)] [seg1, seg2] 1 = .error .corrupt := by
  decide +kernel
/-- the other error branches are reachable too -/
theorem ex_codec : outcome goodDir [seg1, seg2] 2 = .error .unknownCodec := by decide +kernel
theorem ex_unsealed_first : outcome goodDir [seg2, seg1] 1 = .error .unsealedNotTail := by decide +kernel
/-- a foreign segment's committed content under the tail's name is refused by `recoverTail` -/
theorem ex_foreign_tail :
    outcome [(segName seg1, seg1Run.2), (segName seg2, seg9Run.2)] [seg1, seg2] 1 = .error (.tail .corrupt) := by
  decide +kernel

/-! ## what the walk does *not* check (witnesses; none contradicts the property text of C11) -/

/-- a sealed segment cut to exactly its 32-byte header — every entry and the index gone — passes Open -/
theorem ex_header_only_sealed_ok :
    outcome [(segName seg1, seg1Run.2.take 32), (segName seg2, seg2Run.2)] [seg1, seg2] 1 = .ok (2, 3) := by
  decide +kernel
/-- a sealed record with `IndexStart = 0` passes Open (`findFrameOffset` refuses every read later, reader.go:135-137) -/
theorem ex_sealed_indexStart_zero_ok :
    outcome goodDir [{ seg1 with indexStart := 0 }, seg2] 1 = .ok (2, 3) := by decide +kernel
/-- a missing *tail* file is not an error: the tail is created afresh (wal.go:171-181), so entry 3, which the tail
    had committed, is gone after this Open without any error -/
theorem ex_missing_tail_created : outcome [(segName seg1, seg1Run.2)] [seg1, seg2] 1 = .ok (1, 0) := by
  decide +kernel

end RaftWal.OpenCheck
