/-
  Proofs/FaultLemmasB7.lean — fault model, part B: the outcomes of a head truncation with at most one failing action,
  and the three per-call theorems for `delHead`.
-/
import RaftWal.Proofs.FaultLemmasB6
namespace RaftWal.Fault.B
open RaftWal.Crash

/-- the outcomes of a head truncation in a running process -/
inductive DHOut (d : Disk) (n : Nat) : Proc × Bool → Prop
  /-- the meta commit failed: nothing changed -/
  | same : DHOut d n ({ disk := d, frozen := none }, false)
  /-- everything is removed, the commit went through, the new tail could not be created: the process stops -/
  | stop : d.md.segs.dropWhile (gone d n) = [] →
      DHOut d n ({ disk := { d with md := allMeta d }, frozen := some d.md.segs }, false)
  /-- some segment is kept, the call went through -/
  | keep (hd : Seg) (rest : List Seg) (g : Nat → Bool) : d.md.segs.dropWhile (gone d n) = hd :: rest →
      (∀ j, j ∉ segIds (d.md.segs.takeWhile (gone d n)) → g j = true) →
      DHOut d n ({ disk := keepDisk d n hd rest g, frozen := none }, true)
  /-- everything is removed, the call went through -/
  | all (g : Nat → Bool) : d.md.segs.dropWhile (gone d n) = [] →
      (∀ j, j ∉ segIds (d.md.segs.takeWhile (gone d n)) → g j = true) →
      DHOut d n ({ disk := allDisk d g, frozen := none }, true)

theorem runOp_delHead_out (d : Disk) (n : Nat) (pl : Plan)
    (hfresh : d.file? d.md.nextID = none) : DHOut d n (runOp { disk := d, frozen := none } (.delHead n) pl) := by
  cases hk : d.md.segs.dropWhile (gone d n) with
  | nil =>
    have hk' : (vdisk d).md.segs.dropWhile (goneB (lastIndex (vdisk d)) n) = [] := hk
    have hacts := delHead_acts_all (vdisk d) n hk'
    rcases run_all d (allMeta d) d.md.nextID (lastIndex (vdisk d) + 1)
      (segIds (d.md.segs.takeWhile (gone d n))) pl hfresh with ⟨pl', hr⟩ | ⟨pl', hr⟩ | ⟨g, pl', hg, hr⟩
    · rw [runOp_delHead_of (hacts ▸ hr)]
      exact DHOut.same
    · rw [runOp_delHead_of (hacts ▸ hr)]
      exact DHOut.stop hk
    · rw [runOp_delHead_of (hacts ▸ hr)]
      exact DHOut.all g hk hg
  | cons hd rest =>
    have hk' : (vdisk d).md.segs.dropWhile (goneB (lastIndex (vdisk d)) n) = hd :: rest := hk
    have hacts := delHead_acts_keep (vdisk d) n hk'
    rcases run_keep d { d.md with segs := { hd with min := n } :: rest }
      (segIds (d.md.segs.takeWhile (gone d n))) pl with ⟨pl', hr⟩ | ⟨g, pl', hg, hr⟩
    · rw [runOp_delHead_of (hacts ▸ hr)]
      exact DHOut.same
    · rw [runOp_delHead_of (hacts ▸ hr)]
      exact DHOut.keep hd rest g hk hg

/-- what the three per-call theorems say about an outcome -/
structure DHGood (p : Proc) (n : Nat) (r : Proc × Bool) : Prop where
  inv : FInv r.1
  vw : view r.1 = if r.2 then specApply (view p) (.delHead n) else view p
  dlog : absLog r.1.disk = view r.1 ∨
    (r.2 = false ∧ absLog r.1.disk = specApply (view p) (.delHead n)) ∨
    absLog r.1.disk = (if r.2 then specApply (absLog p.disk) (.delHead n) else absLog p.disk)

theorem absLog_allCl (d : Disk) : absLog { md := allMeta d, files := [allFile d] } = [] := by
  simp [absLog, segEntries, Disk.file?, newSeg, File.fresh, File.content]

section
variable {d : Disk} {P : List Seg} {t : Seg} {f : File}

theorem FR.spec_view (h : FR d P t f) {n : Nat} (hok : (Op.delHead n).ok (cl d)) :
    specApply (view { disk := d, frozen := none }) (.delHead n) =
      absLog ((cl d).applyAll (prog (cl d) (.delHead n))) := by
  rw [view_running, h.view_eq]
  exact (call_refines_corrected (cl d) h.qsS _ hok).2.symm

theorem good_same (p : Proc) (hi : FInv p) (n : Nat) : DHGood p n (p, false) :=
  ⟨hi, rfl, Or.inr (Or.inr rfl)⟩

theorem FR.good_stop (h : FR d P t f) {n : Nat} (hok : (Op.delHead n).ok (cl d))
    (hk : d.md.segs.dropWhile (gone d n) = []) :
    DHGood { disk := d, frozen := none } n
      ({ disk := { d with md := allMeta d }, frozen := some d.md.segs }, false) := by
  refine ⟨?_, ?_, Or.inr (Or.inl ⟨rfl, ?_⟩)⟩
  · show finvStopB { d with md := allMeta d } d.md.segs = true
    unfold finvStopB
    have e : finvRunB { md := { allMeta d with segs := d.md.segs, nextID := (allMeta d).nextID - 1 }, files := d.files } =
        finvRunB d := finvRunB_congr rfl (by simp) rfl
    simp only [Bool.and_eq_true, decide_eq_true_eq]
    refine ⟨⟨by simp, ?_⟩, ?_⟩
    · rw [e]; exact (finvRunB_iff d).2 h.run
    · have hf : ({ d with md := allMeta d } : Disk).file? d.md.nextID = none := h.fresh_d
      simp [newSeg, hf]
  · exact absLog_congr rfl rfl
  · rw [h.spec_view hok, h.all_cl hk, absLog_allCl]
    have hf : ({ d with md := allMeta d } : Disk).file? (newSeg d.md.nextID (lastIndex (vdisk d) + 1)).id = none :=
      h.fresh_d
    show logP _ [newSeg d.md.nextID (lastIndex (vdisk d) + 1)] = []
    rw [logP_single, segEntries_none hf]

theorem FR.good_all (h : FR d P t f) {n : Nat} (hok : (Op.delHead n).ok (cl d))
    (hk : d.md.segs.dropWhile (gone d n) = []) (g : Nat → Bool)
    (hg : ∀ j, j ∉ segIds (d.md.segs.takeWhile (gone d n)) → g j = true) :
    DHGood { disk := d, frozen := none } n ({ disk := allDisk d g, frozen := none }, true) := by
  have hgn : g d.md.nextID = true := by
    apply hg
    rw [h.takeWhile_all hk]
    intro hc
    have := named_eq_mem.2 hc
    rw [h.not_named_next] at this; cases this
  obtain ⟨hrun, htf⟩ := h.all_run hok hk g hgn
  obtain ⟨P1, t1, f1, h1⟩ := hrun.unpack
  have ht1 : t1 = newSeg d.md.nextID (lastIndex (vdisk d) + 1) := by
    have := h1.last
    simpa using this.symm
  have hf1 : f1 = allFile d := by
    have := h1.tf
    rw [ht1] at this
    have e : (newSeg d.md.nextID (lastIndex (vdisk d) + 1)).id = d.md.nextID := rfl
    rw [e, htf] at this
    simpa using this.symm
  have hview : view { disk := allDisk d g, frozen := none } = specApply (view { disk := d, frozen := none }) (.delHead n) := by
    rw [view_running, h1.view_eq, h.spec_view hok, h.all_cl hk]
    exact congrArg absLog (h.all_final _ g hgn)
  refine ⟨(finvRunB_iff _).2 hrun, hview, Or.inl ?_⟩
  show absLog (allDisk d g) = view { disk := allDisk d g, frozen := none }
  rw [view_running, h1.view_eq, h1.disklog_eq, hf1]
  simp [File.fresh]

theorem FR.good_keep (h : FR d P t f) {n : Nat} (hok : (Op.delHead n).ok (cl d)) {hd : Seg} {rest : List Seg}
    (hk : d.md.segs.dropWhile (gone d n) = hd :: rest) (g : Nat → Bool)
    (hg : ∀ j, j ∉ segIds (d.md.segs.takeWhile (gone d n)) → g j = true) :
    DHGood { disk := d, frozen := none } n ({ disk := keepDisk d n hd rest g, frozen := none }, true) := by
  obtain ⟨hrun, t1', hl1, hid1, htf⟩ := h.keep_run hok hk g hg
  obtain ⟨P1, t1, f1, h1⟩ := hrun.unpack
  have ht1 : t1 = t1' := by
    have := h1.last
    rw [show (keepDisk d n hd rest g).md.segs = ({ hd with min := n } : Seg) :: rest from rfl, hl1] at this
    simpa using this.symm
  have hf1 : f1 = f := by
    have := h1.tf
    rw [ht1, htf] at this
    simpa using this.symm
  have hcl : absLog (cl (keepDisk d n hd rest g)) = specApply (absLog (cl d)) (.delHead n) := by
    rw [h.keep_final hk g hg]
    exact (call_refines_corrected (cl d) h.qsS _ hok).2
  have hview : view { disk := keepDisk d n hd rest g, frozen := none } =
      specApply (view { disk := d, frozen := none }) (.delHead n) := by
    rw [view_running, h1.view_eq, hcl, view_running, h.view_eq]
  refine ⟨(finvRunB_iff _).2 hrun, hview, Or.inr (Or.inr ?_)⟩
  show absLog (keepDisk d n hd rest g) = specApply (absLog d) (.delHead n)
  rw [h1.disklog_eq, hf1, hcl, h.disklog_eq, specApply_delHead, specApply_delHead, List.filter_append]
  congr 1
  symm
  apply List.filter_eq_self.2
  intro q hq
  have hnext := h.next hok.1
  have := (mem_idxFrom hq).1
  have := hok.2.2
  simp only [decide_eq_true_eq]
  omega

end

/-! ### the three per-call theorems for `delHead` -/

theorem delHead_good (p : Proc) (hi : FInv p) (n : Nat) (hok : OkV (view p) (.delHead n)) (pl : Plan) : DHGood p n (runOp p (.delHead n) pl) := by
  obtain ⟨d, fr⟩ := p
  cases fr with
  | some segs0 =>
    rw [runOp_delHead_frozen _ n pl rfl]
    exact good_same _ hi n
  | none =>
    obtain ⟨P, t, f, h⟩ := FR.of_finv (d := d) hi
    have hokc := h.ok hok
    have hout := runOp_delHead_out d n pl h.fresh_d
    generalize runOp { disk := d, frozen := none } (.delHead n) pl = r at hout
    cases hout with
    | same => exact good_same _ hi n
    | stop hk => exact h.good_stop hokc hk
    | keep hd rest g hk hg => exact h.good_keep hokc hk g hg
    | all g hk hg => exact h.good_all hokc hk g hg

theorem finv_call_delHead (p : Proc) (hi : FInv p) (newMin : Nat) (hok : OkV (view p) (.delHead newMin))
    (pl : Plan) : FInv (runOp p (.delHead newMin) pl).1 :=
  (delHead_good p hi newMin hok pl).inv

theorem call_view_delHead (p : Proc) (hi : FInv p) (newMin : Nat) (hok : OkV (view p) (.delHead newMin))
    (pl : Plan) :
    view (runOp p (.delHead newMin) pl).1 =
      if (runOp p (.delHead newMin) pl).2 then specApply (view p) (.delHead newMin) else view p :=
  (delHead_good p hi newMin hok pl).vw

theorem call_disklog_delHead (p : Proc) (hi : FInv p) (newMin : Nat) (hok : OkV (view p) (.delHead newMin))
    (pl : Plan) :
    absLog (runOp p (.delHead newMin) pl).1.disk = view (runOp p (.delHead newMin) pl).1 ∨
    ((runOp p (.delHead newMin) pl).2 = false ∧
      absLog (runOp p (.delHead newMin) pl).1.disk = specApply (view p) (.delHead newMin)) ∨
    absLog (runOp p (.delHead newMin) pl).1.disk =
      (if (runOp p (.delHead newMin) pl).2 then specApply (absLog p.disk) (.delHead newMin) else absLog p.disk) :=
  (delHead_good p hi newMin hok pl).dlog

/-! ### the further conjuncts (`fextraB`) under `delHead` -/

theorem fextraRunB_of {d : Disk} {t : Seg} {f : File} (hl : d.md.segs.getLast? = some t)
    (hf : d.file? t.id = some f) :
    fextraRunB d = (!(f.sealedS || f.sealedP) || !(f.synced ++ f.pending).isEmpty) := by
  unfold fextraRunB
  rw [hl]
  simp only [hf]

theorem fextraStopB_all (d : Disk) : fextraStopB { d with md := allMeta d } = true := by
  simp [fextraStopB, newSeg, nodupB]

theorem fextra_call_delHead (p : Proc) (hi : FInvS p) (newMin : Nat) (hok : OkV (view p) (.delHead newMin))
    (pl : Plan) : fextraB (runOp p (.delHead newMin) pl).1 = true := by
  obtain ⟨hi, hx⟩ := hi
  obtain ⟨d, fr⟩ := p
  cases fr with
  | some segs0 =>
    rw [runOp_delHead_frozen _ newMin pl rfl]
    exact hx
  | none =>
    obtain ⟨P, t, f, h⟩ := FR.of_finv (d := d) hi
    have hokc := h.ok hok
    have hout := runOp_delHead_out d newMin pl h.fresh_d
    generalize runOp { disk := d, frozen := none } (.delHead newMin) pl = r at hout
    cases hout with
    | same => exact hx
    | stop hk => exact fextraStopB_all d
    | keep hd rest g hk hg =>
      obtain ⟨_, t1, hl1, _, htf⟩ := h.keep_run hokc hk g hg
      have hl1' : (keepDisk d newMin hd rest g).md.segs.getLast? = some t1 := hl1
      show fextraRunB (keepDisk d newMin hd rest g) = true
      rw [fextraRunB_of hl1' htf, ← fextraRunB_of h.last h.tf]
      exact hx
    | all g hk hg =>
      have hgn : g d.md.nextID = true := by
        apply hg
        rw [h.takeWhile_all hk]
        intro hc
        have := named_eq_mem.2 hc
        rw [h.not_named_next] at this; cases this
      obtain ⟨_, htf⟩ := h.all_run hokc hk g hgn
      have hl : (allDisk d g).md.segs.getLast? = some (newSeg d.md.nextID (lastIndex (vdisk d) + 1)) := rfl
      show fextraRunB (allDisk d g) = true
      rw [fextraRunB_of hl htf]
      rfl

theorem finvS_call_delHead (p : Proc) (hi : FInvS p) (newMin : Nat) (hok : OkV (view p) (.delHead newMin))
    (pl : Plan) : FInvS (runOp p (.delHead newMin) pl).1 :=
  ⟨finv_call_delHead p hi.1 newMin hok pl, fextra_call_delHead p hi newMin hok pl⟩

end RaftWal.Fault.B
