/-
  Proofs/SegmentChainCor.lean — corollaries of `chain_atomic` in the vocabulary of C01 / C03.
-/
import RaftWal.Proofs.SegmentChain
namespace RaftWal

/-- every acknowledged batch of the chain is among the batches the file holds -/
theorem chainSpec_acked : ∀ (evs : List ChainEv) (bs : List (List Bytes)), chainSpec evs bs →
    ∀ b, ChainEv.append b ∈ evs → b ∈ bs
  | [], _, _, b, hb => by cases hb
  | .append b' :: evs, bs, h, b, hb => by
    obtain ⟨bs', hbs, hs⟩ := h
    subst hbs
    rcases List.mem_cons.mp hb with hb | hb
    · cases hb; exact List.mem_cons_self
    · exact List.mem_cons_of_mem _ (chainSpec_acked evs bs' hs b hb)
  | .restart :: evs, bs, h, b, hb => by
    rcases List.mem_cons.mp hb with hb | hb
    · cases hb
    · exact chainSpec_acked evs bs h b hb
  | .torn b' m :: evs, bs, h, b, hb => by
    have hb' : ChainEv.append b ∈ evs := by
      rcases List.mem_cons.mp hb with hb | hb
      · cases hb
      · exact hb
    rcases h with h | ⟨bs', hbs, hs⟩
    · exact chainSpec_acked evs bs h b hb'
    · subst hbs; exact List.mem_cons_of_mem _ (chainSpec_acked evs bs' hs b hb')

/-- nothing is fabricated: every batch the file holds was submitted (acknowledged or in flight) along the chain -/
theorem chainSpec_submitted : ∀ (evs : List ChainEv) (bs : List (List Bytes)), chainSpec evs bs →
    ∀ b ∈ bs, b ∈ chainBatches evs
  | [], bs, h, b, hb => by cases h; cases hb
  | .append b' :: evs, bs, h, b, hb => by
    obtain ⟨bs', hbs, hs⟩ := h
    subst hbs
    simp only [chainBatches, List.flatMap_cons, ChainEv.batches, List.cons_append, List.nil_append, List.mem_cons] at hb ⊢
    rcases hb with hb | hb
    · exact .inl hb
    · exact .inr (chainSpec_submitted evs bs' hs b hb)
  | .restart :: evs, bs, h, b, hb => by
    simp only [chainBatches, List.flatMap_cons, ChainEv.batches, List.nil_append]
    exact chainSpec_submitted evs bs h b hb
  | .torn b' m :: evs, bs, h, b, hb => by
    simp only [chainBatches, List.flatMap_cons, ChainEv.batches, List.cons_append, List.nil_append, List.mem_cons]
    rcases h with h | ⟨bs', hbs, hs⟩
    · exact .inr (chainSpec_submitted evs bs h b hb)
    · subst hbs
      rcases List.mem_cons.mp hb with hb | hb
      · exact .inl hb
      · exact .inr (chainSpec_submitted evs bs' hs b hb)

/-- **C01 at byte level, for chains**: whatever tears and restarts a chain contains, every batch whose append was
    acknowledged is in the recovered file (or a torn image collided under CRC-32C) -/
theorem chain_acked_survive (info : SegInfo) (evs : List ChainEv) (hwf : ChainWF info evs) :
    ChainCollision info evs ∨ ∃ w file bs, ChainResult info evs w file bs ∧ (∀ b, ChainEv.append b ∈ evs → b ∈ bs)
      ∧ (∀ b ∈ bs, b ∈ chainBatches evs) := by
  rcases chain_atomic info evs hwf with h | ⟨w, file, bs, h⟩
  · exact .inl h
  · exact .inr ⟨w, file, bs, h, chainSpec_acked evs bs h.spec, chainSpec_submitted evs bs h.spec⟩

/-- **C03 at byte level, for chains**: recovery never fails along a chain (the run is `.ok`), and the state it leaves
    accepts the next append: the chain extended by one more acknowledged append runs too -/
theorem chain_recovery_total (info : SegInfo) (evs : List ChainEv) (b : List Bytes) (hwf : ChainWF info (evs ++ [.append b])) :
    ChainCollision info (evs ++ [.append b]) ∨
      ∃ w file bs, chainRun info (freshSegment info) (evs ++ [.append b]) = .ok (w, file) ∧ b ∈ bs
        ∧ ChainResult info (evs ++ [.append b]) w file bs := by
  rcases chain_atomic info _ hwf with h | ⟨w, file, bs, h⟩
  · exact .inl h
  · exact .inr ⟨w, file, bs, h.run, chainSpec_acked _ bs h.spec b (by simp), h⟩

end RaftWal
