/-
  Proofs/WalLemmas10.lean — `Open` on an existing directory (`reopen`), the initial state, and the
  one-step simulation for every operation.
-/
import RaftWal.Proofs.WalLemmas9
namespace RaftWal

/-- the reader `Open` builds for a segment from its meta record -/
def rdOf (s : SegS) : Rdr := if s.sealed then Rdr.sealed s.min s.max s.indexStart else Rdr.writer s.min

theorem build_spec (w : Wal) (t : SegS) (r : Rdr) (hsl : t.sealed = false) (htc : t.codec = w.cfg.codecId) :
    ∀ (pre acc : List (SegS × Rdr)),
    (∀ c ∈ pre, c.1.sealed = true ∧ c.1.codec = w.cfg.codecId ∧
      ∃ f, w.files.find? (fun f => f.id = c.1.id ∧ f.base = c.1.base) = some f ∧ f.codec = c.1.codec ∧ f.wsize ≠ 0) →
    Wal.reopen.build w (pre ++ [(t, r)]) acc =
      some (acc.reverse ++ (pre ++ [(t, r)]).map (fun x => (x.1, rdOf x.1)), true) := by
  intro pre
  induction pre with
  | nil =>
    intro acc _
    simp [Wal.reopen.build, hsl, htc, rdOf]
  | cons a l ih =>
    intro acc hall
    obtain ⟨a1, a2⟩ := a
    obtain ⟨h1, h2, f, h3, h4, h5⟩ := hall (a1, a2) (by simp)
    simp only at h1 h2 h3 h4 h5
    simp only [List.cons_append]
    unfold Wal.reopen.build
    simp only [h2, ne_eq, not_true_eq_false, if_false, h1, h3, h4, h5, or_self]
    rw [ih _ (fun c hc => hall c (List.mem_cons_of_mem _ hc))]
    simp [rdOf, h1]

theorem Core.remap {cfg : WalCfg} {n : Nat} {segs : List (SegS × Rdr)} {files : List FileL} {F : Nat}
    {es : List Log} (h : Core cfg n segs files F es) :
    Core cfg n (segs.map (fun x => (x.1, rdOf x.1))) files F es := by
  refine ⟨h.cfgOK, h.fileIds, ?_, ?_, ?_, ?_, ?_, h.bound⟩
  · intro c r hm
    simp only [List.mem_map] at hm
    obtain ⟨x, hx, hxe⟩ := hm
    cases hxe
    obtain ⟨f, hf, hs⟩ := h.segOK x.1 x.2 hx
    refine ⟨f, hf, { hs with rdr := ?_ }⟩
    unfold rdOf
    cases hsl : x.1.sealed
    · simp [RdrOK]
    · have := hs.sealedOK hsl
      simp only [if_true, RdrOK]
      exact ⟨hsl, Nat.le_refl _, Or.inr (Nat.le_refl _), this.2.2.2⟩
  · rw [List.pairwise_map]
    exact h.sorted
  · obtain ⟨c0, hh, hF⟩ := h.headF
    refine ⟨(c0.1, rdOf c0.1), ?_, hF⟩
    rw [List.head?_map, hh]; rfl
  · obtain ⟨t, f, hl, hf, hhi⟩ := h.endE
    refine ⟨(t.1, rdOf t.1), f, ?_, hf, hhi⟩
    rw [List.getLast?_map, hl]; rfl
  · intro idx h1 h2
    obtain ⟨c, r, f, hm, hf, h3, h4⟩ := h.cover idx h1 h2
    exact ⟨c, rdOf c, f, List.mem_map.mpr ⟨(c, r), hm, rfl⟩, hf, h3, h4⟩

theorem TailOpen.remap {segs : List (SegS × Rdr)} {files : List FileL} (h : TailOpen segs files) :
    TailOpen (segs.map (fun x => (x.1, rdOf x.1))) files := by
  obtain ⟨t, r, f, hl, hsl, hf, hi0⟩ := h
  exact ⟨t, rdOf t, f, by rw [List.getLast?_map, hl]; rfl, hsl, hf, hi0⟩

theorem reopen_sim (w : Wal) {F : Nat} {es : List Log}
    (hc : Core w.cfg w.nextID w.segs w.files F es) (ht : TailOpen w.segs w.files) :
    ∃ w', w.reopen = some w' ∧ w'.closed = false ∧
      Core w'.cfg w'.nextID w'.segs w'.files F es ∧ TailOpen w'.segs w'.files := by
  obtain ⟨pre, t, r, ft, hs, hsl, hfl, hi0, hseg, hEq, hpre⟩ := shape hc ht
  have hbuild := build_spec w t r hsl hseg.codec pre [] (by
    intro c hcm
    obtain ⟨f, hf, hsc⟩ := hc.segOK c.1 c.2 (by rw [hs]; simp [hcm])
    have hsl' := (hpre c hcm).1
    refine ⟨hsl', hsc.codec, f, find_id_base hf hsc.fbase, hsc.fcodec, ?_⟩
    have := (hsc.sealedOK hsl').2.2.1
    omega)
  rw [← hs] at hbuild
  simp only [List.reverse_nil, List.nil_append] at hbuild
  have hlast : (w.segs.map (fun x => (x.1, rdOf x.1))).getLast? = some (t, rdOf t) := by
    rw [List.getLast?_map, hs, List.getLast?_concat]; rfl
  have hany : w.files.any (fun f => f.id = t.id ∧ f.base = t.base) = true := by
    rw [List.any_eq_true]
    exact ⟨ft, fileOf_some_mem hfl, by simp [fileOf_some_id hfl, hseg.fbase]⟩
  unfold Wal.reopen
  simp only [hbuild, Wal.tailSeg, hlast, hany, not_true_eq_false, and_false, if_false, if_true, Option.map_some]
  refine ⟨_, rfl, rfl, ?_, ?_⟩
  · exact hc.remap.filter (fun id => (w.segs.map (fun x => (x.1, rdOf x.1))).any (fun s => s.1.id = id)) (by
      intro c rc hm
      rw [List.any_eq_true]
      exact ⟨(c, rc), hm, by simp⟩)
  · exact ht.remap.filter (fun id => (w.segs.map (fun x => (x.1, rdOf x.1))).any (fun s => s.1.id = id)) (by
      intro c rc hm
      rw [List.any_eq_true]
      exact ⟨(c, rc), hm, by simp⟩)

theorem sim_reopen {w : Wal} {s : Spec.SLog} (h : Sim w s) :
    (w.step .reopen).2 = (s.step .reopen).2 ∧ Sim (w.step .reopen).1 (s.step .reopen).1 := by
  obtain ⟨F, hc, ht, hcl, hf⟩ := h
  obtain ⟨w', hre, hcl', hc', ht'⟩ := reopen_sim w hc ht
  simp only [Wal.step, hre, Spec.SLog.step]
  exact ⟨trivial, F, hc', ht', by rw [hcl']; rfl, hf⟩

theorem init_sim (cfg : WalCfg) (hcfg : cfg.newSegCodec = cfg.codecId) (w0 : Wal)
    (h0 : Wal.init cfg = some w0) : Sim w0 { first := 0, entries := [] } := by
  unfold Wal.init Wal.reopen at h0
  simp only [Wal.reopen.build, List.reverse_nil, Wal.tailSeg, List.getLast?_nil, Bool.false_eq_true,
    if_false] at h0
  obtain ⟨w1, b, hcn, g1, g2, g3, g4, g5, g6, g7, g8⟩ := createNext_empty
    { cfg := cfg, nextID := 0, segs := [], files := [], stable := [], ctr := {}, closed := false } 0 rfl hcfg
    (by intro f hf; simp at hf) (by omega)
  rw [hcn] at h0
  simp only [Option.map_some, Option.some.injEq] at h0
  subst h0
  refine ⟨b, ?_, ?_, by simpa using g2.symm, by intro h; exact absurd rfl h⟩
  · exact g5.filter (fun id => w1.segs.any (fun s => s.1.id = id)) (by
      intro c rc hm
      rw [List.any_eq_true]
      exact ⟨(c, rc), hm, by simp⟩)
  · exact g6.filter (fun id => w1.segs.any (fun s => s.1.id = id)) (by
      intro c rc hm
      rw [List.any_eq_true]
      exact ⟨(c, rc), hm, by simp⟩)

theorem step_sim {w : Wal} {s : Spec.SLog} (h : Sim w s) (op : Op) (hop : op.inRange) :
    (w.step op).2 = (s.step op).2 ∧ Sim (w.step op).1 (s.step op).1 := by
  cases op with
  | store logs => exact sim_store h logs hop
  | del mn mx => exact sim_del h mn mx hop
  | get i => exact sim_get h i
  | first => exact sim_first h
  | last => exact sim_last h
  | close => exact sim_close h
  | reopen => exact sim_reopen h

theorem run_sim {w : Wal} {s : Spec.SLog} (h : Sim w s) (ops : List Op) (hops : ∀ op ∈ ops, op.inRange) :
    w.run ops = s.run ops := by
  induction ops generalizing w s with
  | nil => rfl
  | cons op ops ih =>
    obtain ⟨h1, h2⟩ := step_sim h op (hops op (by simp))
    simp only [Wal.run, Spec.SLog.run]
    rw [h1, ih h2 (fun o ho => hops o (List.mem_cons_of_mem _ ho))]

end RaftWal
