/-
  Proofs/CrashLemmas1.lean — basics for the crash proofs: indexed entries, what a segment shows of a file,
  file lookup after each I/O action and after a crash.
-/
import RaftWal.Proofs.CrashDefs
namespace RaftWal.Crash

abbrev Log := List (Nat × Entry)

theorem flatMap_congr' {α β : Type} {l : List α} {f g : α → List β} (h : ∀ a ∈ l, f a = g a) :
    l.flatMap f = l.flatMap g := by
  induction l with
  | nil => rfl
  | cons a l ih =>
    simp only [List.flatMap_cons]
    rw [h a (by simp), ih (fun b hb => h b (by simp [hb]))]

/-! ### indexed entries -/

def idxFrom (n : Nat) : List Entry → Log
  | [] => []
  | e :: l => (n, e) :: idxFrom (n + 1) l

@[simp] theorem idxFrom_nil (n : Nat) : idxFrom n [] = [] := rfl
@[simp] theorem idxFrom_cons (n : Nat) (e : Entry) (l : List Entry) : idxFrom n (e :: l) = (n, e) :: idxFrom (n + 1) l := rfl

theorem zip_range_idx (b : Nat) (c : List Entry) :
    ((List.range c.length).zip c).map (fun p => (b + p.1, p.2)) = idxFrom b c := by
  induction c generalizing b with
  | nil => simp
  | cons e l ih =>
    simp only [List.length_cons, List.range_succ_eq_map, List.zip_cons_cons, List.map_cons, idxFrom_cons,
      Nat.add_zero, List.zip_map_left, List.map_map]
    congr 1
    rw [← ih (b + 1)]
    apply List.map_congr_left
    intro p _
    simp [Nat.add_comm, Nat.add_left_comm]

theorem idxFrom_append (n : Nat) (a b : List Entry) :
    idxFrom n (a ++ b) = idxFrom n a ++ idxFrom (n + a.length) b := by
  induction a generalizing n with
  | nil => simp
  | cons e l ih => simp [ih, Nat.add_assoc, Nat.add_comm 1]

theorem mem_idxFrom {n : Nat} {c : List Entry} {p : Nat × Entry} (h : p ∈ idxFrom n c) :
    n ≤ p.1 ∧ p.1 < n + c.length := by
  induction c generalizing n with
  | nil => simp at h
  | cons e l ih =>
    simp only [idxFrom_cons, List.mem_cons] at h
    rcases h with h | h
    · subst h; simp
    · have := ih h; simp; omega

@[simp] theorem idxFrom_eq_nil (n : Nat) (c : List Entry) : idxFrom n c = [] ↔ c = [] := by
  cases c <;> simp

@[simp] theorem idxFrom_length (n : Nat) (c : List Entry) : (idxFrom n c).length = c.length := by
  induction c generalizing n with
  | nil => rfl
  | cons e l ih => simp [ih]

/-! ### what a segment shows of a file -/

/-- the visibility test of a segment -/
def segVis (s : Seg) (p : Nat × Entry) : Bool := decide (s.min ≤ p.1) && (!s.sealed || decide (p.1 ≤ s.max))

def visF (f : File) (s : Seg) : Log := (idxFrom f.base f.content).filter (segVis s)

theorem segEntries_eq (d : Disk) (s : Seg) :
    segEntries d s = match d.file? s.id with | none => [] | some f => visF f s := by
  unfold segEntries
  cases d.file? s.id with
  | none => rfl
  | some f => simp only [visF, zip_range_idx]; rfl

theorem segEntries_none {d : Disk} {s : Seg} (h : d.file? s.id = none) : segEntries d s = [] := by
  rw [segEntries_eq, h]

theorem segEntries_some {d : Disk} {s : Seg} {f : File} (h : d.file? s.id = some f) : segEntries d s = visF f s := by
  rw [segEntries_eq, h]

/-- the entries of a list of segments -/
def logP (d : Disk) (P : List Seg) : Log := P.flatMap (segEntries d)

theorem absLog_eq (d : Disk) : absLog d = logP d d.md.segs := rfl

@[simp] theorem logP_nil (d : Disk) : logP d [] = [] := rfl
theorem logP_append (d : Disk) (P Q : List Seg) : logP d (P ++ Q) = logP d P ++ logP d Q := by
  simp [logP]
theorem logP_cons (d : Disk) (s : Seg) (Q : List Seg) : logP d (s :: Q) = segEntries d s ++ logP d Q := by
  simp [logP]
theorem logP_single (d : Disk) (s : Seg) : logP d [s] = segEntries d s := by
  simp [logP]

/-- only base and content of the files matter -/
theorem visF_congr {f f' : File} (s : Seg) (hb : f'.base = f.base) (hc : f'.content = f.content) :
    visF f' s = visF f s := by
  simp [visF, hb, hc]

end RaftWal.Crash
