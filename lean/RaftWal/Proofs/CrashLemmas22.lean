/-
  Proofs/CrashLemmas22.lean — tail truncation inside the tail segment: ForceSeal, rotate.
-/
import RaftWal.Proofs.CrashLemmas21
namespace RaftWal.Crash

theorem delTail_tail {d : Disk} {P : List Seg} {t : Seg} {f : File} (h : QS d P t f) {newMax : Nat}
    (hok : (Op.delTail newMax).ok d)
    (hk : d.md.segs.filter (keptB newMax) = P ++ [t])
    (hD : d.md.segs.filter (fun s => !keptB newMax s) = []) (htb : t.base ≤ newMax) :
    CallRes d (.delTail newMax)
      ([.write t.id [] true, .fsync t.id, rotCommit d P t newMax, .create d.md.nextID (newMax + 1)] ++
        ([] : List Nat).map .delete) [] := by
  have hb := h.base
  have hq := h.toQO
  have hnext := hq.next hok.1
  have hmin : t.min ≤ newMax := hb.seg_min_le (A := P) (B := []) rfl hok.1 hok.2.1 htb
  have hbase := hq.qt.base
  have hlast := hok.2.2
  have hX : f.synced ≠ [] := by
    intro hc; rw [hc] at hnext; simp at hnext; omega
  -- the log after the call
  have hafter : specApply (absLog d) (.delTail newMax) =
      logP d P ++ (visU t.min f.base f.synced).filter (fun p => decide (p.1 ≤ newMax)) := by
    rw [specApply_delTail, hq.log_eq, List.filter_append]
    congr 1
    apply logP_filter_all
    intro s hs p hp
    have := mem_sealed (hb.sealed s hs) hp
    have hpw := List.pairwise_append.1 hb.pw
    have := (hpw.2.2 s hs t (by simp)).1
    simp only [decide_eq_true_eq]; omega
  let A0 : Log → Prop := fun l => l = absLog d ∨ l = specApply (absLog d) (.delTail newMax)
  have h0 : Rec A0 d P t := hq.toRec (Or.inl rfl)
  have h1 : Rec A0 (d.apply (.write t.id [] true)) P t :=
    h0.write hq.tf hq.qt.pend hq.qt.ss hq.qt.sp [] true (fun _ => by simpa using hX)
      (Or.inl hq.log_eq.symm) (Or.inl (by rw [List.append_nil]; exact hq.log_eq.symm))
  have hf1 : (d.apply (.write t.id [] true)).file? t.id = some (f.wr [] true) := by
    rw [apply_write_file?]; simp [hq.tf]
  have hl1 : logP (d.apply (.write t.id [] true)) P = logP d P := (hb.write t.id [] true hb.tid_ne).2
  have h2 : Rec A0 ((d.apply (.write t.id [] true)).apply (.fsync t.id)) P t :=
    h1.fsync hf1 (Or.inl (by rw [hl1]; simp [File.wr, hq.qt.pend]; exact hq.log_eq.symm))
  obtain ⟨f2, hf2, g1, g2, g3, g4, g5, _⟩ := fsync_file h1.base.hl hf1
  have g2' : f2.synced = f.synced := by rw [g2]; simp [File.wr, hq.qt.pend]
  have g4' : f2.sealedS = true := by rw [g4]; simp [File.wr]
  have hc2 : f2.content = f.synced := by simp [File.content, g2', g3]
  have hl2 : logP ((d.apply (.write t.id [] true)).apply (.fsync t.id)) P = logP d P := by
    rw [(h1.base.fsync t.id hb.tid_ne).2, hl1]
  have h3 := h2.rotate (A' := fun l => l = specApply (absLog d) (.delTail newMax)) hf2 g4' newMax hmin
    (by rw [g1, g2']; simp only [File.wr] ; omega) d.md.stable
    (by rw [hl2, visF_sealed, hc2, hafter, g1]; simp only [File.wr])
  have hnone : (((d.apply (.write t.id [] true)).apply (.fsync t.id)).apply (rotCommit d P t newMax)).file?
      (newSeg d.md.nextID (newMax + 1)).id = none := by
    show ((d.apply (.write t.id [] true)).apply (.fsync t.id)).file? d.md.nextID = none
    rw [file?_none_iff, fids_fsync, fids_write]
    intro hc; exact Nat.lt_irrefl _ (hb.fidlt _ hc)
  have h3' : Rec (fun l => l = specApply (absLog d) (.delTail newMax))
      (((d.apply (.write t.id [] true)).apply (.fsync t.id)).apply (rotCommit d P t newMax))
      (P ++ [sealSeg t newMax]) (newSeg d.md.nextID (newMax + 1)) := h3
  have h4 : Rec (fun l => l = specApply (absLog d) (.delTail newMax))
      ((((d.apply (.write t.id [] true)).apply (.fsync t.id)).apply (rotCommit d P t newMax)).apply
        (.create d.md.nextID (newMax + 1))) (P ++ [sealSeg t newMax]) (newSeg d.md.nextID (newMax + 1)) :=
    h3'.create hnone
  apply callres_mk h (.delTail newMax)
    [.write t.id [] true, .fsync t.id, rotCommit d P t newMax, .create d.md.nextID (newMax + 1)] []
    (P' := P ++ [sealSeg t newMax]) (t' := newSeg d.md.nextID (newMax + 1))
  · show delTailProg d newMax = _
    rw [delTailProg_eq, hk, hD]
    have : (P ++ [t]).getLast? = some t := by simp
    simp only [this, hb.tsl, Bool.false_eq_true, ↓reduceIte, newTailActs]
    rw [setSeg_tail (t' := { t with sealed := true, max := newMax }) hb.tid_ne rfl]
    rfl
  · simp [rotCommit]
  · intro k hk'
    rcases k with _ | _ | _ | _ | k
    · exact ⟨P, t, by simpa using h0⟩
    · exact ⟨P, t, by simpa using h1⟩
    · exact ⟨P, t, by simpa using h2⟩
    · exact ⟨_, _, by simpa using h3'.mono (fun l hl => Or.inr hl)⟩
    · simp at hk'; omega
  · simpa using h4
  · refine ⟨File.fresh d.md.nextID (newMax + 1), ?_, rfl, rfl, rfl⟩
    have := apply_create_file? _ _ (newMax + 1) hnone d.md.nextID
    simpa [newSeg] using this
  · simp
  · intro j hj
    have e := fids_create _ _ (newMax + 1) hnone
    simp only [applyAll_cons, applyAll_nil] at hj
    rw [show Act.create d.md.nextID (newMax + 1) = Act.create (newSeg d.md.nextID (newMax + 1)).id (newMax + 1) from rfl,
      e] at hj
    simp only [rotCommit, fids_commit, fids_fsync, fids_write, List.mem_append, List.mem_cons, List.not_mem_nil,
      or_false] at hj
    refine Or.inr ?_
    simp only [segIds, sealSeg, List.map_append, List.map_cons, List.map_nil, List.mem_append, List.mem_cons,
      List.not_mem_nil, or_false]
    rcases hj with hj | hj
    · have := h.sub j hj
      simp only [segIds, List.map_append, List.map_cons, List.map_nil, List.mem_append, List.mem_cons,
        List.not_mem_nil, or_false] at this
      rcases this with h1 | h1
      · exact Or.inl (Or.inl h1)
      · exact Or.inl (Or.inr h1)
    · exact Or.inr hj

end RaftWal.Crash
