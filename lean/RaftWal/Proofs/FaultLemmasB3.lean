/-
  Proofs/FaultLemmasB3.lean — fault model, part B: the log readers see and the log the disk stands for, in terms of
  the clean disk of the invariant.
-/
import RaftWal.Proofs.FaultLemmasB2
namespace RaftWal.Fault.B
open RaftWal.Crash

theorem FR.seg_v {d : Disk} {P : List Seg} {t : Seg} {f : File} (h : FR d P t f) {s : Seg} (hs : s ∈ P) :
    segEntries (vdisk d) s = segEntries (cl d) s := by
  obtain ⟨g, hg, hcg, hp, _⟩ := h.pfile s hs
  have hv : (vdisk d).file? s.id = some (vfile g) := by rw [vdisk_file?, hg]; rfl
  rw [segEntries_some hcg, segEntries_some hv]
  exact visF_congr s rfl (by simp [File.content, vfile, hp])

theorem FR.seg_d {d : Disk} {P : List Seg} {t : Seg} {f : File} (h : FR d P t f) {s : Seg} (hs : s ∈ P) :
    segEntries d s = segEntries (cl d) s := by
  obtain ⟨g, hg, hcg, _, _⟩ := h.pfile s hs
  rw [segEntries_some hcg, segEntries_some hg]

theorem FR.tail_cl {d : Disk} {P : List Seg} {t : Seg} {f : File} (h : FR d P t f) :
    segEntries (cl d) t = visU t.min f.base f.synced := by
  rw [segEntries_some h.qs.tf, visF_unsealed h.qs.base.tsl]
  simp [File.content, cleanF]

theorem FR.tail_v {d : Disk} {P : List Seg} {t : Seg} {f : File} (h : FR d P t f) :
    segEntries (vdisk d) t = segEntries (cl d) t := by
  have hv : (vdisk d).file? t.id = some (vfile f) := by rw [vdisk_file?, h.tf]; rfl
  rw [segEntries_some h.qs.tf, segEntries_some hv]
  exact visF_congr t rfl (by simp [File.content, vfile, cleanF])

theorem FR.tail_d {d : Disk} {P : List Seg} {t : Seg} {f : File} (h : FR d P t f) :
    segEntries d t = segEntries (cl d) t ++ idxFrom (f.base + f.synced.length) f.pending := by
  rw [h.tail_cl, segEntries_some h.tf, visF_unsealed h.qs.base.tsl]
  show visU t.min f.base (f.synced ++ f.pending) = _
  have hmn : t.min ≤ f.base + f.synced.length := h.qs.qt.mn
  rw [visU_append, visU_all f.pending hmn]

/-- readers see the log of the clean disk -/
theorem FR.view_eq {d : Disk} {P : List Seg} {t : Seg} {f : File} (h : FR d P t f) :
    absLog (vdisk d) = absLog (cl d) := by
  rw [absLog_eq, absLog_eq, cl_md, vdisk_md, h.segs, logP_append, logP_append, logP_single, logP_single, h.tail_v]
  congr 1
  exact flatMap_congr' (fun s hs => h.seg_v hs)

/-- the disk stands for the log of the clean disk plus whatever a failed call left beyond the writer's offset -/
theorem FR.disklog_eq {d : Disk} {P : List Seg} {t : Seg} {f : File} (h : FR d P t f) :
    absLog d = absLog (cl d) ++ idxFrom (f.base + f.synced.length) f.pending := by
  rw [absLog_eq, absLog_eq, cl_md, h.segs, logP_append, logP_append, logP_single, logP_single, h.tail_d,
    List.append_assoc]
  congr 1
  exact flatMap_congr' (fun s hs => h.seg_d hs)

theorem view_running (d : Disk) : view { disk := d, frozen := none } = absLog (vdisk d) := rfl

theorem okV_absLog (c : Disk) (op : Op) : OkV (absLog c) op ↔ op.ok c := by
  cases op <;> exact Iff.rfl

theorem FR.ok {d : Disk} {P : List Seg} {t : Seg} {f : File} (h : FR d P t f) {op : Op}
    (hok : OkV (view { disk := d, frozen := none }) op) : op.ok (cl d) := by
  rw [view_running, h.view_eq] at hok
  exact (okV_absLog _ _).1 hok

theorem delHeadProg_congr {d d' : Disk} (hm : d'.md = d.md) (hl : absLog d' = absLog d) (n : Nat) :
    delHeadProg d' n = delHeadProg d n := by
  unfold delHeadProg lastIndex
  rw [hm, hl]

theorem FR.prog_eq {d : Disk} {P : List Seg} {t : Seg} {f : File} (h : FR d P t f) (n : Nat) :
    delHeadProg (cl d) n = delHeadProg (vdisk d) n :=
  delHeadProg_congr (by rw [cl_md, vdisk_md]) h.view_eq.symm n

theorem FR.lastIndex_eq {d : Disk} {P : List Seg} {t : Seg} {f : File} (h : FR d P t f) :
    lastIndex (vdisk d) = lastIndex (cl d) := by
  unfold lastIndex; rw [h.view_eq]

/-- the next index to write is the writer's offset -/
theorem FR.next {d : Disk} {P : List Seg} {t : Seg} {f : File} (h : FR d P t f) (hne : absLog (cl d) ≠ []) :
    lastIndex (cl d) + 1 = f.base + f.synced.length :=
  h.qs.toQO.next hne

end RaftWal.Fault.B
