/-
  Proofs/WalInv2Lemmas3.lean — the state-independent transition facts for `DeleteRange`
  (`truncateHead`, `truncateTail`) and what they do to the truncation counters.
-/
import RaftWal.Proofs.WalInv2Lemmas2
namespace RaftWal

/-! ## head truncation -/

/-- the forward walk splits the map into a deleted prefix and the rest, whatever the stop condition -/
theorem walkHead_gen (newMin tci : Nat) : ∀ (segs remaining : List (SegS × Rdr)) (del : List Nat),
    (∃ dl h rh rest, segs = dl ++ (h, rh) :: rest ∧
        Wal.truncateHead.walk newMin tci segs remaining del = (some (h, rh), rest, del ++ dl.map (·.1.id))) ∨
    Wal.truncateHead.walk newMin tci segs remaining del = (none, [], del ++ segs.map (·.1.id)) := by
  intro segs
  induction segs with
  | nil => intro remaining del; right; simp [Wal.truncateHead.walk]
  | cons a l ih =>
    intro remaining del
    obtain ⟨a1, a2⟩ := a
    unfold Wal.truncateHead.walk
    split
    · left; exact ⟨[], a1, a2, l, rfl, by simp⟩
    · rcases ih remaining.tail (del ++ [a1.id]) with ⟨dl, h, rh, rest, e1, e2⟩ | e3
      · left
        refine ⟨(a1, a2) :: dl, h, rh, rest, by rw [e1]; rfl, ?_⟩
        rw [e2]; simp
      · right
        rw [e3]; simp

/-- the head-truncation counter after `truncateHead` -/
def headBump (w : Wal) (newMin : Nat) : Totals :=
  { w.ctr.totals with head := u64 (w.ctr.headTrunc + headRemoved w.firstIndex w.lastIndex newMin) }

theorem truncateHead_tr' (w : Wal) (newMin : Nat) (res : Wal × Option Err) (h : w.truncateHead newMin = res) :
    Tr w res.1 ∧ res.1.ctr.totals = headBump w newMin := by
  unfold Wal.truncateHead at h
  simp only at h
  rcases walkHead_gen newMin w.tailCommitIdx w.segs w.segs [] with ⟨dl, hd, rh, rest, e1, e2⟩ | e3
  · rw [e2] at h
    simp only at h
    subst h
    refine ⟨?_, rfl⟩
    exact tr_drop (w := w)
      (w1 := { w with
        segs := ({ hd with min := newMin }, rh) :: rest,
        ctr := { w.ctr with headTrunc := u64 (w.ctr.headTrunc + headRemoved w.firstIndex w.lastIndex newMin) } })
      (del := [] ++ dl.map (·.1.id))
      (A := []) (B := dl.map skey) (C := ((hd, rh) :: rest).map skey) rfl rfl rfl
      (by simp [Wal.keys, e1]) (by simp [Wal.keys, skey]) (by simp [skey, Function.comp_def])
  · rw [e3] at h
    simp only at h
    split at h
    · subst h
      exact ⟨Tr.of_same rfl rfl rfl rfl, rfl⟩
    · rename_i w2 hcn
      subst h
      refine ⟨?_, ?_⟩
      · exact tr_drop_create (w := w)
          (w1 := { w with
            segs := [],
            ctr := { w.ctr with headTrunc := u64 (w.ctr.headTrunc + headRemoved w.firstIndex w.lastIndex newMin) } })
          (del := [] ++ w.segs.map (·.1.id))
          (A := []) (B := w.keys) (C := []) rfl rfl rfl
          (by simp) (by simp [Wal.keys]) (by simp [Wal.keys, skey, Function.comp_def]) hcn
      · show w2.ctr.totals = _
        rw [(createNext_frame hcn).2.1]; rfl

theorem truncateHead_tr (w : Wal) (newMin : Nat) :
    Tr w (w.truncateHead newMin).1 ∧ (w.truncateHead newMin).1.ctr.totals = headBump w newMin :=
  truncateHead_tr' w newMin _ rfl

/-! ## tail truncation -/

theorem sealFor_tr {w : Wal} {t t' : SegS} {files' : List FileL} (h : sealFor w t = (t', files', true)) :
    t'.id = t.id ∧ t'.base = t.base ∧ Tr w { w with files := files' } := by
  unfold sealFor at h
  split at h
  · cases h; exact ⟨rfl, rfl, Tr.refl _⟩
  · split at h
    · cases h
    · rename_i f hf
      split at h
      · cases h; exact ⟨rfl, rfl, Tr.refl _⟩
      · split at h
        · cases h
        · simp only at h
          cases h
          exact ⟨rfl, rfl, updFile_tr w w.ctr (file?_mem hf) rfl rfl⟩

/-- the tail-truncation counter after a successful `truncateTail` -/
def tailBump (w : Wal) (newMax : Nat) : Totals :=
  { w.ctr.totals with tail := u64 (w.ctr.tailTrunc + (if w.lastIndex > newMax then w.lastIndex - newMax else 0)) }

theorem split_rev {α : Type} (p : α → Bool) (l : List α) :
    l = (l.reverse.dropWhile p).reverse ++ (l.reverse.takeWhile p).reverse := by
  have := congrArg List.reverse (List.takeWhile_append_dropWhile (p := p) (l := l.reverse))
  rw [List.reverse_append, List.reverse_reverse] at this
  exact this.symm

theorem truncateTail_tr' (w : Wal) (newMax : Nat) (res : Wal × Option Err) (h : w.truncateTail newMax = res) :
    Tr w res.1 ∧ (res.2 = none → res.1.ctr.totals = tailBump w newMax) := by
  rw [truncateTail_eq, walkTail_spec] at h
  simp only at h
  have hsplit := split_rev (fun c : SegS × Rdr => decide (newMax < c.1.base)) w.segs
  generalize hdw : List.dropWhile (fun c : SegS × Rdr => decide (newMax < c.1.base)) w.segs.reverse = dw at h hsplit
  generalize htw : List.takeWhile (fun c : SegS × Rdr => decide (newMax < c.1.base)) w.segs.reverse = tw at h hsplit
  cases dw with
  | nil =>
    simp only at h
    split at h
    · subst h
      exact ⟨Tr.of_same rfl rfl rfl rfl, by intro hh; cases hh⟩
    · rename_i w2 hcn
      subst h
      refine ⟨?_, ?_⟩
      · refine Tr.trans (tr_drop_create (w := w) (w1 := { w with segs := [] }) (del := [] ++ tw.map (·.1.id))
          (A := []) (B := w.keys) (C := []) rfl rfl rfl (by simp) (by simp [Wal.keys]) ?_ hcn) ?_
        · intro x
          simp only [Wal.keys]
          rw [hsplit]
          simp [skey, Function.comp_def]
        · exact Tr.of_same rfl rfl rfl rfl
      · intro _
        have hc := (createNext_frame hcn).2.1
        simp only [Wal.removeFiles, bumpTail, tailBump, Counters.totals, hc]
  | cons cc before =>
    obtain ⟨c, rc⟩ := cc
    simp only at h
    rcases hseal : sealFor w c with ⟨t', files', ok⟩
    rw [hseal] at h
    simp only at h
    cases ok with
    | false =>
      simp only [Bool.false_eq_true, not_false_eq_true, if_true] at h
      subst h
      exact ⟨Tr.refl _, by intro hh; cases hh⟩
    | true =>
      simp only [not_true_eq_false, if_false] at h
      obtain ⟨s1, s2, s3⟩ := sealFor_tr hseal
      split at h
      · subst h
        exact ⟨Tr.of_same rfl rfl rfl rfl, by intro hh; cases hh⟩
      · rename_i w2 hcn
        subst h
        refine ⟨?_, ?_⟩
        · refine Tr.trans s3 (Tr.trans (tr_drop_create (w := { w with files := files' })
            (w1 := { w with segs := before.reverse ++ [({ t' with max := newMax }, rc)], files := files' })
            (del := [] ++ tw.map (·.1.id))
            (A := before.reverse.map skey ++ [skey (c, rc)]) (B := tw.reverse.map skey) (C := []) rfl rfl rfl
            ?_ ?_ ?_ hcn) ?_)
          · simp only [Wal.keys]
            rw [hsplit]
            simp
          · simp [Wal.keys, skey, s1, s2]
          · intro x
            simp [skey, Function.comp_def]
          · exact Tr.of_same rfl rfl rfl rfl
        · intro _
          have hc := (createNext_frame hcn).2.1
          simp only [Wal.removeFiles, bumpTail, tailBump, Counters.totals, hc]

theorem truncateTail_tr (w : Wal) (newMax : Nat) :
    Tr w (w.truncateTail newMax).1 ∧
      ((w.truncateTail newMax).2 = none → (w.truncateTail newMax).1.ctr.totals = tailBump w newMax) :=
  truncateTail_tr' w newMax _ rfl

/-! ## `DeleteRange` -/

theorem deleteRange_tr (w : Wal) (mn mx : Nat) : Tr w (w.deleteRange mn mx).1 := by
  unfold Wal.deleteRange
  split
  · exact Tr.refl _
  · split
    · exact Tr.refl _
    · simp only
      split
      · exact Tr.refl _
      · split
        · exact (truncateHead_tr w _).1
        · split
          · exact (truncateTail_tr w _).1
          · exact Tr.refl _

end RaftWal
