/-
  Proofs/FaultLemmasE2.lean — running actions under a plan without a fault: `runActs` performs the actions with `applyF`,
  which is `Disk.apply` except on a write over a leftover batch; `Clean` disks (nothing beyond any writer's offset) stay
  clean under everything but a write, and under a write followed by the fsync of the same file.
-/
import RaftWal.Proofs.FaultLemmasE1
namespace RaftWal.Fault.E
open RaftWal.Crash

def isWrite : Act → Bool
  | .write _ _ _ => true
  | _ => false

/-- a list of actions without a pwrite -/
def NoWrite (as : List Act) : Prop := ∀ a ∈ as, isWrite a = false

theorem NoWrite.nil : NoWrite [] := by intro a ha; cases ha

theorem NoWrite.cons {a : Act} {as : List Act} (h1 : isWrite a = false) (h2 : NoWrite as) : NoWrite (a :: as) := by
  intro b hb
  rcases List.mem_cons.1 hb with rfl | hb
  · exact h1
  · exact h2 b hb

theorem NoWrite.append {as bs : List Act} (h1 : NoWrite as) (h2 : NoWrite bs) : NoWrite (as ++ bs) := by
  intro b hb
  rcases List.mem_append.1 hb with hb | hb
  · exact h1 b hb
  · exact h2 b hb

theorem NoWrite.filter {as : List Act} (h : NoWrite as) (q : Act → Bool) : NoWrite (as.filter q) := by
  intro b hb
  exact h b (List.mem_filter.1 hb).1

theorem NoWrite.deletes (ids : List Nat) : NoWrite (ids.map .delete) := by
  intro b hb
  obtain ⟨i, _, rfl⟩ := List.mem_map.1 hb
  rfl

theorem NoWrite.deletesOf {α : Type} (l : List α) (g : α → Nat) : NoWrite (l.map (fun s => Act.delete (g s))) := by
  intro b hb
  obtain ⟨i, _, rfl⟩ := List.mem_map.1 hb
  rfl

theorem NoWrite.newTail (m : Meta) (segs : List Seg) (base : Nat) : NoWrite (newTailActs m segs base) := by
  intro b hb
  simp only [newTailActs, List.mem_cons, List.not_mem_nil, or_false] at hb
  rcases hb with rfl | rfl <;> rfl

theorem NoWrite.rotate (d : Disk) : NoWrite (rotateActs d) := by
  unfold rotateActs
  split
  · exact NoWrite.nil
  · split
    · exact NoWrite.nil
    · exact NoWrite.newTail _ _ _

theorem applyF_of_not_write (d : Disk) {a : Act} (h : isWrite a = false) : applyF d a = d.apply a := by
  cases a <;> first | rfl | cases h

theorem updFile_congr (fs : List File) (id : Nat) (g g' : File → File) (h : ∀ f ∈ fs, f.id = id → g f = g' f) :
    updFile fs id g = updFile fs id g' := by
  unfold updFile
  apply List.map_congr_left
  intro f hf
  by_cases e : f.id = id
  · simp [e, h f hf e]
  · simp [e]

/-- on a clean disk a pwrite at the writer's offset is an append -/
theorem applyF_clean {d : Disk} (hc : Clean d) (a : Act) : applyF d a = d.apply a := by
  cases a with
  | write id es sl =>
    simp only [applyF, Disk.apply]
    congr 1
    apply updFile_congr
    intro f hf _
    obtain ⟨h1, h2⟩ := hc f hf
    simp [h1, h2]
  | fsync _ => rfl
  | create _ _ => rfl
  | commit _ => rfl
  | delete _ => rfl
  | ack => rfl

theorem foldl_applyF_nowrite (d : Disk) {as : List Act} (h : NoWrite as) : as.foldl applyF d = d.applyAll as := by
  induction as generalizing d with
  | nil => rfl
  | cons a as ih =>
    simp only [List.foldl_cons, applyAll_cons]
    rw [applyF_of_not_write d (h a (by simp)), ih _ (fun b hb => h b (by simp [hb]))]

/-- a fault plan without a fault (in particular the empty plan) -/
def AllNone (pl : Plan) : Prop := pl.all (·.isNone) = true

theorem AllNone.nil : AllNone [] := rfl

theorem AllNone.tail {o : Option WriteFail} {pl : Plan} (h : AllNone (o :: pl)) : AllNone pl := by
  unfold AllNone at *
  simp only [List.all_cons, Bool.and_eq_true] at h
  exact h.2

theorem AllNone.head {o : Option WriteFail} {pl : Plan} (h : AllNone (o :: pl)) : o = none := by
  unfold AllNone at h
  simp only [List.all_cons, Bool.and_eq_true] at h
  cases o with
  | none => rfl
  | some _ => exact absurd h.1 (by simp)

theorem AllNone.drop {pl : Plan} (h : AllNone pl) (n : Nat) : AllNone (pl.drop n) := by
  unfold AllNone at *
  rw [List.all_eq_true] at *
  intro x hx
  exact h x (List.mem_of_mem_drop hx)

/-- under a plan without a fault the actions are all performed; what is left of the plan is again without a fault -/
theorem runActs_none (d : Disk) (as : List Act) {pl : Plan} (h : AllNone pl) :
    runActs d as pl = (as.foldl applyF d, none, pl.drop as.length) := by
  induction as generalizing d pl with
  | nil => rfl
  | cons a as ih =>
    cases pl with
    | nil =>
      simp only [runActs, List.foldl_cons, List.drop_nil]
      rw [ih _ AllNone.nil, List.drop_nil]
    | cons o pl =>
      have := h.head
      subst this
      simp only [runActs, List.foldl_cons, List.length_cons, List.drop_succ_cons]
      exact ih _ h.tail

theorem runActs_none_nowrite (d : Disk) {as : List Act} (hn : NoWrite as) {pl : Plan} (h : AllNone pl) :
    runActs d as pl = (d.applyAll as, none, pl.drop as.length) := by
  rw [runActs_none d as h, foldl_applyF_nowrite d hn]

/-- the append of a call: the first write to the tail in the call, then its fsync -/
theorem runActs_none_append {d : Disk} (hc : Clean d) (id : Nat) (es : List Entry) (sl : Bool) {pl : Plan}
    (h : AllNone pl) :
    runActs d [.write id es sl, .fsync id] pl = (d.applyAll [.write id es sl, .fsync id], none, pl.drop 2) := by
  rw [runActs_none _ _ h]
  simp only [List.foldl_cons, List.foldl_nil, applyAll_cons, applyAll_nil]
  rw [applyF_clean hc]
  rfl

/-! ### `Clean` is preserved -/

theorem clean_commit {d : Disk} (hc : Clean d) (m : Meta) : Clean (d.apply (.commit m)) := hc

theorem clean_delete {d : Disk} (hc : Clean d) (id : Nat) : Clean (d.apply (.delete id)) := by
  intro f hf
  simp only [Disk.apply, List.mem_filter] at hf
  exact hc f hf.1

theorem clean_create {d : Disk} (hc : Clean d) (id base : Nat) : Clean (d.apply (.create id base)) := by
  intro f hf
  simp only [Disk.apply] at hf
  split at hf
  · exact hc f hf
  · simp only [List.mem_append, List.mem_cons, List.not_mem_nil, or_false] at hf
    rcases hf with hf | rfl
    · exact hc f hf
    · exact ⟨rfl, rfl⟩

/-- after an fsync of `id`: the files `id` are clean, the others are as they were (up to `linked`) -/
theorem fsync_files {d : Disk} {id : Nat} {g : File} (hg : g ∈ (d.apply (.fsync id)).files) :
    ∃ f ∈ d.files, g.id = f.id ∧
      ((f.id = id ∧ g.pending = [] ∧ g.sealedP = false) ∨ (f.id ≠ id ∧ g.pending = f.pending ∧ g.sealedP = f.sealedP)) := by
  have hg' : g ∈ (if dirSync d id then (updFile d.files id File.fs).map File.lk else updFile d.files id File.fs) := hg
  have key : ∀ g' ∈ updFile d.files id File.fs, ∃ f ∈ d.files, g'.id = f.id ∧
      ((f.id = id ∧ g'.pending = [] ∧ g'.sealedP = false) ∨
       (f.id ≠ id ∧ g'.pending = f.pending ∧ g'.sealedP = f.sealedP)) := by
    intro g' h'
    simp only [updFile, List.mem_map] at h'
    obtain ⟨f, hf, rfl⟩ := h'
    refine ⟨f, hf, ?_⟩
    by_cases e : f.id = id
    · simp [e, File.fs]
    · simp [e]
  cases hd : dirSync d id with
  | false =>
    rw [hd] at hg'
    exact key g hg'
  | true =>
    rw [hd] at hg'
    simp only [↓reduceIte, List.mem_map] at hg'
    obtain ⟨g', h', rfl⟩ := hg'
    exact key g' h'

theorem clean_fsync {d : Disk} (hc : Clean d) (id : Nat) : Clean (d.apply (.fsync id)) := by
  intro g hg
  obtain ⟨f, hf, _, h | h⟩ := fsync_files hg
  · exact ⟨h.2.1, h.2.2⟩
  · rw [h.2.1, h.2.2]; exact hc f hf

theorem write_files {d : Disk} {id : Nat} {es : List Entry} {sl : Bool} {g : File}
    (hg : g ∈ (d.apply (.write id es sl)).files) :
    ∃ f ∈ d.files, g.id = f.id ∧ (f.id = id ∨ (g.pending = f.pending ∧ g.sealedP = f.sealedP)) := by
  simp only [Disk.apply, updFile, List.mem_map] at hg
  obtain ⟨f, hf, rfl⟩ := hg
  refine ⟨f, hf, ?_⟩
  by_cases e : f.id = id
  · simp [e]
  · simp [e]

theorem clean_append {d : Disk} (hc : Clean d) (id : Nat) (es : List Entry) (sl : Bool) :
    Clean (d.applyAll [.write id es sl, .fsync id]) := by
  intro g hg
  simp only [applyAll_cons, applyAll_nil] at hg
  obtain ⟨f1, hf1, e1, h1⟩ := fsync_files hg
  obtain ⟨f, hf, e, h⟩ := write_files hf1
  rcases h1 with h1 | h1
  · exact ⟨h1.2.1, h1.2.2⟩
  · rcases h with h | h
    · exact absurd (e.trans h) h1.1
    · rw [h1.2.1, h1.2.2, h.1, h.2]; exact hc f hf

theorem clean_apply_nowrite {d : Disk} (hc : Clean d) {a : Act} (h : isWrite a = false) : Clean (d.apply a) := by
  cases a with
  | write _ _ _ => cases h
  | fsync id => exact clean_fsync hc id
  | create id base => exact clean_create hc id base
  | commit m => exact clean_commit hc m
  | delete id => exact clean_delete hc id
  | ack => exact hc

theorem clean_applyAll_nowrite {d : Disk} (hc : Clean d) {as : List Act} (h : NoWrite as) : Clean (d.applyAll as) := by
  induction as generalizing d with
  | nil => exact hc
  | cons a as ih =>
    rw [applyAll_cons]
    exact ih (clean_apply_nowrite hc (h a (by simp))) (fun b hb => h b (by simp [hb]))

/-- the acknowledgement is no I/O -/
theorem applyAll_filter_ack (d : Disk) (as : List Act) : d.applyAll (as.filter (· != .ack)) = d.applyAll as := by
  induction as generalizing d with
  | nil => rfl
  | cons a as ih =>
    by_cases e : a = .ack
    · subst e
      simp only [applyAll_cons, apply_ack]
      rw [← ih d]
      rfl
    ·      rw [List.filter_cons_of_pos (by simpa using e), applyAll_cons, applyAll_cons, ih]

end RaftWal.Fault.E
