/-
  Proofs/CrashLemmas8.lean — the shape of Open's program in a `Rec` state.
-/
import RaftWal.Proofs.CrashLemmas7
namespace RaftWal.Crash

def segIds (l : List Seg) : List Nat := l.map (·.id)

theorem setSeg_tail {P : List Seg} {t t' : Seg} (hn : ∀ s ∈ P, s.id ≠ t.id) (hid : t'.id = t.id) :
    setSeg (P ++ [t]) t' = P ++ [t'] := by
  unfold setSeg
  simp only [List.map_append, List.map_cons, List.map_nil, hid, ↓reduceIte]
  congr 1
  conv => rhs; rw [← List.map_id P]
  apply List.map_congr_left
  intro s hs
  simp [hn s hs]

/-- what Open does before it removes the orphans -/
def openPre (d : Disk) (t : Seg) : List Act :=
  match d.file? t.id with
  | none => [.create t.id t.base]
  | some f =>
    (if f.content.isEmpty && !f.isSealed then [] else [.fsync f.id]) ++
    (if f.isSealed then
      newTailActs d.md (setSeg d.md.segs { t with sealed := true, max := f.lastIdx }) (f.lastIdx + 1) else [])

theorem open_shape {A : Log → Prop} {d : Disk} {P : List Seg} {t : Seg} (h : Rec A d P t) :
    openProg d = some (openPre d t ++ orphanDeletes d d.md) := by
  have hb := h.base
  have h1 : (d.md.segs.any fun s => s.sealed && (d.file? s.id).isNone) = false := by
    rw [List.any_eq_false]
    intro s hs
    rw [hb.segs] at hs
    simp only [List.mem_append, List.mem_cons, List.not_mem_nil, or_false] at hs
    rcases hs with hs | rfl
    · obtain ⟨f, hf, _⟩ := hb.sealed s hs
      simp [hf]
    · simp [hb.tsl]
  have h2 : (d.md.segs.dropLast.any fun s => !s.sealed) = false := by
    rw [List.any_eq_false]
    intro s hs
    rw [hb.segs] at hs
    simp only [List.dropLast_concat] at hs
    obtain ⟨f, _, hsf⟩ := hb.sealed s hs
    simp [hsf.sl]
  have h3 : d.md.segs.getLast? = some t := by rw [hb.segs]; simp
  unfold openProg openPre
  simp only [h1, h2, h3, Bool.false_eq_true, ↓reduceIte, hb.tsl]
  cases hf : d.file? t.id with
  | none => rfl
  | some f =>
    simp only
    cases hs : f.isSealed with
    | true => simp
    | false => simp

end RaftWal.Crash
