/-
  Proofs/PoolProps.lean — theorems about Model/Pool.lean, for every schedule, any number of threads, any requests.
-/
import RaftWal.Model.Pool

namespace RaftWal.Pool

/-! ## generalities -/

theorem run_append (cfg : PoolCfg) (s : State) (a b : List Step) :
    run cfg s (a ++ b) = run cfg (run cfg s a) b := by
  simp [run, List.foldl_append]

theorem run_induct {P : State → Prop} (cfg : PoolCfg) (hstep : ∀ s st, P s → P (step cfg s st)) :
    ∀ (sched : List Step) (s : State), P s → P (run cfg s sched) := by
  intro sched
  induction sched with
  | nil => intro s h; exact h
  | cons st rest ih => intro s h; exact ih _ (hstep s st h)

theorem getElem?_set_cases {α} {l : List α} {t u : Nat} {a q : α} (h : (l.set t a)[u]? = some q) :
    (u = t ∧ q = a) ∨ (u ≠ t ∧ l[u]? = some q) := by
  rw [List.getElem?_set] at h
  split at h
  · next heq =>
    subst heq
    split at h
    · left; exact ⟨rfl, (Option.some.inj h).symm⟩
    · cases h
  · next hne => right; exact ⟨fun e => hne e.symm, h⟩

theorem load_append (heap : List Content) (x : List Content) {b : BufId} (h : b < heap.length) :
    load (heap ++ x) b = load heap b := by
  simp [load, List.getElem?_append_left h]

theorem load_set_ne (heap : List Content) (c : Content) {b x : BufId} (h : b ≠ x) :
    load (heap.set b c) x = load heap x := by
  simp [load, h]

theorem load_set_eq (heap : List Content) (c : Content) {b : BufId} (h : b < heap.length) :
    load (heap.set b c) b = c := by
  simp [load, h]

/-! ## what each instruction does to the set of buffers its thread owns -/

def Spec (heap : List Content) (pool : List BufId) (pc pc' : Pc) : Eff → Prop
  | .take b   => b ∈ pool ∧ owned pc' = b :: owned pc
  | .alloc    => owned pc' = heap.length :: owned pc
  | .put b    => owned pc = owned pc' ++ [b]
  | .fill b _ => b ∈ owned pc ∧ owned pc' = owned pc
  | .ret _ _  => owned pc' = []
  | .loc      => owned pc' = owned pc ∨ owned pc' = []

theorem instr_spec {cfg : PoolCfg} (hc : cfg.closeOnce = true) {heap pool pc act pc' eff}
    (h : instr cfg heap pool pc act = some (pc', eff)) : Spec heap pool pc pc' eff := by
  cases pc <;> cases act <;> simp only [instr] at h
  all_goals try (repeat' split at h)
  all_goals first
    | (cases h; done)
    | (simp only [Option.some.injEq, Prod.mk.injEq] at h
       obtain ⟨rfl, rfl⟩ := h
       (repeat' split) <;> simp_all [Spec, owned])

/-! ## 1. exclusivity invariant -/

structure Excl (s : State) : Prop where
  poolNodup  : s.pool.Nodup
  poolLt     : ∀ b ∈ s.pool, b < s.heap.length
  ownLt      : ∀ (t : Nat) pc, s.threads[t]? = some pc → ∀ b ∈ owned pc, b < s.heap.length
  ownNotPool : ∀ (t : Nat) pc, s.threads[t]? = some pc → ∀ b ∈ owned pc, b ∉ s.pool
  ownDisj    : ∀ (t u : Nat) pc q, s.threads[t]? = some pc → s.threads[u]? = some q → t ≠ u →
                 ∀ b ∈ owned pc, b ∉ owned q
  ownNodup   : ∀ (t : Nat) pc, s.threads[t]? = some pc → (owned pc).Nodup

theorem Excl.update {s : State} (hi : Excl s) {t : Nat} {pc : Pc} (ht : s.threads[t]? = some pc) (pc' : Pc)
    (heap' : List Content) (pool' : List BufId) (ret' : List (Frame × Result))
    (hheap : s.heap.length ≤ heap'.length)
    (hpn : pool'.Nodup)
    (hpl : ∀ b ∈ pool', b < heap'.length)
    (hoth : ∀ u q, u ≠ t → s.threads[u]? = some q → ∀ b ∈ owned q, b ∉ pool')
    (hnew : ∀ b ∈ owned pc', b < heap'.length ∧ b ∉ pool' ∧
              ∀ u q, u ≠ t → s.threads[u]? = some q → b ∉ owned q)
    (hnd : (owned pc').Nodup) :
    Excl { heap := heap', pool := pool', threads := s.threads.set t pc', returned := ret' } where
  poolNodup := hpn
  poolLt := hpl
  ownLt := by
    intro u q hu b hb
    rcases getElem?_set_cases hu with ⟨rfl, rfl⟩ | ⟨hne, hu'⟩
    · exact (hnew b hb).1
    · exact Nat.lt_of_lt_of_le (hi.ownLt u q hu' b hb) hheap
  ownNotPool := by
    intro u q hu b hb
    rcases getElem?_set_cases hu with ⟨rfl, rfl⟩ | ⟨hne, hu'⟩
    · exact (hnew b hb).2.1
    · exact hoth u q hne hu' b hb
  ownDisj := by
    intro u v q r hu hv huv b hb hb'
    rcases getElem?_set_cases hu with ⟨rfl, rfl⟩ | ⟨hne, hu'⟩
    · rcases getElem?_set_cases hv with ⟨rfl, rfl⟩ | ⟨hne', hv'⟩
      · exact huv rfl
      · exact (hnew b hb).2.2 v r hne' hv' hb'
    · rcases getElem?_set_cases hv with ⟨rfl, rfl⟩ | ⟨hne', hv'⟩
      · exact (hnew b hb').2.2 u q hne hu' hb
      · exact hi.ownDisj u v q r hu' hv' huv b hb hb'
  ownNodup := by
    intro u q hu
    rcases getElem?_set_cases hu with ⟨rfl, rfl⟩ | ⟨hne, hu'⟩
    · exact hnd
    · exact hi.ownNodup u q hu'

/-- an instruction whose thread keeps a subset of what it owned and that leaves the pool alone -/
theorem Excl.update_sub {s : State} (hi : Excl s) {t : Nat} {pc : Pc} (ht : s.threads[t]? = some pc) (pc' : Pc)
    (heap' : List Content) (ret' : List (Frame × Result)) (hheap : s.heap.length = heap'.length)
    (hsub : owned pc' = owned pc ∨ owned pc' = []) :
    Excl { heap := heap', pool := s.pool, threads := s.threads.set t pc', returned := ret' } := by
  apply hi.update ht pc' heap' s.pool ret' (Nat.le_of_eq hheap) hi.poolNodup
  · intro b hb; exact hheap ▸ hi.poolLt b hb
  · intro u q _ hu b hb; exact hi.ownNotPool u q hu b hb
  · intro b hb
    have hb' : b ∈ owned pc := by
      rcases hsub with h | h
      · exact h ▸ hb
      · rw [h] at hb; cases hb
    exact ⟨hheap ▸ hi.ownLt t pc ht b hb', hi.ownNotPool t pc ht b hb',
      fun u q hne hu => hi.ownDisj t u pc q ht hu (fun e => hne e.symm) b hb'⟩
  · rcases hsub with h | h
    · exact h ▸ hi.ownNodup t pc ht
    · rw [h]; exact List.nodup_nil

theorem Excl.step {cfg : PoolCfg} (hc : cfg.closeOnce = true) (s : State) (st : Step) (hi : Excl s) :
    Excl (step cfg s st) := by
  obtain ⟨t, act⟩ := st
  simp only [RaftWal.Pool.step]
  split
  · exact hi
  · next pc ht =>
    split
    · exact hi
    · next pc' eff hin =>
      have hs := instr_spec hc hin
      cases eff with
      | take b =>
        obtain ⟨hb, ho⟩ := hs
        have hbown : ∀ (u : Nat) q, s.threads[u]? = some q → b ∉ owned q :=
          fun u q hu h => hi.ownNotPool u q hu b h hb
        apply hi.update ht pc' s.heap (s.pool.erase b) s.returned (Nat.le_refl _) (hi.poolNodup.erase b)
        · intro x hx; exact hi.poolLt x (List.mem_of_mem_erase hx)
        · intro u q _ hu x hx hx'; exact hi.ownNotPool u q hu x hx (List.mem_of_mem_erase hx')
        · intro x hx
          rw [ho] at hx
          rcases List.mem_cons.1 hx with rfl | hx
          · exact ⟨hi.poolLt _ hb, fun h => (hi.poolNodup.mem_erase_iff.1 h).1 rfl,
              fun u q _ hu => hbown u q hu⟩
          · exact ⟨hi.ownLt t pc ht x hx, fun h => hi.ownNotPool t pc ht x hx (List.mem_of_mem_erase h),
              fun u q hne hu => hi.ownDisj t u pc q ht hu (Ne.symm hne) x hx⟩
        · rw [ho]; exact List.nodup_cons.2 ⟨hbown t pc ht, hi.ownNodup t pc ht⟩
      | alloc =>
        have hlen : (s.heap ++ [none]).length = s.heap.length + 1 := by simp
        apply hi.update ht pc' (s.heap ++ [none]) s.pool s.returned (by rw [hlen]; omega) hi.poolNodup
        · intro x hx; rw [hlen]; exact Nat.lt_succ_of_lt (hi.poolLt x hx)
        · intro u q _ hu x hx; exact hi.ownNotPool u q hu x hx
        · intro x hx
          rw [hs] at hx
          rcases List.mem_cons.1 hx with rfl | hx
          · exact ⟨by rw [hlen]; exact Nat.lt_succ_self _, fun h => Nat.lt_irrefl _ (hi.poolLt _ h),
              fun u q _ hu h => Nat.lt_irrefl _ (hi.ownLt u q hu _ h)⟩
          · exact ⟨by rw [hlen]; exact Nat.lt_succ_of_lt (hi.ownLt t pc ht x hx), hi.ownNotPool t pc ht x hx,
              fun u q hne hu => hi.ownDisj t u pc q ht hu (Ne.symm hne) x hx⟩
        · rw [hs]; exact List.nodup_cons.2 ⟨fun h => Nat.lt_irrefl _ (hi.ownLt t pc ht _ h), hi.ownNodup t pc ht⟩
      | put b =>
        have hnd := hi.ownNodup t pc ht
        rw [hs] at hnd
        have hbo : b ∈ owned pc := by rw [hs]; simp
        have hsub : ∀ x ∈ owned pc', x ∈ owned pc ∧ x ≠ b := by
          intro x hx
          refine ⟨by rw [hs]; exact List.mem_append_left _ hx, ?_⟩
          rintro rfl
          exact (List.nodup_append.1 hnd).2.2 x hx x (by simp) rfl
        apply hi.update ht pc' s.heap (b :: s.pool) s.returned (Nat.le_refl _)
          (List.nodup_cons.2 ⟨hi.ownNotPool t pc ht b hbo, hi.poolNodup⟩)
        · intro x hx
          rcases List.mem_cons.1 hx with rfl | hx
          · exact hi.ownLt t pc ht _ hbo
          · exact hi.poolLt x hx
        · intro u q hne hu x hx hx'
          rcases List.mem_cons.1 hx' with rfl | hx'
          · exact hi.ownDisj t u pc q ht hu (Ne.symm hne) _ hbo hx
          · exact hi.ownNotPool u q hu x hx hx'
        · intro x hx
          obtain ⟨hxo, hxb⟩ := hsub x hx
          refine ⟨hi.ownLt t pc ht x hxo, ?_, fun u q hne hu => hi.ownDisj t u pc q ht hu (Ne.symm hne) x hxo⟩
          intro h
          rcases List.mem_cons.1 h with rfl | h
          · exact hxb rfl
          · exact hi.ownNotPool t pc ht x hxo h
        · exact (List.nodup_append.1 hnd).1
      | fill b k =>
        exact hi.update_sub ht pc' _ _ (List.length_set).symm (Or.inl hs.2)
      | ret k res =>
        exact hi.update_sub ht pc' _ _ rfl (Or.inr hs)
      | loc =>
        exact hi.update_sub ht pc' _ _ rfl hs

theorem init_thread {n t : Nat} {pc : Pc} (h : (init n).threads[t]? = some pc) : pc = .idle := by
  simp [init, List.getElem?_replicate] at h
  exact h.2.symm

theorem Excl.ofInit (n : Nat) : Excl (init n) where
  poolNodup := List.nodup_nil
  poolLt := by intro b hb; cases hb
  ownLt := by intro t pc ht b hb; rw [init_thread ht] at hb; cases hb
  ownNotPool := by intro t pc ht b hb; rw [init_thread ht] at hb; cases hb
  ownDisj := by intro t u pc q ht _ _ b hb; rw [init_thread ht] at hb; cases hb
  ownNodup := by intro t pc ht; rw [init_thread ht]; exact List.nodup_nil

theorem Excl.reachable {cfg : PoolCfg} (hc : cfg.closeOnce = true) (n : Nat) (sched : List Step) :
    Excl (run cfg (init n) sched) :=
  run_induct cfg (fun s st h => Excl.step hc s st h) sched _ (Excl.ofInit n)

/-- **1.** Under `closeOnce`, in every reachable state: the pool has no duplicates, a buffer owned by a thread is
    not in the pool, and no buffer is owned by two threads. -/
theorem pool_exclusive (cfg : PoolCfg) (hc : cfg.closeOnce = true) (n : Nat) (sched : List Step) :
    let s := run cfg (init n) sched
    s.pool.Nodup ∧
    (∀ t b, b ∈ s.ownedBy t → b ∉ s.pool) ∧
    (∀ t u b, b ∈ s.ownedBy t → b ∈ s.ownedBy u → t = u) := by
  intro s
  have hi : Excl s := Excl.reachable hc n sched
  refine ⟨hi.poolNodup, ?_, ?_⟩
  · intro t b hb
    unfold State.ownedBy at hb
    split at hb
    · next pc ht => exact hi.ownNotPool t pc ht b hb
    · cases hb
  · intro t u b hb hb'
    unfold State.ownedBy at hb hb'
    split at hb
    · next pc ht =>
      split at hb'
      · next q hu =>
        apply Classical.byContradiction
        intro hne
        exact hi.ownDisj t u pc q ht hu hne b hb hb'
      · cases hb'
    · cases hb

/-! ## 2./3. content invariant: needs `decoderCopies`, `closeAfterDecode`, `closeOnce`; holds for either value of
    `largePathPrivate` and `largePathClosesFirst` -/

def good (heap : List Content) : Pc → Prop
  | .ready k bs _      => load heap bs = some k
  | .decoded k res _ _ => res = .copied (some k)
  | .preclosed _ _ _   => False
  | .closed k res _ _  => res = .copied (some k)
  | _ => True

structure Good (s : State) : Prop where
  excl : Excl s
  pcs  : ∀ (t : Nat) pc, s.threads[t]? = some pc → good s.heap pc
  rets : ∀ kr ∈ s.returned, kr.2 = .copied (some kr.1)

theorem instr_good {cfg : PoolCfg} (h1 : cfg.decoderCopies = true) (h2 : cfg.closeAfterDecode = true)
    {s : State} {pc act pc' eff} (h : instr cfg s.heap s.pool pc act = some (pc', eff))
    (hg : good s.heap pc) (hlt : ∀ b ∈ owned pc, b < s.heap.length) :
    good (s.apply eff).heap pc' ∧ ∀ k res, eff = .ret k res → res = .copied (some k) := by
  cases pc <;> cases act <;> simp only [instr] at h
  all_goals try (repeat' split at h)
  all_goals first
    | (cases h; done)
    | (simp only [Option.some.injEq, Prod.mk.injEq] at h
       obtain ⟨rfl, rfl⟩ := h
       (repeat' split) <;> simp_all [good, owned, State.apply, decode, load_set_eq])

theorem good_frame {heap heap' : List Content} {q : Pc}
    (h : ∀ x ∈ owned q, load heap' x = load heap x) (hg : good heap q) : good heap' q := by
  cases q <;> simp_all [good, owned]

theorem heap_frame {s : State} (hi : Excl s) {t : Nat} {pc : Pc} (ht : s.threads[t]? = some pc) {pc' : Pc} {eff : Eff}
    (hs : Spec s.heap s.pool pc pc' eff) {u : Nat} {q : Pc} (hne : u ≠ t) (hu : s.threads[u]? = some q) :
    ∀ x ∈ owned q, load (s.apply eff).heap x = load s.heap x := by
  intro x hx
  cases eff with
  | alloc => exact load_append _ _ (hi.ownLt u q hu x hx)
  | fill b k =>
    exact load_set_ne _ _ (fun e => hi.ownDisj t u pc q ht hu (Ne.symm hne) b hs.1 (e ▸ hx))
  | _ => rfl

theorem Good.step {cfg : PoolCfg} (h1 : cfg.decoderCopies = true) (h2 : cfg.closeAfterDecode = true)
    (hc : cfg.closeOnce = true) (s : State) (st : Step) (hG : Good s) : Good (step cfg s st) := by
  have hex := hG.excl.step hc s st
  obtain ⟨t, act⟩ := st
  cases ht : s.threads[t]? with
  | none => simpa [RaftWal.Pool.step, ht] using hG
  | some pc =>
    cases hin : instr cfg s.heap s.pool pc act with
    | none => simpa [RaftWal.Pool.step, ht, hin] using hG
    | some pe =>
      obtain ⟨pc', eff⟩ := pe
      have hstep : RaftWal.Pool.step cfg s (t, act) = { s.apply eff with threads := s.threads.set t pc' } := by
        simp [RaftWal.Pool.step, ht, hin]
      rw [hstep] at hex ⊢
      have hs := instr_spec hc hin
      have hg := instr_good h1 h2 hin (hG.pcs t pc ht) (hG.excl.ownLt t pc ht)
      refine ⟨hex, ?_, ?_⟩
      · intro u q hu
        rcases getElem?_set_cases hu with ⟨rfl, rfl⟩ | ⟨hne, hu'⟩
        · exact hg.1
        · exact good_frame (heap_frame hG.excl ht hs hne hu') (hG.pcs u q hu')
      · intro kr hkr
        cases eff with
        | ret k res =>
          rcases List.mem_append.1 hkr with h | h
          · exact hG.rets kr h
          · rw [List.mem_singleton.1 h]; exact hg.2 k res rfl
        | _ => exact hG.rets kr hkr

theorem Good.ofInit (n : Nat) : Good (init n) where
  excl := Excl.ofInit n
  pcs := by intro t pc ht; rw [init_thread ht]; trivial
  rets := by intro kr hkr; cases hkr

theorem Good.reachable {cfg : PoolCfg} (h1 : cfg.decoderCopies = true) (h2 : cfg.closeAfterDecode = true)
    (hc : cfg.closeOnce = true) (n : Nat) (sched : List Step) : Good (run cfg (init n) sched) :=
  run_induct cfg (fun s st h => Good.step h1 h2 hc s st h) sched _ (Good.ofInit n)

/-- the log of returned results only grows, at the end -/
theorem returned_prefix_step (cfg : PoolCfg) (s : State) (st : Step) :
    s.returned <+: (step cfg s st).returned := by
  obtain ⟨t, act⟩ := st
  simp only [RaftWal.Pool.step]
  split
  · exact List.prefix_rfl
  · split
    · exact List.prefix_rfl
    · next pc' eff _ => cases eff <;> simp [State.apply]

theorem returned_prefix (cfg : PoolCfg) (sched : List Step) :
    ∀ s : State, s.returned <+: (run cfg s sched).returned := by
  induction sched with
  | nil => intro s; exact List.prefix_rfl
  | cons st rest ih => intro s; exact (returned_prefix_step cfg s st).trans (ih _)

/-- a thread at `closed k res` returns exactly `(k, res)` to its caller with its next step -/
theorem return_logs (cfg : PoolCfg) (s : State) (t : Nat) {k : Frame} {res : Result} {bs : BufId} {pooled : Bool}
    (h : s.threads[t]? = some (.closed k res bs pooled)) :
    (step cfg s (t, .next)).returned = s.returned ++ [(k, res)] := by
  simp [RaftWal.Pool.step, h, instr, State.apply]

/-- **2. (general form)** With `decoderCopies`, `closeAfterDecode` and `closeOnce` — whatever `largePathPrivate` and
    `largePathClosesFirst` are — a thread that has finished reading frame `k` holds, and every result ever handed
    to a caller is, the payload of the requested frame. -/
theorem read_returns_requested_frame_of_guards (cfg : PoolCfg) (h1 : cfg.decoderCopies = true)
    (h2 : cfg.closeAfterDecode = true) (h3 : cfg.closeOnce = true) (n : Nat) (sched : List Step) :
    let s := run cfg (init n) sched
    (∀ (t : Nat) k res bs pooled, s.threads[t]? = some (.closed k res bs pooled) → observe s res = some k) ∧
    (∀ kr ∈ s.returned, observe s kr.2 = some kr.1) := by
  intro s
  have hG : Good s := Good.reachable h1 h2 h3 n sched
  refine ⟨?_, ?_⟩
  · intro t k res bs pooled ht
    have : res = .copied (some k) := hG.pcs t _ ht
    rw [this]; rfl
  · intro kr hkr
    rw [hG.rets kr hkr]; rfl

/-- **3. (general form)** Under the same three guards a result, once returned, is still in the caller's hands and
    observes the same value after every continuation of the schedule. -/
theorem result_stable_of_guards (cfg : PoolCfg) (h1 : cfg.decoderCopies = true)
    (h2 : cfg.closeAfterDecode = true) (h3 : cfg.closeOnce = true) (n : Nat) (sched more : List Step) :
    ∀ kr ∈ (run cfg (init n) sched).returned,
      kr ∈ (run cfg (init n) (sched ++ more)).returned ∧
      observe (run cfg (init n) (sched ++ more)) kr.2 = observe (run cfg (init n) sched) kr.2 := by
  intro kr hkr
  have hmem : kr ∈ (run cfg (init n) (sched ++ more)).returned := by
    rw [run_append]; exact (returned_prefix cfg more _).subset hkr
  refine ⟨hmem, ?_⟩
  rw [(read_returns_requested_frame_of_guards cfg h1 h2 h3 n (sched ++ more)).2 kr hmem,
      (read_returns_requested_frame_of_guards cfg h1 h2 h3 n sched).2 kr hkr]

/-- **2.** -/
theorem read_returns_requested_frame (n : Nat) (sched : List Step) :
    let s := run PoolCfg.code (init n) sched
    (∀ (t : Nat) k res bs pooled, s.threads[t]? = some (.closed k res bs pooled) → observe s res = some k) ∧
    (∀ kr ∈ s.returned, observe s kr.2 = some kr.1) :=
  read_returns_requested_frame_of_guards PoolCfg.code rfl rfl rfl n sched

/-- **3.** -/
theorem result_stable (n : Nat) (sched more : List Step) :
    ∀ kr ∈ (run PoolCfg.code (init n) sched).returned,
      kr ∈ (run PoolCfg.code (init n) (sched ++ more)).returned ∧
      observe (run PoolCfg.code (init n) (sched ++ more)) kr.2 = observe (run PoolCfg.code (init n) sched) kr.2 :=
  result_stable_of_guards PoolCfg.code rfl rfl rfl n sched more

/-! ## 4. necessity of the guards -/

/-- every result in callers' hands observes as the frame that was requested, in every reachable state -/
def Correct (cfg : PoolCfg) : Prop :=
  ∀ (n : Nat) (sched : List Step), ∀ kr ∈ (run cfg (init n) sched).returned,
    observe (run cfg (init n) sched) kr.2 = some kr.1

theorem correct_of_guards (cfg : PoolCfg) (h1 : cfg.decoderCopies = true) (h2 : cfg.closeAfterDecode = true)
    (h3 : cfg.closeOnce = true) : Correct cfg :=
  fun n sched => (read_returns_requested_frame_of_guards cfg h1 h2 h3 n sched).2

/-- 2 and 3 do not depend on `largePathPrivate` / `largePathClosesFirst` -/
theorem correct_any_largePath (priv first : Bool) :
    Correct { PoolCfg.code with largePathPrivate := priv, largePathClosesFirst := first } :=
  correct_of_guards _ rfl rfl rfl

/-- thread 0 reads frame 1 into new buffer 0, decodes (aliasing), closes, returns; thread 1 gets buffer 0 from the
    pool and reads frame 2 into it -/
def wDecoderCopies : List Step :=
  [(0, .get 1 false none), (0, .next), (0, .next), (0, .next), (0, .next),
   (1, .get 2 false (some 0)), (1, .next)]

theorem witness_decoderCopies :
    let cfg := { PoolCfg.code with decoderCopies := false }
    let s₁ := run cfg (init 2) (wDecoderCopies.take 5)
    let s₂ := run cfg (init 2) wDecoderCopies
    s₁.returned = [(1, .alias 0)] ∧ observe s₁ (.alias 0) = some 1 ∧
    s₂.returned = [(1, .alias 0)] ∧ observe s₂ (.alias 0) = some 2 := by decide

theorem needs_decoderCopies : ¬ Correct { PoolCfg.code with decoderCopies := false } :=
  fun h => absurd (h 2 wDecoderCopies (1, .alias 0) (by decide)) (by decide)

/-- thread 0 reads frame 1 into new buffer 0 and Puts it back before decoding; thread 1 gets buffer 0 and reads
    frame 2 into it; thread 0 decodes (copying) what is now frame 2 -/
def wCloseAfterDecode : List Step :=
  [(0, .get 1 false none), (0, .next), (0, .next),
   (1, .get 2 false (some 0)), (1, .next),
   (0, .next), (0, .next)]

theorem witness_closeAfterDecode :
    (run { PoolCfg.code with closeAfterDecode := false } (init 2) wCloseAfterDecode).returned
      = [(1, .copied (some 2))] := by decide

theorem needs_closeAfterDecode : ¬ Correct { PoolCfg.code with closeAfterDecode := false } :=
  fun h => absurd (h 2 wCloseAfterDecode (1, .copied (some 2)) (by decide)) (by decide)

/-- thread 0 reads frame 1 and Puts buffer 0 twice; threads 1 and 2 both get buffer 0; thread 1 reads frame 2 into
    it, thread 2 reads frame 3 into it, thread 1 decodes frame 3's bytes -/
def wCloseOnce : List Step :=
  [(0, .get 1 false none), (0, .next), (0, .next), (0, .next), (0, .again), (0, .next),
   (1, .get 2 false (some 0)), (2, .get 3 false (some 0)),
   (1, .next), (2, .next), (1, .next), (1, .next), (1, .next)]

theorem witness_closeOnce :
    let cfg := { PoolCfg.code with closeOnce := false }
    (run cfg (init 3) (wCloseOnce.take 8)).pool = [] ∧
    (run cfg (init 3) (wCloseOnce.take 8)).ownedBy 1 = [0] ∧
    (run cfg (init 3) (wCloseOnce.take 8)).ownedBy 2 = [0] ∧
    (run cfg (init 3) wCloseOnce).returned = [(1, .copied (some 1)), (2, .copied (some 3))] := by decide

theorem needs_closeOnce : ¬ Correct { PoolCfg.code with closeOnce := false } :=
  fun h => absurd (h 3 wCloseOnce (2, .copied (some 3)) (by decide)) (by decide)

/-- `closeOnce` is also what 1 needs: after a double Put the pool holds buffer 0 twice -/
theorem pool_exclusive_needs_closeOnce :
    ¬ (run { PoolCfg.code with closeOnce := false } (init 3) (wCloseOnce.take 6)).pool.Nodup := by decide

/-! `largePathPrivate` is not needed for 2/3 (`correct_any_largePath`).  What it buys is not visible in values: without
    it the exact-size buffer (`make([]byte, fh.len)`, not 64 KiB) enters the pool and is handed to later reads, so the
    pool no longer holds only `minBufSize` buffers and arbitrarily large buffers are retained. -/

def wLarge : List Step :=
  [(0, .get 7 true none), (0, .next), (0, .next), (0, .next), (0, .next), (0, .next), (0, .next), (0, .next)]

/-- as coded: buffer 1 (the exact-size one) never enters the pool -/
example : (run PoolCfg.code (init 1) wLarge).pool = [0] ∧
    (run PoolCfg.code (init 1) wLarge).returned = [(7, .copied (some 7))] := by decide
/-- with a CloseFn on the exact-size buffer it does -/
example : (run { PoolCfg.code with largePathPrivate := false } (init 1) wLarge).pool = [1, 0] ∧
    (run { PoolCfg.code with largePathPrivate := false } (init 1) wLarge).returned = [(7, .copied (some 7))] := by
  decide

/-! ## 5. non-vacuity: 3 threads, buffer 0 serves frame 1 (thread 0) and then frame 2 (thread 1), thread 2 reads
    frame 3 on the large path -/

def demo : List Step :=
  [(0, .get 1 false none), (0, .next), (0, .next), (0, .next), (0, .next),       -- thread 0: frame 1 via new buffer 0
   (1, .get 2 false (some 0)), (2, .get 3 true none),                            -- thread 1 reuses 0; thread 2 gets new 1
   (1, .next), (2, .next),                                                       -- both ReadAt
   (2, .next), (2, .next), (2, .next),                                           -- thread 2: Put 1, make 2, ReadAt
   (1, .next), (2, .next), (1, .next), (2, .next), (2, .next), (1, .next)]       -- decode, close, return

example : (run PoolCfg.code (init 3) (demo.take 2)).threads[0]? = some (.ready 1 0 true) := by decide
example : (run PoolCfg.code (init 3) (demo.take 5)).pool = [0] := by decide
example : (run PoolCfg.code (init 3) (demo.take 8)).threads[1]? = some (.ready 2 0 true) := by decide
example : (run PoolCfg.code (init 3) (demo.take 9)).threads[2]? = some (.hdr 3 1) := by decide
example : (run PoolCfg.code (init 3) (demo.take 12)).threads[2]? = some (.ready 3 2 false) := by decide
example : run PoolCfg.code (init 3) demo =
    { heap := [some 2, some 3, some 3], pool := [0, 1], threads := [.idle, .idle, .idle],
      returned := [(1, .copied (some 1)), (3, .copied (some 3)), (2, .copied (some 2))] } := by decide
example : ∀ kr ∈ (run PoolCfg.code (init 3) demo).returned,
    observe (run PoolCfg.code (init 3) demo) kr.2 = some kr.1 := by decide

end RaftWal.Pool
