/-
  Proofs/CrashLemmas16.lean — order along the chain of segments; where the entries of a segment lie; filtering a log.
-/
import RaftWal.Proofs.CrashLemmas15
namespace RaftWal.Crash

theorem store_res {d : Disk} {P : List Seg} {t : Seg} {f : File} (h : QS d P t f) {first : Nat} {es : List Entry}
    {sl : Bool} (hok : (Op.store first es sl).ok d) : ∃ pre post, CallRes d (.store first es sl) pre post := by
  by_cases hc : (absLog d).isEmpty ∧ t.base ≠ first
  · exact ⟨_, _, store_reset h hok hc⟩
  · exact ⟨_, _, store_noreset h hok hc⟩

/-- `a` lies wholly before `b` -/
def SegLt (a b : Seg) : Prop := a.max < b.base ∧ a.base ≤ a.max

theorem chain_pairwise (l : List Seg) (t : Seg) (h : chainOK (l ++ [t]) = true) (hb : ∀ s ∈ l, s.base ≤ s.max) :
    (l ++ [t]).Pairwise SegLt := by
  induction l with
  | nil => simp
  | cons a l ih =>
    simp only [List.cons_append, List.pairwise_cons]
    refine ⟨?_, ih (chainOK_tail h) (fun s hs => hb s (by simp [hs]))⟩
    intro b hb'
    refine ⟨chain_lt h ?_ b hb', hb a (by simp)⟩
    intro s hs
    have : (a :: (l ++ [t])).dropLast = a :: l := by
      rw [show a :: (l ++ [t]) = (a :: l) ++ [t] from rfl, List.dropLast_concat]
    exact hb s (this ▸ hs)

theorem SealedOK.bounds {d : Disk} {s : Seg} (h : SealedOK d s) : s.base ≤ s.min ∧ s.min ≤ s.max := by
  obtain ⟨f, _, hsf⟩ := h
  exact ⟨hsf.bm, hsf.mm⟩

theorem pw_core {d : Disk} {P : List Seg} {t : Seg} (hsealed : ∀ s ∈ P, SealedOK d s)
    (hchain : chainOK (P ++ [t]) = true) : (P ++ [t]).Pairwise SegLt :=
  chain_pairwise P t hchain (fun s hs => by have := (hsealed s hs).bounds; omega)

theorem Base.pw {d : Disk} {P : List Seg} {t : Seg} (hb : Base d P t) : (P ++ [t]).Pairwise SegLt :=
  pw_core hb.sealed hb.chain

theorem mem_logP {d : Disk} {P : List Seg} {p : Nat × Entry} (h : p ∈ logP d P) : ∃ s ∈ P, p ∈ segEntries d s := by
  simpa [logP, List.mem_flatMap] using h

theorem mem_sealed {d : Disk} {s : Seg} (h : SealedOK d s) {p : Nat × Entry} (hp : p ∈ segEntries d s) :
    s.min ≤ p.1 ∧ p.1 ≤ s.max := by
  obtain ⟨f, hf, hsf⟩ := h
  rw [segEntries_some hf] at hp
  have := mem_visF hp
  exact ⟨this.1, this.2.1 hsf.sl⟩

theorem logP_filter (d : Disk) (P : List Seg) (q : Nat × Entry → Bool) :
    (logP d P).filter q = P.flatMap (fun s => (segEntries d s).filter q) := by
  simp [logP, List.filter_flatMap]

theorem logP_filter_nil {d : Disk} {P : List Seg} {q : Nat × Entry → Bool}
    (h : ∀ s ∈ P, ∀ p ∈ segEntries d s, q p = false) : (logP d P).filter q = [] := by
  apply List.filter_eq_nil_iff.2
  intro p hp
  obtain ⟨s, hs, hps⟩ := mem_logP hp
  simp [h s hs p hps]

theorem logP_filter_all {d : Disk} {P : List Seg} {q : Nat × Entry → Bool}
    (h : ∀ s ∈ P, ∀ p ∈ segEntries d s, q p = true) : (logP d P).filter q = logP d P := by
  apply List.filter_eq_self.2
  intro p hp
  obtain ⟨s, hs, hps⟩ := mem_logP hp
  exact h s hs p hps

theorem visU_filter_ge {mn b : Nat} (c : List Entry) {m : Nat} (h : mn ≤ m) :
    (visU mn b c).filter (fun p => decide (m ≤ p.1)) = visU m b c := by
  unfold visU
  rw [List.filter_filter]
  congr 1; funext p
  by_cases h1 : m ≤ p.1
  · have : mn ≤ p.1 := by omega
    simp [h1, this]
  · simp [h1]

theorem visF_setMin {f : File} {s : Seg} {m : Nat} (h : s.min ≤ m) :
    (visF f s).filter (fun p => decide (m ≤ p.1)) = visF f { s with min := m } := by
  unfold visF
  rw [List.filter_filter]
  congr 1; funext p
  simp only [segVis]
  by_cases h1 : m ≤ p.1
  · have : s.min ≤ p.1 := by omega
    simp [h1, this]
  · simp [h1]

theorem visF_setMax {f : File} {s : Seg} (hs : s.sealed = true) {m : Nat} (h : m ≤ s.max) :
    (visF f s).filter (fun p => decide (p.1 ≤ m)) = visF f { s with sealed := true, max := m } := by
  unfold visF
  rw [List.filter_filter]
  congr 1; funext p
  simp only [segVis, hs]
  by_cases h1 : p.1 ≤ m
  · have : p.1 ≤ s.max := by omega
    simp [h1, this]
  · simp [h1]

/-- every entry of the log is at or above the first segment's `min` -/
theorem ge_min_core {d : Disk} {P : List Seg} {t : Seg} (hsegs : d.md.segs = P ++ [t])
    (hsealed : ∀ s ∈ P, SealedOK d s) (hchain : chainOK (P ++ [t]) = true) (htbm : t.base ≤ t.min) {s0 : Seg}
    {rest : List Seg} (hs : P ++ [t] = s0 :: rest) {p : Nat × Entry} (hp : p ∈ absLog d) : s0.min ≤ p.1 := by
  rw [absLog_eq, hsegs] at hp
  obtain ⟨s, hsm, hps⟩ := mem_logP hp
  have hmin : s.min ≤ p.1 := by
    rw [segEntries_eq] at hps
    cases hf : d.file? s.id with
    | none => rw [hf] at hps; simp at hps
    | some f => rw [hf] at hps; exact (mem_visF hps).1
  have hpw := pw_core hsealed hchain
  rw [hs] at hsm hpw
  simp only [List.mem_cons] at hsm
  rcases hsm with rfl | hsm
  · exact hmin
  · have hlt := (List.pairwise_cons.1 hpw).1 s hsm
    have hs0 : s0 ∈ P := by
      cases P with
      | nil => simp at hs; rw [hs.2] at hsm; simp at hsm
      | cons a P => simp at hs; simp [hs.1]
    have b0 := (hsealed s0 hs0).bounds
    have hbs : s.base ≤ s.min := by
      have : s ∈ P ++ [t] := by rw [hs]; simp [hsm]
      simp only [List.mem_append, List.mem_cons, List.not_mem_nil, or_false] at this
      rcases this with h1 | rfl
      · exact (hsealed s h1).bounds.1
      · exact htbm
    unfold SegLt at hlt
    omega

theorem Base.ge_min {d : Disk} {P : List Seg} {t : Seg} (hb : Base d P t) {s0 : Seg} {rest : List Seg}
    (hs : P ++ [t] = s0 :: rest) {p : Nat × Entry} (hp : p ∈ absLog d) : s0.min ≤ p.1 :=
  ge_min_core hb.segs hb.sealed hb.chain hb.tbm hs hp

theorem firstIndex_mem {d : Disk} (h : absLog d ≠ []) : ∃ p ∈ absLog d, p.1 = firstIndex d := by
  unfold firstIndex
  cases hl : absLog d with
  | nil => exact absurd hl h
  | cons a l => exact ⟨a, by simp, rfl⟩

theorem lastIndex_mem {d : Disk} (h : absLog d ≠ []) : ∃ p ∈ absLog d, p.1 = lastIndex d := by
  unfold lastIndex
  have := List.getLast?_eq_some_getLast h
  rw [this]
  exact ⟨_, List.getLast_mem h, rfl⟩

end RaftWal.Crash
