/-
  Proofs/FaultStmt.lean — the statements of the fault theorems (C10 at the level of the durability protocol), as
  propositions.  They are proved in Proofs/FaultProps.lean (via the FaultLemmas* files).
-/
import RaftWal.Proofs.FaultDefs
import RaftWal.Proofs.CrashProps
namespace RaftWal.Fault
open RaftWal.Crash

/-- a state an Open leaves: the disk is `QuiescentS`, the process accepts writes -/
def Fresh (p : Proc) : Prop := QuiescentS p.disk ∧ p.frozen = none

/-! ### fresh states -/
def fresh_view_stmt : Prop := ∀ p, Fresh p → view p = absLog p.disk
def fresh_inv_stmt : Prop := ∀ p, Fresh p → FInvS p
def init_fresh_stmt : Prop := ∃ p, Fault.init = some p ∧ Fresh p ∧ view p = []
/-- without a fault, on a fresh state, a call does exactly what Model.Crash says it does, and returns nil -/
def no_fault_agrees_stmt : Prop :=
  ∀ p, Fresh p → ∀ op, op.ok p.disk → ∀ pl : Plan, pl.all (·.isNone) = true →
    (runOp p op pl).1.disk = p.disk.applyAll (prog p.disk op) ∧ (runOp p op pl).2 = true ∧
    (runOp p op pl).1.frozen = none

/-! ### one call under any fault plan -/
def finv_call_stmt : Prop :=
  ∀ p, FInvS p → ∀ op, OkV (view p) op → ∀ pl, FInvS (runOp p op pl).1

/-- what readers of the running process see changes exactly when the call returns nil, and then as specified -/
def call_view_stmt : Prop :=
  ∀ p, FInv p → ∀ op, OkV (view p) op → ∀ pl,
    view (runOp p op pl).1 = if (runOp p op pl).2 then specApply (view p) op else view p

/-- the log the disk stands for (what a restart would recover) after a call: what readers see; or, the call having
    failed, what they would see had it succeeded; or it moved along with the call from what it was -/
def call_disklog_stmt : Prop :=
  ∀ p, FInv p → ∀ op, OkV (view p) op → ∀ pl,
    absLog (runOp p op pl).1.disk = view (runOp p op pl).1 ∨
    ((runOp p op pl).2 = false ∧ absLog (runOp p op pl).1.disk = specApply (view p) op) ∨
    absLog (runOp p op pl).1.disk = (if (runOp p op pl).2 then specApply (absLog p.disk) op else absLog p.disk)

/-! ### restart  (first stated for `FInv`: refuted — `restart_total_refuted`, `restart_view_refuted` in FaultLemmasD3) -/
def restart_total_stmt0 : Prop := ∀ p, FInv p → ∃ p', restart p = some p' ∧ Fresh p'
def restart_view_stmt0 : Prop := ∀ p, FInv p → ∀ p', restart p = some p' → view p' = absLog p.disk
def restart_total_stmt : Prop := ∀ p, FInvS p → ∃ p', restart p = some p' ∧ Fresh p'
def restart_view_stmt : Prop := ∀ p, FInvS p → ∀ p', restart p = some p' → view p' = absLog p.disk

/-! ### histories -/
def epoch_inv_stmt : Prop := ∀ p0 h p, Fresh p0 → Epoch p0 h p → FInvS p
/-- **(a), (b) in the running process**: readers see exactly the calls that returned nil, whatever failed in between -/
def epoch_view_stmt : Prop := ∀ p0 h p, Fresh p0 → Epoch p0 h p → view p = replay (view p0) h
/-- **(a), (c) after a clean restart**: Open succeeds, leaves a fresh process, and the log it recovers is the history with
    every call that returned nil applied and each call that returned an error applied in full or not at all -/
def epoch_restart_stmt : Prop :=
  ∀ p0 h p, Fresh p0 → Epoch p0 h p →
    ∃ p', restart p = some p' ∧ Fresh p' ∧ ∃ c, Resolves h c ∧ view p' = replay (view p0) c

end RaftWal.Fault
