/-
  Proofs/SegmentChainFaultDefs.lean — byte-level crash chains WITH I/O FAULTS: event semantics.
  The three events of `ChainEv` (Proofs/SegmentChain.lean) plus `failed b fault`: an `Append` that fails on the
  injected I/O fault.  The writer is rolled back in memory only; whatever landed stays in the file behind the
  write offset (Model/Segment.lean `Writer.append`, Proofs/SegmentFaults.lean `append_fault_rollback`).
-/
import RaftWal.Proofs.SegmentChainRec
namespace RaftWal

/-- one step of the life of a tail segment, I/O faults included -/
inductive ChainEvF
  /-- acknowledged append of the (non-empty) batch `b` -/
  | append  (b : List Bytes)
  /-- process restart: `recoverTail` runs on the file as it is -/
  | restart
  /-- append of `b` in flight, power loss with chunk `j` of the written range on disk iff `mask j`, then `recoverTail` -/
  | torn    (b : List Bytes) (mask : Nat → Bool)
  /-- append of `b` that fails on the injected fault (`fault ≠ .none`): the call returns an error, the writer is
      rolled back, the file keeps whatever landed -/
  | failed  (b : List Bytes) (fault : IoFault)

def chainStepF (info : SegInfo) (s : Writer × Bytes) : ChainEvF → Except SegErr (Writer × Bytes)
  | .append b => chainStep info s (.append b)
  | .restart => chainStep info s .restart
  | .torn b mask => chainStep info s (.torn b mask)
  | .failed b fault =>
    if fault = .none then .error .other
    else match s.1.append s.2 (indexBatch (chainNext info s.1) b) fault with
      | (some .io, w', file') => .ok (w', file')
      | (some e, _, _) => .error e
      | (none, _, _) => .error .other

def chainRunF (info : SegInfo) (s : Writer × Bytes) : List ChainEvF → Except SegErr (Writer × Bytes)
  | [] => .ok s
  | e :: evs =>
    match chainStepF info s e with
    | .error err => .error err
    | .ok s' => chainRunF info s' evs

/-- the payloads readable through the writer at the indexes `base ..` (what a client sees) -/
def readBack (info : SegInfo) (s : Writer × Bytes) : List (Except SegErr Bytes) :=
  (List.range s.1.offsets.length).map fun k => s.1.getLog s.2 (info.base + k) 64

end RaftWal
