/-
  Proofs/Codec.lean — round trip of the entry codec.
-/
import RaftWal.Model.Codec
import RaftWal.Proofs.Bytes
namespace RaftWal

theorem take_append_len {α} (a b : List α) (n : Nat) (h : a.length = n) : (a ++ b).take n = a := by
  subst h; simp

theorem drop_append_len {α} (a b : List α) (n : Nat) (h : a.length = n) : (a ++ b).drop n = b := by
  subst h; simp

theorem getLE_reverse_putBE (n v : Nat) (h : v < 256 ^ n) : getLE ((putBE n v).reverse) = v := by
  simp [putBE, getLE_putLE n v h]

theorem unmarshalTime_bytes (t : WTime) (h : t.wf) : unmarshalTime t.bytes = some t := by
  obtain ⟨hs, hn, ho, hos, hv⟩ := h
  cases t with
  | mk v2 sec nsec offMin offSec =>
  simp only at hs hn ho hos hv
  cases v2 with
  | false =>
    have := hv rfl
    subst this
    simp only [WTime.bytes, Bool.false_eq_true, if_false, List.append_nil, List.singleton_append, List.cons_append,
      unmarshalTime]
    have hlen : (putBE 8 sec ++ (putBE 4 nsec ++ putBE 2 offMin)).length = 14 := by simp
    simp only [List.append_assoc]
    rw [if_neg (by decide), if_neg (by simp)]
    have h1 : (putBE 8 sec ++ (putBE 4 nsec ++ putBE 2 offMin)).take 8 = putBE 8 sec :=
      take_append_len _ _ 8 (by simp)
    have h2 : (putBE 8 sec ++ (putBE 4 nsec ++ putBE 2 offMin)).drop 8 = putBE 4 nsec ++ putBE 2 offMin :=
      drop_append_len _ _ 8 (by simp)
    have h3 : (putBE 4 nsec ++ putBE 2 offMin).take 4 = putBE 4 nsec := take_append_len _ _ 4 (by simp)
    have h4 : (putBE 8 sec ++ (putBE 4 nsec ++ putBE 2 offMin)).drop 12 = putBE 2 offMin := by
      have : (12 : Nat) = 8 + 4 := rfl
      rw [this, ← List.drop_drop, h2]
      exact drop_append_len _ _ 4 (by simp)
    have h5 : (putBE 2 offMin).take 2 = putBE 2 offMin := by
      rw [List.take_of_length_le]; simp
    simp only [List.nil_append, h1, h2, h3, h4, h5]
    rw [getLE_reverse_putBE 8 sec (by simpa using hs), getLE_reverse_putBE 4 nsec (by simpa using hn),
      getLE_reverse_putBE 2 offMin (by simpa using ho)]
    simp
  | true =>
    simp only [WTime.bytes, if_true, List.singleton_append, List.cons_append, unmarshalTime]
    simp only [List.append_assoc]
    rw [if_neg (by decide), if_neg (by simp)]
    have h1 : (putBE 8 sec ++ (putBE 4 nsec ++ (putBE 2 offMin ++ [offSec.toUInt8]))).take 8 = putBE 8 sec :=
      take_append_len _ _ 8 (by simp)
    have h2 : (putBE 8 sec ++ (putBE 4 nsec ++ (putBE 2 offMin ++ [offSec.toUInt8]))).drop 8
        = putBE 4 nsec ++ (putBE 2 offMin ++ [offSec.toUInt8]) :=
      drop_append_len _ _ 8 (by simp)
    have h3 : (putBE 4 nsec ++ (putBE 2 offMin ++ [offSec.toUInt8])).take 4 = putBE 4 nsec :=
      take_append_len _ _ 4 (by simp)
    have h4 : (putBE 8 sec ++ (putBE 4 nsec ++ (putBE 2 offMin ++ [offSec.toUInt8]))).drop 12
        = putBE 2 offMin ++ [offSec.toUInt8] := by
      have : (12 : Nat) = 8 + 4 := rfl
      rw [this, ← List.drop_drop, h2]
      exact drop_append_len _ _ 4 (by simp)
    have h5 : (putBE 2 offMin ++ [offSec.toUInt8]).take 2 = putBE 2 offMin := take_append_len _ _ 2 (by simp)
    have h6 : (putBE 8 sec ++ (putBE 4 nsec ++ (putBE 2 offMin ++ [offSec.toUInt8]))).drop 14 = [offSec.toUInt8] := by
      have : (14 : Nat) = 12 + 2 := rfl
      rw [this, ← List.drop_drop, h4]
      exact drop_append_len _ _ 2 (by simp)
    simp only [List.nil_append, h1, h2, h3, h4, h5, h6]
    rw [getLE_reverse_putBE 8 sec (by simpa using hs), getLE_reverse_putBE 4 nsec (by simpa using hn),
      getLE_reverse_putBE 2 offMin (by simpa using ho)]
    simp [toUInt8_toNat_of_lt hos]

theorem Dec.varint_put (cfg : DecodeCfg) (v : Nat) (hv : v < 2^64) (rest : Bytes) :
    Dec.varint cfg { buf := putUvarint v ++ rest, err := false } = some (v, { buf := rest, err := false }) := by
  simp [Dec.varint, uvarint_put v hv rest]

theorem Dec.bytes_put (cfg : DecodeCfg) (d : Bytes) (hd : d.length < 2^64) (rest : Bytes) :
    Dec.bytes cfg { buf := putUvarint d.length ++ (d ++ rest), err := false } = some (d, { buf := rest, err := false }) := by
  simp only [Dec.bytes, Dec.varint_put cfg d.length hd]
  simp only [Bool.false_eq_true, if_false]
  by_cases h0 : d.length = 0
  · have : d = [] := List.eq_nil_of_length_eq_zero h0
    subst this; simp
  · simp [h0]

/-- **round trip**: decoding the encoding of any well-formed log yields that log. -/
theorem decode_encode (cfg : DecodeCfg) (l : Log) (t : WTime) (hl : l.wf) (ht : l.time = some t)
    (hd : l.data.length < 2^64) (he : l.ext.length < 2^64) (bs : Bytes) (henc : encode l = some bs) :
    decode cfg bs = .ok l := by
  obtain ⟨hi, hte, hty, htw⟩ := hl
  have twf := htw t ht
  cases l with
  | mk index term typ data ext time =>
  simp only at hi hte hty ht hd he
  subst ht
  simp only [encode, Option.some.injEq] at henc
  subst henc
  simp only [decode, List.append_assoc]
  rw [Dec.varint_put cfg index hi]
  simp only
  rw [Dec.varint_put cfg term hte]
  simp only
  rw [Dec.varint_put cfg typ (by omega)]
  simp only
  rw [Dec.bytes_put cfg data hd]
  simp only
  rw [Dec.bytes_put cfg ext he]
  simp only [Bool.false_eq_true, if_false, unmarshalTime_bytes t twf]
  have : typ % 256 = typ := Nat.mod_eq_of_lt hty
  simp [this]

/-- the only way `Encode` fails is an unencodable time -/
theorem encode_none_iff (l : Log) : encode l = none ↔ l.time = none := by
  unfold encode; cases l.time <;> simp

/-- with the guard in place the decoder has no panic outcome, for every byte string -/
theorem Dec.varint_no_panic (cfg : DecodeCfg) (h : cfg.overflowPanics = false) (d : Dec) : d.varint cfg ≠ none := by
  unfold Dec.varint
  split
  · simp
  · split <;> simp [h]
    · split <;> simp

theorem Dec.bytes_no_panic (cfg : DecodeCfg) (h : cfg.overflowPanics = false) (d : Dec) : d.bytes cfg ≠ none := by
  unfold Dec.bytes
  have := Dec.varint_no_panic cfg h d
  split
  · contradiction
  · split
    · simp
    · split
      · simp
      · split <;> simp

theorem decode_no_panic (cfg : DecodeCfg) (h : cfg.overflowPanics = false) (bs : Bytes) : decode cfg bs ≠ .panic := by
  unfold decode
  simp only
  split
  · exact absurd ‹_› (Dec.varint_no_panic cfg h _)
  · split
    · exact absurd ‹_› (Dec.varint_no_panic cfg h _)
    · split
      · exact absurd ‹_› (Dec.varint_no_panic cfg h _)
      · split
        · exact absurd ‹_› (Dec.bytes_no_panic cfg h _)
        · split
          · exact absurd ‹_› (Dec.bytes_no_panic cfg h _)
          · split
            · simp
            · split <;> simp

/-- witness of the decoder panic in the pinned code: 10 continuation bytes + 1 -/
theorem decode_panic_witness :
    decode { overflowPanics := true, shortIsErr := false } [0xff,0xff,0xff,0xff,0xff,0xff,0xff,0xff,0xff,0xff,0x01] = .panic := by
  decide

end RaftWal
