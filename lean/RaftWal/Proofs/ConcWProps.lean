/-
  Proofs/ConcWProps.lean — the write path against Close and the background rotation (Model/ConcW.lean), for EVERY
  schedule of any number of writers (sealing or not), the rotation goroutine and Close.
  Helper lemmas and the invariants are in Proofs/ConcWLemmas1–5.lean.

  Outcome.  `results`, `closed_is_final`, `no_use_after_close`, `no_io_after_close`, `mutual_exclusion` hold as stated,
  for every schedule (invariant `Inv0`).  `no_runtime_panic` and `no_deadlock` are FALSE as stated: a writer woken
  from `<-awaitCh` re-takes the lock and goes on WITHOUT looking at `w.awaitRotate` again (awaitRotationLocked is an
  `if`, not a loop); if another filling append has queued a new rotation in the meantime, the woken writer — if it
  fills the tail too — overwrites the pending `awaitRotate` channel and sends a second trigger.  Then two triggers
  share one channel: the rotation goroutine's second pass closes a nil channel (`no_runtime_panic_refuted`, three
  filling appends), and the overwritten channel is never closed, so a writer waiting on it waits for ever
  (`no_deadlock_refuted`, three filling appends and one other write call).  Both hold
  * under the single-appender discipline (`Reachable1`: a filling append starts only when no other is in flight;
    all other write calls and Close at any time): `no_runtime_panic_corrected`, `no_deadlock_corrected`;
  * more generally along every schedule none of whose steps overwrites a pending channel
    (`no_runtime_panic_no_overwrite`, `no_deadlock_no_overwrite`): the overwrite is the only way to fail.
-/
import RaftWal.Model.ConcW
import RaftWal.Proofs.ConcWLemmas5
namespace RaftWal.ConcW

/-- everything reachable from an initial system under any schedule, with the three guards in place -/
def Reachable (seals : List Bool) (s : Sys) : Prop := ∃ sched : List Tid, s = run fixed (init seals) sched

/-- everything reachable under the single-appender discipline (`step1`, `run1`, `sealingInFlight`: ConcWLemmas1) -/
def Reachable1 (seals : List Bool) (s : Sys) : Prop := ∃ sched : List Tid, s = run1 fixed (init seals) sched

theorem Reachable.inv0 {seals : List Bool} {s : Sys} (h : Reachable seals s) : Inv0 s := by
  obtain ⟨sched, rfl⟩ := h
  exact inv0_run sched _ (inv0_init seals)

/-- a single-appender execution is an execution (of the schedule without the blocked steps) -/
theorem Reachable1.reachable {seals : List Bool} {s : Sys} (h : Reachable1 seals s) : Reachable seals s := by
  obtain ⟨sched, rfl⟩ := h
  obtain ⟨sched', e⟩ := run1_is_run sched (init seals)
  exact ⟨sched', e⟩

theorem Reachable1.inv {seals : List Bool} {s : Sys} (h : Reachable1 seals s) : Inv0 s ∧ Inv1 s ∧ Inv3 s := by
  obtain ⟨sched, rfl⟩ := h
  exact inv_run1 sched _ (inv0_init seals) (inv1_init seals) (inv3_init seals)

/-! ### C14 no panic -/

/-- **C14 no panic**: no execution dereferences the empty state, sends on a closed channel, or closes a nil or closed
    channel — in a writer or in the rotation goroutine.  FALSE as stated (`no_runtime_panic_refuted`). -/
def no_runtime_panic_stmt : Prop := ∀ (seals : List Bool) (s : Sys), Reachable seals s →
    s.bad = false ∧ ∀ w ∈ s.writers, w.pc ≠ .done .panic

/-- three filling appends.  w0 queues a rotation (channel 0); w1 finds it pending and waits; w2 takes the lock after
    the rotation goroutine has cleared `awaitRotate` (it is about to close channel 0) and queues the next rotation
    (channel 1); the goroutine closes channel 0; w1 wakes, re-takes the lock and — without looking at `awaitRotate` —
    blocks on the full trigger buffer; the goroutine receives w2's trigger; w1's send goes through, `awaitRotate` is now
    channel 2 and channel 1 is lost.  The goroutine rotates for the first trigger and closes channel 2, receives the
    second trigger, rotates again with `awaitRotate == nil` and closes a nil channel. -/
def panicSched : List Tid :=
  [.writer 0, .writer 0, .writer 0, .writer 0, .writer 0, .writer 1, .writer 1, .writer 1, .writer 2,
   .rotator, .rotator, .rotator, .writer 2, .writer 2, .writer 2, .writer 2, .rotator,
   .writer 1, .writer 1, .writer 1, .rotator, .writer 1,
   .rotator, .rotator, .rotator, .rotator, .rotator, .rotator, .rotator]

theorem no_runtime_panic_refuted : ¬ no_runtime_panic_stmt := by
  intro h
  have h1 := (h [true, true, true] _ ⟨panicSched, rfl⟩).1
  exact absurd h1 (by decide)

/-- the schedule above does overwrite a pending channel, and is not a single-appender schedule -/
theorem panicSched_overwrites : ¬ NoOverwrite (init [true, true, true]) panicSched := by decide

/-- the half of the statement that holds for every schedule: no writer panics -/
theorem no_runtime_panic_writers (seals : List Bool) (s : Sys) (h : Reachable seals s) :
    ∀ w ∈ s.writers, w.pc ≠ .done .panic :=
  h.inv0.no_wpanic

/-- **C14 no panic**, corrected: under the single-appender discipline -/
theorem no_runtime_panic_corrected (seals : List Bool) (s : Sys) (h : Reachable1 seals s) :
    s.bad = false ∧ ∀ w ∈ s.writers, w.pc ≠ .done .panic :=
  ⟨h.inv.2.1.bad, h.inv.1.no_wpanic⟩

/-- **C14 no panic**, the general form: along every schedule of any writers in which no sealing writer overwrites a
    pending `awaitRotate` channel -/
theorem no_runtime_panic_no_overwrite (seals : List Bool) (sched : List Tid)
    (hno : NoOverwrite (init seals) sched) :
    (run fixed (init seals) sched).bad = false ∧
      ∀ w ∈ (run fixed (init seals) sched).writers, w.pc ≠ .done .panic := by
  have := inv_run_no sched _ (inv0_init seals) (inv1_init seals) hno
  exact ⟨this.2.bad, this.1.no_wpanic⟩

/-- **C14 every write call returns a result or ErrClosed** -/
theorem results (seals : List Bool) (s : Sys) (h : Reachable seals s) (w : Writer) (hw : w ∈ s.writers) (r : WRes)
    (hr : w.pc = .done r) : r = .ok ∨ r = .errClosed := by
  have := h.inv0.no_wpanic w hw
  cases r with
  | ok => exact Or.inl rfl
  | errClosed => exact Or.inr rfl
  | panic => exact absurd hr this

/-- **C14 Close is final**: a write call that starts once the flag is set returns ErrClosed -/
theorem closed_is_final (s : Sys) (i : Nat) (w : Writer) (hw : s.writers[i]? = some w) (hpc : w.pc = .start)
    (hc : s.closed = true) : ((stepWriter fixed s i).writers[i]?.map (·.pc)) = some (.done .errClosed) := by
  have hi : i < s.writers.length := (List.getElem?_eq_some_iff.mp hw).1
  unfold stepWriter
  simp only [hw, hpc]
  rw [if_pos hc, setW_writers, List.getElem?_set_self hi]
  rfl

/-- **C14 no write gets past a completed Close**: once Close has returned, no writer is using (or about to use) the
    state, and none ever will: every writer not yet done ends in ErrClosed — stated as: no writer sits at `use` -/
theorem no_use_after_close (seals : List Bool) (s : Sys) (h : Reachable seals s) (hc : s.cpc = .done) :
    ∀ w ∈ s.writers, w.pc ≠ .use :=
  fun w hw hpc => h.inv0.use_not_done w hw hpc hc

/-- **C14 nothing runs after Close**: the rotation goroutine performs no rotation (meta commit, file creation) after
    Close has returned -/
theorem no_io_after_close (seals : List Bool) (s : Sys) (h : Reachable seals s) : s.ioAfterClose = false :=
  h.inv0.io

/-! ### C14 no deadlock -/

/-- **C14 no deadlock**: as long as some write call has not returned, or Close is under way, some thread can move.
    FALSE as stated (`no_deadlock_refuted`). -/
def no_deadlock_stmt : Prop := ∀ (seals : List Bool) (s : Sys), Reachable seals s →
    ((∃ w ∈ s.writers, ∀ r, w.pc ≠ .done r) ∨ s.cpc = .flagged ∨ s.cpc = .locked) →
    ∃ t, step fixed s t ≠ s

/-- as `panicSched`, with a fourth write call (w3, not filling) that finds w2's channel 1 pending and waits for it
    before w1 overwrites it; then Close.  Nothing ever closes channel 1: Close finds channel 2 (or nil) in
    `awaitRotate`, the rotation goroutine sees `closed` and leaves.  No panic anywhere in this execution. -/
def deadlockSched : List Tid :=
  [.writer 0, .writer 0, .writer 0, .writer 0, .writer 0, .writer 1, .writer 1, .writer 1, .writer 2, .writer 3,
   .rotator, .rotator, .rotator, .writer 2, .writer 2, .writer 2, .writer 2, .writer 3, .writer 3, .rotator,
   .writer 1, .writer 1, .writer 1, .rotator, .writer 1, .rotator, .closer, .rotator, .closer, .closer]

theorem no_deadlock_refuted : ¬ no_deadlock_stmt := by
  intro h
  have hw : (run fixed (init [true, true, true, false]) deadlockSched).writers[3]? =
      some { pc := .waiting 1, seals := false } := by decide
  obtain ⟨t, ht⟩ := h [true, true, true, false] _ ⟨deadlockSched, rfl⟩
    (Or.inl ⟨_, mem_of_get _ _ _ hw, fun r e => by cases e⟩)
  exact ht (stuck_of fixed _ (by decide) (by decide) (by decide) t)

/-- … and it has not panicked -/
theorem deadlockSched_no_panic : (run fixed (init [true, true, true, false]) deadlockSched).bad = false := by decide

/-- **C14 no deadlock**, corrected: under the single-appender discipline -/
theorem no_deadlock_corrected (seals : List Bool) (s : Sys) (h : Reachable1 seals s)
    (hp : (∃ w ∈ s.writers, ∀ r, w.pc ≠ .done r) ∨ s.cpc = .flagged ∨ s.cpc = .locked) :
    ∃ t, step1 fixed s t ≠ s :=
  can_move1 s h.inv.1 h.inv.2.1 hp

/-- **C14 no deadlock**, the general form: in every state reached without overwriting a pending channel -/
theorem no_deadlock_no_overwrite (seals : List Bool) (sched : List Tid) (hno : NoOverwrite (init seals) sched)
    (s : Sys) (hs : s = run fixed (init seals) sched)
    (hp : (∃ w ∈ s.writers, ∀ r, w.pc ≠ .done r) ∨ s.cpc = .flagged ∨ s.cpc = .locked) :
    ∃ t, step fixed s t ≠ s := by
  subst hs
  have := inv_run_no sched _ (inv0_init seals) (inv1_init seals) hno
  exact can_move _ this.1 this.2 hp

/-- the lock is held by at most one thread: the number of threads in a lock-holding position equals the lock bit -/
def holders (s : Sys) : Nat :=
  (s.writers.filter (fun w => w.pc == .locked || w.pc == .check || w.pc == .use)).length
  + (if s.rpc == .locked then 1 else 0) + (if s.cpc == .locked then 1 else 0)

theorem mutual_exclusion (seals : List Bool) (s : Sys) (h : Reachable seals s) :
    holders s = (if s.lock then 1 else 0) := by
  have hm : holders s = s.lock.toNat := h.inv0.mutex
  rw [hm]
  cases s.lock <;> rfl

/-! ### each guard is needed: with one of them switched off there is a failing schedule -/

/-- without the re-check after awaitRotationLocked a writer woken by Close dereferences the empty state -/
theorem panic_without_recheck : ∃ seals sched,
    (run { fixed with recheckAfterAwait := false } (init seals) sched).bad = true := by
  refine ⟨[true, false],
    [.writer 0, .writer 0, .writer 0, .writer 0, .writer 0, .writer 1, .writer 1, .writer 1,
     .closer, .closer, .closer, .writer 1, .writer 1, .writer 1, .writer 1], ?_⟩
  decide

/-- without the wake-up in Close a writer waiting for a rotation that will never run waits for ever: a reachable state
    with a writer that has not returned in which no thread can move -/
theorem deadlock_without_wake : ∃ seals sched,
    let s := run { fixed with closeWakes := false } (init seals) sched
    (∃ w ∈ s.writers, ∀ r, w.pc ≠ .done r) ∧ ∀ t, step { fixed with closeWakes := false } s t = s := by
  refine ⟨[true, false],
    [.writer 0, .writer 0, .writer 0, .writer 0, .writer 0, .writer 1, .writer 1, .writer 1,
     .rotator, .rotator, .closer, .rotator, .closer, .closer], ?_⟩
  have hw : (run { fixed with closeWakes := false } (init [true, false])
      [.writer 0, .writer 0, .writer 0, .writer 0, .writer 0, .writer 1, .writer 1, .writer 1,
       .rotator, .rotator, .closer, .rotator, .closer, .closer]).writers[1]? =
      some { pc := .waiting 0, seals := false } := by decide
  exact ⟨⟨_, mem_of_get _ _ _ hw, fun r e => by cases e⟩,
    stuck_of _ _ (by decide) (by decide) (by decide)⟩

/-- without the re-check in runRotate a rotation queued before Close runs on the empty state: the process dies -/
theorem panic_without_rotator_recheck : ∃ seals sched,
    (run { fixed with rotatorRechecks := false } (init seals) sched).bad = true := by
  refine ⟨[true],
    [.writer 0, .writer 0, .writer 0, .writer 0, .writer 0, .rotator, .closer, .closer, .closer,
     .rotator, .rotator], ?_⟩
  decide

/-! ### non-vacuity -/

example : Reachable [true, false] (run fixed (init [true, false])
    [.writer 0, .writer 0, .writer 0, .writer 0, .writer 0, .writer 1, .writer 1, .writer 1, .closer, .closer, .closer]) :=
  ⟨_, rfl⟩

/-- the same schedule is a single-appender schedule (w1 does not fill the tail) -/
example : Reachable1 [true, false] (run1 fixed (init [true, false])
    [.writer 0, .writer 0, .writer 0, .writer 0, .writer 0, .writer 1, .writer 1, .writer 1, .closer, .closer, .closer]) :=
  ⟨_, rfl⟩

end RaftWal.ConcW
