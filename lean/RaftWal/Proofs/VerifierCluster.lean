/-
  Proofs/VerifierCluster.lean — C16 at the level of two nodes: the per-node invariant (running sum = chain over the
  stored entries, VerifierReach.lean) and the verdict theorem (VerifierProps.lean) composed into one statement about a
  leader and a follower that were each reached by ANY history of middleware operations (appends in any batching, head
  and tail truncations, report deliveries, middleware restarts — leadership changes are just such histories).
  STATEMENTS FIRST.
-/
import RaftWal.Proofs.VerifierReach
import RaftWal.Proofs.VerifierClusterLemmas
namespace RaftWal.Verifier

/-- a node as the harness creates it: the current source resets the running sum on DeleteRange -/
def node0 : Node := { resetOnDelete := true }

/-- the checkpoint metadata survives the wire: what the leader encodes the follower decodes (indexes are uint64) -/
theorem decodeMeta_encodeMeta (start : Nat) (sum : UInt64) (hs : start < 2 ^ 64) :
    decodeMeta (encodeMeta start sum) = some (start, sum) := by
  exact decodeMeta_encodeMeta' start sum hs

/-- **the leader's checkpoint carries the chain over what the leader holds**: for a leader reached by any history, the
    report (and the Extensions of the stamped entry) of a new checkpoint say: range start = the running sum's start (or
    the checkpoint itself when there is none), expected sum = FNV chain over the leader's stored entries from there -/
theorem leader_stamp (opsL : List NodeOp) (cp cp' : Log) (cs : UInt64) (st : Nat) (rL : Report)
    (hext : cp.ext = [])
    (h : updateVerifyState cp (node0.run opsL).checksum (node0.run opsL).sumStartIdx = some (cp', cs, st, some rL)) :
    let L := node0.run opsL
    rL.stop = cp.index ∧
    rL.start = (if L.sumStartIdx = 0 then cp.index else L.sumStartIdx) ∧
    rL.expected = chain 0 (if L.sumStartIdx = 0 then [] else storeFrom L L.sumStartIdx) ∧
    cp'.ext = encodeMeta rL.start rL.expected ∧ cp'.index = cp.index := by
  intro L
  have hR : Reach L := reach_run opsL node0 reach_init
  obtain ⟨_, hcp', hr⟩ := uvs_leader_inv cp cp' _ cs _ st rL hext h
  have hsum := sumInv_checksum L hR.sum
  subst hr
  subst hcp'
  exact ⟨rfl, rfl, hsum, rfl, rfl⟩

/-- the leader's expected sum is the chain over what it holds (part of `leader_stamp`) -/
theorem cluster_leader_expected (opsL : List NodeOp) (cp cp' : Log) (cs : UInt64) (st : Nat) (rL : Report)
    (hext : cp.ext = [])
    (h : updateVerifyState cp (node0.run opsL).checksum (node0.run opsL).sumStartIdx = some (cp', cs, st, some rL)) :
    rL.expected =
      chain 0 (if (node0.run opsL).sumStartIdx = 0 then [] else storeFrom (node0.run opsL) (node0.run opsL).sumStartIdx) :=
  (leader_stamp opsL cp cp' cs st rL hext h).2.2.1

/-- the follower's report, for any two histories: same range and expected sum as the leader's report, fresh, and its
    written sum is absent or equal to the expected one -/
theorem cluster_report (opsL opsF : List NodeOp) (cp cp' l2 : Log) (csL csF : UInt64) (stL stF : Nat)
    (rL r : Report)
    (hext : cp.ext = []) (hidx : cp.index < 2 ^ 64)
    (hstart : (node0.run opsL).sumStartIdx < 2 ^ 64)
    (hL : updateVerifyState cp (node0.run opsL).checksum (node0.run opsL).sumStartIdx = some (cp', csL, stL, some rL))
    (hF : updateVerifyState cp' (node0.run opsF).checksum (node0.run opsF).sumStartIdx = some (l2, csF, stF, some r))
    (hw : (if (node0.run opsF).sumStartIdx = 0 then cp.index else (node0.run opsF).sumStartIdx) = rL.start →
          (if (node0.run opsF).sumStartIdx = 0 then [] else storeFrom (node0.run opsF) (node0.run opsF).sumStartIdx) =
          (if (node0.run opsL).sumStartIdx = 0 then [] else storeFrom (node0.run opsL) (node0.run opsL).sumStartIdx)) :
    r.start = rL.start ∧ r.stop = rL.stop ∧
    r.expected =
      chain 0 (if (node0.run opsL).sumStartIdx = 0 then [] else storeFrom (node0.run opsL) (node0.run opsL).sumStartIdx) ∧
    (r.written = 0 ∨ r.written = r.expected) ∧ r.err = .none := by
  have hRF : Reach (node0.run opsF) := reach_run opsF node0 reach_init
  have hsF := sumInv_checksum _ hRF.sum
  obtain ⟨h1, h2, h3, h4, h5⟩ := leader_stamp opsL cp cp' csL stL rL hext hL
  have hlt : rL.start < 2 ^ 64 := by
    rw [h2]; split <;> assumption
  have hr := uvs_follower_inv cp' l2 _ csF _ stF r rL.start rL.expected h4 hlt hF
  rw [h5] at hr
  have herr := (uvs_report_err _ _ _ _ _ _ _ hF).1
  refine ⟨by rw [hr], by rw [hr, h1], by rw [hr]; exact h3, ?_, herr⟩
  by_cases he : rL.start = (if (node0.run opsF).sumStartIdx = 0 then cp.index else (node0.run opsF).sumStartIdx)
  · right
    rw [hr]
    simp only [ne_eq, he, not_true_eq_false, if_false]
    rw [hsF, hw he.symm, h3]
  · left
    rw [hr]
    simp only [ne_eq, he, not_false_eq_true, if_true]

/-- **C16, two nodes, any histories**: the leader `L` and the follower `F` are reached by arbitrary histories. The leader
    stamps a new checkpoint `cp`; the follower receives the stamped entry and gets report `r`. If
      (w) whenever the follower's running sum starts where the leader's range starts, the follower has stored from there
          on exactly the entries the leader's sum covers (it wrote what the leader wrote), and
      (r) the node state `Fv` on which the verification runs is open, holds the range from its start, and returns for
          every index of the range exactly the leader's entries (stored as written, read back unchanged),
    then the delivered report carries no error — no checksum mismatch of either kind, no range mismatch — and its read
    sum equals the leader's. -/
theorem cluster_no_false_alarm (opsL opsF : List NodeOp) (cp cp' l2 : Log) (csL csF : UInt64) (stL stF : Nat)
    (rL r : Report) (Fv : Node)
    (hext : cp.ext = []) (hidx : cp.index < 2 ^ 64)
    (hstart : (node0.run opsL).sumStartIdx < 2 ^ 64)
    (hL : updateVerifyState cp (node0.run opsL).checksum (node0.run opsL).sumStartIdx = some (cp', csL, stL, some rL))
    (hF : updateVerifyState cp' (node0.run opsF).checksum (node0.run opsF).sumStartIdx = some (l2, csF, stF, some r))
    (hw : (if (node0.run opsF).sumStartIdx = 0 then cp.index else (node0.run opsF).sumStartIdx) = rL.start →
          (if (node0.run opsF).sumStartIdx = 0 then [] else storeFrom (node0.run opsF) (node0.run opsF).sumStartIdx) =
          (if (node0.run opsL).sumStartIdx = 0 then [] else storeFrom (node0.run opsL) (node0.run opsL).sumStartIdx))
    (hopen : Fv.store.closed = false) (hfirst : Fv.store.firstIndex ≤ r.start)
    (hread : readRange Fv r.start (r.stop - r.start) =
          some (if (node0.run opsL).sumStartIdx = 0 then [] else storeFrom (node0.run opsL) (node0.run opsL).sumStartIdx)) :
    r.start = rL.start ∧ r.stop = rL.stop ∧ r.expected = rL.expected ∧
    (Fv.verify r).2.err = .none ∧ (Fv.verify r).2.read = rL.expected := by
  obtain ⟨hs, hst, hexp, hwr, herr⟩ :=
    cluster_report opsL opsF cp cp' l2 csL csF stL stF rL r hext hidx hstart hL hF hw
  refine ⟨hs, hst, hexp.trans (cluster_leader_expected opsL cp cp' csL stL rL hext hL).symm, ?_⟩
  have := verify_clean Fv r _ hopen herr hwr hfirst hread hexp
  exact ⟨this.1, this.2.trans (hexp.trans (cluster_leader_expected opsL cp cp' csL stL rL hext hL).symm)⟩

/-- the same for a node that lacks the beginning of the range: ErrRangeMismatch, never corruption -/
theorem cluster_range_mismatch (opsL opsF : List NodeOp) (cp cp' l2 : Log) (csL csF : UInt64) (stL stF : Nat)
    (rL r : Report) (Fv : Node)
    (hext : cp.ext = []) (hidx : cp.index < 2 ^ 64) (hstart : (node0.run opsL).sumStartIdx < 2 ^ 64)
    (hL : updateVerifyState cp (node0.run opsL).checksum (node0.run opsL).sumStartIdx = some (cp', csL, stL, some rL))
    (hF : updateVerifyState cp' (node0.run opsF).checksum (node0.run opsF).sumStartIdx = some (l2, csF, stF, some r))
    (hw : (if (node0.run opsF).sumStartIdx = 0 then cp.index else (node0.run opsF).sumStartIdx) = rL.start →
          (if (node0.run opsF).sumStartIdx = 0 then [] else storeFrom (node0.run opsF) (node0.run opsF).sumStartIdx) =
          (if (node0.run opsL).sumStartIdx = 0 then [] else storeFrom (node0.run opsL) (node0.run opsL).sumStartIdx))
    (hopen : Fv.store.closed = false) (hfirst : Fv.store.firstIndex > r.start) :
    (Fv.verify r).2.err = .rangeMismatch := by
  obtain ⟨_, _, _, hwr, _⟩ :=
    cluster_report opsL opsF cp cp' l2 csL csF stL stF rL r hext hidx hstart hL hF hw
  exact verify_range_mismatch Fv r hopen hwr hfirst

/-! ### non-vacuity -/

def exE1 : Log := { index := 1, term := 1, typ := 0, data := [1], ext := [], time := some WTime.zero }
def exE2 : Log := { index := 2, term := 1, typ := 0, data := [2], ext := [], time := some WTime.zero }
def exCP : Log := { index := 3, term := 1, typ := 0, data := [0x43, 0x50], ext := [], time := some WTime.zero }
/-- the leader stores both entries in one batch -/
def exOpsL : List NodeOp := [.store [exE1, exE2]]
/-- the follower stores them in two batches -/
def exOpsF : List NodeOp := [.store [exE1], .store [exE2]]

set_option maxRecDepth 4000 in
theorem exL_start : (node0.run exOpsL).sumStartIdx = 1 := by decide
set_option maxRecDepth 4000 in
theorem exF_start : (node0.run exOpsF).sumStartIdx = 1 := by decide
set_option maxRecDepth 4000 in
theorem exF_sum : (node0.run exOpsF).checksum = (node0.run exOpsL).checksum := by decide
set_option maxRecDepth 4000 in
theorem exL_sum_ne : (node0.run exOpsL).checksum ≠ 0 := by decide

/-- the non-vacuity witness as a named theorem (so that `#print axioms` can see it); the `example` below is the
    statement as given -/
theorem cluster_nonvacuous : ∃ (opsL opsF : List NodeOp) (cp cp' l2 : Log) (csL csF : UInt64) (stL stF : Nat) (rL r : Report),
    cp.ext = [] ∧
    updateVerifyState cp (node0.run opsL).checksum (node0.run opsL).sumStartIdx = some (cp', csL, stL, some rL) ∧
    updateVerifyState cp' (node0.run opsF).checksum (node0.run opsF).sumStartIdx = some (l2, csF, stF, some r) ∧
    r.written = r.expected ∧ r.written ≠ 0 := by
  have hcp : isCheckpoint exCP = .yes := by decide
  have hL := uvs_leader_fwd exCP (node0.run exOpsL).checksum (node0.run exOpsL).sumStartIdx hcp rfl
  have ha : (if (node0.run exOpsL).sumStartIdx = 0 then exCP.index else (node0.run exOpsL).sumStartIdx) < 2 ^ 64 := by
    rw [exL_start]; decide
  have hF := uvs_follower_fwd
    { exCP with ext := encodeMeta (if (node0.run exOpsL).sumStartIdx = 0 then exCP.index
                                   else (node0.run exOpsL).sumStartIdx) (node0.run exOpsL).checksum }
    (node0.run exOpsF).checksum (node0.run exOpsF).sumStartIdx _ _ hcp rfl ha
  have hwr : (if (if (node0.run exOpsL).sumStartIdx = 0 then exCP.index else (node0.run exOpsL).sumStartIdx) ≠
        (if (node0.run exOpsF).sumStartIdx = 0 then exCP.index else (node0.run exOpsF).sumStartIdx)
      then 0 else (node0.run exOpsF).checksum) = (node0.run exOpsL).checksum := by
    rw [exL_start, exF_start, exF_sum]; simp
  refine ⟨exOpsL, exOpsF, exCP, _, _, _, _, _, _, _, _, rfl, hL, hF, hwr, ?_⟩
  intro h0
  exact exL_sum_ne (hwr.symm.trans h0)

/-- a leader that stored two entries stamps a checkpoint; a follower that stored the same two entries in two separate
    batches gets a report for the same range with the same sums -/
example : ∃ (opsL opsF : List NodeOp) (cp cp' l2 : Log) (csL csF : UInt64) (stL stF : Nat) (rL r : Report),
    cp.ext = [] ∧
    updateVerifyState cp (node0.run opsL).checksum (node0.run opsL).sumStartIdx = some (cp', csL, stL, some rL) ∧
    updateVerifyState cp' (node0.run opsF).checksum (node0.run opsF).sumStartIdx = some (l2, csF, stF, some r) ∧
    r.written = r.expected ∧ r.written ≠ 0 := by
  exact cluster_nonvacuous

end RaftWal.Verifier


