/-
  Proofs/WalInv2Lemmas6.lean — the combined invariant `Inv2` over runs of the extended operation
  language: simulation relation (reused from C05) ∧ directory invariant ∧ counters = true totals ∧
  stable map = reference map ∧ `closed` flag = reference flag.
-/
import RaftWal.Proofs.WalInv2Lemmas5
namespace RaftWal

/-! ## reference sides -/

theorem specTotalsStep_fst (s : Spec.SLog) (t : Totals) (op : Op) :
    (specTotalsStep s t (.log op)).1 = (s.step op).1 := by
  cases op <;> rfl

/-- one step of the reference StableStore (the function folded by `specStable`) -/
def stableStep (st : SMap × Bool) (op : XOp) : SMap × Bool :=
  match op with
  | .log .close => (st.1, true)
  | .log .reopen => (st.1, false)
  | .set k v => if st.2 then st else (st.1.set k v, st.2)
  | .setu k v => if st.2 then st else (st.1.set k (some (putLE 8 v)), st.2)
  | _ => st

theorem spec_store_closed (s : Spec.SLog) (logs : List Log) : (s.store logs).1.closed = s.closed := by
  unfold Spec.SLog.store
  split
  · rfl
  · split
    · rfl
    · split <;> rfl

theorem spec_delete_closed (s : Spec.SLog) (mn mx : Nat) : (s.delete mn mx).1.closed = s.closed := by
  unfold Spec.SLog.delete
  repeat' split
  all_goals rfl

theorem spec_step_closed (s : Spec.SLog) (op : Op) :
    (s.step op).1.closed = (stableStep ([], s.closed) (.log op)).2 := by
  cases op with
  | store logs => exact spec_store_closed s logs
  | del mn mx => exact spec_delete_closed s mn mx
  | get i => rfl
  | first => rfl
  | last => rfl
  | close => rfl
  | reopen => rfl

theorem stableStep_log_snd (m m' : SMap) (c : Bool) (op : Op) :
    (stableStep (m, c) (.log op)).2 = (stableStep (m', c) (.log op)).2 := by
  cases op <;> rfl

theorem stableStep_log_fst (m : SMap) (c : Bool) (op : Op) : (stableStep (m, c) (.log op)).1 = m := by
  cases op <;> rfl

/-! ## model side of the StableStore calls -/

theorem setStable_stable (w : Wal) (k : Bytes) (v : Option Bytes) :
    (w.setStable k v).1.stable = if w.closed then w.stable else SMap.set w.stable k v := by
  unfold Wal.setStable SMap.set
  split <;> rfl

theorem setStable_ctr (w : Wal) (k : Bytes) (v : Option Bytes) :
    (w.setStable k v).1.ctr.totals =
      if w.closed then w.ctr.totals else { w.ctr.totals with sets := w.ctr.totals.sets + 1 } := by
  unfold Wal.setStable
  split <;> rfl

theorem getStable_ctr (w : Wal) (k : Bytes) :
    (w.getStable k).1.ctr.totals =
      if w.closed then w.ctr.totals else { w.ctr.totals with gets := w.ctr.totals.gets + 1 } := by
  unfold Wal.getStable
  split <;> rfl

theorem Sim.same {w w' : Wal} {s : Spec.SLog} (h : Sim w s) (h1 : w'.cfg = w.cfg) (h2 : w'.nextID = w.nextID)
    (h3 : w'.segs = w.segs) (h4 : w'.files = w.files) (h5 : w'.closed = w.closed) : Sim w' s := by
  have hcl : s.closed = w.closed := by obtain ⟨F, _, _, hcl, _⟩ := h; exact hcl
  exact h.of_eq h1 h2 h3 h4 (by rw [h5]; exact hcl) rfl rfl

theorem Sim.closed_eq {w : Wal} {s : Spec.SLog} (h : Sim w s) : s.closed = w.closed := by
  obtain ⟨F, _, _, hcl, _⟩ := h; exact hcl

/-! ## the combined invariant -/

structure Inv2 (w : Wal) (s : Spec.SLog) (t : Totals) (st : SMap × Bool) : Prop where
  sim : Sim w s
  dir : DirEq w
  ctr : w.ctr.totals = t.wrap
  stable : w.stable = st.1
  closed : w.closed = st.2

theorem ctr_log {w : Wal} {s : Spec.SLog} {t : Totals} (h : Sim w s) (hct : w.ctr.totals = t.wrap)
    (op : Op) (hop : op.inRange) :
    (w.step op).1.ctr.totals = (specTotalsStep s t (.log op)).2.wrap := by
  cases op with
  | store logs => exact ctr_store h hct logs hop
  | del mn mx => exact ctr_del h hct mn mx hop
  | get i => exact ctr_get h hct i
  | first => exact hct
  | last => exact hct
  | close => exact hct
  | reopen =>
    show _ = t.wrap
    simp only [Wal.step]
    split
    · rename_i w' h'; rw [(reopen_tr h').2.1]; exact hct
    · exact hct

theorem inv2_step {w : Wal} {s : Spec.SLog} {t : Totals} {st : SMap × Bool} (h : Inv2 w s t st)
    (op : XOp) (hop : op.inRange) :
    Inv2 (w.xstep op).1 (specTotalsStep s t op).1 (specTotalsStep s t op).2 (stableStep st op) := by
  obtain ⟨hsim, hdir, hctr, hstab, hclosed⟩ := h
  have hscl := hsim.closed_eq
  obtain ⟨m, c⟩ := st
  simp only at hstab hclosed
  have hd := (xstep_ext_dir w op).2 hdir
  cases op with
  | log op =>
    have hs := (step_sim hsim op hop).2
    refine ⟨by rw [specTotalsStep_fst]; exact hs, hd, ctr_log hsim hctr op hop, ?_, ?_⟩
    · rw [stableStep_log_fst]
      exact (step_tr w op).stable.trans hstab
    · show (w.step op).1.closed = _
      rw [← hs.closed_eq, spec_step_closed, hscl, hclosed]
      exact stableStep_log_snd _ _ _ _
  | set k v =>
    obtain ⟨h1, h2, h3, h4, h5⟩ := setStable_same w k v
    refine ⟨hsim.same h5 h3 h1 h2 h4, hd, ?_, ?_, ?_⟩
    · show (w.setStable k v).1.ctr.totals = _
      rw [setStable_ctr, hctr]
      simp only [specTotalsStep, hscl]
      split <;> rfl
    · show (w.setStable k v).1.stable = _
      rw [setStable_stable, hstab, hclosed]
      simp only [stableStep]
      split <;> rfl
    · show (w.setStable k v).1.closed = _
      rw [h4, hclosed]
      simp only [stableStep]
      split <;> rfl
  | setu k v =>
    obtain ⟨h1, h2, h3, h4, h5⟩ := setStable_same w k (some (putLE 8 v))
    refine ⟨hsim.same h5 h3 h1 h2 h4, hd, ?_, ?_, ?_⟩
    · show (w.setStable k (some (putLE 8 v))).1.ctr.totals = _
      rw [setStable_ctr, hctr]
      simp only [specTotalsStep, hscl]
      split <;> rfl
    · show (w.setStable k (some (putLE 8 v))).1.stable = _
      rw [setStable_stable, hstab, hclosed]
      simp only [stableStep]
      split <;> rfl
    · show (w.setStable k (some (putLE 8 v))).1.closed = _
      rw [h4, hclosed]
      simp only [stableStep]
      split <;> rfl
  | getk k =>
    obtain ⟨h1, h2, h3, h4, h5, h6⟩ := getStable_same w k
    refine ⟨hsim.same h5 h3 h1 h2 h4, hd, ?_, h6.trans hstab, h4.trans hclosed⟩
    show (w.getStable k).1.ctr.totals = _
    rw [getStable_ctr, hctr]
    simp only [specTotalsStep, hscl]
    split <;> rfl
  | getu k =>
    obtain ⟨h1, h2, h3, h4, h5, h6⟩ := getStable_same w k
    have e : (w.xstep (.getu k)).1 = (w.getStable k).1 := getUint64_fst w k
    rw [e] at hd ⊢
    refine ⟨hsim.same h5 h3 h1 h2 h4, hd, ?_, h6.trans hstab, h4.trans hclosed⟩
    rw [getStable_ctr, hctr]
    simp only [specTotalsStep, hscl]
    split <;> rfl

theorem inv2_run : ∀ (ops : List XOp) (w : Wal) (s : Spec.SLog) (t : Totals) (st : SMap × Bool),
    Inv2 w s t st → (∀ op ∈ ops, op.inRange) →
    Inv2 (w.xrunState ops)
      (ops.foldl (fun (a : Spec.SLog × Totals) op => specTotalsStep a.1 a.2 op) (s, t)).1
      (ops.foldl (fun (a : Spec.SLog × Totals) op => specTotalsStep a.1 a.2 op) (s, t)).2
      (ops.foldl stableStep st) := by
  intro ops
  induction ops with
  | nil => intro w s t st h _; exact h
  | cons op ops ih =>
    intro w s t st h hops
    have h1 := inv2_step h op (hops op (by simp))
    exact ih _ _ _ _ h1 (fun o ho => hops o (List.mem_cons_of_mem _ ho))

theorem inv2_init (cfg : WalCfg) (hcfg : cfg.newSegCodec = cfg.codecId) (w0 : Wal) (h0 : Wal.init cfg = some w0) :
    Inv2 w0 { first := 0, entries := [] } {} ([], false) := by
  obtain ⟨d, c, st⟩ := init_dir h0
  have hs := init_sim cfg hcfg w0 h0
  refine ⟨hs, d, by rw [c]; rfl, st, ?_⟩
  rw [← hs.closed_eq]

/-- the invariant after any run from the initial state -/
theorem inv2_of_run (cfg : WalCfg) (hcfg : cfg.newSegCodec = cfg.codecId) (w0 : Wal) (h0 : Wal.init cfg = some w0)
    (ops : List XOp) (hops : ∀ op ∈ ops, op.inRange) :
    Inv2 (w0.xrunState ops) (specTotals ops).1 (specTotals ops).2 (ops.foldl stableStep ([], false)) :=
  inv2_run ops w0 _ _ _ (inv2_init cfg hcfg w0 h0) hops

end RaftWal
