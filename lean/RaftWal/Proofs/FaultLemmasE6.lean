/-
  Proofs/FaultLemmasE6.lean — non-vacuity: concrete epochs from `init` in which calls fail under explicit fault plans,
  evaluated by `decide`, so that the hypotheses of the history theorems (`Fresh p0`, `Epoch p0 h p`, `OkV` of every
  call) are seen to be satisfiable, and the ways a failed call resolves after a restart are all seen to occur.
-/
import RaftWal.Proofs.FaultLemmasE5
namespace RaftWal.Fault.E
open RaftWal.Crash

instance (l : List (Nat × Entry)) (op : Op) : Decidable (OkV l op) := by
  cases op <;> unfold OkV <;> infer_instance

instance (p : Proc) : Decidable (FInv p) := by unfold FInv; infer_instance
instance (p : Proc) : Decidable (FInvS p) := by unfold FInvS; infer_instance

theorem finvSB_iff (p : Proc) : finvSB p = true ↔ FInvS p := by
  unfold finvSB FInvS FInv
  exact Bool.and_eq_true_iff

/-- the process `init` leaves -/
def proc0 : Proc := { disk := disk0 }

theorem init_proc0 : Fault.init = some proc0 := init_eq
theorem proc0_fresh : Fresh proc0 := ⟨disk0_quiescentS, rfl⟩

/-! ### example 1: an append whose pwrite fails after every byte reached the file, between two appends that succeed -/

def opA : Op := .store 1 [7, 8] false
def opB : Op := .store 3 [9] false
def opC : Op := .store 3 [10] false

def histE1 : Hist := [(opA, true), (opB, false), (opC, true)]

/-- after `opA` (no fault) and `opB` (its pwrite fails, the whole batch is in the file beyond the writer's offset) -/
def procE1b : Proc := (runOp (runOp proc0 opA []).1 opB [some .whole]).1
/-- … and after `opC` (no fault), which goes over what `opB` left -/
def procE1 : Proc := (runOp procE1b opC []).1

theorem epochE1b : Epoch proc0 [(opA, true), (opB, false)] procE1b := by
  have e0 : Epoch proc0 [] proc0 := Epoch.start
  have e1 := Epoch.call [] proc0 opA [] e0 (by decide)
  have e2 := Epoch.call _ _ opB [some .whole] e1 (by decide)
  exact e2

theorem epochE1 : Epoch proc0 histE1 procE1 :=
  Epoch.call _ _ opC [] epochE1b (by decide)

/-- three calls from `init`, the second fails: readers never see it, the invariant holds, the disk agrees with readers -/
theorem example_epoch_fail :
    ∃ p0 p, Fault.init = some p0 ∧ Fresh p0 ∧ Epoch p0 histE1 p ∧ histE1.length = 3 ∧ (opB, false) ∈ histE1 ∧
      FInvS p ∧ view p = [(1, 7), (2, 8), (3, 10)] ∧ view p = replay (view p0) histE1 ∧
      absLog p.disk = [(1, 7), (2, 8), (3, 10)] :=
  ⟨proc0, procE1, init_proc0, proc0_fresh, epochE1, rfl, by decide, by decide, by decide, by decide, by decide⟩

/-- right after the failed call readers see the log without it, the disk stands for the log WITH it (a restart finds
    the batch whole: the failed call is applied in full — the second disjunct of `call_disklog_stmt`) -/
theorem example_failed_call_applied :
    FInvS procE1b ∧ view procE1b = [(1, 7), (2, 8)] ∧ absLog procE1b.disk = [(1, 7), (2, 8), (3, 9)] ∧
    ∃ p', restart procE1b = some p' ∧ view p' = [(1, 7), (2, 8), (3, 9)] ∧
      view p' = replay (view proc0) [(opA, true), (opB, true)] ∧
      Resolves [(opA, true), (opB, false)] [(opA, true), (opB, true)] := by
  refine ⟨by decide, by decide, by decide, (restart procE1b).get (by decide), by simp, ?_, ?_,
    resolves_snoc (resolves_refl [(opA, true)]) opB (fun _ => rfl)⟩ <;> decide

/-- the same failed pwrite leaving nothing (or garbage): the call is not applied -/
theorem example_failed_call_dropped :
    ∀ wf, wf = .nothing ∨ wf = .garbage →
      (runOp (runOp proc0 opA []).1 opB [some wf]).2 = false ∧
      absLog (runOp (runOp proc0 opA []).1 opB [some wf]).1.disk = [(1, 7), (2, 8)] := by
  intro wf h
  rcases h with rfl | rfl <;> decide

/-! ### example 2: the background rotation's Create fails after its commit: the process stops accepting writes -/

def opS : Op := .store 1 [7] true
def opT : Op := .store 2 [8] false
def opU : Op := .set 1 1

def histE2 : Hist := [(opS, true), (opT, false), (opU, true)]

/-- write, fsync, the rotation's commit succeed; its Create fails -/
def planS : Plan := [none, none, none, some .nothing]

def procE2a : Proc := (runOp proc0 opS planS).1
def procE2 : Proc := (runOp (runOp procE2a opT []).1 opU []).1

theorem epochE2 : Epoch proc0 histE2 procE2 := by
  have e0 : Epoch proc0 [] proc0 := Epoch.start
  have e1 := Epoch.call [] proc0 opS planS e0 (by decide)
  have e2 := Epoch.call _ _ opT [] e1 (by decide)
  have e3 := Epoch.call _ _ opU [] e2 (by decide)
  exact e3

/-- a sealing append returns nil, its rotation commits and then cannot create the next tail: the process is stopped
    (`frozen`), refuses the next append, still serves reads and the stable store, and a restart recovers everything -/
theorem example_epoch_stopped :
    Epoch proc0 histE2 procE2 ∧ procE2.frozen.isSome = true ∧ FInvS procE2 ∧ view procE2 = [(1, 7)] ∧
    view procE2 = replay (view proc0) histE2 ∧
    ∃ p', restart procE2 = some p' ∧ view p' = [(1, 7)] ∧ p'.frozen = none ∧ FInvS p' := by
  refine ⟨epochE2, by decide, by decide, by decide, by decide, (restart procE2).get (by decide), by simp, ?_, ?_, ?_⟩ <;>
    decide

/-! ### example 3: TWO actions of one call fail — a StoreLogs whose base-index reset succeeds (commit, create), whose
    append's pwrite fails with every byte in the file, and whose deferred delete of the replaced tail fails as well -/

def opR : Op := .store 5 [9] false
def opR' : Op := .store 5 [10] false
def opR'' : Op := .store 6 [11] false

/-- commit ok, create ok, write fails (whole batch left), [no fsync: the append ended], delete fails -/
def planR : Plan := [none, none, some .whole, some .nothing]

def histE3 : Hist := [(opR, false), (opR', true), (opR'', true)]

def procE3a : Proc := (runOp proc0 opR planR).1
def procE3 : Proc := (runOp (runOp procE3a opR' []).1 opR'' []).1

theorem epochE3a : Epoch proc0 [(opR, false)] procE3a :=
  Epoch.call [] proc0 opR planR Epoch.start (by decide)

theorem epochE3 : Epoch proc0 histE3 procE3 := by
  have e2 := Epoch.call _ _ opR' [] epochE3a (by decide)
  have e3 := Epoch.call _ _ opR'' [] e2 (by decide)
  exact e3

/-- after the call with two failures: it returned an error, the replaced tail's file (id 0) is still there next to the
    new tail (id 1) that carries the failed batch beyond the writer's offset; readers see the empty log, the disk stands
    for the log with the failed call applied, the invariant holds, and a restart recovers `[(5, 9)]` and removes file 0 -/
theorem example_two_failures :
    (runOp proc0 opR planR).2 = false ∧ FInvS procE3a ∧ procE3a.disk.files.map (·.id) = [0, 1] ∧
    view procE3a = [] ∧ absLog procE3a.disk = [(5, 9)] ∧
    ∃ p', restart procE3a = some p' ∧ view p' = [(5, 9)] ∧ p'.disk.files.map (·.id) = [1] ∧ FInvS p' ∧
      view p' = replay (view proc0) [(opR, true)] ∧ Resolves [(opR, false)] [(opR, true)] := by
  refine ⟨by decide, by decide, by decide, by decide, by decide, (restart procE3a).get (by decide), by simp, ?_, ?_, ?_, ?_,
    resolves_single opR (fun _ => rfl)⟩ <;> decide

/-- … and the epoch goes on: the next appends go over what the failed one left; the file whose delete failed stays -/
theorem example_epoch_two_failures :
    Epoch proc0 histE3 procE3 ∧ FInvS procE3 ∧ view procE3 = [(5, 10), (6, 11)] ∧
    view procE3 = replay (view proc0) histE3 ∧ absLog procE3.disk = [(5, 10), (6, 11)] ∧
    procE3.disk.files.map (·.id) = [0, 1] :=
  ⟨epochE3, by decide, by decide, by decide, by decide, by decide⟩

/-! ### example 4: a persistent fsync failure — every fsync fails, call after call, until the fault goes away -/

/-- the pwrite succeeds, the fsync fails (and any further action of the call would fail too) -/
def planF : Plan := [none, some .nothing, some .nothing, some .nothing]

def histE4 : Hist := [(opA, true), (opB, false), (opB, false), (opC, true)]

def procE4b : Proc := (runOp (runOp (runOp proc0 opA []).1 opB planF).1 opB planF).1
def procE4 : Proc := (runOp procE4b opC []).1

theorem epochE4b : Epoch proc0 [(opA, true), (opB, false), (opB, false)] procE4b := by
  have e1 := Epoch.call [] proc0 opA [] Epoch.start (by decide)
  have e2 := Epoch.call _ _ opB planF e1 (by decide)
  have e3 := Epoch.call _ _ opB planF e2 (by decide)
  exact e3

theorem epochE4 : Epoch proc0 histE4 procE4 := Epoch.call _ _ opC [] epochE4b (by decide)

/-- two appends in a row fail at their fsync (the batch is written, not fsynced: readers do not see it, a restart
    finds it whole), the third succeeds and goes over it -/
theorem example_persistent_fsync :
    Epoch proc0 histE4 procE4 ∧ FInvS procE4b ∧ view procE4b = [(1, 7), (2, 8)] ∧
    absLog procE4b.disk = [(1, 7), (2, 8), (3, 9)] ∧
    (∃ p', restart procE4b = some p' ∧ view p' = [(1, 7), (2, 8), (3, 9)]) ∧
    FInvS procE4 ∧ view procE4 = [(1, 7), (2, 8), (3, 10)] ∧ view procE4 = replay (view proc0) histE4 ∧
    absLog procE4.disk = [(1, 7), (2, 8), (3, 10)] := by
  refine ⟨epochE4, by decide, by decide, by decide, ⟨(restart procE4b).get (by decide), by simp, ?_⟩, by decide, by decide,
    by decide, by decide⟩
  decide

/-- a sealing tail truncation whose ForceSeal's fsync fails persistently: the call fails, nothing is committed -/
theorem example_persistent_fsync_delTail :
    OkV (view procE1) (.delTail 2) ∧ (runOp procE1 (.delTail 2) planF).2 = false ∧
    FInvS (runOp procE1 (.delTail 2) planF).1 ∧ view (runOp procE1 (.delTail 2) planF).1 = [(1, 7), (2, 8), (3, 10)] ∧
    absLog (runOp procE1 (.delTail 2) planF).1.disk = [(1, 7), (2, 8), (3, 10)] :=
  ⟨by decide, by decide, by decide, by decide, by decide⟩

end RaftWal.Fault.E
