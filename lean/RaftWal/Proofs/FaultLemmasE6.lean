/-
  Proofs/FaultLemmasE6.lean — non-vacuity: concrete epochs from `init` in which calls fail, evaluated by `decide`, so
  that the hypotheses of the history theorems (`Fresh p0`, `Epoch p0 h p`, `OkV` of every call) are seen to be
  satisfiable, and the three ways a failed call resolves after a restart are all seen to occur.
-/
import RaftWal.Proofs.FaultLemmasE5
namespace RaftWal.Fault.E
open RaftWal.Crash

instance (l : List (Nat × Entry)) (op : Op) : Decidable (OkV l op) := by
  cases op <;> unfold OkV <;> infer_instance

instance (p : Proc) : Decidable (FInv p) := by unfold FInv; infer_instance
instance (p : Proc) : Decidable (FInvS p) := by unfold FInvS; infer_instance

theorem finvSB_iff (p : Proc) : finvSB p = true ↔ FInvS p := by
  unfold finvSB FInvS FInv
  exact Bool.and_eq_true_iff

/-- the process `init` leaves -/
def proc0 : Proc := { disk := disk0 }

theorem init_proc0 : Fault.init = some proc0 := init_eq
theorem proc0_fresh : Fresh proc0 := ⟨disk0_quiescentS, rfl⟩

/-! ### example 1: an append whose pwrite fails after every byte reached the file, between two appends that succeed -/

def opA : Op := .store 1 [7, 8] false
def opB : Op := .store 3 [9] false
def opC : Op := .store 3 [10] false

def histE1 : Hist := [(opA, true), (opB, false), (opC, true)]

/-- after `opA` (no fault) and `opB` (its pwrite fails, the whole batch is in the file beyond the writer's offset) -/
def procE1b : Proc := (runOp (runOp proc0 opA none .nothing).1 opB (some 0) .whole).1
/-- … and after `opC` (no fault), which goes over what `opB` left -/
def procE1 : Proc := (runOp procE1b opC none .nothing).1

theorem epochE1b : Epoch proc0 [(opA, true), (opB, false)] procE1b := by
  have e0 : Epoch proc0 [] proc0 := Epoch.start
  have e1 := Epoch.call [] proc0 opA none .nothing e0 (by decide)
  have e2 := Epoch.call _ _ opB (some 0) .whole e1 (by decide)
  exact e2

theorem epochE1 : Epoch proc0 histE1 procE1 :=
  Epoch.call _ _ opC none .nothing epochE1b (by decide)

/-- three calls from `init`, the second fails: readers never see it, the invariant holds, the disk agrees with readers -/
theorem example_epoch_fail :
    ∃ p0 p, Fault.init = some p0 ∧ Fresh p0 ∧ Epoch p0 histE1 p ∧ histE1.length = 3 ∧ (opB, false) ∈ histE1 ∧
      FInvS p ∧ view p = [(1, 7), (2, 8), (3, 10)] ∧ view p = replay (view p0) histE1 ∧
      absLog p.disk = [(1, 7), (2, 8), (3, 10)] :=
  ⟨proc0, procE1, init_proc0, proc0_fresh, epochE1, rfl, by decide, by decide, by decide, by decide, by decide⟩

/-- right after the failed call readers see the log without it, the disk stands for the log WITH it (a restart finds
    the batch whole: the failed call is applied in full — the second disjunct of `call_disklog_stmt`) -/
theorem example_failed_call_applied :
    FInvS procE1b ∧ view procE1b = [(1, 7), (2, 8)] ∧ absLog procE1b.disk = [(1, 7), (2, 8), (3, 9)] ∧
    ∃ p', restart procE1b = some p' ∧ view p' = [(1, 7), (2, 8), (3, 9)] ∧
      view p' = replay (view proc0) [(opA, true), (opB, true)] ∧
      Resolves [(opA, true), (opB, false)] [(opA, true), (opB, true)] := by
  refine ⟨by decide, by decide, by decide, (restart procE1b).get (by decide), by simp, ?_, ?_,
    resolves_snoc (resolves_refl [(opA, true)]) opB (fun _ => rfl)⟩ <;> decide

/-- the same failed pwrite leaving nothing (or garbage): the call is not applied -/
theorem example_failed_call_dropped :
    ∀ wf, wf = .nothing ∨ wf = .garbage →
      (runOp (runOp proc0 opA none .nothing).1 opB (some 0) wf).2 = false ∧
      absLog (runOp (runOp proc0 opA none .nothing).1 opB (some 0) wf).1.disk = [(1, 7), (2, 8)] := by
  intro wf h
  rcases h with rfl | rfl <;> decide

/-! ### example 2: the background rotation's Create fails after its commit: the process stops accepting writes -/

def opS : Op := .store 1 [7] true
def opT : Op := .store 2 [8] false
def opU : Op := .set 1 1

def histE2 : Hist := [(opS, true), (opT, false), (opU, true)]

def procE2a : Proc := (runOp proc0 opS (some 3) .nothing).1
def procE2 : Proc := (runOp (runOp procE2a opT none .nothing).1 opU none .nothing).1

theorem epochE2 : Epoch proc0 histE2 procE2 := by
  have e0 : Epoch proc0 [] proc0 := Epoch.start
  have e1 := Epoch.call [] proc0 opS (some 3) .nothing e0 (by decide)
  have e2 := Epoch.call _ _ opT none .nothing e1 (by decide)
  have e3 := Epoch.call _ _ opU none .nothing e2 (by decide)
  exact e3

/-- a sealing append returns nil, its rotation commits and then cannot create the next tail: the process is stopped
    (`frozen`), refuses the next append, still serves reads and the stable store, and a restart recovers everything -/
theorem example_epoch_stopped :
    Epoch proc0 histE2 procE2 ∧ procE2.frozen.isSome = true ∧ FInvS procE2 ∧ view procE2 = [(1, 7)] ∧
    view procE2 = replay (view proc0) histE2 ∧
    ∃ p', restart procE2 = some p' ∧ view p' = [(1, 7)] ∧ p'.frozen = none ∧ FInvS p' := by
  refine ⟨epochE2, by decide, by decide, by decide, by decide, (restart procE2).get (by decide), by simp, ?_, ?_, ?_⟩ <;>
    decide

end RaftWal.Fault.E
