/-
  Proofs/VerifierDecide.lean — the conditions on which the verifier's verdicts and bookkeeping hinge, translated from
  verifier/verifier.go and verifier/store.go on every run (Generated/VerifierDecide.lean), are the conditions of
  Model/Verifier.lean, for all arguments.
-/
import RaftWal.Generated.VerifierDecide
import RaftWal.Model.Verifier
namespace RaftWal.Verifier

/-- `Node.deleteRange` resets the running sum exactly when the code does -/
theorem delete_resets_eq_source (n : Node) (mx : Nat) :
    (n.sumStartIdx ≠ 0 ∧ mx ≥ n.sumStartIdx) ↔ Generated.verifierDeleteResetsSum n.sumStartIdx mx = true := by
  unfold Generated.verifierDeleteResetsSum
  simp only [Bool.or_eq_true, Bool.and_eq_true, decide_eq_true_eq, Bool.not_eq_true', decide_eq_false_iff_not]
  all_goals omega

/-- `Node.verify` blames in-flight corruption exactly when the code does -/
theorem inflight_blame_eq_source (r : Report) :
    (r.written ≠ 0 ∧ r.written ≠ r.expected) ↔
      Generated.verifyBlamesInFlight r.written.toNat r.expected.toNat = true := by
  unfold Generated.verifyBlamesInFlight
  have h0 : r.written ≠ 0 ↔ r.written.toNat ≠ 0 := by
    constructor
    · intro h hc; exact h (UInt64.toNat_inj.mp (by simpa using hc))
    · intro h hc; exact h (by rw [hc]; rfl)
  have h1 : r.written ≠ r.expected ↔ r.written.toNat ≠ r.expected.toNat := by
    constructor
    · intro h hc; exact h (UInt64.toNat_inj.mp hc)
    · intro h hc; exact h (by rw [hc])
  simp only [Bool.or_eq_true, Bool.and_eq_true, decide_eq_true_eq, Bool.not_eq_true', decide_eq_false_iff_not, h0, h1]
  all_goals omega

/-- `Node.verify` answers ErrRangeMismatch exactly when the code does -/
theorem range_mismatch_eq_source (n : Node) (r : Report) :
    (n.store.firstIndex > r.start) ↔ Generated.verifyRangeMismatch n.store.firstIndex r.start = true := by
  unfold Generated.verifyRangeMismatch
  simp only [Bool.or_eq_true, Bool.and_eq_true, decide_eq_true_eq, Bool.not_eq_true', decide_eq_false_iff_not]
  all_goals omega

/-- `Node.take` names a skipped range exactly when the code does -/
theorem skipped_range_eq_source (n : Node) (r : Report) :
    (n.lastCP > 0 ∧ n.lastCP ≠ r.start) ↔ Generated.verifierNamesSkippedRange n.lastCP r.start = true := by
  unfold Generated.verifierNamesSkippedRange
  simp only [Bool.or_eq_true, Bool.and_eq_true, decide_eq_true_eq, Bool.not_eq_true', decide_eq_false_iff_not]
  all_goals omega

/-- `updateVerifyState` voids the follower's written sum exactly when the code does -/
theorem written_void_eq_source (cpStart startIdx : Nat) :
    (cpStart ≠ startIdx) ↔ Generated.followerSumNotComparable cpStart startIdx = true := by
  unfold Generated.followerSumNotComparable
  simp only [Bool.or_eq_true, Bool.and_eq_true, decide_eq_true_eq, Bool.not_eq_true', decide_eq_false_iff_not]
  all_goals omega

end RaftWal.Verifier
