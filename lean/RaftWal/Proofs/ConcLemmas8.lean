/-
  Proofs/ConcLemmas8.lean — consequences of the global invariant used by the theorems of ConcProps.lean.
-/
import RaftWal.Proofs.ConcLemmas6
import RaftWal.Proofs.ConcLemmas7
namespace RaftWal.Conc

theorem isOpen_iff (s : Sys) (f : FileId) : s.isOpen f = true ↔ f ∉ s.closedFiles := by
  simp [Sys.isOpen]

theorem isOpen_false_iff (s : Sys) (f : FileId) : s.isOpen f = false ↔ f ∈ s.closedFiles := by
  simp [Sys.isOpen]

/-- a closed file is not referenced by the current state -/
theorem Inv.closed_not_cur {s : Sys} (h : Inv s) (f : FileId) (hf : f ∈ s.closedFiles) :
    f ∉ (s.obj s.cur).files := by
  intro hcur
  obtain ⟨k, hk1, hk2, hk3⟩ := h.cl_sound f hf
  have hlt := succ_lt_of_fin_ne h.toOInv (k := k) (by rw [hk1]; simp)
  have := h.cur_last
  exact hk3 (h.convex k (k + 1) s.cur f (by omega) (by omega) hk2 hcur)

theorem Inv.cur_open {s : Sys} (h : Inv s) : ∀ f ∈ (s.obj s.cur).files, s.isOpen f = true := by
  intro f hf
  rw [isOpen_iff]
  exact fun hc => h.closed_not_cur f hc hf

/-- what a reader that holds `sid` observes -/
def readRes (cfg : Cfg) (s : Sys) (r : Reader) (sid : Nat) : RRes :=
  if (s.obj sid).empty then (if cfg.readersCheckEmpty then .errClosed else .panic)
  else if ¬ (s.obj sid).files.contains r.want then .notFound
  else if s.isOpen r.want then .ok
  else if s.closed then .errClosed
  else .errFile

theorem stepReader_acquired (cfg : Cfg) (s : Sys) (i : Nat) (r : Reader) (hr : s.readers[i]? = some r) (sid : Nat)
    (hpc : r.pc = .acquired sid) :
    ((stepReader cfg s i).readers[i]?.map (·.pc)) = some (.finished sid (readRes cfg s r sid)) := by
  have hi : i < s.readers.length := by
    rcases List.getElem?_eq_some_iff.1 hr with ⟨hi, _⟩
    exact hi
  unfold stepReader
  simp only [hr, hpc]
  rw [List.getElem?_set_self hi]
  rfl

theorem stepReader_start_closed (cfg : Cfg) (s : Sys) (i : Nat) (r : Reader) (hr : s.readers[i]? = some r)
    (hpc : r.pc = .start) (hcl : s.closed = true) :
    ((stepReader cfg s i).readers[i]?.map (·.pc)) = some (.done .errClosed) := by
  have hi : i < s.readers.length := by
    rcases List.getElem?_eq_some_iff.1 hr with ⟨hi, _⟩
    exact hi
  unfold stepReader
  simp only [hr, hpc, hcl, if_true]
  rw [List.getElem?_set_self hi]
  rfl

theorem Inv.err_removed {s : Sys} (h : Inv s) (cfg : Cfg) (r : Reader) (sid : Nat)
    (hres : readRes cfg s r sid = .errFile) : r.want ∉ (s.obj s.cur).files := by
  unfold readRes at hres
  have hno : s.isOpen r.want = false := by
    cases ho : s.isOpen r.want
    · rfl
    · rw [ho] at hres
      repeat' split at hres
      all_goals simp_all
  rw [isOpen_false_iff] at hno
  exact h.closed_not_cur _ hno

theorem Inv.read_ok {s : Sys} (h : Inv s) (cfg : Cfg) (r : Reader) (sid : Nat)
    (hin : r.want ∈ (s.obj sid).files) (hempty : (s.obj sid).empty = false)
    (hcur : r.want ∈ (s.obj s.cur).files) : readRes cfg s r sid = .ok := by
  unfold readRes
  have := h.cur_open _ hcur
  simp [hempty, hin, this]

theorem Inv.all_closed {s : Sys} (h : Inv s) (hc : s.cpc = .done) (hw : s.wpc = .idle)
    (hr : ∀ r ∈ s.readers, ∃ res, r.pc = .done res) :
    ∀ sid, sid < s.objs.length → ∀ f ∈ (s.obj sid).files, s.isOpen f = false := by
  have hcl := h.cur_last
  have hhold : ∀ k, holders' s k = 0 := by
    intro k
    have : rHolders s.readers k = 0 := by
      unfold rHolders
      rw [List.length_eq_zero_iff, List.filter_eq_nil_iff]
      intro r hrm
      obtain ⟨res, hres⟩ := hr r hrm
      simp [hres, holdsR]
    simp [holders', this, hc, hw, wHolds, cHolds]
  have htaken : ∀ k, k + 1 < s.objs.length → (s.obj k).fin = .taken := by
    intro k hk
    cases hf : (s.obj k).fin with
    | unset =>
      rcases h.fin_unset k hk hf with h1 | h1
      · rw [hw] at h1; simp at h1
      · rw [hc] at h1; simp at h1
    | set c =>
      have := (h.fin_set k c hf).2
      rw [h.rc k, hhold k] at this
      omega
    | taken => rfl
  have hemp : (s.obj s.cur).files = [] := h.c_empty (by rw [hc]; rfl)
  have key : ∀ d k f, k + d = s.cur → f ∈ (s.obj k).files → f ∈ s.closedFiles := by
    intro d
    induction d with
    | zero =>
      intro k f hk hf
      have : k = s.cur := by omega
      rw [this, hemp] at hf
      simp at hf
    | succ d ih =>
      intro k f hk hf
      by_cases hn : f ∈ (s.obj (k + 1)).files
      · exact ih (k + 1) f (by omega) hn
      · exact h.cl_compl k (htaken k (by omega)) f hf hn
  intro sid hsid f hf
  rw [isOpen_false_iff]
  exact key (s.cur - sid) sid f (by omega) hf

end RaftWal.Conc
