/-
  Proofs/CrashLemmas25.lean — the stable store: only `Set` changes it (no invariant needed).
-/
import RaftWal.Proofs.CrashLemmas24
namespace RaftWal.Crash

/-- every commit in the list keeps the stable store `s` -/
def StableActs (s : List (Nat × Nat)) (as : List Act) : Prop := ∀ a ∈ as, ∀ m, a = .commit m → m.stable = s

theorem StableActs.nil (s) : StableActs s [] := by intro a ha; simp at ha
theorem StableActs.append {s} {as bs : List Act} (h1 : StableActs s as) (h2 : StableActs s bs) :
    StableActs s (as ++ bs) := by
  intro a ha
  rcases List.mem_append.1 ha with h | h
  · exact h1 a h
  · exact h2 a h
theorem StableActs.take {s} {as : List Act} (h : StableActs s as) (k : Nat) : StableActs s (as.take k) :=
  fun a ha => h a (List.mem_of_mem_take ha)
theorem StableActs.deletes (s) {α : Type} (l : List α) (g : α → Nat) : StableActs s (l.map (fun x => .delete (g x))) := by
  intro a ha m hm
  obtain ⟨x, _, rfl⟩ := List.mem_map.1 ha
  cases hm
theorem StableActs.newTail (m : Meta) (segs : List Seg) (b : Nat) : StableActs m.stable (newTailActs m segs b) := by
  intro a ha m' hm
  simp only [newTailActs, List.mem_cons, List.not_mem_nil, or_false] at ha
  rcases ha with rfl | rfl
  · cases hm; rfl
  · cases hm
theorem StableActs.of_nocommit {s} {as : List Act} (h : ∀ a ∈ as, ∀ m, a ≠ .commit m) : StableActs s as :=
  fun a ha m hm => absurd hm (h a ha m)

theorem apply_stable {d : Disk} {a : Act} {s : List (Nat × Nat)} (h : ∀ m, a = .commit m → m.stable = s)
    (hd : d.md.stable = s) : (d.apply a).md.stable = s := by
  cases a with
  | commit m => exact h m rfl
  | write id es sl => exact hd
  | fsync id => exact hd
  | delete id => exact hd
  | ack => exact hd
  | create id b => rw [apply_create_md]; exact hd

theorem applyAll_stable {s : List (Nat × Nat)} (as : List Act) {d : Disk} (h : StableActs s as)
    (hd : d.md.stable = s) : (d.applyAll as).md.stable = s := by
  induction as generalizing d with
  | nil => exact hd
  | cons a as ih =>
    rw [applyAll_cons]
    exact ih (fun b hb => h b (by simp [hb])) (apply_stable (h a (by simp)) hd)

theorem StableActs.orphans (s) (d : Disk) (m : Meta) : StableActs s (orphanDeletes d m) :=
  StableActs.deletes s _ _

theorem openProg_stable {d : Disk} {as : List Act} (h : openProg d = some as) : StableActs d.md.stable as := by
  unfold openProg at h
  simp only at h
  split at h
  · cases h
  · split at h
    · cases h
    · split at h
      · cases h
        exact (StableActs.newTail _ _ _).append (StableActs.orphans _ _ _)
      · split at h
        · cases h
          exact (StableActs.newTail _ _ _).append (StableActs.orphans _ _ _)
        · split at h
          · cases h
            exact (StableActs.of_nocommit (by simp)).append (StableActs.orphans _ _ _)
          · have hrec : ∀ (f : File), StableActs d.md.stable
                (if (f.content.isEmpty && !f.isSealed) = true then [] else [Act.fsync f.id]) := by
              intro f; split
              · exact StableActs.nil _
              · exact StableActs.of_nocommit (by simp)
            split at h
            · cases h
              exact ((hrec _).append (StableActs.newTail _ _ _)).append (StableActs.orphans _ _ _)
            · cases h
              exact (hrec _).append (StableActs.orphans _ _ _)

theorem crashAfter_stable {d : Disk} {as : List Act} (h : StableActs d.md.stable as) (k : Nat) (c : CrashKind) :
    (crashAfter d as k c).md.stable = d.md.stable := by
  unfold crashAfter
  rw [crash_md]
  exact applyAll_stable _ (h.take k) rfl

theorem reach_stable {d0 d1 : Disk} (hr : ReachRec d0 d1) : d1.md.stable = d0.md.stable := by
  induction hr with
  | refl d => rfl
  | step d as k c d2 ho _ ih => rw [ih]; exact crashAfter_stable (openProg_stable ho) k c

theorem openResult_stable {d d' : Disk} (h : openResult d = some d') : d'.md.stable = d.md.stable := by
  unfold openResult at h
  cases ho : openProg d with
  | none => rw [ho] at h; cases h
  | some as =>
    rw [ho] at h
    simp only [Option.map_some, Option.some.injEq] at h
    subst h
    exact applyAll_stable _ (openProg_stable ho) rfl

/-! ### the calls other than Set keep the stable store -/

theorem rotateActs_stable (d : Disk) : StableActs d.md.stable (rotateActs d) := by
  unfold rotateActs
  split
  · exact StableActs.nil _
  · split
    · exact StableActs.nil _
    · exact StableActs.newTail _ _ _

theorem storeProg_stable (d : Disk) (first : Nat) (es : List Entry) (sl : Bool) :
    StableActs d.md.stable (storeProg d first es sl) := by
  have hreset : StableActs d.md.stable (resetActs d first).1 ∧ ∀ a ∈ (resetActs d first).2, ∀ m, a ≠ .commit m := by
    unfold resetActs
    split
    · exact ⟨StableActs.nil _, by simp⟩
    · split
      · exact ⟨StableActs.newTail _ _ _, by simp⟩
      · exact ⟨StableActs.nil _, by simp⟩
  unfold storeProg
  generalize resetActs d first = r at hreset
  obtain ⟨a1, del⟩ := r
  simp only at hreset ⊢
  have hd1 : (d.applyAll a1).md.stable = d.md.stable := applyAll_stable _ hreset.1 rfl
  split
  · exact hreset.1
  · rename_i t _
    have ha2 : StableActs d.md.stable ([Act.write t.id es sl, Act.fsync t.id] ++ del ++ [Act.ack]) := by
      apply StableActs.of_nocommit
      intro a ha m
      simp only [List.cons_append, List.nil_append, List.mem_cons, List.mem_append, List.not_mem_nil, or_false] at ha
      rcases ha with rfl | rfl | ha | rfl
      · simp
      · simp
      · exact hreset.2 a ha m
      · simp
    refine (hreset.1.append ha2).append ?_
    split
    · have := rotateActs_stable ((d.applyAll a1).applyAll ([Act.write t.id es sl, Act.fsync t.id] ++ del ++ [Act.ack]))
      rw [applyAll_stable _ ha2 hd1] at this
      exact this
    · exact StableActs.nil _

theorem delHeadProg_stable (d : Disk) (newMin : Nat) : StableActs d.md.stable (delHeadProg d newMin) := by
  rw [delHeadProg_eq]
  split
  · exact ((StableActs.newTail _ _ _).append (StableActs.deletes _ _ _)).append (StableActs.of_nocommit (by simp))
  · refine (StableActs.append ?_ (StableActs.deletes _ _ _)).append (StableActs.of_nocommit (by simp))
    intro a ha m hm
    simp only [List.mem_cons, List.not_mem_nil, or_false] at ha
    subst ha; cases hm; rfl

theorem delTailProg_stable (d : Disk) (newMax : Nat) : StableActs d.md.stable (delTailProg d newMax) := by
  rw [delTailProg_eq]
  split
  · exact StableActs.nil _
  · refine (((StableActs.append ?_ (StableActs.newTail _ _ _))).append (StableActs.deletes _ _ _)).append
      (StableActs.of_nocommit (by simp))
    split
    · exact StableActs.nil _
    · exact StableActs.of_nocommit (by simp)

theorem set_stable (d : Disk) (m : Meta) (k : Nat) :
    ((d.applyAll ([Act.commit m, Act.ack].take k)).md.stable = d.md.stable ∨
      (d.applyAll ([Act.commit m, Act.ack].take k)).md.stable = (d.applyAll [Act.commit m, Act.ack]).md.stable) ∧
    (ackPos [Act.commit m, Act.ack] < k →
      (d.applyAll ([Act.commit m, Act.ack].take k)).md.stable = (d.applyAll [Act.commit m, Act.ack]).md.stable) := by
  have hb : (Act.commit m == Act.ack) = false := by
    simp
  have hack : ackPos [Act.commit m, Act.ack] = 1 := by
    simp [ackPos, List.findIdx_cons, hb]
  rw [hack]
  rcases k with _ | _ | k
  · exact ⟨Or.inl rfl, by omega⟩
  · exact ⟨Or.inr rfl, by omega⟩
  · exact ⟨Or.inr (by simp), fun _ => by simp⟩

/-- the stable store along a call, at any cut -/
theorem prog_stable (d : Disk) (op : Op) (k : Nat) :
    ((d.applyAll ((prog d op).take k)).md.stable = d.md.stable ∨
      (d.applyAll ((prog d op).take k)).md.stable = (d.applyAll (prog d op)).md.stable) ∧
    (ackPos (prog d op) < k →
      (d.applyAll ((prog d op).take k)).md.stable = (d.applyAll (prog d op)).md.stable) := by
  have key : ∀ as, StableActs d.md.stable as →
      ((d.applyAll (as.take k)).md.stable = d.md.stable ∨
        (d.applyAll (as.take k)).md.stable = (d.applyAll as).md.stable) ∧
      (ackPos as < k → (d.applyAll (as.take k)).md.stable = (d.applyAll as).md.stable) := by
    intro as h
    have h1 := applyAll_stable (d := d) _ (h.take k) rfl
    have h2 := applyAll_stable (d := d) _ h rfl
    exact ⟨Or.inl h1, fun _ => h1.trans h2.symm⟩
  cases op with
  | store first es sl => exact key _ (storeProg_stable d first es sl)
  | delHead newMin => exact key _ (delHeadProg_stable d newMin)
  | delTail newMax => exact key _ (delTailProg_stable d newMax)
  | set k' v => exact set_stable d _ k

end RaftWal.Crash
