/-
  Proofs/WalInv2Lemmas2.lean — the state-independent transition facts `Tr w w'` (stable map untouched, ids fresh, directory invariant preserved) for the building blocks of `StoreLogs`
  (`resetBase`, `appendFile`, `rotate`) and for `StoreLogs` itself, plus what `StoreLogs` does to the
  counters.
-/
import RaftWal.Proofs.WalInv2Lemmas1
import RaftWal.Proofs.WalLemmas10
namespace RaftWal

/-- what every log call guarantees about the parts of the state the simulation relation ignores -/
structure Tr (w w' : Wal) : Prop where
  stable : w'.stable = w.stable
  ext : WExt w w'
  dir : DirEq w → DirEq w'

theorem Tr.refl (w : Wal) : Tr w w := ⟨rfl, WExt.refl w, id⟩

theorem Tr.trans {a b c : Wal} (h1 : Tr a b) (h2 : Tr b c) : Tr a c :=
  ⟨h2.stable.trans h1.stable, h1.ext.trans h2.ext, fun h => h2.dir (h1.dir h)⟩

/-- changes that touch neither the segment keys, the directory, `nextID`, the stable map nor `closed` -/
theorem Tr.of_same {w w' : Wal} (h1 : w'.stable = w.stable)
    (h3 : w'.nextID = w.nextID) (h4 : w'.keys = w.keys) (h5 : w'.files = w.files) : Tr w w' := by
  refine ⟨h1, ?_, ?_⟩
  · unfold WExt; rw [h3, h4]; exact Ext.refl _ _
  · intro h; unfold DirEq at h ⊢; rw [h3, h4, h5]; exact h

theorem createNext_tr {w w' : Wal} {nb : Nat} (h : w.createNext nb = some w') : Tr w w' :=
  ⟨(createNext_frame h).1, createNext_ext h, fun hd => createNext_dir h hd⟩

theorem rev_cons {α : Type} {l : List α} {a : α} {b : List α} (h : l.reverse = a :: b) : l = b.reverse ++ [a] := by
  have := congrArg List.reverse h
  simpa using this

/-- drop a middle part of the segment map, add a new tail, unlink the files of the dropped segments -/
theorem tr_drop_create {w w1 w2 : Wal} {del : List Nat} {nb : Nat} {A B C : List (Nat × Nat)}
    (hst : w1.stable = w.stable) (hn : w1.nextID = w.nextID)
    (hfiles : w1.files = w.files) (hk : w.keys = A ++ B ++ C) (hk1 : w1.keys = A ++ C)
    (hdel : ∀ x, x ∈ del ↔ x ∈ B.map (·.1)) (hcn : w1.createNext nb = some w2) :
    Tr w (w2.removeFiles del) := by
  have hf := createNext_frame hcn
  refine ⟨by rw [← hst, ← hf.1]; rfl, ?_, ?_⟩
  · have e1 : WExt w w1 := by
      unfold WExt; rw [hn, hk, hk1]
      apply Ext.sub
      intro k hk'
      rcases List.mem_append.mp hk' with h | h
      · simp [h]
      · simp [h]
    exact (e1.trans (createNext_ext hcn)).trans (WExt.refl _)
  · intro hd
    unfold DirEq at hd ⊢
    rw [hk] at hd
    have h1 := hd.drop hdel
    rw [← hk1, ← hn, ← hfiles, List.nil_append] at h1
    have h2 := (createNext_dir hcn h1).unlink
    rw [removeFiles_files]
    exact h2

/-- drop a middle part of the segment map and unlink its files -/
theorem tr_drop {w w1 : Wal} {del : List Nat} {A B C : List (Nat × Nat)}
    (hst : w1.stable = w.stable) (hn : w1.nextID = w.nextID)
    (hfiles : w1.files = w.files) (hk : w.keys = A ++ B ++ C) (hk1 : w1.keys = A ++ C)
    (hdel : ∀ x, x ∈ del ↔ x ∈ B.map (·.1)) :
    Tr w (w1.removeFiles del) := by
  refine ⟨hst, ?_, ?_⟩
  · have e1 : WExt w w1 := by
      unfold WExt; rw [hn, hk, hk1]
      apply Ext.sub
      intro k hk'
      rcases List.mem_append.mp hk' with h | h
      · simp [h]
      · simp [h]
    exact e1.trans (WExt.refl _)
  · intro hd
    unfold DirEq at hd ⊢
    rw [hk] at hd
    have h1 := hd.drop hdel
    rw [← hk1, ← hn, ← hfiles, List.nil_append] at h1
    rw [removeFiles_files]
    exact h1.unlink

theorem resetBase_tr {w w' : Wal} {nb : Nat} (h : w.resetBase nb = some w') : Tr w w' ∧ w'.ctr = w.ctr := by
  unfold Wal.resetBase at h
  split at h
  · cases h
  · split at h
    · exact ⟨createNext_tr h, (createNext_frame h).2.1⟩
    · rename_i t r before hrev
      have hsegs := rev_cons hrev
      split at h
      · cases h; exact ⟨Tr.refl _, rfl⟩
      · simp only at h
        cases hcn : Wal.createNext { w with segs := before.reverse } nb with
        | none => rw [hcn] at h; cases h
        | some w2 =>
          rw [hcn] at h
          simp only [Option.map_some, Option.some.injEq] at h
          subst h
          refine ⟨?_, (createNext_frame hcn).2.1⟩
          exact tr_drop_create (w := w) (w1 := { w with segs := before.reverse }) (del := [t.id])
            (A := before.reverse.map skey) (B := [skey (t, r)]) (C := []) rfl rfl rfl
            (by simp [Wal.keys, hsegs]) (by simp [Wal.keys]) (by simp [skey]) hcn

/-! ## the tail file -/

theorem appendFile_same {f f' : FileL} {sl : Nat} {logs : List Log} (h : appendFile f sl logs = .ok f') :
    f'.id = f.id ∧ f'.base = f.base := by
  unfold appendFile at h
  split at h
  · cases h
  · split at h
    · cases h
    · cases h; exact ⟨rfl, rfl⟩

theorem file?_mem {w : Wal} {id : Nat} {f : FileL} (h : w.file? id = some f) : f ∈ w.files :=
  List.mem_of_find?_eq_some h

theorem updFile_tr (w : Wal) {f f' : FileL} (ctr' : Counters) (hf : f ∈ w.files) (hid : f'.id = f.id)
    (hb : f'.base = f.base) : Tr w { w with files := updFile w.files f', ctr := ctr' } := by
  refine ⟨rfl, WExt.refl _, ?_⟩
  intro hd
  exact DirD.upd hd hf hid hb

theorem rotate_tr (w : Wal) (is : Nat) : Tr w (w.rotate is) ∧ (w.rotate is).ctr.totals = w.ctr.totals := by
  unfold Wal.rotate
  split
  · exact ⟨Tr.refl _, rfl⟩
  · rename_i t r before hrev
    have hsegs := rev_cons hrev
    simp only
    cases hcn : Wal.createNext { w with
        segs := before.reverse ++ [({ t with sealed := true, max := w.tailCommitIdx, indexStart := is }, r)],
        ctr := { w.ctr with rotations := w.ctr.rotations + 1 } } 0 with
    | none => exact ⟨Tr.refl _, rfl⟩
    | some w2 =>
      simp only [Option.getD_some]
      have h2 := createNext_tr hcn
      refine ⟨Tr.trans ?_ h2, ?_⟩
      · exact Tr.of_same rfl rfl (by simp [Wal.keys, hsegs, skey]) rfl
      · rw [(createNext_frame hcn).2.1]; rfl

/-! ## `StoreLogs` -/

/-- the totals after one successful append of `logs` -/
def Totals.app (t : Totals) (logs : List Log) : Totals :=
  { t with appends := t.appends + 1, entriesW := t.entriesW + logs.length, bytesW := t.bytesW + (logs.map encLen).sum }

theorem storeTail_tr' (w : Wal) (li : Nat) (logs : List Log) (res : Wal × Option Err)
    (h : storeTail w li logs = res) :
    Tr w res.1 ∧ res.1.ctr.totals = if res.2 = none then w.ctr.totals.app logs else w.ctr.totals := by
  unfold storeTail at h
  split at h
  · subst h; exact ⟨Tr.refl _, rfl⟩
  · split at h
    · subst h; exact ⟨Tr.refl _, rfl⟩
    · rename_i t r htl
      split at h
      · subst h; exact ⟨Tr.refl _, rfl⟩
      · rename_i f hf
        split at h
        · subst h; exact ⟨Tr.refl _, rfl⟩
        · rename_i f' hap
          obtain ⟨e1, e2⟩ := appendFile_same hap
          simp only at h
          subst h
          simp only [if_true]
          split
          · refine ⟨(updFile_tr w _ (file?_mem hf) e1 e2).trans (rotate_tr _ _).1, ?_⟩
            rw [(rotate_tr _ _).2]; rfl
          · exact ⟨updFile_tr w _ (file?_mem hf) e1 e2, rfl⟩

theorem storeTail_tr (w : Wal) (li : Nat) (logs : List Log) :
    Tr w (storeTail w li logs).1 ∧
    (storeTail w li logs).1.ctr.totals =
      if (storeTail w li logs).2 = none then w.ctr.totals.app logs else w.ctr.totals :=
  storeTail_tr' w li logs _ rfl

theorem storeLogs_tr (w : Wal) (logs : List Log) :
    Tr w (w.storeLogs logs).1 ∧
    (w.storeLogs logs).1.ctr.totals =
      if (w.storeLogs logs).2 = none ∧ logs ≠ [] then w.ctr.totals.app logs else w.ctr.totals := by
  cases logs with
  | nil =>
    have : w.storeLogs [] = (w, if w.closed then some .closed else none) := by
      unfold Wal.storeLogs; split <;> rfl
    rw [this]
    exact ⟨Tr.refl _, by simp⟩
  | cons first rest =>
    rw [storeLogs_eq]
    split
    · exact ⟨Tr.refl _, by simp⟩
    · split
      · exact ⟨Tr.refl _, by simp⟩
      · rename_i w' hw'
        have hpre : Tr w w' ∧ w'.ctr = w.ctr := by
          split at hw'
          · exact resetBase_tr hw'
          · cases hw'; exact ⟨Tr.refl _, rfl⟩
        obtain ⟨s1, s2⟩ := storeTail_tr w' w.lastIndex (first :: rest)
        refine ⟨hpre.1.trans s1, ?_⟩
        rw [s2, hpre.2]
        simp

end RaftWal
