/-
  Proofs/WalInv2Lemmas5.lean — C20: in a state related to the specification (`Sim w s`), one call moves
  the model's counters exactly as `specTotalsStep` moves the true totals (the two truncation counters
  are uint64 in the code, hence compared modulo 2^64: `Totals.wrap`).
-/
import RaftWal.Proofs.WalInv2Lemmas4
namespace RaftWal

/-- the truncation counters are uint64 in the code -/
def Totals.wrap (t : Totals) : Totals := { t with head := u64 t.head, tail := u64 t.tail }

theorem u64_u64_add (a b : Nat) : u64 (u64 a + b) = u64 (a + b) := by
  simp only [u64]; omega

theorem u64_u64 (a : Nat) : u64 (u64 a) = u64 a := by
  simp only [u64]; omega

theorem optAns_ok {e : Option Err} : optAns e = .ok ↔ e = none := by
  cases e with
  | none => simp [optAns]
  | some e => cases e <;> simp [optAns, Err.ans]

theorem sOptAns_ok {e : Option Spec.SErr} : sOptAns e = .ok ↔ e = none := by
  cases e with
  | none => simp [sOptAns]
  | some e => cases e <;> simp [sOptAns, Spec.SErr.ans]

/-! ## `StoreLogs` -/

theorem specTotalsStep_store (s : Spec.SLog) (t : Totals) (logs : List Log) :
    (specTotalsStep s t (.log (.store logs))).2 =
      if (s.store logs).2 = none ∧ logs ≠ [] then t.app logs else t := by
  simp only [specTotalsStep]
  rcases s.store logs with ⟨s', e⟩
  cases e <;> cases logs <;> simp [Totals.app]

theorem ctr_store {w : Wal} {s : Spec.SLog} {t : Totals} (h : Sim w s) (hct : w.ctr.totals = t.wrap)
    (logs : List Log) (hr : ∀ l ∈ logs, l.index < 2^64 - 1) :
    (w.step (.store logs)).1.ctr.totals = (specTotalsStep s t (.log (.store logs))).2.wrap := by
  have ha := (sim_store h logs hr).1
  rw [step_store_eq, sstep_store_eq] at ha
  simp only at ha
  have hiff : (w.storeLogs logs).2 = none ↔ (s.store logs).2 = none := by
    rw [← optAns_ok, ha, sOptAns_ok]
  rw [step_store_eq, specTotalsStep_store]
  simp only
  rw [(storeLogs_tr w logs).2, hct]
  by_cases hc : (s.store logs).2 = none ∧ logs ≠ []
  · rw [if_pos hc, if_pos ⟨hiff.mpr hc.1, hc.2⟩]; rfl
  · rw [if_neg hc, if_neg (fun h' => hc ⟨hiff.mp h'.1, h'.2⟩)]

/-! ## `GetLog` -/

theorem getLog_ctr (w : Wal) (i : Nat) (hw : w.closed = false) :
    (w.getLog i).1.ctr.totals =
      match w.getLogRaw i with
      | .ok l => { w.ctr.totals with entriesR := w.ctr.totals.entriesR + 1, bytesR := w.ctr.totals.bytesR + encLen l }
      | .error _ => { w.ctr.totals with entriesR := w.ctr.totals.entriesR + 1 } := by
  unfold Wal.getLog
  rw [if_neg (by simp [hw])]
  simp only
  have e : Wal.getLogRaw { w with ctr := { w.ctr with entriesR := w.ctr.entriesR + 1 } } i = w.getLogRaw i :=
    getLogRaw_congr rfl rfl i
  rw [e]
  cases w.getLogRaw i <;> rfl

theorem ctr_get {w : Wal} {s : Spec.SLog} {t : Totals} (h : Sim w s) (hct : w.ctr.totals = t.wrap) (i : Nat) :
    (w.step (.get i)).1.ctr.totals = (specTotalsStep s t (.log (.get i))).2.wrap := by
  obtain ⟨F, hc, ht, hcl, hf⟩ := h
  simp only [Wal.step, specTotalsStep]
  cases hw : w.closed
  · rw [hw] at hcl
    rw [getLog_ctr w i hw, getLogRaw_eq hc ht i, spec_get_eq hcl hf i, hct]
    simp only [hcl, Bool.false_eq_true, if_false]
    cases look F s.entries i <;> rfl
  · rw [hw] at hcl
    simp only [Wal.getLog, hw, hcl, if_true]
    exact hct

/-! ## `DeleteRange` -/

theorem specTotalsStep_del (s : Spec.SLog) (t : Totals) (mn mx : Nat) :
    (specTotalsStep s t (.log (.del mn mx))).2 =
      if (s.delete mn mx).2.isSome ∨ s.entries.length - (s.delete mn mx).1.entries.length = 0 then t
      else if mn ≤ s.firstIndex then { t with head := t.head + (s.entries.length - (s.delete mn mx).1.entries.length) }
      else { t with tail := t.tail + (s.entries.length - (s.delete mn mx).1.entries.length) } := by
  simp only [specTotalsStep]

theorem ctr_del {w : Wal} {s : Spec.SLog} {t : Totals} (h : Sim w s) (hct : w.ctr.totals = t.wrap)
    (mn mx : Nat) (hmx : mx < 2^64) :
    (w.step (.del mn mx)).1.ctr.totals = (specTotalsStep s t (.log (.del mn mx))).2.wrap := by
  rw [step_del_eq, specTotalsStep_del]
  simp only
  obtain ⟨F, hc, ht, hcl, hf⟩ := h
  have hhead : w.ctr.headTrunc = u64 t.head := by
    have := congrArg Totals.head hct; exact this
  have htail : w.ctr.tailTrunc = u64 t.tail := by
    have := congrArg Totals.tail hct; exact this
  cases hwc : w.closed
  · have hscl : s.closed = false := by rw [hcl, hwc]
    unfold Wal.deleteRange Spec.SLog.delete
    simp only [hwc, hscl, Bool.false_eq_true, if_false]
    by_cases hgt : mn > mx
    · simp only [hgt, if_true, Option.isSome_none, Nat.sub_self, or_true]
      exact hct
    · simp only [hgt, if_false]
      have hfi := firstIndex_eq hc ht
      have hla := lastIndex_eq hc ht
      have hsfi := spec_firstIndex_eq hf
      have hsla := spec_lastIndex_eq hf
      have hF1 := F_pos hc
      have hbound := hc.bound
      by_cases hlen : s.entries.length = 0
      · -- empty log
        have hnil : s.entries = [] := List.eq_nil_of_length_eq_zero hlen
        rw [hfi, hla, hlen]
        simp only [if_true, hnil, List.isEmpty_nil, true_or, Nat.not_lt_zero, false_or, List.length_nil,
          Nat.sub_self, or_true]
        by_cases hmn : mn > 0
        · simp only [hmn, if_true]
          exact hct
        · have hmn0 : mn = 0 := by omega
          subst hmn0
          simp only [Nat.lt_irrefl, if_false, Nat.le_refl, if_true]
          rw [(truncateHead_tr w _).2]
          unfold headBump
          rw [hfi, hla, hlen]
          simp only [if_true, headRemoved, Nat.lt_irrefl, false_and, if_false, Nat.add_zero]
          rw [hhead, u64_u64, hct]
          rfl
      · -- non-empty log
        have hne : s.entries ≠ [] := by intro h0; rw [h0] at hlen; exact hlen rfl
        have hsf : s.first = F := hf hne
        have hemp : s.entries.isEmpty = false := by
          cases he : s.entries with
          | nil => exact absurd he hne
          | cons a l => rfl
        rw [hfi, hla, hsfi, hsla]
        simp only [hlen, if_false, hemp, Bool.false_eq_true, false_or]
        by_cases hout : mx < F ∨ mn > F + s.entries.length - 1
        · simp only [hout, if_true, Option.isSome_none, Nat.sub_self, or_true]
          exact hct
        · simp only [hout, if_false]
          by_cases hhd : mn ≤ F
          · simp only [hhd, if_true, Option.isSome_none, Bool.false_eq_true, false_or, List.length_drop]
            have hNm : Nat.min mx (F + s.entries.length - 1) = min mx (F + s.entries.length - 1) := rfl
            rw [hNm, u64_of_lt (by omega)]
            rw [(truncateHead_tr w _).2]
            unfold headBump
            rw [hfi, hla, if_neg hlen, if_neg hlen, hsf]
            have hrem : headRemoved F (F + s.entries.length - 1) (min mx (F + s.entries.length - 1) + 1) =
                s.entries.length - (s.entries.length - (mx + 1 - F)) := by
              unfold headRemoved
              have hNm2 : ∀ a b, Nat.min a b = min a b := fun _ _ => rfl
              rw [if_pos (by omega), hNm2]
              omega
            have hnz : ¬ s.entries.length - (s.entries.length - (mx + 1 - F)) = 0 := by omega
            rw [if_neg hnz, hrem, hhead, u64_u64_add, hct]
            simp only [Totals.wrap]
          · simp only [hhd, if_false]
            by_cases htl : mx ≥ F + s.entries.length - 1
            · simp only [htl, if_true, Option.isSome_none, Bool.false_eq_true, false_or, List.length_take]
              have hnone := (truncateTail_sim w (mn - 1) hc ht (by omega) (by omega)).1
              rw [(truncateTail_tr w _).2 hnone]
              unfold tailBump
              rw [hla, if_neg hlen, hsf]
              have hnz : ¬ s.entries.length - min (mn - F) s.entries.length = 0 := by omega
              rw [if_neg hnz, if_pos (by omega), htail, u64_u64_add, hct]
              have : F + s.entries.length - 1 - (mn - 1) = s.entries.length - min (mn - F) s.entries.length := by
                omega
              rw [this]
              simp only [Totals.wrap]
            · simp only [htl, if_false, Option.isSome_some, true_or, if_true]
              exact hct
  · have hscl : s.closed = true := by rw [hcl, hwc]
    have e1 : w.deleteRange mn mx = (w, some .closed) := by simp [Wal.deleteRange, hwc]
    have e2 : s.delete mn mx = (s, some .closed) := by simp [Spec.SLog.delete, hscl]
    rw [e1, e2]
    simp only [Option.isSome_some, true_or, if_true]
    exact hct

end RaftWal
