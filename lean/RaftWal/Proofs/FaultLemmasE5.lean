/-
  Proofs/FaultLemmasE5.lean — the history theorems (`epoch_inv_stmt`, `epoch_view_stmt`, `epoch_restart_stmt`) derived
  from the per-call and restart statements; `replay` / `Resolves` lemmas.
-/
import RaftWal.Proofs.FaultLemmasE4
namespace RaftWal.Fault.E
open RaftWal.Crash

/-! ### `replay` -/

@[simp] theorem replay_nil (l : List (Nat × Entry)) : replay l [] = l := rfl

theorem replay_cons (l : List (Nat × Entry)) (op : Op) (b : Bool) (h : Hist) :
    replay l ((op, b) :: h) = replay (if b then specApply l op else l) h := by
  cases b <;> rfl

theorem replay_append (l : List (Nat × Entry)) (h1 h2 : Hist) : replay l (h1 ++ h2) = replay (replay l h1) h2 := by
  induction h1 generalizing l with
  | nil => rfl
  | cons a h1 ih =>
    obtain ⟨op, b⟩ := a
    cases b
    · exact ih l
    · exact ih (specApply l op)

theorem replay_snoc (l : List (Nat × Entry)) (h : Hist) (op : Op) (b : Bool) :
    replay l (h ++ [(op, b)]) = if b then specApply (replay l h) op else replay l h := by
  rw [replay_append]
  cases b <;> rfl

/-! ### `Resolves` -/

theorem resolves_refl (h : Hist) : Resolves h h := by
  induction h with
  | nil => trivial
  | cons a h ih =>
    obtain ⟨op, b⟩ := a
    exact ⟨rfl, id, ih⟩

theorem resolves_append {h1 c1 h2 c2 : Hist} (r1 : Resolves h1 c1) (r2 : Resolves h2 c2) :
    Resolves (h1 ++ h2) (c1 ++ c2) := by
  induction h1 generalizing c1 with
  | nil =>
    cases c1 with
    | nil => exact r2
    | cons _ _ => exact r1.elim
  | cons a h1 ih =>
    obtain ⟨op, ok⟩ := a
    cases c1 with
    | nil => exact r1.elim
    | cons b c1 =>
      obtain ⟨op', b'⟩ := b
      exact ⟨r1.1, r1.2.1, ih r1.2.2⟩

theorem resolves_single (op : Op) {ok b : Bool} (h : ok = true → b = true) : Resolves [(op, ok)] [(op, b)] :=
  ⟨rfl, h, trivial⟩

theorem resolves_snoc {h c : Hist} (r : Resolves h c) (op : Op) {ok b : Bool} (hb : ok = true → b = true) :
    Resolves (h ++ [(op, ok)]) (c ++ [(op, b)]) :=
  resolves_append r (resolves_single op hb)

theorem resolves_length {h c : Hist} (r : Resolves h c) : h.length = c.length := by
  induction h generalizing c with
  | nil =>
    cases c with
    | nil => rfl
    | cons _ _ => exact r.elim
  | cons a h ih =>
    obtain ⟨op, ok⟩ := a
    cases c with
    | nil => exact r.elim
    | cons b c =>
      obtain ⟨op', b'⟩ := b
      simp only [List.length_cons]
      rw [ih r.2.2]

/-! ### the history theorems from the per-call ones -/

theorem epoch_inv_of (h1 : fresh_inv_stmt) (h2 : finv_call_stmt) : epoch_inv_stmt := by
  intro p0 h p hp he
  induction he with
  | start => exact h1 p0 hp
  | call h p op pl _ hok ih => exact h2 p ih op hok pl

theorem epoch_view_of (h1 : fresh_inv_stmt) (h2 : finv_call_stmt) (h3 : call_view_stmt) : epoch_view_stmt := by
  intro p0 h p hp he
  induction he with
  | start => rfl
  | call h p op pl he hok ih =>
    rw [h3 p (epoch_inv_of h1 h2 p0 h p hp he).1 op hok pl, replay_snoc, ih]

/-- what is carried along an epoch: the invariant, what readers see, and a resolution of the history that gives the
    log the disk stands for -/
theorem epoch_disklog_of (h1 : fresh_inv_stmt) (h2 : finv_call_stmt) (h3 : call_view_stmt) (h4 : call_disklog_stmt)
    (h7 : fresh_view_stmt) :
    ∀ p0 h p, Fresh p0 → Epoch p0 h p →
      FInvS p ∧ view p = replay (view p0) h ∧ ∃ c, Resolves h c ∧ absLog p.disk = replay (view p0) c := by
  intro p0 h p hp he
  induction he with
  | start => exact ⟨h1 p0 hp, rfl, [], trivial, (h7 p0 hp).symm⟩
  | call h p op pl he hok ih =>
    obtain ⟨hi, hv, c, hr, hc⟩ := ih
    have hv' : view (runOp p op pl).1 = replay (view p0) (h ++ [(op, (runOp p op pl).2)]) := by
      rw [h3 p hi.1 op hok pl, replay_snoc, hv]
    refine ⟨h2 p hi op hok pl, hv', ?_⟩
    rcases h4 p hi.1 op hok pl with hd | ⟨hb, hd⟩ | hd
    · exact ⟨_, resolves_refl _, by rw [hd, hv']⟩
    · refine ⟨h ++ [(op, true)], resolves_snoc (resolves_refl h) op (fun _ => rfl), ?_⟩
      rw [hd, replay_snoc, hv]; rfl
    · refine ⟨c ++ [(op, (runOp p op pl).2)], resolves_snoc hr op id, ?_⟩
      rw [hd, replay_snoc, hc]

theorem epoch_restart_of (h1 : fresh_inv_stmt) (h2 : finv_call_stmt) (h3 : call_view_stmt) (h4 : call_disklog_stmt)
    (h5 : restart_total_stmt) (h6 : restart_view_stmt) (h7 : fresh_view_stmt) : epoch_restart_stmt := by
  intro p0 h p hp he
  obtain ⟨hi, _, c, hr, hc⟩ := epoch_disklog_of h1 h2 h3 h4 h7 p0 h p hp he
  obtain ⟨p', hre, hf⟩ := h5 p hi
  exact ⟨p', hre, hf, c, hr, by rw [h6 p hi p' hre, hc]⟩

/-- the two statements of this development that are proved here can be dropped from the hypotheses -/
theorem epoch_inv_of' (h2 : finv_call_stmt) : epoch_inv_stmt := epoch_inv_of fresh_inv h2
theorem epoch_view_of' (h2 : finv_call_stmt) (h3 : call_view_stmt) : epoch_view_stmt := epoch_view_of fresh_inv h2 h3
theorem epoch_restart_of' (h2 : finv_call_stmt) (h3 : call_view_stmt) (h4 : call_disklog_stmt)
    (h5 : restart_total_stmt) (h6 : restart_view_stmt) : epoch_restart_stmt :=
  epoch_restart_of fresh_inv h2 h3 h4 h5 h6 fresh_view

end RaftWal.Fault.E
