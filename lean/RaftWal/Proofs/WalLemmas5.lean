/-
  Proofs/WalLemmas5.lean — invariant under appending to the tail file, sealing the tail, unlinking files.
-/
import RaftWal.Proofs.WalLemmas4
namespace RaftWal

theorem updFile_ids {files : List FileL} {f' : FileL} {n : Nat} (h : ∀ f ∈ files, f.id < n) (hf : f'.id < n) :
    ∀ g ∈ updFile files f', g.id < n := by
  intro g hg
  simp only [updFile, List.mem_map] at hg
  obtain ⟨a, ha, rfl⟩ := hg
  split
  · exact hf
  · exact h a ha

theorem removeFiles_core {w : Wal} {F : Nat} {es : List Log} (ids : List Nat)
    (hc : Core w.cfg w.nextID w.segs w.files F es) (ht : TailOpen w.segs w.files)
    (hids : ∀ c r, (c, r) ∈ w.segs → c.id ∉ ids) :
    Core (w.removeFiles ids).cfg (w.removeFiles ids).nextID (w.removeFiles ids).segs (w.removeFiles ids).files F es ∧
    TailOpen (w.removeFiles ids).segs (w.removeFiles ids).files := by
  have hq : ∀ c r, (c, r) ∈ w.segs → (fun id => decide (¬ ids.contains id = true)) c.id = true := by
    intro c r hm
    have := hids c r hm
    simpa using this
  show Core w.cfg w.nextID w.segs (w.files.filter (fun f => (fun id => decide (¬ ids.contains id = true)) f.id)) F es ∧
    TailOpen w.segs (w.files.filter (fun f => (fun id => decide (¬ ids.contains id = true)) f.id))
  exact ⟨hc.filter (fun id => decide (¬ ids.contains id = true)) hq, ht.filter (fun id => decide (¬ ids.contains id = true)) hq⟩

/-- ids in the segment map are pairwise distinct -/
theorem Core.id_ne {cfg : WalCfg} {n : Nat} {pre : List (SegS × Rdr)} {t : SegS × Rdr} {files : List FileL}
    {F : Nat} {es : List Log} (h : Core cfg n (pre ++ [t]) files F es) {c : SegS × Rdr} (hc : c ∈ pre) :
    c.1.id ≠ t.1.id ∧ c.1.sealed = true := by
  have := h.sorted
  rw [List.pairwise_append] at this
  have := this.2.2 c hc t (by simp)
  exact ⟨this.2.2.2, this.1⟩

/-- appending a batch to the tail file -/
theorem Core.append {cfg : WalCfg} {n : Nat} {pre : List (SegS × Rdr)} {t : SegS} {r : Rdr}
    {files : List FileL} {F : Nat} {es : List Log} {ft : FileL}
    (h : Core cfg n (pre ++ [(t, r)]) files F es) (hsl : t.sealed = false)
    (hf : fileOf files t.id = some ft) (f' : FileL) (logs : List Log)
    (hid : f'.id = ft.id) (hb : f'.base = ft.base) (hcd : f'.codec = ft.codec)
    (he : f'.entries = ft.entries ++ logs)
    (hbound : F + es.length + logs.length ≤ 2^64 - 1) :
    Core cfg n (pre ++ [(t, r)]) (updFile files f') F (es ++ logs) ∧
      fileOf (updFile files f') t.id = some f' := by
  have hftid := fileOf_some_id hf
  have hfid' : f'.id = t.id := by omega
  obtain ⟨ft', hft', hst⟩ := h.segOK t r (by simp)
  rw [hf] at hft'; cases hft'
  obtain ⟨t', f'', hl', hf'', hhi⟩ := h.endE
  simp only [List.getLast?_concat, Option.some.injEq] at hl'
  subst hl'
  rw [hf] at hf''; cases hf''
  rw [hi_open hsl] at hhi
  have hE : ft.base + ft.entries.length = F + es.length := hhi
  have hft' : fileOf (updFile files f') t.id = some f' := by
    rw [fileOf_updFile, if_pos hfid'.symm, hf]; rfl
  have hother : ∀ c ∈ pre, fileOf (updFile files f') c.1.id = fileOf files c.1.id := by
    intro c hc
    rw [fileOf_updFile, if_neg]
    have := (h.id_ne hc).1
    simp at this; omega
  have hstmin : t.min ≤ ft.base + ft.entries.length := by
    have := (hst.tailOK hsl).2
    have := hst.basemin
    have := hst.fbase
    omega
  refine ⟨⟨h.cfgOK, ?_, ?_, h.sorted, h.headF, ?_, ?_, ?_⟩, hft'⟩
  · apply updFile_ids h.fileIds
    rw [hid]; exact h.fileIds ft (fileOf_some_mem hf)
  · intro c rc hm
    rcases List.mem_append.mp hm with hm' | hm'
    · obtain ⟨f, hfc, hsc⟩ := h.segOK c rc hm
      refine ⟨f, by rw [hother _ hm']; exact hfc, ?_⟩
      refine { hsc with pt := ?_ }
      intro idx h1 h2
      obtain ⟨p1, p2, p3⟩ := hsc.pt idx h1 h2
      refine ⟨p1, by simp; omega, ?_⟩
      rw [p3, List.getElem?_append_left (by omega)]
    · simp at hm'
      obtain ⟨rfl, rfl⟩ := hm'
      refine ⟨f', hft', ?_⟩
      refine ⟨by rw [hb]; exact hst.fbase, by rw [hcd]; exact hst.fcodec, hst.codec, hst.idlt, hst.base1,
        hst.basemin, hst.Fmin, ?_, ?_, hst.rdr, ?_⟩
      · intro h'; simp [hsl] at h'
      · intro _
        refine ⟨(hst.tailOK hsl).1, ?_⟩
        rcases (hst.tailOK hsl).2 with h' | h'
        · exact Or.inl h'
        · right; rw [hb, he]; simp; omega
      · intro idx h1 h2
        rw [hi_open hsl] at h2
        simp only [hb, he, List.length_append] at h2
        have hF : F ≤ idx := by have := hst.Fmin; omega
        have hfb := hst.fbase
        have hbm := hst.basemin
        refine ⟨hF, by simp; omega, ?_⟩
        rw [hb, he]
        by_cases hlt : idx < ft.base + ft.entries.length
        · obtain ⟨p1, p2, p3⟩ := hst.pt idx h1 (by simp [hi, hsl]; exact hlt)
          rw [List.getElem?_append_left (by omega), List.getElem?_append_left (by omega)]
          exact p3
        · rw [List.getElem?_append_right (by omega), List.getElem?_append_right (by omega)]
          congr 1
          omega
  · refine ⟨(t, r), f', List.getLast?_concat, hft', ?_⟩
    simp [hi, hsl, hb, he]; omega
  · intro idx h1 h2
    by_cases hlt : idx < F + es.length
    · obtain ⟨c, rc, f, hm, hfc, h3, h4⟩ := h.cover idx h1 hlt
      rcases List.mem_append.mp hm with hm' | hm'
      · exact ⟨c, rc, f, hm, by rw [hother _ hm']; exact hfc, h3, h4⟩
      · simp at hm'
        obtain ⟨rfl, rfl⟩ := hm'
        rw [hf] at hfc; cases hfc
        refine ⟨c, rc, f', hm, hft', h3, ?_⟩
        rw [hi_open hsl] at h4 ⊢
        rw [hb, he]; simp; omega
    · refine ⟨t, r, f', by simp, hft', by omega, ?_⟩
      rw [hi_open hsl]
      simp at h2 ⊢
      rw [hb, he]; simp; omega
  · simp; omega

/-- sealing the (non-empty) tail in the meta store -/
theorem Core.seal {cfg : WalCfg} {n : Nat} {pre : List (SegS × Rdr)} {t : SegS} {r : Rdr}
    {files : List FileL} {F : Nat} {es : List Log} {ft : FileL}
    (h : Core cfg n (pre ++ [(t, r)]) files F es) (hsl : t.sealed = false)
    (hf : fileOf files t.id = some ft) (hlen : 0 < ft.entries.length) (hw : 0 < ft.wsize)
    (is : Nat) (his : is ≠ 0) :
    Core cfg n (pre ++ [({ t with sealed := true, max := ft.base + ft.entries.length - 1, indexStart := is }, r)])
      files F es := by
  obtain ⟨ft', hft', hst⟩ := h.segOK t r (by simp)
  rw [hf] at hft'; cases hft'
  obtain ⟨t', f'', hl', hf'', hhi⟩ := h.endE
  simp only [List.getLast?_concat, Option.some.injEq] at hl'
  subst hl'
  rw [hf] at hf''; cases hf''
  rw [hi_open hsl] at hhi
  have hb1 := hst.base1
  have hfb := hst.fbase
  have hbm := hst.basemin
  have hhi' : hi { t with sealed := true, max := ft.base + ft.entries.length - 1, indexStart := is } ft =
      ft.base + ft.entries.length := by
    rw [hi_sealed rfl]; simp only; omega
  have hs := h.sorted
  rw [List.pairwise_append] at hs
  refine ⟨h.cfgOK, h.fileIds, ?_, ?_, ?_, ?_, ?_, h.bound⟩
  · intro c rc hm
    rcases List.mem_append.mp hm with hm' | hm'
    · exact h.segOK c rc (List.mem_append_left _ hm')
    · simp at hm'
      obtain ⟨rfl, rfl⟩ := hm'
      refine ⟨ft, hf, ?_⟩
      have htl := (hst.tailOK hsl).2
      refine ⟨hst.fbase, hst.fcodec, hst.codec, hst.idlt, hst.base1, hst.basemin, hst.Fmin, ?_, ?_, ?_, ?_⟩
      · intro _
        simp only
        exact ⟨by omega, by omega, hw, his⟩
      · intro h'; simp at h'
      · have := hst.rdr
        cases rc with
        | writer fm => simpa [RdrOK] using this
        | sealed a b c => simp [RdrOK, hsl] at this
      · intro idx h1 h2
        rw [hhi'] at h2
        exact hst.pt idx h1 (by rw [hi_open hsl]; exact h2)
  · rw [List.pairwise_append]
    refine ⟨hs.1, by simp, ?_⟩
    intro a ha b hb
    simp at hb; subst hb
    exact hs.2.2 a ha (t, r) (by simp)
  · obtain ⟨c0, hh, hF⟩ := h.headF
    cases pre with
    | nil => simp at hh; subst hh; exact ⟨_, rfl, hF⟩
    | cons a l => simp at hh; subst hh; exact ⟨_, rfl, hF⟩
  · exact ⟨_, ft, List.getLast?_concat, hf, by rw [hhi']; exact hhi⟩
  · intro idx h1 h2
    obtain ⟨c, rc, f, hm, hfc, h3, h4⟩ := h.cover idx h1 h2
    rcases List.mem_append.mp hm with hm' | hm'
    · exact ⟨c, rc, f, List.mem_append_left _ hm', hfc, h3, h4⟩
    · simp at hm'
      obtain ⟨rfl, rfl⟩ := hm'
      rw [hf] at hfc; cases hfc
      refine ⟨_, rc, ft, List.mem_append_right _ (List.mem_singleton.mpr rfl), hf, h3, ?_⟩
      rw [hhi']; rw [hi_open hsl] at h4; exact h4

end RaftWal
