/-
  Proofs/WalInv2Lemmas1.lean — the directory invariant behind C13 (`DirD`), the "ids are fresh" relation
  (`Ext`), and how the elementary state changes (`createNext`, `removeFiles`, `updFile`, dropping
  segments from the map) act on them.  Nothing here depends on the simulation relation: these facts
  hold for *every* WAL state.
-/
import RaftWal.Model.WalRunX
import RaftWal.Proofs.WalLemmas1
namespace RaftWal

/-- (id, base) of a live segment / of a file -/
def skey (s : SegS × Rdr) : Nat × Nat := (s.1.id, s.1.base)
def fkey (f : FileL) : Nat × Nat := (f.id, f.base)

/-- the (id, base) pairs of the segment map -/
def Wal.keys (w : Wal) : List (Nat × Nat) := w.segs.map skey

/-- keep the pairs whose id is not in `del` -/
def keep (del : List Nat) (K : List (Nat × Nat)) : List (Nat × Nat) := K.filter (fun k => !del.contains k.1)

/-- the directory, once the files with ids in `del` (a pending unlink) are gone, lists exactly the live
    segments, in the same order; ids are pairwise distinct; everything is below `n` (= `nextID`) -/
structure DirD (n : Nat) (K : List (Nat × Nat)) (files : List FileL) (del : List Nat) : Prop where
  eq : keep del (files.map fkey) = K
  nodup : (K.map (·.1)).Nodup
  klt : ∀ k ∈ K, k.1 < n
  flt : ∀ f ∈ files, f.id < n
  dlt : ∀ d ∈ del, d < n

/-- the invariant between calls: nothing pending -/
def DirEq (w : Wal) : Prop := DirD w.nextID w.keys w.files []

/-- `nextID` never decreases and every pair of the new map is an old pair or has a fresh id -/
def Ext (n : Nat) (K : List (Nat × Nat)) (n' : Nat) (K' : List (Nat × Nat)) : Prop :=
  n ≤ n' ∧ ∀ k ∈ K', k ∈ K ∨ n ≤ k.1

def WExt (w w' : Wal) : Prop := Ext w.nextID w.keys w'.nextID w'.keys

theorem Ext.refl (n : Nat) (K : List (Nat × Nat)) : Ext n K n K := ⟨Nat.le_refl _, fun _ h => Or.inl h⟩

theorem Ext.trans {n n' n'' : Nat} {K K' K'' : List (Nat × Nat)} (h1 : Ext n K n' K') (h2 : Ext n' K' n'' K'') :
    Ext n K n'' K'' := by
  refine ⟨Nat.le_trans h1.1 h2.1, ?_⟩
  intro k hk
  rcases h2.2 k hk with h | h
  · exact h1.2 k h
  · exact Or.inr (Nat.le_trans h1.1 h)

theorem Ext.sub {n : Nat} {K K' : List (Nat × Nat)} (h : ∀ k ∈ K', k ∈ K) : Ext n K n K' :=
  ⟨Nat.le_refl _, fun k hk => Or.inl (h k hk)⟩

theorem WExt.refl (w : Wal) : WExt w w := Ext.refl _ _
theorem WExt.trans {a b c : Wal} (h1 : WExt a b) (h2 : WExt b c) : WExt a c := Ext.trans h1 h2

/-! ## `keep` -/

theorem keep_nil (K : List (Nat × Nat)) : keep [] K = K := by
  simp [keep]

theorem keep_append (del : List Nat) (A B : List (Nat × Nat)) : keep del (A ++ B) = keep del A ++ keep del B := by
  simp [keep]

theorem keep_keep (d1 d2 : List Nat) (K : List (Nat × Nat)) : keep d2 (keep d1 K) = keep (d1 ++ d2) K := by
  simp only [keep, List.filter_filter]
  congr 1
  funext k
  simp [Bool.and_comm]

theorem keep_all {del : List Nat} {K : List (Nat × Nat)} (h : ∀ k ∈ K, k.1 ∉ del) : keep del K = K := by
  simp only [keep, List.filter_eq_self]
  intro k hk
  simpa using h k hk

theorem keep_none {del : List Nat} {K : List (Nat × Nat)} (h : ∀ k ∈ K, k.1 ∈ del) : keep del K = [] := by
  simp only [keep, List.filter_eq_nil_iff]
  intro k hk
  simpa using h k hk

theorem keep_files (del : List Nat) (files : List FileL) :
    keep del (files.map fkey) = (files.filter (fun f => !del.contains f.id)).map fkey := by
  simp only [keep, List.filter_map]
  rfl

/-- in a list of pairs with pairwise distinct first components, removing the ids of a middle part removes
    exactly that part -/
theorem keep_middle {A B C : List (Nat × Nat)} {D : List Nat} (hn : ((A ++ B ++ C).map (·.1)).Nodup)
    (hD : ∀ x, x ∈ D ↔ x ∈ B.map (·.1)) : keep D (A ++ B ++ C) = A ++ C := by
  simp only [List.map_append, List.nodup_append, List.mem_map, List.mem_append] at hn
  obtain ⟨⟨hA, hB, hAB⟩, hC, hABC⟩ := hn
  rw [keep_append, keep_append]
  have e1 : keep D A = A := by
    apply keep_all
    intro k hk hin
    rw [hD] at hin
    obtain ⟨b, hb, hbe⟩ := List.mem_map.mp hin
    exact hAB k.1 ⟨k, hk, rfl⟩ k.1 ⟨b, hb, hbe⟩ rfl
  have e2 : keep D B = [] := by
    apply keep_none
    intro k hk
    rw [hD]
    exact List.mem_map.mpr ⟨k, hk, rfl⟩
  have e3 : keep D C = C := by
    apply keep_all
    intro k hk hin
    rw [hD] at hin
    obtain ⟨b, hb, hbe⟩ := List.mem_map.mp hin
    exact hABC k.1 (Or.inr ⟨b, hb, hbe⟩) k.1 ⟨k, hk, rfl⟩ rfl
  rw [e1, e2, e3]; simp

/-! ## elementary changes -/

theorem DirD.of_eq {n : Nat} {K K' : List (Nat × Nat)} {files : List FileL} {del : List Nat}
    (h : DirD n K files del) (hk : K' = K) : DirD n K' files del := by
  subst hk; exact h

/-- dropping a middle part `B` of the segment map, its ids joining the pending unlink -/
theorem DirD.drop {n : Nat} {A B C : List (Nat × Nat)} {files : List FileL} {del D : List Nat}
    (h : DirD n (A ++ B ++ C) files del) (hD : ∀ x, x ∈ D ↔ x ∈ B.map (·.1)) :
    DirD n (A ++ C) files (del ++ D) := by
  refine ⟨?_, ?_, ?_, h.flt, ?_⟩
  · rw [← keep_keep, h.eq]
    exact keep_middle h.nodup hD
  · have := h.nodup
    simp only [List.map_append, List.nodup_append, List.mem_map, List.mem_append] at this ⊢
    obtain ⟨⟨hA, hB, hAB⟩, hC, hABC⟩ := this
    exact ⟨hA, hC, fun a ha b hb => hABC a (Or.inl ha) b hb⟩
  · intro k hk
    apply h.klt
    rcases List.mem_append.mp hk with h' | h'
    · simp [h']
    · simp [h']
  · intro d hd
    rcases List.mem_append.mp hd with h' | h'
    · exact h.dlt d h'
    · rw [hD] at h'
      obtain ⟨b, hb, rfl⟩ := List.mem_map.mp h'
      exact h.klt b (by simp [hb])

/-- a fresh tail: one more segment and its file, both with id `n` -/
theorem DirD.push {n : Nat} {K : List (Nat × Nat)} {files : List FileL} {del : List Nat}
    (h : DirD n K files del) (f : FileL) (hf : f.id = n) :
    DirD (n + 1) (K ++ [(n, f.base)]) (files ++ [f]) del := by
  refine ⟨?_, ?_, ?_, ?_, ?_⟩
  · rw [List.map_append, keep_append, h.eq]
    congr 1
    have : keep del [fkey f] = [fkey f] := by
      apply keep_all
      intro k hk hin
      simp at hk; subst hk
      have := h.dlt _ hin
      simp [fkey, hf] at this
    simpa [fkey, hf] using this
  · simp only [List.map_append, List.map_cons, List.map_nil]
    rw [List.nodup_append]
    refine ⟨h.nodup, by simp, ?_⟩
    intro a ha b hb
    simp at hb; subst hb
    obtain ⟨k, hk, rfl⟩ := List.mem_map.mp ha
    have := h.klt k hk
    omega
  · intro k hk
    rcases List.mem_append.mp hk with h' | h'
    · have := h.klt k h'; omega
    · simp at h'; subst h'; simp
  · intro g hg
    rcases List.mem_append.mp hg with h' | h'
    · have := h.flt g h'; omega
    · simp at h'; subst h'; omega
  · intro d hd
    have := h.dlt d hd; omega

/-- the unlink itself -/
theorem DirD.unlink {n : Nat} {K : List (Nat × Nat)} {files : List FileL} {del : List Nat}
    (h : DirD n K files del) : DirD n K (files.filter (fun f => !del.contains f.id)) [] := by
  refine ⟨?_, h.nodup, h.klt, ?_, by simp⟩
  · rw [keep_nil, ← keep_files]; exact h.eq
  · intro f hf
    exact h.flt f (List.mem_filter.mp hf).1

theorem removeFiles_files (w : Wal) (ids : List Nat) :
    (w.removeFiles ids).files = w.files.filter (fun f => !ids.contains f.id) := by
  simp only [Wal.removeFiles]
  congr 1
  funext f
  cases List.contains ids f.id <;> rfl

/-- rewriting one file in place (same id, same base) -/
theorem updFile_keys {files : List FileL} {f' : FileL} (h : ∀ g ∈ files, g.id = f'.id → g.base = f'.base) :
    (updFile files f').map fkey = files.map fkey := by
  simp only [updFile, List.map_map]
  apply List.map_congr_left
  intro g hg
  simp only [Function.comp]
  split
  · rename_i hid
    simp [fkey, hid, h g hg hid]
  · rfl

theorem pair_unique {K : List (Nat × Nat)} (hn : (K.map (·.1)).Nodup) {a b b' : Nat}
    (h1 : (a, b) ∈ K) (h2 : (a, b') ∈ K) : b = b' := by
  induction K with
  | nil => simp at h1
  | cons k K ih =>
    simp only [List.map_cons, List.nodup_cons, List.mem_map, not_exists, not_and] at hn
    rcases List.mem_cons.mp h1 with e1 | e1 <;> rcases List.mem_cons.mp h2 with e2 | e2
    · rw [← e2] at e1; exact (Prod.mk.inj e1).2
    · exact absurd (by rw [← e1]) (hn.1 (a, b') e2)
    · exact absurd (by rw [← e2]) (hn.1 (a, b) e1)
    · exact ih hn.2 e1 e2

theorem DirD.upd {n : Nat} {K : List (Nat × Nat)} {files : List FileL}
    (h : DirD n K files []) {f f' : FileL} (hf : f ∈ files) (hid : f'.id = f.id) (hb : f'.base = f.base) :
    DirD n K (updFile files f') [] := by
  have hkeys : (updFile files f').map fkey = files.map fkey := by
    apply updFile_keys
    intro g hg hgid
    have e := h.eq
    rw [keep_nil] at e
    have h1 : (g.id, g.base) ∈ K := by rw [← e]; exact List.mem_map.mpr ⟨g, hg, rfl⟩
    have h2 : (g.id, f.base) ∈ K := by
      rw [← e]; exact List.mem_map.mpr ⟨f, hf, by simp [fkey]; omega⟩
    rw [hb]
    exact pair_unique h.nodup h1 h2
  refine ⟨by rw [hkeys]; exact h.eq, h.nodup, h.klt, ?_, by simp⟩
  intro g hg
  simp only [updFile, List.mem_map] at hg
  obtain ⟨a, ha, rfl⟩ := hg
  split
  · rw [hid]; exact h.flt f hf
  · exact h.flt a ha

/-! ## `createNext` -/

/-- everything `createNext` does, explicitly -/
theorem createNext_shape {w w' : Wal} {nb : Nat} (h : w.createNext nb = some w') :
    ∃ b, w' = { w with
      nextID := w.nextID + 1
      segs := w.segs ++ [(w.newSeg w.nextID b, .writer b)]
      files := w.files ++ [{ id := w.nextID, base := b, codec := w.cfg.newSegCodec, entries := [], wsize := 0, indexStart := 0 }] } := by
  unfold Wal.createNext at h
  simp only at h
  split at h
  all_goals (try split at h)
  all_goals (try split at h)
  all_goals first | (cases h; done) | exact ⟨_, (Option.some.inj h).symm⟩

theorem createNext_frame {w w' : Wal} {nb : Nat} (h : w.createNext nb = some w') :
    w'.stable = w.stable ∧ w'.ctr = w.ctr ∧ w'.closed = w.closed ∧ w'.cfg = w.cfg := by
  obtain ⟨b, rfl⟩ := createNext_shape h
  exact ⟨rfl, rfl, rfl, rfl⟩

theorem createNext_keys {w w' : Wal} {nb : Nat} (h : w.createNext nb = some w') :
    ∃ b, w'.nextID = w.nextID + 1 ∧ w'.keys = w.keys ++ [(w.nextID, b)] ∧
      ∃ f : FileL, f.id = w.nextID ∧ f.base = b ∧ w'.files = w.files ++ [f] := by
  obtain ⟨b, rfl⟩ := createNext_shape h
  refine ⟨b, rfl, ?_, _, rfl, rfl, rfl⟩
  simp [Wal.keys, skey, Wal.newSeg]

theorem createNext_ext {w w' : Wal} {nb : Nat} (h : w.createNext nb = some w') : WExt w w' := by
  obtain ⟨b, h1, h2, _⟩ := createNext_keys h
  refine ⟨by omega, ?_⟩
  intro k hk
  rw [h2] at hk
  rcases List.mem_append.mp hk with h' | h'
  · exact Or.inl h'
  · simp at h'; subst h'; exact Or.inr (Nat.le_refl _)

theorem createNext_dir {w w' : Wal} {nb : Nat} {del : List Nat} (h : w.createNext nb = some w')
    (hd : DirD w.nextID w.keys w.files del) : DirD w'.nextID w'.keys w'.files del := by
  obtain ⟨b, h1, h2, f, h3, h4, h5⟩ := createNext_keys h
  rw [h1, h2, h5, ← h4]
  exact hd.push f h3

end RaftWal
