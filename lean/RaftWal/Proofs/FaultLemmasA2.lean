/-
  Proofs/FaultLemmasA2.lean — `finvRunB d = true ↔ ∃ P t f, FRun d P t f`; the cleaned disk of an `FRun` state is `QS`.
-/
import RaftWal.Proofs.FaultLemmasA1
namespace RaftWal.Fault.A
open RaftWal.Crash

theorem cln_file_sealed {d : Disk} {P : List Seg} {t : Seg} (hsegs : d.md.segs = P ++ [t])
    (hne : ∀ s ∈ P, s.id ≠ t.id) {s : Seg} (hs : s ∈ P) : (cleanTail (strip d)).file? s.id = d.file? s.id := by
  have hl : d.md.segs.getLast? = some t := by rw [hsegs]; simp
  rw [cln_file? hl]
  have ha : d.md.segs.any (fun x => x.id == s.id) = true := by
    rw [any_id_iff, hsegs]
    exact List.mem_map.2 ⟨s, by simp [hs], rfl⟩
  simp [hne s hs, ha]

theorem cln_file_tail {d : Disk} {t : Seg} (hl : d.md.segs.getLast? = some t) :
    (cleanTail (strip d)).file? t.id = (d.file? t.id).map cleanF := by
  rw [cln_file? hl]; simp

theorem cln_HL {d : Disk} {t : Seg} (hl : d.md.segs.getLast? = some t) (h : HL d) : HL (cleanTail (strip d)) := by
  intro j g hg hs
  rw [cln_file? hl] at hg
  by_cases e : j = t.id
  · simp only [e, ↓reduceIte] at hg
    cases h0 : d.file? t.id with
    | none => rw [h0] at hg; cases hg
    | some f0 =>
      rw [h0] at hg
      simp only [Option.map_some, Option.some.injEq] at hg
      subst hg
      exact h t.id f0 h0 hs
  · simp only [e, ↓reduceIte] at hg
    split at hg
    · exact h j g hg hs
    · cases hg

/-- the cleaned disk of an `FRun` state is quiescent in the strengthened sense -/
theorem FRun.clean {d : Disk} {P : List Seg} {t : Seg} {f : File} (h : FRun d P t f) :
    QS (cleanTail (strip d)) P t (cleanF f) ∧ logP (cleanTail (strip d)) P = logP d P := by
  have hl := h.last
  have hb := h.base
  have hstep := hb.step (d' := cleanTail (strip d)) (cln_md d)
    (fun s hs => keeps_of_eq (cln_file_sealed hb.segs hb.tid_ne hs))
    (cln_fids_nodup hl hb.nodupF) (fun j hj => hb.fidlt j (cln_fids_mem hl hj).1) (cln_HL hl hb.hl)
  refine ⟨⟨hstep.1, ?_, ?_, ?_, ?_⟩, hstep.2⟩
  · rw [cln_file_tail hl, h.tf]; rfl
  · exact ⟨h.ft.base, rfl, rfl, hb.tbm, hb.tb1, hb.tsl, rfl, h.ft.lk, h.ft.mn⟩
  · exact h.ft.vis
  · intro j hj
    have := (cln_fids_mem hl hj).2
    rw [hb.segs] at this
    exact this

/-- from the executable invariant to the proposition -/
theorem FRun.of_finv {d : Disk} (h : finvRunB d = true) : ∃ P t f, FRun d P t f := by
  unfold finvRunB at h
  simp only [Bool.and_eq_true] at h
  obtain ⟨⟨⟨⟨⟨h1, h2⟩, h3⟩, h4⟩, _⟩, h6⟩ := h
  obtain ⟨P, t, f', hq⟩ := (quiescentS_iff _).1 ((quiescentSB_iff _).1 h1)
  have hsegs : d.md.segs = P ++ [t] := by rw [← cln_md d]; exact hq.base.segs
  have hl : d.md.segs.getLast? = some t := by rw [hsegs]; simp
  rw [hl] at h6
  simp only at h6
  cases hf : d.file? t.id with
  | none => rw [hf] at h6; cases h6
  | some f =>
    rw [hf] at h6
    simp only [Bool.or_eq_true, Bool.not_eq_eq_eq_not, Bool.not_true, Bool.and_eq_true, List.isEmpty_iff] at h6
    have hnf : (fids d).Nodup := (nodupB_iff _).1 h2
    have hf' : f' = cleanF f := by
      have := hq.tf
      rw [cln_file_tail hl, hf] at this
      simpa using this.symm
    subst hf'
    have hne := hq.base.tid_ne
    refine ⟨P, t, f, ⟨⟨hsegs, ?_, hq.base.chain, hq.base.nodupS, ?_, hnf, ?_, hq.base.tsl, hq.base.tbm, hq.base.tb1, ?_⟩, hf,
      ⟨hq.qt.base, hq.qt.lk, hq.qt.mn, hq.vis, ?_⟩⟩⟩
    · intro s hs
      obtain ⟨g, hg, hsf⟩ := hq.base.sealed s hs
      rw [cln_file_sealed hsegs hne hs] at hg
      exact ⟨g, hg, hsf⟩
    · have := hq.base.idlt
      rw [cln_md] at this; exact this
    · intro j hj
      obtain ⟨g, hg, rfl⟩ := List.mem_map.1 hj
      have := List.all_eq_true.1 h3 g hg
      simpa using this
    · rw [HL_iff hnf]
      intro g hg hh
      have := List.all_eq_true.1 h4 g hg
      simp only [Bool.or_eq_true, Bool.not_eq_eq_eq_not, Bool.not_true] at this
      rcases this with h0 | h0
      · rw [hh] at h0; cases h0
      · exact h0
    · intro hss
      rcases h6 with h0 | h0
      · rw [hss] at h0; cases h0
      · exact h0

/-- from the proposition to the executable invariant -/
theorem FRun.finv {d : Disk} {P : List Seg} {t : Seg} {f : File} (h : FRun d P t f) : finvRunB d = true := by
  have hl := h.last
  have hb := h.base
  unfold finvRunB
  simp only [Bool.and_eq_true]
  refine ⟨⟨⟨⟨⟨?_, ?_⟩, ?_⟩, ?_⟩, ?_⟩, ?_⟩
  · exact (quiescentSB_iff _).2 ((quiescentS_iff _).2 ⟨P, t, cleanF f, h.clean.1⟩)
  · exact (nodupB_iff _).2 hb.nodupF
  · rw [List.all_eq_true]
    intro g hg
    simpa using hb.fidlt g.id (List.mem_map.2 ⟨g, hg, rfl⟩)
  · rw [List.all_eq_true]
    intro g hg
    have := (HL_iff hb.nodupF).1 hb.hl g hg
    cases hh : g.hsynced with
    | false => rfl
    | true => simpa using this hh
  · rw [List.all_eq_true]
    intro g hg
    rw [hl]
    simp only [Option.any_some, Bool.or_eq_true, beq_iff_eq, Bool.not_eq_eq_eq_not, Bool.not_true, Bool.and_eq_true,
      List.isEmpty_iff]
    by_cases e1 : t.id = g.id
    · exact Or.inl (Or.inl e1)
    · by_cases e2 : d.md.segs.any (fun s => s.id == g.id) = true
      · refine Or.inr ?_
        rw [any_id_iff, hb.segs] at e2
        obtain ⟨s, hs, e⟩ := List.mem_map.1 e2
        simp only [List.mem_append, List.mem_cons, List.not_mem_nil, or_false] at hs
        rcases hs with hs | rfl
        · obtain ⟨g', hg', hsf⟩ := hb.sealed s hs
          have := file?_of_mem hb.nodupF hg
          rw [← e, hg'] at this
          cases this
          exact ⟨hsf.pend, hsf.sp⟩
        · exact absurd e e1
      · exact Or.inl (Or.inr (by simpa using e2))
  · rw [hl]
    simp only [h.tf, Bool.or_eq_true, Bool.not_eq_eq_eq_not, Bool.not_true, Bool.and_eq_true, List.isEmpty_iff]
    cases hss : f.sealedS with
    | false => exact Or.inl rfl
    | true => exact Or.inr (h.ft.ss hss)

theorem finvRunB_iff (d : Disk) : finvRunB d = true ↔ ∃ P t f, FRun d P t f :=
  ⟨FRun.of_finv, fun ⟨_, _, _, h⟩ => h.finv⟩

end RaftWal.Fault.A
