/-
  Proofs/FaultLemmasD1.lean — Open from ANY `Rec` state recovers exactly the log the disk stands for
  (`open_log`): the crash development only says "an admissible log"; a clean restart after I/O errors needs the exact one.
  Route: when Open's first action is the fsync of the tail, Open of the disk and Open of the disk after that fsync leave
  the same state (the fsync is idempotent), and after the fsync the tail has nothing pending, so `open_final` with the
  one admissible log `absLog d` applies.
-/
import RaftWal.Proofs.CrashProps
namespace RaftWal.Crash.D

/-! ### fsync is idempotent -/

theorem apply_fsync_eq_D (d : Disk) (id : Nat) :
    d.apply (.fsync id) =
      { d with files := if dirSync d id then (updFile d.files id File.fs).map File.lk else updFile d.files id File.fs } := rfl

theorem File.fs_fs_D (g : File) : g.fs.fs = g.fs := by simp [File.fs]
theorem File.fs_lk_fs_D (g : File) : g.fs.lk.fs = g.fs.lk := by simp [File.fs, File.lk]

theorem updFile_self_D {fs : List File} {id : Nat} {g : File → File} (h : ∀ f ∈ fs, f.id = id → g f = f) :
    updFile fs id g = fs := by
  unfold updFile
  conv => rhs; rw [← List.map_id fs]
  apply List.map_congr_left
  intro f hf
  by_cases e : f.id = id
  · simp [e, h f hf e]
  · simp [e]

theorem fsync_idem_D {d : Disk} {id : Nat} {f : File} (hf : d.file? id = some f) :
    (d.apply (.fsync id)).apply (.fsync id) = d.apply (.fsync id) := by
  have hds : dirSync (d.apply (.fsync id)) id = false := by
    unfold dirSync
    rw [apply_fsync_file?]
    simp only [↓reduceIte, hf, Option.map_some]
    cases dirSync d id <;> simp [File.fs, File.lk]
  rw [apply_fsync_eq_D (d.apply (.fsync id))]
  simp only [hds, Bool.false_eq_true, ↓reduceIte]
  have : updFile (d.apply (.fsync id)).files id File.fs = (d.apply (.fsync id)).files := by
    apply updFile_self_D
    intro g hg hid
    rw [apply_fsync_eq_D] at hg
    simp only at hg
    cases hd : dirSync d id with
    | true =>
      simp only [hd, ↓reduceIte, List.mem_map, updFile] at hg
      obtain ⟨g1, ⟨g0, _, rfl⟩, rfl⟩ := hg
      by_cases e : g0.id = id
      · simp only [e, ↓reduceIte, File.fs_lk_fs_D]
      · simp only [e, ↓reduceIte, File.lk_id] at hid
    | false =>
      simp only [hd, Bool.false_eq_true, ↓reduceIte, List.mem_map, updFile] at hg
      obtain ⟨g0, _, rfl⟩ := hg
      by_cases e : g0.id = id
      · simp only [e, ↓reduceIte, File.fs_fs_D]
      · simp only [e, ↓reduceIte] at hid
  rw [this]

/-! ### the orphans only depend on the identifiers present -/

theorem orphanIds_eq_D (d : Disk) :
    orphanIds d = (fids d).filter (fun j => !d.md.segs.any (fun s => decide (s.id = j))) := by
  unfold orphanIds fids
  rw [List.filter_map]
  rfl

theorem orphanIds_congr_D {d d' : Disk} (hm : d'.md = d.md) (hf : fids d' = fids d) : orphanIds d' = orphanIds d := by
  rw [orphanIds_eq_D, orphanIds_eq_D, hm, hf]

/-! ### the log of a `Rec` state -/

theorem rec_log_some {A : Log → Prop} {d : Disk} {P : List Seg} {t : Seg} (h : Rec A d P t) {f : File}
    (hf : d.file? t.id = some f) : absLog d = logP d P ++ visU t.min f.base (f.synced ++ f.pending) := by
  rw [absLog_eq, h.base.segs, logP_append, logP_single, segEntries_some hf, visF_unsealed h.base.tsl]
  rfl

theorem rec_log_none {A : Log → Prop} {d : Disk} {P : List Seg} {t : Seg} (h : Rec A d P t)
    (hf : d.file? t.id = none) : absLog d = logP d P := by
  rw [absLog_eq, h.base.segs, logP_append, logP_single, segEntries_none hf, List.append_nil]

/-! ### Open after the tail's fsync -/

theorem openPre_fsync {A : Log → Prop} {d : Disk} {P : List Seg} {t : Seg} (h : Rec A d P t) {f : File}
    (hf : d.file? t.id = some f) (hce : (f.content.isEmpty && !f.isSealed) = false) :
    openPre (d.apply (.fsync t.id)) t = openPre d t ∧ ∃ X, openPre d t = .fsync t.id :: X := by
  obtain ⟨f1, hf1, g1, g2, g3, g4, g5, _, _⟩ := fsync_file h.base.hl hf
  have hid : f.id = t.id := (file?_some_mem hf).2
  have hid1 : f1.id = t.id := (file?_some_mem hf1).2
  have hc : f1.content = f.content := by simp [File.content, g2, g3]
  have hs : f1.isSealed = f.isSealed := by simp [File.isSealed, g4, g5]
  have hl : f1.lastIdx = f.lastIdx := by simp [File.lastIdx, hc, g1]
  constructor
  · unfold openPre
    simp only [hf, hf1, hc, hs, hl, hid, hid1, apply_fsync_md]
  · unfold openPre
    simp only [hf, hce, Bool.false_eq_true, ↓reduceIte, hid, List.cons_append, List.nil_append]
    exact ⟨_, rfl⟩

/-- Open of a disk whose tail is to be fsynced first = Open of the disk after that fsync -/
theorem openResult_fsync {A : Log → Prop} {d : Disk} {P : List Seg} {t : Seg} (h : Rec A d P t) {f : File}
    (hf : d.file? t.id = some f) (hce : (f.content.isEmpty && !f.isSealed) = false)
    (h1 : Rec A (d.apply (.fsync t.id)) P t) :
    openResult (d.apply (.fsync t.id)) = openResult d := by
  obtain ⟨e1, X, e2⟩ := openPre_fsync h hf hce
  unfold openResult
  rw [open_shape h, open_shape h1, e1, orphanDeletes_eq, orphanDeletes_eq,
    orphanIds_congr_D (d := d) (d' := d.apply (.fsync t.id)) rfl (fids_fsync _ _), e2]
  simp only [Option.map_some, List.cons_append, applyAll_cons, fsync_idem_D hf]

/-- **Open recovers exactly the log the disk stands for**, from any state of the recovery invariant -/
theorem open_log {A : Log → Prop} {d d' : Disk} {P : List Seg} {t : Seg} (h : Rec A d P t)
    (ho : openResult d = some d') : absLog d' = absLog d := by
  cases hf : d.file? t.id with
  | none =>
    have h' : Rec (fun l => l = absLog d) d P t :=
      ⟨h.base, fun f hf' => (by rw [hf] at hf'; cases hf'), fun _ => ⟨(h.tnone hf).1, (rec_log_none h hf).symm⟩⟩
    exact (open_final ⟨P, t, h'⟩ ho).2.1
  | some f =>
    have hr := h.tsome f hf
    cases hce : (f.content.isEmpty && !f.isSealed) with
    | true =>
      simp only [Bool.and_eq_true, List.isEmpty_iff, File.content, List.append_eq_nil_iff] at hce
      have hl := rec_log_some h hf
      have h' : Rec (fun l => l = absLog d) d P t := by
        refine ⟨h.base, ?_, fun hn => by rw [hf] at hn; cases hn⟩
        intro g hg
        rw [hf] at hg; cases hg
        refine ⟨hr.base, hr.lk, hr.mn, hr.vis, hr.ss, hr.sp, ?_, hl.symm⟩
        rw [hl, hce.1.2, List.append_nil]
      exact (open_final ⟨P, t, h'⟩ ho).2.1
    | false =>
      have h1 : Rec (fun l => l = absLog d) (d.apply (.fsync t.id)) P t := h.fsync hf (rec_log_some h hf).symm
      have h1A : Rec A (d.apply (.fsync t.id)) P t := h.fsync hf hr.a2
      rw [← openResult_fsync h hf hce h1A] at ho
      exact (open_final ⟨P, t, h1⟩ ho).2.1

/-- Open from a state of the recovery invariant: it succeeds, leaves a `QuiescentS` state, the log and the stable store
    are exactly the ones the disk stood for -/
theorem open_rec_total {A : Log → Prop} {d : Disk} {P : List Seg} {t : Seg} (h : Rec A d P t) :
    ∃ d', openResult d = some d' ∧ QuiescentS d' ∧ absLog d' = absLog d ∧ d'.md.stable = d.md.stable := by
  have hs := open_isSome ⟨P, t, h⟩
  cases ho : openProg d with
  | none => rw [ho] at hs; cases hs
  | some as =>
    have ho' : openResult d = some (d.applyAll as) := by unfold openResult; rw [ho]; rfl
    obtain ⟨hq, _, hst⟩ := open_final ⟨P, t, h⟩ ho'
    exact ⟨_, ho', (quiescentS_iff _).2 hq, open_log h ho', hst⟩

/-- a process crash does not change the log the disk stands for -/
theorem absLog_crash_proc_D (d : Disk) : absLog (d.crash .proc) = absLog d := by
  rw [absLog_eq, absLog_eq, crash_md]
  apply flatMap_congr'
  intro s _
  rw [segEntries_eq, segEntries_eq, crash_proc_file?]
  cases d.file? s.id with
  | none => rfl
  | some f => rfl

end RaftWal.Crash.D
