/-
  Proofs/FaultLemmasD4.lean — the extra conjunct of `FInvS` under calls, the easy cases: `set` (any process) and every
  call on a stopped process (which refuses everything but `set`).  The remaining cases — the extra conjunct after a
  store / delHead / delTail on a running process — belong to the per-call analyses.
-/
import RaftWal.Proofs.FaultLemmasD3
namespace RaftWal.Fault.D
open RaftWal.Crash RaftWal.Crash.D

/-- the extra conjunct does not look at the stable store -/
theorem fextraRunB_stable (d : Disk) (st : List (Nat × Nat)) :
    fextraRunB { d with md := { d.md with stable := st } } = fextraRunB d := rfl

theorem fextraStopB_stable (d : Disk) (st : List (Nat × Nat)) :
    fextraStopB { d with md := { d.md with stable := st } } = fextraStopB d := rfl

theorem quiescentSB_congr_D {d d' : Disk} (h1 : d'.md.segs = d.md.segs) (h2 : d'.md.nextID = d.md.nextID)
    (h3 : d'.files = d.files) : quiescentSB d' = quiescentSB d := by
  simp only [quiescentSB, quiescentB, fileOK, Disk.file?, h1, h2, h3]

theorem cleanTail_strip_stable_D (d : Disk) (st : List (Nat × Nat)) :
    quiescentSB (cleanTail (strip { d with md := { d.md with stable := st } })) =
      quiescentSB (cleanTail (strip d)) := by
  apply quiescentSB_congr_D
  · rw [cleanTail_md_D, cleanTail_md_D]; rfl
  · rw [cleanTail_md_D, cleanTail_md_D]; rfl
  · unfold cleanTail
    show (match d.md.segs.getLast? with | none => _ | some t => _ : Disk).files =
      (match d.md.segs.getLast? with | none => _ | some t => _ : Disk).files
    cases d.md.segs.getLast? <;> rfl

theorem finvRunB_stable_D (d : Disk) (st : List (Nat × Nat)) :
    finvRunB { d with md := { d.md with stable := st } } = finvRunB d := by
  unfold finvRunB
  rw [cleanTail_strip_stable_D]
  rfl

theorem finvStopB_stable_D (d : Disk) (segs0 : List Seg) (st : List (Nat × Nat)) :
    finvStopB { d with md := { d.md with stable := st } } segs0 = finvStopB d segs0 := by
  unfold finvStopB
  have := finvRunB_stable_D { d with md := { d.md with segs := segs0, nextID := d.md.nextID - 1 } } st
  simp only at this ⊢
  rw [this]
  rfl

/-- the disk after `set`: unchanged (the commit failed) or only the stable store changed -/
theorem runOp_set_disk_D (p : Proc) (key val : Nat) (pl : Plan) :
    (runOp p (.set key val) pl).1.frozen = p.frozen ∧
    ((runOp p (.set key val) pl).1.disk = p.disk ∨
     (runOp p (.set key val) pl).1.disk =
       { p.disk with md := { p.disk.md with stable := upsert p.disk.md.stable key val } }) := by
  cases pl with
  | nil => exact ⟨rfl, Or.inr rfl⟩
  | cons o pl =>
    cases o with
    | none => exact ⟨rfl, Or.inr rfl⟩
    | some wf => exact ⟨rfl, Or.inl rfl⟩

theorem finvS_set (p : Proc) (hi : FInvS p) (key val : Nat) (pl : Plan) :
    FInvS (runOp p (.set key val) pl).1 := by
  obtain ⟨hf, hd⟩ := runOp_set_disk_D p key val pl
  generalize (runOp p (.set key val) pl).1 = q at hf hd
  obtain ⟨qd, qf⟩ := q
  simp only at hf hd
  subst hf
  rcases hd with rfl | rfl
  · exact hi
  · obtain ⟨h1, h2⟩ := hi
    unfold FInvS FInv finvB fextraB at *
    cases hfz : p.frozen with
    | none =>
      simp only [hfz] at h1 h2 ⊢
      exact ⟨by rw [finvRunB_stable_D]; exact h1, by rw [fextraRunB_stable]; exact h2⟩
    | some segs0 =>
      simp only [hfz] at h1 h2 ⊢
      exact ⟨by rw [finvStopB_stable_D]; exact h1, by rw [fextraStopB_stable]; exact h2⟩

/-- a stopped process refuses every call but `set`: `FInvS` is kept -/
theorem finvS_call_stopped (p : Proc) (hi : FInvS p) (hs : p.frozen.isSome = true) (op : Op) (pl : Plan) :
    FInvS (runOp p op pl).1 := by
  cases op with
  | set key val => exact finvS_set p hi key val pl
  | store first es seals => simp only [runOp, hs, ↓reduceIte]; exact hi
  | delHead newMin => simp only [runOp, hs, ↓reduceIte]; exact hi
  | delTail newMax => simp only [runOp, hs, ↓reduceIte]; exact hi

/-! ### a fresh process satisfies the invariant -/

theorem strip_quiescent_D {d : Disk} (hq : Quiescent d) : strip d = d := by
  obtain ⟨P, t, h⟩ := (quiescent_iff d).1 hq
  unfold strip
  have : d.files.filter (fun f => d.md.segs.any (fun s => s.id == f.id)) = d.files := by
    apply List.filter_eq_self.2
    intro f hf
    obtain ⟨s, hs, e⟩ := h.sub f hf
    rw [h.segs]
    exact List.any_eq_true.2 ⟨s, hs, by simp [e]⟩
  rw [this]

theorem cleanTail_quiescent_D {d : Disk} (hq : Quiescent d) : cleanTail d = d := by
  obtain ⟨P, t, h⟩ := (quiescent_iff d).1 hq
  obtain ⟨f, hf, hqt⟩ := h.tail
  have ht : d.md.segs.getLast? = some t := by rw [h.segs]; simp
  rw [cleanTail_eq_D ht]
  have : updFile d.files t.id File.clean_D = d.files := by
    apply updFile_self_D
    intro g hg hid
    have hgf := file?_of_mem h.nodupF hg
    rw [hid, hf] at hgf
    cases hgf
    cases f
    simp only [File.clean_D]
    have h1 := hqt.pend
    have h2 := hqt.sp
    have h3 := hqt.ss
    simp only at h1 h2 h3
    rw [h1, h2, h3]
  rw [this]

/-- `Fresh p → FInv p` -/
theorem fresh_inv_D (p : Proc) (h : Fresh p) : FInv p := by
  obtain ⟨hqs, hfz⟩ := h
  have hq := hqs.1
  obtain ⟨P, t, hi⟩ := (quiescent_iff _).1 hq
  obtain ⟨f, hf, hqt⟩ := hi.tail
  have ht : p.disk.md.segs.getLast? = some t := by rw [hi.segs]; simp
  have hclean := quiescent_files_clean_D hq
  unfold FInv finvB
  rw [hfz]
  simp only
  unfold finvRunB
  rw [strip_quiescent_D hq, cleanTail_quiescent_D hq, (quiescentSB_iff _).2 hqs, ht]
  simp only [hf, hqt.ss, Bool.not_false, Bool.true_or, Bool.and_true, Bool.true_and, Bool.and_eq_true,
    List.all_eq_true, decide_eq_true_eq, Bool.or_eq_true, Bool.not_eq_eq_eq_not, Bool.not_true]
  refine ⟨⟨⟨?_, ?_⟩, ?_⟩, ?_⟩
  · exact (nodupB_iff _).2 hi.nodupF
  · intro g hg
    obtain ⟨s, hs, e⟩ := hi.sub g hg
    rw [← e]; exact hi.idlt s hs
  · intro g hg
    cases hh : g.hsynced with
    | false => exact Or.inl rfl
    | true => exact Or.inr (hqs.2.1 g hg hh)
  · intro g hg
    obtain ⟨h1, h2⟩ := hclean g hg
    refine Or.inr ?_
    simp [h1, h2]

/-- **fresh_inv** -/
theorem fresh_invS : fresh_inv_stmt := fun p h => ⟨fresh_inv_D p h, fresh_extra p h⟩

end RaftWal.Fault.D
