/-
  Proofs/FaultLemmasC3.lean — the steps of a tail truncation on an `FR` state: a write over the leftover batch, the
  fsync of ForceSeal, the commit of the new tail and the creation of its file, the stopped state.
-/
import RaftWal.Proofs.FaultLemmasC2
namespace RaftWal.Fault.C
open RaftWal.Crash

/-! ### a write to the writer's offset (or what a failed one leaves) -/

def spf (es : List Entry) (sl : Bool) (f : File) : File := { f with pending := es, sealedP := sl }

def setP (d : Disk) (id : Nat) (es : List Entry) (sl : Bool) : Disk :=
  { d with files := updFile d.files id (spf es sl) }

theorem applyF_write (d : Disk) (id : Nat) (es : List Entry) (sl : Bool) :
    applyF d (.write id es sl) = setP d id es sl := rfl

theorem failEffect_write (d : Disk) (wf : WriteFail) (id : Nat) (es : List Entry) (sl : Bool) :
    failEffect d wf (.write id es sl) =
      match wf with
      | .nothing => d
      | .garbage => setP d id [] false
      | .whole => setP d id es sl := by
  cases wf <;> rfl

theorem setP_md (d : Disk) (id : Nat) (es : List Entry) (sl : Bool) : (setP d id es sl).md = d.md := rfl

theorem setP_file? (d : Disk) (id : Nat) (es : List Entry) (sl : Bool) (j : Nat) :
    (setP d id es sl).file? j = if j = id then (d.file? j).map (spf es sl) else d.file? j := by
  simp only [file?_eq_look, setP]
  exact look_updFile d.files id (spf es sl) (fun _ => rfl) j

theorem fids_setP (d : Disk) (id : Nat) (es : List Entry) (sl : Bool) : fids (setP d id es sl) = fids d :=
  map_id_updFile _ _ _ (fun _ => rfl)

theorem HL_setP {d : Disk} (h : HL d) (id : Nat) (es : List Entry) (sl : Bool) : HL (setP d id es sl) := by
  intro j g hg hh
  rw [setP_file?] at hg
  split at hg
  · cases h0 : d.file? j with
    | none => rw [h0] at hg; cases hg
    | some g0 =>
      rw [h0] at hg; cases hg
      exact h j g0 h0 hh
  · exact h j g hg hh

theorem FR.setP {d : Disk} {P : List Seg} {t : Seg} {f : File} (h : FR d P t f) (hss : f.sealedS = false)
    (es : List Entry) (sl : Bool) :
    FR (setP d t.id es sl) P t (spf es sl f) ∧ logP (setP d t.id es sl) P = logP d P := by
  have hb := h.base
  have hst := hb.step (d' := C.setP d t.id es sl) rfl
    (fun s hs => keeps_of_eq (by rw [setP_file?]; simp [hb.tid_ne s hs]))
    (by rw [fids_setP]; exact hb.nodupF) (by rw [fids_setP]; exact hb.fidlt) (HL_setP hb.hl _ _ _)
  refine ⟨⟨hst.1, by rw [setP_file?]; simp [h.tf], h.fb, h.lk, h.mn, h.vis, ?_⟩, hst.2⟩
  intro hc
  have : (spf es sl f).sealedS = f.sealedS := rfl
  rw [this, hss] at hc; cases hc

/-! ### the fsync of ForceSeal -/

theorem FR.fsync {d : Disk} {P : List Seg} {t : Seg} {f : File} (h : FR d P t f) (hp : f.pending = []) :
    ∃ f', FR (d.apply (.fsync t.id)) P t f' ∧ logP (d.apply (.fsync t.id)) P = logP d P ∧ f'.base = f.base ∧
      f'.synced = f.synced ∧ f'.pending = [] ∧ f'.sealedS = (f.sealedS || f.sealedP) ∧ f'.linked = true := by
  have hb := h.base.fsync t.id h.base.tid_ne
  obtain ⟨f', hf', h1, h2, h3, h4, h5, h6, _⟩ := fsync_file h.base.hl h.tf
  have h2' : f'.synced = f.synced := by rw [h2, hp, List.append_nil]
  exact ⟨f', ⟨hb.1, hf', h1.trans h.fb, Or.inl h6, by rw [h1, h2']; exact h.mn, by rw [h1, h2']; exact h.vis,
    fun _ => ⟨h3, h5⟩⟩, hb.2, h1, h2', h3, h4, h6⟩

/-! ### to and from the recovery invariant -/

theorem FR.toRec {d : Disk} {P : List Seg} {t : Seg} {f : File} (h : FR d P t f) (hsyn : f.synced ≠ []) :
    Rec (fun _ => True) d P t := by
  refine ⟨h.base, ?_, ?_⟩
  · intro g hg
    rw [h.tf] at hg; cases hg
    refine ⟨h.fb, ?_, h.mn, h.vis, ?_, ?_, trivial, trivial⟩
    · rcases h.lk with h1 | h1
      · exact Or.inl h1
      · exact absurd h1 hsyn
    · intro hs
      have := h.ss hs
      exact ⟨this.1, this.2, hsyn⟩
    · intro _ hc
      exact hsyn (List.append_eq_nil_iff.1 hc).1
  · intro hn; rw [h.tf] at hn; cases hn

theorem FR.ofRec {A : Log → Prop} {d : Disk} {P : List Seg} {t : Seg} {f : File} (h : Rec A d P t)
    (hf : d.file? t.id = some f) : FR d P t f ∧ A (rlog d P t f) := by
  have hr := h.tsome f hf
  refine ⟨⟨h.base, hf, hr.base, ?_, hr.mn, hr.vis, fun hs => ⟨(hr.ss hs).1, (hr.ss hs).2.1⟩⟩, hr.a1⟩
  rcases hr.lk with h1 | h1
  · exact Or.inl h1
  · exact Or.inr h1.1

/-! ### the two further conjuncts of `FInvS` -/

theorem FR.fextra_of_syn {d : Disk} {P : List Seg} {t : Seg} {f : File} (h : FR d P t f) (hsyn : f.synced ≠ []) :
    fextraRunB d = true := by
  unfold fextraRunB; rw [h.last]; simp only [h.tf]; simp [hsyn]

theorem FR.fextra_of_unsealed {d : Disk} {P : List Seg} {t : Seg} {f : File} (h : FR d P t f)
    (h1 : f.sealedS = false) (h2 : f.sealedP = false) : fextraRunB d = true := by
  unfold fextraRunB; rw [h.last]; simp only [h.tf]; simp [h1, h2]

/-- a committed segment list that is well-formed up to its tail's file -/
theorem fextraStop_of_base {d : Disk} {P : List Seg} {t : Seg} (hb : Base d P t) (hm : t.min = t.base) :
    fextraStopB d = true := by
  have hl : d.md.segs.getLast? = some t := by rw [hb.segs]; simp
  have hd : d.md.segs.dropLast = P := by rw [hb.segs]; simp
  unfold fextraStopB; rw [hl]
  simp only [Bool.and_eq_true, List.all_eq_true, fileOK_false_iff, nodupB_iff, decide_eq_true_eq, hd]
  refine ⟨⟨⟨⟨⟨hb.sealed, ?_⟩, ?_⟩, ?_⟩, hm⟩, hb.tb1⟩
  · rw [hb.segs]; exact hb.chain
  · rw [hb.segs]; exact hb.nodupS
  · rw [hb.segs]; exact hb.idlt

/-! ### the stopped state: the commit of a new tail whose file could not be created -/

theorem restore_eq (d : Disk) (sg : List Seg) :
    ({ d.apply (.commit ⟨d.md.nextID + 1, sg, d.md.stable⟩) with
        md := { (d.apply (.commit ⟨d.md.nextID + 1, sg, d.md.stable⟩)).md with
          segs := d.md.segs, nextID := (d.apply (.commit ⟨d.md.nextID + 1, sg, d.md.stable⟩)).md.nextID - 1 } } : Disk) = d := by
  cases d with
  | mk md files =>
    cases md with
    | mk n s st => simp [Disk.apply]

theorem fresh_none {d : Disk} {P : List Seg} {t : Seg} (hb : Base d P t) : d.file? d.md.nextID = none := by
  rw [file?_none_iff]; intro hc; exact Nat.lt_irrefl _ (hb.fidlt _ hc)

theorem FR.stop {d : Disk} {P : List Seg} {t : Seg} {f : File} (h : FR d P t f) (sg : List Seg) (b : Nat) :
    finvStopB (d.apply (.commit ⟨d.md.nextID + 1, sg ++ [newSeg d.md.nextID b], d.md.stable⟩)) d.md.segs = true := by
  unfold finvStopB
  rw [restore_eq, h.finvRunB]
  have h3 : (sg ++ [newSeg d.md.nextID b]).getLast? = some (newSeg d.md.nextID b) := by simp
  simp only [apply_commit_md, h3, apply_commit_file?]
  simp [newSeg, fresh_none h.base]

theorem FInv_stop {d : Disk} {P : List Seg} {t : Seg} {f : File} (h : FR d P t f) (sg : List Seg) (b : Nat) :
    FInv { disk := d.apply (.commit ⟨d.md.nextID + 1, sg ++ [newSeg d.md.nextID b], d.md.stable⟩),
           frozen := some d.md.segs } :=
  h.stop sg b

theorem FInv_run {d : Disk} {P : List Seg} {t : Seg} {f : File} (h : FR d P t f) : FInv { disk := d } :=
  h.finvRunB

/-- readers of the stopped process see what they saw -/
theorem view_stop (d : Disk) (m : Meta) (segs0 : List Seg) :
    view { disk := d.apply (.commit m), frozen := some segs0 } = logP (vdisk d) segs0 := rfl

/-! ### commit of the rotation and creation of the next tail's file (the kept tail is durably sealed) -/

theorem FR.rotated {d : Disk} {P : List Seg} {t : Seg} {f : File} (h : FR d P t f) (hss : f.sealedS = true)
    {mx : Nat} (hmn : t.min ≤ mx) (hmx : mx < f.base + f.synced.length) (A : Log → Prop)
    (ha : A (logP d P ++ visF f (sealSeg t mx))) :
    A (absLog (d.apply (rotCommit d P t mx))) ∧
    FR ((d.apply (rotCommit d P t mx)).apply (.create d.md.nextID (mx + 1))) (P ++ [sealSeg t mx])
      (newSeg d.md.nextID (mx + 1)) (File.fresh d.md.nextID (mx + 1)) ∧
    A (rlog ((d.apply (rotCommit d P t mx)).apply (.create d.md.nextID (mx + 1))) (P ++ [sealSeg t mx])
      (newSeg d.md.nextID (mx + 1)) (File.fresh d.md.nextID (mx + 1))) ∧
    fextraStopB (d.apply (rotCommit d P t mx)) = true ∧ f.synced ≠ [] := by
  have hsyn : f.synced ≠ [] := by
    intro hc
    have := h.base.tbm
    have := h.fb
    rw [hc] at hmx; simp at hmx; omega
  have h3 : Rec A (d.apply (rotCommit d P t mx)) (P ++ [sealSeg t mx]) (newSeg d.md.nextID (mx + 1)) :=
    (h.toRec hsyn).rotate h.tf hss mx hmn hmx d.md.stable ha
  have hnone : (d.apply (rotCommit d P t mx)).file? (newSeg d.md.nextID (mx + 1)).id = none := fresh_none h.base
  have h4 := h3.create hnone
  have hf4 : ((d.apply (rotCommit d P t mx)).apply (.create d.md.nextID (mx + 1))).file?
      (newSeg d.md.nextID (mx + 1)).id = some (File.fresh d.md.nextID (mx + 1)) := by
    have := apply_create_file? _ _ (mx + 1) hnone d.md.nextID
    simpa [newSeg] using this
  refine ⟨?_, (FR.ofRec h4 hf4).1, (FR.ofRec h4 hf4).2, fextraStop_of_base h3.base rfl, hsyn⟩
  have := (h3.tnone hnone).2
  rw [Crash.absLog_eq, h3.base.segs, logP_append, logP_single, segEntries_none hnone, List.append_nil]
  exact this

end RaftWal.Fault.C
