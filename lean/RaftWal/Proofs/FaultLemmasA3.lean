/-
  Proofs/FaultLemmasA3.lean — what readers see (`view`) and what the disk stands for (`absLog`) in an `FRun` state;
  where a legal StoreLogs lands; `runActs` on the short action lists of StoreLogs.
-/
import RaftWal.Proofs.FaultLemmasA2
namespace RaftWal.Fault.A
open RaftWal.Crash

/-! ### logs depend on the segment list and the files only -/

theorem segEntries_congr {d1 d2 : Disk} {s : Seg} (h : d1.file? s.id = d2.file? s.id) :
    segEntries d1 s = segEntries d2 s := by
  rw [segEntries_eq, segEntries_eq, h]

theorem segEntries_files {d1 d2 : Disk} (h : d1.files = d2.files) (s : Seg) : segEntries d1 s = segEntries d2 s :=
  segEntries_congr (by simp only [Disk.file?, h])

theorem logP_files {d1 d2 : Disk} (h : d1.files = d2.files) (P : List Seg) : logP d1 P = logP d2 P := by
  unfold logP
  exact flatMap_congr' (fun s _ => segEntries_files h s)

theorem absLog_congr {d1 d2 : Disk} (hs : d1.md.segs = d2.md.segs) (hf : d1.files = d2.files) : absLog d1 = absLog d2 := by
  rw [absLog_eq, absLog_eq, hs]; exact logP_files hf _

theorem view_run (d : Disk) : view { disk := d } = absLog (vdisk d) := rfl

theorem view_none {p : Proc} (h : p.frozen = none) : view p = absLog (vdisk p.disk) := by
  unfold view; rw [h]; rfl

theorem view_stop (d : Disk) (segs0 : List Seg) :
    view { disk := d, frozen := some segs0 } = logP (vdisk d) segs0 := rfl

theorem proc_eta {p : Proc} (h : p.frozen = none) : ({ disk := p.disk } : Proc) = p := by
  cases p; simp at h; subst h; rfl

/-! ### the two logs of an `FRun` state -/

theorem vfile_content (f : File) : (vfile f).content = f.synced := by simp [vfile, File.content]

theorem FRun.logP_vdisk {d : Disk} {P : List Seg} {t : Seg} {f : File} (h : FRun d P t f) :
    logP (vdisk d) P = logP d P := by
  unfold logP
  apply flatMap_congr'
  intro s hs
  obtain ⟨g, hg, hsf⟩ := h.base.sealed s hs
  have hv : (vdisk d).file? s.id = some (vfile g) := by rw [vdisk_file?, hg]; rfl
  rw [segEntries_some hv, segEntries_some hg]
  exact visF_congr (f := g) (f' := vfile g) s rfl (by rw [vfile_content]; simp [File.content, hsf.pend])

/-- what readers see -/
theorem FRun.view_eq {d : Disk} {P : List Seg} {t : Seg} {f : File} (h : FRun d P t f) :
    absLog (vdisk d) = logP d P ++ visU t.min f.base f.synced := by
  have hv : (vdisk d).file? t.id = some (vfile f) := by rw [vdisk_file?, h.tf]; rfl
  rw [absLog_eq, vdisk_md, h.base.segs, logP_append, logP_single, h.logP_vdisk, segEntries_some hv,
    visF_unsealed h.base.tsl, vfile_content]
  rfl

/-- what the disk stands for -/
theorem FRun.log_eq {d : Disk} {P : List Seg} {t : Seg} {f : File} (h : FRun d P t f) :
    absLog d = logP d P ++ visU t.min f.base (f.synced ++ f.pending) := by
  rw [absLog_eq, h.base.segs, logP_append, logP_single, segEntries_some h.tf, visF_unsealed h.base.tsl]
  rfl

theorem FRun.log_eq_view {d : Disk} {P : List Seg} {t : Seg} {f : File} (h : FRun d P t f) (hp : f.pending = []) :
    absLog d = absLog (vdisk d) := by
  rw [h.log_eq, h.view_eq, hp, List.append_nil]

theorem FRun.cln_log {d : Disk} {P : List Seg} {t : Seg} {f : File} (h : FRun d P t f) :
    absLog (cleanTail (strip d)) = absLog (vdisk d) := by
  rw [h.clean.1.log_eq, h.clean.2, h.view_eq]; rfl

/-- readers see nothing: no sealed segment, an empty tail file -/
theorem FRun.empty {d : Disk} {P : List Seg} {t : Seg} {f : File} (h : FRun d P t f) (he : absLog (vdisk d) = []) :
    P = [] ∧ f.synced = [] := by
  have := h.clean.1.toQO.empty (by rw [h.cln_log]; exact he)
  exact this

theorem lastIndex_eq_llast (d : Disk) : lastIndex d = llast (absLog d) := rfl

/-- where the entries of a legal StoreLogs land when the tail is not replaced -/
theorem FRun.first_eq {d : Disk} {P : List Seg} {t : Seg} {f : File} (h : FRun d P t f) {first : Nat}
    {es : List Entry} {sl : Bool} (hok : OkV (absLog (vdisk d)) (.store first es sl))
    (hno : ¬ ((absLog (vdisk d)).isEmpty ∧ t.base ≠ first)) : first = f.base + f.synced.length := by
  have hq := h.clean.1.toQO
  have hok' : (Op.store first es sl).ok (cleanTail (strip d)) := by
    refine ⟨hok.1, hok.2.1, ?_⟩
    rw [lastIndex_eq_llast, h.cln_log]
    exact hok.2.2
  have := store_first hq hok' (by rw [h.cln_log]; exact hno)
  exact this

theorem FRun.specApply_eq {d : Disk} {P : List Seg} {t : Seg} {f : File} (h : FRun d P t f) (es : List Entry) :
    logP d P ++ visU t.min f.base (f.synced ++ es) = absLog (vdisk d) ++ idxFrom (f.base + f.synced.length) es := by
  rw [h.view_eq, visU_append, visU_all es h.ft.mn, List.append_assoc]

/-! ### `runActs` on short lists -/

theorem runActs_nil (d : Disk) (pl : Plan) : runActs d [] pl = (d, none, pl) := by
  unfold runActs; rfl

theorem runActs_cons_nil (d : Disk) (a : Act) (as : List Act) :
    runActs d (a :: as) [] = runActs (applyF d a) as [] := by
  rw [runActs]

theorem runActs_cons_none (d : Disk) (a : Act) (as : List Act) (pl : Plan) :
    runActs d (a :: as) (none :: pl) = runActs (applyF d a) as pl := by
  rw [runActs]

theorem runActs_fail_delete (d : Disk) (wf : WriteFail) (j : Nat) (as : List Act) (pl : Plan) :
    runActs d (.delete j :: as) (some wf :: pl) = runActs d as pl := by
  rw [runActs]

theorem runActs_fail_commit (d : Disk) (wf : WriteFail) (m : Meta) (as : List Act) (pl : Plan) :
    runActs d (.commit m :: as) (some wf :: pl) = (d, some (.commit m), pl) := by
  simp [runActs, failEffect]

theorem runActs_fail_create (d : Disk) (wf : WriteFail) (i b : Nat) (as : List Act) (pl : Plan) :
    runActs d (.create i b :: as) (some wf :: pl) = (d, some (.create i b), pl) := by
  simp [runActs, failEffect]

theorem runActs_fail_fsync (d : Disk) (wf : WriteFail) (i : Nat) (as : List Act) (pl : Plan) :
    runActs d (.fsync i :: as) (some wf :: pl) = (d, some (.fsync i), pl) := by
  simp [runActs, failEffect]

theorem runActs_fail_write (d : Disk) (wf : WriteFail) (i : Nat) (es : List Entry) (sl : Bool) (as : List Act)
    (pl : Plan) :
    runActs d (.write i es sl :: as) (some wf :: pl) = (failEffect d wf (.write i es sl), some (.write i es sl), pl) := by
  simp [runActs]

/-- one action that goes through, whatever the plan says about the rest -/
theorem runActs_ok_cons (d : Disk) (a : Act) (as : List Act) (pl : Plan) (h : pl.head? ≠ some none → pl = []) :
    ∃ pl', runActs d (a :: as) pl = runActs (applyF d a) as pl' := by
  match pl with
  | [] => exact ⟨[], runActs_cons_nil d a as⟩
  | none :: pl => exact ⟨pl, runActs_cons_none d a as pl⟩
  | some wf :: pl => exact absurd (h (by simp)) (by simp)

/-- the deferred deletion of StoreLogs: nothing, or one file; a failure is ignored -/
theorem runActs_del (d : Disk) (del : List Act) (j : Nat) (hdel : del = [] ∨ del = [.delete j])
    (pl : Plan) : ∃ d' pl', runActs d del pl = (d', none, pl') ∧ (d' = d ∨ d' = d.apply (.delete j)) := by
  rcases hdel with rfl | rfl
  · exact ⟨d, pl, runActs_nil d pl, Or.inl rfl⟩
  · match pl with
    | [] => exact ⟨d.apply (.delete j), [], by rw [runActs_cons_nil, runActs_nil]; rfl, Or.inr rfl⟩
    | none :: pl => exact ⟨d.apply (.delete j), pl, by rw [runActs_cons_none, runActs_nil]; rfl, Or.inr rfl⟩
    | some wf :: pl => exact ⟨d, pl, by rw [runActs_fail_delete, runActs_nil], Or.inl rfl⟩

end RaftWal.Fault.A
