/-
  Proofs/L1L2Link.lean — the mechanised link between the byte-level segment model (L1: Model/Segment.lean,
  Proofs/SegmentChain.lean) and the durability-protocol model (L2: Model/Crash.lean, Proofs/Crash*.lean).

  Model/Crash.lean abstracts a segment file to (fsynced entries, pending batch, sealed flags) and lets a power loss
  keep the pending batch in full or drop it in full (`File.afterPower`); its header refers to the byte-level theorem
  C02 for the claim that a torn batch is recovered as absent or whole.  This file replaces the reference by theorems.

  L2 counterpart of an L1 chain (`l2Run`, `l2Disk`, `l2Events`), on the disk that holds the one tail file `info.id`
  (meta store: the unsealed tail `newSeg info.id info.base`; file made by the real `.create`), using the REAL L2
  functions only:
      append b      ↦ `Disk.apply (.write id (b.map tag) sealing)`, `Disk.apply (.fsync id)`        (`dAppend`)
      restart       ↦ `Disk.crash .proc`, then `openResult` (the whole of Open: `openProg` + `applyAll`) (`dRestart`)
      torn b mask   ↦ `.write`, `Disk.crash (.power keepPending keepUnlinked)` with `keepPending id = keep`,
                      `keepUnlinked = true`, then `openResult`                                       (`dTorn`)
  `sealing` is L1's decision for that append (`l1Seals`: the index frame was written), `tag : Bytes → Entry` is
  arbitrary.  File-level closed forms of these disk steps: `apply_write_one`, `apply_fsync_one`, `crash_proc_one`,
  `crash_power_one`, `open_tail_unsealed`, `open_tail_sealed`, `restart_rot` (`fWrite`, `fFsync`, `fPower`, `fProc`,
  `fRecover`).  Open of a sealed tail completes the rotation (meta commit, next tail created): the disk then has
  two files (`RotShape`) and later restarts leave the sealed file alone.

  RESULTS
    * `l1_refines_l2_file` (MAIN): for every chain with `ChainWF`, CRC-32C collision (`ChainCollision`, the residual
      of `chain_atomic`) or `∃ w file bs keep, LinkResult …`: the byte-level conclusion `ChainResult` AND the L2 file
      `l2Events info tag evs keep` has `content = bs.flatten.map tag`, `pending = []`,
      `isSealed = decide (w.indexStart > 0)`, id/base of `info`; `keep` has one entry per torn event and
      `bs = keptBatches evs keep` (which satisfies `chainSpec`: `chainSpec_kept`).
    * `l1_refines_l2_file_of_run`: the same for every chain that runs without error (`ChainSizes` only).
    * `l1_l2_read`: entry `k` of the L2 content is the tag of what L1's `getLog` returns at `base + k`.
    * `l2_outcomes_realised` (converse): for every `keep` (one per torn event) the chain with masks all-true /
      all-false (`setMasks`) runs WITHOUT residual to the state `keep` selects, and the L2 run describes it.
    * non-vacuity on `chainExInfo` / `chainExEvs`.
  Both directions come from one simulation, `link_sim`, parametrised by the case analysis of a torn step (`TornHyp`).
-/
import RaftWal.Proofs.SegmentChain
import RaftWal.Model.Crash
namespace RaftWal
open Crash
open Spec (Acc Batch addEntry addBatch)

/-! ## the L2 side: real L2 actions and crashes on the disk that holds the one tail file -/

/-- the directory right after `createNextSegment` committed and created the tail `id` (base `base`): the meta store
    lists it as the unsealed tail, the file exists (real `.create`: empty, directory entry not yet durable) -/
def l2Fresh (id base : Nat) : Disk :=
  Disk.apply { md := { nextID := id + 1, segs := [newSeg id base], stable := [] }, files := [] } (.create id base)

/-- acknowledged append: `write` then `fsync` (what `storeProg` issues for the tail) -/
def dAppend (id : Nat) (d : Disk) (es : List Entry) (sealing : Bool) : Disk :=
  (d.apply (.write id es sealing)).apply (.fsync id)

/-- Open: the real `openResult` (the disk is left as it is if Open refuses) -/
def dOpen (d : Disk) : Disk := (openResult d).getD d

/-- restart: process crash, then Open -/
def dRestart (d : Disk) : Disk := dOpen (d.crash .proc)

/-- torn append: `write`, power loss (`keepPending id = keep`; directory entries survive), then Open -/
def dTorn (id : Nat) (d : Disk) (es : List Entry) (sealing keep : Bool) : Disk :=
  dOpen ((d.apply (.write id es sealing)).crash (.power (fun i => decide (i = id) && keep) (fun _ => true)))

/-- L1's sealing decision for the append of `b` in state `s` (an input of the L2 call) -/
def l1Seals (info : SegInfo) (s : Writer × Bytes) (b : List Bytes) : Bool :=
  decide (0 < (s.1.append s.2 (indexBatch (chainNext info s.1) b) .none).2.1.indexStart)

/-- the L2 run that corresponds to the L1 chain `evs` from L1 state `s` / L2 disk `d`; `ks`: for every `torn`
    event, in order, whether the batch survived the power loss -/
def l2Run (info : SegInfo) (tag : Bytes → Entry) : (Writer × Bytes) → Disk → List ChainEv → List Bool → Disk
  | _, d, [], _ => d
  | s, d, e :: evs, ks =>
    let s' := match chainStep info s e with | .ok s' => s' | .error _ => s
    match e with
    | .append b => l2Run info tag s' (dAppend info.id d (b.map tag) (l1Seals info s b)) evs ks
    | .restart => l2Run info tag s' (dRestart d) evs ks
    | .torn b _ => l2Run info tag s' (dTorn info.id d (b.map tag) (l1Seals info s b) (ks.headD false)) evs ks.tail

def l2Disk (info : SegInfo) (tag : Bytes → Entry) (evs : List ChainEv) (keep : List Bool) : Disk :=
  l2Run info tag (freshSegment info) (l2Fresh info.id info.base) evs keep

/-- the `Crash.File` the L2 counterpart of the chain reaches -/
def l2Events (info : SegInfo) (tag : Bytes → Entry) (evs : List ChainEv) (keep : List Bool) : File :=
  ((l2Disk info tag evs keep).file? info.id).getD default

/-! ## the ghost outcome determined by `keep` -/

def tornCount : List ChainEv → Nat
  | [] => 0
  | .torn _ _ :: evs => tornCount evs + 1
  | .append _ :: evs => tornCount evs
  | .restart :: evs => tornCount evs

/-- the batches the file holds when the torn events survive according to `ks` -/
def keptBatches : List ChainEv → List Bool → List (List Bytes)
  | [], _ => []
  | .append b :: evs, ks => b :: keptBatches evs ks
  | .restart :: evs, ks => keptBatches evs ks
  | .torn b _ :: evs, ks => if ks.headD false then b :: keptBatches evs ks.tail else keptBatches evs ks.tail

theorem chainSpec_kept (evs : List ChainEv) (ks : List Bool) : chainSpec evs (keptBatches evs ks) := by
  induction evs generalizing ks with
  | nil => rfl
  | cons e evs ih =>
    cases e with
    | append b => exact ⟨_, rfl, ih ks⟩
    | restart => exact ih ks
    | torn b m =>
      simp only [keptBatches]
      split
      · exact Or.inr ⟨_, rfl, ih _⟩
      · exact Or.inl (ih _)

/-! ## file-level closed forms of the L2 steps on a disk whose only file is `f` -/

def fWrite (f : File) (es : List Entry) (sealing : Bool) : File :=
  { f with pending := f.pending ++ es, sealedP := f.sealedP || sealing }

def fFsync (f : File) : File :=
  { f with synced := f.synced ++ f.pending, pending := [], sealedS := f.sealedS || f.sealedP, sealedP := false,
           hsynced := true, linked := f.linked || !f.hsynced }

def fPower (keep : Bool) (f : File) : File :=
  { f with synced := if keep then f.synced ++ f.pending else f.synced, pending := [],
           sealedS := f.sealedS || (keep && f.sealedP), sealedP := false, linked := true, hsynced := false }

def fProc (f : File) : File := { f with hsynced := false }

/-- recovery's fsync: issued unless the file shows no commit at all -/
def fRecover (f : File) : File := if f.content.isEmpty && !f.isSealed then f else fFsync f

theorem apply_write_one (d : Disk) (f : File) (h : d.files = [f]) (es : List Entry) (s : Bool) :
    d.apply (.write f.id es s) = { d with files := [fWrite f es s] } := by
  simp [Disk.apply, updFile, h, fWrite]

theorem apply_fsync_one (d : Disk) (f : File) (h : d.files = [f]) :
    d.apply (.fsync f.id) = { d with files := [fFsync f] } := by
  cases hh : f.hsynced <;> simp [Disk.apply, updFile, h, fFsync, Disk.file?, hh]

theorem crash_proc_one (d : Disk) (f : File) (h : d.files = [f]) :
    d.crash .proc = { d with files := [fProc f] } := by
  simp [Disk.crash, h, fProc]

theorem crash_power_one (d : Disk) (f : File) (h : d.files = [f]) (kp : Nat → Bool) :
    d.crash (.power kp (fun _ => true)) = { d with files := [fPower (kp f.id) f] } := by
  simp [Disk.crash, h, fPower, File.afterPower]

/-! ## Open on the two shapes the disk takes -/

/-- the file is the unsealed tail the meta store lists, and the only file -/
structure TailShape (id base : Nat) (d : Disk) (f : File) : Prop where
  files : d.files = [f]
  fid   : f.id = id
  segs  : d.md.segs = [newSeg id base]
  next  : d.md.nextID = id + 1

/-- Open completed the rotation: the file is recorded as sealed, an empty next tail follows it -/
structure RotShape (id : Nat) (d : Disk) (f : File) : Prop where
  rot : ∃ g s1 s2, d.files = [f, g] ∧ d.md.segs = [s1, s2] ∧ s1.id = id ∧ s1.sealed = true ∧ s2.id = id + 1
          ∧ s2.sealed = false ∧ f.id = id ∧ g.id = id + 1 ∧ g.synced = [] ∧ g.pending = [] ∧ g.sealedS = false
          ∧ g.sealedP = false

theorem l2Fresh_shape (id base : Nat) :
    TailShape id base (l2Fresh id base)
      { id := id, base := base, synced := [], pending := [], sealedS := false, sealedP := false, linked := false,
        hsynced := false } := by
  refine ⟨?_, rfl, rfl, rfl⟩
  simp [l2Fresh, Disk.apply, Disk.file?]

theorem open_tail_unsealed {id base : Nat} {d : Disk} {f : File} (h : TailShape id base d f)
    (hs : f.isSealed = false) : dOpen d = { d with files := [fRecover f] } := by
  obtain ⟨h1, h2, h3, h4⟩ := h
  subst h2
  have hf : d.file? f.id = some f := by simp [Disk.file?, h1]
  by_cases he : f.content.isEmpty = true
  · simp [dOpen, openResult, openProg, h3, newSeg, hf, hs, he, orphanDeletes, h1, Disk.applyAll, fRecover]
    cases d; simp_all
  · simp [dOpen, openResult, openProg, h3, newSeg, hf, hs, he, orphanDeletes, h1, Disk.applyAll, fRecover,
      apply_fsync_one d f h1]

/-- the meta store after Open completed the rotation of the sealed tail -/
def rotMeta (m : Meta) (id base last : Nat) : Meta :=
  { m with nextID := m.nextID + 1,
           segs := [{ newSeg id base with sealed := true, max := last }, newSeg m.nextID (last + 1)] }

theorem open_tail_sealed {id base : Nat} {d : Disk} {f : File} (h : TailShape id base d f)
    (hs : f.isSealed = true) : RotShape id (dOpen d) (fFsync f) := by
  obtain ⟨h1, h2, h3, h4⟩ := h
  subst h2
  have hf : d.file? f.id = some f := by simp [Disk.file?, h1]
  have hp : openProg d = some [.fsync f.id, .commit (rotMeta d.md f.id base f.lastIdx),
      .create d.md.nextID (f.lastIdx + 1)] := by
    simp [openProg, h3, newSeg, hf, hs, orphanDeletes, h1, newTailActs, setSeg, rotMeta]
  have ho : dOpen d = (((d.apply (.fsync f.id)).apply (.commit (rotMeta d.md f.id base f.lastIdx))).apply
                        (.create d.md.nextID (f.lastIdx + 1))) := by
    simp [dOpen, openResult, hp, Disk.applyAll]
  rw [ho, apply_fsync_one d f h1]
  refine ⟨?_⟩
  simp [Disk.apply, Disk.file?, h4, fFsync, newSeg, rotMeta]
  exact ⟨_, _, ⟨rfl, rfl⟩, rfl, rfl, rfl, rfl⟩

/-- a restart of the rotated directory leaves the sealed file alone -/
theorem restart_rot {id : Nat} {d : Disk} {f : File} (h : RotShape id d f) : RotShape id (dRestart d) (fProc f) := by
  obtain ⟨g, s1, s2, h1, h2, h3, h4, h5, h6, h7, h8, h9, h10, h11, h12⟩ := h
  have hc : d.crash .proc = { d with files := [fProc f, fProc g] } := by simp [Disk.crash, h1, fProc]
  have hp : openProg { d with files := [fProc f, fProc g] } = some [] := by
    simp [openProg, h2, h3, h4, h5, h6, h7, h8, Disk.file?, fProc, File.content, File.isSealed, h9, h10, h11, h12,
      orphanDeletes]
  have hr : dRestart d = { d with files := [fProc f, fProc g] } := by
    simp only [dRestart, dOpen, openResult, hc, hp]
    simp [Disk.applyAll]
  rw [hr]
  exact ⟨fProc g, s1, s2, rfl, h2, h3, h4, h5, h6, h7, h8, h9, h10, h11, h12⟩

/-- Open on the tail shape: the file is left as `fRecover` says; a sealed tail is rotated -/
theorem open_tail {id base : Nat} {d : Disk} {f : File} (h : TailShape id base d f) :
    (f.isSealed = false ∧ TailShape id base (dOpen d) (fRecover f))
    ∨ (f.isSealed = true ∧ RotShape id (dOpen d) (fRecover f)) := by
  cases hs : f.isSealed
  · left
    refine ⟨rfl, ?_⟩
    rw [open_tail_unsealed h hs]
    refine ⟨rfl, ?_, h.segs, h.next⟩
    rw [fRecover]; split
    · exact h.fid
    · exact h.fid
  · right
    refine ⟨rfl, ?_⟩
    have : fRecover f = fFsync f := by simp [fRecover, hs]
    rw [this]; exact open_tail_sealed h hs

theorem fRecover_fields (f : File) (hp : f.pending = []) (hsp : f.sealedP = false) :
    (fRecover f).id = f.id ∧ (fRecover f).base = f.base ∧ (fRecover f).synced = f.synced ∧ (fRecover f).pending = []
    ∧ (fRecover f).sealedS = f.sealedS ∧ (fRecover f).sealedP = false := by
  rw [fRecover]; split <;> simp [fFsync, hp, hsp]

theorem TailShape.file? {id base : Nat} {d : Disk} {f : File} (h : TailShape id base d f) : d.file? id = some f := by
  simp [Disk.file?, h.files, h.fid]

theorem RotShape.file? {id : Nat} {d : Disk} {f : File} (h : RotShape id d f) : d.file? id = some f := by
  obtain ⟨g, s1, s2, h1, _, _, _, _, _, h7, _⟩ := h
  simp [Disk.file?, h1, h7]

theorem dAppend_tail {id base : Nat} {d : Disk} {f : File} (h : TailShape id base d f) (es : List Entry) (s : Bool) :
    TailShape id base (dAppend id d es s) (fFsync (fWrite f es s)) := by
  obtain ⟨h1, h2, h3, h4⟩ := h
  subst h2
  rw [dAppend, apply_write_one d f h1]
  have := apply_fsync_one { d with files := [fWrite f es s] } (fWrite f es s) rfl
  rw [show (fWrite f es s).id = f.id from rfl] at this
  rw [this]
  exact ⟨rfl, rfl, h3, h4⟩

theorem dRestart_tail {id base : Nat} {d : Disk} {f : File} (h : TailShape id base d f) :
    ((fProc f).isSealed = false ∧ TailShape id base (dRestart d) (fRecover (fProc f)))
    ∨ ((fProc f).isSealed = true ∧ RotShape id (dRestart d) (fRecover (fProc f))) := by
  have h' : TailShape id base (d.crash .proc) (fProc f) := by
    rw [crash_proc_one d f h.files]; exact ⟨rfl, h.fid, h.segs, h.next⟩
  exact open_tail h'

theorem dTorn_tail {id base : Nat} {d : Disk} {f : File} (h : TailShape id base d f) (es : List Entry)
    (s keep : Bool) :
    ((fPower keep (fWrite f es s)).isSealed = false
        ∧ TailShape id base (dTorn id d es s keep) (fRecover (fPower keep (fWrite f es s))))
    ∨ ((fPower keep (fWrite f es s)).isSealed = true
        ∧ RotShape id (dTorn id d es s keep) (fRecover (fPower keep (fWrite f es s)))) := by
  obtain ⟨h1, h2, h3, h4⟩ := h
  subst h2
  have h' : TailShape f.id base ((d.apply (.write f.id es s)).crash
      (.power (fun i => decide (i = f.id) && keep) (fun _ => true))) (fPower keep (fWrite f es s)) := by
    rw [apply_write_one d f h1, crash_power_one _ (fWrite f es s) rfl]
    simp only [show (fWrite f es s).id = f.id from rfl, decide_true, Bool.true_and]
    exact ⟨rfl, rfl, h3, h4⟩
  exact open_tail h'

/-! ## the relation between the two levels -/

/-- L2 disk `d` and L1 writer `w` with ghost batches `bs` describe the same tail file -/
structure Rel (info : SegInfo) (tag : Bytes → Entry) (d : Disk) (w : Writer) (bs : List (List Bytes)) : Prop where
  ex : ∃ f, d.file? info.id = some f ∧ f.id = info.id ∧ f.base = info.base
        ∧ f.synced = bs.flatten.map tag ∧ f.pending = []
        ∧ f.sealedS = decide (w.indexStart > 0) ∧ f.sealedP = false
        ∧ (TailShape info.id info.base d f ∨ (RotShape info.id d f ∧ f.sealedS = true))

theorem rel_fresh (info : SegInfo) (tag : Bytes → Entry) :
    Rel info tag (l2Fresh info.id info.base) (freshSegment info).1 [] := by
  have h := l2Fresh_shape info.id info.base
  exact ⟨_, h.file?, rfl, rfl, rfl, rfl, rfl, rfl, Or.inl h⟩

/-- from a shape after Open to `Rel` -/
theorem rel_of_open {info : SegInfo} {tag : Bytes → Entry} {d : Disk} {f1 : File} {w : Writer}
    {bs : List (List Bytes)} (hid : f1.id = info.id) (hb : f1.base = info.base)
    (hsy : f1.synced = bs.flatten.map tag) (hp : f1.pending = []) (hss : f1.sealedS = decide (w.indexStart > 0))
    (hsp : f1.sealedP = false)
    (h : (f1.isSealed = false ∧ TailShape info.id info.base d (fRecover f1))
          ∨ (f1.isSealed = true ∧ RotShape info.id d (fRecover f1))) : Rel info tag d w bs := by
  obtain ⟨r1, r2, r3, r4, r5, r6⟩ := fRecover_fields f1 hp hsp
  rcases h with ⟨_, h⟩ | ⟨hs, h⟩
  · exact ⟨_, h.file?, r1.trans hid, r2.trans hb, r3.trans hsy, r4, r5.trans hss, r6, Or.inl h⟩
  · refine ⟨_, h.file?, r1.trans hid, r2.trans hb, r3.trans hsy, r4, r5.trans hss, r6, Or.inr ⟨h, ?_⟩⟩
    rw [r5]; simpa [File.isSealed, hsp] using hs

theorem Rel.tail {info : SegInfo} {tag : Bytes → Entry} {d : Disk} {w : Writer} {bs : List (List Bytes)}
    (h : Rel info tag d w bs) (hidx : w.indexStart = 0) :
    ∃ f, TailShape info.id info.base d f ∧ f.id = info.id ∧ f.base = info.base
        ∧ f.synced = bs.flatten.map tag ∧ f.pending = [] ∧ f.sealedS = false ∧ f.sealedP = false := by
  obtain ⟨f, _, h2, h3, h4, h5, h6, h7, h8⟩ := h
  have h6' : f.sealedS = false := by rw [h6, hidx]; rfl
  rcases h8 with h8 | ⟨_, h8⟩
  · exact ⟨f, h8, h2, h3, h4, h5, h6', h7⟩
  · rw [h6'] at h8; cases h8

theorem rel_restart {info : SegInfo} {tag : Bytes → Entry} {d : Disk} {w : Writer} {bs : List (List Bytes)}
    (h : Rel info tag d w bs) : Rel info tag (dRestart d) w bs := by
  obtain ⟨f, _, h2, h3, h4, h5, h6, h7, h8⟩ := h
  rcases h8 with h8 | ⟨h8, h9⟩
  · exact rel_of_open (f1 := fProc f) h2 h3 h4 h5 h6 h7 (dRestart_tail h8)
  · have := restart_rot h8
    exact ⟨_, this.file?, h2, h3, h4, h5, h6, h7, Or.inr ⟨this, h9⟩⟩

theorem rel_append {info : SegInfo} {tag : Bytes → Entry} {d : Disk} {w w' : Writer} {bs : List (List Bytes)}
    (b : List Bytes) (h : Rel info tag d w bs) (hidx : w.indexStart = 0) :
    Rel info tag (dAppend info.id d (b.map tag) (decide (0 < w'.indexStart))) w' (bs ++ [b]) := by
  obtain ⟨f, hT, h2, h3, h4, h5, h6, h7⟩ := h.tail hidx
  have hT' := dAppend_tail hT (b.map tag) (decide (0 < w'.indexStart))
  refine ⟨_, hT'.file?, h2, h3, ?_, rfl, ?_, rfl, Or.inl hT'⟩
  · simp [fFsync, fWrite, h4, h5]
  · simp [fFsync, fWrite, h6, h7]

theorem rel_torn_absent {info : SegInfo} {tag : Bytes → Entry} {d : Disk} {w : Writer} {bs : List (List Bytes)}
    (es : List Entry) (s : Bool) (h : Rel info tag d w bs) (hidx : w.indexStart = 0) :
    Rel info tag (dTorn info.id d es s false) w bs := by
  obtain ⟨f, hT, h2, h3, h4, h5, h6, h7⟩ := h.tail hidx
  refine rel_of_open (f1 := fPower false (fWrite f es s)) h2 h3 ?_ rfl ?_ rfl (dTorn_tail hT es s false)
  · simp [fPower, fWrite, h4]
  · simp [fPower, fWrite, h6, hidx]

theorem rel_torn_whole {info : SegInfo} {tag : Bytes → Entry} {d : Disk} {w w' : Writer} {bs : List (List Bytes)}
    (b : List Bytes) (h : Rel info tag d w bs) (hidx : w.indexStart = 0) :
    Rel info tag (dTorn info.id d (b.map tag) (decide (0 < w'.indexStart)) true) w' (bs ++ [b]) := by
  obtain ⟨f, hT, h2, h3, h4, h5, h6, h7⟩ := h.tail hidx
  refine rel_of_open (f1 := fPower true (fWrite f (b.map tag) (decide (0 < w'.indexStart)))) h2 h3 ?_ rfl ?_ rfl
    (dTorn_tail hT _ _ true)
  · simp [fPower, fWrite, h4, h5]
  · simp [fPower, fWrite, h6, h7]

/-! ## the simulation -/

theorem l1Seals_eq {info : SegInfo} {w : Writer} {file : Bytes} {bs : List (List Bytes)} (b : List Bytes)
    {w' : Writer} {file' : Bytes} (hI : ChainInv info w file bs)
    (happ : w.append file (indexBatch (info.base + bs.flatten.length) b) .none = (none, w', file')) :
    l1Seals info (w, file) b = decide (0 < w'.indexStart) := by
  simp only [l1Seals, chainNext, hI.next, happ]

/-- the three outcomes of a torn append from an invariant state (`chainStep_torn_inv`), the first one guarded by
    `C`, the other two tagged with `A mask false` / `A mask true` -/
def TornTri (C : Prop) (A : (Nat → Bool) → Bool → Prop) (info : SegInfo) (bs : List (List Bytes)) (b : List Bytes)
    (mask : Nat → Bool) (w : Writer) (file : Bytes) : Prop :=
  (C ∧ TornCollision info (w, file) b mask)
  ∨ (A mask false ∧ ∃ k, chainStep info (w, file) (.torn b mask) = .ok (w, file ++ zeros k)
          ∧ ChainInv info w (file ++ zeros k) bs)
  ∨ (A mask true ∧ ∃ w' file', chainStep info (w, file) (.torn b mask) = .ok (w', file')
          ∧ w.append file (indexBatch (info.base + bs.flatten.length) b) .none = (none, w', file')
          ∧ ChainInv info w' file' (bs ++ [b]))

/-- the hypothesis of the simulation: every torn event of the chain has one of the (guarded, tagged) outcomes -/
def TornHyp (C : Prop) (A : (Nat → Bool) → Bool → Prop) (info : SegInfo) (evs : List ChainEv) : Prop :=
  ∀ b mask, ChainEv.torn b mask ∈ evs → ∀ (bs : List (List Bytes)) (w : Writer) (file : Bytes),
    RunWF info (bs ++ [b]) → (∀ p ∈ b, p.length ≤ maxEntrySize) → ChainInv info w file bs → w.indexStart = 0 →
    TornTri C A info bs b mask w file

/-- `ks` assigns to the mask of every torn event a Boolean the tag `A` accepts -/
def Agree (A : (Nat → Bool) → Bool → Prop) : List ChainEv → List Bool → Prop
  | [], _ => True
  | .torn _ m :: evs, ks => A m (ks.headD false) ∧ Agree A evs ks.tail
  | .append _ :: evs, ks => Agree A evs ks
  | .restart :: evs, ks => Agree A evs ks

/-- no batch event of the chain finds the segment sealed (`ChainWF.fits` implies it; so does a run without error) -/
def NoSealedAppend (info : SegInfo) (evs : List ChainEv) : Prop :=
  ∀ pre e post w file bs, evs = pre ++ e :: post → e.batches ≠ [] → ChainOK info pre w file bs → w.indexStart = 0

theorem link_sim (C : Prop) (A : (Nat → Bool) → Bool → Prop) (info : SegInfo) (tag : Bytes → Entry)
    (evs : List ChainEv) :
    ∀ (pre : List ChainEv) (w : Writer) (file : Bytes) (bs : List (List Bytes)) (d : Disk),
      TornHyp C A info evs →
      ChainSizes info (pre ++ evs) → NoSealedAppend info (pre ++ evs) →
      ChainOK info pre w file bs → Rel info tag d w bs →
      (C ∧ ChainCollision info (pre ++ evs))
      ∨ ∃ (w' : Writer) (file' : Bytes) (keep : List Bool), keep.length = tornCount evs
          ∧ ChainOK info (pre ++ evs) w' file' (bs ++ keptBatches evs keep)
          ∧ Rel info tag (l2Run info tag (w, file) d evs keep) w' (bs ++ keptBatches evs keep)
          ∧ Agree A evs keep := by
  induction evs with
  | nil =>
    intro pre w file bs d _ _ _ hok hrel
    refine Or.inr ⟨w, file, [], rfl, ?_, ?_, trivial⟩
    · simpa [keptBatches] using hok
    · simpa [keptBatches, l2Run] using hrel
  | cons e evs ih =>
    intro pre w file bs d htorn hwf hns hok hrel
    have htorn' : TornHyp C A info evs := fun b mask hm => htorn b mask (List.mem_cons_of_mem _ hm)
    have hassoc : pre ++ e :: evs = (pre ++ [e]) ++ evs := by simp
    have hwf1 : ChainSizes info (pre ++ [e]) := by rw [hassoc] at hwf; exact hwf.of_append
    obtain ⟨file0, hfresh⟩ := hok.asFresh
    -- what remains once the step is understood
    have hfin : ∀ (s1 : Writer × Bytes) (k : List Bool) (kb : List (List Bytes)) (d1 : Disk),
        ChainOK info (pre ++ [e]) s1.1 s1.2 (bs ++ kb) → Rel info tag d1 s1.1 (bs ++ kb) →
        (∀ keep : List Bool, keptBatches (e :: evs) (k ++ keep) = kb ++ keptBatches evs keep) →
        (∀ keep : List Bool, l2Run info tag (w, file) d (e :: evs) (k ++ keep) = l2Run info tag s1 d1 evs keep) →
        (tornCount (e :: evs) = k.length + tornCount evs) →
        (∀ keep : List Bool, Agree A evs keep → Agree A (e :: evs) (k ++ keep)) →
        (C ∧ ChainCollision info (pre ++ e :: evs))
        ∨ ∃ (w' : Writer) (file' : Bytes) (keep : List Bool), keep.length = tornCount (e :: evs)
            ∧ ChainOK info (pre ++ e :: evs) w' file' (bs ++ keptBatches (e :: evs) keep)
            ∧ Rel info tag (l2Run info tag (w, file) d (e :: evs) keep) w' (bs ++ keptBatches (e :: evs) keep)
            ∧ Agree A (e :: evs) keep := by
      intro s1 k kb d1 hok1 hrel1 hkb hl2 htc hag
      rcases ih (pre ++ [e]) s1.1 s1.2 (bs ++ kb) d1 htorn' (by rw [← hassoc]; exact hwf)
          (by rw [← hassoc]; exact hns) hok1 hrel1 with hc | ⟨w', file', keep, h1, h2, h3, h4⟩
      · left; rw [hassoc]; exact hc
      · right
        refine ⟨w', file', k ++ keep, by rw [List.length_append, h1, htc], ?_, ?_, hag keep h4⟩
        · rw [hassoc, hkb, ← List.append_assoc]; exact h2
        · rw [hl2, hkb, ← List.append_assoc]; exact h3
    cases e with
    | restart =>
      have hst := chainStep_restart_inv info hwf.base_lt hwf.id_lt hwf.codec_lt bs w file hok.inv
      refine hfin (w, file) [] [] (dRestart d) ?_ ?_ (fun _ => rfl) ?_ (by simp [tornCount]) (fun _ h => h)
      · rw [List.append_nil]
        refine ⟨?_, chainSpec_snoc_restart pre bs hok.spec, hok.inv, hok.asFresh, ?_⟩
        · rw [chainRun_snoc info _ _ pre _ hok.run, hst]
        · intro hf; apply hok.unsealed
          rw [chainBatches_snoc] at hf; simpa [ChainEv.batches] using hf
      · rw [List.append_nil]; exact rel_restart hrel
      · intro keep; simp only [l2Run, hst, List.nil_append]
    | append b =>
      obtain ⟨hrwf, hmax, hbne, hfit⟩ := chainOK_batch_setup (b := b) rfl hwf1 hok
      have hidx : w.indexStart = 0 := hns pre _ evs w file bs rfl (by simp [ChainEv.batches]) hok
      obtain ⟨w1, file1, hst, happ, hI'⟩ := chainStep_append_inv info bs b hrwf hmax w file hok.inv hidx
      obtain ⟨file0', happ0⟩ := append_none_indep w file file0 _ w1 file1 happ
      refine hfin (w1, file1) [] [b] (dAppend info.id d (b.map tag) (decide (0 < w1.indexStart))) ?_ ?_
        (fun _ => rfl) ?_ (by simp [tornCount]) (fun _ h => h)
      · refine ⟨?_, chainSpec_snoc_append pre bs b hok.spec, hI',
          ⟨file0', appendAll_append _ _ _ bs w file0 b w1 file0' hfresh happ0⟩, ?_⟩
        · rw [chainRun_snoc info _ _ pre _ hok.run, hst]
        · intro hf
          exact chain_append_noseal info bs b hrwf (hfit hf).1 w file hok.inv w1 file1 happ
      · exact rel_append b hrel hidx
      · intro keep; simp only [l2Run, hst, List.nil_append, l1Seals_eq b hok.inv happ]
    | torn b mask =>
      obtain ⟨hrwf, hmax, hbne, hfit⟩ := chainOK_batch_setup (b := b) rfl hwf1 hok
      have hidx : w.indexStart = 0 := hns pre _ evs w file bs rfl (by simp [ChainEv.batches]) hok
      obtain ⟨w1, file1, happ⟩ := chain_append_ok info bs b hrwf hmax w file hok.inv hidx
      rcases htorn b mask List.mem_cons_self bs w file hrwf hmax hok.inv hidx with
        ⟨hC, hcol⟩ | ⟨hA, k, hst, hI'⟩ | ⟨hA, w2, file2, hst, happ2, hI'⟩
      · left
        exact ⟨hC, pre, b, mask, evs, (w, file), rfl, hok.run, hcol⟩
      · refine hfin (w, file ++ zeros k) [false] []
          (dTorn info.id d (b.map tag) (decide (0 < w1.indexStart)) false) ?_ ?_
          (fun _ => by simp [keptBatches]) ?_ (by simp [tornCount, Nat.add_comm]) (fun _ h => ⟨hA, h⟩)
        · rw [List.append_nil]
          refine ⟨?_, chainSpec_snoc_torn_absent pre bs b mask hok.spec, hI', hok.asFresh, fun _ => hidx⟩
          rw [chainRun_snoc info _ _ pre _ hok.run, hst]
        · rw [List.append_nil]; exact rel_torn_absent _ _ hrel hidx
        · intro keep
          simp only [l2Run, hst, l1Seals_eq b hok.inv happ, List.cons_append, List.nil_append, List.headD_cons,
            List.tail_cons]
      · rw [happ] at happ2
        simp only [Prod.mk.injEq, true_and] at happ2
        obtain ⟨rfl, rfl⟩ := happ2
        obtain ⟨file0', happ0⟩ := append_none_indep w file file0 _ w1 file1 happ
        refine hfin (w1, file1) [true] [b] (dTorn info.id d (b.map tag) (decide (0 < w1.indexStart)) true) ?_ ?_
          (fun _ => by simp [keptBatches]) ?_ (by simp [tornCount, Nat.add_comm]) (fun _ h => ⟨hA, h⟩)
        · refine ⟨?_, chainSpec_snoc_torn_whole pre bs b mask hok.spec, hI',
            ⟨file0', appendAll_append _ _ _ bs w file0 b w1 file0' hfresh happ0⟩, ?_⟩
          · rw [chainRun_snoc info _ _ pre _ hok.run, hst]
          · intro hf
            exact chain_append_noseal info bs b hrwf (hfit hf).1 w file hok.inv w1 file1 happ
        · exact rel_torn_whole b hrel hidx
        · intro keep
          simp only [l2Run, hst, l1Seals_eq b hok.inv happ, List.cons_append, List.nil_append, List.headD_cons,
            List.tail_cons]

/-- `ChainWF.fits`: only the last batch event may seal, so no batch event finds the segment sealed -/
theorem noSealedAppend_of_wf {info : SegInfo} {evs : List ChainEv} (hwf : ChainWF info evs) :
    NoSealedAppend info evs := by
  intro pre e post w file bs h1 h2 h3
  have hf := hwf.fits
  have hcb : chainBatches evs = chainBatches pre ++ (e.batches ++ chainBatches post) := by
    rw [h1, chainBatches_append, chainBatches_cons]
  have hne : e.batches ++ chainBatches post ≠ [] := by
    intro h0; exact h2 (List.append_eq_nil_iff.mp h0).1
  rw [hcb, List.dropLast_append_of_ne_nil hne] at hf
  apply h3.unsealed
  rw [runBytesBound_eq] at hf ⊢
  rw [need_append, cnt_append] at hf
  omega

/-- a chain that runs without error never appends to a sealed segment -/
theorem noSealedAppend_of_run {info : SegInfo} {evs : List ChainEv} {s : Writer × Bytes}
    (hwf : ChainSizes info evs) (hrun : chainRun info (freshSegment info) evs = .ok s) : NoSealedAppend info evs := by
  intro pre e post w file bs h1 h2 h3
  refine Nat.eq_zero_of_not_pos fun hpos => ?_
  have hb : ∃ b, e.batches = [b] := by cases e <;> simp_all [ChainEv.batches]
  obtain ⟨b, hb⟩ := hb
  have hbne : b ≠ [] := hwf.nonempty b (by
    rw [h1, chainBatches_append, chainBatches_cons, hb]
    exact List.mem_append_right _ (List.mem_append_left _ List.mem_cons_self))
  have hassoc : pre ++ e :: post = (pre ++ [e]) ++ post := by simp
  have h4 : chainRun info (freshSegment info) (pre ++ [e]) = .error .sealed := by
    rw [chainRun_snoc info _ _ pre _ h3.run, chainStep_sealed info w file e b hb hbne hpos]
  rw [h1, hassoc, chainRun_append_error info _ _ post _ h4] at hrun
  cases hrun

/-- `chainStep_torn_inv`: every torn event has one of the three outcomes -/
theorem tornHyp_any (info : SegInfo) (evs : List ChainEv) : TornHyp True (fun _ _ => True) info evs := by
  intro b mask _ bs w file hrwf hmax hI hidx
  rcases chainStep_torn_inv info bs b mask hrwf hmax w file hI hidx with h | h | h
  · exact Or.inl ⟨trivial, h⟩
  · exact Or.inr (Or.inl ⟨trivial, h⟩)
  · exact Or.inr (Or.inr ⟨trivial, h⟩)

/-! ## MAIN THEOREM -/

/-- what the link says about a final L1 state `(w, file)` with ghost batches `bs`, for the survival choices `keep` -/
structure LinkResult (info : SegInfo) (tag : Bytes → Entry) (evs : List ChainEv) (w : Writer) (file : Bytes)
    (bs : List (List Bytes)) (keep : List Bool) : Prop where
  /-- the byte level: the conclusion of `chain_atomic` -/
  l1       : ChainResult info evs w file bs
  /-- one Boolean per `torn` event … -/
  keep_len : keep.length = tornCount evs
  /-- … and it is `chainSpec`'s choice for that event: `bs` is what `keep` selects (`chainSpec_kept`) -/
  keep_bs  : bs = keptBatches evs keep
  /-- the L2 file is the file `info.id` of the L2 disk (not a default) -/
  file     : (l2Disk info tag evs keep).file? info.id = some (l2Events info tag evs keep)
  id       : (l2Events info tag evs keep).id = info.id
  base     : (l2Events info tag evs keep).base = info.base
  /-- what L2 says the file holds = what L1 reads back (`ChainResult.readable`) -/
  content  : (l2Events info tag evs keep).content = bs.flatten.map tag
  /-- nothing is left un-fsynced -/
  pending  : (l2Events info tag evs keep).pending = []
  /-- L2's sealed flag = L1's index frame -/
  isSealed : (l2Events info tag evs keep).isSealed = decide (w.indexStart > 0)

theorem linkResult_of_rel {info : SegInfo} {tag : Bytes → Entry} {evs : List ChainEv} {w : Writer} {file : Bytes}
    {keep : List Bool} (hwf : ChainSizes info evs) (hlen : keep.length = tornCount evs)
    (hok : ChainOK info evs w file (keptBatches evs keep))
    (hrel : Rel info tag (l2Disk info tag evs keep) w (keptBatches evs keep)) :
    LinkResult info tag evs w file (keptBatches evs keep) keep := by
  obtain ⟨f, h1, h2, h3, h4, h5, h6, h7, _⟩ := hrel
  have hf : l2Events info tag evs keep = f := by rw [l2Events, h1]; rfl
  refine ⟨chainResult_of_ok info evs hwf w file _ hok, hlen, rfl, by rw [hf]; exact h1, by rw [hf]; exact h2,
    by rw [hf]; exact h3, ?_, by rw [hf]; exact h5, ?_⟩
  · rw [hf, File.content, h4, h5, List.append_nil]
  · rw [hf, File.isSealed, h6, h7, Bool.or_false]

/-- **L1 refines L2 on one tail file** (MAIN THEOREM).  Every chain of acknowledged appends, restarts and torn
    appends on a fresh segment either meets a CRC-32C collision (the residual of `chain_atomic`) or runs, at the byte
    level, to a state `(w, file)` holding batches `bs` (`ChainResult`: readable, nothing else readable) that is one
    of the outcomes the L2 crash model allows: there is a choice `keep` of `keepPending` for the power losses such
    that the REAL L2 actions and crashes (`Disk.apply`, `Disk.crash`, `openResult`) lead to a file whose content is
    `bs`, entry for entry, with nothing pending and the same sealed flag. -/
theorem l1_refines_l2_file (tag : Bytes → Entry) (info : SegInfo) (evs : List ChainEv) (hwf : ChainWF info evs) :
    ChainCollision info evs
    ∨ ∃ (w : Writer) (file : Bytes) (bs : List (List Bytes)) (keep : List Bool),
        LinkResult info tag evs w file bs keep := by
  rcases link_sim True (fun _ _ => True) info tag evs [] _ _ [] _ (tornHyp_any info evs)
      (by simpa using hwf.sizes) (by simpa using noSealedAppend_of_wf hwf) (chainOK_nil info) (rel_fresh info tag) with
      ⟨_, hc⟩ | ⟨w, file, keep, h1, h2, h3, _⟩
  · exact Or.inl (by simpa using hc)
  · right
    simp only [List.nil_append] at h2 h3
    exact ⟨w, file, _, keep, linkResult_of_rel hwf.sizes h1 h2 h3⟩

/-- entry `k` of the L2 file is the tag of the payload L1 reads back at index `base + k` -/
theorem l1_l2_read {info : SegInfo} {tag : Bytes → Entry} {evs : List ChainEv} {w : Writer} {file : Bytes}
    {bs : List (List Bytes)} {keep : List Bool} (h : LinkResult info tag evs w file bs keep)
    (hmin : info.min = info.base) (k : Nat) (hk : k < (l2Events info tag evs keep).content.length)
    (bufSize : Nat) (hbuf : 8 ≤ bufSize) :
    ∃ p, w.getLog file (info.base + k) bufSize = .ok p ∧ tag p = (l2Events info tag evs keep).content[k] := by
  have hc := h.content
  have hk' : k < bs.flatten.length := by rw [hc, List.length_map] at hk; exact hk
  refine ⟨_, h.l1.readable hmin k hk' bufSize hbuf, ?_⟩
  simp only [hc, List.getElem_map]

/-- the same for every chain that runs without error (`ChainSizes` only; covers chains in which a torn sealing
    append is recovered as absent and further appends follow) -/
theorem l1_refines_l2_file_of_run (tag : Bytes → Entry) (info : SegInfo) (evs : List ChainEv)
    (hwf : ChainSizes info evs) (s : Writer × Bytes) (hrun : chainRun info (freshSegment info) evs = .ok s) :
    ChainCollision info evs
    ∨ ∃ (bs : List (List Bytes)) (keep : List Bool), LinkResult info tag evs s.1 s.2 bs keep := by
  rcases link_sim True (fun _ _ => True) info tag evs [] _ _ [] _ (tornHyp_any info evs)
      (by simpa using hwf) (by simpa using noSealedAppend_of_run hwf hrun) (chainOK_nil info) (rel_fresh info tag) with
      ⟨_, hc⟩ | ⟨w, file, keep, h1, h2, h3, _⟩
  · exact Or.inl (by simpa using hc)
  · right
    simp only [List.nil_append] at h2 h3
    have := h2.run
    rw [hrun] at this
    simp only [Except.ok.injEq] at this
    subst this
    exact ⟨_, keep, linkResult_of_rel hwf h1 h2 h3⟩

/-! ## the converse: every `keepPending` choice of L2 is realised at L1 by a chunk mask -/

theorem tornFrom_true (k : Nat) (O : Bytes) : tornFrom (fun _ => true) k O = O := by
  induction O generalizing k with
  | nil => rfl
  | cons x O ih => rw [tornFrom_cons, ih]; rfl

theorem tornFrom_false (k : Nat) (O : Bytes) : tornFrom (fun _ => false) k O = zeros O.length := by
  induction O generalizing k with
  | nil => rfl
  | cons x O ih => rw [tornFrom_cons, ih]; rfl

/-- a torn append all of whose chunks landed is recovered whole, one none of whose chunks landed is recovered as
    absent: no CRC residual for these two masks -/
theorem torn_const_step (info : SegInfo) (bs : List (List Bytes)) (b : List Bytes) (hwf : RunWF info (bs ++ [b]))
    (w : Writer) (file : Bytes) (hI : ChainInv info w file bs) (w' : Writer) (file' : Bytes)
    (happ : w.append file (indexBatch (info.base + bs.flatten.length) b) .none = (none, w', file')) :
    chainStep info (w, file) (.torn b (fun _ => true)) = .ok (w', file')
    ∧ ∃ k, chainStep info (w, file) (.torn b (fun _ => false)) = .ok (w, file ++ zeros k) := by
  obtain ⟨s, hInv, hInv', hcb', _, _, hlen, hCI'⟩ := chain_append_setup info bs b hwf w file hI w' file' happ
  have hA' := addBatch_bytes ((ackBatches bs).foldl addBatch (acc0 info)) ⟨b, s⟩
  have hstep : ∀ mask, chainStep info (w, file) (.torn b mask)
      = recoverTail info (tearImage file file' w.writeOffset (w'.writeOffset - w.writeOffset) mask) := by
    intro mask; simp only [chainStep, chainNext, hI.next, happ]
  constructor
  · obtain ⟨k', kb, hf', hf, himg⟩ := torn_image _ hInv hInv' hcb' hA' (fun _ => true)
    have : tearImage file file' w.writeOffset (w'.writeOffset - w.writeOffset) (fun _ => true) = file' := by
      rw [himg, tornFrom_true]
      conv => rhs; rw [hf', hA', hInv.bytes]
      simp only [List.append_assoc]
    rw [hstep, this]
    exact recover_inv info hwf.base_lt hwf.id_lt hwf.codec_lt _ w' file' hCI'
  · obtain ⟨k', kb, hf', hf, himg⟩ := torn_image _ hInv hInv' hcb' hA' (fun _ => false)
    have hl' := congrArg List.length hf'
    have hl := congrArg List.length hf
    rw [hA', hInv.bytes] at hl'
    simp only [List.length_append, zeros_length] at hl' hl
    obtain ⟨j, hj⟩ : ∃ j, j = file'.length - file.length := ⟨_, rfl⟩
    refine ⟨j, ?_⟩
    have : tearImage file file' w.writeOffset (w'.writeOffset - w.writeOffset) (fun _ => false)
        = file ++ zeros j := by
      rw [himg, tornFrom_false]
      conv => rhs; rw [hf]
      rw [List.append_assoc]
      congr 1
      simp only [zeros, List.replicate_append_replicate, List.length_append]
      congr 1
      omega
    rw [hstep, this]
    exact recover_inv info hwf.base_lt hwf.id_lt hwf.codec_lt _ w _ (chainInv_append_zeros hI _)

/-- the chain with the mask of every torn event replaced by "all chunks landed" / "no chunk landed" as `ks` says -/
def setMasks : List ChainEv → List Bool → List ChainEv
  | [], _ => []
  | .torn b _ :: evs, ks => .torn b (fun _ => ks.headD false) :: setMasks evs ks.tail
  | .append b :: evs, ks => .append b :: setMasks evs ks
  | .restart :: evs, ks => .restart :: setMasks evs ks

theorem chainBatches_setMasks (evs : List ChainEv) (ks : List Bool) : chainBatches (setMasks evs ks) = chainBatches evs := by
  induction evs generalizing ks with
  | nil => rfl
  | cons e evs ih =>
    cases e <;> simp only [setMasks] <;> rw [chainBatches_cons, chainBatches_cons, ih] <;> rfl

theorem tornCount_setMasks (evs : List ChainEv) (ks : List Bool) : tornCount (setMasks evs ks) = tornCount evs := by
  induction evs generalizing ks with
  | nil => rfl
  | cons e evs ih => cases e <;> simp only [setMasks, tornCount, ih]

theorem keptBatches_setMasks (evs : List ChainEv) (ks ks' : List Bool) :
    keptBatches (setMasks evs ks) ks' = keptBatches evs ks' := by
  induction evs generalizing ks ks' with
  | nil => rfl
  | cons e evs ih => cases e <;> simp only [setMasks, keptBatches, ih]

/-- `keep'` agrees with the masks `setMasks` put in: it is `keep` (on the entries that count) -/
theorem agree_setMasks (evs : List ChainEv) (ks ks' : List Bool)
    (h : Agree (fun mask k => mask = fun _ => k) (setMasks evs ks) ks') :
    keptBatches evs ks' = keptBatches evs ks
    ∧ ∀ (info : SegInfo) (tag : Bytes → Entry) (s : Writer × Bytes) (d : Disk),
        l2Run info tag s d (setMasks evs ks) ks' = l2Run info tag s d (setMasks evs ks) ks := by
  induction evs generalizing ks ks' with
  | nil => exact ⟨rfl, fun _ _ _ _ => rfl⟩
  | cons e evs ih =>
    cases e with
    | append b =>
      obtain ⟨h1, h2⟩ := ih ks ks' h
      exact ⟨by simp only [keptBatches, h1], fun info tag s d => by simp only [setMasks, l2Run, h2]⟩
    | restart =>
      obtain ⟨h1, h2⟩ := ih ks ks' h
      exact ⟨by simp only [keptBatches, h1], fun info tag s d => by simp only [setMasks, l2Run, h2]⟩
    | torn b m =>
      obtain ⟨ha, h⟩ := h
      have hk : ks.headD false = ks'.headD false := congrFun ha 0
      obtain ⟨h1, h2⟩ := ih ks.tail ks'.tail h
      exact ⟨by simp only [keptBatches, h1, hk], fun info tag s d => by simp only [setMasks, l2Run, h2, hk]⟩

theorem tornHyp_setMasks (info : SegInfo) (evs : List ChainEv) (ks : List Bool) :
    TornHyp False (fun mask k => mask = fun _ => k) info (setMasks evs ks) := by
  intro b mask hm bs w file hrwf hmax hI hidx
  have hc : ∃ c : Bool, mask = fun _ => c := by
    clear hrwf hmax hI hidx
    induction evs generalizing ks with
    | nil => cases hm
    | cons e evs ih =>
      cases e with
      | append c => simp only [setMasks, List.mem_cons, reduceCtorEq, false_or] at hm; exact ih _ hm
      | restart => simp only [setMasks, List.mem_cons, reduceCtorEq, false_or] at hm; exact ih _ hm
      | torn c m =>
        simp only [setMasks, List.mem_cons, ChainEv.torn.injEq] at hm
        rcases hm with ⟨_, hm⟩ | hm
        · exact ⟨_, hm⟩
        · exact ih _ hm
  obtain ⟨c, rfl⟩ := hc
  obtain ⟨w', file', happ⟩ := chain_append_ok info bs b hrwf hmax w file hI hidx
  obtain ⟨ht, k, hf⟩ := torn_const_step info bs b hrwf w file hI w' file' happ
  cases c with
  | false => exact Or.inr (Or.inl ⟨rfl, k, hf, chainInv_append_zeros hI k⟩)
  | true => exact Or.inr (Or.inr ⟨rfl, w', file', ht, happ, chainInv_append info bs b hrwf w file hI w' file' happ⟩)

/-- **every outcome L2's all-or-nothing `afterPower` allows is realised at the byte level**: for every choice
    `keep` of `keepPending` (one per torn event) the chain whose torn events have all their chunks on disk
    (`keep`) or none (`¬ keep`) runs — no CRC residual — to a state that holds exactly the batches `keep` selects,
    and the L2 run with these `keep` describes it. -/
theorem l2_outcomes_realised (tag : Bytes → Entry) (info : SegInfo) (evs : List ChainEv) (hwf : ChainWF info evs)
    (keep : List Bool) (hlen : keep.length = tornCount evs) :
    ∃ (w : Writer) (file : Bytes),
      LinkResult info tag (setMasks evs keep) w file (keptBatches evs keep) keep := by
  have hwf' : ChainWF info (setMasks evs keep) := by
    obtain ⟨h1, h2, h3, h4, h5, h6, h7, h8⟩ := hwf
    refine ⟨?_, ?_, h3, h4, h5, h6, ?_, ?_⟩ <;> rw [chainBatches_setMasks] <;> assumption
  rcases link_sim False (fun mask k => mask = fun _ => k) info tag (setMasks evs keep) [] _ _ [] _
      (tornHyp_setMasks info evs keep) (by simpa using hwf'.sizes) (by simpa using noSealedAppend_of_wf hwf')
      (chainOK_nil info) (rel_fresh info tag) with ⟨hF, _⟩ | ⟨w, file, keep', h1, h2, h3, h4⟩
  · exact hF.elim
  · simp only [List.nil_append] at h2 h3
    obtain ⟨e1, e2⟩ := agree_setMasks evs keep keep' h4
    rw [keptBatches_setMasks, e1, ← keptBatches_setMasks evs keep keep] at h2 h3
    rw [e2] at h3
    have := linkResult_of_rel (tag := tag) hwf'.sizes (by rw [tornCount_setMasks]; exact hlen) h2 h3
    rw [keptBatches_setMasks] at this
    exact ⟨w, file, this⟩

/-! ## non-vacuity: the concrete chain of Proofs/SegmentChain.lean

  Seven events (`chainExEvs`): append of 2 entries; torn append, only the header chunk lands (absent); restart; torn
  append of 2 entries, all chunks land (whole); torn append, payload chunk lost (absent); sealing append of a
  100-byte entry; restart of the sealed segment.  `keep = [false, true, false]`. -/

/-- an (arbitrary) tag: length and byte sum of the payload -/
def exTag (p : Bytes) : Entry := 1000 * p.length + (p.map (·.toNat)).sum

theorem chainEx_wf : ChainWF chainExInfo chainExEvs where
  nonempty := by decide
  payload_le := by decide
  base_lt := by decide
  id_lt := by decide
  codec_lt := by decide
  limit_lt := by decide
  size_lt := by decide
  fits := by decide

/-- the main theorem applies to the concrete chain -/
example : ChainCollision chainExInfo chainExEvs
    ∨ ∃ w file bs keep, LinkResult chainExInfo exTag chainExEvs w file bs keep :=
  l1_refines_l2_file exTag chainExInfo chainExEvs chainEx_wf

/-- the converse applies unconditionally: the chain with masks all-false / all-true / all-false -/
example : ∃ w file, LinkResult chainExInfo exTag (setMasks chainExEvs [false, true, false]) w file
    (keptBatches chainExEvs [false, true, false]) [false, true, false] :=
  l2_outcomes_realised exTag chainExInfo chainExEvs chainEx_wf [false, true, false] rfl

/-- the L2 file of the concrete chain (computed with the real L2 functions): the five surviving entries fsynced,
    nothing pending, sealed -/
def exFile : File := l2Events chainExInfo exTag chainExEvs [false, true, false]

/-- info: ([3006, 9072, 9171, 1024, 104200], [], true, true, 7, 5) -/
#guard_msgs in
#eval (exFile.synced, exFile.pending, exFile.sealedS, exFile.isSealed, exFile.id, exFile.base)

/-- info: true -/
#guard_msgs in
#eval exFile.content == ((keptBatches chainExEvs [false, true, false]).flatten.map exTag)

-- what L1 reads back from the final state of the concrete chain is what the L2 file holds
/-- info: true -/
#guard_msgs in
#eval match chainRun chainExInfo (freshSegment chainExInfo) chainExEvs with
  | .ok (w, file) =>
    (List.range 5).map (fun k => (w.getLog file (chainExInfo.base + k)).toOption.map exTag) == exFile.content.map some
      && decide (w.indexStart > 0) == exFile.isSealed
  | .error _ => false

-- a prefix of the chain (up to the torn append recovered whole)
/-- info: [3006, 9072, 9171, 1024] -/
#guard_msgs in
#eval (l2Events chainExInfo exTag (chainExEvs.take 4) [false, true]).content

#print axioms l1_refines_l2_file
#print axioms l1_refines_l2_file_of_run
#print axioms l1_l2_read
#print axioms l2_outcomes_realised
#print axioms chainSpec_kept

end RaftWal
