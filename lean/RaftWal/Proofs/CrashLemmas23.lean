/-
  Proofs/CrashLemmas23.lean — tail truncation inside a sealed segment; all tail truncations.
-/
import RaftWal.Proofs.CrashLemmas22
namespace RaftWal.Crash

theorem delTail_sealed {d : Disk} {K0 D' : List Seg} {tk t : Seg} {f : File} (h : QS d (K0 ++ tk :: D') t f)
    {newMax : Nat} (hok : (Op.delTail newMax).ok d)
    (hk : d.md.segs.filter (keptB newMax) = K0 ++ [tk])
    (hD : d.md.segs.filter (fun s => !keptB newMax s) = D' ++ [t]) (htb : tk.base ≤ newMax)
    (hdrop : ∀ s ∈ D' ++ [t], newMax < s.base) :
    CallRes d (.delTail newMax)
      ([.commit ⟨d.md.nextID + 1, K0 ++ [sealSeg tk newMax] ++ [newSeg d.md.nextID (newMax + 1)], d.md.stable⟩,
        .create d.md.nextID (newMax + 1)] ++ (segIds (D' ++ [t])).map .delete) [] := by
  have hb := h.base
  have hq := h.toQO
  have hsplit : (K0 ++ tk :: D') ++ [t] = K0 ++ tk :: (D' ++ [t]) := by simp
  have htkP : tk ∈ K0 ++ tk :: D' := by simp
  obtain ⟨fk, hfk, hsf⟩ := hb.sealed tk htkP
  have hmin : tk.min ≤ newMax := hb.seg_min_le hsplit hok.1 hok.2.1 htb
  -- the next segment starts right after tk.max and above newMax
  have hmax : newMax ≤ tk.max := by
    have hch := hb.chain
    rw [hsplit, show K0 ++ tk :: (D' ++ [t]) = (K0 ++ [tk]) ++ (D' ++ [t]) by simp, chainOK_append] at hch
    cases hD' : D' ++ [t] with
    | nil => simp at hD'
    | cons x rest =>
      have := hch.2.2 tk x (by simp) (by rw [hD']; rfl)
      have := hdrop x (by rw [hD']; simp)
      omega
  have hnidK : ∀ s ∈ K0, s.id ≠ tk.id := by
    intro s hs e
    have hnd := hb.nodupS
    rw [hsplit, List.map_append] at hnd
    exact (List.nodup_append.1 hnd).2.2 s.id (List.mem_map.2 ⟨s, hs, rfl⟩) tk.id (by simp) e
  have hpw := hb.pw
  rw [hsplit] at hpw
  have hpw' := List.pairwise_append.1 hpw
  have hafter : specApply (absLog d) (.delTail newMax) = logP d (K0 ++ [sealSeg tk newMax]) := by
    rw [specApply_delTail, hq.log_eq, List.filter_append, logP_append, logP_cons, List.filter_append,
      List.filter_append, logP_append, logP_single]
    have e1 : (logP d K0).filter (fun p => decide (p.1 ≤ newMax)) = logP d K0 := by
      apply logP_filter_all
      intro s hs p hp
      have := mem_sealed (hb.sealed s (by simp [hs])) hp
      have := (hpw'.2.2 s hs tk (by simp)).1
      simp only [decide_eq_true_eq]; omega
    have e2 : (segEntries d tk).filter (fun p => decide (p.1 ≤ newMax)) = segEntries d (sealSeg tk newMax) := by
      rw [segEntries_some hfk, segEntries_some (s := sealSeg tk newMax) hfk, visF_setMax hsf.sl hmax]; rfl
    have e3 : (logP d D').filter (fun p => decide (p.1 ≤ newMax)) = [] := by
      apply logP_filter_nil
      intro s hs p hp
      have := mem_sealed (hb.sealed s (by simp [hs])) hp
      have := (hb.sealed s (by simp [hs])).bounds
      have := hdrop s (by simp [hs])
      simp only [decide_eq_false_iff_not, Nat.not_le]; omega
    have e4 : (visU t.min f.base f.synced).filter (fun p => decide (p.1 ≤ newMax)) = [] := by
      apply List.filter_eq_nil_iff.2
      intro p hp
      have := mem_visU hp
      have := hdrop t (by simp)
      have := hb.tbm
      simp only [decide_eq_true_eq, Nat.not_le]; omega
    rw [e1, e2, e3, e4]; simp
  have hnoneN : d.file? d.md.nextID = none := by
    rw [file?_none_iff]; intro hc; exact Nat.lt_irrefl _ (hb.fidlt _ hc)
  have hch' : chainOK ((K0 ++ [sealSeg tk newMax]) ++ [newSeg d.md.nextID (newMax + 1)]) = true := by
    have hch := hb.chain
    rw [hsplit, show K0 ++ tk :: (D' ++ [t]) = (K0 ++ [tk]) ++ (D' ++ [t]) by simp, chainOK_append] at hch
    rw [chainOK_append]
    refine ⟨chainOK_retail (t' := sealSeg tk newMax) hch.1 rfl rfl, by simp, ?_⟩
    intro a b ha hb'
    simp only [List.getLast?_append, List.getLast?_singleton, Option.some_or, Option.some.injEq] at ha
    simp only [List.head?_cons, Option.some.injEq] at hb'
    subst ha hb'
    simp [newSeg, sealSeg]
  have hidK : ∀ s ∈ K0 ++ [tk], s.id < d.md.nextID := by
    intro s hs
    apply hb.idlt s
    simp only [List.mem_append, List.mem_cons, List.not_mem_nil, or_false] at hs ⊢
    rcases hs with hs | rfl
    · exact Or.inl (Or.inl hs)
    · exact Or.inl (Or.inr (Or.inl rfl))
  have hnd' : (((K0 ++ [sealSeg tk newMax]) ++ [newSeg d.md.nextID (newMax + 1)]).map (·.id)).Nodup := by
    have hnd := hb.nodupS
    rw [hsplit, show K0 ++ tk :: (D' ++ [t]) = (K0 ++ [tk]) ++ (D' ++ [t]) by simp, List.map_append] at hnd
    have hndK := (List.nodup_append.1 hnd).1
    rw [List.map_append]
    refine List.nodup_append.2 ⟨by simpa [sealSeg] using hndK, by simp, ?_⟩
    intro a ha c hc
    simp only [List.map_cons, List.map_nil, List.mem_cons, List.not_mem_nil, or_false] at hc
    subst hc
    intro e
    have : a < d.md.nextID := by
      obtain ⟨s, hs, rfl⟩ := List.mem_map.1 ha
      simp only [List.mem_append, List.mem_cons, List.not_mem_nil, or_false] at hs
      rcases hs with hs | rfl
      · exact hidK s (by simp [hs])
      · exact hidK tk (by simp)
    simp [newSeg] at e; omega
  have h1 : Rec (fun l => l = specApply (absLog d) (.delTail newMax))
      (d.apply (.commit ⟨d.md.nextID + 1, K0 ++ [sealSeg tk newMax] ++ [newSeg d.md.nextID (newMax + 1)], d.md.stable⟩))
      (K0 ++ [sealSeg tk newMax]) (newSeg d.md.nextID (newMax + 1)) := by
    apply Rec.recommit (P' := K0 ++ [sealSeg tk newMax]) (t' := newSeg d.md.nextID (newMax + 1)) hb
      ⟨d.md.nextID + 1, K0 ++ [sealSeg tk newMax] ++ [newSeg d.md.nextID (newMax + 1)], d.md.stable⟩ rfl
      (Nat.le_succ _) ?_ hch' hnd' ?_ rfl (Nat.le_refl _) (by simp [newSeg])
    · intro g hg
      rw [show (newSeg d.md.nextID (newMax + 1)).id = d.md.nextID from rfl, hnoneN] at hg; cases hg
    · intro _; exact ⟨rfl, hafter.symm⟩
    · intro s hs
      simp only [List.mem_append, List.mem_cons, List.not_mem_nil, or_false] at hs
      rcases hs with hs | rfl
      · exact hb.sealed s (by simp [hs])
      · exact ⟨fk, hfk, ⟨hsf.base, hsf.pend, hsf.sp, hsf.bm, hsf.b1, rfl, hsf.ss, hsf.lk, hmin,
          by show newMax < _; have := hsf.mx; omega⟩⟩
    · intro s hs
      simp only [List.mem_append, List.mem_cons, List.not_mem_nil, or_false] at hs
      rcases hs with (hs | rfl) | rfl
      · have := hidK s (by simp [hs]); show s.id < d.md.nextID + 1; omega
      · have := hidK tk (by simp); show tk.id < d.md.nextID + 1; omega
      · show d.md.nextID < d.md.nextID + 1; omega
  have hnone : (d.apply (.commit ⟨d.md.nextID + 1, K0 ++ [sealSeg tk newMax] ++ [newSeg d.md.nextID (newMax + 1)],
      d.md.stable⟩)).file? (newSeg d.md.nextID (newMax + 1)).id = none := hnoneN
  have h2 : Rec (fun l => l = specApply (absLog d) (.delTail newMax))
      ((d.apply (.commit ⟨d.md.nextID + 1, K0 ++ [sealSeg tk newMax] ++ [newSeg d.md.nextID (newMax + 1)],
        d.md.stable⟩)).apply (.create d.md.nextID (newMax + 1)))
      (K0 ++ [sealSeg tk newMax]) (newSeg d.md.nextID (newMax + 1)) := h1.create hnone
  apply callres_mk h (.delTail newMax)
    [.commit ⟨d.md.nextID + 1, K0 ++ [sealSeg tk newMax] ++ [newSeg d.md.nextID (newMax + 1)], d.md.stable⟩,
      .create d.md.nextID (newMax + 1)] (segIds (D' ++ [t]))
    (P' := K0 ++ [sealSeg tk newMax]) (t' := newSeg d.md.nextID (newMax + 1))
  · show delTailProg d newMax = _
    rw [delTailProg_eq, hk, hD, map_delete_eq]
    have : (K0 ++ [tk]).getLast? = some tk := by simp
    simp only [this, hsf.sl, ↓reduceIte, newTailActs, List.nil_append]
    rw [setSeg_tail (t' := { tk with sealed := true, max := newMax }) hnidK rfl]
    rfl
  · simp
  · intro k hk'
    rcases k with _ | _ | k
    · exact ⟨_, t, by simpa using hq.toRec (Or.inl rfl)⟩
    · exact ⟨_, _, by simpa using h1.mono (fun l hl => Or.inr hl)⟩
    · simp at hk'; omega
  · simpa using h2
  · refine ⟨File.fresh d.md.nextID (newMax + 1), ?_, rfl, rfl, rfl⟩
    have := apply_create_file? _ _ (newMax + 1) hnone d.md.nextID
    simpa [newSeg] using this
  · intro j hj s hs e
    obtain ⟨s', hs', rfl⟩ := List.mem_map.1 hj
    simp only [List.mem_append, List.mem_cons, List.not_mem_nil, or_false] at hs
    have hs'lt : s'.id < d.md.nextID := by
      apply hb.idlt s'
      simp only [List.mem_append, List.mem_cons, List.not_mem_nil, or_false] at hs' ⊢
      rcases hs' with hs' | rfl
      · exact Or.inl (Or.inr (Or.inr hs'))
      · exact Or.inr rfl
    have hnd := hb.nodupS
    rw [hsplit, show K0 ++ tk :: (D' ++ [t]) = (K0 ++ [tk]) ++ (D' ++ [t]) by simp, List.map_append] at hnd
    have hdis := (List.nodup_append.1 hnd).2.2
    rcases hs with (hs | hs) | hs
    · exact hdis s.id (List.mem_map.2 ⟨s, by simp [hs], rfl⟩) s'.id (List.mem_map.2 ⟨s', hs', rfl⟩) e
    · rw [hs] at e
      exact hdis tk.id (List.mem_map.2 ⟨tk, by simp, rfl⟩) s'.id (List.mem_map.2 ⟨s', hs', rfl⟩) e
    · rw [hs] at e
      simp only [newSeg] at e; omega
  · intro j hj
    have e := fids_create _ _ (newMax + 1) hnone
    simp only [applyAll_cons, applyAll_nil] at hj
    rw [show Act.create d.md.nextID (newMax + 1) = Act.create (newSeg d.md.nextID (newMax + 1)).id (newMax + 1) from rfl,
      e] at hj
    simp only [fids_commit, List.mem_append, List.mem_cons, List.not_mem_nil, or_false] at hj
    simp only [segIds, sealSeg, List.map_append, List.map_cons, List.map_nil, List.mem_append, List.mem_cons,
      List.not_mem_nil, or_false]
    rcases hj with hj | hj
    · have := h.sub j hj
      simp only [segIds, List.map_append, List.map_cons, List.map_nil, List.mem_append, List.mem_cons,
        List.not_mem_nil, or_false] at this
      rcases this with (h1 | h1 | h1) | h1
      · exact Or.inr (Or.inl (Or.inl h1))
      · exact Or.inr (Or.inl (Or.inr h1))
      · exact Or.inl (Or.inl h1)
      · exact Or.inl (Or.inr h1)
    · exact Or.inr (Or.inr hj)

theorem delTail_res {d : Disk} {P : List Seg} {t : Seg} {f : File} (h : QS d P t f) {newMax : Nat}
    (hok : (Op.delTail newMax).ok d) : ∃ pre post, CallRes d (.delTail newMax) pre post := by
  rcases delTail_split h hok with ⟨hk, hD, htb⟩ | ⟨K0, tk, D', hP, hk, hD, htb, hdrop⟩
  · exact ⟨_, _, delTail_tail h hok hk hD htb⟩
  · subst hP
    exact ⟨_, _, delTail_sealed h hok hk hD htb hdrop⟩

theorem call_res {d : Disk} {P : List Seg} {t : Seg} {f : File} (h : QS d P t f) (op : Op) (hok : op.ok d) :
    ∃ pre post, CallRes d op pre post := by
  cases op with
  | store first es sl => exact store_res h hok
  | delHead newMin => exact delHead_res h hok
  | delTail newMax => exact delTail_res h hok
  | set k v => exact ⟨_, _, set_res h k v⟩

end RaftWal.Crash
