/-
  Proofs/ConcLemmas2.lean — the global invariant of the concurrency model and its validity in initial states.
-/
import RaftWal.Proofs.ConcLemmas1
namespace RaftWal.Conc

/-- mutations whose `add` files are not yet part of any state object -/
def pending (s : Sys) : List Mutation :=
  match s.wpc with
  | .published _ | .finSet _ => s.wqueue.tail
  | _ => s.wqueue

def addsOf (ms : List Mutation) : List FileId := (ms.map (·.add)).flatten

def pendingAdds (s : Sys) : List FileId := addsOf (pending s)

/-- the closer holds the write lock -/
def cLocked (c : CPc) : Bool :=
  match c with
  | .locked | .held _ | .published _ | .finSet _ => true
  | _ => false

def wActive (w : WPc) : Bool :=
  match w with
  | .idle => false
  | _ => true

def cPublished (c : CPc) : Bool :=
  match c with
  | .published _ | .finSet _ | .done => true
  | _ => false

/-- the part of the invariant that only talks about the objects, `cur` and the closed handles -/
structure OInv (s : Sys) : Prop where
  /-- the current state is always the newest object -/
  cur_last : s.cur + 1 = s.objs.length
  fin_cur : (s.obj s.cur).fin = .unset
  fin_set : ∀ k c, (s.obj k).fin = .set c →
    (∀ f, f ∈ c ↔ f ∈ (s.obj k).files ∧ f ∉ (s.obj (k + 1)).files) ∧ 1 ≤ (s.obj k).refCount
  cl_sound : ∀ f ∈ s.closedFiles, ∃ k, (s.obj k).fin = .taken ∧ f ∈ (s.obj k).files ∧ f ∉ (s.obj (k + 1)).files
  cl_compl : ∀ k, (s.obj k).fin = .taken → ∀ f ∈ (s.obj k).files, f ∉ (s.obj (k + 1)).files → f ∈ s.closedFiles
  no_dc : s.doubleClose = false
  /-- the objects referencing a file form an interval: a dropped file never comes back -/
  convex : ∀ i m j f, i ≤ m → m ≤ j → f ∈ (s.obj i).files → f ∈ (s.obj j).files → f ∈ (s.obj m).files

structure Inv (s : Sys) : Prop extends OInv s where
  rsid : ∀ r ∈ s.readers, ∀ x, r.pc.sid? = some x → x < s.objs.length
  w_held : ∀ x, s.wpc = .held x → x = s.cur
  w_pub : ∀ x, s.wpc = .published x → x + 1 = s.cur ∧ (s.obj x).fin = .unset
  w_fin : ∀ x, s.wpc = .finSet x → x + 1 = s.cur
  c_idle : s.cpc = .idle → s.closed = false
  c_nidle : s.cpc ≠ .idle → s.closed = true
  c_held : ∀ x, s.cpc = .held x → x = s.cur
  c_pub : ∀ x, s.cpc = .published x → x + 1 = s.cur ∧ (s.obj x).fin = .unset
  c_fin : ∀ x, s.cpc = .finSet x → x + 1 = s.cur
  c_empty : cPublished s.cpc = true → (s.obj s.cur).files = []
  lock_iff : s.lock = (wActive s.wpc || cLocked s.cpc)
  excl : (cLocked s.cpc || s.cpc == .done) = true → s.wpc = .idle
  /-- reference counts are exact -/
  rc : ∀ k, (s.obj k).refCount = holders' s k
  fin_unset : ∀ k, k + 1 < s.objs.length → (s.obj k).fin = .unset → s.wpc = .published k ∨ s.cpc = .published k
  padds_nodup : (pendingAdds s).Nodup
  fresh : ∀ k, ∀ f ∈ (s.obj k).files, f ∉ pendingAdds s

theorem init_obj (files wants : List FileId) (muts : List Mutation) (k : Nat) :
    (init files wants muts).obj k = if k = 0 then { files := files } else {} := by
  cases k with
  | zero => rfl
  | succ n => rfl

theorem inv_init (files wants : List FileId) (muts : List Mutation)
    (hnd : (files ++ addsOf muts).Nodup) : Inv (init files wants muts) := by
  have hobj := init_obj files wants muts
  rw [List.nodup_append] at hnd
  constructor
  case toOInv =>
    constructor
    case fin_cur => rw [hobj]; simp [init]
    case fin_set => intro k c; rw [hobj]; by_cases hk : k = 0 <;> simp [hk]
    case cl_compl => intro k; rw [hobj]; by_cases hk : k = 0 <;> simp [hk]
    case convex =>
      intro i m j f him hmj
      rw [hobj, hobj, hobj]
      by_cases hj : j = 0
      · have : m = 0 := by omega
        have : i = 0 := by omega
        simp [*]
      · simp [hj]
    all_goals simp [init]
  case rsid =>
    intro r hr x hx
    simp only [init, List.mem_map] at hr
    obtain ⟨w, _, rfl⟩ := hr
    simp [RPc.sid?] at hx
  case rc =>
    intro k
    rw [hobj]
    have : rHolders (init files wants muts).readers k = 0 := by
      unfold rHolders
      rw [List.length_eq_zero_iff, List.filter_eq_nil_iff]
      intro r hr
      simp only [init, List.mem_map] at hr
      obtain ⟨w, _, rfl⟩ := hr
      simp [holdsR]
    unfold holders'
    rw [this]
    by_cases hk : k = 0 <;> simp [hk, init, wHolds, cHolds]
  case c_empty => simp [init, cPublished]
  case lock_iff => simp [init, wActive, cLocked]
  case excl => simp [init, cLocked]
  case fin_unset => intro k hk; simp [init] at hk
  case padds_nodup => exact hnd.2.1
  case fresh =>
    intro k f; rw [hobj]
    by_cases hk : k = 0
    · simp only [hk, if_true]
      intro hf hp
      exact hnd.2.2 f hf f hp rfl
    · simp [hk]
  all_goals simp [init]

end RaftWal.Conc
