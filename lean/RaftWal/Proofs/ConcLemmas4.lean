/-
  Proofs/ConcLemmas4.lean — the global invariant is preserved by every step of the writer.
-/
import RaftWal.Proofs.ConcLemmas3
namespace RaftWal.Conc

theorem obj_congr {s s' : Sys} (ho : s'.objs = s.objs) (k : Nat) : s'.obj k = s.obj k := by
  unfold Sys.obj; rw [ho]

/-- close a goal that is literally a field of the invariant `h` -/
macro "inv_field " h:ident : tactic =>
  `(tactic| first
    | exact ($h).rsid | exact ($h).w_held | exact ($h).w_pub | exact ($h).w_fin | exact ($h).c_idle
    | exact ($h).c_nidle | exact ($h).c_held | exact ($h).c_pub | exact ($h).c_fin | exact ($h).c_empty
    | exact ($h).lock_iff | exact ($h).excl | exact ($h).rc | exact ($h).fin_unset | exact ($h).padds_nodup
    | exact ($h).fresh)

theorem Inv.c_unlocked {s : Sys} (h : Inv s) (hw : s.wpc ≠ .idle) : cLocked s.cpc = false ∧ s.cpc ≠ .done := by
  have := h.excl
  constructor
  · cases hc : cLocked s.cpc
    · rfl
    · exact absurd (this (by simp [hc])) hw
  · intro hc
    exact absurd (this (by simp [hc])) hw

theorem cHolds_of_unlocked {c : CPc} (h : cLocked c = false) (k : Nat) : cHolds c k = 0 := by
  cases c <;> simp [cLocked] at h <;> rfl

theorem cPublished_of {c : CPc} (h : cPublished c = true) : cLocked c = true ∨ c = .done := by
  cases c <;> simp [cPublished] at h <;> simp [cLocked]

theorem wHolds_of_idle {w : WPc} (h : wActive w = false) (k : Nat) : wHolds w k = 0 := by
  cases w <;> simp [wActive] at h; rfl

theorem inv_w_idle_clear {s : Sys} (h : Inv s) (hw : s.wpc = .idle) : Inv { s with wqueue := [] } := by
  have hp : pendingAdds { s with wqueue := [] } = [] := by
    simp [pendingAdds, pending, hw, addsOf]
  constructor
  case toOInv => exact oinv_congr h.toOInv rfl rfl rfl rfl
  case padds_nodup => rw [hp]; simp
  case fresh => rw [hp]; simp
  all_goals inv_field h

theorem inv_w_idle_lock {s : Sys} (h : Inv s) (hw : s.wpc = .idle) (hc : s.closed = false) :
    Inv { s with lock := true, wpc := .locked } := by
  have hp : pendingAdds { s with lock := true, wpc := .locked } = pendingAdds s := by
    simp [pendingAdds, pending, hw]
  have hcpc : s.cpc = .idle := by
    by_cases hi : s.cpc = .idle
    · exact hi
    · have := h.c_nidle hi; simp [hc] at this
  constructor
  case toOInv => exact oinv_congr h.toOInv rfl rfl rfl rfl
  case padds_nodup => rw [hp]; exact h.padds_nodup
  case fresh => rw [hp]; exact h.fresh
  case lock_iff => simp [wActive]
  case excl => simp [hcpc, cLocked]
  case rc =>
    intro k
    have := h.rc k
    simp only [holders', hw] at this ⊢
    exact this
  case fin_unset =>
    intro k hk hf
    have := h.fin_unset k hk hf
    simp [hw, hcpc] at this
  all_goals first | inv_field h | (intro x hx; simp at hx; done)

theorem inv_w_locked {s : Sys} (h : Inv s) (hw : s.wpc = .locked) :
    Inv { (s.setObj s.cur { s.obj s.cur with refCount := (s.obj s.cur).refCount + 1 }) with wpc := .held s.cur } := by
  generalize hs' : ({ (s.setObj s.cur { s.obj s.cur with refCount := (s.obj s.cur).refCount + 1 }) with
    wpc := .held s.cur } : Sys) = s'
  have hcl := h.cur_last
  have hlt : s.cur < s.objs.length := by omega
  have hobj : ∀ k, s'.obj k = if k = s.cur then { s.obj s.cur with refCount := (s.obj s.cur).refCount + 1 }
      else s.obj k := by
    intro k; subst hs'
    have := obj_setObj s s.cur k { s.obj s.cur with refCount := (s.obj s.cur).refCount + 1 }
    simp only [hlt, and_true] at this
    exact this
  have hfiles : ∀ k, (s'.obj k).files = (s.obj k).files := by
    intro k; rw [hobj]; split
    · next hk => rw [hk]
    · rfl
  have hfin : ∀ k, (s'.obj k).fin = (s.obj k).fin := by
    intro k; rw [hobj]; split
    · next hk => rw [hk]
    · rfl
  have hlen : s'.objs.length = s.objs.length := by subst hs'; simp
  have hcur : s'.cur = s.cur := by subst hs'; rfl
  have hclosed : s'.closed = s.closed := by subst hs'; rfl
  have hlock : s'.lock = s.lock := by subst hs'; rfl
  have hrd : s'.readers = s.readers := by subst hs'; rfl
  have hwpc : s'.wpc = .held s.cur := by subst hs'; rfl
  have hcpc : s'.cpc = s.cpc := by subst hs'; rfl
  have hp : pendingAdds s' = pendingAdds s := by
    subst hs'; simp [pendingAdds, pending, hw]
  have ho : OInv s' := by
    subst hs'; exact oinv_congr (oinv_rcInc h.toOInv s.cur) rfl rfl rfl rfl
  clear hs'
  obtain ⟨hnl, hnd⟩ := h.c_unlocked (by rw [hw]; simp)
  constructor
  case toOInv => exact ho
  case rsid => rw [hrd, hlen]; exact h.rsid
  case w_held => intro x hx; rw [hwpc] at hx; injection hx with hx; rw [hcur, hx]
  case w_pub => intro x hx; rw [hwpc] at hx; simp at hx
  case w_fin => intro x hx; rw [hwpc] at hx; simp at hx
  case c_idle => rw [hcpc, hclosed]; exact h.c_idle
  case c_nidle => rw [hcpc, hclosed]; exact h.c_nidle
  case c_held => intro x hx; rw [hcpc] at hx; rw [hx] at hnl; simp [cLocked] at hnl
  case c_pub => intro x hx; rw [hcpc] at hx; rw [hx] at hnl; simp [cLocked] at hnl
  case c_fin => intro x hx; rw [hcpc] at hx; rw [hx] at hnl; simp [cLocked] at hnl
  case c_empty =>
    intro hx; rw [hcpc] at hx
    rcases cPublished_of hx with h1 | h1
    · rw [hnl] at h1; simp at h1
    · exact absurd h1 hnd
  case lock_iff =>
    have := h.lock_iff
    rw [hlock, hwpc, hcpc, this, hw]; simp [wActive]
  case excl => intro hx; rw [hcpc, hnl] at hx; simp at hx; exact absurd hx hnd
  case rc =>
    intro k
    have := h.rc k
    simp only [holders', hw, wHolds] at this
    simp only [holders', hrd, hwpc, hcpc, wHolds, hobj]
    by_cases hk : k = s.cur
    · subst hk; simp; omega
    · have : ¬ s.cur = k := fun e => hk e.symm
      simp [hk, this]; omega
  case fin_unset =>
    intro k hk hf
    rw [hlen] at hk; rw [hfin] at hf
    rcases h.fin_unset k hk hf with h1 | h1
    · rw [hw] at h1; simp at h1
    · rw [h1] at hnl; simp [cLocked] at hnl
  case padds_nodup => rw [hp]; exact h.padds_nodup
  case fresh => intro k f; rw [hfiles, hp]; exact h.fresh k f

theorem addsOf_cons (m : Mutation) (ms : List Mutation) : addsOf (m :: ms) = m.add ++ addsOf ms := by
  simp [addsOf]

theorem inv_w_held {s : Sys} (h : Inv s) (sid : Nat) (hw : s.wpc = .held sid) (m : Mutation) (rest : List Mutation)
    (hq : s.wqueue = m :: rest) (o : Obj)
    (ho : o = { files := m.keep.filter (fun f => (s.obj sid).files.contains f) ++ m.add }) :
    Inv { s with objs := s.objs ++ [o], cur := s.objs.length, wpc := .published sid } := by
  generalize hs' : ({ s with objs := s.objs ++ [o], cur := s.objs.length, wpc := .published sid } : Sys) = s'
  have hcl := h.cur_last
  have hsid : sid = s.cur := h.w_held sid hw
  have hlt : s.cur < s.objs.length := by omega
  have hpa : pendingAdds s = m.add ++ addsOf rest := by
    simp [pendingAdds, pending, hw, hq, addsOf_cons]
  have hnd := h.padds_nodup
  rw [hpa, List.nodup_append] at hnd
  have hofl : ∀ f, f ∈ o.files ↔ (f ∈ m.keep ∧ f ∈ (s.obj sid).files) ∨ f ∈ m.add := by
    intro f; rw [ho]; simp
  have hobj : ∀ k, s'.obj k = if k = s.objs.length then o else s.obj k := by
    intro k; subst hs'; exact obj_append s k o s.objs.length
  have hlen : s'.objs.length = s.objs.length + 1 := by subst hs'; simp
  have hcur : s'.cur = s.objs.length := by subst hs'; rfl
  have hclosed : s'.closed = s.closed := by subst hs'; rfl
  have hlock : s'.lock = s.lock := by subst hs'; rfl
  have hrd : s'.readers = s.readers := by subst hs'; rfl
  have hwpc : s'.wpc = .published sid := by subst hs'; rfl
  have hcpc : s'.cpc = s.cpc := by subst hs'; rfl
  have hp : pendingAdds s' = addsOf rest := by
    subst hs'; simp [pendingAdds, pending, hq]
  have hoi : OInv s' := by
    subst hs'
    refine oinv_congr (oinv_append h.toOInv o (by rw [ho]) ?_) rfl rfl rfl rfl
    intro f hf
    rcases (hofl f).1 hf with ⟨_, h1⟩ | h1
    · left; rw [← hsid]; exact h1
    · right; intro k hk
      exact h.fresh k f hk (by rw [hpa]; exact List.mem_append_left _ h1)
  clear hs'
  obtain ⟨hnl, hnd'⟩ := h.c_unlocked (by rw [hw]; simp)
  constructor
  case toOInv => exact hoi
  case rsid => rw [hrd, hlen]; intro r hr x hx; have := h.rsid r hr x hx; omega
  case w_held => intro x hx; rw [hwpc] at hx; simp at hx
  case w_pub =>
    intro x hx; rw [hwpc] at hx; injection hx with hx; subst hx
    refine ⟨by omega, ?_⟩
    rw [hobj, if_neg (by omega), hsid]; exact h.fin_cur
  case w_fin => intro x hx; rw [hwpc] at hx; simp at hx
  case c_idle => rw [hcpc, hclosed]; exact h.c_idle
  case c_nidle => rw [hcpc, hclosed]; exact h.c_nidle
  case c_held => intro x hx; rw [hcpc] at hx; rw [hx] at hnl; simp [cLocked] at hnl
  case c_pub => intro x hx; rw [hcpc] at hx; rw [hx] at hnl; simp [cLocked] at hnl
  case c_fin => intro x hx; rw [hcpc] at hx; rw [hx] at hnl; simp [cLocked] at hnl
  case c_empty =>
    intro hx; rw [hcpc] at hx
    rcases cPublished_of hx with h1 | h1
    · rw [hnl] at h1; simp at h1
    · exact absurd h1 hnd'
  case lock_iff =>
    have := h.lock_iff
    rw [hlock, hwpc, hcpc, this, hw]; simp [wActive]
  case excl => intro hx; rw [hcpc, hnl] at hx; simp at hx; exact absurd hx hnd'
  case rc =>
    intro k
    have := h.rc k
    simp only [holders', hw, wHolds] at this
    simp only [holders', hrd, hwpc, hcpc, wHolds, hobj]
    by_cases hk : k = s.objs.length
    · subst hk
      rw [rHolders_zero_of_lt s.readers s.objs.length _ (Nat.le_refl _) h.rsid, cHolds_of_unlocked hnl]
      have : ¬ sid = s.objs.length := by omega
      simp [this, ho]
    · simp only [hk, if_false]; exact this
  case fin_unset =>
    intro k hk hf
    rw [hlen] at hk
    by_cases hks : k = sid
    · left; rw [hwpc, hks]
    · have hk' : k + 1 < s.objs.length := by omega
      rw [hobj, if_neg (by omega)] at hf
      rcases h.fin_unset k hk' hf with h1 | h1
      · rw [hw] at h1; simp at h1
      · rw [h1] at hnl; simp [cLocked] at hnl
  case padds_nodup => rw [hp]; exact hnd.2.1
  case fresh =>
    intro k f hf; rw [hp]
    rw [hobj] at hf
    by_cases hk : k = s.objs.length
    · simp only [hk, if_true] at hf
      rcases (hofl f).1 hf with ⟨_, h1⟩ | h1
      · have := h.fresh sid f h1
        rw [hpa, List.mem_append] at this
        exact fun hc => this (Or.inr hc)
      · exact fun hc => hnd.2.2 f h1 f hc rfl
    · simp only [hk, if_false] at hf
      have := h.fresh k f hf
      rw [hpa, List.mem_append] at this
      exact fun hc => this (Or.inr hc)

theorem inv_w_published {s : Sys} (h : Inv s) (sid : Nat) (hw : s.wpc = .published sid) (c : List FileId)
    (hc : c = (s.obj sid).files.filter (fun f => ¬ (s.obj s.cur).files.contains f)) :
    Inv { (s.setObj sid { s.obj sid with fin := .set c }) with wpc := .finSet sid } := by
  generalize hs' : ({ (s.setObj sid { s.obj sid with fin := .set c }) with wpc := .finSet sid } : Sys) = s'
  have hcl := h.cur_last
  obtain ⟨hsid, hunset⟩ := h.w_pub sid hw
  have hlt : sid < s.objs.length := by omega
  have hobj : ∀ k, s'.obj k = if k = sid then { s.obj sid with fin := .set c } else s.obj k := by
    intro k; subst hs'
    have := obj_setObj s sid k { s.obj sid with fin := .set c }
    simp only [hlt, and_true] at this
    exact this
  have hfiles : ∀ k, (s'.obj k).files = (s.obj k).files := by
    intro k; rw [hobj]; split
    · next hk => rw [hk]
    · rfl
  have hrcs : ∀ k, (s'.obj k).refCount = (s.obj k).refCount := by
    intro k; rw [hobj]; split
    · next hk => rw [hk]
    · rfl
  have hlen : s'.objs.length = s.objs.length := by subst hs'; simp
  have hcur : s'.cur = s.cur := by subst hs'; rfl
  have hclosed : s'.closed = s.closed := by subst hs'; rfl
  have hlock : s'.lock = s.lock := by subst hs'; rfl
  have hrd : s'.readers = s.readers := by subst hs'; rfl
  have hwpc : s'.wpc = .finSet sid := by subst hs'; rfl
  have hcpc : s'.cpc = s.cpc := by subst hs'; rfl
  have hp : pendingAdds s' = pendingAdds s := by
    subst hs'; simp [pendingAdds, pending, hw]
  have hrc1 : 1 ≤ (s.obj sid).refCount := by
    have := h.rc sid
    simp only [holders', hw, wHolds, if_true] at this
    omega
  have hoi : OInv s' := by
    subst hs'
    refine oinv_congr (oinv_setFin h.toOInv sid c hsid hunset hrc1 ?_) rfl rfl rfl rfl
    intro f; rw [hc, hsid]; simp
  clear hs'
  obtain ⟨hnl, hnd'⟩ := h.c_unlocked (by rw [hw]; simp)
  constructor
  case toOInv => exact hoi
  case rsid => rw [hrd, hlen]; exact h.rsid
  case w_held => intro x hx; rw [hwpc] at hx; simp at hx
  case w_pub => intro x hx; rw [hwpc] at hx; simp at hx
  case w_fin => intro x hx; rw [hwpc] at hx; injection hx with hx; subst hx; rw [hcur]; exact hsid
  case c_idle => rw [hcpc, hclosed]; exact h.c_idle
  case c_nidle => rw [hcpc, hclosed]; exact h.c_nidle
  case c_held => intro x hx; rw [hcpc] at hx; rw [hx] at hnl; simp [cLocked] at hnl
  case c_pub => intro x hx; rw [hcpc] at hx; rw [hx] at hnl; simp [cLocked] at hnl
  case c_fin => intro x hx; rw [hcpc] at hx; rw [hx] at hnl; simp [cLocked] at hnl
  case c_empty =>
    intro hx; rw [hcpc] at hx
    rcases cPublished_of hx with h1 | h1
    · rw [hnl] at h1; simp at h1
    · exact absurd h1 hnd'
  case lock_iff =>
    have := h.lock_iff
    rw [hlock, hwpc, hcpc, this, hw]; simp [wActive]
  case excl => intro hx; rw [hcpc, hnl] at hx; simp at hx; exact absurd hx hnd'
  case rc =>
    intro k
    have := h.rc k
    simp only [holders', hw, wHolds] at this
    simp only [holders', hrd, hwpc, hcpc, wHolds, hrcs]
    exact this
  case fin_unset =>
    intro k hk hf
    rw [hlen] at hk
    by_cases hks : k = sid
    · rw [hobj, if_pos hks] at hf; simp at hf
    · rw [hobj, if_neg hks] at hf
      rcases h.fin_unset k hk hf with h1 | h1
      · rw [hw] at h1; injection h1 with h1; exact absurd h1.symm hks
      · rw [h1] at hnl; simp [cLocked] at hnl
  case padds_nodup => rw [hp]; exact h.padds_nodup
  case fresh => intro k f; rw [hfiles, hp]; exact h.fresh k f

theorem inv_w_finSet {s : Sys} (h : Inv s) (sid : Nat) (hw : s.wpc = .finSet sid) :
    Inv { (s.release sid) with wpc := .idle, lock := false, wqueue := s.wqueue.tail } := by
  generalize hs' : ({ (s.release sid) with wpc := .idle, lock := false, wqueue := s.wqueue.tail } : Sys) = s'
  have hcl := h.cur_last
  have hsid : sid + 1 = s.cur := h.w_fin sid hw
  have hlt : sid < s.objs.length := by omega
  have hobj : ∀ k, s'.obj k = if k = sid then
        { s.obj sid with refCount := (s.obj sid).refCount - 1, fin := relFin s sid } else s.obj k := by
    intro k; subst hs'
    have := release_obj s sid k
    simp only [hlt, and_true] at this
    exact this
  have hfiles : ∀ k, (s'.obj k).files = (s.obj k).files := by
    intro k; rw [hobj]; split
    · next hk => rw [hk]
    · rfl
  have hlen : s'.objs.length = s.objs.length := by subst hs'; simp
  have hcur : s'.cur = s.cur := by subst hs'; simp
  have hclosed : s'.closed = s.closed := by subst hs'; simp
  have hlock : s'.lock = false := by subst hs'; rfl
  have hrd : s'.readers = s.readers := by subst hs'; simp
  have hwpc : s'.wpc = .idle := by subst hs'; rfl
  have hcpc : s'.cpc = s.cpc := by subst hs'; simp
  have hp : pendingAdds s' = pendingAdds s := by
    subst hs'; simp [pendingAdds, pending, hw]
  have hoi : OInv s' := by
    subst hs'
    exact oinv_congr (oinv_release h.toOInv sid) rfl rfl rfl rfl
  clear hs'
  obtain ⟨hnl, hnd'⟩ := h.c_unlocked (by rw [hw]; simp)
  constructor
  case toOInv => exact hoi
  case rsid => rw [hrd, hlen]; exact h.rsid
  case w_held => intro x hx; rw [hwpc] at hx; simp at hx
  case w_pub => intro x hx; rw [hwpc] at hx; simp at hx
  case w_fin => intro x hx; rw [hwpc] at hx; simp at hx
  case c_idle => rw [hcpc, hclosed]; exact h.c_idle
  case c_nidle => rw [hcpc, hclosed]; exact h.c_nidle
  case c_held => intro x hx; rw [hcpc] at hx; rw [hx] at hnl; simp [cLocked] at hnl
  case c_pub => intro x hx; rw [hcpc] at hx; rw [hx] at hnl; simp [cLocked] at hnl
  case c_fin => intro x hx; rw [hcpc] at hx; rw [hx] at hnl; simp [cLocked] at hnl
  case c_empty =>
    intro hx; rw [hcpc] at hx
    rcases cPublished_of hx with h1 | h1
    · rw [hnl] at h1; simp at h1
    · exact absurd h1 hnd'
  case lock_iff => rw [hlock, hwpc, hcpc, hnl]; simp [wActive]
  case excl => intro _; exact hwpc
  case rc =>
    intro k
    have := h.rc k
    simp only [holders', hw, wHolds] at this
    simp only [holders', hrd, hwpc, hcpc, wHolds, hobj]
    by_cases hk : k = sid
    · subst hk; simp at this ⊢; omega
    · have : ¬ sid = k := fun e => hk e.symm
      simp_all
  case fin_unset =>
    intro k hk hf
    rw [hlen] at hk
    have hf' : (s.obj k).fin = .unset := by
      rw [hobj] at hf
      by_cases hks : k = sid
      · rw [if_pos hks] at hf
        simp only at hf
        rcases rel_cases s sid with ⟨c, _, _, hrf, _⟩ | ⟨hrf, _, _⟩
        · rw [hrf] at hf; simp at hf
        · rw [hrf] at hf; rw [hks]; exact hf
      · rw [if_neg hks] at hf; exact hf
    rcases h.fin_unset k hk hf' with h1 | h1
    · rw [hw] at h1; simp at h1
    · rw [h1] at hnl; simp [cLocked] at hnl
  case padds_nodup => rw [hp]; exact h.padds_nodup
  case fresh => intro k f; rw [hfiles, hp]; exact h.fresh k f

theorem inv_stepWriter {s : Sys} (h : Inv s) : Inv (stepWriter s) := by
  unfold stepWriter
  split
  · next hw =>
    split
    · exact h
    · split
      · exact h
      · next hl =>
        split
        · exact inv_w_idle_clear h hw
        · next hc => exact inv_w_idle_lock h hw (by simpa using hc)
  · next hw => exact inv_w_locked h hw
  · next sid hw =>
    split
    · exact h
    · next m rest hq => exact inv_w_held h sid hw m rest hq _ rfl
  · next sid hw => exact inv_w_published h sid hw _ rfl
  · next sid hw => exact inv_w_finSet h sid hw

end RaftWal.Conc
