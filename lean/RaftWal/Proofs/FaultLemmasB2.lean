/-
  Proofs/FaultLemmasB2.lean — fault model, part B: the invariant of a running process unpacked (`FRun`, `FR`); the
  files of the clean disk `cl d = cleanTail (strip d)`.
-/
import RaftWal.Proofs.FaultLemmasB1
namespace RaftWal.Fault.B
open RaftWal.Crash

/-- what `cleanTail` does to the tail's file -/
def cleanF (f : File) : File := { f with pending := [], sealedP := false, sealedS := false }

@[simp] theorem cleanF_id (f : File) : (cleanF f).id = f.id := rfl
@[simp] theorem vfile_id (f : File) : (vfile f).id = f.id := rfl

/-- the clean disk of the invariant -/
def cl (d : Disk) : Disk := cleanTail (strip d)

/-- some segment has identifier `j` -/
def named (segs : List Seg) (j : Nat) : Bool := segs.any (fun s => s.id == j)

theorem named_iff {segs : List Seg} {j : Nat} : named segs j = true ↔ ∃ s ∈ segs, s.id = j := by
  simp [named]

theorem named_false_iff {segs : List Seg} {j : Nat} : named segs j = false ↔ ∀ s ∈ segs, s.id ≠ j := by
  simp [named]

@[simp] theorem strip_md (d : Disk) : (strip d).md = d.md := rfl

theorem strip_files (d : Disk) : (strip d).files = d.files.filter (fun f => named d.md.segs f.id) := rfl

theorem cleanTail_md (d : Disk) : (cleanTail d).md = d.md := by
  unfold cleanTail
  split <;> rfl

theorem cleanTail_files {d : Disk} {t : Seg} (h : d.md.segs.getLast? = some t) :
    (cleanTail d).files = updFile d.files t.id cleanF := by
  unfold cleanTail
  rw [h]
  rfl

@[simp] theorem cl_md (d : Disk) : (cl d).md = d.md := by
  unfold cl
  rw [cleanTail_md, strip_md]

theorem cl_files {d : Disk} {t : Seg} (h : d.md.segs.getLast? = some t) :
    (cl d).files = updFile (d.files.filter (fun f => named d.md.segs f.id)) t.id cleanF := by
  unfold cl
  rw [cleanTail_files (by rw [strip_md]; exact h), strip_files]

theorem look_filter_id (fs : List File) (g : Nat → Bool) (j : Nat) :
    look (fs.filter (fun f => g f.id)) j = if g j then look fs j else none := by
  unfold look
  induction fs with
  | nil => simp
  | cons a l ih =>
    simp only [List.filter_cons]
    by_cases e : a.id = j
    · subst e
      cases hg : g a.id with
      | true => simp
      | false =>
        simp only [Bool.false_eq_true, ↓reduceIte]
        rw [ih]; simp [hg]
    · cases hg : g a.id with
      | true => simp only [↓reduceIte, List.find?_cons, e, decide_false]; exact ih
      | false => simp only [Bool.false_eq_true, ↓reduceIte, List.find?_cons, e, decide_false]; exact ih

theorem cl_file? {d : Disk} {t : Seg} (h : d.md.segs.getLast? = some t) (j : Nat) :
    (cl d).file? j =
      if named d.md.segs j then (if j = t.id then (d.file? j).map cleanF else d.file? j) else none := by
  rw [file?_eq_look, cl_files h, look_updFile _ t.id cleanF (fun _ => rfl), look_filter_id, file?_eq_look]
  cases named d.md.segs j <;> simp

theorem vdisk_file? (d : Disk) (j : Nat) : (vdisk d).file? j = (d.file? j).map vfile := by
  rw [file?_eq_look, file?_eq_look]
  exact look_map d.files vfile (fun _ => rfl) j

@[simp] theorem vdisk_md (d : Disk) : (vdisk d).md = d.md := rfl

/-! ### the invariant of a running process as a proposition -/

structure FRun (d : Disk) : Prop where
  qs : QuiescentS (cl d)
  nodupF : (fids d).Nodup
  fidlt : ∀ f ∈ d.files, f.id < d.md.nextID
  hl : ∀ f ∈ d.files, f.hsynced = true → f.linked = true
  pclean : ∀ f ∈ d.files, (∃ t, d.md.segs.getLast? = some t ∧ t.id = f.id) ∨ named d.md.segs f.id = false ∨
    (f.pending = [] ∧ f.sealedP = false)
  tail : ∃ t f, d.md.segs.getLast? = some t ∧ d.file? t.id = some f ∧
    (f.sealedS = true → f.pending = [] ∧ f.sealedP = false)

theorem finvRunB_iff (d : Disk) : finvRunB d = true ↔ FRun d := by
  unfold finvRunB
  simp only [Bool.and_eq_true, quiescentSB_iff, nodupB_iff, List.all_eq_true, decide_eq_true_eq, Bool.or_eq_true,
    Bool.not_eq_eq_eq_not, Bool.not_true, List.isEmpty_iff]
  constructor
  · rintro ⟨⟨⟨⟨⟨h1, h2⟩, h3⟩, h4⟩, h5⟩, h6⟩
    refine ⟨h1, h2, h3, ?_, ?_, ?_⟩
    · intro f hf hh
      rcases h4 f hf with h | h
      · rw [hh] at h; cases h
      · exact h
    · intro f hf
      rcases h5 f hf with (h | h) | h
      · left
        cases ht : d.md.segs.getLast? with
        | none => rw [ht] at h; simp at h
        | some t => rw [ht] at h; exact ⟨t, rfl, by simpa using h⟩
      · right; left; exact h
      · right; right; exact h
    · cases ht : d.md.segs.getLast? with
      | none => rw [ht] at h6; simp at h6
      | some t =>
        rw [ht] at h6
        cases hf : d.file? t.id with
        | none => simp only [hf] at h6; cases h6
        | some f =>
          simp only [hf] at h6
          refine ⟨t, f, rfl, hf, ?_⟩
          intro hs
          rw [hs] at h6
          simpa using h6
  · rintro ⟨h1, h2, h3, h4, h5, t, f, ht, hf, h6⟩
    refine ⟨⟨⟨⟨⟨h1, h2⟩, h3⟩, ?_⟩, ?_⟩, ?_⟩
    · intro g hg
      cases hh : g.hsynced with
      | false => exact Or.inl rfl
      | true => exact Or.inr (h4 g hg hh)
    · intro g hg
      rcases h5 g hg with ⟨t', ht', e⟩ | h | h
      · left; left; rw [ht']; simpa using e
      · left; right; exact h
      · right; exact h
    · rw [ht]
      simp only [hf]
      cases hs : f.sealedS with
      | false => simp
      | true => have := h6 hs; simp [this.1, this.2]

/-- the invariant with the segments and the tail's file named -/
structure FR (d : Disk) (P : List Seg) (t : Seg) (f : File) : Prop where
  run : FRun d
  qs : QS (cl d) P t (cleanF f)
  segs : d.md.segs = P ++ [t]
  tf : d.file? t.id = some f
  tss : f.sealedS = true → f.pending = [] ∧ f.sealedP = false
  pfile : ∀ s ∈ P, ∃ g, d.file? s.id = some g ∧ (cl d).file? s.id = some g ∧ g.pending = [] ∧ g.sealedP = false

theorem FR.last {d : Disk} {P : List Seg} {t : Seg} {f : File} (h : FR d P t f) : d.md.segs.getLast? = some t := by
  rw [h.segs]; simp

theorem named_of_mem {segs : List Seg} {s : Seg} (hs : s ∈ segs) : named segs s.id = true :=
  named_iff.2 ⟨s, hs, rfl⟩

theorem FRun.unpack {d : Disk} (h : FRun d) : ∃ P t f, FR d P t f := by
  obtain ⟨P, t, g, hq⟩ := (quiescentS_iff _).1 h.qs
  obtain ⟨t', f, ht', hf, hss⟩ := h.tail
  have hsegs : d.md.segs = P ++ [t] := by rw [← cl_md d]; exact hq.base.segs
  have e : t' = t := by rw [hsegs] at ht'; simpa using ht'.symm
  subst e
  have hnt : named d.md.segs t'.id = true := named_of_mem (by rw [hsegs]; simp)
  have hg : g = cleanF f := by
    have := hq.tf
    rw [cl_file? ht', hnt, hf] at this
    simpa using this.symm
  subst hg
  refine ⟨P, t', f, h, hq, hsegs, hf, hss, ?_⟩
  intro s hs
  obtain ⟨g, hg, _⟩ := hq.base.sealed s hs
  have hns : named d.md.segs s.id = true := named_of_mem (by rw [hsegs]; simp [hs])
  have hne : s.id ≠ t'.id := hq.base.tid_ne s hs
  have hg' := hg
  rw [cl_file? ht', hns] at hg'
  simp only [hne, ↓reduceIte] at hg'
  have hm := file?_some_mem hg'
  refine ⟨g, hg', hg, ?_⟩
  rcases h.pclean g hm.1 with ⟨t2, ht2, e2⟩ | hx | hx
  · rw [ht'] at ht2; cases ht2
    exact absurd (e2.trans hm.2).symm hne
  · rw [hm.2, hns] at hx; cases hx
  · exact hx

theorem FR.of_finv {d : Disk} (h : finvRunB d = true) : ∃ P t f, FR d P t f :=
  ((finvRunB_iff d).1 h).unpack

end RaftWal.Fault.B
