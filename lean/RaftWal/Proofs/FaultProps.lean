/-
  Proofs/FaultProps.lean — the fault theorems about Model/Fault.lean (statements: Proofs/FaultStmt.lean), assembled from
  the per-call analyses (FaultLemmasA*: store, B*: delHead and set, C*: delTail), the restart analysis (D*), and the fresh-state
  and history lemmas (E*).
-/
import RaftWal.Proofs.FaultStmt
import RaftWal.Proofs.FaultLemmasA7
import RaftWal.Proofs.FaultLemmasB8
import RaftWal.Proofs.FaultLemmasC6
import RaftWal.Proofs.FaultLemmasD4
import RaftWal.Proofs.FaultLemmasE6
namespace RaftWal.Fault
open RaftWal.Crash

/-! ### fresh states -/
theorem fresh_view : fresh_view_stmt := E.fresh_view
theorem fresh_inv : fresh_inv_stmt := E.fresh_inv
theorem init_fresh : init_fresh_stmt := E.init_fresh
theorem no_fault_agrees : no_fault_agrees_stmt := E.no_fault_agrees

/-! ### one call -/
theorem finv_call : finv_call_stmt :=
  B.finv_call_of_store_delTail (fun p hi first es seals hok pl => A.finvS_call_store p hi first es seals hok pl)
    (fun p hi newMax hok pl => C.finvS_call_delTail p hi newMax hok pl)

theorem call_view : call_view_stmt :=
  B.call_view_of_store_delTail (fun p hi first es seals hok pl => A.call_view_store p hi first es seals hok pl)
    (fun p hi newMax hok pl => C.call_view_delTail p hi newMax hok pl)

theorem call_disklog : call_disklog_stmt :=
  B.call_disklog_of_store_delTail (fun p hi first es seals hok pl => A.call_disklog_store p hi first es seals hok pl)
    (fun p hi newMax hok pl => C.call_disklog_delTail p hi newMax hok pl)

/-! ### restart -/
theorem restart_total : restart_total_stmt := D.restart_total
theorem restart_view : restart_view_stmt := D.restart_view
/-- the two statements as first written, for `FInv` alone, are false -/
theorem restart_total_refuted : ¬ restart_total_stmt0 := D.restart_total_refuted
theorem restart_view_refuted : ¬ restart_view_stmt0 := D.restart_view_refuted

/-! ### histories -/
theorem epoch_inv : epoch_inv_stmt := E.epoch_inv_of fresh_inv finv_call
theorem epoch_view : epoch_view_stmt := E.epoch_view_of fresh_inv finv_call call_view
theorem epoch_restart : epoch_restart_stmt :=
  E.epoch_restart_of fresh_inv finv_call call_view call_disklog restart_total restart_view fresh_view

end RaftWal.Fault
