/-
  Proofs/FaultLemmasB5.lean — fault model, part B: the clean disk after a head truncation that went through is the
  clean disk before it with the call of Model.Crash applied.
-/
import RaftWal.Proofs.FaultLemmasB4
namespace RaftWal.Fault.B
open RaftWal.Crash

theorem disk_ext {a b : Disk} (hm : a.md = b.md) (hf : a.files = b.files) : a = b := by
  cases a; cases b; simp only at hm hf; subst hm hf; rfl

theorem named_eq_mem {segs : List Seg} {j : Nat} : named segs j = true ↔ j ∈ segIds segs := by
  rw [named_iff]; simp [segIds]

theorem named_congr {K K' : List Seg} (h : segIds K' = segIds K) (j : Nat) : named K' j = named K j := by
  rw [Bool.eq_iff_iff, named_eq_mem, named_eq_mem, h]

/-- the deletions of Model.Crash, all at once -/
theorem deletes_apply (ids : List Nat) (d : Disk) :
    d.applyAll (ids.map .delete) = { d with files := d.files.filter (fun f => decide (f.id ∉ ids)) } := by
  induction ids generalizing d with
  | nil =>
    have : d.files.filter (fun f => decide (f.id ∉ ([] : List Nat))) = d.files :=
      List.filter_eq_self.2 (fun _ _ => by simp)
    rw [this]; rfl
  | cons a l ih =>
    rw [List.map_cons, applyAll_cons, ih]
    simp only [Disk.apply, List.filter_filter]
    congr 1
    apply List.filter_congr
    intro f _
    simp only [List.mem_cons, not_or, ne_eq]
    by_cases h1 : f.id = a <;> by_cases h2 : f.id ∈ l <;> simp [h1, h2]

theorem updFile_filter_id (fs : List File) (id : Nat) (h : File → File) (hid : ∀ f, (h f).id = f.id)
    (g : Nat → Bool) :
    (updFile fs id h).filter (fun f => g f.id) = updFile (fs.filter (fun f => g f.id)) id h := by
  induction fs with
  | nil => rfl
  | cons a l ih =>
    have e : (if a.id = id then h a else a).id = a.id := by split <;> simp [hid]
    unfold updFile at ih ⊢
    simp only [List.map_cons, List.filter_cons, e]
    cases g a.id with
    | true => simp only [↓reduceIte, List.map_cons]; rw [ih]
    | false => simp only [Bool.false_eq_true, ↓reduceIte]; rw [ih]

/-- which files survive: named by the kept segments, whatever the failing deletion left -/
theorem keep_filter_eq {D K K' : List Seg} (hids : segIds K' = segIds K) (hn : (segIds (D ++ K)).Nodup)
    (g : Nat → Bool) (hg : ∀ j, j ∉ segIds D → g j = true) (j : Nat) :
    (named K' j && g j) = (decide (j ∉ segIds D) && named (D ++ K) j) := by
  rw [named_congr hids]
  have hdis : j ∈ segIds K → j ∉ segIds D := by
    intro h1 h2
    simp only [segIds, List.map_append] at hn
    exact (List.nodup_append.1 hn).2.2 j h2 j h1 rfl
  rw [Bool.eq_iff_iff]
  simp only [Bool.and_eq_true, named_eq_mem, decide_eq_true_eq]
  constructor
  · rintro ⟨h1, _⟩
    exact ⟨hdis h1, by simp [segIds] at h1 ⊢; exact Or.inr h1⟩
  · rintro ⟨h1, h2⟩
    have : j ∈ segIds K := by
      simp only [segIds, List.map_append, List.mem_append] at h2
      rcases h2 with h2 | h2
      · exact absurd h2 h1
      · exact h2
    exact ⟨this, hg j h1⟩

/-- the kept segments end with the tail -/
theorem kept_last {P D rest : List Seg} {t hd : Seg} (e : D ++ hd :: rest = P ++ [t]) (n : Nat) :
    ∃ t1, (({ hd with min := n } : Seg) :: rest).getLast? = some t1 ∧ t1.id = t.id ∧
      (t1 = t ∨ (rest = [] ∧ hd = t ∧ t1 = { t with min := n })) := by
  rcases split_last e with ⟨h1, _, h3⟩ | ⟨r0, h1, _⟩
  · subst h1 h3
    exact ⟨_, rfl, rfl, Or.inr ⟨rfl, rfl, rfl⟩⟩
  · subst h1
    refine ⟨t, ?_, rfl, Or.inl rfl⟩
    have : ∀ (x : Seg) (l : List Seg), (x :: (l ++ [t])).getLast? = some t := by
      intro x l
      show ((x :: l) ++ [t]).getLast? = some t
      exact List.getLast?_concat
    exact this _ _

section
variable {d : Disk} {P : List Seg} {t : Seg} {f : File}

/-- the test of the truncation, as the process evaluates it -/
abbrev gone (d : Disk) (n : Nat) : Seg → Bool := goneB (lastIndex (vdisk d)) n

theorem FR.split (h : FR d P t f) (n : Nat) :
    d.md.segs.takeWhile (gone d n) ++ d.md.segs.dropWhile (gone d n) = P ++ [t] := by
  rw [List.takeWhile_append_dropWhile, h.segs]

theorem FR.nodupS (h : FR d P t f) : (segIds d.md.segs).Nodup := by
  rw [h.segs]; exact h.qs.base.nodupS

theorem FR.prog_keep (h : FR d P t f) {n : Nat} {hd : Seg} {rest : List Seg}
    (hk : d.md.segs.dropWhile (gone d n) = hd :: rest) :
    prog (cl d) (.delHead n) =
      [.commit { d.md with segs := { hd with min := n } :: rest }] ++
        (segIds (d.md.segs.takeWhile (gone d n))).map .delete ++ [.ack] := by
  show delHeadProg (cl d) n = _
  have hk' : (vdisk d).md.segs.dropWhile (goneB (lastIndex (vdisk d)) n) = hd :: rest := hk
  rw [h.prog_eq, delHeadProg_eq, hk', map_delete_eq]
  rfl

theorem FR.prog_all (h : FR d P t f) {n : Nat} (hk : d.md.segs.dropWhile (gone d n) = []) :
    prog (cl d) (.delHead n) =
      [.commit ⟨d.md.nextID + 1, [newSeg d.md.nextID (lastIndex (vdisk d) + 1)], d.md.stable⟩,
        .create d.md.nextID (lastIndex (vdisk d) + 1)] ++
        (segIds (d.md.segs.takeWhile (gone d n))).map .delete ++ [.ack] := by
  show delHeadProg (cl d) n = _
  have hk' : (vdisk d).md.segs.dropWhile (goneB (lastIndex (vdisk d)) n) = [] := hk
  rw [h.prog_eq, delHeadProg_eq, hk', map_delete_eq]
  rfl

/-- a head truncation that keeps some segment: the clean disk afterwards -/
theorem FR.keep_final (h : FR d P t f) {n : Nat} {hd : Seg} {rest : List Seg}
    (hk : d.md.segs.dropWhile (gone d n) = hd :: rest) (g : Nat → Bool)
    (hg : ∀ j, j ∉ segIds (d.md.segs.takeWhile (gone d n)) → g j = true) :
    cl { md := { d.md with segs := { hd with min := n } :: rest }, files := d.files.filter (fun f => g f.id) } =
      (cl d).applyAll (prog (cl d) (.delHead n)) := by
  have hsp := h.split n
  rw [hk] at hsp
  obtain ⟨t1, hl1, hid1, _⟩ := kept_last hsp n
  have hS : d.md.segs = d.md.segs.takeWhile (gone d n) ++ hd :: rest := by
    rw [← hk, List.takeWhile_append_dropWhile]
  rw [h.prog_keep hk, applyAll_append, applyAll_append, deletes_apply]
  apply disk_ext
  · rw [cl_md]; rfl
  · rw [cl_files (t := t1) hl1, hid1]
    show _ = List.filter _ (cl d).files
    dsimp only
    rw [cl_files h.last,
      updFile_filter_id _ t.id cleanF (fun _ => rfl) (fun j => decide (j ∉ segIds (d.md.segs.takeWhile (gone d n)))),
      List.filter_filter, List.filter_filter]
    congr 1
    apply List.filter_congr
    intro x _
    have hn := h.nodupS
    rw [hS] at hn
    have := keep_filter_eq (D := d.md.segs.takeWhile (gone d n)) (K := hd :: rest)
      (K' := ({ hd with min := n } : Seg) :: rest) rfl hn g hg x.id
    rw [← hS] at this
    exact this

theorem FR.idlt (h : FR d P t f) : ∀ s ∈ d.md.segs, s.id < d.md.nextID := by
  intro s hs
  have := h.qs.base.idlt s (by rw [← h.segs]; exact hs)
  rwa [cl_md] at this

theorem FR.not_named_next (h : FR d P t f) : named d.md.segs d.md.nextID = false := by
  rw [named_false_iff]
  intro s hs e
  have := h.idlt s hs
  omega

theorem FR.fresh_cl (h : FR d P t f) : (cl d).file? d.md.nextID = none := by
  rw [cl_file? h.last, h.not_named_next]; rfl

theorem FR.fresh_d (h : FR d P t f) : d.file? d.md.nextID = none := by
  rw [file?_none_iff]
  intro hj
  obtain ⟨x, hx, e⟩ := List.mem_map.1 hj
  have := h.run.fidlt x hx
  omega

theorem FR.takeWhile_all (_h : FR d P t f) {n : Nat} (hk : d.md.segs.dropWhile (gone d n) = []) :
    d.md.segs.takeWhile (gone d n) = d.md.segs := by
  have := List.takeWhile_append_dropWhile (p := gone d n) (l := d.md.segs)
  rw [hk, List.append_nil] at this
  exact this

/-- a head truncation that removes everything: Model.Crash's call on the clean disk leaves the new tail alone -/
theorem FR.all_cl (h : FR d P t f) {n : Nat} (hk : d.md.segs.dropWhile (gone d n) = []) :
    (cl d).applyAll (prog (cl d) (.delHead n)) =
      { md := ⟨d.md.nextID + 1, [newSeg d.md.nextID (lastIndex (vdisk d) + 1)], d.md.stable⟩,
        files := [File.fresh d.md.nextID (lastIndex (vdisk d) + 1)] } := by
  rw [h.prog_all hk, applyAll_append, applyAll_append, deletes_apply, h.takeWhile_all hk]
  have e1 : (cl d).applyAll [.commit ⟨d.md.nextID + 1, [newSeg d.md.nextID (lastIndex (vdisk d) + 1)], d.md.stable⟩,
      .create d.md.nextID (lastIndex (vdisk d) + 1)] =
      { md := ⟨d.md.nextID + 1, [newSeg d.md.nextID (lastIndex (vdisk d) + 1)], d.md.stable⟩,
        files := (cl d).files ++ [File.fresh d.md.nextID (lastIndex (vdisk d) + 1)] } := by
    rw [applyAll_cons, applyAll_cons, applyAll_nil]
    exact apply_create_fresh (cl d) _ _ _ h.fresh_cl
  rw [e1]
  apply disk_ext
  · rfl
  · show List.filter _ ((cl d).files ++ [File.fresh d.md.nextID (lastIndex (vdisk d) + 1)]) = _
    rw [List.filter_append]
    have h1 : (cl d).files.filter (fun x => decide (x.id ∉ segIds d.md.segs)) = [] := by
      apply List.filter_eq_nil_iff.2
      intro x hx
      have := h.qs.sub x.id (List.mem_map.2 ⟨x, hx, rfl⟩)
      rw [← h.segs] at this
      simp [this]
    have h2 : d.md.nextID ∉ segIds d.md.segs := by
      intro hc
      have := named_eq_mem.2 hc
      rw [h.not_named_next] at this; cases this
    rw [h1]
    simp [File.fresh, h2]

/-- … and so does the process, whatever the failing deletion left -/
theorem FR.all_final (h : FR d P t f) (b : Nat) (g : Nat → Bool) (hg : g d.md.nextID = true) :
    cl { md := ⟨d.md.nextID + 1, [newSeg d.md.nextID b], d.md.stable⟩,
         files := (d.files ++ [File.fresh d.md.nextID b]).filter (fun f => g f.id) } =
      { md := ⟨d.md.nextID + 1, [newSeg d.md.nextID b], d.md.stable⟩, files := [File.fresh d.md.nextID b] } := by
  apply disk_ext
  · rw [cl_md]
  · rw [cl_files (t := newSeg d.md.nextID b) rfl]
    dsimp only
    rw [List.filter_filter, List.filter_append]
    have h1 : d.files.filter (fun x => named [newSeg d.md.nextID b] x.id && g x.id) = [] := by
      apply List.filter_eq_nil_iff.2
      intro x hx
      have := h.run.fidlt x hx
      have hne : ¬ d.md.nextID = x.id := by omega
      simp [named, newSeg, hne]
    rw [h1]
    simp [named, newSeg, File.fresh, hg, updFile, cleanF]

end
end RaftWal.Fault.B
