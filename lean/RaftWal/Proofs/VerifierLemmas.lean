/-
  Proofs/VerifierLemmas.lean — helper lemmas for Proofs/VerifierProps.lean: FNV arithmetic, frame lemmas for
  verify/take/trigger, the per-entry and per-batch specification of `updateVerifyState` / `storeLogs.upd`,
  and the two facts about the reference store that the running-sum invariant needs.
-/
import RaftWal.Model.Verifier
import RaftWal.Proofs.Bytes
namespace RaftWal.Verifier
open RaftWal

/-! ## FNV arithmetic -/

theorem chain_foldl_append (s : UInt64) (a b : List Log) : chain s (a ++ b) = chain (chain s a) b := by
  simp only [chain, List.foldl_append]

/-- the FNV prime is odd, hence a unit of `UInt64`; this is its inverse modulo 2^64 -/
theorem prime64_inv : prime64 * 0xce965057aff6957b = 1 := by decide

theorem mul_prime64_inj (a b : UInt64) (e : a * prime64 = b * prime64) : a = b := by
  have h := congrArg (· * (0xce965057aff6957b : UInt64)) e
  simp only [UInt64.mul_assoc, prime64_inv, UInt64.mul_one] at h
  exact h

theorem fnvBytes_append (h : UInt64) (a b : Bytes) : fnvBytes h (a ++ b) = fnvBytes (fnvBytes h a) b := by
  simp only [fnvBytes, List.foldl_append]


/-! ## frame lemmas -/

theorem verify_frame (n : Node) (r : Report) :
    (n.verify r).1.store = n.store ∧ (n.verify r).1.checksum = n.checksum ∧
    (n.verify r).1.sumStartIdx = n.sumStartIdx ∧ (n.verify r).1.queued = n.queued ∧
    (n.verify r).1.busy = n.busy ∧ (n.verify r).1.cpWritten = n.cpWritten ∧
    (n.verify r).1.dropped = n.dropped ∧ (n.verify r).1.verified = n.verified := by
  unfold Node.verify
  split
  · simp only [and_self]
  · split
    · simp only [and_self]
    · split
      · simp only [and_self]
      · split
        · simp only [and_self]
        · split <;> simp only [and_self]

theorem take_frame (n : Node) (r : Report) :
    (n.take r).store = n.store ∧ (n.take r).checksum = n.checksum ∧
    (n.take r).sumStartIdx = n.sumStartIdx ∧ (n.take r).queued = n.queued ∧
    (n.take r).busy.isSome = true ∧ (n.take r).cpWritten = n.cpWritten ∧
    (n.take r).dropped = n.dropped ∧ (n.take r).verified = n.verified := by
  unfold Node.take
  simp only []
  generalize hr' : (if n.lastCP > 0 ∧ n.lastCP ≠ r.start then { r with skipped := some (n.lastCP, r.start) } else r) = r'
  have := verify_frame { n with lastCP := r'.stop } r'
  obtain ⟨h1, h2, h3, h4, _, h6, h7, h8⟩ := this
  exact ⟨h1, h2, h3, h4, rfl, h6, h7, h8⟩

theorem trigger_frame (n : Node) (r : Report) :
    (n.trigger r).store = n.store ∧ (n.trigger r).checksum = n.checksum ∧
    (n.trigger r).sumStartIdx = n.sumStartIdx := by
  unfold Node.trigger
  split
  · have := take_frame n r
    exact ⟨this.1, this.2.1, this.2.2.1⟩
  · split <;> exact ⟨rfl, rfl, rfl⟩

theorem foldl_trigger_frame (rs : List Report) (n : Node) :
    (rs.foldl Node.trigger n).store = n.store ∧ (rs.foldl Node.trigger n).checksum = n.checksum ∧
    (rs.foldl Node.trigger n).sumStartIdx = n.sumStartIdx := by
  induction rs generalizing n with
  | nil => exact ⟨rfl, rfl, rfl⟩
  | cons r rs ih =>
    have h1 := ih (n.trigger r)
    have h2 := trigger_frame n r
    simp only [List.foldl_cons]
    exact ⟨h1.1.trans h2.1, h1.2.1.trans h2.2.1, h1.2.2.trans h2.2.2⟩


/-! ## `updateVerifyState`, one entry -/

theorem encodeMeta_length (s : Nat) (c : UInt64) : (encodeMeta s c).length = 24 := by
  simp [encodeMeta]

/-- what the middleware may do to an entry on its way to the store -/
def Transp (a b : Log) : Prop :=
  a.index = b.index ∧ a.term = b.term ∧ a.typ = b.typ ∧ a.data = b.data ∧ a.time = b.time ∧
  (a.ext = b.ext ∨ (isCheckpoint b = .yes ∧ b.ext = [] ∧ a.ext.length = 24))

/-- one step of `updateVerifyState`: the entry passes through (`Transp`), and the running sum either
    continues over the stored entry or restarts at it -/
theorem uvs_spec (l l' : Log) (cs cs' : UInt64) (st st' : Nat) (r : Option Report)
    (h : updateVerifyState l cs st = some (l', cs', st', r)) :
    Transp l' l ∧
    ((st' = (if st = 0 then l.index else st) ∧ cs' = checksumLog cs l') ∨
     (st' = l.index ∧ cs' = checksumLog 0 l')) := by
  unfold updateVerifyState at h
  split at h
  · cases h
  · simp only [Option.some.injEq, Prod.mk.injEq] at h
    obtain ⟨rfl, rfl, rfl, _⟩ := h
    exact ⟨⟨rfl, rfl, rfl, rfl, rfl, .inl rfl⟩, .inl ⟨rfl, rfl⟩⟩
  · rename_i hcp
    simp only [] at h
    split at h
    · rename_i hext
      simp only [Option.some.injEq, Prod.mk.injEq] at h
      obtain ⟨rfl, rfl, rfl, _⟩ := h
      exact ⟨⟨rfl, rfl, rfl, rfl, rfl, .inr ⟨hcp, List.eq_nil_of_length_eq_zero hext, encodeMeta_length _ _⟩⟩,
        .inr ⟨rfl, rfl⟩⟩
    · split at h
      · cases h
      · simp only [Option.some.injEq, Prod.mk.injEq] at h
        obtain ⟨rfl, rfl, rfl, _⟩ := h
        exact ⟨⟨rfl, rfl, rfl, rfl, rfl, .inl rfl⟩, .inr ⟨rfl, rfl⟩⟩

/-! ## the running sum over an abstract stored sequence -/

/-- the running-sum invariant over an abstract stored sequence `S` whose first entry has index `F` -/
def SumOver (F : Nat) (S : List Log) (cs : UInt64) (st : Nat) : Prop :=
  (st = 0 → cs = 0) ∧ (st ≠ 0 → F ≤ st ∧ st < F + S.length ∧ cs = chain 0 (S.drop (st - F)))

theorem sumOver_step (F : Nat) (S : List Log) (l l' : Log) (cs cs' : UInt64) (st st' : Nat)
    (hP : SumOver F S cs st) (hidx : l.index = F + S.length) (hpos : 1 ≤ l.index)
    (hstep : (st' = (if st = 0 then l.index else st) ∧ cs' = checksumLog cs l') ∨
             (st' = l.index ∧ cs' = checksumLog 0 l')) :
    SumOver F (S ++ [l']) cs' st' := by
  have hlast : (S ++ [l']).drop (l.index - F) = [l'] := by
    have : l.index - F = S.length := by omega
    rw [this, List.drop_left]
  rcases hstep with ⟨hst, hcs⟩ | ⟨hst, hcs⟩
  · by_cases h0 : st = 0
    · rw [if_pos h0] at hst
      rw [hP.1 h0] at hcs
      refine ⟨fun h => by omega, fun _ => ⟨by omega, by simp only [List.length_append, List.length_cons, List.length_nil]; omega, ?_⟩⟩
      rw [hst, hlast, hcs]; rfl
    · rw [if_neg h0] at hst
      obtain ⟨a, b, c⟩ := hP.2 h0
      subst hst
      refine ⟨fun h => absurd h h0, fun _ => ⟨a, by simp only [List.length_append, List.length_cons, List.length_nil]; omega, ?_⟩⟩
      rw [List.drop_append_of_le_length (by omega), chain_foldl_append, ← c, hcs]; rfl
  · refine ⟨fun h => by omega, fun _ => ⟨by omega, by simp only [List.length_append, List.length_cons, List.length_nil]; omega, ?_⟩⟩
    rw [hst, hlast, hcs]; rfl

/-! ## `storeLogs.upd`, the whole batch; the reference store -/

open Spec in
theorem upd_spec (ls : List Log) : ∀ (cs : UInt64) (st : Nat) (acc : List Log) (rs : List Report)
    (out : List Log) (cs' : UInt64) (st' : Nat) (reps : List Report),
    Node.storeLogs.upd ls cs st acc rs = some (out, cs', st', reps) →
    ∃ ls', out = acc.reverse ++ ls' ∧ ls'.length = ls.length ∧
      (∀ k (h1 : k < ls'.length) (h2 : k < ls.length), Transp (ls'[k]'h1) (ls[k]'h2)) ∧
      (∀ F S, SumOver F S cs st → consecutiveFrom (F + S.length) ls' = true → 1 ≤ F + S.length →
        SumOver F (S ++ ls') cs' st') := by
  induction ls with
  | nil =>
    intro cs st acc rs out cs' st' reps h
    simp only [Node.storeLogs.upd, Option.some.injEq, Prod.mk.injEq] at h
    obtain ⟨rfl, rfl, rfl, _⟩ := h
    exact ⟨[], by simp, rfl, fun k h1 => absurd h1 (Nat.not_lt_zero _), fun F S hP _ _ => by simpa using hP⟩
  | cons l ls ih =>
    intro cs st acc rs out cs' st' reps h
    simp only [Node.storeLogs.upd] at h
    split at h
    · cases h
    · rename_i l' cs1 st1 r huvs
      obtain ⟨ls'', hout, hlen, htr, hsum⟩ := ih _ _ _ _ _ _ _ _ h
      obtain ⟨htr0, hstep⟩ := uvs_spec _ _ _ _ _ _ _ huvs
      refine ⟨l' :: ls'', ?_, by simp only [List.length_cons, hlen], ?_, ?_⟩
      · rw [hout, List.reverse_cons, List.append_assoc]; rfl
      · intro k h1 h2
        cases k with
        | zero => exact htr0
        | succ k => exact htr k (Nat.lt_of_succ_lt_succ h1) (Nat.lt_of_succ_lt_succ h2)
      · intro F S hP hcons hpos
        simp only [consecutiveFrom, Bool.and_eq_true, beq_iff_eq] at hcons
        have hidx : l.index = F + S.length := by rw [← htr0.1]; exact hcons.1
        have h1 := sumOver_step F S l l' cs cs1 st st1 hP hidx (by omega) hstep
        have h2 := hsum F (S ++ [l']) h1
          (by simpa only [List.length_append, List.length_cons, List.length_nil, Nat.zero_add, Nat.add_assoc] using hcons.2)
          (by simp only [List.length_append, List.length_cons, List.length_nil]; omega)
        simpa only [List.append_assoc, List.cons_append, List.nil_append] using h2

open Spec in
theorem consecutiveFrom_index (m : Nat) (ls : List Log) (h : consecutiveFrom m ls = true) :
    ∀ k (hk : k < ls.length), (ls[k]'hk).index = m + k := by
  induction ls generalizing m with
  | nil => intro k hk; exact absurd hk (Nat.not_lt_zero _)
  | cons l ls ih =>
    simp only [consecutiveFrom, Bool.and_eq_true, beq_iff_eq] at h
    intro k hk
    cases k with
    | zero => exact h.1
    | succ k =>
      have := ih (m + 1) h.2 k (Nat.lt_of_succ_lt_succ hk)
      simp only [List.getElem_cons_succ]
      omega

open Spec in
/-- the reference store either refuses a non-empty batch or appends all of it -/
theorem store_ok (s : SLog) (l : Log) (rest : List Log) (h : (s.store (l :: rest)).2 = none) :
    consecutiveFrom l.index (l :: rest) = true ∧
    (if s.entries.isEmpty then l.index ≥ 1 else l.index = s.lastIndex + 1) ∧
    (s.store (l :: rest)).1 =
      { s with first := if s.entries.isEmpty then l.index else s.first, entries := s.entries ++ (l :: rest) } := by
  unfold SLog.store at h ⊢
  split at h
  · cases h
  · split at h
    · cases h
    · rename_i hc hacc
      rw [if_neg hc, if_neg hacc]
      simp only [Bool.not_eq_true, Bool.not_eq_false] at hacc
      simp only [SLog.accepts, Bool.and_eq_true] at hacc
      refine ⟨hacc.1.1, ?_, rfl⟩
      have h3 := hacc.2
      split
      · rename_i he; rw [if_pos he] at h3; simpa using h3
      · rename_i he; rw [if_neg he] at h3; simpa using h3
open Spec in
/-- what a successful `SLog.delete` does to a store satisfying `StoreWF`: nothing, drop a prefix
    (`first` moves along), or truncate a suffix at a point at or below every index ≥ `min` -/
theorem delete_ok (s : SLog) (mn mx : Nat) (h : (s.delete mn mx).2 = none) :
    (s.delete mn mx).1 = s ∨
    (∃ k, s.first + k = mx + 1 ∧ s.first ≤ mx ∧ (s.delete mn mx).1 = { s with first := s.first + k, entries := s.entries.drop k }) ∨
    (∃ j, mx ≥ s.lastIndex ∧ s.entries.isEmpty = false ∧ (s.delete mn mx).1 = { s with entries := s.entries.take j }) := by
  unfold SLog.delete at h ⊢
  split
  · exact .inl rfl
  · split
    · exact .inl rfl
    · split
      · exact .inl rfl
      · rename_i h1 h2 h3
        have hne : s.entries.isEmpty = false := by
          cases he : s.entries.isEmpty with
          | false => rfl
          | true => exact absurd (.inl he) h3
        have hfi : s.firstIndex = s.first := by simp only [SLog.firstIndex, hne, Bool.false_eq_true, if_false]
        split
        · refine .inr (.inl ⟨mx + 1 - s.first, ?_, ?_, rfl⟩)
          · rw [hfi] at h3; omega
          · rw [hfi] at h3; omega
        · split
          · rename_i h5
            exact .inr (.inr ⟨mn - s.first, h5, hne, rfl⟩)
          · rename_i h4 h5
            rw [if_neg h1, if_neg h2, if_neg h3, if_neg h4, if_neg h5] at h
            cases h

end RaftWal.Verifier
