/-
  Proofs/WalLemmas7.lean — head truncation (`truncateHeadLocked`): the forward walk over the segment
  map, the surviving head, and the case where everything is deleted.
-/
import RaftWal.Proofs.WalLemmas6
namespace RaftWal
theorem getLast?_append_cons {α : Type} (a : List α) (b : α) (c : List α) :
    (a ++ b :: c).getLast? = (b :: c).getLast? := by
  rw [List.getLast?_append]
  cases h : (b :: c).getLast? with
  | none => simp at h
  | some x => rfl

/-- a head truncation that keeps `h` (with a new `min`) and everything after it -/
theorem Core.dropHead {cfg : WalCfg} {n : Nat} {dl : List (SegS × Rdr)} {h : SegS} {rh : Rdr}
    {rest : List (SegS × Rdr)} {files : List FileL} {F : Nat} {es : List Log}
    (hc : Core cfg n (dl ++ (h, rh) :: rest) files F es) (newMin : Nat)
    (hdl : ∀ c ∈ dl, c.1.max < newMin) (hF : F ≤ newMin)
    (hh : ∀ f, fileOf files h.id = some f → newMin < hi h f)
    (hne : h.sealed = false → ∀ f, fileOf files h.id = some f → 0 < f.entries.length) :
    Core cfg n (({ h with min := newMin }, rh) :: rest) files newMin (es.drop (newMin - F)) := by
  have hs := hc.sorted
  rw [List.pairwise_append, List.pairwise_cons] at hs
  obtain ⟨hs1, ⟨hs2, hs3⟩, hs4⟩ := hs
  obtain ⟨fh, hfh, hsh⟩ := hc.segOK h rh (by simp)
  have hhi := hh fh hfh
  -- the new minimum is inside the log
  have hminhi : h.min < hi h fh := by
    cases hsl : h.sealed
    · have h1 := hne hsl fh hfh
      have h2 := hsh.tailOK hsl
      have h3 := hsh.fbase
      rw [hi_open hsl]; omega
    · rw [hi_sealed hsl]; have := hsh.sealedOK hsl; omega
  have hlt : newMin < F + es.length := by
    by_cases hcase : h.min ≤ newMin
    · have := hsh.pt newMin hcase hhi
      omega
    · have := hsh.pt h.min (Nat.le_refl _) hminhi
      omega
  have hrest : ∀ c ∈ rest, h.sealed = true ∧ h.max < c.1.base ∧ c.1.min = c.1.base := by
    intro c hcm
    have := hs2 c hcm
    exact ⟨this.1, this.2.1, this.2.2.1⟩
  have hmaxh : h.sealed = true → newMin ≤ h.max := by
    intro hsl; rw [hi_sealed hsl] at hhi; omega
  -- the kept head starts at or below the new minimum
  have hmin : h.min ≤ newMin := by
    obtain ⟨c, rc, f, hm, hf, h3, h4⟩ := hc.cover newMin hF hlt
    rcases List.mem_append.mp hm with hm' | hm'
    · exfalso
      have hsl : c.sealed = true := (hs4 (c, rc) hm' (h, rh) (by simp)).1
      rw [hi_sealed hsl] at h4
      have : c.max < newMin := hdl (c, rc) hm'
      omega
    · rcases List.mem_cons.mp hm' with hm'' | hm''
      · cases hm''; exact h3
      · exfalso
        obtain ⟨q1, q2, q3⟩ := hrest (c, rc) hm''
        have := hmaxh q1
        simp at q2 q3; omega
  have hlen : (es.drop (newMin - F)).length = es.length - (newMin - F) := List.length_drop
  have hget : ∀ idx, newMin ≤ idx → (es.drop (newMin - F))[idx - newMin]? = es[idx - F]? := by
    intro idx hidx
    rw [List.getElem?_drop]
    congr 1; omega
  refine ⟨hc.cfgOK, hc.fileIds, ?_, ?_, ⟨_, rfl, rfl⟩, ?_, ?_, by rw [hlen]; have := hc.bound; omega⟩
  · intro c rc hm
    rcases List.mem_cons.mp hm with hm' | hm'
    · cases hm'
      refine ⟨fh, hfh, ?_⟩
      refine ⟨hsh.fbase, hsh.fcodec, hsh.codec, hsh.idlt, hsh.base1, ?_, Nat.le_refl _, ?_, ?_, ?_, ?_⟩
      · have := hsh.basemin; simp only; omega
      · intro hsl
        have := hsh.sealedOK hsl
        exact ⟨hmaxh hsl, this.2⟩
      · intro hsl
        have hsl' : h.sealed = false := hsl
        have h5 := hsh.tailOK hsl'
        rw [hi_open hsl'] at hhi
        have h6 := hsh.fbase
        exact ⟨h5.1, Or.inr (by simp only; omega)⟩
      · have := hsh.rdr
        cases rh with
        | writer fm => simp only [RdrOK] at this ⊢; omega
        | sealed a b c =>
          simp only [RdrOK] at this ⊢
          exact ⟨this.1, by omega, this.2.2⟩
      · intro idx h1 h2
        simp only at h1
        have h2' : idx < hi h fh := by simpa [hi] using h2
        obtain ⟨p1, p2, p3⟩ := hsh.pt idx (by omega) h2'
        exact ⟨h1, by rw [hlen]; omega, by rw [hget idx h1]; exact p3⟩
    · obtain ⟨f, hf, hsc⟩ := hc.segOK c rc (by simp [hm'])
      obtain ⟨q1, q2, q3⟩ := hrest (c, rc) hm'
      have := hmaxh q1
      simp only at q2 q3
      refine ⟨f, hf, ?_⟩
      refine { hsc with Fmin := by omega, pt := ?_ }
      intro idx h1 h2
      obtain ⟨p1, p2, p3⟩ := hsc.pt idx h1 h2
      exact ⟨by omega, by rw [hlen]; omega, by rw [hget idx (by omega)]; exact p3⟩
  · rw [List.pairwise_cons]
    refine ⟨?_, hs3⟩
    intro c hcm
    exact hs2 c hcm
  · obtain ⟨t, f, hl, hf, hhi'⟩ := hc.endE
    rw [getLast?_append_cons] at hl
    cases rest with
    | nil =>
      simp at hl; subst hl
      refine ⟨({ h with min := newMin }, rh), f, rfl, hf, ?_⟩
      rw [hlen]
      have : hi { h with min := newMin } f = hi h f := by simp [hi]
      simp only at hhi' ⊢
      rw [this]; omega
    | cons a l =>
      rw [List.getLast?_cons_cons] at hl
      refine ⟨t, f, by rw [List.getLast?_cons_cons]; exact hl, hf, by rw [hlen]; omega⟩
  · intro idx h1 h2
    rw [hlen] at h2
    obtain ⟨c, rc, f, hm, hf, h3, h4⟩ := hc.cover idx (by omega) (by omega)
    rcases List.mem_append.mp hm with hm' | hm'
    · exfalso
      have hsl : c.sealed = true := (hs4 (c, rc) hm' (h, rh) (by simp)).1
      rw [hi_sealed hsl] at h4
      have : c.max < newMin := hdl (c, rc) hm'
      omega
    · rcases List.mem_cons.mp hm' with hm'' | hm''
      · cases hm''
        exact ⟨_, rh, f, List.mem_cons_self, hf, h1, by simpa [hi] using h4⟩
      · exact ⟨c, rc, f, List.mem_cons_of_mem _ hm'', hf, h3, h4⟩

theorem lastIndexOf_single (x : SegS × Rdr) (tci : Nat) : lastIndexOf [x] tci = tci := by
  unfold lastIndexOf
  by_cases h : tci > 0
  · simp [h]
  · simp [h]; omega

/-- what the forward walk of `truncateHead` computes on a map `pre ++ [tail]` -/
theorem walkHead_spec (newMin tci : Nat) (t : SegS) (r : Rdr) (hsl : t.sealed = false) :
    ∀ (pre : List (SegS × Rdr)) (del : List Nat), (∀ c ∈ pre, c.1.sealed = true) →
    (∃ dl h rh rest, pre ++ [(t, r)] = dl ++ (h, rh) :: rest ∧ (∀ c ∈ dl, c.1.max < newMin) ∧
        ((h.sealed = true ∧ newMin ≤ h.max) ∨ (h.sealed = false ∧ newMin ≤ tci)) ∧
        Wal.truncateHead.walk newMin tci (pre ++ [(t, r)]) (pre ++ [(t, r)]) del =
          (some (h, rh), rest, del ++ dl.map (·.1.id))) ∨
    ((∀ c ∈ pre, c.1.max < newMin) ∧ tci < newMin ∧
        Wal.truncateHead.walk newMin tci (pre ++ [(t, r)]) (pre ++ [(t, r)]) del =
          (none, [], del ++ (pre ++ [(t, r)]).map (·.1.id))) := by
  intro pre
  induction pre with
  | nil =>
    intro del _
    simp only [List.nil_append]
    unfold Wal.truncateHead.walk
    simp only [hsl, lastIndexOf_single]
    by_cases hc : tci ≥ newMin
    · left
      refine ⟨[], t, r, [], rfl, by simp, Or.inr ⟨hsl, hc⟩, ?_⟩
      simp [hc]
    · right
      refine ⟨by simp, by omega, ?_⟩
      simp [hc, Wal.truncateHead.walk]
  | cons a l ih =>
    intro del hall
    have ha : a.1.sealed = true := hall a (by simp)
    obtain ⟨a1, a2⟩ := a
    simp only at ha
    simp only [List.cons_append]
    unfold Wal.truncateHead.walk
    simp only [ha]
    by_cases hc : a1.max ≥ newMin
    · left
      refine ⟨[], a1, a2, l ++ [(t, r)], rfl, by simp, Or.inl ⟨ha, hc⟩, ?_⟩
      simp [hc]
    · have hc' : a1.max < newMin := by omega
      rcases ih (del ++ [a1.id]) (fun c hcm => hall c (List.mem_cons_of_mem _ hcm)) with
        ⟨dl, h, rh, rest, e1, e2, e3, e4⟩ | ⟨e1, e2, e3⟩
      · left
        refine ⟨(a1, a2) :: dl, h, rh, rest, by rw [e1]; rfl, ?_, e3, ?_⟩
        · intro c hcm
          rcases List.mem_cons.mp hcm with rfl | h'
          · exact hc'
          · exact e2 c h'
        · simp only [hc, and_false, List.tail_cons]
          rw [e4]; simp
      · right
        refine ⟨?_, e2, ?_⟩
        · intro c hcm
          rcases List.mem_cons.mp hcm with rfl | h'
          · exact hc'
          · exact e1 c h'
        · simp only [hc, and_false, List.tail_cons]
          rw [e3]; simp

theorem TailOpen.dropHead {dl : List (SegS × Rdr)} {h : SegS} {rh : Rdr} {rest : List (SegS × Rdr)}
    {files : List FileL} (ht : TailOpen (dl ++ (h, rh) :: rest) files) (newMin : Nat) :
    TailOpen (({ h with min := newMin }, rh) :: rest) files := by
  obtain ⟨t, r, f, hl, hsl, hf, hi0⟩ := ht
  rw [getLast?_append_cons] at hl
  cases rest with
  | nil =>
    simp at hl
    obtain ⟨rfl, rfl⟩ := hl
    exact ⟨{ h with min := newMin }, rh, f, rfl, hsl, hf, hi0⟩
  | cons a l =>
    rw [List.getLast?_cons_cons] at hl
    exact ⟨t, r, f, by rw [List.getLast?_cons_cons]; exact hl, hsl, hf, hi0⟩

theorem truncateHead_sim (w : Wal) (newMin : Nat) {F : Nat} {es : List Log}
    (hc : Core w.cfg w.nextID w.segs w.files F es) (ht : TailOpen w.segs w.files)
    (hF : F ≤ newMin) (hE : newMin ≤ F + es.length) (hpos : 0 < es.length) :
    (w.truncateHead newMin).2 = none ∧ (w.truncateHead newMin).1.cfg = w.cfg ∧
      (w.truncateHead newMin).1.closed = w.closed ∧
      Core (w.truncateHead newMin).1.cfg (w.truncateHead newMin).1.nextID (w.truncateHead newMin).1.segs
        (w.truncateHead newMin).1.files newMin (es.drop (newMin - F)) ∧
      TailOpen (w.truncateHead newMin).1.segs (w.truncateHead newMin).1.files := by
  obtain ⟨pre, t, r, ft, hs, hsl, hfl, hi0, hseg, hEq, hpre⟩ := shape hc ht
  have htci := tailCommitIdx_eq hs hfl
  have hF1 := F_pos hc
  have hlast := lastIndex_eq hc ht
  rw [if_neg (by omega)] at hlast
  have hbound := hc.bound
  unfold Wal.truncateHead
  simp only
  rw [hs]
  rcases walkHead_spec newMin w.tailCommitIdx t r hsl pre [] (fun c hcm => (hpre c hcm).1) with
    ⟨dl, h, rh, rest, e1, e2, e3, e4⟩ | ⟨e1, e2, e3⟩
  · rw [e4]
    simp only
    rw [hs, e1] at hc ht
    have hs' := hc.sorted
    rw [List.pairwise_append] at hs'
    obtain ⟨fh, hfh, hsh⟩ := hc.segOK h rh (by simp)
    have hcore := hc.dropHead newMin e2 hF (by
        intro f hf
        rw [hfh] at hf; cases hf
        rcases e3 with ⟨q1, q2⟩ | ⟨q1, q2⟩
        · rw [hi_sealed q1]; omega
        · -- the unsealed head is the tail
          have hmem : (h, rh) ∈ pre ++ [(t, r)] := by rw [e1]; simp
          rcases List.mem_append.mp hmem with hm | hm
          · have := (hpre _ hm).1; simp [q1] at this
          · simp at hm; obtain ⟨rfl, rfl⟩ := hm
            rw [hfl] at hfh; cases hfh
            rw [htci, commitIdx_eq] at q2
            rw [hi_open q1]
            split at q2 <;> omega)
      (by
        intro q1 f hf
        rw [hfh] at hf; cases hf
        rcases e3 with ⟨q3, _⟩ | ⟨_, q2⟩
        · simp [q1] at q3
        · have hmem : (h, rh) ∈ pre ++ [(t, r)] := by rw [e1]; simp
          rcases List.mem_append.mp hmem with hm | hm
          · have := (hpre _ hm).1; simp [q1] at this
          · simp at hm; obtain ⟨rfl, rfl⟩ := hm
            rw [hfl] at hfh; cases hfh
            rw [htci, commitIdx_eq] at q2
            split at q2 <;> omega)
    have htail := ht.dropHead newMin
    have hrm := removeFiles_core (w := { w with
        segs := ({ h with min := newMin }, rh) :: rest,
        ctr := { w.ctr with headTrunc := u64 (w.ctr.headTrunc + headRemoved w.firstIndex w.lastIndex newMin) } })
      ([] ++ dl.map (·.1.id)) hcore htail (by
        intro c rc hm hin
        simp only [List.nil_append, List.mem_map] at hin
        obtain ⟨a, ha, hid⟩ := hin
        have hne : ∀ b ∈ (h, rh) :: rest, a.1.id ≠ b.1.id := fun b hb => (hs'.2.2 a ha b hb).2.2.2
        rcases List.mem_cons.mp hm with hm' | hm'
        · cases hm'
          exact hne (h, rh) (by simp) hid
        · exact hne (c, rc) (List.mem_cons_of_mem _ hm') hid)
    exact ⟨trivial, rfl, rfl, hrm.1, hrm.2⟩
  · rw [e3]
    simp only
    -- everything is deleted: newMin is the end of the log
    have hall : ∀ idx, F ≤ idx → idx < F + es.length → idx < newMin := by
      intro idx h1 h2
      obtain ⟨c, rc, f, hm, hf, h3, h4⟩ := hc.cover idx h1 h2
      rw [hs] at hm
      rcases List.mem_append.mp hm with hm' | hm'
      · have : c.max < newMin := e1 _ hm'
        have hsl' : c.sealed = true := (hpre _ hm').1
        rw [hi_sealed hsl'] at h4
        omega
      · simp at hm'; obtain ⟨rfl, rfl⟩ := hm'
        rw [hfl] at hf; cases hf
        rw [hi_open hsl] at h4
        rw [htci, commitIdx_eq] at e2
        have := hseg.basemin
        have := hseg.fbase
        split at e2 <;> omega
    have hnm : newMin = F + es.length := by
      have := hall (F + es.length - 1) (by omega) (by omega)
      omega
    have hu : u64 (w.lastIndex + 1) = newMin := by
      have : F + es.length - 1 + 1 = F + es.length := by omega
      rw [hlast, hnm, this]; exact u64_of_lt (by omega)
    rw [hu]
    obtain ⟨w2, b, hcn, g1, g2, g3, g4, g5, g6, g7, g8⟩ :=
      createNext_empty { w with
          segs := [],
          ctr := { w.ctr with headTrunc := u64 (w.ctr.headTrunc + headRemoved w.firstIndex w.lastIndex newMin) } }
        newMin rfl hc.cfgOK hc.fileIds (by omega)
    rw [hcn]
    simp only
    have hb : b = newMin := g4 (by omega)
    subst hb
    have hdrop : es.drop (b - F) = [] := List.drop_eq_nil_of_le (by omega)
    rw [hdrop]
    have hrm := removeFiles_core ([] ++ (pre ++ [(t, r)]).map (·.1.id)) g5 g6 (by
      intro c rc hm hin
      have e : c.id = w.nextID := g7 c rc hm
      simp only [List.nil_append, List.mem_map] at hin
      obtain ⟨a, ha, hid⟩ := hin
      obtain ⟨fa, _, hsa⟩ := hc.segOK a.1 a.2 (by rw [hs]; exact ha)
      have := hsa.idlt
      omega)
    exact ⟨trivial, g1, g2, hrm.1, hrm.2⟩

theorem truncateHead_empty (w : Wal) (newMin : Nat) {F : Nat}
    (hc : Core w.cfg w.nextID w.segs w.files F []) (ht : TailOpen w.segs w.files) (h1 : 1 ≤ newMin) :
    (w.truncateHead newMin).2 = none ∧ (w.truncateHead newMin).1.cfg = w.cfg ∧
      (w.truncateHead newMin).1.closed = w.closed ∧
      ∃ b, Core (w.truncateHead newMin).1.cfg (w.truncateHead newMin).1.nextID (w.truncateHead newMin).1.segs
        (w.truncateHead newMin).1.files b [] ∧
      TailOpen (w.truncateHead newMin).1.segs (w.truncateHead newMin).1.files := by
  obtain ⟨t, r, ft, hs, hsl, hfl, hi0, hseg, hfe, hmin, hbase⟩ := shape_empty hc ht
  have hs' : w.segs = [] ++ [(t, r)] := by simpa using hs
  have htci := tailCommitIdx_eq hs' hfl
  rw [commitIdx_eq, hfe] at htci
  simp only [List.length_nil, Nat.lt_irrefl, if_false] at htci
  have hlast := lastIndex_eq hc ht
  simp only [List.length_nil, if_true] at hlast
  unfold Wal.truncateHead
  simp only
  rw [hs']
  rcases walkHead_spec newMin w.tailCommitIdx t r hsl [] [] (by simp) with
    ⟨dl, h, rh, rest, e1, e2, e3, e4⟩ | ⟨e1, e2, e3⟩
  · exfalso
    rcases e3 with ⟨q1, _⟩ | ⟨_, q2⟩
    · have hmem : (h, rh) ∈ [] ++ [(t, r)] := by rw [e1]; simp
      simp at hmem
      obtain ⟨rfl, rfl⟩ := hmem
      simp [hsl] at q1
    · omega
  · rw [e3]
    simp only
    have hu : u64 (w.lastIndex + 1) = 1 := by rw [hlast]; rfl
    rw [hu]
    obtain ⟨w2, b, hcn, g1, g2, g3, g4, g5, g6, g7, g8⟩ :=
      createNext_empty { w with
          segs := [],
          ctr := { w.ctr with headTrunc := u64 (w.ctr.headTrunc + headRemoved w.firstIndex w.lastIndex newMin) } }
        1 rfl hc.cfgOK hc.fileIds (by omega)
    rw [hcn]
    simp only
    have hrm := removeFiles_core ([] ++ (([] : List (SegS × Rdr)) ++ [(t, r)]).map (·.1.id)) g5 g6 (by
      intro c rc hm hin
      have e : c.id = w.nextID := g7 c rc hm
      have := hseg.idlt
      simp at hin
      omega)
    exact ⟨trivial, g1, g2, b, hrm.1, hrm.2⟩

end RaftWal
