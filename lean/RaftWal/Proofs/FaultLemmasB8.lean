/-
  Proofs/FaultLemmasB8.lean — fault model, part B: the per-call statements of FaultStmt.lean follow from their `store`
  and `delTail` cases (the `delHead` and `set` cases are FaultLemmasB1 / FaultLemmasB7).
-/
import RaftWal.Proofs.FaultLemmasB7
namespace RaftWal.Fault.B
open RaftWal.Crash

theorem finv_call_of_store_delTail
    (hs : ∀ p, FInvS p → ∀ first es seals, OkV (view p) (.store first es seals) → ∀ k wf,
      FInvS (runOp p (.store first es seals) k wf).1)
    (ht : ∀ p, FInvS p → ∀ newMax, OkV (view p) (.delTail newMax) → ∀ k wf,
      FInvS (runOp p (.delTail newMax) k wf).1) :
    finv_call_stmt := by
  intro p hi op hok k wf
  cases op with
  | store first es seals => exact hs p hi first es seals hok k wf
  | delHead newMin => exact finvS_call_delHead p hi newMin hok k wf
  | delTail newMax => exact ht p hi newMax hok k wf
  | set key val => exact finvS_call_set p hi key val hok k wf

theorem call_view_of_store_delTail
    (hs : ∀ p, FInv p → ∀ first es seals, OkV (view p) (.store first es seals) → ∀ k wf,
      view (runOp p (.store first es seals) k wf).1 =
        if (runOp p (.store first es seals) k wf).2 then specApply (view p) (.store first es seals) else view p)
    (ht : ∀ p, FInv p → ∀ newMax, OkV (view p) (.delTail newMax) → ∀ k wf,
      view (runOp p (.delTail newMax) k wf).1 =
        if (runOp p (.delTail newMax) k wf).2 then specApply (view p) (.delTail newMax) else view p) :
    call_view_stmt := by
  intro p hi op hok k wf
  cases op with
  | store first es seals => exact hs p hi first es seals hok k wf
  | delHead newMin => exact call_view_delHead p hi newMin hok k wf
  | delTail newMax => exact ht p hi newMax hok k wf
  | set key val => exact call_view_set p hi key val hok k wf

theorem call_disklog_of_store_delTail
    (hs : ∀ p, FInv p → ∀ first es seals, OkV (view p) (.store first es seals) → ∀ k wf,
      absLog (runOp p (.store first es seals) k wf).1.disk = view (runOp p (.store first es seals) k wf).1 ∨
      ((runOp p (.store first es seals) k wf).2 = false ∧
        absLog (runOp p (.store first es seals) k wf).1.disk = specApply (view p) (.store first es seals)) ∨
      absLog (runOp p (.store first es seals) k wf).1.disk =
        (if (runOp p (.store first es seals) k wf).2 then specApply (absLog p.disk) (.store first es seals)
         else absLog p.disk))
    (ht : ∀ p, FInv p → ∀ newMax, OkV (view p) (.delTail newMax) → ∀ k wf,
      absLog (runOp p (.delTail newMax) k wf).1.disk = view (runOp p (.delTail newMax) k wf).1 ∨
      ((runOp p (.delTail newMax) k wf).2 = false ∧
        absLog (runOp p (.delTail newMax) k wf).1.disk = specApply (view p) (.delTail newMax)) ∨
      absLog (runOp p (.delTail newMax) k wf).1.disk =
        (if (runOp p (.delTail newMax) k wf).2 then specApply (absLog p.disk) (.delTail newMax) else absLog p.disk)) :
    call_disklog_stmt := by
  intro p hi op hok k wf
  cases op with
  | store first es seals => exact hs p hi first es seals hok k wf
  | delHead newMin => exact call_disklog_delHead p hi newMin hok k wf
  | delTail newMax => exact ht p hi newMax hok k wf
  | set key val => exact call_disklog_set p hi key val hok k wf

end RaftWal.Fault.B

open RaftWal.Fault.B in
#print axioms finv_call_of_store_delTail
open RaftWal.Fault.B in
#print axioms call_view_of_store_delTail
open RaftWal.Fault.B in
#print axioms call_disklog_of_store_delTail
