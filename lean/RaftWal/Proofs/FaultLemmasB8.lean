/-
  Proofs/FaultLemmasB8.lean — fault model, part B: the per-call statements of FaultStmt.lean follow from their `store`
  and `delTail` cases (the `delHead` and `set` cases are FaultLemmasB1 / FaultLemmasB7).
-/
import RaftWal.Proofs.FaultLemmasB7
namespace RaftWal.Fault.B
open RaftWal.Crash

theorem finv_call_of_store_delTail
    (hs : ∀ p, FInvS p → ∀ first es seals, OkV (view p) (.store first es seals) → ∀ pl,
      FInvS (runOp p (.store first es seals) pl).1)
    (ht : ∀ p, FInvS p → ∀ newMax, OkV (view p) (.delTail newMax) → ∀ pl,
      FInvS (runOp p (.delTail newMax) pl).1) :
    finv_call_stmt := by
  intro p hi op hok pl
  cases op with
  | store first es seals => exact hs p hi first es seals hok pl
  | delHead newMin => exact finvS_call_delHead p hi newMin hok pl
  | delTail newMax => exact ht p hi newMax hok pl
  | set key val => exact finvS_call_set p hi key val hok pl

theorem call_view_of_store_delTail
    (hs : ∀ p, FInv p → ∀ first es seals, OkV (view p) (.store first es seals) → ∀ pl,
      view (runOp p (.store first es seals) pl).1 =
        if (runOp p (.store first es seals) pl).2 then specApply (view p) (.store first es seals) else view p)
    (ht : ∀ p, FInv p → ∀ newMax, OkV (view p) (.delTail newMax) → ∀ pl,
      view (runOp p (.delTail newMax) pl).1 =
        if (runOp p (.delTail newMax) pl).2 then specApply (view p) (.delTail newMax) else view p) :
    call_view_stmt := by
  intro p hi op hok pl
  cases op with
  | store first es seals => exact hs p hi first es seals hok pl
  | delHead newMin => exact call_view_delHead p hi newMin hok pl
  | delTail newMax => exact ht p hi newMax hok pl
  | set key val => exact call_view_set p hi key val hok pl

theorem call_disklog_of_store_delTail
    (hs : ∀ p, FInv p → ∀ first es seals, OkV (view p) (.store first es seals) → ∀ pl,
      absLog (runOp p (.store first es seals) pl).1.disk = view (runOp p (.store first es seals) pl).1 ∨
      ((runOp p (.store first es seals) pl).2 = false ∧
        absLog (runOp p (.store first es seals) pl).1.disk = specApply (view p) (.store first es seals)) ∨
      absLog (runOp p (.store first es seals) pl).1.disk =
        (if (runOp p (.store first es seals) pl).2 then specApply (absLog p.disk) (.store first es seals)
         else absLog p.disk))
    (ht : ∀ p, FInv p → ∀ newMax, OkV (view p) (.delTail newMax) → ∀ pl,
      absLog (runOp p (.delTail newMax) pl).1.disk = view (runOp p (.delTail newMax) pl).1 ∨
      ((runOp p (.delTail newMax) pl).2 = false ∧
        absLog (runOp p (.delTail newMax) pl).1.disk = specApply (view p) (.delTail newMax)) ∨
      absLog (runOp p (.delTail newMax) pl).1.disk =
        (if (runOp p (.delTail newMax) pl).2 then specApply (absLog p.disk) (.delTail newMax) else absLog p.disk)) :
    call_disklog_stmt := by
  intro p hi op hok pl
  cases op with
  | store first es seals => exact hs p hi first es seals hok pl
  | delHead newMin => exact call_disklog_delHead p hi newMin hok pl
  | delTail newMax => exact ht p hi newMax hok pl
  | set key val => exact call_disklog_set p hi key val hok pl

end RaftWal.Fault.B

open RaftWal.Fault.B in
#print axioms finv_call_of_store_delTail
open RaftWal.Fault.B in
#print axioms call_view_of_store_delTail
open RaftWal.Fault.B in
#print axioms call_disklog_of_store_delTail
