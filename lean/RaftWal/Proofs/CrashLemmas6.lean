/-
  Proofs/CrashLemmas6.lean — the moves that preserve `Rec`: deleting an orphan, fsyncing / writing the tail,
  committing a rotation, creating the tail's file, committing a fresh tail.
-/
import RaftWal.Proofs.CrashLemmas5
namespace RaftWal.Crash

@[simp] theorem applyAll_nil (d : Disk) : d.applyAll [] = d := rfl
@[simp] theorem applyAll_cons (d : Disk) (a : Act) (as : List Act) : d.applyAll (a :: as) = (d.apply a).applyAll as := rfl
theorem applyAll_append (d : Disk) (as bs : List Act) : d.applyAll (as ++ bs) = (d.applyAll as).applyAll bs := by
  simp [Disk.applyAll, List.foldl_append]

theorem Rec.delete {A : Log → Prop} {d : Disk} {P : List Seg} {t : Seg} (h : Rec A d P t) (id : Nat)
    (hid : ∀ s ∈ P ++ [t], s.id ≠ id) : Rec A (d.apply (.delete id)) P t := by
  have hb := h.base.delete id (fun s hs => hid s (by simp [hs]))
  have ht : (d.apply (.delete id)).file? t.id = d.file? t.id := by
    rw [apply_delete_file?]; simp [hid t (by simp)]
  exact ⟨hb.1, fun f hf => by rw [hb.2]; exact h.tsome f (ht ▸ hf), fun hn => by rw [hb.2]; exact h.tnone (ht ▸ hn)⟩

/-- acknowledgement and deletions of files no segment of the meta store names -/
theorem Rec.deletes {A : Log → Prop} {P : List Seg} {t : Seg} (as : List Act) {d : Disk} (h : Rec A d P t)
    (has : ∀ a ∈ as, a = .ack ∨ ∃ id, a = .delete id ∧ ∀ s ∈ P ++ [t], s.id ≠ id) : Rec A (d.applyAll as) P t := by
  induction as generalizing d with
  | nil => exact h
  | cons a as ih =>
    rw [applyAll_cons]
    apply ih
    · rcases has a (by simp) with rfl | ⟨id, rfl, hid⟩
      · exact h
      · exact h.delete id hid
    · intro b hb; exact has b (by simp [hb])

/-- the file an fsync leaves -/
theorem fsync_file {d : Disk} (hl : HL d) {id : Nat} {f : File} (hf : d.file? id = some f) :
    ∃ f', (d.apply (.fsync id)).file? id = some f' ∧ f'.base = f.base ∧ f'.synced = f.synced ++ f.pending ∧
      f'.pending = [] ∧ f'.sealedS = (f.sealedS || f.sealedP) ∧ f'.sealedP = false ∧ f'.linked = true ∧
      f'.hsynced = true := by
  rw [apply_fsync_file?]
  simp only [↓reduceIte, hf, Option.map_some]
  refine ⟨_, rfl, ?_⟩
  cases hd : dirSync d id with
  | true => simp [File.lk, File.fs]
  | false =>
    simp only [dirSync, hf, Bool.not_eq_false'] at hd
    have := hl id f hf hd
    simp [File.fs, this]

theorem Rec.fsync {A A' : Log → Prop} {d : Disk} {P : List Seg} {t : Seg} (h : Rec A d P t) {f : File}
    (hf : d.file? t.id = some f) (ha : A' (logP d P ++ visU t.min f.base (f.synced ++ f.pending))) :
    Rec A' (d.apply (.fsync t.id)) P t := by
  have hb := h.base.fsync t.id h.base.tid_ne
  obtain ⟨f', hf', h1, h2, h3, h4, h5, h6, _⟩ := fsync_file h.base.hl hf
  refine ⟨hb.1, ?_, ?_⟩
  · intro g hg
    rw [hf'] at hg; cases hg
    rw [hb.2]
    exact (h.tsome f hf).keep h1 h2 h3 h4 h5 h6 ha
  · intro hn; rw [hf'] at hn; cases hn

theorem Rec.write {A A' : Log → Prop} {d : Disk} {P : List Seg} {t : Seg} (h : Rec A d P t) {f : File}
    (hf : d.file? t.id = some f) (hp : f.pending = []) (hss : f.sealedS = false) (hsp : f.sealedP = false)
    (es : List Entry) (sl : Bool) (hsl : sl = true → f.synced ++ es ≠ [])
    (ha1 : A' (logP d P ++ visU t.min f.base f.synced)) (ha2 : A' (logP d P ++ visU t.min f.base (f.synced ++ es))) :
    Rec A' (d.apply (.write t.id es sl)) P t := by
  have hb := h.base.write t.id es sl h.base.tid_ne
  have hf' : (d.apply (.write t.id es sl)).file? t.id = some (f.wr es sl) := by
    rw [apply_write_file?]; simp [hf]
  have hr := h.tsome f hf
  refine ⟨hb.1, ?_, ?_⟩
  · intro g hg
    rw [hf'] at hg; cases hg
    rw [hb.2]
    refine ⟨hr.base, hr.lk, hr.mn, hr.vis, ?_, ?_, ha1, ?_⟩
    · intro hc; simp [File.wr, hss] at hc
    · intro hc
      simp only [File.wr, hsp, Bool.false_or] at hc
      simp only [File.wr, hp, List.nil_append]
      exact hsl hc
    · simp only [File.wr, hp, List.nil_append]; exact ha2
  · intro hn; rw [hf'] at hn; cases hn

theorem Rec.create {A : Log → Prop} {d : Disk} {P : List Seg} {t : Seg} (h : Rec A d P t)
    (hn : d.file? t.id = none) : Rec A (d.apply (.create t.id t.base)) P t := by
  have hb := h.base.create t.id t.base (h.base.idlt t (by simp))
  have hf' : (d.apply (.create t.id t.base)).file? t.id = some (File.fresh t.id t.base) := by
    rw [apply_create_file? d _ _ hn]; simp
  have hr := h.tnone hn
  refine ⟨hb.1, ?_, ?_⟩
  · intro g hg
    rw [hf'] at hg; cases hg
    rw [hb.2]
    refine ⟨rfl, Or.inr ⟨rfl, rfl⟩, ?_, ?_, ?_, ?_, ?_, ?_⟩
    · simp [File.fresh, hr.1]
    · intro hc; exact absurd rfl hc
    · intro hc; cases hc
    · intro hc; cases hc
    · simpa [File.fresh, visU_nil] using hr.2
    · simpa [File.fresh, visU_nil] using hr.2
  · intro hn'; rw [hf'] at hn'; cases hn'

/-- a meta store that names one fresh, empty tail: every file present is an orphan -/
theorem Rec.fresh {A : Log → Prop} {d : Disk} (hn : (fids d).Nodup) (n : Nat) (hlt : ∀ j ∈ fids d, j < n) (hl : HL d)
    (b : Nat) (hb : 1 ≤ b) (ha : A []) (st : List (Nat × Nat)) :
    Rec A (d.apply (.commit { nextID := n + 1, segs := [newSeg n b], stable := st })) [] (newSeg n b) := by
  refine ⟨⟨rfl, by simp, by simp, by simp, by simp [newSeg], hn, ?_, rfl, Nat.le_refl _, hb, hl⟩, ?_, ?_⟩
  · intro j hj; have := hlt j hj; simp only [apply_commit_md]; omega
  · intro f hf
    have := file?_mem_fids hf
    have := hlt _ this
    simp [newSeg] at this
  · intro _; exact ⟨rfl, ha⟩

end RaftWal.Crash
