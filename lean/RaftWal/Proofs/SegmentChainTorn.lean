/-
  Proofs/SegmentChainTorn.lean — one torn append from an ARBITRARY state satisfying the chain invariant
  (`ChainInv`, Proofs/SegmentChainLemmas.lean), not only from a run of completed appends on a fresh file:
  the generalisation of `recover_torn_cases` (Proofs/SegmentTorn.lean) the chain induction needs.  The
  conclusion is also sharper: recovery returns the writer before the append or the writer after it
  (all fields, not only `Writer.obs`).
-/
import RaftWal.Proofs.SegmentChainLemmas
namespace RaftWal
open Spec (Acc Batch addEntry addBatch)

/-- `torn_after` with the recovered writer identified completely -/
theorem torn_after_eq (info : SegInfo) (w' : Writer) (img file' : Bytes) (c' : CommitInfo) (wo wo' : Nat)
    (hU' : recoverTail info file' = .ok (w', file'))
    (hsf : scanFold file' = scanFold img)
    (hfi : (scanFold img).commits.find? (commitValid img) = some c')
    (hff' : (scanFold img).commits.find? (commitValid file') = some c')
    (hoff : c'.offset + 8 = wo') (hlt : wo' < 2^32)
    (hv' : validateFileHeader (scanHeader file') info.hdr = true)
    (hcl : clearStale img wo' = img)
    (hcrc : crc32c (readAt img wo (wo' - 8 - wo)) = crc32c (readAt file' wo (wo' - 8 - wo)))
    (heq : readAt img wo (wo' - 8 - wo) = readAt file' wo (wo' - 8 - wo) → img = file') :
    (recoverTail info img = .ok (w', img) ∧
        (img = file' ∨ (readAt img wo (wo' - 8 - wo) ≠ readAt file' wo (wo' - 8 - wo)
          ∧ crc32c (readAt img wo (wo' - 8 - wo)) = crc32c (readAt file' wo (wo' - 8 - wo)))))
    ∨ (recoverTail info img = .error .corrupt ∧ validateFileHeader (scanHeader img) info.hdr = false
        ∧ readAt img wo (wo' - 8 - wo) ≠ readAt file' wo (wo' - 8 - wo)
        ∧ crc32c (readAt img wo (wo' - 8 - wo)) = crc32c (readAt file' wo (wo' - 8 - wo))) := by
  by_cases hreg : readAt img wo (wo' - 8 - wo) = readAt file' wo (wo' - 8 - wo)
  · have := heq hreg
    subst this
    exact Or.inl ⟨hU', Or.inl rfl⟩
  · have hr' := recoverTail_some info file' _ c' hsf hff'
    rw [if_pos hv', hU'] at hr'
    injection hr' with hr'
    injection hr' with hwr _
    have hu : u32 (c'.offset + frameHeaderLen) = wo' := by
      rw [← hoff]; exact Nat.mod_eq_of_lt (by rw [frameHeaderLen, hoff]; exact hlt)
    have hr := recoverTail_some info img _ c' rfl hfi
    rw [hu, hcl] at hr
    by_cases hv : validateFileHeader (scanHeader img) info.hdr = true
    · rw [if_pos hv] at hr
      exact Or.inl ⟨by rw [hwr]; exact hr, Or.inr ⟨hreg, hcrc⟩⟩
    · rw [if_neg hv] at hr
      exact Or.inr ⟨hr, by simpa using hv, hreg, hcrc⟩

/-- **torn-write atomicity from any invariant state** (generalises `recover_torn_cases`): for every mask of
    landed 8-byte chunks recovery
      * returns the writer before the append, the file as it was (lengthened with zeros if the append grew it), or
      * returns the writer after the append and leaves the image as it is — the image then is the complete file
        or its batch region is a CRC-32C collision of the intended one —, or
      * (only for the first batch of the segment, only under such a collision, only if the torn file header does
        not validate) refuses with `ErrCorrupt`. -/
theorem chain_torn_cases (info : SegInfo) (bs : List (List Bytes)) (b : List Bytes)
    (hwf : RunWF info (bs ++ [b]))
    (w : Writer) (file : Bytes) (hCI : ChainInv info w file bs)
    (w' : Writer) (file' : Bytes)
    (happ : w.append file (indexBatch (info.base + bs.flatten.length) b) .none = (none, w', file'))
    (mask : Nat → Bool) :
    let img := tearImage file file' w.writeOffset (w'.writeOffset - w.writeOffset) mask
    (recoverTail info img = .ok (w, file ++ zeros (file'.length - file.length)))
    ∨ (recoverTail info img = .ok (w', img) ∧
          (img = file' ∨
           (batchRegion img w.writeOffset w'.writeOffset ≠ batchRegion file' w.writeOffset w'.writeOffset ∧
            crc32c (batchRegion img w.writeOffset w'.writeOffset) =
              crc32c (batchRegion file' w.writeOffset w'.writeOffset))))
    ∨ (bs = [] ∧ recoverTail info img = .error .corrupt
        ∧ validateFileHeader (scanHeader img) info.hdr = false
        ∧ batchRegion img w.writeOffset w'.writeOffset ≠ batchRegion file' w.writeOffset w'.writeOffset
        ∧ crc32c (batchRegion img w.writeOffset w'.writeOffset) =
              crc32c (batchRegion file' w.writeOffset w'.writeOffset)) := by
  intro img
  obtain ⟨s, hI, hI', hcb', hlt, hcb, hlen, hCI'⟩ := chain_append_setup info bs b hwf w file hCI w' file' happ
  have hA' := addBatch_bytes ((ackBatches bs).foldl addBatch (acc0 info)) ⟨b, s⟩
  obtain ⟨k', kb, hf', hf, himg⟩ := torn_image _ hI hI' hcb' hA' mask
  have hU' := recover_inv info hwf.base_lt hwf.id_lt hwf.codec_lt _ w' file' hCI'
  have hU := recover_inv info hwf.base_lt hwf.id_lt hwf.codec_lt _ w file hCI
  have hwo' : w'.writeOffset = (addBatch ((ackBatches bs).foldl addBatch (acc0 info)) ⟨b, s⟩).bytes.length := by
    have := hI'.bytes_length; rw [hcb'] at this; simpa using this.symm
  have hltA' : (addBatch ((ackBatches bs).foldl addBatch (acc0 info)) ⟨b, s⟩).bytes.length < 2^32 := by
    rw [List.foldl_append] at hlt; exact hlt
  have h0 : (acc0 info).bytes.length = 32 := specHeader_length _ _ _
  have hrel0 : RecRel (acc0 info) {} := ⟨rfl, rfl, rfl, Nat.zero_le _⟩
  have himglen : img.length = file'.length := by simp [img, tearImage]
  have hinfo : info.base < 2^64 ∧ info.id < 2^64 ∧ info.codec < 2^64 := ⟨hwf.base_lt, hwf.id_lt, hwf.codec_lt⟩
  have hAb := foldl_addBatch_bytes (acc0 info) (ackBatches bs)
  have hv' : validateFileHeader (scanHeader file') info.hdr = true := by
    rw [hf', hA', hAb]; simp only [List.append_assoc]; exact header_valid info hinfo _
  have hcs := hI.cs
  replace himg : img = _ := himg
  by_cases hne : bs = []
  · subst hne
    have hw : w = (freshSegment info).1 := hCI.empty rfl
    subst hw
    have hfz := hCI.file_zeros
    generalize file.length = kk at hfz
    subst hfz
    have hcbw : (freshSegment info).1.commitBuf = (acc0 info).bytes := fileHeader_eq info.hdr
    have hw0 : (freshSegment info).1.writeOffset = 0 := rfl
    rw [hw0, hcbw, List.take_zero] at himg
    have himg2 := himg
    rw [List.nil_append, tornFrom_append, Nat.zero_add, h0, List.append_assoc] at himg2
    rcases torn_cases (acc0 info) h0 [] ⟨b, s⟩ hlt (tornFrom mask 0 (acc0 info).bytes) (by rw [tornFrom_length, h0])
        mask 32 ⟨4, rfl⟩ k' {} rfl hrel0 img file' himg2 hf'
      with ⟨extra, ho, hfind⟩ | ⟨c', hsf, hfi, hff', hoff, hcrc, X, hX1, hX2⟩
    · -- no valid commit: the empty segment
      left
      have hr := recoverTail_none info img _ rfl hfind
      have := clearStale_before [] img (zeros kk) 0 kk rfl rfl
        (by rw [List.nil_append, himglen]; exact hlen)
      rw [List.nil_append, himglen, zeros_length] at this
      rw [hr, this]; rfl
    · right
      have hcl : clearStale img w'.writeOffset = img := by
        rw [himg2, ← List.append_assoc]
        exact clearStale_self _ _ _ (by
          rw [hwo', hA', List.length_append, List.length_append, tornFrom_length, tornFrom_length]; rfl)
      have hcrc' : crc32c (batchRegion img (freshSegment info).1.writeOffset w'.writeOffset)
          = crc32c (batchRegion file' (freshSegment info).1.writeOffset w'.writeOffset) := by
        rw [batchRegion, batchRegion, ← hcs, hwo']; exact hcrc
      have heq : batchRegion img (freshSegment info).1.writeOffset w'.writeOffset
          = batchRegion file' (freshSegment info).1.writeOffset w'.writeOffset → img = file' := by
        intro hreg
        have e2 : w'.writeOffset = ([] : Bytes).length
            + ((acc0 info).bytes ++ encAll (batchFrames ((ackBatches []).foldl addBatch (acc0 info)) ⟨b, s⟩)).length := by
          rw [hwo', hA', List.length_append, List.length_append, List.length_nil, Nat.zero_add]; rfl
        rw [hw0, e2] at hreg
        exact torn_region_eq [] _ _ X mask k' hX1 (by rw [h0]; exact hX2) img file' himg
          (by rw [hf', hA']; rfl) hreg
      rcases torn_after_eq info w' img file' c' (freshSegment info).1.writeOffset w'.writeOffset hU' hsf hfi hff'
        (by rw [hwo']; exact hoff) (by rw [hwo']; exact hltA') hv' hcl hcrc' heq
        with ⟨h1, h4⟩ | ⟨h1, h2, h3, h4⟩
      · exact Or.inl ⟨h1, h4⟩
      · exact Or.inr ⟨rfl, h1, h2, h3, h4⟩
  · have hcbw := hcb hne
    have hP : file.take w.writeOffset = ((ackBatches bs).foldl addBatch (acc0 info)).bytes := by
      have := hI.bytes; rw [hcbw, List.append_nil] at this; exact this.symm
    have hwo : w.writeOffset = ((ackBatches bs).foldl addBatch (acc0 info)).bytes.length := by
      have := hI.bytes_length; rw [hcbw] at this; simpa using this.symm
    rw [hP, hcbw, List.nil_append] at himg
    rw [hP] at hf
    have hltA : ((ackBatches bs).foldl addBatch (acc0 info)).bytes.length < 2^32 := by
      rw [hA', List.length_append] at hltA'; omega
    have hwf0 : ∀ f ∈ allFrames (acc0 info) (ackBatches bs), f.WF := allFrames_wf _ _ hltA
    have hrel := hrel0.foldl (ackBatches bs) hltA
    rw [h0] at hrel
    obtain ⟨init, l, hsplit⟩ : ∃ init l, bs = init ++ [l] :=
      ⟨bs.dropLast, bs.getLast hne, (List.dropLast_concat_getLast hne).symm⟩
    have hxs : ackBatches bs = ackBatches init ++ [⟨l, false⟩] := by rw [hsplit]; simp [ackBatches]
    obtain ⟨c1, rest, hc1, hc1off, hc1len, hc1v⟩ :=
      fold_layout_last (acc0 info) hrel0 (ackBatches init) ⟨l, false⟩ (by rw [← hxs]; exact hltA)
    rw [← hxs, h0] at hc1 hc1len
    rw [← hxs] at hc1off hc1v
    have himg2 : img = (acc0 info).bytes ++ (encAll (allFrames (acc0 info) (ackBatches bs))
        ++ (tornFrom mask 0 (encAll (batchFrames ((ackBatches bs).foldl addBatch (acc0 info)) ⟨b, s⟩)) ++ zeros k')) := by
      rw [himg, hAb, List.append_assoc]
    have hvimg : validateFileHeader (scanHeader img) info.hdr = true := by
      rw [himg2]; exact header_valid info hinfo _
    rcases torn_cases (acc0 info) h0 _ ⟨b, s⟩ hlt (acc0 info).bytes h0 mask 0 (Nat.dvd_zero 8) k' _ rfl hrel img file' himg2 hf'
      with ⟨extra, ho, hfind⟩ | ⟨c', hsf, hfi, hff', hoff, hcrc, X, hX1, hX2⟩
    · -- recovery settles on the last acknowledged commit
      left
      have hv1 : commitValid img c1 = true := by rw [himg]; exact hc1v _
      rw [hc1, List.find?_cons_of_pos hv1] at hfind
      have hr := recoverTail_some info img _ c1 rfl hfind
      rw [if_pos hvimg, ho, recW_offsets_ext _ _ _ _ hc1len] at hr
      have hsfile : scanFold file = (offsetsOf 32 (allFrames (acc0 info) (ackBatches bs))).foldl recStep {} := by
        rw [hf, hAb, List.append_assoc]
        exact scanFold_frames (acc0 info).bytes h0 _ [] hwf0 (fun f hf => by cases hf) (zeros kb) (stopTail_zeros kb)
      have hv1f : commitValid file c1 = true := by rw [hf]; exact hc1v _
      have hvfile : validateFileHeader (scanHeader file) info.hdr = true := by
        rw [hf, hAb, List.append_assoc]; exact header_valid info hinfo _
      have hrf := recoverTail_some info file _ c1 hsfile (by rw [hc1]; exact List.find?_cons_of_pos hv1f)
      rw [if_pos hvfile, hU] at hrf
      injection hrf with hrf
      injection hrf with hwr _
      have hu : u32 (c1.offset + frameHeaderLen) = w.writeOffset := by
        rw [hwo, ← hc1off]; exact Nat.mod_eq_of_lt (by rw [frameHeaderLen, hc1off]; exact hltA)
      have hclr : clearStale img (u32 (c1.offset + frameHeaderLen)) = file ++ zeros (file'.length - file.length) := by
        rw [hu, ← himglen, himg]
        exact clearStale_before _ _ file _ kb hwo.symm hf (by rw [← himg, himglen]; exact hlen)
      rw [hr, hclr, ← hwr]
    · -- recovery settles on the in-flight commit
      right; left
      have hcl : clearStale img w'.writeOffset = img := by
        rw [himg, ← List.append_assoc]
        exact clearStale_self _ _ _ (by rw [hwo', hA', List.length_append, List.length_append, tornFrom_length])
      have hcrc' : crc32c (batchRegion img w.writeOffset w'.writeOffset)
          = crc32c (batchRegion file' w.writeOffset w'.writeOffset) := by
        rw [batchRegion, batchRegion, ← hcs, hwo']; exact hcrc
      have heq : batchRegion img w.writeOffset w'.writeOffset = batchRegion file' w.writeOffset w'.writeOffset
          → img = file' := by
        intro hreg
        have e2 : w'.writeOffset = ((ackBatches bs).foldl addBatch (acc0 info)).bytes.length
            + (([] : Bytes) ++ encAll (batchFrames ((ackBatches bs).foldl addBatch (acc0 info)) ⟨b, s⟩)).length := by
          rw [hwo', hA', List.length_append]; rfl
        rw [hwo, e2] at hreg
        exact torn_region_eq _ [] _ X mask k' hX1 hX2 img file' himg (by rw [hf', hA', List.append_assoc]; rfl) hreg
      rcases torn_after_eq info w' img file' c' w.writeOffset w'.writeOffset hU' hsf hfi hff' (by rw [hwo']; exact hoff)
        (by rw [hwo']; exact hltA') hv' hcl hcrc' heq with ⟨h1, h4⟩ | ⟨_, hbad, _⟩
      · exact ⟨h1, h4⟩
      · rw [hvimg] at hbad; cases hbad

end RaftWal
