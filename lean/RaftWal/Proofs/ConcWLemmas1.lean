/-
  Proofs/ConcWLemmas1.lean — basics for the write-path concurrency model (Model/ConcW.lean): list algebra, the
  holder count, the two invariants (`Inv0`: holds in EVERY reachable state; `Inv1`: holds as long as no sealing
  writer overwrites a pending `awaitRotate` channel), and a case description of a writer's step.
-/
import RaftWal.Model.ConcW
namespace RaftWal.ConcW

/-! ### lists -/

theorem filter_set_length {α} (p : α → Bool) (l : List α) (i : Nat) (a a' : α) (h : l[i]? = some a) :
    ((l.set i a').filter p).length + (p a).toNat = (l.filter p).length + (p a').toNat := by
  induction l generalizing i with
  | nil => simp at h
  | cons x xs ih =>
    cases i with
    | zero =>
      simp only [List.getElem?_cons_zero, Option.some.injEq] at h
      subst h
      simp only [List.set_cons_zero, List.filter_cons]
      cases p x <;> cases p a' <;> simp
    | succ j =>
      simp only [List.getElem?_cons_succ] at h
      have := ih j h
      simp only [List.set_cons_succ, List.filter_cons]
      cases p x <;> simp <;> omega

theorem mem_set_cases {α} (l : List α) (i : Nat) (a x : α) (h : x ∈ l.set i a) : x = a ∨ x ∈ l := by
  rcases List.mem_or_eq_of_mem_set h with h | h
  · exact Or.inr h
  · exact Or.inl h

theorem mem_of_get {α} (l : List α) (i : Nat) (a : α) (h : l[i]? = some a) : a ∈ l :=
  List.mem_of_getElem? h

theorem get_of_mem {α} (l : List α) (a : α) (h : a ∈ l) : ∃ i : Nat, l[i]? = some a := by
  obtain ⟨i, hi, e⟩ := List.mem_iff_getElem.mp h
  exact ⟨i, by rw [List.getElem?_eq_getElem hi, e]⟩

theorem filter_length_pos {α} (p : α → Bool) (l : List α) (a : α) (h : a ∈ l) (hp : p a = true) :
    0 < (l.filter p).length :=
  List.length_pos_of_mem (List.mem_filter.mpr ⟨h, hp⟩)

theorem exists_of_filter_length_pos {α} (p : α → Bool) (l : List α) (h : 0 < (l.filter p).length) :
    ∃ a ∈ l, p a = true := by
  obtain ⟨a, ha⟩ := List.exists_mem_of_length_pos h
  exact ⟨a, (List.mem_filter.mp ha).1, (List.mem_filter.mp ha).2⟩

/-! ### holders -/

/-- is this writer at a position at which it holds writeMu? -/
def holdsW (w : Writer) : Bool := w.pc == .locked || w.pc == .check || w.pc == .use

def holdsPc (pc : WPc) : Bool := pc == .locked || pc == .check || pc == .use

theorem holdsW_eq (w : Writer) : holdsW w = holdsPc w.pc := rfl

@[simp] theorem holdsPc_start : holdsPc .start = false := rfl
@[simp] theorem holdsPc_wantLock : holdsPc .wantLock = false := rfl
@[simp] theorem holdsPc_locked : holdsPc .locked = true := rfl
@[simp] theorem holdsPc_waiting (ch : Nat) : holdsPc (.waiting ch) = false := rfl
@[simp] theorem holdsPc_relock : holdsPc .relock = false := rfl
@[simp] theorem holdsPc_check : holdsPc .check = true := rfl
@[simp] theorem holdsPc_use : holdsPc .use = true := rfl
@[simp] theorem holdsPc_done (r : WRes) : holdsPc (.done r) = false := rfl

theorem holdsPc_iff (pc : WPc) : holdsPc pc = true ↔ pc = .locked ∨ pc = .check ∨ pc = .use := by
  cases pc <;> simp [holdsPc]

/-- same as `holders` of ConcWProps (definitionally) -/
def holders' (s : Sys) : Nat :=
  (s.writers.filter (fun w => w.pc == .locked || w.pc == .check || w.pc == .use)).length
  + (if s.rpc == .locked then 1 else 0) + (if s.cpc == .locked then 1 else 0)

def rHold (r : RPc) : Nat := if r = .locked then 1 else 0
def cHold (c : CPc) : Nat := if c = .locked then 1 else 0

theorem holders'_eq (s : Sys) :
    holders' s = (s.writers.filter holdsW).length + rHold s.rpc + cHold s.cpc := by
  unfold holders' rHold cHold
  have e : (fun w : Writer => w.pc == .locked || w.pc == .check || w.pc == .use) = holdsW := rfl
  rw [e]
  by_cases h1 : s.rpc = .locked <;> by_cases h2 : s.cpc = .locked <;> simp [h1, h2]

/-! ### setW -/

@[simp] theorem setW_closed (s : Sys) (i : Nat) (w : Writer) : (setW s i w).closed = s.closed := rfl
@[simp] theorem setW_lock (s : Sys) (i : Nat) (w : Writer) : (setW s i w).lock = s.lock := rfl
@[simp] theorem setW_stateEmpty (s : Sys) (i : Nat) (w : Writer) : (setW s i w).stateEmpty = s.stateEmpty := rfl
@[simp] theorem setW_await (s : Sys) (i : Nat) (w : Writer) : (setW s i w).await = s.await := rfl
@[simp] theorem setW_nextChan (s : Sys) (i : Nat) (w : Writer) : (setW s i w).nextChan = s.nextChan := rfl
@[simp] theorem setW_closedChans (s : Sys) (i : Nat) (w : Writer) : (setW s i w).closedChans = s.closedChans := rfl
@[simp] theorem setW_trigQueued (s : Sys) (i : Nat) (w : Writer) : (setW s i w).trigQueued = s.trigQueued := rfl
@[simp] theorem setW_trigClosed (s : Sys) (i : Nat) (w : Writer) : (setW s i w).trigClosed = s.trigClosed := rfl
@[simp] theorem setW_writers (s : Sys) (i : Nat) (w : Writer) : (setW s i w).writers = s.writers.set i w := rfl
@[simp] theorem setW_rpc (s : Sys) (i : Nat) (w : Writer) : (setW s i w).rpc = s.rpc := rfl
@[simp] theorem setW_cpc (s : Sys) (i : Nat) (w : Writer) : (setW s i w).cpc = s.cpc := rfl
@[simp] theorem setW_bad (s : Sys) (i : Nat) (w : Writer) : (setW s i w).bad = s.bad := rfl
@[simp] theorem setW_rotations (s : Sys) (i : Nat) (w : Writer) : (setW s i w).rotations = s.rotations := rfl
@[simp] theorem setW_ioAfterClose (s : Sys) (i : Nat) (w : Writer) : (setW s i w).ioAfterClose = s.ioAfterClose := rfl

/-- the holder count after writer `i` moved from `w.pc` to `pc'` -/
theorem holders'_setW (s s2 : Sys) (i : Nat) (w : Writer) (pc' : WPc) (hw : s.writers[i]? = some w)
    (h2w : s2.writers = s.writers) (h2r : s2.rpc = s.rpc) (h2c : s2.cpc = s.cpc) :
    holders' (setW s2 i { w with pc := pc' }) + (holdsPc w.pc).toNat = holders' s + (holdsPc pc').toNat := by
  rw [holders'_eq, holders'_eq]
  have := filter_set_length holdsW s.writers i w { w with pc := pc' } hw
  simp only [setW_writers, setW_rpc, setW_cpc, h2w, h2r, h2c]
  have e1 : holdsW w = holdsPc w.pc := rfl
  have e2 : holdsW { w with pc := pc' } = holdsPc pc' := rfl
  rw [e1, e2] at this
  omega

/-! ### the invariants -/

/-- holds in every reachable state, under every schedule -/
structure Inv0 (s : Sys) : Prop where
  mutex : holders' s = s.lock.toNat
  trigClosed_iff : s.trigClosed = true ↔ s.cpc = .done
  stateEmpty_iff : s.stateEmpty = true ↔ s.cpc = .done
  closed_iff : s.closed = true ↔ s.cpc ≠ .idle
  use_not_done : ∀ w ∈ s.writers, w.pc = .use → s.cpc ≠ .done
  no_wpanic : ∀ w ∈ s.writers, w.pc ≠ .done .panic
  io : s.ioAfterClose = false

/-- holds as long as no sealing writer has overwritten a pending `awaitRotate` channel -/
structure Inv1 (s : Sys) : Prop where
  bad : s.bad = false
  await_ok : ∀ c, s.await = some c → c < s.nextChan ∧ c ∉ s.closedChans
  closed_lt : ∀ c ∈ s.closedChans, c < s.nextChan
  waiting_ok : ∀ w ∈ s.writers, ∀ ch, w.pc = .waiting ch →
    ch ∈ s.closedChans ∨ s.await = some ch ∨ s.rpc = .closing (some ch)
  closing_ok : ∀ x, s.rpc = .closing x → ∃ c, x = some c ∧ c < s.nextChan ∧ c ∉ s.closedChans ∧ s.await ≠ some c
  r_await : (s.rpc = .got ∨ s.rpc = .locked) → s.closed = false → s.await ≠ none
  q_await : s.trigQueued = true → s.closed = false → s.await ≠ none
  r_noq : (s.rpc = .got ∨ s.rpc = .locked) → s.trigQueued = false
  exited_closed : s.rpc = .exited → s.closed = true
  done_await : s.cpc = .done → s.await = none

theorem Inv0.closed_false {s : Sys} (h : Inv0 s) : s.closed = false ↔ s.cpc = .idle := by
  have := h.closed_iff
  constructor
  · intro hc
    by_cases hi : s.cpc = .idle
    · exact hi
    · have := this.mpr hi; simp [hc] at this
  · intro hi
    cases hc : s.closed with
    | false => rfl
    | true => exact absurd hi (this.mp hc)

theorem rHold_locked : rHold .locked = 1 := rfl
theorem cHold_locked : cHold .locked = 1 := rfl
theorem rHold_ne {r : RPc} (h : r ≠ .locked) : rHold r = 0 := by simp [rHold, h]
theorem cHold_ne {c : CPc} (h : c ≠ .locked) : cHold c = 0 := by simp [cHold, h]

/-- with the lock free nobody is at a lock-holding position -/
theorem Inv0.free {s : Sys} (h : Inv0 s) (hl : s.lock = false) :
    (∀ w ∈ s.writers, holdsPc w.pc = false) ∧ s.rpc ≠ .locked ∧ s.cpc ≠ .locked := by
  have hm := h.mutex
  rw [holders'_eq, hl, Bool.toNat_false] at hm
  refine ⟨?_, ?_, ?_⟩
  · intro w hw
    cases hp : holdsPc w.pc with
    | false => rfl
    | true =>
      have := filter_length_pos holdsW s.writers w hw (by rw [holdsW_eq]; exact hp)
      omega
  · intro e; rw [e, rHold_locked] at hm; omega
  · intro e; rw [e, cHold_locked] at hm; omega

/-- with the lock taken somebody is at a lock-holding position -/
theorem Inv0.holder {s : Sys} (h : Inv0 s) (hl : s.lock = true) :
    (∃ w ∈ s.writers, holdsPc w.pc = true) ∨ s.rpc = .locked ∨ s.cpc = .locked := by
  have hm := h.mutex
  rw [holders'_eq, hl, Bool.toNat_true] at hm
  by_cases h1 : s.rpc = .locked
  · exact Or.inr (Or.inl h1)
  · by_cases h2 : s.cpc = .locked
    · exact Or.inr (Or.inr h2)
    · rw [rHold_ne h1, cHold_ne h2] at hm
      obtain ⟨a, ha, hp⟩ := exists_of_filter_length_pos holdsW s.writers (by omega)
      exact Or.inl ⟨a, ha, by rw [← holdsW_eq]; exact hp⟩

/-- a lock holder excludes the others -/
theorem Inv0.writer_holds {s : Sys} (h : Inv0 s) (w : Writer) (hw : w ∈ s.writers) (hp : holdsPc w.pc = true) :
    s.lock = true ∧ s.rpc ≠ .locked ∧ s.cpc ≠ .locked := by
  have hm := h.mutex
  rw [holders'_eq] at hm
  have := filter_length_pos holdsW s.writers w hw (by rw [holdsW_eq]; exact hp)
  cases hl : s.lock with
  | false => rw [hl, Bool.toNat_false] at hm; omega
  | true =>
    rw [hl, Bool.toNat_true] at hm
    refine ⟨rfl, ?_, ?_⟩
    · intro e; rw [e, rHold_locked] at hm; omega
    · intro e; rw [e, cHold_locked] at hm; omega

/-! ### a writer's step, case by case -/

/-- the ordinary transitions of a writer: the new lock bit and the new pc -/
inductive WStep (s : Sys) (w : Writer) : Bool → WPc → Prop
  | startClosed : w.pc = .start → s.closed = true → WStep s w s.lock (.done .errClosed)
  | startOpen : w.pc = .start → s.closed = false → WStep s w s.lock .wantLock
  | lock : w.pc = .wantLock → s.lock = false → WStep s w true .locked
  | wait (ch : Nat) : w.pc = .locked → s.await = some ch → WStep s w false (.waiting ch)
  | nowait : w.pc = .locked → s.await = none → WStep s w s.lock .check
  | woken (ch : Nat) : w.pc = .waiting ch → ch ∈ s.closedChans → WStep s w s.lock .relock
  | relock : w.pc = .relock → s.lock = false → WStep s w true .check
  | checkClosed : w.pc = .check → s.closed = true → WStep s w false (.done .errClosed)
  | checkOpen : w.pc = .check → s.closed = false → WStep s w s.lock .use
  | usePlain : w.pc = .use → (w.seals = false ∨ s.closed = true) → WStep s w false (.done .ok)

/-- the state after a sealing writer queued a rotation (triggerRotateLocked + unlock) -/
def sealState (s : Sys) (i : Nat) (w : Writer) : Sys :=
  setW { s with await := some s.nextChan, nextChan := s.nextChan + 1, trigQueued := true, lock := false } i
    { w with pc := .done .ok }

theorem stepWriter_none (cfg : Cfg) (s : Sys) (i : Nat) (h : s.writers[i]? = none) : stepWriter cfg s i = s := by
  unfold stepWriter; simp [h]

theorem bool_cases (b : Bool) : b = true ∨ b = false := by cases b <;> simp

/-- the positions at which a writer cannot move -/
def WBlocked (s : Sys) (w : Writer) : Prop :=
  (w.pc = .wantLock ∧ s.lock = true) ∨ (∃ ch, w.pc = .waiting ch ∧ ch ∉ s.closedChans) ∨
  (w.pc = .relock ∧ s.lock = true) ∨
  (w.pc = .use ∧ w.seals = true ∧ s.closed = false ∧ s.trigQueued = true) ∨ (∃ r, w.pc = .done r)

theorem stepWriter_cases (s : Sys) (i : Nat) (w : Writer) (hw : s.writers[i]? = some w) (h0 : Inv0 s) :
    (stepWriter fixed s i = s ∧ WBlocked s w)
    ∨ (∃ b pc', WStep s w b pc' ∧ stepWriter fixed s i = setW { s with lock := b } i { w with pc := pc' })
    ∨ (w.pc = .use ∧ w.seals = true ∧ s.closed = false ∧ s.trigQueued = false ∧
        stepWriter fixed s i = sealState s i w) := by
  have hmem : w ∈ s.writers := mem_of_get _ _ _ hw
  have hf1 : fixed.recheckAfterAwait = true := rfl
  unfold stepWriter
  simp only [hw, hf1, Bool.not_true, Bool.false_and, Bool.true_and, Bool.false_eq_true, if_false]
  cases hpc : w.pc with
  | start =>
    right; left
    rcases bool_cases s.closed with hc | hc
    · exact ⟨_, _, .startClosed hpc hc, by simp only [if_pos hc]⟩
    · exact ⟨_, _, .startOpen hpc hc, by simp only [if_neg (by simp [hc] : ¬ s.closed = true)]⟩
  | wantLock =>
    rcases bool_cases s.lock with hl | hl
    · left; exact ⟨by simp only [if_pos hl], Or.inl ⟨hpc, hl⟩⟩
    · right; left; exact ⟨_, _, .lock hpc hl, by simp only [if_neg (by simp [hl] : ¬ s.lock = true)]⟩
  | locked =>
    right; left
    dsimp only
    split
    · next ch ha => exact ⟨_, _, .wait ch hpc ha, rfl⟩
    · next ha => exact ⟨_, _, .nowait hpc ha, rfl⟩
  | waiting ch =>
    by_cases hc : ch ∈ s.closedChans
    · right; left
      exact ⟨_, _, .woken ch hpc hc, by simp only [if_pos (List.contains_iff_mem.mpr hc)]⟩
    · left
      exact ⟨by simp only [if_neg (fun h => hc (List.contains_iff_mem.mp h))], Or.inr (Or.inl ⟨ch, hpc, hc⟩)⟩
  | relock =>
    rcases bool_cases s.lock with hl | hl
    · left; exact ⟨by simp only [if_pos hl], Or.inr (Or.inr (Or.inl ⟨hpc, hl⟩))⟩
    · right; left; exact ⟨_, _, .relock hpc hl, by simp only [if_neg (by simp [hl] : ¬ s.lock = true)]⟩
  | check =>
    right; left
    rcases bool_cases s.closed with hc | hc
    · exact ⟨_, _, .checkClosed hpc hc, by simp only [if_pos hc]⟩
    · exact ⟨_, _, .checkOpen hpc hc, by simp only [if_neg (by simp [hc] : ¬ s.closed = true)]⟩
  | use =>
    have hnd : s.cpc ≠ .done := h0.use_not_done w hmem hpc
    have hse : ¬ s.stateEmpty = true := fun h => hnd (h0.stateEmpty_iff.mp h)
    simp only [if_neg hse]
    rcases bool_cases w.seals with hs | hs
    · rcases bool_cases s.closed with hc | hc
      · right; left
        exact ⟨_, _, .usePlain hpc (Or.inr hc), by
          simp only [if_neg (by simp [hc] : ¬ (w.seals && !s.closed) = true)]⟩
      · have htc : ¬ s.trigClosed = true := fun h => by
          have h1 := h0.closed_false.mp hc
          have h2 := h0.trigClosed_iff.mp h
          rw [h1] at h2; cases h2
        simp only [if_pos (by simp [hs, hc] : (w.seals && !s.closed) = true), if_neg htc]
        rcases bool_cases s.trigQueued with hq | hq
        · left; exact ⟨by simp only [if_pos hq], Or.inr (Or.inr (Or.inr (Or.inl ⟨hpc, hs, hc, hq⟩)))⟩
        · right; right
          exact ⟨by trivial, hs, hc, hq, by simp only [if_neg (by simp [hq] : ¬ s.trigQueued = true)]; rfl⟩
    · right; left
      exact ⟨_, _, .usePlain hpc (Or.inl hs), by
        simp only [if_neg (by simp [hs] : ¬ (w.seals && !s.closed) = true)]⟩
  | done r => left; exact ⟨rfl, Or.inr (Or.inr (Or.inr (Or.inr ⟨r, hpc⟩)))⟩

/-! ### the single-appender discipline, and schedules without an overwrite -/

/-- an append that fills the tail is in flight: started and not returned -/
def sealingInFlight (s : Sys) : Bool :=
  s.writers.any (fun w => w.seals && w.pc != .start && !(match w.pc with | .done _ => true | _ => false))

/-- single appender (hashicorp/raft's discipline): an append starts only when no other append is in flight; all other
    write calls (DeleteRange, …) and Close may run at any time -/
def step1 (cfg : Cfg) (s : Sys) : Tid → Sys
  | .writer i => match s.writers[i]? with
    | some w => if w.seals && w.pc == .start && sealingInFlight s then s else step cfg s (.writer i)
    | none => s
  | t => step cfg s t

def run1 (cfg : Cfg) (s : Sys) (sched : List Tid) : Sys := sched.foldl (step1 cfg) s

/-- the step of `t` is triggerRotateLocked of a sealing writer while `awaitRotate` is still set: the pending channel is
    overwritten (this is what a woken writer, which does not look at `awaitRotate` again, can do) -/
def overwrites (s : Sys) : Tid → Bool
  | .writer i => match s.writers[i]? with
    | some w => w.pc == .use && w.seals && !s.closed && s.await.isSome
    | none => false
  | _ => false

/-- no step of the schedule, run from `s`, overwrites a pending `awaitRotate` channel -/
def NoOverwrite (s : Sys) : List Tid → Prop
  | [] => True
  | t :: ts => overwrites s t = false ∧ NoOverwrite (step fixed s t) ts

instance decNoOverwrite : (s : Sys) → (sched : List Tid) → Decidable (NoOverwrite s sched)
  | _, [] => inferInstanceAs (Decidable True)
  | s, t :: ts => @instDecidableAnd _ _ _ (decNoOverwrite (step fixed s t) ts)

end RaftWal.ConcW
