/-
  Proofs/WalRefine.lean — the sequential WAL model refines the contiguous-log
  specification (C05).  STATEMENT FIRST; helper lemmas above it or in
  Proofs/WalLemmas*.lean.

  Proof: simulation.  `Sim w s` (Proofs/WalLemmas1.lean) relates a WAL state to a specification state;
  it holds initially (`init_sim`), every operation preserves it and answers alike (`step_sim`,
  Proofs/WalLemmas10.lean), hence equal answer lists (`run_sim`).
-/
import RaftWal.Model.WalRun
import RaftWal.Proofs.WalLemmas10
namespace RaftWal

/-- **C05** for every program (any operation sequence, any segment size, any start index, any
    batch shapes) the answers of the WAL model equal those of the reference contiguous log. -/
theorem wal_refines_spec (cfg : WalCfg) (hcfg : cfg.newSegCodec = cfg.codecId) (w0 : Wal)
    (h0 : Wal.init cfg = some w0) (ops : List Op) (hops : ∀ op ∈ ops, op.inRange) :
    w0.run ops = ({ first := 0, entries := [] } : Spec.SLog).run ops :=
  run_sim (init_sim cfg hcfg w0 h0) ops hops

end RaftWal
