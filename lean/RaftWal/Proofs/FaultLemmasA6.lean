/-
  Proofs/FaultLemmasA6.lean — the append phase of StoreLogs (write, fsync, deferred deletion, rotation) with at most
  one failing action, from an `FRun` state whose tail writer is not sealed.
-/
import RaftWal.Proofs.FaultLemmasA5
namespace RaftWal.Fault.A
open RaftWal.Crash

/-- what the append phase has to deliver, relative to what readers saw before (`V`) and the log with the batch
    appended (`N`) -/
def AppSpec (d1 : Disk) (X : Prop) (V N : Log) (r : Proc × Bool) : Prop :=
  FInv r.1 ∧ view r.1 = (if r.2 then N else V) ∧
  (absLog r.1.disk = view r.1 ∨ (r.2 = false ∧ absLog r.1.disk = N) ∨ (r.2 = false ∧ absLog r.1.disk = absLog d1)) ∧
  (X → fextraB r.1 = true)

theorem del_step {d2 d3 : Disk} {P : List Seg} {t : Seg} {f2 : File} (h2 : FRun d2 P t f2) {j : Nat}
    (hj : ∀ s ∈ P ++ [t], s.id ≠ j) (hd : d3 = d2 ∨ d3 = d2.apply (.delete j)) :
    FRun d3 P t f2 ∧ logP d3 P = logP d2 P := by
  rcases hd with rfl | rfl
  · exact ⟨h2, rfl⟩
  · exact h2.deleteT j hj

/-- the append failed: whatever it left beyond the writer's offset, readers see what they saw -/
theorem append_fail {d1 d2 : Disk} {P : List Seg} {t : Seg} {f f2 : File} (h : FRun d1 P t f) {es : List Entry}
    {seals : Bool} {del : List Act} {j : Nat} (hdel : del = [] ∨ del = [.delete j]) (hj : ∀ s ∈ P ++ [t], s.id ≠ j)
    {k1 k2 : Plan} {a : Act}
    (hrun : runActs d1 [.write t.id es seals, .fsync t.id] k1 = (d2, some a, k2))
    (h2 : FRun d2 P t f2) (hl : logP d2 P = logP d1 P) (hb : f2.base = f.base) (hs : f2.synced = f.synced)
    (hx : f2.pending = f.pending ∨ f2.pending = [] ∨ f2.pending = es) (hx2 : XT f → XT f2) :
    AppSpec d1 (XT f) (absLog (vdisk d1)) (absLog (vdisk d1) ++ idxFrom (f.base + f.synced.length) es)
      (appendPhase d1 t.id es seals del k1) := by
  obtain ⟨d3, k3, hrun3, hd⟩ := runActs_del d2 del j hdel k2
  obtain ⟨h3, hl3⟩ := del_step h2 hj hd
  unfold appendPhase
  rw [hrun]
  simp only
  rw [hrun3]
  simp only [Option.isSome_some, ↓reduceIte]
  have hv : absLog (vdisk d3) = absLog (vdisk d1) := by
    rw [h3.view_eq, h.view_eq, hl3, hl, hb, hs]
  refine ⟨h3.finv, ?_, ?_, fun hX => fextraRun_of h3 (hx2 hX)⟩
  · simp only [Bool.false_eq_true, ↓reduceIte]
    rw [view_run]; exact hv
  · rw [view_run, hv]
    have hlog : absLog d3 = logP d1 P ++ visU t.min f.base (f.synced ++ f2.pending) := by
      rw [h3.log_eq, hl3, hl, hb, hs]
    show absLog d3 = _ ∨ (_ ∧ absLog d3 = _) ∨ (_ ∧ absLog d3 = _)
    rcases hx with hx | hx | hx
    · exact Or.inr (Or.inr ⟨rfl, by rw [hlog, hx, h.log_eq]⟩)
    · exact Or.inl (by rw [hlog, hx, List.append_nil, h.view_eq])
    · exact Or.inr (Or.inl ⟨rfl, by rw [hlog, hx, h.specApply_eq]⟩)

/-- write and fsync went through -/
theorem append_ok {d1 : Disk} {P : List Seg} {t : Seg} {f : File} (h : FRun d1 P t f) (hss : f.sealedS = false)
    {es : List Entry} (hes : es ≠ []) {seals : Bool} {del : List Act} {j : Nat} (hdel : del = [] ∨ del = [.delete j])
    (hj : ∀ s ∈ P ++ [t], s.id ≠ j) {k1 k2 : Plan}
    (hrun : runActs d1 [.write t.id es seals, .fsync t.id] k1 =
      ((updT d1 t.id (setPend es seals)).apply (.fsync t.id), none, k2)) :
    AppSpec d1 (XT f) (absLog (vdisk d1)) (absLog (vdisk d1) ++ idxFrom (f.base + f.synced.length) es)
      (appendPhase d1 t.id es seals del k1) := by
  obtain ⟨hw, hlw⟩ := h.putPend hss es seals
  obtain ⟨f2, h2, hl2, g1, g2, g3, g4, g5, g6⟩ := hw.fsyncT
  obtain ⟨d3, k3, hrun3, hd⟩ := runActs_del ((updT d1 t.id (setPend es seals)).apply (.fsync t.id)) del j hdel k2
  obtain ⟨h3, hl3⟩ := del_step h2 hj hd
  have hs2 : f2.synced = f.synced ++ es := g2
  have hb2 : f2.base = f.base := g1
  have hv : absLog (vdisk d3) = absLog (vdisk d1) ++ idxFrom (f.base + f.synced.length) es := by
    rw [h3.view_eq, hl3, hl2, hlw, hb2, hs2, h.specApply_eq]
  unfold appendPhase
  rw [hrun]
  simp only
  rw [hrun3]
  simp only [Option.isSome_none, Bool.false_eq_true, ↓reduceIte]
  cases seals with
  | false =>
    simp only [Bool.false_eq_true, ↓reduceIte]
    have hne2 : f2.synced ≠ [] := by
      rw [hs2]; intro hc; exact hes (List.append_eq_nil_iff.1 hc).2
    exact ⟨h3.finv, by rw [view_run]; exact hv, Or.inl (h3.log_eq_view g3), fun _ => fextraRun_of h3 (XT_of_synced hne2)⟩
  | true =>
    simp only [↓reduceIte]
    have hss2 : f2.sealedS = true := by rw [g4]; simp [setPend]
    have hne2 : f2.synced ≠ [] := by
      rw [hs2]; intro hc; exact hes (List.append_eq_nil_iff.1 hc).2
    obtain ⟨q1, q2, q3, q4⟩ := rotPhase_spec h3 hss2 hne2 g6 k3
    exact ⟨q1, by rw [q2]; exact hv, Or.inl (by rw [q3, q2]), fun _ => q4⟩

theorem appendPhase_spec {d1 : Disk} {P : List Seg} {t : Seg} {f : File} (h : FRun d1 P t f) (hss : f.sealedS = false)
    {es : List Entry} (hes : es ≠ []) (seals : Bool) {del : List Act} {j : Nat} (hdel : del = [] ∨ del = [.delete j])
    (hj : ∀ s ∈ P ++ [t], s.id ≠ j) (k1 : Plan) :
    AppSpec d1 (XT f) (absLog (vdisk d1)) (absLog (vdisk d1) ++ idxFrom (f.base + f.synced.length) es)
      (appendPhase d1 t.id es seals del k1) := by
  rcases runActs_write_fsync d1 t.id es seals k1 with ⟨wf, rest, hrun⟩ | ⟨rest, hrun⟩ | ⟨rest, hrun⟩
  · cases wf with
    | nothing => exact append_fail h hdel hj hrun h rfl rfl rfl (Or.inl rfl) id
    | garbage =>
      obtain ⟨hw, hlw⟩ := h.putPend hss [] false
      exact append_fail h hdel hj hrun hw hlw rfl rfl (Or.inr (Or.inl rfl)) (fun _ => XT_of_noseal hss rfl)
    | whole =>
      obtain ⟨hw, hlw⟩ := h.putPend hss es seals
      exact append_fail h hdel hj hrun hw hlw rfl rfl (Or.inr (Or.inr rfl)) (fun _ => XT_of_pending hes)
  · obtain ⟨hw, hlw⟩ := h.putPend hss es seals
    exact append_fail h hdel hj hrun hw hlw rfl rfl (Or.inr (Or.inr rfl)) (fun _ => XT_of_pending hes)
  · exact append_ok h hss hes hdel hj hrun

end RaftWal.Fault.A
