/-
  Proofs/FaultLemmasB6.lean — fault model, part B: the invariant after a head truncation that went through.
-/
import RaftWal.Proofs.FaultLemmasB5
namespace RaftWal.Fault.B
open RaftWal.Crash

/-- the disk after a head truncation that keeps `hd :: rest` went through; `g`: what the deletions left -/
abbrev keepDisk (d : Disk) (n : Nat) (hd : Seg) (rest : List Seg) (g : Nat → Bool) : Disk :=
  { md := { d.md with segs := { hd with min := n } :: rest }, files := d.files.filter (fun f => g f.id) }

/-- the meta store after a head truncation that removes everything -/
abbrev allMeta (d : Disk) : Meta :=
  ⟨d.md.nextID + 1, [newSeg d.md.nextID (lastIndex (vdisk d) + 1)], d.md.stable⟩

/-- the file of the new tail -/
abbrev allFile (d : Disk) : File := File.fresh d.md.nextID (lastIndex (vdisk d) + 1)

/-- the disk after a head truncation that removes everything went through -/
abbrev allDisk (d : Disk) (g : Nat → Bool) : Disk :=
  { md := allMeta d, files := (d.files ++ [allFile d]).filter (fun f => g f.id) }

section
variable {d : Disk} {P : List Seg} {t : Seg} {f : File}

theorem FR.qsS (h : FR d P t f) : QuiescentS (cl d) := h.run.qs

theorem FR.tail_kept (h : FR d P t f) {n : Nat} {hd : Seg} {rest : List Seg}
    (hk : d.md.segs.dropWhile (gone d n) = hd :: rest) : t.id ∉ segIds (d.md.segs.takeWhile (gone d n)) := by
  have hsp := h.split n
  rw [hk] at hsp
  have hn := h.nodupS
  rw [h.segs, ← hsp] at hn
  have hmem : t ∈ hd :: rest := by
    rcases split_last hsp with ⟨h1, _, h3⟩ | ⟨r0, h1, _⟩
    · subst h3; simp
    · subst h1; simp
  intro hc
  simp only [segIds, List.map_append] at hn hc
  exact (List.nodup_append.1 hn).2.2 t.id hc t.id (List.mem_map.2 ⟨t, hmem, rfl⟩) rfl

theorem filter_fids_nodup {fs : List File} (g : File → Bool) (hn : (fs.map (·.id)).Nodup) :
    ((fs.filter g).map (·.id)).Nodup :=
  List.Nodup.sublist (List.Sublist.map _ List.filter_sublist) hn

/-- the invariant after a head truncation that keeps some segment and went through -/
theorem FR.keep_run (h : FR d P t f) {n : Nat} (hok : (Op.delHead n).ok (cl d)) {hd : Seg} {rest : List Seg}
    (hk : d.md.segs.dropWhile (gone d n) = hd :: rest) (g : Nat → Bool)
    (hg : ∀ j, j ∉ segIds (d.md.segs.takeWhile (gone d n)) → g j = true) :
    FRun (keepDisk d n hd rest g) ∧
    ∃ t1, (({ hd with min := n } : Seg) :: rest).getLast? = some t1 ∧ t1.id = t.id ∧
      (keepDisk d n hd rest g).file? t1.id = some f := by
  have hsp := h.split n
  rw [hk] at hsp
  obtain ⟨t1, hl1, hid1, _⟩ := kept_last hsp n
  have hS : d.md.segs = d.md.segs.takeWhile (gone d n) ++ hd :: rest := by
    rw [← hk, List.takeWhile_append_dropWhile]
  have htf : (keepDisk d n hd rest g).file? t1.id = some f := by
    rw [file?_eq_look]
    dsimp only
    rw [look_filter_id, hid1, hg t.id (h.tail_kept hk), ← file?_eq_look]
    exact h.tf
  have hsub : ∀ j, named (({ hd with min := n } : Seg) :: rest) j = true → named d.md.segs j = true := by
    intro j hj
    rw [named_congr (K := hd :: rest) (K' := ({ hd with min := n } : Seg) :: rest) rfl, named_eq_mem] at hj
    rw [named_eq_mem, hS]
    simp only [segIds, List.map_append, List.mem_append]
    exact Or.inr hj
  refine ⟨⟨?_, ?_, ?_, ?_, ?_, ?_⟩, t1, hl1, hid1, htf⟩
  · rw [h.keep_final hk g hg]
    exact (call_refines_corrected (cl d) h.qsS _ hok).1
  · exact filter_fids_nodup _ h.run.nodupF
  · intro x hx
    exact h.run.fidlt x (List.mem_filter.1 hx).1
  · intro x hx
    exact h.run.hl x (List.mem_filter.1 hx).1
  · intro x hx
    have hx' := (List.mem_filter.1 hx).1
    rcases h.run.pclean x hx' with ⟨t2, ht2, e2⟩ | hnn | hc
    · rw [h.last] at ht2; cases ht2
      exact Or.inl ⟨t1, hl1, hid1.trans e2⟩
    · right; left
      cases hv : named (({ hd with min := n } : Seg) :: rest) x.id with
      | false => rfl
      | true => rw [hsub _ hv] at hnn; cases hnn
    · exact Or.inr (Or.inr hc)
  · exact ⟨t1, f, hl1, htf, h.tss⟩

/-- the invariant after a head truncation that removes everything and went through -/
theorem FR.all_run (h : FR d P t f) {n : Nat} (hok : (Op.delHead n).ok (cl d))
    (hk : d.md.segs.dropWhile (gone d n) = []) (g : Nat → Bool) (hg : g d.md.nextID = true) :
    FRun (allDisk d g) ∧ (allDisk d g).file? d.md.nextID = some (allFile d) := by
  have htf : (allDisk d g).file? d.md.nextID = some (allFile d) := by
    rw [file?_eq_look]
    dsimp only
    rw [look_filter_id, hg, look_append_single, ← file?_eq_look, h.fresh_d]
    simp [File.fresh]
  have hmem : ∀ x ∈ (d.files ++ [File.fresh d.md.nextID (lastIndex (vdisk d) + 1)]).filter (fun f => g f.id),
      x ∈ d.files ∨ x = File.fresh d.md.nextID (lastIndex (vdisk d) + 1) := by
    intro x hx
    have := (List.mem_filter.1 hx).1
    simpa using this
  refine ⟨⟨?_, ?_, ?_, ?_, ?_, ?_⟩, htf⟩
  · rw [h.all_final _ g hg, ← h.all_cl hk]
    exact (call_refines_corrected (cl d) h.qsS _ hok).1
  · apply filter_fids_nodup
    rw [List.map_append, List.nodup_append]
    refine ⟨h.run.nodupF, by simp, ?_⟩
    intro a ha b hb
    simp only [List.map_cons, List.map_nil, List.mem_singleton] at hb
    obtain ⟨x, hx, rfl⟩ := List.mem_map.1 ha
    have := h.run.fidlt x hx
    rw [hb]
    simp only [File.fresh]; omega
  · intro x hx
    rcases hmem x hx with hx | rfl
    · have := h.run.fidlt x hx
      show x.id < d.md.nextID + 1
      omega
    · show d.md.nextID < d.md.nextID + 1
      omega
  · intro x hx
    rcases hmem x hx with hx | rfl
    · exact h.run.hl x hx
    · intro hc; cases hc
  · intro x hx
    rcases hmem x hx with hx | rfl
    · right; left
      have := h.run.fidlt x hx
      have hne : ¬ d.md.nextID = x.id := by omega
      simp [named, newSeg, hne]
    · exact Or.inl ⟨_, rfl, rfl⟩
  · exact ⟨_, _, rfl, htf, fun hc => by cases hc⟩

end
end RaftWal.Fault.B
