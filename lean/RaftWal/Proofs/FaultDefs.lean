/-
  Proofs/FaultDefs.lean — what the fault theorems about Model/Fault.lean talk about: which calls are legal for a process
  (relative to the log its readers see), histories of calls with their results, what a history means on the abstract log
  when every failed call is applied in full or not at all, and an executable invariant of the states a faulted process
  reaches (evaluated by the correspondence harness on every state the model reaches while shadowing the real code).
-/
import RaftWal.Model.Fault
import RaftWal.Proofs.CrashDefs
namespace RaftWal.Fault
open RaftWal.Crash

def lfirst (l : List (Nat × Entry)) : Nat := match l.head? with | some p => p.1 | none => 0
def llast (l : List (Nat × Entry)) : Nat := match l.getLast? with | some p => p.1 | none => 0

/-- the calls the WAL accepts when its readers see the log `l` (everything else is refused before any I/O) -/
def OkV (l : List (Nat × Entry)) : Op → Prop
  | .store first es _ => es ≠ [] ∧ 1 ≤ first ∧ (l = [] ∨ first = llast l + 1)
  | .delHead newMin => l ≠ [] ∧ lfirst l < newMin ∧ newMin ≤ llast l + 1
  | .delTail newMax => l ≠ [] ∧ lfirst l ≤ newMax ∧ newMax < llast l
  | .set _ _ => True

/-- a history: the calls issued, each with whether it is to be counted as applied -/
abbrev Hist := List (Op × Bool)

/-- the log after the calls counted as applied -/
def replay (l : List (Nat × Entry)) : Hist → List (Nat × Entry)
  | [] => l
  | (op, true) :: h => replay (specApply l op) h
  | (_, false) :: h => replay l h

/-- `c` resolves `h`: same calls, every call that returned nil counted as applied, each failed one either way -/
def Resolves : Hist → Hist → Prop
  | [], [] => True
  | (op, ok) :: h, (op', b) :: c => op' = op ∧ (ok = true → b = true) ∧ Resolves h c
  | _, _ => False

/-- one epoch of a process: from the state `p0` an Open left, calls — each under any fault plan — issued one after the
    other; `h` records each call and whether it returned nil -/
inductive Epoch (p0 : Proc) : Hist → Proc → Prop
  | start : Epoch p0 [] p0
  | call (h : Hist) (p : Proc) (op : Op) (pl : Plan) :
      Epoch p0 h p → OkV (view p) op → Epoch p0 (h ++ [(op, (runOp p op pl).2)]) (runOp p op pl).1

/-! ### executable invariant of a faulted process between calls -/

/-- the files the meta store names -/
def strip (d : Disk) : Disk := { d with files := d.files.filter (fun f => d.md.segs.any (fun s => s.id == f.id)) }

/-- the tail file without what failed calls left on it: nothing beyond the writer's offset, no seal -/
def cleanTail (d : Disk) : Disk :=
  match d.md.segs.getLast? with
  | none => d
  | some t => { d with files := updFile d.files t.id (fun f => { f with pending := [], sealedP := false, sealedS := false }) }

/-- between two calls of a process that still accepts writes: apart from (i) files the meta store does not name (a
    Delete failed), (ii) a batch beyond the tail writer's offset (an append or ForceSeal failed) and (iii) a durably
    sealed tail whose rotation / truncation was not committed, the disk is `QuiescentS` -/
def finvRunB (d : Disk) : Bool :=
  quiescentSB (cleanTail (strip d)) &&
  nodupB (d.files.map (·.id)) && d.files.all (fun f => decide (f.id < d.md.nextID)) &&
  d.files.all (fun f => !f.hsynced || f.linked) &&
  d.files.all (fun f => d.md.segs.getLast?.any (fun t => t.id == f.id) || !d.md.segs.any (fun s => s.id == f.id) ||
                        (f.pending.isEmpty && !f.sealedP)) &&
  (match d.md.segs.getLast? with
   | none => false
   | some t => match d.file? t.id with
     | none => false
     | some f => !f.sealedS || (f.pending.isEmpty && !f.sealedP))

/-- a stopped process: the committed state differs from the published one by exactly the call that could not be
    completed; undoing that commit gives a state of the running kind -/
def finvStopB (d : Disk) (segs0 : List Seg) : Bool :=
  decide (1 ≤ d.md.nextID) &&
  finvRunB { d with md := { d.md with segs := segs0, nextID := d.md.nextID - 1 } } &&
  (match d.md.segs.getLast? with
   | none => false
   | some n => n.id == d.md.nextID - 1 && !n.sealed && (d.file? n.id).isNone)

def finvB (p : Proc) : Bool :=
  match p.frozen with
  | none => finvRunB p.disk
  | some segs0 => finvStopB p.disk segs0

def FInv (p : Proc) : Prop := finvB p = true

/-! ### the two further conjuncts the restart theorems need (found by the prover: `FInv` alone allows an empty tail file
    that is durably sealed, and says too little about the committed segment list of a stopped process — with either,
    Open fails or leaves a state that is not quiescent; both refuted by concrete witnesses in FaultLemmasD3) -/

/-- running process: a tail file that carries a seal (durable or left behind by a failed call) is not empty -/
def fextraRunB (d : Disk) : Bool :=
  match d.md.segs.getLast? with
  | none => true
  | some t =>
    match d.file? t.id with
    | none => true
    | some f => !(f.sealedS || f.sealedP) || !(f.synced ++ f.pending).isEmpty

/-- stopped process: the committed segment list is well-formed — every segment but the last is sealed and agrees
    with its file, the chain is contiguous, identifiers are distinct and below NextSegmentID, the new tail (whose file
    could not be created) starts at its base — i.e. `quiescentB` of the committed state minus what it says about the
    tail's file and about files no segment names -/
def fextraStopB (d : Disk) : Bool :=
  match d.md.segs.getLast? with
  | none => false
  | some n =>
    d.md.segs.dropLast.all (fun s => fileOK d s false) && chainOK d.md.segs && nodupB (d.md.segs.map (·.id)) &&
    d.md.segs.all (fun s => decide (s.id < d.md.nextID)) && decide (n.min = n.base) && decide (1 ≤ n.base)

def fextraB (p : Proc) : Bool :=
  match p.frozen with
  | none => fextraRunB p.disk
  | some _ => fextraStopB p.disk

/-- the invariant of a (possibly faulted) process between calls -/
def FInvS (p : Proc) : Prop := FInv p ∧ fextraB p = true

/-- executable form (what the correspondence harness evaluates) -/
def finvSB (p : Proc) : Bool := finvB p && fextraB p

end RaftWal.Fault
