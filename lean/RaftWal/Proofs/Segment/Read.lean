/-
  Proofs/Segment/Read.lean — reading a README layout back: all frames are well formed,
  the README decoder yields the payloads, every entry frame sits at its recorded offset.
-/
import RaftWal.Proofs.Segment.Run
namespace RaftWal
open Spec (Acc Batch addEntry addBatch)

/-! ## well-formedness of the frames of a layout below 4 GiB -/

theorem foldl_addBatch_length_ge (a : Acc) (bs : List Batch) : a.bytes.length ≤ (bs.foldl addBatch a).bytes.length := by
  rw [foldl_addBatch_bytes]; simp

theorem batchFrames_wf (a : Acc) (b : Batch) (h : (addBatch a b).bytes.length < 2^32) : ∀ f ∈ batchFrames a b, f.WF := by
  intro f hf
  rw [addBatch_eq] at h
  simp only [batchBody, List.length_append, specCommitFrame_length] at h
  simp only [batchFrames, List.mem_append, List.mem_map, List.mem_singleton] at hf
  rcases hf with ⟨p, hp, rfl⟩ | hf | rfl
  · have := mem_length_le_encEntries _ p hp
    exact Fr.entry_wf p (by omega)
  · cases hs : b.sealing
    · simp [hs] at hf
    · simp only [hs, if_true, List.mem_singleton] at hf
      subst hf
      simp only [hs, idxPart, if_true, specIndexFrame_length, encodedFrameSize_eq] at h
      have := roundUp8_ge (4 * (a.offsets ++ offs a.bytes.length b.payloads).length)
      exact Fr.index_wf _ (by omega)
  · exact Fr.commit_wf _

theorem allFrames_wf (a : Acc) (bs : List Batch) (h : (bs.foldl addBatch a).bytes.length < 2^32) :
    ∀ f ∈ allFrames a bs, f.WF := by
  induction bs generalizing a with
  | nil => intro f hf; cases hf
  | cons b bs ih =>
    intro f hf
    simp only [allFrames, List.mem_append] at hf
    simp only [List.foldl_cons] at h
    rcases hf with hf | hf
    · exact batchFrames_wf a b (Nat.lt_of_le_of_lt (foldl_addBatch_length_ge _ bs) h) f hf
    · exact ih _ h f hf

theorem Fr.enc_length_ge (f : Fr) : 8 ≤ f.enc.length := by simp [Fr.enc]

theorem encAll_length_ge (fs : List Fr) : 8 * fs.length ≤ (encAll fs).length := by
  induction fs with
  | nil => simp [encAll]
  | cons f fs ih =>
    have := f.enc_length_ge
    simp only [encAll, List.length_cons, List.length_append]; omega

/-! ## the README decoder -/

theorem foldl_decStep_entries (ps : List Bytes) (c p : List Bytes) :
    (ps.map Fr.entry).foldl decStep (c, p) = (c, p ++ ps) := by
  induction ps generalizing p with
  | nil => simp
  | cons q ps ih =>
    rw [List.map_cons, List.foldl_cons]
    have : decStep (c, p) (Fr.entry q) = (c, p ++ [q]) := by
      have ht : (Fr.entry q).typ = 1 := rfl
      simp [decStep, ht, Fr.entry_payload]
    rw [this, ih]; simp

theorem foldl_decStep_batch (a : Acc) (b : Batch) (c : List Bytes) :
    (batchFrames a b).foldl decStep (c, []) = (c ++ b.payloads, []) := by
  rw [batchFrames, List.foldl_append, foldl_decStep_entries, List.foldl_append]
  have h2 : ∀ s os, decStep s (Fr.index os) = s := fun s os => by
    simp [decStep, Fr.index]
  have h3 : ∀ s cr, decStep s (Fr.commit cr) = (s.1 ++ s.2, []) := fun s cr => by
    simp [decStep, Fr.commit]
  cases b.sealing <;> simp [h2, h3]

theorem foldl_decStep_all (a : Acc) (bs : List Batch) (c : List Bytes) :
    (allFrames a bs).foldl decStep (c, []) = (c ++ (bs.map (·.payloads)).flatten, []) := by
  induction bs generalizing a c with
  | nil => simp [allFrames]
  | cons b bs ih =>
    rw [allFrames, List.foldl_append, foldl_decStep_batch, ih]
    simp

theorem sb_payloads (s : Bool) (bs : List (List Bytes)) : (sb s bs).map (·.payloads) = bs := by
  induction bs with
  | nil => rfl
  | cons b x ih =>
    cases x with
    | nil => rfl
    | cons b' r => simp only [sb, List.map_cons] at ih ⊢; rw [ih]

/-- decoding a layout followed by zeros -/
theorem decode_layout (a0 : Acc) (hlen : a0.bytes.length = 32) (batches : List Batch)
    (hlt : (batches.foldl addBatch a0).bytes.length < 2^32) (k : Nat) :
    Spec.decode ((batches.foldl addBatch a0).bytes ++ zeros k) = (batches.map (·.payloads)).flatten := by
  have hwf := allFrames_wf a0 batches hlt
  have hge := encAll_length_ge (allFrames a0 batches)
  rw [foldl_addBatch_bytes] at *
  rw [Spec.decode, List.append_assoc, drop_app_len _ _ _ hlen]
  have hfuel : (a0.bytes ++ (encAll (allFrames a0 batches) ++ zeros k)).length / 8 + 1
      = ((a0.bytes ++ (encAll (allFrames a0 batches) ++ zeros k)).length / 8 + 1 - (allFrames a0 batches).length)
        + (allFrames a0 batches).length := by
    simp only [List.length_append, zeros_length]; omega
  rw [hfuel, decodeBody_all _ hwf, decodeBody_zeros, foldl_decStep_all]
  simp

/-! ## entry frames sit at their offsets -/

def EntriesAt (bytes : Bytes) (os : List Nat) (ps : List Bytes) : Prop :=
  os.length = ps.length ∧
  ∀ x ∈ os.zip ps, ∃ pre post, bytes = pre ++ (Spec.entryFrame x.2 ++ post) ∧ pre.length = x.1

theorem EntriesAt.mono {bytes os ps} (h : EntriesAt bytes os ps) (x : Bytes) : EntriesAt (bytes ++ x) os ps := by
  refine ⟨h.1, fun y hy => ?_⟩
  obtain ⟨pre, post, h1, h2⟩ := h.2 y hy
  exact ⟨pre, post ++ x, by rw [h1]; simp only [List.append_assoc], h2⟩

theorem EntriesAt.append {bytes os ps os' ps'} (h : EntriesAt bytes os ps) (h' : EntriesAt bytes os' ps') :
    EntriesAt bytes (os ++ os') (ps ++ ps') := by
  refine ⟨by simp [h.1, h'.1], fun y hy => ?_⟩
  rw [List.zip_append h.1, List.mem_append] at hy
  rcases hy with hy | hy
  · exact h.2 y hy
  · exact h'.2 y hy

theorem entriesAt_entries (pre : Bytes) (qs : List Bytes) : EntriesAt (pre ++ encEntries qs) (offs pre.length qs) qs := by
  induction qs generalizing pre with
  | nil => exact ⟨rfl, fun y hy => by simp [offs] at hy⟩
  | cons q qs ih =>
    refine ⟨by simp, fun y hy => ?_⟩
    simp only [offs, List.zip_cons_cons, List.mem_cons] at hy
    rcases hy with rfl | hy
    · exact ⟨pre, encEntries qs, by simp only [encEntries], rfl⟩
    · have := ih (pre ++ Spec.entryFrame q)
      rw [List.length_append, specEntryFrame_length] at this
      obtain ⟨pre', post', h1, h2⟩ := this.2 y hy
      exact ⟨pre', post', by rw [← h1]; simp only [encEntries, List.append_assoc], h2⟩

theorem entriesAt_addBatch (a : Acc) (b : Batch) (ps : List Bytes) (h : EntriesAt a.bytes a.offsets ps) :
    EntriesAt (addBatch a b).bytes (addBatch a b).offsets (ps ++ b.payloads) := by
  rw [addBatch_eq]
  simp only [batchBody, List.append_assoc]
  apply EntriesAt.append
  · exact h.mono _
  · have := (entriesAt_entries a.bytes b.payloads).mono
      (idxPart b.sealing (a.offsets ++ offs a.bytes.length b.payloads) ++ Spec.commitFrame (batchCrc a b).toNat)
    simpa only [List.append_assoc] using this

theorem entriesAt_foldl (a : Acc) (bs : List Batch) (ps : List Bytes) (h : EntriesAt a.bytes a.offsets ps) :
    EntriesAt (bs.foldl addBatch a).bytes (bs.foldl addBatch a).offsets (ps ++ (bs.map (·.payloads)).flatten) := by
  induction bs generalizing a ps with
  | nil => simpa using h
  | cons b bs ih =>
    have := ih _ _ (entriesAt_addBatch a b ps h)
    simpa only [List.foldl_cons, List.map_cons, List.flatten_cons, List.append_assoc] using this

theorem EntriesAt.get {bytes os ps} (h : EntriesAt bytes os ps) (k : Nat) (hk : k < ps.length) :
    ∃ o pre post, os[k]? = some o ∧ bytes = pre ++ (Spec.entryFrame ps[k] ++ post) ∧ pre.length = o := by
  have hk' : k < os.length := by rw [h.1]; exact hk
  have hz : k < (os.zip ps).length := by simp [List.length_zip]; omega
  have hm : (os[k], ps[k]) ∈ os.zip ps := by
    have := List.getElem_mem hz
    rwa [List.getElem_zip] at this
  obtain ⟨pre, post, h1, h2⟩ := h.2 _ hm
  exact ⟨os[k], pre, post, List.getElem?_eq_getElem hk', h1, h2⟩

end RaftWal
