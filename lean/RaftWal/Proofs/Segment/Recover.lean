/-
  Proofs/Segment/Recover.lean — `recoverTail` over a README layout followed by zeros.
-/
import RaftWal.Proofs.Segment.Read
namespace RaftWal
open Spec (Acc Batch addEntry addBatch)

/-! ## the recovery fold over the frames of one batch -/

theorem Fr.entry_fh (p : Bytes) : (Fr.entry p).fh = { typ := 1, len := p.length, crc := 0 } := rfl
theorem Fr.index_fh (os : List Nat) : (Fr.index os).fh = { typ := 2, len := ((os.map (Spec.le 4)).flatten).length, crc := 0 } := rfl
theorem Fr.commit_fh (c : Nat) : (Fr.commit c).fh = { typ := 3, len := 0, crc := c } := rfl

theorem foldl_recStep_entries (ps : List Bytes) (off : Nat) (ra : RecAcc) :
    (offsetsOf off (ps.map Fr.entry)).foldl recStep ra
      = { ra with offsets := ((offs off ps).map u32).reverse ++ ra.offsets } := by
  induction ps generalizing off ra with
  | nil => simp [offsetsOf, offs]
  | cons p ps ih =>
    rw [List.map_cons, offsetsOf, List.foldl_cons, Fr.entry_enc, specEntryFrame_length, ih]
    simp [recStep, Fr.entry_fh, frameEntry, offs]

theorem recStep_index (ra : RecAcc) (os : List Nat) (off : Nat) :
    recStep ra ((Fr.index os).fh, off) = { ra with pendingIndex := off + 8 } := by
  simp [recStep, Fr.index_fh, frameEntry, frameIndex, frameHeaderLen]

theorem recStep_commit (ra : RecAcc) (c : Nat) (off : Nat) :
    recStep ra ((Fr.commit c).fh, off)
      = { ra with commits := { crc := c, offset := off, crcStart := ra.crcStart, offsetsLen := ra.offsets.length,
                               indexStart := ra.pendingIndex } :: ra.commits
                , crcStart := off + 8
                , pendingIndex := 0 } := by
  simp [recStep, Fr.commit_fh, frameEntry, frameIndex, frameCommit, frameHeaderLen]

theorem foldl_recStep_batch (a : Acc) (b : Batch) (ra : RecAcc) :
    (offsetsOf a.bytes.length (batchFrames a b)).foldl recStep ra
      = { offsets := ((offs a.bytes.length b.payloads).map u32).reverse ++ ra.offsets
        , pendingIndex := 0
        , crcStart := (batchBody a b).length + 8
        , commits := { crc := (batchCrc a b).toNat, offset := (batchBody a b).length,
                       crcStart := ra.crcStart,
                       offsetsLen := b.payloads.length + ra.offsets.length,
                       indexStart := if b.sealing then a.bytes.length + (encEntries b.payloads).length + 8
                                     else ra.pendingIndex } :: ra.commits } := by
  rw [batchFrames, offsetsOf_append, List.foldl_append, foldl_recStep_entries, ← encEntries_eq_encAll,
    offsetsOf_append, List.foldl_append]
  cases hs : b.sealing
  · simp [offsetsOf, encAll, recStep_commit, batchBody, idxPart, hs]
  · simp [offsetsOf, encAll, recStep_commit, recStep_index, batchBody, idxPart, hs, Fr.index_enc]
    omega

/-! ## relation between the layout fold and the recovery fold -/

structure RecRel (a : Acc) (ra : RecAcc) : Prop where
  offsEq : ra.offsets = a.offsets.reverse
  cs : ra.crcStart = a.commitStart
  pend : ra.pendingIndex = 0
  csle : a.commitStart ≤ a.bytes.length

theorem map_u32_eq (l : List Nat) (h : ∀ o ∈ l, o < 2^32) : l.map u32 = l := by
  induction l with
  | nil => rfl
  | cons o l ih =>
    rw [List.map_cons, ih (fun x hx => h x (List.mem_cons_of_mem _ hx))]
    congr 1
    exact Nat.mod_eq_of_lt (h o List.mem_cons_self)

theorem addBatch_length (a : Acc) (b : Batch) : (addBatch a b).bytes.length = (batchBody a b).length + 8 := by
  rw [addBatch_eq]; simp

theorem batchBody_length_ge (a : Acc) (b : Batch) : a.bytes.length + (encEntries b.payloads).length ≤ (batchBody a b).length := by
  simp [batchBody]

theorem map_u32_offs (a : Acc) (b : Batch) (h : (addBatch a b).bytes.length < 2^32) :
    (offs a.bytes.length b.payloads).map u32 = offs a.bytes.length b.payloads := by
  apply map_u32_eq
  intro o ho
  have := (offs_bound _ _ o ho).2
  have := batchBody_length_ge a b
  rw [addBatch_length] at h
  omega

theorem RecRel.step {a ra} (h : RecRel a ra) (b : Batch) (hlt : (addBatch a b).bytes.length < 2^32) :
    RecRel (addBatch a b) ((offsetsOf a.bytes.length (batchFrames a b)).foldl recStep ra) := by
  rw [foldl_recStep_batch, map_u32_offs a b hlt]
  refine ⟨?_, ?_, rfl, ?_⟩
  · rw [addBatch_eq]; simp [h.offsEq]
  · rw [addBatch_eq]
  · rw [addBatch_eq]; simp

theorem RecRel.foldl {a ra} (h : RecRel a ra) (bs : List Batch) (hlt : (bs.foldl addBatch a).bytes.length < 2^32) :
    RecRel (bs.foldl addBatch a) ((offsetsOf a.bytes.length (allFrames a bs)).foldl recStep ra) := by
  induction bs generalizing a ra with
  | nil => simpa [allFrames, offsetsOf] using h
  | cons b bs ih =>
    rw [List.foldl_cons] at hlt ⊢
    have hb : (addBatch a b).bytes.length < 2^32 := Nat.lt_of_le_of_lt (foldl_addBatch_length_ge _ bs) hlt
    rw [allFrames, offsetsOf_append, List.foldl_append]
    have := ih (h.step b hb) hlt
    rwa [addBatch_bytes, List.length_append] at this

/-! ## scanning a layout followed by zeros -/

theorem scan_layout (hd : Bytes) (hlen : hd.length = 32) (fs : List Fr) (hwf : ∀ f ∈ fs, f.WF) (k : Nat) :
    scanFrames (hd ++ (encAll fs ++ zeros k)) (scanFuel (hd ++ (encAll fs ++ zeros k))) fileHeaderLen
      = offsetsOf 32 fs := by
  have hge := encAll_length_ge fs
  have hfuel : scanFuel (hd ++ (encAll fs ++ zeros k))
      = (scanFuel (hd ++ (encAll fs ++ zeros k)) - fs.length) + fs.length := by
    simp only [scanFuel, List.length_append, zeros_length]; omega
  have h32 : fileHeaderLen = hd.length := by rw [hlen]; rfl
  rw [hfuel, h32, scanFrames_all fs hwf hd (zeros k)]
  have e : hd ++ (encAll fs ++ zeros k) = (hd ++ encAll fs) ++ zeros k := by simp only [List.append_assoc]
  have e2 : hd.length + (encAll fs).length = (hd ++ encAll fs).length := by rw [List.length_append]
  rw [e, e2, scanFrames_zeros, List.append_nil, hlen]

theorem scanFrames_only_zeros (n fuel off : Nat) : scanFrames (zeros n) fuel off = [] := by
  cases fuel with
  | zero => rfl
  | succ fuel =>
    rw [scanFrames]
    have hr : readAt (zeros n) off frameHeaderLen = zeros (min 8 (n - off)) := by
      simp [readAt, zeros, frameHeaderLen, List.drop_replicate, List.take_replicate]
    rw [hr]
    by_cases hk : n - off < 8
    · rw [if_pos (by simp [frameHeaderLen]; omega)]
    · have : min 8 (n - off) = 8 := by omega
      rw [this, readFrameHeader_zeros]
      simp [frameHeaderLen, frameInvalid]

/-! ## `recoverTail` -/

theorem recoverTail_eval (info : SegInfo) (file : Bytes) (ra : RecAcc) (c : CommitInfo)
    (h1 : (scanFrames file (scanFuel file) fileHeaderLen).foldl recStep {} = ra)
    (hc : ra.commits.find? (commitValid file) = some c)
    (hhdr : validateFileHeader (scanHeader file) info.hdr = true) :
    recoverTail info file = .ok
      ({ Writer.fresh info with
          writeOffset := u32 (c.offset + frameHeaderLen), indexStart := c.indexStart,
          offsets := ra.offsets.reverse.take c.offsetsLen,
          commitIdx := commitIdxOf info.base (ra.offsets.reverse.take c.offsetsLen) },
       clearStale file (u32 (c.offset + frameHeaderLen))) := by
  simp only [recoverTail, readThroughSegment, h1, hc, hhdr, if_true]

theorem recoverTail_zeros (info : SegInfo) (n : Nat) :
    recoverTail info (zeros n) = .ok ((Writer.fresh info).initEmpty, zeros n) := by
  simp only [recoverTail, readThroughSegment, scanFrames_only_zeros, List.foldl_nil, List.find?_nil]
  simp [clearStale, zeros]

theorem commitValid_layout (a : Acc) (b : Batch) (hcs : a.commitStart ≤ a.bytes.length) (rest : Bytes) :
    commitValid ((addBatch a b).bytes ++ rest)
      { crc := (batchCrc a b).toNat, offset := (batchBody a b).length, crcStart := a.commitStart,
        offsetsLen := x, indexStart := y } = true := by
  have hle : a.commitStart ≤ (batchBody a b).length := by
    have := batchBody_length_ge a b; omega
  have hr : readAt ((addBatch a b).bytes ++ rest) a.commitStart ((batchBody a b).length - a.commitStart)
      = (batchBody a b).drop a.commitStart := by
    rw [addBatch_eq]
    simp only [readAt, List.append_assoc]
    rw [List.drop_append_of_le_length hle]
    exact take_app_len _ _ _ (by simp)
  simp only [commitValid, hr, batchCrc, List.length_drop, decide_eq_true_eq, and_self]

/-- recovery of a layout (at least one batch) followed by zeros -/
theorem recover_layout (info : SegInfo) (hb : info.base < 2^64) (hi : info.id < 2^64) (hc : info.codec < 2^64)
    (xs : List Batch) (lb : Batch) (k : Nat)
    (hlt : (Spec.layoutAcc info.base info.id info.codec (xs ++ [lb])).bytes.length < 2^32) :
    let A := Spec.layoutAcc info.base info.id info.codec (xs ++ [lb])
    let A1 := Spec.layoutAcc info.base info.id info.codec xs
    recoverTail info (A.bytes ++ zeros k) = .ok
      ({ Writer.fresh info with
          writeOffset := A.bytes.length,
          indexStart := if lb.sealing then A1.bytes.length + (encEntries lb.payloads).length + 8 else 0,
          offsets := A.offsets,
          commitIdx := commitIdxOf info.base A.offsets },
       A.bytes ++ zeros k) := by
  intro A A1
  have hA : A = addBatch A1 lb := by simp [A, A1, Spec.layoutAcc, List.foldl_append]
  let a0 : Acc := ⟨Spec.header info.base info.id info.codec, [], 0⟩
  have hrel0 : RecRel a0 {} := ⟨rfl, rfl, rfl, Nat.zero_le _⟩
  have hltA : A.bytes.length < 2^32 := hlt
  have hlt1 : A1.bytes.length < 2^32 := by
    have := addBatch_length A1 lb; have := batchBody_length_ge A1 lb; rw [← hA] at *; omega
  have hrel1 : RecRel A1 ((offsetsOf 32 (allFrames a0 xs)).foldl recStep {}) := hrel0.foldl xs hlt1
  -- the scan
  have hbytes : A.bytes = a0.bytes ++ encAll (allFrames a0 (xs ++ [lb])) := foldl_addBatch_bytes a0 _
  have hwf : ∀ f ∈ allFrames a0 (xs ++ [lb]), f.WF := allFrames_wf a0 _ hltA
  have hscan := scan_layout a0.bytes (by simp [a0]) _ hwf k
  rw [← List.append_assoc, ← hbytes] at hscan
  -- the fold
  have hfold : (offsetsOf 32 (allFrames a0 (xs ++ [lb]))).foldl recStep {}
      = (offsetsOf A1.bytes.length (batchFrames A1 lb)).foldl recStep ((offsetsOf 32 (allFrames a0 xs)).foldl recStep {}) := by
    rw [allFrames_append, offsetsOf_append, List.foldl_append]
    have : 32 + (encAll (allFrames a0 xs)).length = A1.bytes.length := by
      have := foldl_addBatch_bytes a0 xs
      simp only [A1, Spec.layoutAcc]; rw [this]; simp [a0]
    rw [this]
    simp [allFrames, A1, Spec.layoutAcc, a0]
  rw [foldl_recStep_batch, map_u32_offs A1 lb (by rw [← hA]; exact hltA)] at hfold
  have hhdr : validateFileHeader (scanHeader (A.bytes ++ zeros k)) info.hdr = true := by
    rw [hbytes, List.append_assoc, scanHeader_specHeader _ _ _ hb hi hc]
    simp [validateFileHeader, SegInfo.hdr]
  have hAlen : A.bytes.length = (batchBody A1 lb).length + 8 := by rw [hA, addBatch_length]
  have hAoff : A.offsets = A1.offsets ++ offs A1.bytes.length lb.payloads := by rw [hA, addBatch_eq]
  generalize hra1 : (offsetsOf 32 (allFrames a0 xs)).foldl recStep {} = ra1 at hrel1 hfold
  have hcv := commitValid_layout (x := lb.payloads.length + ra1.offsets.length)
    (y := if lb.sealing then A1.bytes.length + (encEntries lb.payloads).length + 8 else ra1.pendingIndex)
    A1 lb hrel1.csle (zeros k)
  rw [← hA, ← hrel1.cs] at hcv
  rw [← hscan] at hfold
  rw [recoverTail_eval info _ _ _ hfold (List.find?_cons_of_pos (l := ra1.commits) hcv) hhdr]
  have hu : u32 ((batchBody A1 lb).length + frameHeaderLen) = A.bytes.length := by
    rw [hAlen]; exact Nat.mod_eq_of_lt (by show _ + 8 < _; rw [← hAlen]; exact hltA)
  simp only [hu, hrel1.pend, hrel1.offsEq, List.reverse_append, List.reverse_reverse, ← hAoff]
  have htake : A.offsets.take (lb.payloads.length + A1.offsets.reverse.length) = A.offsets := by
    apply List.take_of_length_le; rw [hAoff]; simp; omega
  rw [htake]
  have hcl : clearStale (A.bytes ++ zeros k) A.bytes.length = A.bytes ++ zeros k := by
    simp [clearStale, zeros]
  rw [hcl]

end RaftWal
