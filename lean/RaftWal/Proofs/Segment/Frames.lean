/-
  Proofs/Segment/Frames.lean — header round trips; generic frames `Fr`; one step of
  `scanFrames`, `Spec.parseFrame`, `readFrame` over an encoded frame.
-/
import RaftWal.Proofs.Segment.Basic
namespace RaftWal

/-! ## file header -/

def hd8 : Bytes := Spec.le 4 0x58eb6b0d ++ [0, 0, 0] ++ [0]

theorem specHeader_split (b i c : Nat) : Spec.header b i c = hd8 ++ (Spec.le 8 b ++ (Spec.le 8 i ++ Spec.le 8 c)) := by
  simp only [Spec.header, hd8, List.append_assoc]

theorem getLE_le (n v : Nat) (h : v < 256 ^ n) : getLE (Spec.le n v) = v := by
  rw [← putLE_eq_le]; exact getLE_putLE n v h

theorem readFileHeader_specHeader (b i c : Nat) (hb : b < 2^64) (hi : i < 2^64) (hc : c < 2^64) :
    readFileHeader (Spec.header b i c) = some { base := b, id := i, codec := c } := by
  have hlen : ¬ ((Spec.header b i c).length < fileHeaderLen) := by simp [fileHeaderLen]
  rw [readFileHeader, if_neg hlen, specHeader_split]
  have t8 : (hd8 ++ (Spec.le 8 b ++ (Spec.le 8 i ++ Spec.le 8 c))).take 8 = hd8 := take_app_len _ _ 8 rfl
  have d7 : (hd8 ++ (Spec.le 8 b ++ (Spec.le 8 i ++ Spec.le 8 c))).drop 7 = (0 : UInt8) :: (Spec.le 8 b ++ (Spec.le 8 i ++ Spec.le 8 c)) := rfl
  have d8 : (hd8 ++ (Spec.le 8 b ++ (Spec.le 8 i ++ Spec.le 8 c))).drop 8 = (Spec.le 8 b ++ (Spec.le 8 i ++ Spec.le 8 c)) :=
    drop_app_len _ _ 8 rfl
  have d16 : (hd8 ++ (Spec.le 8 b ++ (Spec.le 8 i ++ Spec.le 8 c))).drop 16 = (Spec.le 8 i ++ Spec.le 8 c) := by
    have : (16:Nat) = 8 + 8 := rfl
    rw [this, ← List.drop_drop, d8]; exact drop_app_len _ _ 8 (by simp)
  have d24 : (hd8 ++ (Spec.le 8 b ++ (Spec.le 8 i ++ Spec.le 8 c))).drop 24 = Spec.le 8 c := by
    have : (24:Nat) = 16 + 8 := rfl
    rw [this, ← List.drop_drop, d16]; exact drop_app_len _ _ 8 (by simp)
  rw [t8, d7, d8, d16, d24]
  have hm : getLE hd8 = magic := by decide
  rw [if_neg (by rw [hm]; exact fun h => h rfl), if_neg (by simp only [List.headD_cons]; decide)]
  rw [take_app_len _ _ 8 (by simp), take_app_len _ _ 8 (by simp), List.take_of_length_le (by simp)]
  rw [getLE_le 8 b (by simpa using hb), getLE_le 8 i (by simpa using hi), getLE_le 8 c (by simpa using hc)]

theorem scanHeader_specHeader (b i c : Nat) (hb : b < 2^64) (hi : i < 2^64) (hc : c < 2^64) (rest : Bytes) :
    scanHeader (Spec.header b i c ++ rest) = { base := b, id := i, codec := c } := by
  unfold scanHeader
  simp only [readAt, List.drop_zero]
  rw [take_app_len _ _ fileHeaderLen (by simp [fileHeaderLen])]
  simp only [specHeader_length, fileHeaderLen, Nat.sub_self, zeros, List.replicate_zero, List.append_nil]
  rw [readFileHeader_specHeader b i c hb hi hc]; rfl


/-! ## generic frames -/

structure Fr where
  typ : Nat
  val : Nat
  body : Bytes

def fhOf (t v : Nat) : FrameHeader :=
  if t = 3 then { typ := 3, len := 0, crc := v } else { typ := t, len := v, crc := 0 }

def Fr.len (f : Fr) : Nat := if f.typ = 3 then 0 else f.val
def Fr.enc (f : Fr) : Bytes := Spec.frameHeader f.typ f.val ++ f.body
def Fr.fh (f : Fr) : FrameHeader := fhOf f.typ f.val
def Fr.payload (f : Fr) : Bytes := f.body.take f.val

structure Fr.WF (f : Fr) : Prop where
  typ : f.typ = 1 ∨ f.typ = 2 ∨ f.typ = 3
  val : f.val < 2^32
  body : f.body.length = Spec.roundUp8 f.len

theorem Fr.fh_typ (f : Fr) : f.fh.typ = f.typ := by
  unfold Fr.fh fhOf; split <;> simp_all

theorem Fr.fh_len (f : Fr) : f.fh.len = f.len := by
  unfold Fr.fh fhOf Fr.len; split <;> rfl

theorem Fr.enc_length (f : Fr) (hf : f.WF) : f.enc.length = encodedFrameSize f.len := by
  simp only [Fr.enc, List.length_append, specFrameHeader_length, hf.body, encodedFrameSize_eq]

theorem readFrameHeader_frameHeader (t v : Nat) (ht : t = 1 ∨ t = 2 ∨ t = 3) (hv : v < 2^32) (rest : Bytes) :
    readFrameHeader (Spec.frameHeader t v ++ rest) = some (fhOf t v) := by
  have hlen : ¬ ((Spec.frameHeader t v ++ rest).length < frameHeaderLen) := by
    simp [frameHeaderLen]
  have hd : (Spec.frameHeader t v ++ rest).headD 0 = t.toUInt8 := rfl
  have hdt : ((Spec.frameHeader t v ++ rest).drop 4).take 4 = Spec.le 4 v := by
    show (Spec.le 4 v ++ rest).take 4 = _
    exact take_app_len _ _ 4 (by simp)
  have htn : t.toUInt8.toNat = t := toUInt8_toNat_of_lt (by omega)
  simp only [readFrameHeader, if_neg hlen, hd, hdt, htn, getLE_le 4 v (by simpa using hv), fhOf,
    frameInvalid, frameEntry, frameIndex, frameCommit]
  rcases ht with h | h | h <;> subst h <;> simp

/-! ## scanning -/

def encAll : List Fr → Bytes
  | [] => []
  | f :: fs => f.enc ++ encAll fs

def offsetsOf (off : Nat) : List Fr → List (FrameHeader × Nat)
  | [] => []
  | f :: fs => (f.fh, off) :: offsetsOf (off + f.enc.length) fs

theorem encAll_append (a b : List Fr) : encAll (a ++ b) = encAll a ++ encAll b := by
  induction a with
  | nil => rfl
  | cons f fs ih => simp only [List.cons_append, encAll, ih, List.append_assoc]

theorem offsetsOf_append (off : Nat) (a b : List Fr) :
    offsetsOf off (a ++ b) = offsetsOf off a ++ offsetsOf (off + (encAll a).length) b := by
  induction a generalizing off with
  | nil => simp [offsetsOf, encAll]
  | cons f fs ih =>
    simp only [List.cons_append, offsetsOf, encAll, ih, List.length_append, Nat.add_assoc]

theorem scanFrames_step (pre rest : Bytes) (f : Fr) (hf : f.WF) (fuel : Nat) :
    scanFrames (pre ++ (f.enc ++ rest)) (fuel+1) pre.length
      = (f.fh, pre.length) :: scanFrames (pre ++ (f.enc ++ rest)) fuel (pre.length + f.enc.length) := by
  have hbuf : readAt (pre ++ (f.enc ++ rest)) pre.length frameHeaderLen = Spec.frameHeader f.typ f.val := by
    rw [readAt_app _ _ _ _ rfl, Fr.enc, List.append_assoc]
    exact take_app_len _ _ _ (by simp [frameHeaderLen])
  have hrd : readFrameHeader (Spec.frameHeader f.typ f.val) = some f.fh := by
    have := readFrameHeader_frameHeader f.typ f.val hf.typ hf.val []
    rwa [List.append_nil] at this
  have hty : ¬ (f.fh.typ = frameInvalid) := by
    rw [Fr.fh_typ]; have := hf.typ; unfold frameInvalid; omega
  rw [scanFrames]
  simp only [hbuf, hrd]
  rw [if_neg (by simp [frameHeaderLen]), if_neg hty, Fr.fh_len, Fr.enc_length f hf]

theorem scanFrames_all (fs : List Fr) (hwf : ∀ f ∈ fs, f.WF) (pre rest : Bytes) (fuel : Nat) :
    scanFrames (pre ++ (encAll fs ++ rest)) (fuel + fs.length) pre.length
      = offsetsOf pre.length fs ++ scanFrames (pre ++ (encAll fs ++ rest)) fuel (pre.length + (encAll fs).length) := by
  induction fs generalizing pre with
  | nil => simp [encAll, offsetsOf]
  | cons f fs ih =>
    have hf := hwf f (List.mem_cons_self)
    have hfs : ∀ g ∈ fs, g.WF := fun g hg => hwf g (List.mem_cons_of_mem _ hg)
    simp only [encAll, List.length_cons, offsetsOf, List.append_assoc]
    rw [← Nat.add_assoc, scanFrames_step pre _ f hf]
    have e : pre ++ (f.enc ++ (encAll fs ++ rest)) = (pre ++ f.enc) ++ (encAll fs ++ rest) := by
      simp only [List.append_assoc]
    have := ih hfs (pre ++ f.enc)
    rw [List.length_append] at this
    rw [e, this, List.length_append, Nat.add_assoc]
    rfl

theorem readFrameHeader_zeros : readFrameHeader (zeros 8) = some { typ := 0, len := 0, crc := 0 } := by decide

theorem scanFrames_zeros (pre : Bytes) (k fuel : Nat) : scanFrames (pre ++ zeros k) fuel pre.length = [] := by
  cases fuel with
  | zero => rfl
  | succ fuel =>
    rw [scanFrames]
    rw [readAt_app _ _ _ _ rfl]
    by_cases hk : k < 8
    · have : ((zeros k).take frameHeaderLen).length < frameHeaderLen := by
        simp [frameHeaderLen]; omega
      simp only [this, if_true]
    · have hz : (zeros k).take frameHeaderLen = zeros 8 := by
        simp only [zeros, frameHeaderLen, List.take_replicate]
        congr 1; omega
      rw [hz, readFrameHeader_zeros]
      simp [frameHeaderLen, frameInvalid]

/-! ## the README decoder over one frame -/

theorem le4_cons (v : Nat) : Spec.le 4 v =
    [(v % 256).toUInt8, (v / 256 % 256).toUInt8, (v / 256 / 256 % 256).toUInt8, (v / 256 / 256 / 256 % 256).toUInt8] := rfl

theorem parseFrame_enc (f : Fr) (hf : f.WF) (rest : Bytes) :
    Spec.parseFrame (f.enc ++ rest) = some (f.typ, f.val, if f.typ = 3 then [] else f.payload, rest) := by
  obtain ⟨t, v, body⟩ := f
  obtain ⟨ht, hv, hb⟩ := hf
  simp only at ht hv hb
  have e : Fr.enc ⟨t, v, body⟩ ++ rest = t.toUInt8 :: 0 :: 0 :: 0 :: (v % 256).toUInt8 :: (v / 256 % 256).toUInt8
      :: (v / 256 / 256 % 256).toUInt8 :: (v / 256 / 256 / 256 % 256).toUInt8 :: (body ++ rest) := by
    simp only [Fr.enc, Spec.frameHeader, le4_cons, List.cons_append, List.nil_append]
  rw [e, Spec.parseFrame]
  have hval : (v % 256).toUInt8.toNat + 256 * ((v / 256 % 256).toUInt8.toNat + 256 * ((v / 256 / 256 % 256).toUInt8.toNat
      + 256 * (v / 256 / 256 / 256 % 256).toUInt8.toNat)) = v := by
    rw [toUInt8_toNat_of_lt (Nat.mod_lt _ (by omega)), toUInt8_toNat_of_lt (Nat.mod_lt _ (by omega)),
      toUInt8_toNat_of_lt (Nat.mod_lt _ (by omega)), toUInt8_toNat_of_lt (Nat.mod_lt _ (by omega))]
    omega
  simp only [hval]
  have htn : t.toUInt8.toNat = t := toUInt8_toNat_of_lt (by omega)
  rcases ht with h | h | h <;> subst h
  · have h1 : ¬ ((Nat.toUInt8 1) = 3) := by decide
    have h2 : ((Nat.toUInt8 1) = 1 ∨ (Nat.toUInt8 1) = 2) := by decide
    simp only [Fr.len] at hb
    rw [if_neg h1, if_pos h2, if_neg (by simp [hb]), htn]
    have hb' : body.length = Spec.roundUp8 v := by simpa using hb
    simp only [Fr.payload, List.take_append_of_le_length (Nat.le_trans (roundUp8_ge v) (Nat.le_of_eq hb'.symm)),
      drop_app_len _ _ _ hb']
    simp
  · have h1 : ¬ ((Nat.toUInt8 2) = 3) := by decide
    have h2 : ((Nat.toUInt8 2) = 1 ∨ (Nat.toUInt8 2) = 2) := by decide
    simp only [Fr.len] at hb
    rw [if_neg h1, if_pos h2, if_neg (by simp [hb]), htn]
    have hb' : body.length = Spec.roundUp8 v := by simpa using hb
    simp only [Fr.payload, List.take_append_of_le_length (Nat.le_trans (roundUp8_ge v) (Nat.le_of_eq hb'.symm)),
      drop_app_len _ _ _ hb']
    simp
  · have h1 : ((Nat.toUInt8 3) = 3) := by decide
    simp only [Fr.len] at hb
    have hb0 : body = [] := List.eq_nil_of_length_eq_zero (by simpa [Spec.roundUp8] using hb)
    rw [if_pos h1, hb0]
    simp

def decStep (s : List Bytes × List Bytes) (f : Fr) : List Bytes × List Bytes :=
  if f.typ = 1 then (s.1, s.2 ++ [f.payload]) else if f.typ = 2 then s else (s.1 ++ s.2, [])

theorem decodeBody_all (fs : List Fr) (hwf : ∀ f ∈ fs, f.WF) (rest : Bytes) (fuel : Nat) (c p : List Bytes) :
    Spec.decodeBody (fuel + fs.length) (encAll fs ++ rest) c p
      = Spec.decodeBody fuel rest (fs.foldl decStep (c, p)).1 (fs.foldl decStep (c, p)).2 := by
  induction fs generalizing c p with
  | nil => simp [encAll]
  | cons f fs ih =>
    have hf := hwf f (List.mem_cons_self)
    have hfs : ∀ g ∈ fs, g.WF := fun g hg => hwf g (List.mem_cons_of_mem _ hg)
    simp only [encAll, List.length_cons, List.append_assoc, List.foldl_cons]
    rw [← Nat.add_assoc, Spec.decodeBody, parseFrame_enc f hf]
    simp only
    rcases hf.typ with h | h | h
    · have e : decStep (c, p) f = (c, p ++ [f.payload]) := by simp [decStep, h]
      simp only [h, if_true, e]
      rw [if_neg (by decide)]
      exact ih hfs _ _
    · have e : decStep (c, p) f = (c, p) := by simp [decStep, h]
      simp only [h, e]
      rw [if_neg (by decide), if_pos trivial]
      exact ih hfs _ _
    · have e : decStep (c, p) f = (c ++ p, []) := by simp [decStep, h]
      simp only [h, e]
      rw [if_neg (by decide), if_neg (by decide)]
      exact ih hfs _ _

theorem parseFrame_zeros (k : Nat) : Spec.parseFrame (zeros k) = none := by
  match k with
  | 0 | 1 | 2 | 3 | 4 | 5 | 6 | 7 => rfl
  | k + 8 =>
    have : zeros (k + 8) = 0 :: 0 :: 0 :: 0 :: 0 :: 0 :: 0 :: 0 :: zeros k := by
      simp [zeros, List.replicate_succ]
    rw [this, Spec.parseFrame]
    simp

theorem decodeBody_zeros (k fuel : Nat) (c p : List Bytes) : Spec.decodeBody fuel (zeros k) c p = c := by
  cases fuel with
  | zero => rfl
  | succ fuel => rw [Spec.decodeBody, parseFrame_zeros]

/-! ## `readFrame` on an entry frame sitting at `pre.length` -/

theorem readFrame_entry (pre post p : Bytes) (bufSize : Nat) (hbuf : 8 ≤ bufSize) (hp : p.length ≤ maxEntrySize)
    (hoff : pre.length + 8 < 2^32) :
    (readFrame (pre ++ (Spec.entryFrame p ++ post)) pre.length bufSize).map (·.1) = .ok p := by
  have hplt : p.length < 2^32 := by unfold maxEntrySize at hp; omega
  generalize hX : p ++ (List.replicate (Spec.roundUp8 p.length - p.length) 0 ++ post) = X
  have hXp : X.take p.length = p := by rw [← hX]; exact take_app_len _ _ _ rfl
  have hXl : p.length ≤ X.length := by rw [← hX]; simp
  have hfile : pre ++ (Spec.entryFrame p ++ post) = pre ++ (Spec.frameHeader 1 p.length ++ X) := by
    rw [← hX]; simp only [Spec.entryFrame, List.append_assoc]
  have hbufv : readAt (pre ++ (Spec.frameHeader 1 p.length ++ X)) pre.length bufSize
      = Spec.frameHeader 1 p.length ++ X.take (bufSize - 8) := by
    rw [readAt_app _ _ _ _ rfl, take_app_ge _ _ _ (by simpa using hbuf), specFrameHeader_length]
  have hrd := readFrameHeader_frameHeader 1 p.length (Or.inl rfl) hplt (X.take (bufSize - 8))
  have hfh : fhOf 1 p.length = { typ := 1, len := p.length, crc := 0 } := rfl
  rw [hfile, readFrame]
  simp only [hbufv, hrd, hfh]
  rw [if_neg (by simp [frameHeaderLen])]
  by_cases hfit : frameHeaderLen + p.length ≤ (Spec.frameHeader 1 p.length ++ X.take (bufSize - 8)).length
  · rw [if_pos hfit]
    simp only [Except.map]
    congr 1
    rw [drop_app_len _ _ _ (by simp [frameHeaderLen]), List.take_take]
    have : p.length ≤ bufSize - 8 := by
      simp only [frameHeaderLen, List.length_append, specFrameHeader_length, List.length_take] at hfit
      omega
    rw [Nat.min_eq_left this, hXp]
  · rw [if_neg hfit, if_neg (by omega)]
    have hu : u32 (pre.length + frameHeaderLen) = (pre ++ Spec.frameHeader 1 p.length).length := by
      simp only [u32, frameHeaderLen, List.length_append, specFrameHeader_length]
      exact Nat.mod_eq_of_lt hoff
    rw [← List.append_assoc, readAt_app _ _ _ _ hu.symm, hXp, if_neg (Nat.lt_irrefl _)]
    rfl

end RaftWal
