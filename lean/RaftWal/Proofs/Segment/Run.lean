/-
  Proofs/Segment/Run.lean — a fault-free run of the writer follows the README layout fold:
  explicit form of one `Append`, the invariant `Inv`, its preservation, the whole run.
-/
import RaftWal.Proofs.Segment.Layout
namespace RaftWal
open Spec (Acc Batch addEntry addBatch)

/-! ## numbering of a batch -/

def ib (next k : Nat) (ps : List Bytes) : List (Nat × Bytes) := (ps.zipIdx k).map (fun (p, i) => (next + i, p))

theorem indexBatch_eq (next : Nat) (ps : List Bytes) : indexBatch next ps = ib next 0 ps := rfl

theorem ib_nil (next k : Nat) : ib next k [] = [] := rfl

theorem ib_cons (next k : Nat) (p : Bytes) (ps : List Bytes) : ib next k (p :: ps) = (next + k, p) :: ib next (k+1) ps := by
  simp [ib, List.zipIdx_cons]

theorem ib_getLast (next k : Nat) (p : Bytes) (ps : List Bytes) :
    ((ib next k (p :: ps)).getLast?.map (·.1)).getD 0 = next + k + ps.length := by
  induction ps generalizing k p with
  | nil => simp [ib_cons, ib_nil]
  | cons q ps ih =>
    rw [ib_cons, ib_cons, List.getLast?_cons_cons, ← ib_cons, ih]
    simp only [List.length_cons]; omega

/-! ## `appendEntries` -/

theorem appendEntries_ib (w : Writer) (next k : Nat) (ps : List Bytes)
    (hnext : next + k = w.info.base + w.offsets.length)
    (hb : w.writeOffset + w.commitBuf.length + (encEntries ps).length < 2^32)
    (hmax : ∀ p ∈ ps, p.length ≤ maxEntrySize) :
    w.appendEntries (ib next k ps)
      = .ok { w with offsets := w.offsets ++ offs (w.writeOffset + w.commitBuf.length) ps
                   , commitBuf := w.commitBuf ++ encEntries ps
                   , crc := crcUpdate w.crc (encEntries ps) } := by
  induction ps generalizing w k with
  | nil => simp [ib_nil, Writer.appendEntries, offs, encEntries, crcUpdate_nil]
  | cons p ps ih =>
    simp only [encEntries, List.length_append, specEntryFrame_length] at hb
    have hp : p.length < 2^32 := by rw [encodedFrameSize_eq] at hb; have := roundUp8_ge p.length; omega
    have hpm : p.length ≤ maxEntrySize := hmax p List.mem_cons_self
    rw [ib_cons, Writer.appendEntries, Writer.appendEntry, if_neg (by omega), if_neg (by omega)]
    simp only
    rw [ih _ (k+1) (by simp only [List.length_append, List.length_cons, List.length_nil]; omega)
      (by simp only [List.length_append, entryFrame_eq p hp, specEntryFrame_length]; omega)
      (fun q hq => hmax q (List.mem_cons_of_mem _ hq))]
    have hu : u32 (w.writeOffset + u32 w.commitBuf.length) = w.writeOffset + w.commitBuf.length := by
      unfold u32; rw [Nat.mod_eq_of_lt (a := w.commitBuf.length) (by omega), Nat.mod_eq_of_lt (by omega)]
    simp only [hu, entryFrame_eq p hp, List.length_append, specEntryFrame_length, offs, encEntries, List.append_assoc,
      crcUpdate_append, List.cons_append, List.nil_append, Nat.add_assoc]

/-! ## one `Append` without faults -/

/-- offsets after appending `ps` -/
def Writer.os1 (w : Writer) (ps : List Bytes) : List Nat := w.offsets ++ offs (w.writeOffset + w.commitBuf.length) ps

/-- bytes added to the commit buffer by a batch (before the commit frame) -/
def Writer.added (w : Writer) (ps : List Bytes) (s : Bool) : Bytes := encEntries ps ++ idxPart s (w.os1 ps)

def Writer.outBuf (w : Writer) (ps : List Bytes) (s : Bool) : Bytes :=
  w.commitBuf ++ w.added ps s ++ Spec.commitFrame (crcUpdate w.crc (w.added ps s)).toNat

def Writer.after (w : Writer) (ps : List Bytes) (s : Bool) (next : Nat) : Writer :=
  { info := w.info, commitBuf := [], crc := 0, writeOffset := w.writeOffset + (w.outBuf ps s).length,
    indexStart := if s then w.writeOffset + (w.commitBuf.length + (encEntries ps).length + 8) else 0,
    offsets := w.os1 ps, commitIdx := next + ps.length - 1 }

theorem append_unfold (w w1 : Writer) (file : Bytes) (entries : List (Nat × Bytes))
    (hne : entries.isEmpty = false) (hidx : w.indexStart = 0) (h1 : w.appendEntries entries = .ok w1) :
    w.append file entries .none =
      match (if w1.needSeal then w1.appendIndex else .ok w1) with
      | .error e => (some e, w, file)
      | .ok w2 =>
        (none, { (w2.appendCommit file .none).1.toOption.getD w2 with commitIdx := (entries.getLast?.map (·.1)).getD 0 },
          (w2.appendCommit file .none).2) := by
  rw [Writer.append, hne]
  simp only [Bool.false_eq_true, if_false]
  rw [if_neg (by omega), h1]
  simp only
  generalize (if w1.needSeal = true then w1.appendIndex else Except.ok w1) = r
  cases r <;> rfl

theorem appendIndex_ok (w : Writer) (h : w.offsets ≠ []) :
    w.appendIndex = .ok { w with indexStart := w.writeOffset + (w.commitBuf.length + frameHeaderLen)
                               , commitBuf := w.commitBuf ++ Spec.indexFrame w.offsets
                               , crc := crcUpdate w.crc (Spec.indexFrame w.offsets) } := by
  rw [Writer.appendIndex, if_neg (by intro h0; exact h (List.eq_nil_of_length_eq_zero h0)), indexFrame_eq _ h]

theorem append_ok (w : Writer) (file : Bytes) (ps : List Bytes) (next : Nat)
    (hidx : w.indexStart = 0) (hps : ps ≠ [])
    (hnext : next = w.info.base + w.offsets.length)
    (hb : w.writeOffset + w.commitBuf.length + (encEntries ps).length + (Spec.indexFrame (w.os1 ps)).length + 8 < 2^32)
    (hmax : ∀ p ∈ ps, p.length ≤ maxEntrySize) :
    ∃ s : Bool, w.append file (indexBatch next ps) .none
      = (none, w.after ps s next, writeAt file w.writeOffset (w.outBuf ps s)) := by
  obtain ⟨p, ps', rfl⟩ := List.exists_cons_of_ne_nil hps
  have hne : (indexBatch next (p :: ps')).isEmpty = false := by
    rw [indexBatch_eq, ib_cons]; rfl
  have hos : (w.os1 (p :: ps')) ≠ [] := by simp [Writer.os1, offs]
  have h1 := appendEntries_ib w next 0 (p :: ps') (by omega) (by omega) hmax
  rw [append_unfold w _ file _ hne hidx (by rw [indexBatch_eq]; exact h1), indexBatch_eq, ib_getLast]
  have hu : ∀ n, w.writeOffset + n < 2^32 → u32 (w.writeOffset + u32 n) = w.writeOffset + n := by
    intro n hn
    unfold u32; rw [Nat.mod_eq_of_lt (a := n) (by omega), Nat.mod_eq_of_lt (by omega)]
  have hci : next + 0 + ps'.length = next + (p :: ps').length - 1 := by simp
  split
  · rename_i e he
    split at he
    · rw [appendIndex_ok _ hos] at he; cases he
    · cases he
  · rename_i w2 he
    split at he
    · refine ⟨true, ?_⟩
      rw [appendIndex_ok _ hos] at he
      injection he with he
      subst he
      simp only [Writer.appendCommit, Except.toOption, Option.getD, commitFrame_eq, crcUpdate_append, List.append_assoc,
        Writer.after, Writer.outBuf, Writer.added, idxPart, if_true, Writer.os1, hci, frameHeaderLen]
      rw [hu]
      · simp only [List.length_append, Nat.add_assoc]
      · simp only [Writer.os1] at hb
        simp only [List.length_append, specCommitFrame_length]; omega
    · refine ⟨false, ?_⟩
      injection he with he
      subst he
      simp only [Writer.appendCommit, Except.toOption, Option.getD, commitFrame_eq, List.append_assoc,
        Writer.after, Writer.outBuf, Writer.added, idxPart, Writer.os1, hci]
      rw [hu]
      · simp only [hidx, List.append_nil, List.nil_append, Bool.false_eq_true, if_false]
      · simp only [List.length_append, specCommitFrame_length]; omega

theorem append_sealed (w : Writer) (file : Bytes) (ps : List Bytes) (next : Nat)
    (hidx : w.indexStart > 0) (hps : ps ≠ []) :
    w.append file (indexBatch next ps) .none = (some .sealed, w, file) := by
  obtain ⟨p, ps', rfl⟩ := List.exists_cons_of_ne_nil hps
  have hne : (indexBatch next (p :: ps')).isEmpty = false := by
    rw [indexBatch_eq, ib_cons]; rfl
  rw [Writer.append, hne]
  simp only [Bool.false_eq_true, if_false]
  rw [if_pos hidx]

/-! ## a successful `Append` only carries payloads of at most `maxEntrySize` bytes -/

theorem appendEntries_ok_le (w w1 : Writer) (es : List (Nat × Bytes)) (h : w.appendEntries es = .ok w1) :
    ∀ e ∈ es, e.2.length ≤ maxEntrySize := by
  induction es generalizing w with
  | nil => intro e he; cases he
  | cons x es ih =>
    obtain ⟨i, d⟩ := x
    rw [Writer.appendEntries] at h
    cases hw : w.appendEntry i d with
    | error e => rw [hw] at h; cases h
    | ok w2 =>
      rw [hw] at h
      intro e he
      rcases List.mem_cons.mp he with rfl | he
      · rw [Writer.appendEntry] at hw
        by_cases hd : d.length > maxEntrySize
        · rw [if_pos hd] at hw; cases hw
        · exact Nat.le_of_not_lt hd
      · exact ih w2 h e he

theorem append_none_le (w : Writer) (file : Bytes) (entries : List (Nat × Bytes)) (w' : Writer) (file' : Bytes)
    (h : w.append file entries .none = (none, w', file')) : ∀ e ∈ entries, e.2.length ≤ maxEntrySize := by
  rw [Writer.append] at h
  split at h
  · rename_i he
    intro e hm
    rw [List.isEmpty_iff.mp he] at hm; cases hm
  · split at h
    · cases h
    · split at h
      · cases h
      · rename_i w1 h1
        exact appendEntries_ok_le w w1 entries h1

theorem ib_map_snd (next k : Nat) (ps : List Bytes) : (ib next k ps).map (·.2) = ps := by
  induction ps generalizing k with
  | nil => rfl
  | cons p ps ih => rw [ib_cons, List.map_cons, ih]

theorem append_indexBatch_le (w : Writer) (file : Bytes) (next : Nat) (ps : List Bytes) (w' : Writer) (file' : Bytes)
    (h : w.append file (indexBatch next ps) .none = (none, w', file')) : ∀ p ∈ ps, p.length ≤ maxEntrySize := by
  intro p hp
  rw [← ib_map_snd next 0 ps, ← indexBatch_eq] at hp
  obtain ⟨e, he, rfl⟩ := List.mem_map.mp hp
  exact append_none_le w file _ w' file' h e he

theorem appendAll_cons_some (w : Writer) (file : Bytes) (next : Nat) (b : List Bytes) (bs : List (List Bytes))
    (r : Writer × Bytes) (h : w.appendAll file next (b :: bs) = some r) :
    ∃ w1 f1, w.append file (indexBatch next b) .none = (none, w1, f1) ∧ w1.appendAll f1 (next + b.length) bs = some r := by
  rw [Writer.appendAll] at h
  split at h
  · cases h
  · rename_i w1 f1 heq
    exact ⟨w1, f1, heq, h⟩

/-- a successful run only carries payloads of at most `maxEntrySize` bytes (the writer refuses larger ones) -/
theorem appendAll_payload_le (w : Writer) (file : Bytes) (next : Nat) (bs : List (List Bytes)) (w' : Writer) (file' : Bytes)
    (h : w.appendAll file next bs = some (w', file')) : ∀ b ∈ bs, ∀ p ∈ b, p.length ≤ maxEntrySize := by
  induction bs generalizing w file next with
  | nil => intro b hb; cases hb
  | cons b bs ih =>
    obtain ⟨w1, f1, h1, h2⟩ := appendAll_cons_some w file next b bs _ h
    intro x hx
    rcases List.mem_cons.mp hx with rfl | hx
    · exact append_indexBatch_le w file next _ w1 f1 h1
    · exact ih w1 f1 _ h2 x hx

/-! ## invariant between the writer and the README layout fold -/

structure Inv (info : SegInfo) (w : Writer) (file : Bytes) (a : Acc) : Prop where
  info : w.info = info
  bytes : a.bytes = file.take w.writeOffset ++ w.commitBuf
  wo : w.writeOffset ≤ file.length
  cs : a.commitStart = w.writeOffset
  crc : w.crc = crc32c w.commitBuf
  offsEq : w.offsets = a.offsets
  zeros : ∀ x ∈ file.drop w.writeOffset, x = 0

theorem Inv.bytes_length {info w file a} (h : Inv info w file a) : a.bytes.length = w.writeOffset + w.commitBuf.length := by
  rw [h.bytes, List.length_append, List.length_take, Nat.min_eq_left h.wo]

theorem Inv.os1 {info w file a} (h : Inv info w file a) (ps : List Bytes) :
    w.os1 ps = a.offsets ++ offs a.bytes.length ps := by
  rw [Writer.os1, h.offsEq, h.bytes_length]

theorem Inv.step {info w file a} (h : Inv info w file a) (ps : List Bytes) (s : Bool) (next : Nat) :
    Inv info (w.after ps s next) (writeAt file w.writeOffset (w.outBuf ps s)) (addBatch a ⟨ps, s⟩) := by
  have htl : (file.take w.writeOffset).length = w.writeOffset := by
    rw [List.length_take, Nat.min_eq_left h.wo]
  have hbody : batchBody a ⟨ps, s⟩ = file.take w.writeOffset ++ (w.commitBuf ++ w.added ps s) := by
    simp only [batchBody, Writer.added, h.os1 ps, List.append_assoc]
    rw [h.bytes, List.append_assoc]
  have hcrc : batchCrc a ⟨ps, s⟩ = crcUpdate w.crc (w.added ps s) := by
    rw [batchCrc, hbody, h.cs, drop_app_len _ _ _ htl, h.crc, crc32c, crc32c, crcUpdate_append]
  have hfile : writeAt file w.writeOffset (w.outBuf ps s)
      = (file.take w.writeOffset ++ w.outBuf ps s) ++ file.drop (w.writeOffset + (w.outBuf ps s).length) := by
    rw [writeAt]; simp only [if_neg (Nat.not_lt.mpr h.wo)]
  have hlen : (file.take w.writeOffset ++ w.outBuf ps s).length = w.writeOffset + (w.outBuf ps s).length := by
    rw [List.length_append, htl]
  refine ⟨h.info, ?_, ?_, ?_, ?_, ?_, ?_⟩
  · rw [addBatch_eq, hfile]
    simp only [Writer.after, List.append_nil]
    rw [take_app_len _ _ _ hlen, hbody, hcrc, Writer.outBuf]
    simp only [List.append_assoc]
  · rw [hfile]; simp only [Writer.after, List.length_append, htl]; omega
  · rw [addBatch_eq]
    simp only [Writer.after, hbody, Writer.outBuf, List.length_append, htl, specCommitFrame_length]; omega
  · simp only [Writer.after]; rw [crc32c, crcUpdate_nil]
  · rw [addBatch_eq]; simp only [Writer.after, h.os1 ps]
  · intro x hx
    rw [hfile] at hx
    simp only [Writer.after] at hx
    rw [drop_app_len _ _ _ hlen] at hx
    apply h.zeros x
    rw [← List.drop_drop] at hx
    exact List.mem_of_mem_drop hx

/-! ## the whole run -/

/-- spec batches of a run: only the last batch may seal -/
def sb (s : Bool) : List (List Bytes) → List Batch
  | [] => []
  | [b] => [⟨b, s⟩]
  | b :: b' :: r => ⟨b, false⟩ :: sb s (b' :: r)

/-- position of the index array if the last batch seals -/
def idxPos (a : Acc) : List (List Bytes) → Nat
  | [] => 0
  | [b] => (a.bytes ++ encEntries b).length + 8
  | b :: b' :: r => idxPos (addBatch a ⟨b, false⟩) (b' :: r)

def need (bs : List (List Bytes)) : Nat := (bs.map (fun b => (b.map (fun p => 16 + p.length)).sum + 8)).sum
def cnt (bs : List (List Bytes)) : Nat := (bs.map List.length).sum

theorem need_cons (b : List Bytes) (bs : List (List Bytes)) :
    need (b :: bs) = (b.map (fun p => 16 + p.length)).sum + 8 + need bs := by simp [need]
theorem cnt_cons (b : List Bytes) (bs : List (List Bytes)) : cnt (b :: bs) = b.length + cnt bs := by simp [cnt]

theorem Writer.after_indexStart_pos (w : Writer) (ps : List Bytes) (s : Bool) (next : Nat) :
    decide ((w.after ps s next).indexStart > 0) = s := by
  cases s <;> simp [Writer.after] <;> omega

theorem Writer.after_true_indexStart (w : Writer) (ps : List Bytes) (next : Nat) :
    (w.after ps true next).indexStart > 0 := by
  simp [Writer.after]; omega

theorem run_inv (info : SegInfo) (bs : List (List Bytes)) (hne : ∀ b ∈ bs, b ≠ []) :
    ∀ (w : Writer) (file : Bytes) (a : Acc) (next : Nat) (w' : Writer) (file' : Bytes),
      Inv info w file a → w.indexStart = 0 → next = info.base + a.offsets.length →
      a.bytes.length + need bs + 16 + 4 * (a.offsets.length + cnt bs) < 2^32 →
      w.appendAll file next bs = some (w', file') →
      Inv info w' file' ((sb (decide (w'.indexStart > 0)) bs).foldl addBatch a)
      ∧ (bs ≠ [] → w'.commitBuf = [] ∧ w'.commitIdx = next + cnt bs - 1 ∧ 0 < cnt bs)
      ∧ (w'.indexStart = 0 ∨ w'.indexStart = idxPos a bs)
      ∧ ((sb (decide (w'.indexStart > 0)) bs).foldl addBatch a).bytes.length
          ≤ a.bytes.length + need bs + 16 + 4 * (a.offsets.length + cnt bs) := by
  induction bs with
  | nil =>
    intro w file a next w' file' hinv hidx hnext hb hrun
    simp only [Writer.appendAll, Option.some.injEq, Prod.mk.injEq] at hrun
    obtain ⟨rfl, rfl⟩ := hrun
    exact ⟨by simpa [sb] using hinv, fun h => absurd rfl h, Or.inl hidx, by simp [sb]; omega⟩
  | cons b rest ih =>
    intro w file a next w' file' hinv hidx hnext hb hrun
    have hbne : b ≠ [] := hne b List.mem_cons_self
    have hrest : ∀ b ∈ rest, b ≠ [] := fun x hx => hne x (List.mem_cons_of_mem _ hx)
    rw [need_cons, cnt_cons] at hb
    have hel := encEntries_length_le b
    have hbl := hinv.bytes_length
    have hil : (Spec.indexFrame (w.os1 b)).length ≤ 16 + 4 * (a.offsets.length + b.length) := by
      rw [specIndexFrame_length, hinv.os1, encodedFrameSize_eq, List.length_append, offs_length]
      have := roundUp8_lt (4 * (a.offsets.length + b.length)); omega
    have hbpos : 0 < b.length := List.length_pos_iff.mpr hbne
    have hmaxb : ∀ p ∈ b, p.length ≤ maxEntrySize :=
      appendAll_payload_le w file next (b :: rest) w' file' hrun b List.mem_cons_self
    obtain ⟨s, hap⟩ := append_ok w file b next hidx hbne (by rw [hinv.info, hinv.offsEq]; exact hnext) (by omega) hmaxb
    rw [Writer.appendAll, hap] at hrun
    simp only at hrun
    have hstep := hinv.step b s next
    have ha1len : (addBatch a ⟨b, false⟩).bytes.length = a.bytes.length + (encEntries b).length + 8 := by
      rw [addBatch_eq]; simp [batchBody, idxPart]; omega
    have ha1off : (addBatch a ⟨b, false⟩).offsets.length = a.offsets.length + b.length := by
      rw [addBatch_eq]; simp
    cases rest with
    | nil =>
      simp only [Writer.appendAll, Option.some.injEq, Prod.mk.injEq] at hrun
      obtain ⟨rfl, rfl⟩ := hrun
      rw [Writer.after_indexStart_pos]
      refine ⟨by simpa [sb] using hstep, fun _ => ⟨rfl, by simp [Writer.after, cnt], by simp [cnt]; omega⟩, ?_, ?_⟩
      · cases s
        · left; rfl
        · right; simp only [Writer.after, idxPos, if_true, List.length_append, hbl]; omega
      · have : (idxPart s (w.os1 b)).length ≤ (Spec.indexFrame (w.os1 b)).length := by
          cases s <;> simp [idxPart]
        simp only [sb, List.foldl_cons, List.foldl_nil, need_cons, cnt_cons]
        rw [addBatch_eq]
        simp only [batchBody, ← hinv.os1, List.length_append, specCommitFrame_length]
        omega
    | cons b' r =>
      cases s with
      | true =>
        have hb'ne : b' ≠ [] := hrest b' List.mem_cons_self
        rw [Writer.appendAll, append_sealed _ _ _ _ (Writer.after_true_indexStart _ _ _) hb'ne] at hrun
        simp at hrun
      | false =>
        have := ih hrest (w.after b false next) _ (addBatch a ⟨b, false⟩) (next + b.length) w' file' hstep
          (by simp [Writer.after]) (by rw [ha1off]; omega)
          (by rw [ha1len, ha1off]; omega) hrun
        obtain ⟨h1, h2, h3, h4⟩ := this
        refine ⟨by simpa [sb] using h1, fun _ => ?_, by simpa [idxPos] using h3, ?_⟩
        rotate_left
        · simp only [sb, List.foldl_cons]
          rw [ha1len, ha1off] at h4
          rw [need_cons, cnt_cons b]; omega
        obtain ⟨h21, h22, h23⟩ := h2 (by simp)
        refine ⟨h21, ?_, ?_⟩
        · rw [h22, cnt_cons b]; omega
        · rw [cnt_cons]; omega

end RaftWal
