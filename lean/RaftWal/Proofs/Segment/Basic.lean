/-
  Proofs/Segment/Basic.lean — arithmetic of the frame layout, model frames = README frames,
  header / frame-header round trips, generic list slicing helpers.
-/
import RaftWal.Model.SegmentRun
import RaftWal.Spec.Format
import RaftWal.Proofs.Bytes
namespace RaftWal

/-! ## list slicing -/

theorem take_app_len {α} (a b : List α) (n : Nat) (h : a.length = n) : (a ++ b).take n = a := by
  subst h; simp

theorem drop_app_len {α} (a b : List α) (n : Nat) (h : a.length = n) : (a ++ b).drop n = b := by
  subst h; simp

theorem readAt_app (pre x : Bytes) (off n : Nat) (h : pre.length = off) : readAt (pre ++ x) off n = x.take n := by
  unfold readAt; rw [drop_app_len _ _ _ h]

theorem take_app_ge {α} (a b : List α) (n : Nat) (h : a.length ≤ n) : (a ++ b).take n = a ++ b.take (n - a.length) := by
  rw [List.take_append, List.take_of_length_le h]

/-! ## arithmetic -/

theorem padLen_eq (n : Nat) : padLen n = Spec.roundUp8 n - n := by
  unfold padLen Spec.roundUp8 frameHeaderLen; omega

theorem roundUp8_ge (n : Nat) : n ≤ Spec.roundUp8 n := by unfold Spec.roundUp8; omega

theorem roundUp8_lt (n : Nat) : Spec.roundUp8 n < n + 8 := by unfold Spec.roundUp8; omega

theorem padLen_lt (n : Nat) : padLen n < 8 := by unfold padLen frameHeaderLen; omega

theorem encodedFrameSize_eq (n : Nat) : encodedFrameSize n = 8 + Spec.roundUp8 n := by
  unfold encodedFrameSize padLen Spec.roundUp8 frameHeaderLen; omega

theorem encodedFrameSize_dvd (n : Nat) : 8 ∣ encodedFrameSize n := by
  rw [encodedFrameSize_eq]; unfold Spec.roundUp8; omega

theorem encodedFrameSize_zero : encodedFrameSize 0 = 8 := by decide

/-! ## model = spec -/

theorem putLE_eq_le (n v : Nat) : putLE n v = Spec.le n v := by
  induction n generalizing v with
  | zero => rfl
  | succ n ih => simp only [putLE, Spec.le, ih]

theorem putLE_eq_le_fun (n : Nat) : putLE n = Spec.le n := funext (putLE_eq_le n)

@[simp] theorem le_length (n v : Nat) : (Spec.le n v).length = n := by
  rw [← putLE_eq_le]; simp

@[simp] theorem specFrameHeader_length (t v : Nat) : (Spec.frameHeader t v).length = 8 := by
  simp [Spec.frameHeader]

theorem fileHeader_eq (h : HdrInfo) : fileHeader h = Spec.header h.base h.id h.codec := by
  simp only [fileHeader, Spec.header, putLE_eq_le, magic, formatVersion]
  rfl

@[simp] theorem specHeader_length (b i c : Nat) : (Spec.header b i c).length = 32 := by
  simp [Spec.header]

theorem entryFrame_eq (p : Bytes) (h : p.length < 2^32) : entryFrame p = Spec.entryFrame p := by
  simp only [entryFrame, Spec.entryFrame, frameHeaderBytes, Spec.frameHeader, frameEntry, frameCommit,
    Nat.mod_eq_of_lt h, putLE_eq_le, padLen_eq, zeros]
  rfl

theorem commitFrame_eq (c : Nat) : commitFrame c = Spec.commitFrame c := by
  simp only [commitFrame, Spec.commitFrame, frameHeaderBytes, Spec.frameHeader, frameCommit, putLE_eq_le]
  rfl

theorem flatten_le4_length (os : List Nat) : ((os.map (Spec.le 4)).flatten).length = 4 * os.length := by
  induction os with
  | nil => rfl
  | cons o os ih => simp only [List.map_cons, List.flatten_cons, List.length_append, le_length, ih, List.length_cons]; omega

theorem indexFrame_eq (os : List Nat) (h : os ≠ []) : indexFrame os = Spec.indexFrame os := by
  have hl : os.length ≠ 0 := by
    intro h0; exact h (List.eq_nil_of_length_eq_zero h0)
  have hfl := flatten_le4_length os
  simp only [indexFrame, hl, if_false, Spec.indexFrame, frameHeaderBytes, Spec.frameHeader, frameIndex, frameCommit,
    indexPayload, putLE_eq_le, putLE_eq_le_fun, hfl]
  have h2 : (2:Nat) = 3 ↔ False := by decide
  simp only [h2, if_false, Nat.mul_comm os.length 4, List.append_assoc]
  congr 2
  by_cases hodd : os.length % 2 = 1
  · have : Spec.roundUp8 (4 * os.length) - 4 * os.length = 4 := by unfold Spec.roundUp8; omega
    simp only [hodd, if_true, this, zeros]
  · have : Spec.roundUp8 (4 * os.length) - 4 * os.length = 0 := by unfold Spec.roundUp8; omega
    simp only [hodd, if_false, this, List.replicate_zero]

/-! ## lengths of the spec frames -/

theorem specEntryFrame_length (p : Bytes) : (Spec.entryFrame p).length = encodedFrameSize p.length := by
  have := roundUp8_ge p.length
  simp only [Spec.entryFrame, List.length_append, specFrameHeader_length, List.length_replicate, encodedFrameSize_eq]
  omega

theorem specIndexFrame_length (os : List Nat) : (Spec.indexFrame os).length = encodedFrameSize (4 * os.length) := by
  have := roundUp8_ge (4 * os.length)
  simp only [Spec.indexFrame, List.length_append, specFrameHeader_length, List.length_replicate, encodedFrameSize_eq,
    flatten_le4_length]
  omega

@[simp] theorem specCommitFrame_length (c : Nat) : (Spec.commitFrame c).length = 8 := by
  simp [Spec.commitFrame]

theorem indexFrameSize_eq (os : List Nat) (h : os ≠ []) : indexFrameSize os.length = (Spec.indexFrame os).length := by
  have hl : os.length ≠ 0 := by
    intro h0; exact h (List.eq_nil_of_length_eq_zero h0)
  simp only [indexFrameSize, hl, if_false, specIndexFrame_length, Nat.mul_comm]

end RaftWal
