/-
  Proofs/Segment/Layout.lean — structure of the README layout (`Spec.layoutAcc`): explicit form of
  one batch, the list of frames it consists of, positions of the entry frames.
-/
import RaftWal.Proofs.Segment.Frames
namespace RaftWal
open Spec (Acc Batch addEntry addBatch)

/-! ## the three kinds of frames as generic frames -/

def Fr.entry (p : Bytes) : Fr := ⟨1, p.length, p ++ List.replicate (Spec.roundUp8 p.length - p.length) 0⟩
def Fr.index (os : List Nat) : Fr :=
  ⟨2, ((os.map (Spec.le 4)).flatten).length,
    (os.map (Spec.le 4)).flatten ++ List.replicate (Spec.roundUp8 ((os.map (Spec.le 4)).flatten).length - ((os.map (Spec.le 4)).flatten).length) 0⟩
def Fr.commit (c : Nat) : Fr := ⟨3, c, []⟩

theorem Fr.entry_enc (p : Bytes) : (Fr.entry p).enc = Spec.entryFrame p := by
  simp only [Fr.enc, Fr.entry, Spec.entryFrame, List.append_assoc]

theorem Fr.index_enc (os : List Nat) : (Fr.index os).enc = Spec.indexFrame os := by
  simp only [Fr.enc, Fr.index, Spec.indexFrame, List.append_assoc]

theorem Fr.commit_enc (c : Nat) : (Fr.commit c).enc = Spec.commitFrame c := by
  simp only [Fr.enc, Fr.commit, Spec.commitFrame, List.append_nil]

theorem Fr.entry_wf (p : Bytes) (h : p.length < 2^32) : (Fr.entry p).WF := by
  refine ⟨Or.inl rfl, h, ?_⟩
  have := roundUp8_ge p.length
  show (p ++ List.replicate (Spec.roundUp8 p.length - p.length) 0).length = Spec.roundUp8 p.length
  simp only [List.length_append, List.length_replicate]; omega

theorem Fr.index_wf (os : List Nat) (h : 4 * os.length < 2^32) : (Fr.index os).WF := by
  have hv : (Fr.index os).val = 4 * os.length := flatten_le4_length os
  refine ⟨Or.inr (Or.inl rfl), by rw [hv]; exact h, ?_⟩
  have := roundUp8_ge (4 * os.length)
  show ((os.map (Spec.le 4)).flatten ++ List.replicate _ 0).length = Spec.roundUp8 ((os.map (Spec.le 4)).flatten).length
  simp only [List.length_append, List.length_replicate, flatten_le4_length]; omega

theorem Fr.commit_wf (c : UInt32) : (Fr.commit c.toNat).WF := by
  refine ⟨Or.inr (Or.inr rfl), c.toNat_lt, ?_⟩
  simp [Fr.commit, Fr.len, Spec.roundUp8]

theorem Fr.entry_payload (p : Bytes) : (Fr.entry p).payload = p := by
  simp [Fr.payload, Fr.entry]

/-! ## entries of a batch -/

def offs (s : Nat) : List Bytes → List Nat
  | [] => []
  | p :: ps => s :: offs (s + encodedFrameSize p.length) ps

def encEntries : List Bytes → Bytes
  | [] => []
  | p :: ps => Spec.entryFrame p ++ encEntries ps

@[simp] theorem offs_length (s : Nat) (ps : List Bytes) : (offs s ps).length = ps.length := by
  induction ps generalizing s with
  | nil => rfl
  | cons p ps ih => simp [offs, ih]

theorem encEntries_append (a b : List Bytes) : encEntries (a ++ b) = encEntries a ++ encEntries b := by
  induction a with
  | nil => rfl
  | cons p ps ih => simp only [List.cons_append, encEntries, ih, List.append_assoc]

theorem encEntries_eq_encAll (ps : List Bytes) : encEntries ps = encAll (ps.map Fr.entry) := by
  induction ps with
  | nil => rfl
  | cons p ps ih => simp only [encEntries, List.map_cons, encAll, Fr.entry_enc, ih]

theorem foldl_addEntry (a : Acc) (ps : List Bytes) :
    ps.foldl addEntry a = { bytes := a.bytes ++ encEntries ps, offsets := a.offsets ++ offs a.bytes.length ps,
                            commitStart := a.commitStart } := by
  induction ps generalizing a with
  | nil => simp [encEntries, offs]
  | cons p ps ih =>
    simp only [List.foldl_cons, ih, addEntry, encEntries, offs, List.append_assoc, List.length_append,
      specEntryFrame_length, List.cons_append, List.nil_append]

theorem offs_bound (s : Nat) (ps : List Bytes) : ∀ o ∈ offs s ps, s ≤ o ∧ o + 8 ≤ s + (encEntries ps).length := by
  induction ps generalizing s with
  | nil => intro o h; simp [offs] at h
  | cons p ps ih =>
    intro o h
    simp only [offs, List.mem_cons] at h
    simp only [encEntries, List.length_append, specEntryFrame_length]
    have h8 : 8 ≤ encodedFrameSize p.length := by rw [encodedFrameSize_eq]; omega
    rcases h with h | h
    · subst h; omega
    · have := ih _ o h; omega

theorem encEntries_length_le (ps : List Bytes) : (encEntries ps).length ≤ (ps.map (fun p => 16 + p.length)).sum := by
  induction ps with
  | nil => simp [encEntries]
  | cons p ps ih =>
    have := roundUp8_lt p.length
    simp only [encEntries, List.length_append, specEntryFrame_length, List.map_cons, List.sum_cons, encodedFrameSize_eq]
    omega

theorem mem_length_le_encEntries (ps : List Bytes) : ∀ p ∈ ps, p.length + 8 ≤ (encEntries ps).length := by
  induction ps with
  | nil => intro p h; cases h
  | cons q ps ih =>
    intro p h
    simp only [encEntries, List.length_append, specEntryFrame_length, encodedFrameSize_eq]
    have := roundUp8_ge q.length
    rcases List.mem_cons.mp h with h | h
    · subst h; omega
    · have := ih p h; omega

/-! ## one batch, explicitly -/

def idxPart (sealing : Bool) (os : List Nat) : Bytes := if sealing then Spec.indexFrame os else []

/-- bytes of a batch before its commit frame -/
def batchBody (a : Acc) (b : Batch) : Bytes :=
  a.bytes ++ encEntries b.payloads ++ idxPart b.sealing (a.offsets ++ offs a.bytes.length b.payloads)

def batchCrc (a : Acc) (b : Batch) : UInt32 := crc32c ((batchBody a b).drop a.commitStart)

theorem addBatch_eq (a : Acc) (b : Batch) :
    addBatch a b = { bytes := batchBody a b ++ Spec.commitFrame (batchCrc a b).toNat,
                     offsets := a.offsets ++ offs a.bytes.length b.payloads,
                     commitStart := (batchBody a b).length + 8 } := by
  obtain ⟨ps, s⟩ := b
  cases s <;>
    simp [addBatch, foldl_addEntry, batchBody, batchCrc, idxPart] <;> omega

def batchFrames (a : Acc) (b : Batch) : List Fr :=
  b.payloads.map Fr.entry
    ++ ((if b.sealing then [Fr.index (a.offsets ++ offs a.bytes.length b.payloads)] else []) ++ [Fr.commit (batchCrc a b).toNat])

theorem addBatch_bytes (a : Acc) (b : Batch) : (addBatch a b).bytes = a.bytes ++ encAll (batchFrames a b) := by
  rw [addBatch_eq]
  simp only [batchBody, batchFrames, encAll_append, ← encEntries_eq_encAll, idxPart, List.append_assoc]
  cases b.sealing <;> simp [encAll, Fr.index_enc, Fr.commit_enc]

def allFrames (a : Acc) : List Batch → List Fr
  | [] => []
  | b :: bs => batchFrames a b ++ allFrames (addBatch a b) bs

theorem allFrames_append (a : Acc) (xs ys : List Batch) :
    allFrames a (xs ++ ys) = allFrames a xs ++ allFrames (xs.foldl addBatch a) ys := by
  induction xs generalizing a with
  | nil => rfl
  | cons b xs ih => simp only [List.cons_append, allFrames, ih, List.foldl_cons, List.append_assoc]

theorem foldl_addBatch_bytes (a : Acc) (bs : List Batch) :
    (bs.foldl addBatch a).bytes = a.bytes ++ encAll (allFrames a bs) := by
  induction bs generalizing a with
  | nil => simp [allFrames, encAll]
  | cons b bs ih => simp only [List.foldl_cons, ih, addBatch_bytes, allFrames, encAll_append, List.append_assoc]

end RaftWal
