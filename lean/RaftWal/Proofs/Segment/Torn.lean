/-
  Proofs/Segment/Torn.lean — helper lemmas for Proofs/SegmentTorn.lean: the power-loss image of an
  in-flight append chunk by chunk, the scan over torn frames, the recovery fold over a partial batch,
  `recoverTail` expressed through the scan result, the run invariant around the in-flight append.
-/
import RaftWal.Proofs.SegmentL1
namespace RaftWal
open Spec (Acc Batch addEntry addBatch)
/-! ## chunkwise masking of a byte string -/

/-- `O` sits at position `k` relative to the start of the write; byte `i` of it survives iff chunk
    `(k+i)/8` landed, otherwise the zero byte that was there before remains -/
def tornFrom (m : Nat → Bool) (k : Nat) (O : Bytes) : Bytes :=
  (O.zipIdx k).map fun x => if m (x.2 / 8) then x.1 else 0
@[simp] theorem tornFrom_length (m : Nat → Bool) (k : Nat) (O : Bytes) : (tornFrom m k O).length = O.length := by
  simp [tornFrom]
@[simp] theorem tornFrom_nil (m : Nat → Bool) (k : Nat) : tornFrom m k [] = [] := rfl
theorem tornFrom_cons (m : Nat → Bool) (k : Nat) (x : UInt8) (O : Bytes) :
    tornFrom m k (x :: O) = (if m (k / 8) then x else 0) :: tornFrom m (k + 1) O := by
  simp [tornFrom, List.zipIdx_cons]
theorem tornFrom_append (m : Nat → Bool) (k : Nat) (X Y : Bytes) :
    tornFrom m k (X ++ Y) = tornFrom m k X ++ tornFrom m (k + X.length) Y := by
  induction X generalizing k with
  | nil => simp
  | cons x X ih =>
    rw [List.cons_append, tornFrom_cons, tornFrom_cons, ih, List.cons_append, List.length_cons]
    congr 3; omega

theorem tornFrom_getElem? (m : Nat → Bool) (k : Nat) (O : Bytes) (i : Nat) :
    (tornFrom m k O)[i]? = (O[i]?).map fun x => if m ((k + i) / 8) then x else 0 := by
  induction O generalizing k i with
  | nil => simp
  | cons x O ih =>
    rw [tornFrom_cons]
    cases i with
    | zero => simp
    | succ i =>
      simp only [List.getElem?_cons_succ, ih]
      have : k + 1 + i = k + (i + 1) := by omega
      rw [this]

/-! ## the power-loss image -/

theorem tearImage_eq (P O : Bytes) (kb ka : Nat) (mask : Nat → Bool) :
    tearImage (P ++ zeros kb) (P ++ (O ++ zeros ka)) P.length O.length mask
      = P ++ (tornFrom mask 0 O ++ zeros ka) := by
  apply List.ext_getElem?
  intro i
  simp only [tearImage, List.getElem?_map, List.length_append, zeros_length]
  by_cases h1 : i < P.length
  · have : i < P.length + (O.length + ka) := by omega
    simp [List.getElem?_append_left, h1, this, List.getD_eq_getElem?_getD]
  · have h1' : P.length ≤ i := Nat.le_of_not_lt h1
    rw [List.getElem?_append_right h1']
    by_cases h2 : i < P.length + O.length
    · have hlt : i < P.length + (O.length + ka) := by omega
      have h3 : i - P.length < O.length := by omega
      rw [List.getElem?_range hlt]
      rw [List.getElem?_append_left (by simpa using h3), tornFrom_getElem?]
      simp only [Option.map_some, List.getD_eq_getElem?_getD, List.getElem?_append_right h1',
        List.getElem?_append_left h3, Nat.zero_add]
      rw [List.getElem?_eq_getElem h3]
      by_cases hm : mask ((i - P.length) / 8) = true
      · simp [hm, h1', h2]
      · simp only [hm, and_false, Bool.false_eq_true, if_false, zeros, List.getElem?_replicate, Option.map_some]
        split <;> rfl
    · have h2' : P.length + O.length ≤ i := Nat.le_of_not_lt h2
      rw [List.getElem?_append_right (by simpa using (by omega : O.length ≤ i - P.length))]
      by_cases h3 : i < P.length + (O.length + ka)
      · rw [List.getElem?_range h3]
        simp only [Option.map_some, tornFrom_length]
        have : ¬ (i < P.length + O.length) := h2
        simp only [this, false_and, and_false, if_false, List.getD_eq_getElem?_getD, List.getElem?_append_right h1', zeros, List.getElem?_replicate]
        have e1 : i - P.length - O.length < ka := by omega
        rw [if_pos e1]
        split <;> rfl
      · have : (List.range (P.length + (O.length + ka)))[i]? = none := by
          rw [List.getElem?_eq_none_iff]; simp; omega
        rw [this]
        simp [zeros, List.getElem?_replicate]; omega
theorem tornFrom_chunk (m : Nat → Bool) (k : Nat) (c : Bytes) (hc : c.length = 8) (hk : 8 ∣ k) :
    tornFrom m k c = if m (k / 8) then c else zeros 8 := by
  match c, hc with
  | [c0, c1, c2, c3, c4, c5, c6, c7], _ =>
    have e : ∀ j, j < 8 → (k + j) / 8 = k / 8 := fun j hj => by omega
    simp only [tornFrom_cons, tornFrom_nil, Nat.add_assoc]
    rw [e 1 (by omega), e (1+1) (by omega), e (1+(1+1)) (by omega), e (1+(1+(1+1))) (by omega),
      e (1+(1+(1+(1+1)))) (by omega), e (1+(1+(1+(1+(1+1))))) (by omega), e (1+(1+(1+(1+(1+(1+1)))))) (by omega)]
    by_cases h : m (k / 8) = true
    · simp [h]
    · simp [h, zeros, List.replicate]

/-! ## torn frames -/

/-- the frame as it is on disk when its header chunk landed: same header, body chunkwise torn -/
def Fr.torn (m : Nat → Bool) (k : Nat) (f : Fr) : Fr := ⟨f.typ, f.val, tornFrom m (k + 8) f.body⟩

def tornFrs (m : Nat → Bool) : Nat → List Fr → List Fr
  | _, [] => []
  | k, f :: fs => f.torn m k :: tornFrs m (k + f.enc.length) fs

theorem Fr.torn_fh (m : Nat → Bool) (k : Nat) (f : Fr) : (f.torn m k).fh = f.fh := rfl

theorem Fr.torn_enc_length (m : Nat → Bool) (k : Nat) (f : Fr) : (f.torn m k).enc.length = f.enc.length := by
  simp [Fr.enc, Fr.torn]

theorem Fr.torn_wf (m : Nat → Bool) (k : Nat) (f : Fr) (hf : f.WF) : (f.torn m k).WF :=
  ⟨hf.typ, hf.val, by
    have := hf.body
    simp only [Fr.torn, Fr.len, tornFrom_length] at this ⊢
    exact this⟩

theorem Fr.torn_nobody (m : Nat → Bool) (k : Nat) (f : Fr) (h : f.body = []) : f.torn m k = f := by
  obtain ⟨t, v, b⟩ := f
  simp only at h
  subst h; rfl

theorem offsetsOf_tornFrs (m : Nat → Bool) (k off : Nat) (fs : List Fr) :
    offsetsOf off (tornFrs m k fs) = offsetsOf off fs := by
  induction fs generalizing k off with
  | nil => rfl
  | cons f fs ih => simp only [tornFrs, offsetsOf, Fr.torn_fh, Fr.torn_enc_length, ih]

theorem tornFrs_wf (m : Nat → Bool) (k : Nat) (fs : List Fr) (h : ∀ f ∈ fs, f.WF) : ∀ f ∈ tornFrs m k fs, f.WF := by
  induction fs generalizing k with
  | nil => intro f hf; cases hf
  | cons g fs ih =>
    intro f hf
    simp only [tornFrs, List.mem_cons] at hf
    rcases hf with rfl | hf
    · exact Fr.torn_wf m k g (h g List.mem_cons_self)
    · exact ih _ (fun x hx => h x (List.mem_cons_of_mem _ hx)) f hf

theorem encAll_tornFrs_length (m : Nat → Bool) (k : Nat) (fs : List Fr) :
    (encAll (tornFrs m k fs)).length = (encAll fs).length := by
  induction fs generalizing k with
  | nil => rfl
  | cons f fs ih => simp only [tornFrs, encAll, List.length_append, Fr.torn_enc_length, ih]

theorem tornFrs_append (m : Nat → Bool) (k : Nat) (a b : List Fr) :
    tornFrs m k (a ++ b) = tornFrs m k a ++ tornFrs m (k + (encAll a).length) b := by
  induction a generalizing k with
  | nil => simp [tornFrs, encAll]
  | cons f fs ih => simp only [List.cons_append, tornFrs, encAll, ih, List.length_append, Nat.add_assoc]

theorem Fr.enc_dvd (f : Fr) (hf : f.WF) : 8 ∣ f.enc.length := by
  rw [Fr.enc_length f hf]; exact encodedFrameSize_dvd _

theorem tornFrom_enc (m : Nat → Bool) (k : Nat) (f : Fr) (hk : 8 ∣ k) :
    tornFrom m k f.enc = if m (k / 8) then (f.torn m k).enc else zeros 8 ++ tornFrom m (k + 8) f.body := by
  rw [Fr.enc, tornFrom_append, tornFrom_chunk m k _ (specFrameHeader_length _ _) hk, specFrameHeader_length]
  split <;> rfl

/-- a chunkwise torn frame sequence: either all header chunks landed (then it is a sequence of frames with the
    same headers), or the scan meets a zero header in front of frame `j` -/
theorem torn_frames (m : Nat → Bool) (fs : List Fr) (hwf : ∀ f ∈ fs, f.WF) (k : Nat) (hk : 8 ∣ k) :
    tornFrom m k (encAll fs) = encAll (tornFrs m k fs)
    ∨ ∃ j junk, j < fs.length ∧ tornFrom m k (encAll fs) = encAll (tornFrs m k (fs.take j)) ++ (zeros 8 ++ junk) := by
  induction fs generalizing k with
  | nil => left; rfl
  | cons f fs ih =>
    have hf := hwf f List.mem_cons_self
    have hfs : ∀ g ∈ fs, g.WF := fun g hg => hwf g (List.mem_cons_of_mem _ hg)
    have hk' : 8 ∣ k + f.enc.length := Nat.dvd_add hk (f.enc_dvd hf)
    rw [encAll, tornFrom_append, tornFrom_enc m k f hk]
    by_cases hm : m (k / 8) = true
    · rw [if_pos hm]
      rcases ih hfs _ hk' with h | ⟨j, junk, hj, h⟩
      · left; rw [h]; rfl
      · right
        refine ⟨j + 1, junk, by simp only [List.length_cons]; omega, ?_⟩
        rw [h, List.take_succ_cons, tornFrs, encAll, List.append_assoc]
    · rw [if_neg hm]
      right
      exact ⟨0, tornFrom m (k + 8) f.body ++ tornFrom m (k + f.enc.length) (encAll fs), by simp,
        by simp [tornFrs, encAll]⟩


/-! ## the scan stops at a zero header or at the end of the file -/

def StopTail (tail : Bytes) : Prop := tail.length < 8 ∨ tail.take 8 = zeros 8

theorem stopTail_zeros (k : Nat) : StopTail (zeros k) := by
  by_cases h : k < 8
  · left; simpa using h
  · right; simp only [zeros, List.take_replicate]; congr 1; omega

theorem stopTail_zeros8 (junk : Bytes) : StopTail (zeros 8 ++ junk) :=
  Or.inr (take_app_len _ _ 8 (by simp))

theorem scanFrames_stop (pre tail : Bytes) (fuel : Nat) (h : StopTail tail) :
    scanFrames (pre ++ tail) fuel pre.length = [] := by
  cases fuel with
  | zero => rfl
  | succ fuel =>
    rw [scanFrames, readAt_app _ _ _ _ rfl]
    rcases h with h | h
    · have : (tail.take frameHeaderLen).length < frameHeaderLen := by
        simp only [frameHeaderLen, List.length_take]; omega
      simp only [this, if_true]
    · have h' : tail.take frameHeaderLen = zeros 8 := h
      rw [h', readFrameHeader_zeros]
      simp [frameHeaderLen, frameInvalid]

theorem scan_stop (hd : Bytes) (hlen : hd.length = 32) (fs : List Fr) (hwf : ∀ f ∈ fs, f.WF) (tail : Bytes)
    (h : StopTail tail) :
    scanFrames (hd ++ (encAll fs ++ tail)) (scanFuel (hd ++ (encAll fs ++ tail))) fileHeaderLen
      = offsetsOf 32 fs := by
  have hge := encAll_length_ge fs
  have hfuel : scanFuel (hd ++ (encAll fs ++ tail))
      = (scanFuel (hd ++ (encAll fs ++ tail)) - fs.length) + fs.length := by
    simp only [scanFuel, List.length_append]; omega
  have h32 : fileHeaderLen = hd.length := by rw [hlen]; rfl
  rw [hfuel, h32, scanFrames_all fs hwf hd tail]
  have e : hd ++ (encAll fs ++ tail) = (hd ++ encAll fs) ++ tail := by simp only [List.append_assoc]
  have e2 : hd.length + (encAll fs).length = (hd ++ encAll fs).length := by rw [List.length_append]
  rw [e, e2, scanFrames_stop _ _ _ h, List.append_nil, hlen]

/-! ## the recovery fold over frames that are not commit frames -/

theorem recStep_noCommit (ra : RecAcc) (x : FrameHeader × Nat) (h : x.1.typ ≠ frameCommit) :
    (recStep ra x).commits = ra.commits ∧ ∃ extra, (recStep ra x).offsets = extra ++ ra.offsets := by
  obtain ⟨fh, off⟩ := x
  simp only at h
  simp only [recStep]
  split
  · exact ⟨rfl, [u32 off], rfl⟩
  · split
    · exact ⟨rfl, [], rfl⟩
    · exact ⟨rfl, [], rfl⟩

theorem foldl_recStep_noCommit (l : List (FrameHeader × Nat)) (ra : RecAcc) (h : ∀ x ∈ l, x.1.typ ≠ frameCommit) :
    (l.foldl recStep ra).commits = ra.commits ∧ ∃ extra, (l.foldl recStep ra).offsets = extra ++ ra.offsets := by
  induction l generalizing ra with
  | nil => exact ⟨rfl, [], rfl⟩
  | cons x l ih =>
    obtain ⟨h1, e1, h2⟩ := recStep_noCommit ra x (h x List.mem_cons_self)
    obtain ⟨h3, e2, h4⟩ := ih (recStep ra x) (fun y hy => h y (List.mem_cons_of_mem _ hy))
    rw [List.foldl_cons]
    exact ⟨h3.trans h1, e2 ++ e1, by rw [h4, h2, List.append_assoc]⟩

theorem mem_offsetsOf (off : Nat) (fs : List Fr) (x : FrameHeader × Nat) (h : x ∈ offsetsOf off fs) :
    ∃ f ∈ fs, x.1 = f.fh := by
  induction fs generalizing off with
  | nil => cases h
  | cons f fs ih =>
    simp only [offsetsOf, List.mem_cons] at h
    rcases h with rfl | h
    · exact ⟨f, List.mem_cons_self, rfl⟩
    · obtain ⟨g, hg, e⟩ := ih _ h
      exact ⟨g, List.mem_cons_of_mem _ hg, e⟩

theorem batchFrames_split (a : Acc) (b : Batch) :
    ∃ pre, batchFrames a b = pre ++ [Fr.commit (batchCrc a b).toNat] ∧ ∀ f ∈ pre, f.typ ≠ 3 := by
  refine ⟨b.payloads.map Fr.entry ++ (if b.sealing then [Fr.index (a.offsets ++ offs a.bytes.length b.payloads)] else []),
    by simp only [batchFrames, List.append_assoc], ?_⟩
  intro f hf
  rcases List.mem_append.mp hf with hf | hf
  · obtain ⟨p, _, rfl⟩ := List.mem_map.mp hf
    show (1 : Nat) ≠ 3; decide
  · split at hf
    · rw [List.mem_singleton.mp hf]; show (2 : Nat) ≠ 3; decide
    · cases hf

/-- the recovery fold over a proper prefix of the frames of a batch adds no commit -/
theorem foldl_recStep_partial (a : Acc) (b : Batch) (j : Nat) (hj : j < (batchFrames a b).length) (off : Nat) (ra : RecAcc) :
    ((offsetsOf off ((batchFrames a b).take j)).foldl recStep ra).commits = ra.commits
    ∧ ∃ extra, ((offsetsOf off ((batchFrames a b).take j)).foldl recStep ra).offsets = extra ++ ra.offsets := by
  obtain ⟨pre, hpre, hty⟩ := batchFrames_split a b
  apply foldl_recStep_noCommit
  intro x hx
  obtain ⟨f, hf, e⟩ := mem_offsetsOf _ _ x hx
  rw [hpre, List.length_append, List.length_singleton] at hj
  rw [hpre, List.take_append_of_le_length (by omega)] at hf
  rw [e, Fr.fh_typ]
  exact hty f (List.mem_of_mem_take hf)


/-! ## the recovery fold over a complete batch -/

theorem fold_batch_commit (A : Acc) (B : Batch) (ra1 : RecAcc) (h : RecRel A ra1) :
    ∃ c' extra,
      ((offsetsOf A.bytes.length (batchFrames A B)).foldl recStep ra1).commits = c' :: ra1.commits
      ∧ ((offsetsOf A.bytes.length (batchFrames A B)).foldl recStep ra1).offsets = extra ++ ra1.offsets
      ∧ c'.crcStart = A.commitStart
      ∧ c'.offset + 8 = (addBatch A B).bytes.length
      ∧ c'.offsetsLen ≤ ((offsetsOf A.bytes.length (batchFrames A B)).foldl recStep ra1).offsets.length
      ∧ ∀ tail, commitValid ((addBatch A B).bytes ++ tail) c' = true := by
  rw [foldl_recStep_batch]
  refine ⟨_, _, rfl, rfl, h.cs, (addBatch_length A B).symm, ?_, ?_⟩
  · simp
  · intro tail
    rw [h.cs]
    exact commitValid_layout A B h.csle tail

theorem fold_layout_last (a0 : Acc) (h0 : RecRel a0 {}) (xs : List Batch) (lb : Batch)
    (hlt : ((xs ++ [lb]).foldl addBatch a0).bytes.length < 2^32) :
    ∃ c1 rest,
      ((offsetsOf a0.bytes.length (allFrames a0 (xs ++ [lb]))).foldl recStep {}).commits = c1 :: rest
      ∧ c1.offset + 8 = ((xs ++ [lb]).foldl addBatch a0).bytes.length
      ∧ c1.offsetsLen ≤ ((offsetsOf a0.bytes.length (allFrames a0 (xs ++ [lb]))).foldl recStep {}).offsets.length
      ∧ ∀ tail, commitValid (((xs ++ [lb]).foldl addBatch a0).bytes ++ tail) c1 = true := by
  have hlt1 : (xs.foldl addBatch a0).bytes.length < 2^32 := by
    rw [List.foldl_append] at hlt
    exact Nat.lt_of_le_of_lt (foldl_addBatch_length_ge _ [lb]) hlt
  have hrel1 := h0.foldl xs hlt1
  obtain ⟨c', extra, h1, _, _, h4, h5, h6⟩ := fold_batch_commit (xs.foldl addBatch a0) lb _ hrel1
  have e : (offsetsOf a0.bytes.length (allFrames a0 (xs ++ [lb]))).foldl recStep {}
      = (offsetsOf (xs.foldl addBatch a0).bytes.length (batchFrames (xs.foldl addBatch a0) lb)).foldl recStep
          ((offsetsOf a0.bytes.length (allFrames a0 xs)).foldl recStep {}) := by
    rw [allFrames_append, offsetsOf_append, List.foldl_append, foldl_addBatch_bytes a0 xs, List.length_append]
    simp [allFrames]
  rw [e, List.foldl_append]
  exact ⟨c', _, h1, h4, h5, h6⟩

/-! ## `recoverTail` from the scan result -/

/-- the writer recovery builds from the offsets seen and the commit it settles on -/
def recW (info : SegInfo) (offsets : List Nat) (c : CommitInfo) : Writer :=
  { Writer.fresh info with
      writeOffset := u32 (c.offset + frameHeaderLen), indexStart := c.indexStart,
      offsets := offsets.take c.offsetsLen,
      commitIdx := commitIdxOf info.base (offsets.take c.offsetsLen) }

/-- what `recoverTail` knows of the file after its scan -/
def scanFold (file : Bytes) : RecAcc := (scanFrames file (scanFuel file) fileHeaderLen).foldl recStep {}

theorem recoverTail_some (info : SegInfo) (file : Bytes) (ra : RecAcc) (c : CommitInfo)
    (h1 : scanFold file = ra)
    (hc : ra.commits.find? (commitValid file) = some c) :
    recoverTail info file =
      if validateFileHeader (scanHeader file) info.hdr
      then .ok (recW info ra.offsets.reverse c, clearStale file (u32 (c.offset + frameHeaderLen)))
      else .error .corrupt := by
  simp only [scanFold] at h1
  simp only [recoverTail, readThroughSegment, h1, hc, recW]

theorem recoverTail_none (info : SegInfo) (file : Bytes) (ra : RecAcc)
    (h1 : scanFold file = ra)
    (hc : ra.commits.find? (commitValid file) = none) :
    recoverTail info file = .ok ((Writer.fresh info).initEmpty, clearStale file 0) := by
  simp only [scanFold] at h1
  simp only [recoverTail, readThroughSegment, h1, hc]

theorem recW_offsets_ext (info : SegInfo) (extra offs : List Nat) (c : CommitInfo) (h : c.offsetsLen ≤ offs.length) :
    recW info (extra ++ offs).reverse c = recW info offs.reverse c := by
  have : (extra ++ offs).reverse.take c.offsetsLen = offs.reverse.take c.offsetsLen := by
    rw [List.reverse_append, List.take_append_of_le_length (by simpa using h)]
  simp only [recW, this]


/-! ## the scan and the recovery fold over a layout followed by a torn batch -/

theorem scanFold_frames (hd : Bytes) (hlen : hd.length = 32) (F0 gs : List Fr) (hwf0 : ∀ f ∈ F0, f.WF)
    (hwfg : ∀ f ∈ gs, f.WF) (tail : Bytes) (h : StopTail tail) :
    scanFold (hd ++ (encAll F0 ++ (encAll gs ++ tail)))
      = (offsetsOf (32 + (encAll F0).length) gs).foldl recStep ((offsetsOf 32 F0).foldl recStep {}) := by
  have hwf : ∀ f ∈ F0 ++ gs, f.WF := fun f hf => (List.mem_append.mp hf).elim (hwf0 f) (hwfg f)
  have := scan_stop hd hlen (F0 ++ gs) hwf tail h
  rw [encAll_append, List.append_assoc] at this
  rw [scanFold, this, offsetsOf_append, List.foldl_append]

theorem torn_scan (a0 : Acc) (h0 : a0.bytes.length = 32) (xs : List Batch) (B : Batch)
    (hlt : ((xs ++ [B]).foldl addBatch a0).bytes.length < 2^32)
    (hd : Bytes) (hdlen : hd.length = 32) (m : Nat → Bool) (k : Nat) (hk : 8 ∣ k) (k' : Nat)
    (ra1 : RecAcc) (hra1 : (offsetsOf 32 (allFrames a0 xs)).foldl recStep {} = ra1)
    (hrel : RecRel (xs.foldl addBatch a0) ra1) :
    (∃ ra extra,
      scanFold (hd ++ (encAll (allFrames a0 xs) ++ (tornFrom m k (encAll (batchFrames (xs.foldl addBatch a0) B)) ++ zeros k'))) = ra
      ∧ ra.commits = ra1.commits ∧ ra.offsets = extra ++ ra1.offsets)
    ∨ (∃ ra extra c',
      scanFold (hd ++ (encAll (allFrames a0 xs) ++ (tornFrom m k (encAll (batchFrames (xs.foldl addBatch a0) B)) ++ zeros k'))) = ra
      ∧ ra.commits = c' :: ra1.commits ∧ ra.offsets = extra ++ ra1.offsets
      ∧ c'.crcStart = (xs.foldl addBatch a0).commitStart
      ∧ c'.offset + 8 = (addBatch (xs.foldl addBatch a0) B).bytes.length
      ∧ c'.offsetsLen ≤ ra.offsets.length
      ∧ (∀ tail, commitValid ((addBatch (xs.foldl addBatch a0) B).bytes ++ tail) c' = true)
      ∧ scanFold (a0.bytes ++ (encAll (allFrames a0 xs) ++ (encAll (batchFrames (xs.foldl addBatch a0) B) ++ zeros k'))) = ra
      ∧ ∃ X, X.length + 8 = (encAll (batchFrames (xs.foldl addBatch a0) B)).length
          ∧ tornFrom m k (encAll (batchFrames (xs.foldl addBatch a0) B))
              = X ++ (encAll (batchFrames (xs.foldl addBatch a0) B)).drop X.length) := by
  generalize hA : xs.foldl addBatch a0 = A at *
  have hwf : ∀ f ∈ allFrames a0 (xs ++ [B]), f.WF := allFrames_wf a0 _ hlt
  rw [allFrames_append, hA] at hwf
  have hwf0 : ∀ f ∈ allFrames a0 xs, f.WF := fun f hf => hwf f (List.mem_append_left _ hf)
  have hwfs : ∀ f ∈ batchFrames A B, f.WF := fun f hf => hwf f (List.mem_append_right _ (by simpa [allFrames] using hf))
  have hAlen : 32 + (encAll (allFrames a0 xs)).length = A.bytes.length := by
    rw [← hA, foldl_addBatch_bytes, List.length_append, h0]
  rcases torn_frames m (batchFrames A B) hwfs k hk with h | ⟨j, junk, hj, h⟩
  · right
    obtain ⟨c', extra, h1, h2, h3, h4, h5, h6⟩ := fold_batch_commit A B ra1 hrel
    refine ⟨_, extra, c', rfl, ?_, ?_, h3, h4, ?_, h6, ?_, ?_⟩
    · rw [h, scanFold_frames hd hdlen _ _ hwf0 (tornFrs_wf m k _ hwfs) _ (stopTail_zeros k'), offsetsOf_tornFrs, hra1, hAlen]
      exact h1
    · rw [h, scanFold_frames hd hdlen _ _ hwf0 (tornFrs_wf m k _ hwfs) _ (stopTail_zeros k'), offsetsOf_tornFrs, hra1, hAlen]
      exact h2
    · rw [h, scanFold_frames hd hdlen _ _ hwf0 (tornFrs_wf m k _ hwfs) _ (stopTail_zeros k'), offsetsOf_tornFrs, hra1, hAlen]
      exact h5
    · rw [h, scanFold_frames hd hdlen _ _ hwf0 (tornFrs_wf m k _ hwfs) _ (stopTail_zeros k'), offsetsOf_tornFrs, hra1, hAlen,
        scanFold_frames a0.bytes h0 _ _ hwf0 hwfs _ (stopTail_zeros k'), hra1, hAlen]
    · obtain ⟨pre, hpre, _⟩ := batchFrames_split A B
      refine ⟨encAll (tornFrs m k pre), ?_, ?_⟩
      · rw [hpre, encAll_append, List.length_append, encAll_tornFrs_length]
        simp [encAll, Fr.enc, Fr.commit]
      · rw [h, hpre, tornFrs_append, encAll_append, encAll_append, encAll_tornFrs_length,
          drop_app_len _ _ _ rfl]
        congr 1
  · left
    have hwfj : ∀ f ∈ tornFrs m k ((batchFrames A B).take j), f.WF :=
      tornFrs_wf m k _ (fun f hf => hwfs f (List.mem_of_mem_take hf))
    obtain ⟨h1, extra, h2⟩ := foldl_recStep_partial A B j hj A.bytes.length ra1
    refine ⟨_, extra, rfl, ?_, ?_⟩
    · rw [h, List.append_assoc, List.append_assoc, scanFold_frames hd hdlen _ _ hwf0 hwfj _ (stopTail_zeros8 _),
        offsetsOf_tornFrs, hra1, hAlen]
      exact h1
    · rw [h, List.append_assoc, List.append_assoc, scanFold_frames hd hdlen _ _ hwf0 hwfj _ (stopTail_zeros8 _),
        offsetsOf_tornFrs, hra1, hAlen]
      exact h2

/-! ## the two ways recovery can see the image -/

theorem commitValid_crc (f g : Bytes) (c : CommitInfo) (hf : commitValid f c = true) (hg : commitValid g c = true) :
    crc32c (readAt f c.crcStart (c.offset - c.crcStart)) = crc32c (readAt g c.crcStart (c.offset - c.crcStart)) := by
  simp only [commitValid, decide_eq_true_eq] at hf hg
  exact UInt32.toNat_inj.mp (hf.2.trans hg.2.symm)

/-- the two ways recovery can see the image: it settles on a commit of the acknowledged run (the in-flight
    commit frame was not reached or does not validate), or on the in-flight commit, which then validates for
    the image and for the complete file alike -/
theorem torn_cases (a0 : Acc) (h0 : a0.bytes.length = 32) (xs : List Batch) (B : Batch)
    (hlt : ((xs ++ [B]).foldl addBatch a0).bytes.length < 2^32)
    (hd : Bytes) (hdlen : hd.length = 32) (m : Nat → Bool) (k : Nat) (hk : 8 ∣ k) (k' : Nat)
    (ra1 : RecAcc) (hra1 : (offsetsOf 32 (allFrames a0 xs)).foldl recStep {} = ra1)
    (hrel : RecRel (xs.foldl addBatch a0) ra1)
    (img file' : Bytes)
    (himg : img = hd ++ (encAll (allFrames a0 xs) ++ (tornFrom m k (encAll (batchFrames (xs.foldl addBatch a0) B)) ++ zeros k')))
    (hfile' : file' = (addBatch (xs.foldl addBatch a0) B).bytes ++ zeros k') :
    (∃ extra, (scanFold img).offsets = extra ++ ra1.offsets
      ∧ (scanFold img).commits.find? (commitValid img) = ra1.commits.find? (commitValid img))
    ∨ (∃ c', scanFold file' = scanFold img
      ∧ (scanFold img).commits.find? (commitValid img) = some c'
      ∧ (scanFold img).commits.find? (commitValid file') = some c'
      ∧ c'.offset + 8 = (addBatch (xs.foldl addBatch a0) B).bytes.length
      ∧ crc32c (readAt img (xs.foldl addBatch a0).commitStart
            ((addBatch (xs.foldl addBatch a0) B).bytes.length - 8 - (xs.foldl addBatch a0).commitStart))
          = crc32c (readAt file' (xs.foldl addBatch a0).commitStart
            ((addBatch (xs.foldl addBatch a0) B).bytes.length - 8 - (xs.foldl addBatch a0).commitStart))
      ∧ ∃ X, X.length + 8 = (encAll (batchFrames (xs.foldl addBatch a0) B)).length
          ∧ tornFrom m k (encAll (batchFrames (xs.foldl addBatch a0) B))
              = X ++ (encAll (batchFrames (xs.foldl addBatch a0) B)).drop X.length) := by
  have hf' : file' = a0.bytes ++ (encAll (allFrames a0 xs) ++ (encAll (batchFrames (xs.foldl addBatch a0) B) ++ zeros k')) := by
    rw [hfile', addBatch_bytes, foldl_addBatch_bytes]; simp only [List.append_assoc]
  rcases torn_scan a0 h0 xs B hlt hd hdlen m k hk k' ra1 hra1 hrel with
    ⟨ra, extra, h1, h2, h3⟩ | ⟨ra, extra, c', h1, h2, h3, h4, h5, h6, h7, h8, h9⟩
  · left
    rw [← himg] at h1
    exact ⟨extra, by rw [h1, h3], by rw [h1, h2]⟩
  · rw [← himg] at h1
    rw [← hf'] at h8
    by_cases hv : commitValid img c' = true
    · right
      have hv' : commitValid file' c' = true := by rw [hfile']; exact h7 _
      refine ⟨c', h8.trans h1.symm, ?_, ?_, h5, ?_, h9⟩
      · rw [h1, h2]; exact List.find?_cons_of_pos hv
      · rw [h1, h2]; exact List.find?_cons_of_pos hv'
      · have := commitValid_crc img file' c' hv hv'
        rw [h4] at this
        have e : c'.offset = (addBatch (xs.foldl addBatch a0) B).bytes.length - 8 := by omega
        rwa [e] at this
    · left
      exact ⟨extra, by rw [h1, h3], by rw [h1, h2]; exact List.find?_cons_of_neg hv⟩

/-! ## the run around the in-flight append -/

theorem writeAt_length_ge (file : Bytes) (off : Nat) (p : Bytes) : file.length ≤ (writeAt file off p).length := by
  unfold writeAt
  split <;> simp only [List.length_append, List.length_take, List.length_drop, zeros_length] <;> omega

theorem append_length_le (w : Writer) (file : Bytes) (entries : List (Nat × Bytes)) :
    file.length ≤ (w.append file entries .none).2.2.length := by
  rw [Writer.append]
  split
  · exact Nat.le_refl _
  · split
    · exact Nat.le_refl _
    · split
      · exact Nat.le_refl _
      · rename_i w1 _
        generalize (if w1.needSeal = true then w1.appendIndex else Except.ok w1) = r
        cases r with
        | error e => exact Nat.le_refl _
        | ok w2 => exact writeAt_length_ge _ _ _

theorem append_none_length_le (w : Writer) (file : Bytes) (entries : List (Nat × Bytes)) (w' : Writer) (file' : Bytes)
    (h : w.append file entries .none = (none, w', file')) : file.length ≤ file'.length := by
  have := append_length_le w file entries
  rwa [h] at this

theorem appendAll_append (w : Writer) (file : Bytes) (next : Nat) (bs : List (List Bytes)) (w1 : Writer) (f1 : Bytes)
    (b : List Bytes) (w' : Writer) (file' : Bytes)
    (h1 : w.appendAll file next bs = some (w1, f1))
    (h2 : w1.append f1 (indexBatch (next + bs.flatten.length) b) .none = (none, w', file')) :
    w.appendAll file next (bs ++ [b]) = some (w', file') := by
  induction bs generalizing w file next with
  | nil =>
    simp only [Writer.appendAll, Option.some.injEq, Prod.mk.injEq] at h1
    obtain ⟨rfl, rfl⟩ := h1
    simp only [List.flatten_nil, List.length_nil, Nat.add_zero] at h2
    simp only [List.nil_append, Writer.appendAll, h2]
  | cons c bs ih =>
    obtain ⟨w2, f2, h3, h4⟩ := appendAll_cons_some w file next c bs _ h1
    rw [List.cons_append, Writer.appendAll, h3]
    simp only
    apply ih w2 f2 _ h4
    rw [List.flatten_cons, List.length_append, ← Nat.add_assoc] at h2
    exact h2

theorem RunWF.init {info : SegInfo} {bs : List (List Bytes)} {b : List Bytes} (h : RunWF info (bs ++ [b])) :
    RunWF info bs := by
  refine ⟨fun x hx => h.nonempty x (List.mem_append_left _ hx), h.base_lt, h.id_lt, h.codec_lt, h.limit_lt, ?_⟩
  have := h.size_lt
  simp only [runBytesBound, List.map_append, List.sum_append] at this ⊢
  omega

theorem sb_false (bs : List (List Bytes)) : sb false bs = bs.map (fun b => (⟨b, false⟩ : Batch)) := by
  induction bs with
  | nil => rfl
  | cons b x ih =>
    cases x with
    | nil => rfl
    | cons b' r => rw [sb, ih]; rfl

theorem append_none_unsealed (w : Writer) (file : Bytes) (next : Nat) (ps : List Bytes) (hps : ps ≠ []) (w' : Writer) (file' : Bytes)
    (h : w.append file (indexBatch next ps) .none = (none, w', file')) : w.indexStart = 0 := by
  by_cases h0 : w.indexStart > 0
  · rw [append_sealed w file ps next h0 hps] at h; cases h
  · omega


/-- the layout accumulator before the first batch -/
def acc0 (info : SegInfo) : Acc := ⟨Spec.header info.base info.id info.codec, [], 0⟩

/-- the acknowledged batches: none of them sealed -/
def ackBatches (bs : List (List Bytes)) : List Batch := bs.map (fun b => (⟨b, false⟩ : Batch))

/-- everything the run invariant says about the states before and after the in-flight append -/
theorem torn_setup (info : SegInfo) (bs : List (List Bytes)) (b : List Bytes)
    (hwf : RunWF info (bs ++ [b]))
    (w : Writer) (file : Bytes)
    (hrun : (freshSegment info).1.appendAll (freshSegment info).2 info.base bs = some (w, file))
    (w' : Writer) (file' : Bytes)
    (happ : w.append file (indexBatch (info.base + bs.flatten.length) b) .none = (none, w', file')) :
    ∃ s : Bool,
      Inv info w file ((ackBatches bs).foldl addBatch (acc0 info))
      ∧ Inv info w' file' (addBatch ((ackBatches bs).foldl addBatch (acc0 info)) ⟨b, s⟩)
      ∧ w'.commitBuf = []
      ∧ ((ackBatches bs ++ [(⟨b, s⟩ : Batch)]).foldl addBatch (acc0 info)).bytes.length < 2^32
      ∧ (bs ≠ [] → w.commitBuf = [])
      ∧ file.length ≤ file'.length
      ∧ (freshSegment info).1.appendAll (freshSegment info).2 info.base (bs ++ [b]) = some (w', file') := by
  have hb : b ≠ [] := hwf.nonempty b (List.mem_append_right _ List.mem_cons_self)
  have hidx : w.indexStart = 0 := append_none_unsealed w file _ b hb w' file' happ
  have hrun' := appendAll_append _ _ _ bs w file b w' file' hrun happ
  obtain ⟨h1, h2, _, _⟩ := run_summary info bs hwf.init w file hrun
  obtain ⟨h1', h2', _, h4'⟩ := run_summary info (bs ++ [b]) hwf w' file' hrun'
  have e0 : decide (w.indexStart > 0) = false := by rw [hidx]; rfl
  rw [specBatches_eq_sb, e0, sb_false, Spec.layoutAcc] at h1
  rw [specBatches_eq_sb, sb_concat, Spec.layoutAcc] at h1' h4'
  refine ⟨decide (w'.indexStart > 0), h1, ?_, (h2' (by simp)).1, h4', fun hne => (h2 hne).1,
    append_none_length_le _ _ _ _ _ happ, hrun'⟩
  rw [List.foldl_append] at h1'
  exact h1'


theorem tearImage_eq' (before after P O : Bytes) (kb ka off len : Nat) (mask : Nat → Bool)
    (hb : before = P ++ zeros kb) (ha : after = P ++ (O ++ zeros ka)) (ho : off = P.length) (hl : len = O.length) :
    tearImage before after off len mask = P ++ (tornFrom mask 0 O ++ zeros ka) := by
  subst hb ha ho hl; exact tearImage_eq P O kb ka mask

/-- the power-loss image: the acknowledged prefix, the written range chunkwise torn, zeros -/
theorem torn_image {info : SegInfo} {w w' : Writer} {file file' : Bytes} {A A' : Acc} (E : Bytes)
    (h : Inv info w file A) (h' : Inv info w' file' A') (hcb : w'.commitBuf = []) (hA' : A'.bytes = A.bytes ++ E)
    (mask : Nat → Bool) :
    ∃ k' kb, file' = A'.bytes ++ zeros k'
      ∧ file = file.take w.writeOffset ++ zeros kb
      ∧ tearImage file file' w.writeOffset (w'.writeOffset - w.writeOffset) mask
          = file.take w.writeOffset ++ (tornFrom mask 0 (w.commitBuf ++ E) ++ zeros k') := by
  obtain ⟨k', hk'⟩ := file_eq_of_inv h' hcb
  have hP : (file.take w.writeOffset).length = w.writeOffset := by
    rw [List.length_take, Nat.min_eq_left h.wo]
  have hfile : file = file.take w.writeOffset ++ zeros (file.length - w.writeOffset) := by
    have hz : file.drop w.writeOffset = zeros (file.length - w.writeOffset) :=
      List.eq_replicate_iff.mpr ⟨by simp, h.zeros⟩
    rw [← hz, List.take_append_drop]
  have hlen' := h'.bytes_length
  rw [hcb, List.length_nil, Nat.add_zero, hA', List.length_append, h.bytes_length] at hlen'
  refine ⟨k', _, hk', hfile, ?_⟩
  apply tearImage_eq' _ _ _ _ (file.length - w.writeOffset) k' _ _ mask hfile
  · rw [hk', hA', h.bytes]; simp only [List.append_assoc]
  · exact hP.symm
  · rw [List.length_append]; omega


theorem untorn_ok {info : SegInfo} {file : Bytes} {o : WriterObs}
    (h : ((recoverTail info file).toOption.map (fun p => p.1.obs)) = some o
      ∧ ((recoverTail info file).toOption.map (·.2)) = some file) :
    ∃ wr, recoverTail info file = .ok (wr, file) ∧ wr.obs = o := by
  cases hr : recoverTail info file with
  | error e => rw [hr] at h; simp [Except.toOption] at h
  | ok p =>
    obtain ⟨wr, f⟩ := p
    rw [hr] at h
    simp only [Except.toOption, Option.map_some, Option.some.injEq] at h
    exact ⟨wr, by rw [h.2], h.1⟩

theorem eq_of_take_drop {α} (a b : List α) (n : Nat) (h1 : a.take n = b.take n) (h2 : a.drop n = b.drop n) : a = b := by
  rw [← List.take_append_drop n a, h1, h2, List.take_append_drop]

/-- if all header chunks and the commit chunk landed and the batch region is the intended one, the image is complete -/
theorem torn_region_eq (P cb E X : Bytes) (mask : Nat → Bool) (k' : Nat) (hX1 : X.length + 8 = E.length)
    (hX2 : tornFrom mask cb.length E = X ++ E.drop X.length)
    (img file' : Bytes) (himg : img = P ++ (tornFrom mask 0 (cb ++ E) ++ zeros k'))
    (hf' : file' = P ++ ((cb ++ E) ++ zeros k'))
    (hreg : readAt img P.length ((P.length + (cb ++ E).length) - 8 - P.length) = readAt file' P.length ((P.length + (cb ++ E).length) - 8 - P.length)) :
    img = file' := by
  rw [himg, hf']
  congr 2
  have hn : P.length + (cb ++ E).length - 8 - P.length = cb.length + X.length := by
    rw [List.length_append]; omega
  rw [hn, himg, hf', readAt_app _ _ _ _ rfl, readAt_app _ _ _ _ rfl,
    List.take_append_of_le_length (by simp; omega), List.take_append_of_le_length (by simp; omega)] at hreg
  apply eq_of_take_drop _ _ (cb.length + X.length) hreg
  rw [tornFrom_append, Nat.zero_add, hX2, ← List.append_assoc, drop_app_len _ _ _ (by simp),
    ← List.drop_drop, drop_app_len _ _ _ rfl]

theorem clearStale_self (Y : Bytes) (k n : Nat) (h : Y.length = n) : clearStale (Y ++ zeros k) n = Y ++ zeros k := by
  subst h; simp [clearStale, zeros]

theorem clearStale_before (P Z file : Bytes) (n kb : Nat) (hP : P.length = n) (hfile : file = P ++ zeros kb)
    (hlen : file.length ≤ (P ++ Z).length) :
    clearStale (P ++ Z) n = file ++ zeros ((P ++ Z).length - file.length) := by
  subst hP hfile
  simp only [List.length_append, zeros_length] at hlen
  simp only [clearStale, List.take_left', List.length_append, zeros_length, List.append_assoc]
  congr 1
  simp only [zeros, List.replicate_append_replicate]
  congr 1; omega


/-- recovery settles on the in-flight commit -/
theorem torn_after (info : SegInfo) (o' : WriterObs) (img file' : Bytes) (c' : CommitInfo) (wo wo' : Nat)
    (hU' : ∃ wr, recoverTail info file' = .ok (wr, file') ∧ wr.obs = o')
    (hsf : scanFold file' = scanFold img)
    (hfi : (scanFold img).commits.find? (commitValid img) = some c')
    (hff' : (scanFold img).commits.find? (commitValid file') = some c')
    (hoff : c'.offset + 8 = wo') (hlt : wo' < 2^32)
    (hv' : validateFileHeader (scanHeader file') info.hdr = true)
    (hcl : clearStale img wo' = img)
    (hcrc : crc32c (readAt img wo (wo' - 8 - wo)) = crc32c (readAt file' wo (wo' - 8 - wo)))
    (heq : readAt img wo (wo' - 8 - wo) = readAt file' wo (wo' - 8 - wo) → img = file') :
    (∃ wr img', recoverTail info img = .ok (wr, img') ∧ wr.obs = o' ∧ img' = img ∧
        (img = file' ∨ (readAt img wo (wo' - 8 - wo) ≠ readAt file' wo (wo' - 8 - wo)
          ∧ crc32c (readAt img wo (wo' - 8 - wo)) = crc32c (readAt file' wo (wo' - 8 - wo)))))
    ∨ (recoverTail info img = .error .corrupt ∧ validateFileHeader (scanHeader img) info.hdr = false
        ∧ readAt img wo (wo' - 8 - wo) ≠ readAt file' wo (wo' - 8 - wo)
        ∧ crc32c (readAt img wo (wo' - 8 - wo)) = crc32c (readAt file' wo (wo' - 8 - wo))) := by
  obtain ⟨wr, h1, h2⟩ := hU'
  by_cases hreg : readAt img wo (wo' - 8 - wo) = readAt file' wo (wo' - 8 - wo)
  · have := heq hreg
    subst this
    exact Or.inl ⟨wr, img, h1, h2, rfl, Or.inl rfl⟩
  · have hr' := recoverTail_some info file' _ c' hsf hff'
    rw [if_pos hv', h1] at hr'
    injection hr' with hr'
    injection hr' with hwr _
    have hu : u32 (c'.offset + frameHeaderLen) = wo' := by
      rw [← hoff]; exact Nat.mod_eq_of_lt (by rw [frameHeaderLen, hoff]; exact hlt)
    have hr := recoverTail_some info img _ c' rfl hfi
    rw [hu, hcl] at hr
    by_cases hv : validateFileHeader (scanHeader img) info.hdr = true
    · rw [if_pos hv] at hr
      exact Or.inl ⟨_, img, hr, by rw [← hwr]; exact h2, rfl, Or.inr ⟨hreg, hcrc⟩⟩
    · rw [if_neg hv] at hr
      exact Or.inr ⟨hr, by simpa using hv, hreg, hcrc⟩


theorem header_valid (info : SegInfo) (hwf : info.base < 2^64 ∧ info.id < 2^64 ∧ info.codec < 2^64) (rest : Bytes) :
    validateFileHeader (scanHeader ((acc0 info).bytes ++ rest)) info.hdr = true := by
  rw [acc0, scanHeader_specHeader _ _ _ hwf.1 hwf.2.1 hwf.2.2]
  simp [validateFileHeader, SegInfo.hdr]

end RaftWal
