/-
  Proofs/WalInv2.lean — further invariants of the sequential WAL model over all runs:
  C13 (directory = live segments, segment IDs never reused), C08 (StableStore is a map isolated from
  the log), C20 (counters equal the true totals).  STATEMENTS FIRST.

  Proof: one combined invariant `Inv2` (Proofs/WalInv2Lemmas6.lean) = the simulation relation `Sim` of C05
  (reused as is) ∧ the directory invariant `DirEq` (Proofs/WalInv2Lemmas1.lean; stronger than `DirExact`:
  the (id, base) lists of directory and segment map are *equal*, not just permutations of each other)
  ∧ counters = true totals (the two uint64 truncation counters modulo 2^64) ∧ stable map = reference map
  ∧ `closed` flag = reference flag.  It holds initially (`inv2_init`) and is preserved by every call of
  the extended language (`inv2_step`).  The directory/ids part is independent of the simulation relation:
  it holds from *any* state (`xstep_ext_dir`, Proofs/WalInv2Lemmas2–4.lean).
-/
import RaftWal.Model.WalRunX
import RaftWal.Proofs.WalRefine
import RaftWal.Proofs.WalInv2Lemmas6
import RaftWal.Proofs.Bytes
namespace RaftWal

/-- the directory holds exactly the files of the live segments: same (id, base) pairs, ids pairwise distinct and
    all below `nextID` -/
def DirExact (w : Wal) : Prop :=
  (w.files.map (fun f => (f.id, f.base))).Perm (w.segs.map (fun s => (s.1.id, s.1.base))) ∧
  (w.segs.map (fun s => s.1.id)).Nodup ∧ (∀ s ∈ w.segs, s.1.id < w.nextID)

/-- the invariant carried through the proofs implies `DirExact` (and moreover: same order) -/
theorem DirEq.exact {w : Wal} (h : DirEq w) : DirExact w := by
  have e := h.eq
  rw [keep_nil] at e
  refine ⟨?_, ?_, ?_⟩
  · have : w.files.map (fun f => (f.id, f.base)) = w.segs.map (fun s => (s.1.id, s.1.base)) := e
    rw [this]
  · have := h.nodup
    simpa [Wal.keys, skey, Function.comp_def] using this
  · intro s hs
    exact h.klt (skey s) (List.mem_map.mpr ⟨s, hs, rfl⟩)

/-- **C13 dir_exact**: after every call of every run the directory is exactly the live segments -/
theorem dirExact_run (cfg : WalCfg) (hcfg : cfg.newSegCodec = cfg.codecId) (w0 : Wal) (h0 : Wal.init cfg = some w0)
    (ops : List XOp) (hops : ∀ op ∈ ops, op.inRange) : DirExact (w0.xrunState ops) :=
  (inv2_of_run cfg hcfg w0 h0 ops hops).dir.exact

/-- C13 from *any* state (no assumption on the state, the configuration or the arguments): a call never lowers
    `nextID`, and every segment present afterwards was there before (same id and base) or has a fresh id -/
theorem ids_fresh_step (w : Wal) (op : XOp) :
    let w' := (w.xstep op).1
    w.nextID ≤ w'.nextID ∧
    ∀ s ∈ w'.segs, (∃ s0 ∈ w.segs, s0.1.id = s.1.id ∧ s0.1.base = s.1.base) ∨ w.nextID ≤ s.1.id := by
  intro w'
  obtain ⟨h1, h2⟩ := (xstep_ext_dir w op).1
  refine ⟨h1, ?_⟩
  intro s hs
  rcases h2 (skey s) (List.mem_map.mpr ⟨s, hs, rfl⟩) with h | h
  · left
    obtain ⟨s0, hs0, e⟩ := List.mem_map.mp h
    simp only [skey, Prod.mk.injEq] at e
    exact ⟨s0, hs0, e.1, e.2⟩
  · exact Or.inr h

set_option linter.unusedVariables false in
/-- **C13 ids never reused**: a call never lowers `nextID`, and every segment it creates gets an id that was not
    below the old `nextID` — so no two segments created during the lifetime of a directory share an id.
    (None of the hypotheses is needed: see `ids_fresh_step`.) -/
theorem ids_fresh_run (cfg : WalCfg) (hcfg : cfg.newSegCodec = cfg.codecId) (w0 : Wal) (h0 : Wal.init cfg = some w0)
    (ops : List XOp) (hops : ∀ op ∈ ops, op.inRange) (op : XOp) (hop : op.inRange) :
    let w := w0.xrunState ops
    let w' := (w.xstep op).1
    w.nextID ≤ w'.nextID ∧
    ∀ s ∈ w'.segs, (∃ s0 ∈ w.segs, s0.1.id = s.1.id ∧ s0.1.base = s.1.base) ∨ w.nextID ≤ s.1.id :=
  ids_fresh_step (w0.xrunState ops) op

/-- **C08 stable_get_set / isolation**: along any run mixing log calls and StableStore calls, the WAL's stable
    map is the reference map built from the Set calls alone (log calls never touch it; calls on a closed WAL
    change nothing) -/
def specStable (ops : List XOp) : SMap × Bool :=   -- (map, closed)
  ops.foldl (fun (st : SMap × Bool) op => match op with
    | .log .close => (st.1, true)
    | .log .reopen => (st.1, false)
    | .set k v => if st.2 then st else (st.1.set k v, st.2)
    | .setu k v => if st.2 then st else (st.1.set k (some (putLE 8 v)), st.2)
    | _ => st) ([], false)

theorem specStable_eq (ops : List XOp) : specStable ops = ops.foldl stableStep ([], false) := rfl

theorem stable_refines (cfg : WalCfg) (hcfg : cfg.newSegCodec = cfg.codecId) (w0 : Wal) (h0 : Wal.init cfg = some w0)
    (ops : List XOp) (hops : ∀ op ∈ ops, op.inRange) :
    (w0.xrunState ops).stable = (specStable ops).1 ∧ (w0.xrunState ops).closed = (specStable ops).2 := by
  have h := inv2_of_run cfg hcfg w0 h0 ops hops
  rw [specStable_eq]
  exact ⟨h.stable, h.closed⟩

theorem smap_find_set (m : SMap) (k : Bytes) (v : Option Bytes) :
    (m.set k v).find? (·.1 = k) = v.map (fun x => (k, x)) := by
  have hrest : (m.filter (·.1 ≠ k)).find? (·.1 = k) = none := by
    rw [List.find?_eq_none]
    intro x hx
    have := (List.mem_filter.mp hx).2
    simpa using this
  unfold SMap.set
  cases v with
  | none => simp
  | some v =>
    simp only [List.find?_append, hrest, Option.map_some]
    simp

/-- Get returns the latest Set: reading key `k` from the stable map after `set k v` gives `v` -/
theorem smap_get_set (m : SMap) (k : Bytes) (v : Option Bytes) : (m.set k v).get k = v := by
  unfold SMap.get
  rw [smap_find_set]
  cases v <;> rfl

theorem smap_get_set_other (m : SMap) (k k' : Bytes) (v : Option Bytes) (h : k' ≠ k) : (m.set k v).get k' = m.get k' := by
  have hrest : (m.filter (·.1 ≠ k)).find? (·.1 = k') = m.find? (·.1 = k') := by
    rw [List.find?_filter]
    congr 1
    funext x
    by_cases hx : x.1 = k'
    · simp [hx, h]
    · simp [hx]
  unfold SMap.get SMap.set
  cases v with
  | none => simp only [hrest]
  | some v =>
    simp only [List.find?_append, hrest]
    have : List.find? (fun x : Bytes × Bytes => decide (x.1 = k')) [(k, v)] = none := by
      have hk : ¬ k = k' := fun e => h e.symm
      simp [hk]
    rw [this]
    simp

theorem getStable_open (w : Wal) (k : Bytes) (hopen : w.closed = false) :
    (w.getStable k).2 = .ok (SMap.get w.stable k) := by
  unfold Wal.getStable SMap.get
  simp [hopen]

theorem getUint64_snd (w : Wal) (k : Bytes) :
    (w.getUint64 k).2 = match (w.getStable k).2 with
      | .error e => .error e
      | .ok none => .ok 0
      | .ok (some raw) => if raw.length = 0 then .ok 0 else if raw.length ≠ 8 then .error .other else .ok (getLE raw) := by
  unfold Wal.getUint64
  split
  · rename_i w' e h; rw [h]
  · rename_i w' h; rw [h]
  · rename_i w' raw h
    rw [h]
    simp only
    split
    · rfl
    · split <;> rfl

/-- `GetUint64 ∘ SetUint64 = id` on 64-bit values (8 bytes little endian), unset keys read 0 -/
theorem u64_roundtrip (w : Wal) (k : Bytes) (v : Nat) (hv : v < 2^64) (hopen : w.closed = false) :
    ((w.setUint64 k v).1.getUint64 k).2 = .ok v := by
  have h1 : (w.setUint64 k v).1.closed = false := by
    rw [Wal.setUint64, (setStable_same w k _).2.2.2.1]; exact hopen
  have h2 : (w.setUint64 k v).1.stable = SMap.set w.stable k (some (putLE 8 v)) := by
    rw [Wal.setUint64, setStable_stable]; simp [hopen]
  rw [getUint64_snd, getStable_open _ k h1, h2, smap_get_set]
  have hlen : (putLE 8 v).length = 8 := putLE_length 8 v
  simp only [hlen]
  have : getLE (putLE 8 v) = v := getLE_putLE 8 v (by
    have : (256 : Nat) ^ 8 = 2 ^ 64 := by decide
    omega)
  simp [this]

theorem getUint64_unset_zero (w : Wal) (k : Bytes) (hopen : w.closed = false) (h : w.stable.find? (·.1 = k) = none) :
    (w.getUint64 k).2 = .ok 0 := by
  rw [getUint64_snd, getStable_open _ k hopen]
  unfold SMap.get
  rw [h]
  rfl

/-- stable calls never alter the log side of the WAL -/
theorem stable_ops_leave_log (w : Wal) (k : Bytes) (v : Option Bytes) :
    let w' := (w.setStable k v).1
    w'.segs = w.segs ∧ w'.files = w.files ∧ w'.nextID = w.nextID ∧ w'.closed = w.closed := by
  obtain ⟨h1, h2, h3, h4, _⟩ := setStable_same w k v
  exact ⟨h1, h2, h3, h4⟩

/-- **C20 counters_exact**, unconditional form: after any run the WAL's counters equal the true totals computed
    from the reference log alone — appends/entries/encoded bytes written, reads and bytes read, stable gets/sets —
    and the head/tail truncation counters, which are uint64 in the code (`u64` in `truncateHead`/`truncateTail`),
    equal the number of entries actually removed modulo 2^64 -/
theorem counters_exact_mod (cfg : WalCfg) (hcfg : cfg.newSegCodec = cfg.codecId) (w0 : Wal) (h0 : Wal.init cfg = some w0)
    (ops : List XOp) (hops : ∀ op ∈ ops, op.inRange) :
    (w0.xrunState ops).ctr.totals =
      { (specTotals ops).2 with head := u64 (specTotals ops).2.head, tail := u64 (specTotals ops).2.tail } :=
  (inv2_of_run cfg hcfg w0 h0 ops hops).ctr

/-- **C20 counters_exact**: after any run the WAL's counters equal the true totals computed from the reference
    log alone: appends/entries/encoded bytes written, reads and bytes read, stable gets/sets, and head/tail
    truncation counts equal to the number of entries actually removed.

    Statement as first written (no `hhead`/`htail`):
      theorem counters_exact (cfg) (hcfg) (w0) (h0) (ops) (hops) :
          (w0.xrunState ops).ctr.totals = (specTotals ops).2
    It is false for runs that remove 2^64 or more entries at one end (`counters_exact_unbounded_false`,
    Proofs/WalInv2Counter.lean, proves its negation): the reference totals are unbounded naturals, the model's truncation counters wrap like the uint64
    of the code.  Minimal correction: the two totals concerned stay below 2^64. -/
theorem counters_exact (cfg : WalCfg) (hcfg : cfg.newSegCodec = cfg.codecId) (w0 : Wal) (h0 : Wal.init cfg = some w0)
    (ops : List XOp) (hops : ∀ op ∈ ops, op.inRange)
    (hhead : (specTotals ops).2.head < 2^64) (htail : (specTotals ops).2.tail < 2^64) :
    (w0.xrunState ops).ctr.totals = (specTotals ops).2 := by
  rw [counters_exact_mod cfg hcfg w0 h0 ops hops, u64_of_lt hhead, u64_of_lt htail]

end RaftWal
