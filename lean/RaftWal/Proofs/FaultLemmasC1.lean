/-
  Proofs/FaultLemmasC1.lean — the fault invariant at the level of propositions: `FR d P t f` (what `finvRunB d` says,
  with the segments split into the sealed ones `P` and the tail `t` whose file is `f`), file lookups in `strip`,
  `cleanTail`, `vdisk`.
-/
import RaftWal.Proofs.FaultStmt
namespace RaftWal.Fault.C
open RaftWal.Crash

/-- the tail file without what failed calls left on it -/
def clr (f : File) : File := { f with pending := [], sealedP := false, sealedS := false }

@[simp] theorem clr_id (f : File) : (clr f).id = f.id := rfl
@[simp] theorem vfile_id (f : File) : (vfile f).id = f.id := rfl

/-! ### lookups -/

theorem look_filter_id (fs : List File) (q : Nat → Bool) (j : Nat) :
    look (fs.filter (fun f => q f.id)) j = if q j = true then look fs j else none := by
  unfold look
  induction fs with
  | nil => simp
  | cons a l ih =>
    simp only [List.filter_cons]
    by_cases e : a.id = j
    · subst e
      cases hq : q a.id with
      | true => simp
      | false =>
        simp only [Bool.false_eq_true, ↓reduceIte]
        rw [ih]; simp [hq]
    · cases hq : q a.id with
      | true =>
        simp only [↓reduceIte, List.find?_cons, e, decide_false]
        exact ih
      | false =>
        simp only [Bool.false_eq_true, ↓reduceIte, List.find?_cons, e, decide_false]
        exact ih

theorem strip_md (d : Disk) : (strip d).md = d.md := rfl

theorem strip_file? (d : Disk) (j : Nat) :
    (strip d).file? j = if d.md.segs.any (fun s => s.id == j) = true then d.file? j else none := by
  simp only [file?_eq_look, strip]
  exact look_filter_id d.files (fun i => d.md.segs.any (fun s => s.id == i)) j

theorem cleanTail_md (d : Disk) : (cleanTail d).md = d.md := by
  unfold cleanTail; split <;> rfl

theorem cleanTail_files {d : Disk} {t : Seg} (ht : d.md.segs.getLast? = some t) :
    (cleanTail d).files = updFile d.files t.id clr := by
  unfold cleanTail; rw [ht]; rfl

theorem cleanTail_file? {d : Disk} {t : Seg} (ht : d.md.segs.getLast? = some t) (j : Nat) :
    (cleanTail d).file? j = if j = t.id then (d.file? j).map clr else d.file? j := by
  simp only [file?_eq_look, cleanTail_files ht]
  exact look_updFile d.files t.id clr (fun _ => rfl) j

theorem map_id_updFile (fs : List File) (id : Nat) (g : File → File) (hg : ∀ f, (g f).id = f.id) :
    (updFile fs id g).map (·.id) = fs.map (·.id) := by
  simp only [updFile, List.map_map]
  apply List.map_congr_left; intro f _; simp only [Function.comp]; split
  · exact hg f
  · rfl

theorem fids_cleanTail (d : Disk) : fids (cleanTail d) = fids d := by
  unfold cleanTail
  split
  · rfl
  · exact map_id_updFile _ _ _ (fun _ => rfl)

theorem fids_strip_sublist (d : Disk) : (fids (strip d)).Sublist (fids d) := by
  simp only [fids, strip]
  exact List.filter_sublist.map _

theorem mem_fids_strip {d : Disk} {j : Nat} (h : j ∈ fids (strip d)) : j ∈ segIds d.md.segs := by
  simp only [fids, strip, List.mem_map, List.mem_filter, List.any_eq_true, beq_iff_eq] at h
  obtain ⟨f, ⟨_, s, hs, e⟩, rfl⟩ := h
  exact List.mem_map.2 ⟨s, hs, e⟩

theorem any_id_iff (l : List Seg) (j : Nat) : l.any (fun s => s.id == j) = true ↔ j ∈ segIds l := by
  simp only [List.any_eq_true, beq_iff_eq, segIds, List.mem_map]

theorem vdisk_md (d : Disk) : (vdisk d).md = d.md := rfl

theorem vdisk_file? (d : Disk) (j : Nat) : (vdisk d).file? j = (d.file? j).map vfile := by
  simp only [file?_eq_look, vdisk]
  exact look_map d.files vfile (fun _ => rfl) j

/-! ### the invariant, as a proposition -/

/-- a running process between two calls: the sealed segments `P` with their files, the tail `t` with its file `f` which
    may carry a leftover batch / seal flag beyond the writer's offset, or be durably sealed; other files are free -/
structure FR (d : Disk) (P : List Seg) (t : Seg) (f : File) : Prop where
  base : Base d P t
  tf : d.file? t.id = some f
  fb : f.base = t.base
  lk : f.linked = true ∨ f.synced = []
  mn : t.min ≤ f.base + f.synced.length
  vis : f.synced ≠ [] → t.min < f.base + f.synced.length
  ss : f.sealedS = true → f.pending = [] ∧ f.sealedP = false

theorem FR.last {d : Disk} {P : List Seg} {t : Seg} {f : File} (h : FR d P t f) : d.md.segs.getLast? = some t := by
  rw [h.base.segs]; simp

theorem FR.tmem {d : Disk} {P : List Seg} {t : Seg} {f : File} (h : FR d P t f) :
    d.md.segs.any (fun s => s.id == t.id) = true := by
  rw [any_id_iff, h.base.segs]; simp [segIds]

theorem FR.pmem {d : Disk} {P : List Seg} {t : Seg} {f : File} (h : FR d P t f) {s : Seg} (hs : s ∈ P) :
    d.md.segs.any (fun s' => s'.id == s.id) = true := by
  rw [any_id_iff, h.base.segs]
  exact List.mem_map.2 ⟨s, by simp [hs], rfl⟩

/-- the file of a named segment in `cleanTail (strip d)` -/
theorem d0_file? {d : Disk} {t : Seg} (ht : d.md.segs.getLast? = some t) (j : Nat) :
    (cleanTail (strip d)).file? j =
      if d.md.segs.any (fun s => s.id == j) = true then (if j = t.id then (d.file? j).map clr else d.file? j) else none := by
  rw [cleanTail_file? (d := strip d) ht, strip_file?]
  by_cases h : d.md.segs.any (fun s => s.id == j) = true
  · simp only [h, ↓reduceIte]
  · simp only [h, Bool.false_eq_true, ↓reduceIte, Option.map_none, ite_self]

/-- the clean disk of an `FR` state is `QS` -/
theorem FR.toQS {d : Disk} {P : List Seg} {t : Seg} {f : File} (h : FR d P t f) :
    QS (cleanTail (strip d)) P t (clr f) := by
  have hb := h.base
  have ht := h.last
  have hmd : (cleanTail (strip d)).md = d.md := by rw [cleanTail_md, strip_md]
  have hsub : (fids (cleanTail (strip d))).Sublist (fids d) := by
    rw [fids_cleanTail]; exact fids_strip_sublist d
  have hsealed : ∀ s ∈ P, (cleanTail (strip d)).file? s.id = d.file? s.id := by
    intro s hs
    rw [d0_file? ht, h.pmem hs]
    simp [hb.tid_ne s hs]
  have htf : (cleanTail (strip d)).file? t.id = some (clr f) := by
    rw [d0_file? ht, h.tmem]; simp [h.tf]
  refine ⟨⟨by rw [hmd]; exact hb.segs, ?_, hb.chain, hb.nodupS, by rw [hmd]; exact hb.idlt, hb.nodupF.sublist hsub,
    ?_, hb.tsl, hb.tbm, hb.tb1, ?_⟩, htf, ?_, h.vis, ?_⟩
  · intro s hs
    obtain ⟨g, hg, hsf⟩ := hb.sealed s hs
    exact ⟨g, by rw [hsealed s hs]; exact hg, hsf⟩
  · rw [hmd]; intro j hj; exact hb.fidlt j (hsub.subset hj)
  · intro j g hg hh
    rw [d0_file? ht] at hg
    split at hg
    · split at hg
      · cases h0 : d.file? j with
        | none => rw [h0] at hg; cases hg
        | some g0 =>
          rw [h0] at hg; cases hg
          exact hb.hl j g0 h0 hh
      · exact hb.hl j g hg hh
    · cases hg
  · exact ⟨h.fb, rfl, rfl, hb.tbm, hb.tb1, hb.tsl, rfl, h.lk, h.mn⟩
  · intro j hj
    rw [fids_cleanTail] at hj
    have := mem_fids_strip hj
    rw [hb.segs] at this; exact this

/-- … and conversely -/
theorem FR.ofQS {d : Disk} {P : List Seg} {t : Seg} {f0 : File} (h : QS (cleanTail (strip d)) P t f0)
    (hnd : (fids d).Nodup) (hlt : ∀ j ∈ fids d, j < d.md.nextID) (hl : HL d)
    (hss : ∀ f, d.file? t.id = some f → f.sealedS = true → f.pending = [] ∧ f.sealedP = false) :
    ∃ f, FR d P t f ∧ f0 = clr f := by
  have hb := h.base
  have hmd : (cleanTail (strip d)).md = d.md := by rw [cleanTail_md, strip_md]
  have hsegs : d.md.segs = P ++ [t] := by rw [← hmd]; exact hb.segs
  have ht : d.md.segs.getLast? = some t := by rw [hsegs]; simp
  have hpm : ∀ s ∈ P, d.md.segs.any (fun s' => s'.id == s.id) = true := by
    intro s hs
    rw [any_id_iff, hsegs]
    exact List.mem_map.2 ⟨s, by simp [hs], rfl⟩
  have htm : d.md.segs.any (fun s => s.id == t.id) = true := by
    rw [any_id_iff, hsegs]; simp [segIds]
  have hsealed : ∀ s ∈ P, (cleanTail (strip d)).file? s.id = d.file? s.id := by
    intro s hs
    rw [d0_file? ht, hpm s hs]
    simp [hb.tid_ne s hs]
  have htf := h.tf
  rw [d0_file? ht, htm] at htf
  simp only [↓reduceIte] at htf
  cases h0 : d.file? t.id with
  | none => rw [h0] at htf; cases htf
  | some f =>
    rw [h0] at htf
    simp only [Option.map_some, Option.some.injEq] at htf
    subst htf
    refine ⟨f, ⟨⟨hsegs, ?_, hb.chain, hb.nodupS, by rw [← hmd]; exact hb.idlt, hnd, hlt, hb.tsl, hb.tbm, hb.tb1, hl⟩,
      h0, h.qt.base, h.qt.lk, h.qt.mn, h.vis, hss f h0⟩, rfl⟩
    intro s hs
    obtain ⟨g, hg, hsf⟩ := hb.sealed s hs
    exact ⟨g, by rw [← hsealed s hs]; exact hg, hsf⟩


/-! ### `finvRunB` says `FR` -/

theorem finvRunB_FR {d : Disk} (h : finvRunB d = true) : ∃ P t f, FR d P t f := by
  simp only [finvRunB, Bool.and_eq_true] at h
  obtain ⟨⟨⟨⟨⟨h1, h2⟩, h3⟩, h4⟩, _⟩, h6⟩ := h
  obtain ⟨P, t, f0, hq⟩ := (quiescentS_iff _).1 ((quiescentSB_iff _).1 h1)
  have hnd : (fids d).Nodup := (nodupB_iff _).1 h2
  have hlt : ∀ j ∈ fids d, j < d.md.nextID := by
    intro j hj
    obtain ⟨g, hg, rfl⟩ := List.mem_map.1 hj
    have := List.all_eq_true.1 h3 g hg
    simpa using this
  have hl : HL d := by
    apply (HL_iff hnd).2
    intro g hg hh
    have := List.all_eq_true.1 h4 g hg
    simpa [hh] using this
  have hmd : (cleanTail (strip d)).md = d.md := by rw [cleanTail_md, strip_md]
  have ht : d.md.segs.getLast? = some t := by rw [← hmd, hq.base.segs]; simp
  obtain ⟨f, hf, _⟩ := FR.ofQS hq hnd hlt hl (by
    intro f hf hs
    rw [ht] at h6
    simp only [hf, hs, Bool.not_true, Bool.false_or, Bool.and_eq_true, List.isEmpty_iff, Bool.not_eq_eq_eq_not] at h6
    exact h6)
  exact ⟨P, t, f, hf⟩

theorem FR.finvRunB {d : Disk} {P : List Seg} {t : Seg} {f : File} (h : FR d P t f) : finvRunB d = true := by
  have hb := h.base
  simp only [Fault.finvRunB, Bool.and_eq_true]
  refine ⟨⟨⟨⟨⟨?_, ?_⟩, ?_⟩, ?_⟩, ?_⟩, ?_⟩
  · exact (quiescentSB_iff _).2 ((quiescentS_iff _).2 ⟨P, t, clr f, h.toQS⟩)
  · exact (nodupB_iff _).2 hb.nodupF
  · apply List.all_eq_true.2
    intro g hg
    have := hb.fidlt g.id (List.mem_map.2 ⟨g, hg, rfl⟩)
    simpa using this
  · apply List.all_eq_true.2
    intro g hg
    cases hh : g.hsynced with
    | false => rfl
    | true =>
      have := (HL_iff hb.nodupF).1 hb.hl g hg hh
      simp [this]
  · apply List.all_eq_true.2
    intro g hg
    rw [h.last]
    by_cases e1 : t.id = g.id
    · simp [e1]
    · by_cases e2 : g.id ∈ segIds d.md.segs
      · rw [hb.segs] at e2
        obtain ⟨s, hs, e⟩ := List.mem_map.1 e2
        simp only [List.mem_append, List.mem_cons, List.not_mem_nil, or_false] at hs
        rcases hs with hs | rfl
        · obtain ⟨g', hg', hsf⟩ := hb.sealed s hs
          rw [e, file?_of_mem hb.nodupF hg] at hg'
          cases hg'
          simp [hsf.pend, hsf.sp]
        · exact absurd e e1
      · have : d.md.segs.any (fun s => s.id == g.id) = false := by
          rw [← Bool.not_eq_true, any_id_iff]; exact e2
        simp [this]
  · rw [h.last]
    simp only [h.tf]
    cases hs : f.sealedS with
    | false => rfl
    | true =>
      have := h.ss hs
      simp [this.1, this.2]

theorem finvRunB_iff (d : Disk) : finvRunB d = true ↔ ∃ P t f, FR d P t f :=
  ⟨finvRunB_FR, fun ⟨_, _, _, h⟩ => h.finvRunB⟩

end RaftWal.Fault.C
