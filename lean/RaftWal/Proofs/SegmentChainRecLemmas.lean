/-
  Proofs/SegmentChainRecLemmas.lean — tail recovery cut by power losses while it zeroes the stale tail
  (`clearStaleTail`), any number of times in a row: definitions (`tornRecoveryImage`, `recCut`, `cutImages`) and
  the facts about power-loss images the chain theorem of Proofs/SegmentChainRec.lean needs.
-/
import RaftWal.Proofs.SegmentChainTorn
namespace RaftWal
open Spec (Acc Batch addEntry addBatch)

/-! ## recovery cut while zeroing -/

/-- the power-loss image of a recovery cut while it zeroes the stale tail.  `recoverTail info img = .ok (w, img')`
    with `img' = clearStale img w.writeOffset = img.take w.writeOffset ++ zeros (img.length - w.writeOffset)`:
    recovery rewrites exactly the range `[w.writeOffset, img.length)`, with zeros.  The crash leaves 8-byte chunk
    `j` of that range zeroed iff `zmask j`, the other chunks as they were in `img`.

    Correspondence with segment/writer.go: `clearStaleTail` writes zeros over `[writeOffset, staleEnd)`, where
    `staleEnd` is the end of the last non-zero byte behind `writeOffset`, in `WriteAt` calls of `minBufSize` bytes,
    then fsyncs.  The bytes of `[staleEnd, EOF)` are zero before and after, so tearing the longer range
    `[writeOffset, EOF)` yields exactly the same set of images (a chunk beyond `staleEnd` is zero whether "written"
    or not; the chunk `staleEnd` falls into is zero behind `staleEnd` either way); `writeOffset` is 8-byte aligned,
    so the chunks of the range are chunks of the file.  When nothing non-zero follows `writeOffset` the code does
    not write at all: `img' = img` and every tear of it is `img` (`tearImage_self`). -/
def tornRecoveryImage (img img' : Bytes) (writeOffset : Nat) (zmask : Nat → Bool) : Bytes :=
  tearImage img img' writeOffset (img'.length - writeOffset) zmask

/-- recovery of `img`, cut by a power loss during its zeroing write once for every mask of `zmasks` (each time the
    next Open runs recovery on the image the crash left), and finally running to completion -/
def recCut (info : SegInfo) (img : Bytes) : List (Nat → Bool) → Except SegErr (Writer × Bytes)
  | [] => recoverTail info img
  | z :: zs =>
    match recoverTail info img with
    | .error e => .error e
    | .ok (w, img') => recCut info (tornRecoveryImage img img' w.writeOffset z) zs

/-- the images recovery is run on along `recCut info img zmasks`: `img` and the power-loss images of the cut
    recoveries, in order -/
def cutImages (info : SegInfo) (img : Bytes) : List (Nat → Bool) → List Bytes
  | [] => [img]
  | z :: zs =>
    img :: match recoverTail info img with
      | .error _ => []
      | .ok (w, img') => cutImages info (tornRecoveryImage img img' w.writeOffset z) zs

theorem recCut_nil (info : SegInfo) (img : Bytes) : recCut info img [] = recoverTail info img := rfl

theorem recCut_cons_ok (info : SegInfo) (img : Bytes) (z : Nat → Bool) (zs : List (Nat → Bool)) (w : Writer) (img' : Bytes)
    (h : recoverTail info img = .ok (w, img')) :
    recCut info img (z :: zs) = recCut info (tornRecoveryImage img img' w.writeOffset z) zs := by
  rw [recCut, h]

theorem recCut_cons_error (info : SegInfo) (img : Bytes) (z : Nat → Bool) (zs : List (Nat → Bool)) (e : SegErr)
    (h : recoverTail info img = .error e) : recCut info img (z :: zs) = .error e := by
  rw [recCut, h]

theorem cutImages_head (info : SegInfo) (img : Bytes) (zs : List (Nat → Bool)) : img ∈ cutImages info img zs := by
  cases zs with
  | nil => exact List.mem_cons_self
  | cons z zs => exact List.mem_cons_self

theorem cutImages_cons_ok (info : SegInfo) (img : Bytes) (z : Nat → Bool) (zs : List (Nat → Bool)) (w : Writer) (img' : Bytes)
    (h : recoverTail info img = .ok (w, img')) :
    cutImages info img (z :: zs) = img :: cutImages info (tornRecoveryImage img img' w.writeOffset z) zs := by
  rw [cutImages, h]

/-! ## power-loss images -/

theorem tearImage_length (before after : Bytes) (off len : Nat) (mask : Nat → Bool) :
    (tearImage before after off len mask).length = after.length := by
  simp [tearImage]

theorem tearImage_getElem (before after : Bytes) (off len : Nat) (mask : Nat → Bool) (i : Nat)
    (hi : i < (tearImage before after off len mask).length) :
    (tearImage before after off len mask)[i]
      = if off ≤ i ∧ i < off + len ∧ mask ((i - off) / 8) then after.getD i 0 else before.getD i 0 := by
  simp [tearImage]

theorem getD_of_lt (l : Bytes) (i : Nat) (h : i < l.length) : l.getD i 0 = l[i] := by
  simp [List.getD_eq_getElem?_getD, h]

theorem getD_of_ge (l : Bytes) (i : Nat) (h : l.length ≤ i) : l.getD i 0 = 0 := by
  simp [List.getD_eq_getElem?_getD, h]

theorem tearImage_getD (before after : Bytes) (off len : Nat) (mask : Nat → Bool) (i : Nat) (hi : i < after.length) :
    (tearImage before after off len mask).getD i 0
      = if off ≤ i ∧ i < off + len ∧ mask ((i - off) / 8) then after.getD i 0 else before.getD i 0 := by
  have hl : i < (tearImage before after off len mask).length := by rw [tearImage_length]; exact hi
  rw [getD_of_lt _ _ hl, tearImage_getElem]

theorem getD_append_zeros (f : Bytes) (k i : Nat) : (f ++ zeros k).getD i 0 = f.getD i 0 := by
  by_cases h : i < f.length
  · simp [List.getD_eq_getElem?_getD, List.getElem?_append_left h]
  · rw [getD_of_ge f i (by omega)]
    simp only [List.getD_eq_getElem?_getD, List.getElem?_append_right (Nat.le_of_not_lt h), zeros]
    by_cases h2 : i - f.length < k
    · simp [h2]
    · simp [h2]

/-- a write that changes nothing cannot be torn: the power-loss image of a recovery that accepted the in-flight
    batch (or found an untorn file) — the stale region is all zeros already — is the image itself -/
theorem tearImage_self (f : Bytes) (off len : Nat) (mask : Nat → Bool) : tearImage f f off len mask = f := by
  apply List.ext_getElem (tearImage_length _ _ _ _ _)
  intro i h1 h2
  rw [tearImage_getElem, ite_self, getD_of_lt _ _ h2]

/-- **a torn append whose discarding recovery is cut is a torn append**: the power-loss image of `b`'s append
    with chunk mask `m`, recovered as "batch absent" (file as before, lengthened with zeros) with the zeroing write
    torn by `z`, IS the power-loss image of the append with mask `fun j => m j && !z j` (the zeroing starts at the
    write offset the append started at, so the chunk indices coincide) -/
theorem tearImage_tear (file file' : Bytes) (wo len : Nat) (m z : Nat → Bool) (hlen : file.length ≤ file'.length) :
    tornRecoveryImage (tearImage file file' wo len m) (file ++ zeros (file'.length - file.length)) wo z
      = tearImage file file' wo len (fun j => m j && !z j) := by
  have hl : (file ++ zeros (file'.length - file.length)).length = file'.length := by
    rw [List.length_append, zeros_length]; omega
  unfold tornRecoveryImage
  apply List.ext_getElem
  · rw [tearImage_length, tearImage_length, hl]
  · intro i h1 h2
    have hi : i < file'.length := by rw [tearImage_length] at h2; exact h2
    rw [tearImage_getElem, tearImage_getElem, getD_append_zeros, tearImage_getD _ _ _ _ _ _ hi, hl]
    by_cases hz : z ((i - wo) / 8) = true
    · by_cases hw : wo ≤ i
      · rw [if_pos ⟨hw, by omega, hz⟩, if_neg (by simp [hz])]
      · rw [if_neg (by omega), if_neg (by omega), if_neg (by omega)]
    · rw [if_neg (by simp [hz])]
      simp only [Bool.not_eq_true] at hz
      simp [hz]

/-- if the image with fewer landed chunks is the complete file, so is the image with more -/
theorem tearImage_complete_mono (file file' : Bytes) (wo len : Nat) (m m2 : Nat → Bool) (hm : ∀ j, m2 j = true → m j = true)
    (h : tearImage file file' wo len m2 = file') : tearImage file file' wo len m = file' := by
  apply List.ext_getElem (tearImage_length _ _ _ _ _)
  intro i h1 h2
  have h3 : i < (tearImage file file' wo len m2).length := by rw [tearImage_length]; exact h2
  have hg : (tearImage file file' wo len m2)[i] = file'[i] := by simp only [h]
  rw [tearImage_getElem] at hg
  rw [tearImage_getElem]
  by_cases hc : wo ≤ i ∧ i < wo + len ∧ m ((i - wo) / 8) = true
  · rw [if_pos hc, getD_of_lt _ _ h2]
  · rw [if_neg hc]
    rw [if_neg (fun h' => hc ⟨h'.1, h'.2.1, hm _ h'.2.2⟩)] at hg
    exact hg

/-! ## recovery cut any number of times, on an invariant state and on a torn append from one -/

/-- the batch region `[start, stop - 8)` of the image `x` is a CRC-32C collision of that of the complete file:
    different bytes, same CRC-32C (the residual of `recover_torn_atomic_corrected` / `TornCollision`) -/
def RegionCollision (x file' : Bytes) (start stop : Nat) : Prop :=
  batchRegion x start stop ≠ batchRegion file' start stop
    ∧ crc32c (batchRegion x start stop) = crc32c (batchRegion file' start stop)

/-- **recovery of an untorn invariant state, cut any number of times, is invisible**: every recovery returns the
    writer the process had and rewrites nothing (zeros over zeros), so every power-loss image is the file itself -/
theorem recCut_inv (info : SegInfo) (hb : info.base < 2^64) (hi : info.id < 2^64) (hc : info.codec < 2^64)
    (bs : List (List Bytes)) (w : Writer) (file : Bytes) (h : ChainInv info w file bs) (zs : List (Nat → Bool)) :
    recCut info file zs = .ok (w, file) := by
  have hr := recover_inv info hb hi hc bs w file h
  induction zs with
  | nil => exact hr
  | cons z zs ih =>
    rw [recCut_cons_ok info file z zs w file hr, tornRecoveryImage, tearImage_self]
    exact ih

/-- **torn append, then recovery cut any number of times** from any invariant state: the final recovery
      * returns the writer before the append and the file as it was (lengthened with zeros if the append grew it), or
      * returns the writer after the append and the complete file, or
      * one of the images recovery ran on (the power-loss image of the append or one of the power-loss images of
        the cut recoveries) has a batch region that is a CRC-32C collision of the intended one. -/
theorem recCut_torn_cases (info : SegInfo) (bs : List (List Bytes)) (b : List Bytes)
    (hwf : RunWF info (bs ++ [b]))
    (w : Writer) (file : Bytes) (hCI : ChainInv info w file bs)
    (w' : Writer) (file' : Bytes)
    (happ : w.append file (indexBatch (info.base + bs.flatten.length) b) .none = (none, w', file'))
    (zs : List (Nat → Bool)) (mask : Nat → Bool) :
    let img := tearImage file file' w.writeOffset (w'.writeOffset - w.writeOffset) mask
    (recCut info img zs = .ok (w, file ++ zeros (file'.length - file.length)))
    ∨ (recCut info img zs = .ok (w', file'))
    ∨ (∃ x ∈ cutImages info img zs, RegionCollision x file' w.writeOffset w'.writeOffset) := by
  have hlen : file.length ≤ file'.length := append_none_length_le _ _ _ _ _ happ
  induction zs generalizing mask with
  | nil =>
    intro img
    rcases chain_torn_cases info bs b hwf w file hCI w' file' happ mask with h | ⟨h, hc⟩ | ⟨_, _, _, h1, h2⟩
    · exact Or.inl h
    · rcases hc with hc | hc
      · right; left
        rw [recCut_nil]
        have h' : recoverTail info img = .ok (w', img) := h
        rw [h']
        have hc' : img = file' := hc
        rw [hc']
      · exact Or.inr (Or.inr ⟨img, cutImages_head _ _ _, hc⟩)
    · exact Or.inr (Or.inr ⟨img, cutImages_head _ _ _, h1, h2⟩)
  | cons z zs ih =>
    intro img
    rcases chain_torn_cases info bs b hwf w file hCI w' file' happ mask with h | ⟨h, _⟩ | ⟨_, _, _, h1, h2⟩
    · -- the first recovery discards the batch; its zeroing is torn: a torn append with fewer chunks
      have h' : recoverTail info img = .ok (w, file ++ zeros (file'.length - file.length)) := h
      rw [recCut_cons_ok info img z zs _ _ h', cutImages_cons_ok info img z zs _ _ h', tearImage_tear _ _ _ _ _ _ hlen]
      rcases ih (fun j => mask j && !z j) with g | g | ⟨x, hx, g⟩
      · exact Or.inl g
      · exact Or.inr (Or.inl g)
      · exact Or.inr (Or.inr ⟨x, List.mem_cons_of_mem _ hx, g⟩)
    · -- the first recovery accepts the batch: nothing to zero, the image stays
      have h' : recoverTail info img = .ok (w', img) := h
      rw [recCut_cons_ok info img z zs _ _ h', cutImages_cons_ok info img z zs _ _ h', tornRecoveryImage, tearImage_self]
      rcases ih mask with g | g | ⟨x, hx, g⟩
      · exact Or.inl g
      · exact Or.inr (Or.inl g)
      · exact Or.inr (Or.inr ⟨x, List.mem_cons_of_mem _ hx, g⟩)
    · exact Or.inr (Or.inr ⟨img, cutImages_head _ _ _, h1, h2⟩)

/-- **a cut recovery resurrects nothing and loses nothing**: short of a CRC-32C collision in one of the images,
    the recovery that finally completes returns exactly what the FIRST recovery of the torn image would have
    returned had it not been cut — a partly zeroed stale region never makes a later recovery accept a batch the
    first one rejected (nor reject one it accepted) -/
theorem recCut_torn_same (info : SegInfo) (bs : List (List Bytes)) (b : List Bytes)
    (hwf : RunWF info (bs ++ [b]))
    (w : Writer) (file : Bytes) (hCI : ChainInv info w file bs)
    (w' : Writer) (file' : Bytes)
    (happ : w.append file (indexBatch (info.base + bs.flatten.length) b) .none = (none, w', file'))
    (zs : List (Nat → Bool)) (mask : Nat → Bool) :
    let img := tearImage file file' w.writeOffset (w'.writeOffset - w.writeOffset) mask
    recCut info img zs = recoverTail info img
    ∨ (∃ x ∈ cutImages info img zs, RegionCollision x file' w.writeOffset w'.writeOffset) := by
  have hlen : file.length ≤ file'.length := append_none_length_le _ _ _ _ _ happ
  have hCI' := chainInv_append info bs b hwf w file hCI w' file' happ
  have hU' := recover_inv info hwf.base_lt hwf.id_lt hwf.codec_lt _ w' file' hCI'
  have hne : w ≠ w' := by
    intro heq
    have h1 := hCI.next
    have h2 := hCI'.next
    rw [← heq, h1, List.flatten_append, List.length_append] at h2
    have hb : b ≠ [] := hwf.nonempty b (List.mem_append_right _ List.mem_cons_self)
    have : b.length = 0 := by simpa using h2
    exact hb (List.length_eq_zero_iff.mp this)
  induction zs generalizing mask with
  | nil => intro img; exact Or.inl rfl
  | cons z zs ih =>
    intro img
    rcases chain_torn_cases info bs b hwf w file hCI w' file' happ mask with h | ⟨h, _⟩ | ⟨_, h, _⟩
    · have h' : recoverTail info img = .ok (w, file ++ zeros (file'.length - file.length)) := h
      rw [recCut_cons_ok info img z zs _ _ h', cutImages_cons_ok info img z zs _ _ h', tearImage_tear _ _ _ _ _ _ hlen]
      rcases ih (fun j => mask j && !z j) with g | ⟨x, hx, g⟩
      · rw [g, h']
        rcases chain_torn_cases info bs b hwf w file hCI w' file' happ (fun j => mask j && !z j)
          with k | ⟨_, k | k⟩ | ⟨_, _, _, k1, k2⟩
        · exact Or.inl k
        · exfalso
          have hfull : img = file' :=
            tearImage_complete_mono file file' _ _ mask _ (fun j hj => by simp at hj; exact hj.1) k
          rw [hfull, hU'] at h'
          injection h' with h'
          injection h' with h' _
          exact hne h'.symm
        · exact Or.inr ⟨_, List.mem_cons_of_mem _ (cutImages_head _ _ _), k⟩
        · exact Or.inr ⟨_, List.mem_cons_of_mem _ (cutImages_head _ _ _), k1, k2⟩
      · exact Or.inr ⟨x, List.mem_cons_of_mem _ hx, g⟩
    · have h' : recoverTail info img = .ok (w', img) := h
      rw [recCut_cons_ok info img z zs _ _ h', cutImages_cons_ok info img z zs _ _ h', tornRecoveryImage, tearImage_self]
      rcases ih mask with g | ⟨x, hx, g⟩
      · exact Or.inl (by rw [g])
      · exact Or.inr ⟨x, List.mem_cons_of_mem _ hx, g⟩
    · have h' : recoverTail info img = .error .corrupt := h
      exact Or.inl (by rw [recCut_cons_error info img z zs _ h', h'])

end RaftWal
