/-
  Proofs/FaultLemmasA1.lean — the executable invariant `finvRunB` of a running process as a proposition (`FRun`):
  lookups in `strip`, `cleanTail`, `vdisk`; `finvRunB d = true ↔ ∃ P t f, FRun d P t f`.
-/
import RaftWal.Proofs.FaultStmt
namespace RaftWal.Fault.A
open RaftWal.Crash

/-! ### updating one file -/

/-- the disk with file `id` replaced by `g` of it -/
def updT (d : Disk) (id : Nat) (g : File → File) : Disk := { d with files := updFile d.files id g }

@[simp] theorem updT_md (d : Disk) (id : Nat) (g : File → File) : (updT d id g).md = d.md := rfl

theorem updT_file? (d : Disk) (id : Nat) (g : File → File) (hg : ∀ f, (g f).id = f.id) (j : Nat) :
    (updT d id g).file? j = if j = id then (d.file? j).map g else d.file? j := by
  simp only [file?_eq_look, updT]
  exact look_updFile d.files id g hg j

theorem updT_fids (d : Disk) (id : Nat) (g : File → File) (hg : ∀ f, (g f).id = f.id) :
    fids (updT d id g) = fids d := by
  simp only [fids, updT, updFile, List.map_map]
  apply List.map_congr_left
  intro f _
  simp only [Function.comp]
  split
  · exact hg f
  · rfl

theorem updT_HL {d : Disk} (h : HL d) (id : Nat) (g : File → File) (hg : ∀ f, (g f).id = f.id)
    (hh : ∀ f, (g f).hsynced = f.hsynced) (hl : ∀ f, (g f).linked = f.linked) : HL (updT d id g) := by
  intro j f hf hs
  rw [updT_file? d id g hg] at hf
  by_cases e : j = id
  · simp only [e, ↓reduceIte] at hf
    cases h0 : d.file? id with
    | none => rw [h0] at hf; cases hf
    | some f0 =>
      rw [h0] at hf
      simp only [Option.map_some, Option.some.injEq] at hf
      subst hf
      rw [hl]; rw [hh] at hs
      exact h id f0 h0 hs
  · simp only [e, ↓reduceIte] at hf
    exact h j f hf hs

theorem updT_keeps (d : Disk) (id : Nat) (g : File → File) (hg : ∀ f, (g f).id = f.id) {j : Nat} (h : j ≠ id) :
    Keeps d (updT d id g) j :=
  keeps_of_eq (by rw [updT_file? d id g hg]; simp [h])

/-- a change of the tail's file that keeps its identity, handle flag and link -/
theorem base_updT {d : Disk} {P : List Seg} {t : Seg} (hb : Base d P t) (g : File → File)
    (hg : ∀ f, (g f).id = f.id) (hh : ∀ f, (g f).hsynced = f.hsynced) (hl : ∀ f, (g f).linked = f.linked) :
    Base (updT d t.id g) P t ∧ logP (updT d t.id g) P = logP d P :=
  hb.step rfl (fun s hs => updT_keeps d t.id g hg (hb.tid_ne s hs)) (by rw [updT_fids d t.id g hg]; exact hb.nodupF)
    (by rw [updT_fids d t.id g hg]; exact hb.fidlt) (updT_HL hb.hl t.id g hg hh hl)

/-! ### `vdisk` -/

@[simp] theorem vdisk_md (d : Disk) : (vdisk d).md = d.md := rfl

theorem vdisk_file? (d : Disk) (j : Nat) : (vdisk d).file? j = (d.file? j).map vfile := by
  simp only [file?_eq_look, vdisk]
  exact look_map d.files vfile (fun _ => rfl) j

/-! ### `strip` and `cleanTail` -/

@[simp] theorem strip_md (d : Disk) : (strip d).md = d.md := rfl

theorem look_filter_id (fs : List File) (q : Nat → Bool) (j : Nat) :
    look (fs.filter (fun f => q f.id)) j = if q j then look fs j else none := by
  unfold look
  induction fs with
  | nil => simp
  | cons a l ih =>
    simp only [List.filter_cons]
    by_cases e : a.id = j
    · subst e
      cases hq : q a.id with
      | true => simp
      | false =>
        simp only [Bool.false_eq_true, ↓reduceIte]
        rw [ih]; simp [hq]
    · cases hq : q a.id with
      | true =>
        simp only [↓reduceIte, List.find?_cons, e, decide_false]
        exact ih
      | false =>
        simp only [Bool.false_eq_true, ↓reduceIte, List.find?_cons, e, decide_false]
        exact ih

theorem strip_file? (d : Disk) (j : Nat) :
    (strip d).file? j = if d.md.segs.any (fun s => s.id == j) then d.file? j else none := by
  simp only [file?_eq_look, strip]
  exact look_filter_id d.files (fun i => d.md.segs.any (fun s => s.id == i)) j

theorem strip_fids_sub (d : Disk) : (fids (strip d)).Sublist (fids d) := by
  simp only [fids, strip]
  exact List.Sublist.map _ List.filter_sublist

theorem strip_fids_mem {d : Disk} {j : Nat} (h : j ∈ fids (strip d)) : j ∈ fids d ∧ j ∈ segIds d.md.segs := by
  simp only [fids, strip, List.mem_map, List.mem_filter, List.any_eq_true, beq_iff_eq] at h
  obtain ⟨f, ⟨hf, s, hs, e⟩, rfl⟩ := h
  exact ⟨List.mem_map.2 ⟨f, hf, rfl⟩, List.mem_map.2 ⟨s, hs, e⟩⟩

/-- the tail's file without pending batch and seals -/
def cleanF (f : File) : File := { f with pending := [], sealedP := false, sealedS := false }

theorem cleanTail_eq {d : Disk} {t : Seg} (h : d.md.segs.getLast? = some t) : cleanTail d = updT d t.id cleanF := by
  unfold cleanTail
  rw [h]; rfl

theorem any_id_iff (l : List Seg) (j : Nat) : l.any (fun s => s.id == j) = true ↔ j ∈ segIds l := by
  simp only [List.any_eq_true, beq_iff_eq, segIds, List.mem_map]

/-! ### the invariant of a running process, as a proposition -/

/-- the tail's file of a running process between calls -/
structure FTail (t : Seg) (f : File) : Prop where
  base : f.base = t.base
  lk : f.linked = true ∨ f.synced = []
  mn : t.min ≤ f.base + f.synced.length
  vis : f.synced ≠ [] → t.min < f.base + f.synced.length
  ss : f.sealedS = true → f.pending = [] ∧ f.sealedP = false

structure FRun (d : Disk) (P : List Seg) (t : Seg) (f : File) : Prop where
  base : Base d P t
  tf : d.file? t.id = some f
  ft : FTail t f

theorem FRun.last {d : Disk} {P : List Seg} {t : Seg} {f : File} (h : FRun d P t f) : d.md.segs.getLast? = some t := by
  rw [h.base.segs]; simp

/-- lookups in the cleaned disk -/
theorem cln_file? {d : Disk} {t : Seg} (hl : d.md.segs.getLast? = some t) (j : Nat) :
    (cleanTail (strip d)).file? j =
      if j = t.id then (d.file? j).map cleanF
      else if d.md.segs.any (fun s => s.id == j) then d.file? j else none := by
  have hl' : (strip d).md.segs.getLast? = some t := hl
  rw [cleanTail_eq hl', updT_file? _ _ cleanF (fun _ => rfl), strip_file?]
  have ht : d.md.segs.any (fun s => s.id == t.id) = true := by
    rw [any_id_iff]
    exact List.mem_map.2 ⟨t, List.mem_of_getLast? hl, rfl⟩
  by_cases e : j = t.id
  · subst e; simp [ht]
  · simp [e]

theorem cln_fids_mem {d : Disk} {t : Seg} (hl : d.md.segs.getLast? = some t) {j : Nat}
    (h : j ∈ fids (cleanTail (strip d))) : j ∈ fids d ∧ j ∈ segIds d.md.segs := by
  have hl' : (strip d).md.segs.getLast? = some t := hl
  rw [cleanTail_eq hl', updT_fids _ _ cleanF (fun _ => rfl)] at h
  exact strip_fids_mem h

theorem cln_fids_nodup {d : Disk} {t : Seg} (hl : d.md.segs.getLast? = some t) (hn : (fids d).Nodup) :
    (fids (cleanTail (strip d))).Nodup := by
  have hl' : (strip d).md.segs.getLast? = some t := hl
  rw [cleanTail_eq hl', updT_fids _ _ cleanF (fun _ => rfl)]
  exact hn.sublist (strip_fids_sub d)

theorem cln_md (d : Disk) : (cleanTail (strip d)).md = d.md := by
  unfold cleanTail
  split <;> rfl

end RaftWal.Fault.A
