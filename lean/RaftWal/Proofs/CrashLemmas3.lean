/-
  Proofs/CrashLemmas3.lean — the invariants at the level of propositions: `QInv` (what `quiescentB` says) and
  `Rec` (the states a crash inside a call, or inside a recovery, can leave).
-/
import RaftWal.Proofs.CrashLemmas2
namespace RaftWal.Crash

theorem nodupB_iff (l : List Nat) : nodupB l = true ↔ l.Nodup := by
  induction l with
  | nil => simp [nodupB]
  | cons a l ih => simp [nodupB, ih]

/-! ### the chain of segments -/

theorem chainOK_cons_cons (a b : Seg) (l : List Seg) :
    chainOK (a :: b :: l) = true ↔ (b.base = a.max + 1 ∧ b.min = b.base) ∧ chainOK (b :: l) = true := by
  simp [chainOK, and_assoc]

@[simp] theorem chainOK_single (a : Seg) : chainOK [a] = true := by simp [chainOK]
@[simp] theorem chainOK_nil : chainOK [] = true := by simp [chainOK]

theorem chainOK_tail {a : Seg} {l : List Seg} (h : chainOK (a :: l) = true) : chainOK l = true := by
  cases l with
  | nil => simp
  | cons b l => exact ((chainOK_cons_cons a b l).1 h).2

theorem chainOK_append (l1 l2 : List Seg) :
    chainOK (l1 ++ l2) = true ↔ chainOK l1 = true ∧ chainOK l2 = true ∧
      (∀ a b, l1.getLast? = some a → l2.head? = some b → b.base = a.max + 1 ∧ b.min = b.base) := by
  induction l1 with
  | nil => simp
  | cons a l ih =>
    cases l with
    | nil =>
      cases l2 with
      | nil => simp
      | cons b l2 =>
        simp only [List.cons_append, List.nil_append, chainOK_cons_cons, chainOK_single, List.getLast?_singleton,
          Option.some.injEq, List.head?_cons, true_and]
        constructor
        · rintro ⟨h1, h2⟩; exact ⟨h2, by rintro a' b' rfl rfl; exact h1⟩
        · rintro ⟨h1, h2⟩; exact ⟨h2 a b rfl rfl, h1⟩
    | cons b l =>
      have ih' := ih
      simp only [List.cons_append, chainOK_cons_cons] at ih' ⊢
      rw [List.getLast?_cons_cons]
      rw [show b :: (l ++ l2) = (b :: l) ++ l2 from rfl, ih]
      constructor
      · rintro ⟨h1, h2, h3, h4⟩; exact ⟨⟨h1, h2⟩, h3, h4⟩
      · rintro ⟨⟨h1, h2⟩, h3, h4⟩; exact ⟨h1, h2, h3, h4⟩

/-- along a chain whose segments (except possibly the last) have base ≤ max, bases and maxima increase -/
theorem chain_lt {a : Seg} {l : List Seg} (h : chainOK (a :: l) = true)
    (hb : ∀ s ∈ (a :: l).dropLast, s.base ≤ s.max) : ∀ b ∈ l, a.max < b.base := by
  induction l generalizing a with
  | nil => simp
  | cons b l ih =>
    intro c hc
    have h' := (chainOK_cons_cons a b l).1 h
    simp only [List.mem_cons] at hc
    rcases hc with rfl | hc
    · omega
    · have hb' : ∀ s ∈ (b :: l).dropLast, s.base ≤ s.max := by
        intro s hs; apply hb
        simp only [List.dropLast_cons_cons, List.mem_cons]; exact Or.inr hs
      have := ih h'.2 hb' c hc
      have hbb : b.base ≤ b.max := by
        apply hb
        cases l with
        | nil => simp at hc
        | cons x l => simp
      omega

/-! ### segments and their files -/

structure SealedFile (s : Seg) (f : File) : Prop where
  base : f.base = s.base
  pend : f.pending = []
  sp : f.sealedP = false
  bm : s.base ≤ s.min
  b1 : 1 ≤ s.base
  sl : s.sealed = true
  ss : f.sealedS = true
  lk : f.linked = true
  mm : s.min ≤ s.max
  mx : s.max < f.base + f.synced.length

def SealedOK (d : Disk) (s : Seg) : Prop := ∃ f, d.file? s.id = some f ∧ SealedFile s f

theorem fileOK_false_iff (d : Disk) (s : Seg) : fileOK d s false = true ↔ SealedOK d s := by
  unfold fileOK SealedOK
  cases d.file? s.id with
  | none => simp
  | some f =>
    simp only [Bool.false_eq_true, ↓reduceIte, Bool.and_eq_true, beq_iff_eq, List.isEmpty_iff, Bool.not_eq_true',
      decide_eq_true_eq, Option.some.injEq, exists_eq_left']
    constructor
    · rintro ⟨⟨⟨⟨⟨h1, h2⟩, h3⟩, h4⟩, h5⟩, ⟨⟨⟨h6, h7⟩, h8⟩, h9⟩, h10⟩
      exact ⟨h1, h2, h3, h4, h5, h6, h7, h8, h9, h10⟩
    · rintro ⟨h1, h2, h3, h4, h5, h6, h7, h8, h9, h10⟩
      exact ⟨⟨⟨⟨⟨h1, h2⟩, h3⟩, h4⟩, h5⟩, ⟨⟨⟨h6, h7⟩, h8⟩, h9⟩, h10⟩

structure QTail (t : Seg) (f : File) : Prop where
  base : f.base = t.base
  pend : f.pending = []
  sp : f.sealedP = false
  bm : t.base ≤ t.min
  b1 : 1 ≤ t.base
  sl : t.sealed = false
  ss : f.sealedS = false
  lk : f.linked = true ∨ f.synced = []
  mn : t.min ≤ f.base + f.synced.length

theorem fileOK_true_iff (d : Disk) (t : Seg) : fileOK d t true = true ↔ ∃ f, d.file? t.id = some f ∧ QTail t f := by
  unfold fileOK
  cases d.file? t.id with
  | none => simp
  | some f =>
    simp only [↓reduceIte, Bool.and_eq_true, beq_iff_eq, List.isEmpty_iff, Bool.not_eq_true',
      decide_eq_true_eq, Option.some.injEq, exists_eq_left', Bool.or_eq_true]
    constructor
    · rintro ⟨⟨⟨⟨⟨h1, h2⟩, h3⟩, h4⟩, h5⟩, ⟨⟨h6, h7⟩, h8⟩, h9⟩
      exact ⟨h1, h2, h3, h4, h5, h6, h7, h8, h9⟩
    · rintro ⟨h1, h2, h3, h4, h5, h6, h7, h8, h9⟩
      exact ⟨⟨⟨⟨⟨h1, h2⟩, h3⟩, h4⟩, h5⟩, ⟨⟨h6, h7⟩, h8⟩, h9⟩

/-- what `quiescentB` says, with the segments split into the sealed ones and the tail -/
structure QInv (d : Disk) (P : List Seg) (t : Seg) : Prop where
  segs : d.md.segs = P ++ [t]
  sealed : ∀ s ∈ P, SealedOK d s
  tail : ∃ f, d.file? t.id = some f ∧ QTail t f
  chain : chainOK (P ++ [t]) = true
  nodupS : ((P ++ [t]).map (·.id)).Nodup
  idlt : ∀ s ∈ P ++ [t], s.id < d.md.nextID
  nodupF : (fids d).Nodup
  sub : ∀ f ∈ d.files, ∃ s ∈ P ++ [t], s.id = f.id

theorem segs_split {l : List Seg} {t : Seg} (h : l.getLast? = some t) : l = l.dropLast ++ [t] := by
  have hne : l ≠ [] := by intro e; subst e; simp at h
  have := List.dropLast_concat_getLast hne
  rw [List.getLast?_eq_some_getLast hne] at h
  cases h; exact this.symm

theorem quiescent_iff (d : Disk) : Quiescent d ↔ ∃ P t, QInv d P t := by
  unfold Quiescent quiescentB
  constructor
  · intro h
    cases hl : d.md.segs.getLast? with
    | none => rw [hl] at h; simp at h
    | some t =>
      rw [hl] at h
      have hs := segs_split hl
      simp only [Bool.and_eq_true, List.all_eq_true, fileOK_false_iff, fileOK_true_iff, nodupB_iff, decide_eq_true_eq,
        List.any_eq_true, beq_iff_eq] at h
      obtain ⟨⟨⟨⟨⟨⟨h1, h2⟩, h3⟩, h4⟩, h5⟩, h6⟩, h7⟩ := h
      refine ⟨d.md.segs.dropLast, t, hs, h1, h2, ?_, ?_, ?_, h6, ?_⟩
      · rw [← hs]; exact h3
      · rw [← hs]; exact h4
      · rw [← hs]; exact h5
      · rw [← hs]; exact h7
  · rintro ⟨P, t, h⟩
    have hl : d.md.segs.getLast? = some t := by rw [h.segs]; simp
    have hd : d.md.segs.dropLast = P := by rw [h.segs]; simp
    rw [hl]
    simp only [Bool.and_eq_true, List.all_eq_true, fileOK_false_iff, fileOK_true_iff, nodupB_iff, decide_eq_true_eq,
      List.any_eq_true, beq_iff_eq, hd]
    refine ⟨⟨⟨⟨⟨⟨h.sealed, h.tail⟩, ?_⟩, ?_⟩, ?_⟩, h.nodupF⟩, ?_⟩
    · rw [h.segs]; exact h.chain
    · rw [h.segs]; exact h.nodupS
    · rw [h.segs]; exact h.idlt
    · rw [h.segs]; exact h.sub

/-! ### the recovery invariant -/

/-- a handle that has completed a Sync has made the directory entry durable -/
def HL (d : Disk) : Prop := ∀ j f, d.file? j = some f → f.hsynced = true → f.linked = true

/-- entries from `b` on, hidden below `mn` -/
def visU (mn b : Nat) (c : List Entry) : Log := (idxFrom b c).filter (fun p => decide (mn ≤ p.1))

structure Base (d : Disk) (P : List Seg) (t : Seg) : Prop where
  segs : d.md.segs = P ++ [t]
  sealed : ∀ s ∈ P, SealedOK d s
  chain : chainOK (P ++ [t]) = true
  nodupS : ((P ++ [t]).map (·.id)).Nodup
  idlt : ∀ s ∈ P ++ [t], s.id < d.md.nextID
  nodupF : (fids d).Nodup
  fidlt : ∀ j ∈ fids d, j < d.md.nextID
  tsl : t.sealed = false
  tbm : t.base ≤ t.min
  tb1 : 1 ≤ t.base
  hl : HL d

/-- the tail's file in a state a crash can leave; `A`: the admissible logs, `LP`: the sealed segments' entries -/
structure RTail (A : Log → Prop) (LP : Log) (t : Seg) (f : File) : Prop where
  base : f.base = t.base
  lk : f.linked = true ∨ (f.synced = [] ∧ f.sealedS = false)
  mn : t.min ≤ f.base + f.synced.length
  vis : f.synced ≠ [] → t.min < f.base + f.synced.length
  ss : f.sealedS = true → f.pending = [] ∧ f.sealedP = false ∧ f.synced ≠ []
  sp : f.sealedP = true → f.synced ++ f.pending ≠ []
  a1 : A (LP ++ visU t.min f.base f.synced)
  a2 : A (LP ++ visU t.min f.base (f.synced ++ f.pending))

structure Rec (A : Log → Prop) (d : Disk) (P : List Seg) (t : Seg) : Prop where
  base : Base d P t
  tsome : ∀ f, d.file? t.id = some f → RTail A (logP d P) t f
  tnone : d.file? t.id = none → t.min = t.base ∧ A (logP d P)

end RaftWal.Crash
