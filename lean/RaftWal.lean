import RaftWal.Model.Bytes
import RaftWal.Model.Codec
import RaftWal.Model.Frame
import RaftWal.Model.Segment
