import Driver.Util
import RaftWal.Model.SizeLevel
namespace Driver
open RaftWal

def sizesLine (line : String) : String :=
  match words line with
  | ["case", _] => "case"
  | ["big", size, segSize, pos, blen] =>
    let n := nat! size
    let sizes := (List.range (nat! blen)).map (fun i => if i = nat! pos then n else 10)
    if sizes.all appendAcceptsSize then
      if freshBatchSeals (nat! segSize) sizes then "ok readable sealed" else "ok readable"
    else "err"
  | "walbatch" :: ss =>
    -- every entry's encoded size (data + at most 40 bytes of codec fields) is within the maximum: accepted, readable
    if (ss.map nat!).all (fun n => appendAcceptsSize (n + 40)) then "ok readable" else "err"
  | "capped" :: _ => "ok"   -- storage with fixed-size files: whatever is acknowledged is readable (monitored on the real code)
  | "walreopen" :: _pre :: ss =>
    -- the same through a restart: what was accepted is still readable after Close and Open (recovery re-reads the last
    -- batch whatever its size)
    if (ss.map nat!).all (fun n => appendAcceptsSize (n + 40)) then "ok readable" else "err"
  | "multi" :: _segSize :: _pre :: ss =>
    -- a batch far below the segment size limit: accepted iff every entry is, never sealing
    if (ss.map nat!).all appendAcceptsSize then "ok readable" else "err"
  | _ => "bad-op"

end Driver
