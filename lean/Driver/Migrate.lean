import Driver.Util
import Driver.Wal
import RaftWal.Model.Migrate
import RaftWal.Model.Verifier
import RaftWal.Generated.Migrate
namespace Driver
open RaftWal RaftWal.Migrate

def resS : Res → String
  | .ok => "ok"
  | .ctxErr => "err-ctx"
  | .otherErr => "err"

def logDigest (ls : List Log) : Nat :=
  (ls.foldl (fun h l => Verifier.fnvBytes h (Verifier.hashInput l)) (0 : UInt64)).toNat

def parseCancel (s : String) : Option Nat := if s == "-" then none else some (nat! s)

def parseKV (s : String) : Option (Bytes × String) :=
  match s.splitOn "=" with
  | [k, v] => (parseHex k).map (fun k => (k, v))
  | _ => none

def migLine (line : String) : String :=
  match words line with
  | ["case", _] => "case"
  | "copylogs" :: bb :: cancel :: prog :: first :: toks =>
    match toks.mapM parseLogTok with
    | none => "bad-op"
    | some logs =>
      let src : Src := { first := nat! first, entries := logs }
      let bbI : Int := if bb.startsWith "-" then - (Int.ofNat (nat! (bb.drop 1).toString)) else Int.ofNat (nat! bb)
      let out := copyLogs { emptyGuard := Generated.copyLogsEmptyGuard } src { first := 0, entries := [] } bbI (parseCancel cancel)
      let sizes := ",".intercalate (out.batches.map (fun b => toString b.length))
      s!"{resS out.res} {out.dst.firstIndex} {out.dst.lastIndex} {out.dst.entries.length} {logDigest out.dst.entries} batches={sizes} progress={if prog == "p0" then "nil" else "closed"}"
  | "copydstfail" :: bb :: k :: first :: toks =>
    -- the destination rejects its k-th StoreLogs: the error is returned, the destination holds the batches before it
    match toks.mapM parseLogTok with
    | none => "bad-op"
    | some logs =>
      let src : Src := { first := nat! first, entries := logs }
      let bbI : Int := if bb.startsWith "-" then - (Int.ofNat (nat! (bb.drop 1).toString)) else Int.ofNat (nat! bb)
      let out := copyLogs { emptyGuard := Generated.copyLogsEmptyGuard } src { first := 0, entries := [] } bbI none
      let kk := nat! k
      if kk ≥ 1 ∧ kk ≤ out.batches.length then
        let kept := (out.batches.take (kk - 1)).flatten
        let fi := match kept.head? with | some l => l.index | none => 0
        let la := match kept.getLast? with | some l => l.index | none => 0
        s!"err {fi} {la} {kept.length} {logDigest kept}"
      else s!"{resS out.res} {out.dst.firstIndex} {out.dst.lastIndex} {out.dst.entries.length} {logDigest out.dst.entries}"
  | ["copyfail", _, prog] =>
    -- a failing source: the error is returned, the progress channel is closed all the same (deferred close)
    s!"err progress={if prog == "p0" then "nil" else "closed"}"
  | "copystable" :: pol :: cancel :: prog :: toks =>
    let step (acc : Option (Stable × List Bytes × List Bytes)) (t : String) : Option (Stable × List Bytes × List Bytes) :=
      acc.bind fun (s, xk, xi) =>
        if t.startsWith "I:" then (parseKV (t.drop 2).toString).map (fun (k, v) => ({ s with ints := s.ints ++ [(k, nat! v)] }, xk, xi))
        else if t.startsWith "K:" then (parseKV (t.drop 2).toString).bind (fun (k, v) => (parseHex v).map (fun v => ({ s with kvs := s.kvs ++ [(k, v)] }, xk, xi)))
        else if t.startsWith "XI:" then (parseHex (t.drop 3).toString).map (fun k => (s, xk, xi ++ [k]))
        else if t.startsWith "XK:" then (parseHex (t.drop 3).toString).map (fun k => (s, xk ++ [k], xi))
        else none
    match toks.foldl step (some ({ absentInt := if pol.startsWith "z" then .zero else .error, absent := if pol.endsWith "z" then .zero else .error }, [], [])) with
    | none => "bad-op"
    | some (src, xk, xi) =>
      let toB (s : String) : Bytes := s.toUTF8.toList
      let (r, dst) := copyStable (Generated.knownIntKeys.map toB) (Generated.knownKeys.map toB) src {} xk xi (parseCancel cancel)
      let ints := (dst.ints.map (fun (k, v) => s!"I:{toHex k}={v}")).toArray.qsort (· < ·)
      let kvs := (dst.kvs.map (fun (k, v) => s!"K:{toHex k}={toHex v}")).toArray.qsort (· < ·)
      let body := " ".intercalate (ints.toList ++ kvs.toList)
      s!"{resS r}{if body.isEmpty then "" else " " ++ body} progress={if prog == "p0" then "nil" else "closed"}"
  | _ => "bad-op"

end Driver
