import Driver.Util
import RaftWal.Model.Segment
import RaftWal.Model.SegmentRun
import RaftWal.Model.SegmentRepair
import RaftWal.Spec.Format
namespace Driver
open RaftWal

structure SegSt where
  file : Bytes := []
  hasFile : Bool := false
  hasW : Bool := false
  hasR : Bool := false
  w : Writer := default
  /-- a failed append or seal may have left bytes behind the tail (segment/writer.go `staleTail`) -/
  dirty : Bool := false
  sealedInfo : SegInfo := default
  bufSize : Nat := minBufSize
  /-- README-level history (base, id, codec, batches) while the file has only seen fault-free appends since `new`;
      `none` once anything else touched it (faults, tears, ForceSeal, damage, recovery) -/
  spec : Option (Nat × Nat × Nat × List Spec.Batch) := none
  deriving Inhabited

def segErr : SegErr → String
  | .sealed => "sealed"
  | .corrupt => "corrupt"
  | .notFound => "notfound"
  | _ => "other"

def parseFault (s : String) : IoFault :=
  if s == "n" then .none
  else if s == "s" then .sync
  else if s.startsWith "w" then .write (nat! (s.drop 1).toString)
  else .none

def parseEntry (s : String) : Option (Nat × Bytes) :=
  match s.splitOn ":" with
  | [i, h] => (parseHex h).map (fun b => (nat! i, b))
  | _ => none

def mkInfo (id base min max codec indexStart size : String) (sealed : Bool) : SegInfo :=
  { id := nat! id, base := nat! base, min := nat! min, max := nat! max, codec := nat! codec,
    indexStart := nat! indexStart, sizeLimit := nat! size, sealed := sealed }

def segLine0 (st : SegSt) (line : String) : SegSt × String :=
  match words line with
  | ["case", _] => ({}, "case")
  | ["bufsize", n] => ({ st with bufSize := nat! n }, "ok")
  | ["new", id, base, min, codec, size] =>
    let info := mkInfo id base min "0" codec "0" size false
    if info.base = 0 then ({ st with hasW := false, hasFile := false }, "err other") else
    ({ st with file := zeros info.sizeLimit, w := Writer.create info, dirty := false, hasW := true, hasFile := true,
               spec := some (info.base, info.id, info.codec, []) }, "ok")
  | "app" :: fault :: ents =>
    match ents.mapM parseEntry with
    | none => (st, "bad-op")
    | some es =>
      let (e, (w, dirty), file) := appendD (st.w, st.dirty) st.file es (parseFault fault)
      let spec := match st.spec, e, parseFault fault with
        | some (b, i, c, bs), none, .none =>
          some (b, i, c, bs ++ [{ payloads := es.map (·.2), sealing := w.sealedW.1 && !st.w.sealedW.1 }])
        | _, _, _ => none
      ({ st with w := w, dirty := dirty, file := file, spec := spec }, match e with | none => "ok" | some e => "err " ++ segErr e)
  | "tear" :: mask :: ents =>
    match ents.mapM parseEntry with
    | none => (st, "bad-op")
    | some es =>
      let before := cleanFile (st.w, st.dirty) st.file
      let (e, w, after) := st.w.append before es .none
      match e with
      | some e => (st, "err " ++ segErr e)
      | none =>
        let wrOff := st.w.writeOffset
        let wrLen := w.writeOffset - wrOff
        let m := mask.toList
        let img := tearImage before after wrOff wrLen (fun j => m.getD (j % m.length) '0' == '1')
        ({ st with file := img, w := default, hasW := false, spec := none }, "ok")
  | ["seal", fault] =>
    let (r, (w, dirty), file) := forceSealD (st.w, st.dirty) st.file (parseFault fault)
    ({ st with w := w, dirty := dirty, file := file, spec := none }, match r with | .ok is => s!"ok {is}" | .error e => "err " ++ segErr e)
  | ["sealed"] =>
    let (b, is) := st.w.sealedW
    (st, if b then s!"true {is}" else "false")
  | ["last"] => (st, toString st.w.commitIdx)
  | ["get", idx] =>
    (st, match st.w.getLog st.file (nat! idx) st.bufSize with
      | .ok b => "ok " ++ toHex b
      | .error e => "err " ++ segErr e)
  | ["file"] =>
    let m := s!"{st.file.length} {(crc32c st.file).toNat}"
    match st.spec with
    | some (b, i, c, bs) =>
      -- the README encoder's bytes for the same batch history, zero-filled to the file's length
      let l := Spec.layout b i c bs
      let sf := l ++ zeros (st.file.length - l.length)
      (st, m ++ " ## " ++ s!"{sf.length} {(crc32c sf).toNat}")
    | none => (st, m)
  | ["filehex"] => (st, toHex st.file)
  | ["crcwalk"] =>
    let (c, e, bad) := Spec.walk st.file
    (st, s!"commits={c} entries={e} bad={bad}")
  | ["hdrat", off] =>
    let o := nat! off
    if o + 8 > st.file.length then (st, "out-of-file") else
    let b := (st.file.drop o).take 8
    let g (i : Nat) : Nat := (b.getD i 0).toNat
    (st, s!"{g 0} {g 4 + g 5 * 256 + g 6 * 65536 + g 7 * 16777216}")
  | ["setfile", hex] =>
    match parseHex hex with
    | none => (st, "bad-op")
    | some b => ({ st with file := b, spec := none }, "ok")
  | ["mut", off, hex] =>
    match parseHex hex with
    | none => (st, "bad-op")
    | some b => ({ st with file := writeAt st.file (nat! off) b, spec := none }, "ok")
  | ["trunc", n] => ({ st with file := st.file.take (nat! n), spec := none }, "ok")
  | ["recover", id, base, min, codec, size] =>
    let info := mkInfo id base min "0" codec "0" size false
    (match recoverTail info st.file with
      | .ok (w, file) => ({ st with w := w, dirty := false, file := file, hasW := true, spec := none }, "ok")
      | .error e => ({ st with hasW := false, spec := none }, "err " ++ segErr e))
  | ["opensealed", id, base, min, max, codec, indexStart, size] =>
    let info := mkInfo id base min max codec indexStart size true
    (match openSealed info st.file with
      | .ok _ => ({ st with sealedInfo := info, hasR := true }, "ok")
      | .error e => ({ st with hasR := false }, "err " ++ segErr e))
  | ["sget", idx] =>
    (st, match sealedGetLog st.sealedInfo st.file (nat! idx) st.bufSize with
      | .ok b => "ok " ++ toHex b
      | .error e => "err " ++ segErr e)
  | ["dump", base, after, before] =>
    let (out, err) := dumpSegment st.file (nat! base) (nat! after) (nat! before)
    let body := " ".intercalate (out.map (fun (i, b) => s!"{i}:{toHex b}"))
    (st, (if err then "err " else "ok ") ++ toString out.length ++ " " ++ body)
  | _ => (st, "bad-op")

def segLine (st : SegSt) (line : String) : SegSt × String :=
  match (words line).head? with
  | some op =>
    if ["app", "tear", "seal", "sealed", "last", "get"].contains op ∧ ¬ st.hasW then (st, "err nowriter")
    else if op = "sget" ∧ ¬ st.hasR then (st, "err noreader")
    else if ["file", "filehex", "hdrat", "crcwalk", "mut", "trunc", "recover", "opensealed", "dump"].contains op ∧ ¬ st.hasFile then (st, "err nofile")
    else segLine0 st line
  | none => (st, "bad-op")

end Driver
