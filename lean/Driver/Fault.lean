import Driver.Util
import Driver.Crash
import RaftWal.Model.Fault
import RaftWal.Proofs.FaultDefs
/-!
  Driver/Fault.lean — line protocol for Model/Fault.lean (suite `faultm`).
    case <id>                                   a fresh directory, Open
    f <plan> store <first> <seal> e1 e2…
    f <plan> del <min> <max>
    f <plan> setu <k> <v>                       one call under a fault plan: `-` (no fault) or one letter per I/O action the
                                                call gets to: `.` succeeds, `x` fails, for a pwrite `n`/`g`/`w` = fails with
                                                nothing / part / all of the batch in the file
                                                -> ok|err  <first last n hash of what readers see>
    frestart                                    clean restart -> summary of the recovered log | err
-/
namespace Driver
open RaftWal RaftWal.Crash RaftWal.Fault

structure FaultSt where
  p : Option Proc := Fault.init
  deriving Inhabited

def logSummaryOf (l : List (Nat × Entry)) : String :=
  let h := l.foldl (fun acc p => (acc + p.1 * 1000003 + p.2) % 18446744073709551616) 0
  let first := match l.head? with | some p => p.1 | none => 0
  let last := match l.getLast? with | some p => p.1 | none => 0
  s!"{first} {last} {l.length} {h}"

def planOf (s : String) : Plan :=
  if s == "-" then [] else
  s.toList.map (fun c => if c == '.' then none else if c == 'w' then some .whole else if c == 'g' then some .garbage else some .nothing)

def answer (p : Proc) (ok : Bool) : String :=
  s!"{if ok then "ok" else "err"} {logSummaryOf (view p)}"

def faultLine (st : FaultSt) (line : String) : FaultSt × String :=
  match words line with
  | ["case", _] => ({}, "case")
  | ["finv"] => (st, match st.p with | none => "nowal" | some p => if finvSB p then "true" else "false")
  | ["frestart"] =>
    match st.p with
    | none => (st, "err")
    | some p => match restart p with
      | none => ({ p := none }, "err")
      | some p' => ({ p := some p' }, logSummaryOf (view p'))
  | "f" :: pls :: rest =>
    match st.p with
    | none => (st, "err nowal")
    | some p =>
      let pl := planOf pls
      let l := view p
      let first := match l.head? with | some q => q.1 | none => 0
      let last := match l.getLast? with | some q => q.1 | none => 0
      let go := fun (op : Op) => let (p', ok) := Fault.runOp p op pl; (({ p := some p' } : FaultSt), answer p' ok)
      match rest with
      | "store" :: fi :: sl :: es =>
        let fi := nat! fi
        -- refused before any I/O: an empty batch is a no-op, a gap or a repeat is an error
        if es.isEmpty then (st, answer p true)
        else if !l.isEmpty ∧ fi ≠ last + 1 then (st, answer p false)
        else go (.store fi (es.map nat!) (sl == "1"))
      | ["del", mn, mx] =>
        let mn := nat! mn
        let mx := nat! mx
        if mn > mx then (st, answer p true)
        else if p.frozen.isSome then (st, answer p false)
        else if mx < first ∨ mn > last then (st, answer p true)
        else if mn ≤ first then go (.delHead ((if mx > last then last else mx) + 1))
        else if mx ≥ last then go (.delTail (mn - 1))
        else (st, answer p false)
      | ["setu", key, v] => go (.set (nat! key) (nat! v))
      | _ => (st, "bad-op")
  | _ => (st, "bad-op")

end Driver
