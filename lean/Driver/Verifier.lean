import Driver.Util
import Driver.Wal
import RaftWal.Model.Verifier
import RaftWal.Generated.Verifier
namespace Driver
open RaftWal RaftWal.Verifier

structure VerSt where
  nodes : List (Nat × Node) := []
  deriving Inhabited

def VerSt.get (s : VerSt) (id : Nat) : Node := ((s.nodes.find? (·.1 = id)).map (·.2)).getD {}
def VerSt.set (s : VerSt) (id : Nat) (n : Node) : VerSt :=
  { nodes := (s.nodes.filter (·.1 ≠ id)) ++ [(id, n)] }

def rerrS : RErr → String
  | .none => "none"
  | .checksumInFlight => "mismatch-inflight"
  | .checksumStorage => "mismatch-storage"
  | .rangeMismatch => "range-mismatch"
  | .readError => "read-error"

def showReport (r : Report) : String :=
  let sk := match r.skipped with | none => "-" | some (a, b) => s!"{a}..{b}"
  s!"report {r.start} {r.stop} {r.expected.toNat} {r.written.toNat} {r.read.toNat} {rerrS r.err} {sk}"

def verNodeLine (st : VerSt) (line : String) : VerSt × String :=
  match words line with
  | "vstore" :: id :: toks =>
    match toks.mapM parseLogTok with
    | none => (st, "bad-op")
    | some logs =>
      let (n, _, e) := (st.get (nat! id)).storeLogs logs
      (st.set (nat! id) n, if e then "err" else "ok")
  | "vstorefail" :: id :: toks =>
    -- the store underneath rejects the batch: the model's own StoreLogs over a store that refuses (a closed one),
    -- the store itself is put back afterwards
    match toks.mapM parseLogTok with
    | none => (st, "bad-op")
    | some logs =>
      let n0 := st.get (nat! id)
      let (n, _, e) := ({ n0 with store := { n0.store with closed := true } }).storeLogs logs
      (st.set (nat! id) { n with store := { n.store with closed := n0.store.closed } }, if e then "err" else "ok")
  | ["vdelfail", id, mn, mx] =>
    let n0 := st.get (nat! id)
    let (n, e) := ({ n0 with store := { n0.store with closed := true } }).deleteRange (nat! mn) (nat! mx)
    (st.set (nat! id) { n with store := { n.store with closed := n0.store.closed } }, if e then "err" else "ok")
  | ["vdel", id, mn, mx] =>
    let (n, e) := (st.get (nat! id)).deleteRange (nat! mn) (nat! mx)
    (st.set (nat! id) n, if e then "err" else "ok")
  | ["vget", id, idx] =>
    (st, match (st.get (nat! id)).getLog (nat! idx) with | .ok l => showLog l | .error e => serrS e)
  | ["uget", id, idx] =>
    (st, match (st.get (nat! id)).store.get (nat! idx) with | .ok l => showLog l | .error e => serrS e)
  | ["vfirst", id] => (st, toString (st.get (nat! id)).store.firstIndex)
  | ["vlast", id] => (st, toString (st.get (nat! id)).store.lastIndex)
  | ["pending", id] => (st, if (st.get (nat! id)).busy.isSome then "1" else "0")
  | "expect" :: _ => (st, "ok")
  | ["release", id] =>
    let (n, r) := (st.get (nat! id)).release
    (st.set (nat! id) n, match r with | none => "none" | some r => showReport r)
  | ["restart", id] => (st.set (nat! id) (st.get (nat! id)).restart, "ok")
  | ["corrupt", id, idx, tok] =>
    match parseLogTok tok with
    | none => (st, "bad-op")
    | some l =>
      let n := st.get (nat! id)
      (st.set (nat! id) { n with atRest := (n.atRest.filter (·.1 ≠ nat! idx)) ++ [(nat! idx, l)] }, "ok")
  | ["uncorrupt", id] => (st.set (nat! id) { st.get (nat! id) with atRest := [] }, "ok")
  | "vmetrics" :: id :: _ =>
    let n := st.get (nat! id)
    (st, s!"cp={n.cpWritten} dropped={n.dropped} verified={n.verified} readfail={n.readFail} writefail={n.writeFail}")
  | _ => (st, "bad-op")

def verLine (st : VerSt) (line : String) : VerSt × String :=
  match words line with
  | ["case", _] => ({}, "case")
  | ["node", id] => (st.set (nat! id) { resetOnDelete := Generated.verifierDeleteResets }, "ok")
  | ["sum", tok] =>
    -- checksumLog 0 of one entry (differential check of FNV-1a / field order)
    match parseLogTok tok with
    | none => (st, "bad-op")
    | some l => (st, toString (checksumLog 0 l).toNat)
  | _ :: id :: _ =>
    if (st.nodes.find? (·.1 = nat! id)).isNone then (st, "err nonode") else verNodeLine st line
  | _ => (st, "bad-op")

end Driver
