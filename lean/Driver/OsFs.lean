import Driver.Util
import RaftWal.Model.OsFs
namespace Driver
open RaftWal.OsFs

def sysS : Sys → String
  | .openCreatExcl n => s!"open-creat-excl {n}"
  | .openCreat n => s!"open-creat {n}"
  | .openRW n => s!"open-rw {n}"
  | .fallocate n sz => s!"fallocate {n} {sz}"
  | .pwrite n => s!"pwrite {n}"
  | .fsync n => s!"fsync {n}"
  | .fsyncDir => "fsync-dir"
  | .unlink n => s!"unlink {n}"
  | .rename a b => s!"rename {a} {b}"

def seqS (l : List Sys) : String := " ; ".intercalate (l.map sysS)

/-- predicted canonical system-call sequence of one call of the production storage layer -/
def osfsLine (line : String) : String :=
  match words line with
  | ["case", _] => "case"
  | ["create", name, size] => seqS (fsCreate name (nat! size))
  | ["sync", name, first] => seqS (fsFileSync name (first == "1"))
  | ["delete", name] => seqS (fsDelete name)
  | ["openw", name] => seqS (fsOpenWriter name)
  | ["metainit", tmp, final] => seqS (metaInit tmp final)
  | "hdeletes" :: name :: outcomes =>
    -- successive Deletes of one existing name; per call the kernel's answer to the directory fsync
    let step := fun (acc : OState × List String) (o : String) =>
      let (calls, ack) := fsDeleteF acc.1 name (o == "1")
      ((run acc.1 calls).getD acc.1, acc.2 ++ [seqS calls ++ (if ack then " -> ok" else " -> err")])
    " | ".intercalate (outcomes.foldl step ((({} : OState).set name { exist := true }), [])).2
  | "hsyncs" :: name :: outcomes =>
    -- successive Syncs on one fresh handle; per call the kernel's answers "<fileOk><dirOk>"
    let step := fun (acc : Handle × List String) (o : String) =>
      let (h', calls, ack) := fileSync .afterDirSync acc.1 ⟨o.take 1 == "1", (o.drop 1).take 1 == "1"⟩
      (h', acc.2 ++ [seqS calls ++ (if ack then " -> ok" else " -> err")])
    " | ".intercalate (outcomes.foldl step ({ name := name }, [])).2
  | _ => "bad-op"

end Driver
