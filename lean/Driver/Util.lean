/-
  Driver/Util.lean — line-protocol helpers (hex, tokens). Not part of any theorem.
-/
import RaftWal.Model.Bytes
namespace Driver
open RaftWal

def hexVal (c : Char) : Option Nat :=
  if '0' ≤ c ∧ c ≤ '9' then some (c.toNat - 48)
  else if 'a' ≤ c ∧ c ≤ 'f' then some (c.toNat - 87)
  else if 'A' ≤ c ∧ c ≤ 'F' then some (c.toNat - 55)
  else none

/-- "-" is the empty byte string -/
def parseHex (s : String) : Option Bytes :=
  if s == "-" then some [] else
  let rec go : List Char → List UInt8 → Option Bytes
    | [], acc => some acc.reverse
    | [_], _ => none
    | a :: b :: rest, acc =>
      match hexVal a, hexVal b with
      | some x, some y => go rest ((x * 16 + y).toUInt8 :: acc)
      | _, _ => none
  go s.toList []

def hexChar (n : Nat) : Char := if n < 10 then Char.ofNat (48 + n) else Char.ofNat (87 + n)

def toHex (bs : Bytes) : String :=
  if bs.isEmpty then "-" else
  String.ofList (bs.foldr (fun b acc => hexChar (b.toNat / 16) :: hexChar (b.toNat % 16) :: acc) [])

def words (line : String) : List String :=
  (line.splitOn " ").filter (· ≠ "")

def nat! (s : String) : Nat := s.toNat?.getD 0

partial def readLines (h : IO.FS.Stream) (f : String → IO Unit) : IO Unit := do
  let line ← h.getLine
  if line.isEmpty then return ()
  let line := if line.endsWith "\n" then (line.dropEnd 1).toString else line
  f line
  readLines h f

end Driver
