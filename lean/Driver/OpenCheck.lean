import Driver.Util
import Driver.Segment
import RaftWal.Model.OpenCheck
namespace Driver
open RaftWal RaftWal.OpenCheck

/-- `open <codecId> <nseg> {id base min max indexStart sealed codec sizeLimit}*nseg {hex}*nfiles`
    the files are given as raw contents (hex; "-" for an empty file); their names are not sent: a file is entered in the
    model's directory under the name the model derives from the header-independent pair the harness sends with it
    (`base:id:hex`), so that a mismatch in file naming shows up as a missing file. -/
def openLine (line : String) : String :=
  match words line with
  | ["case", _] => "case"
  | "open" :: codec :: nseg :: rest =>
    let n := nat! nseg
    let segToks := rest.take (8 * n)
    let fileToks := rest.drop (8 * n)
    let rec segs : List String → List SegInfo
      | id :: base :: min :: max :: is :: sealed :: cd :: size :: more =>
        mkInfo id base min max cd is size (sealed == "1") :: segs more
      | _ => []
    let files : Option Dir := fileToks.mapM fun t =>
      match t.splitOn ":" with
      | [name, hex] => (if hex == "-" then some [] else parseHex hex).map (fun b => (name, b))
      | _ => none
    match files with
    | none => "bad-op"
    | some dir =>
      match walOpenCheck dir (segs segToks) (nat! codec) with
      | .ok .noTail => "ok notail"
      | .ok (.created _) => "ok created"
      | .ok (.recovered w _) => s!"ok recovered {w.commitIdx}"
      | .ok (.sealedTail w _) => s!"ok sealedtail {w.commitIdx}"
      | .error .notExist => "err notexist"
      | .error .corrupt => "err corrupt"
      | .error .unknownCodec => "err codec"
      | .error .unsealedNotTail => "err unsealed-not-tail"
      | .error .createBaseZero => "err create-base-zero"
      | .error (.tail e) => "err tail-" ++ segErr e
  | _ => "bad-op"

end Driver
