import Driver.Util
import RaftWal.Spec.Format
import RaftWal.Model.Verifier
namespace Driver
open RaftWal

/-- independent README decoder on a raw segment file: number of committed payloads and their FNV digests -/
def goldenLine (line : String) : String :=
  match words line with
  | ["case", _] => "case"
  | ["specdecode", hex] =>
    match parseHex hex with
    | none => "bad-op"
    | some file =>
      let ps := Spec.decode file
      s!"{ps.length} " ++ " ".intercalate (ps.map (fun p => toString (Verifier.fnvBytes 0 p).toNat))
  | "expect" :: _ => "ok"
  | _ => "bad-op"

end Driver
