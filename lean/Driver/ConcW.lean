import Driver.Util
import RaftWal.Model.ConcW
import RaftWal.Generated.Conc
namespace Driver
open RaftWal.ConcW

def parseSchedW (s : String) : List Tid :=
  (s.splitOn ",").filterMap fun t =>
    if t == "r" then some .rotator
    else if t == "c" then some .closer
    else if t.startsWith "w" then some (.writer (nat! (t.drop 1).toString))
    else none

def wresS : WRes → String
  | .ok => "ok" | .errClosed => "closed" | .panic => "panic"

def wpcS : WPc → String
  | .done r => wresS r
  | .waiting _ => "waiting"
  | _ => "running"

/-- the configuration the fact extractor read from wal.go -/
def cfgFromSource : Cfg :=
  { recheckAfterAwait := RaftWal.Generated.writersRecheckClosedUnderLock,
    closeWakes := RaftWal.Generated.closeWakesRotationWaiter,
    rotatorRechecks := RaftWal.Generated.rotationRechecksClosed }

/-- `concw <seals e.g. 1,0> <sched>`: outcomes of the writers, Close, the rotation goroutine -/
def concwLine (line : String) : String :=
  match words line with
  | ["case", _] => "case"
  | ["concw", seals, sched] =>
    let sl := if seals == "-" then [] else (seals.splitOn ",").map (· == "1")
    let s := run cfgFromSource (init sl) (parseSchedW sched)
    let ws := " ".intercalate (s.writers.map (fun w => wpcS w.pc))
    let rp := match s.rpc with | .exited => "exited" | .idle => "idle" | _ => "busy"
    s!"writers=[{ws}] close={if s.cpc == .done then "done" else "running"} rotator={rp} rotations={s.rotations} panic={s.bad} io-after-close={s.ioAfterClose}"
  | _ => "bad-op"

end Driver
