import Driver.Util
import RaftWal.Model.Codec
import RaftWal.Generated.Codec
namespace Driver
open RaftWal

/-- what Go's accessors show for a decoded time: `t.wall = uint64(int32 nsec)`, `t.ext = sec`;
    re-marshalling yields (sec', nsec') below (Go `time` internals: bit 63 of wall = hasMonotonic,
    low 30 bits = nanoseconds). Display only; not part of the model. -/
def showTime (t : WTime) : String :=
  let off := if t.rawOffset = -60 then 0 else t.rawOffset
  if t.nsec < 2^31 then s!"{t.sec} {t.nsec % 2^30} {off}"
  else
    let wall := 2^64 - 2^32 + t.nsec
    s!"{(59453308800 + (wall / 2^30) % 2^33) % 2^64} {wall % 2^30} {off}"

def parseLogArgs (idx term typ data ext time : String) : Option Log := do
  let d ← parseHex data
  let e ← parseHex ext
  let t ← if time == "!" then some none else do
    let tb ← parseHex time
    let wt ← unmarshalTime tb
    pure (some wt)
  pure { index := nat! idx, term := nat! term, typ := nat! typ, data := d, ext := e, time := t }

def codecLine (line : String) : String :=
  match words line with
  | ["enc", idx, term, typ, data, ext, time] =>
    match parseLogArgs idx term typ data ext time with
    | none => "bad-op"
    | some l => match encode l with
      | none => "err"
      | some bs => "ok " ++ toHex bs
  | ["dec", hex] =>
    match parseHex hex with
    | none => "bad-op"
    | some bs => match decode Generated.decodeCfg bs with
      | .ok l => s!"ok {l.index} {l.term} {l.typ} {toHex l.data} {toHex l.ext} {showTime (l.time.getD WTime.zero)}"
      | .err => "err"
      | .panic => "panic"
  | _ => "bad-op"

end Driver
