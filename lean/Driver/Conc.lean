import Driver.Util
import RaftWal.Model.Conc
import RaftWal.Generated.Conc
namespace Driver
open RaftWal.Conc

def parseNatList (s : String) : List Nat := if s == "-" then [] else (s.splitOn ",").map nat!

def parseMuts (s : String) : List Mutation :=
  if s == "-" then [] else (s.splitOn ";").map fun m =>
    match m.splitOn "|" with
    | [k, a] => { keep := parseNatList k, add := parseNatList a }
    | _ => { keep := [], add := [] }

def parseSched (s : String) : List Tid :=
  (s.splitOn ",").filterMap fun t =>
    if t == "w" then some .writer
    else if t == "c" then some .closer
    else if t.startsWith "r" then some (.reader (nat! (t.drop 1).toString))
    else none

def rresS : RRes → String
  | .ok => "ok" | .notFound => "notfound" | .errClosed => "closed" | .errFile => "file-closed" | .panic => "panic"

def rpcS : RPc → String
  | .done r => rresS r
  | .finished _ r => "unreleased:" ++ rresS r
  | _ => "running"

/-- `conc <files> <wants> <muts> <sched>`: outcomes of the readers, whether Close finished, which handles were closed -/
def concLine (line : String) : String :=
  match words line with
  | ["case", _] => "case"
  | ["conc", files, wants, muts, sched] =>
    let s0 := init (parseNatList files) (parseNatList wants) (parseMuts muts)
    let s := run { readersCheckEmpty := RaftWal.Generated.readersCheckEmptyState } s0 (parseSched sched)
    let rs := " ".intercalate (s.readers.map (fun r => rpcS r.pc))
    s!"readers=[{rs}] close={if s.cpc == .done then "done" else "running"} writer-pending={s.wqueue.length} double-close={s.doubleClose}"
  | _ => "bad-op"

end Driver
