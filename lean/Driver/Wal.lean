import Driver.Util
import Driver.Codec
import RaftWal.Model.Wal
import RaftWal.Spec.Log
import RaftWal.Generated.Consts
import RaftWal.Generated.Codec
namespace Driver
open RaftWal

structure WalSt where
  w : Option Wal := none
  s : Spec.SLog := { first := 0, entries := [] }
  /-- "late" seen: the background rotation the next append queues is held back by the harness -/
  late : Bool := false
  /-- a held rotation is pending: the value of the rotation counter before the append that queued it.  The model
      rotates synchronously; when the very next call is Close (or a restart) the rotation goroutine never performs
      the rotation — the next Open completes it as part of recovery, which is not counted in `segment_rotations` -/
  pendingRot : Option Nat := none
  /-- shut down with the held rotation pending and not opened again since: on disk the rotation has not happened
      (sealed tail file, unsealed in meta) — the directory is not compared until the next Open has completed it -/
  unsettled : Bool := false
  deriving Inhabited

def errS : Err → String
  | .notFound => "err notfound"
  | .closed => "err closed"
  | .sealed => "err sealed"
  | .corrupt => "err corrupt"
  | .other => "err other"

def serrS : Spec.SErr → String
  | .notFound => "err notfound"
  | .closed => "err closed"
  | .rejected => "err other"

def showLog (l : Log) : String :=
  s!"ok {l.index} {l.term} {l.typ} {toHex l.data} {toHex l.ext} {showTime (l.time.getD WTime.zero)}"

def parseLogTok (s : String) : Option Log :=
  match s.splitOn ":" with
  | [i, t, ty, d, e, tm] => parseLogArgs i t ty d e tm
  | _ => none

def showSeg (s : SegS) : String :=
  s!"{s.id}/{s.base}/{s.min}/{s.max}/{s.indexStart}/{if s.sealed then 1 else 0}/{s.codec}"

def cnt (f l : Nat) : Nat := if l = 0 ∨ l < f then 0 else l - f + 1

/-- how many entries a DeleteRange really removed and from which end (from first/last before and after) -/
def delAnswer (f0 l0 f1 l1 mn : Nat) : String :=
  let c0 := cnt f0 l0
  let c1 := cnt f1 l1
  if c0 ≤ c1 then "ok none 0" else s!"ok {if mn ≤ f0 then "head" else "tail"} {c0 - c1}"

def both (m sp : String) : String := m ++ " ## " ++ sp

def walLineCore (st : WalSt) (line : String) : WalSt × String :=
  match words line with
  | ["case", _] => ({}, "case")
  | ["open", size, codecId] =>
    let cid := nat! codecId
    let nsc := if Generated.newSegmentRecordsConfiguredCodec then cid else Generated.wal_CodecBinaryV1
    -- `applyDefaultsAndValidate`: a custom codec must not use a reserved ID
    if cid ≠ Generated.wal_CodecBinaryV1 ∧ cid < Generated.wal_FirstExternalCodecID then ({ st with w := none }, "err other") else
    match Wal.init { segmentSize := nat! size, codecId := cid, newSegCodec := nsc } with
    | none => ({ st with w := none }, "err other")
    | some w => ({ w := some w, s := { first := 0, entries := [] } }, "ok")
  | _ =>
  match st.w with
  | none => (st, "err nowal")
  | some w =>
  match words line with
  | ["fmtcheck"] => (st, "ok")   -- harness-only: README layout of the real files (bytes are Model.Segment's business)
  | ["late"] => ({ st with late := true }, "ok")   -- harness-only: the next append's background rotation is held back (same sequential meaning)
  | "store" :: toks =>
    match toks.mapM parseLogTok with
    | none => (st, "bad-op")
    | some logs =>
      let (w', e) := w.storeLogs logs
      let (s', se) := st.s.store logs
      ({ w := some w', s := s' }, both (match e with | none => "ok" | some e => errS e) (match se with | none => "ok" | some e => serrS e))
  | ["del", mn, mx] =>
    let (w', e) := w.deleteRange (nat! mn) (nat! mx)
    let (s', se) := st.s.delete (nat! mn) (nat! mx)
    let m := match e with
      | none => delAnswer w.firstIndex w.lastIndex w'.firstIndex w'.lastIndex (nat! mn)
      | some e => errS e
    let sp := match se with
      | none => delAnswer st.s.firstIndex st.s.lastIndex s'.firstIndex s'.lastIndex (nat! mn)
      | some e => serrS e
    ({ w := some w', s := s' }, both m sp)
  | ["get", idx] =>
    let (w', r) := w.getLog (nat! idx)
    ({ st with w := some w' }, both (match r with | .ok l => showLog l | .error e => errS e)
                                    (match st.s.get (nat! idx) with | .ok l => showLog l | .error e => serrS e))
  | ["first"] =>
    (st, both (match w.firstIndexApi with | .ok n => toString n | .error e => errS e)
              (if st.s.closed then "err closed" else toString st.s.firstIndex))
  | ["last"] =>
    (st, both (match w.lastIndexApi with | .ok n => toString n | .error e => errS e)
              (if st.s.closed then "err closed" else toString st.s.lastIndex))
  | ["barrier"] => (st, if w.closed then "err closed" else "ok")
  | ["close"] => ({ w := some w.close, s := st.s.close }, "ok")
  | ["reopen", codecId] =>
    let cid := nat! codecId
    let nsc := if Generated.newSegmentRecordsConfiguredCodec then cid else Generated.wal_CodecBinaryV1
    if cid ≠ Generated.wal_CodecBinaryV1 ∧ cid < Generated.wal_FirstExternalCodecID then ({ st with w := some w.close, s := st.s.close }, "err other") else
    match ({ w with cfg := { w.cfg with codecId := cid, newSegCodec := nsc } } : Wal).reopen with
    | none => ({ st with w := some w.close, s := st.s.close }, "err other")
    | some w' => ({ w := some w', s := st.s.reopen }, "ok")
  | ["set", k, v] =>
    match parseHex k, (if v == "nil" then some none else (parseHex v).map some) with
    | some k, some v =>
      let (w', e) := w.setStable k v
      ({ st with w := some w' }, match e with | none => "ok" | some e => errS e)
    | _, _ => (st, "bad-op")
  | ["getk", k] =>
    match parseHex k with
    | some k =>
      let (w', r) := w.getStable k
      ({ st with w := some w' }, match r with
        | .ok none => "ok nil"
        | .ok (some v) => if v.isEmpty then "ok nil" else "ok " ++ toHex v
        | .error e => errS e)
    | none => (st, "bad-op")
  | ["setu", k, v] =>
    match parseHex k with
    | some k =>
      let (w', e) := w.setUint64 k (nat! v)
      ({ st with w := some w' }, match e with | none => "ok" | some e => errS e)
    | none => (st, "bad-op")
  | ["getu", k] =>
    match parseHex k with
    | some k =>
      let (w', r) := w.getUint64 k
      ({ st with w := some w' }, match r with | .ok n => s!"ok {n}" | .error e => errS e)
    | none => (st, "bad-op")
  | ["ctr"] =>
    let c := w.ctr
    (st, s!"appends={c.appends} entriesW={c.entriesW} bytesW={c.bytesW} entriesR={c.entriesR} bytesR={c.bytesR} rot={c.rotations} head={c.headTrunc} tail={c.tailTrunc} gets={c.stableGets} sets={c.stableSets}")
  | ["files"] =>
    let names := (w.files.map (fun f => fileName f.base f.id))
    (st, " ".intercalate (names.toArray.qsort (· < ·)).toList)
  | ["meta"] =>
    (st, s!"{w.nextID} " ++ " ".intercalate (w.segs.map (fun s => showSeg s.1)))
  | _ => (st, "bad-op")

def rotOf (st : WalSt) : Nat := match st.w with | some w => w.ctr.rotations | none => 0

/-- one op line.  Around the sequential model: the bookkeeping of a rotation the harness holds back ("late"). -/
def walLine (st : WalSt) (line : String) : WalSt × String :=
  match words line with
  | "case" :: _ => walLineCore st line
  | "open" :: _ => walLineCore st line
  | "store" :: _ =>
    let r0 := rotOf st
    let (st', out) := walLineCore st line
    ({ st' with late := false, pendingRot := if st.late ∧ rotOf st' > r0 then some r0 else none }, out)
  | ["late"] =>
    let (st', out) := walLineCore st line
    ({ st' with late := st.late || out == "ok", pendingRot := none }, out)
  | w0 :: _ =>
    let shuts := w0 == "close" ∨ w0 == "reopen"
    let st0 : WalSt :=
      if shuts then
        match st.pendingRot, st.w with
        | some r, some w => { st with w := some { w with ctr := { w.ctr with rotations := r } } }
        | _, _ => st
      else st
    if st.unsettled ∧ (w0 == "files" ∨ w0 == "meta" ∨ w0 == "fmtcheck") then (st, "unsettled") else
    let (st', out) := walLineCore st0 line
    let uns := if w0 == "close" then st.unsettled || st.pendingRot.isSome
               else if w0 == "reopen" then (out != "ok") && (st.unsettled || st.pendingRot.isSome)
               else st.unsettled
    ({ st' with late := st.late, pendingRot := none, unsettled := uns }, out)
  | [] => walLineCore st line

end Driver
