import Driver.Codec
import Driver.Segment
import Driver.Wal
import Driver.Verifier
import Driver.Migrate
import Driver.Sizes
import Driver.Golden
import Driver.OsFs
import Driver.Conc
import Driver.Crash
import Driver.Fault
import Driver.ConcW
import Driver.OpenCheck
open Driver

def runStateless (f : String → String) : IO Unit := do
  let stdin ← IO.getStdin
  let stdout ← IO.getStdout
  readLines stdin fun line => stdout.putStrLn (f line)
  stdout.flush

def runStateful {σ : Type} (init : σ) (f : σ → String → σ × String) : IO Unit := do
  let stdin ← IO.getStdin
  let stdout ← IO.getStdout
  let st ← IO.mkRef init
  readLines stdin fun line => do
    let (s', out) := f (← st.get) line
    st.set s'
    stdout.putStrLn out
  stdout.flush

def main (args : List String) : IO UInt32 := do
  match args with
  | ["codec"] => runStateless codecLine; return 0
  | ["wal"] => runStateful ({} : WalSt) walLine; return 0
  | ["verifier"] => runStateful ({} : VerSt) verLine; return 0
  | ["migrate"] => runStateless migLine; return 0
  | ["sizes"] => runStateless sizesLine; return 0
  | ["golden"] => runStateless goldenLine; return 0
  | ["fsdur"] => runStateless osfsLine; return 0
  | ["conc"] => runStateless (fun l => if l.startsWith "concw" then concwLine l else concLine l); return 0
  | ["crash"] => runStateful ({} : CrashSt) crashLine; return 0
  | ["faultm"] => runStateful ({} : FaultSt) faultLine; return 0
  | ["opencheck"] => runStateless openLine; return 0
  | ["segment"] => runStateful ({} : SegSt) segLine; return 0
  | _ => IO.eprintln "usage: driver <suite>"; return 2
