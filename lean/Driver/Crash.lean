import Driver.Util
import RaftWal.Model.Crash
import RaftWal.Proofs.CrashDefs
/-!
  Driver/Crash.lean — line protocol for Model/Crash.lean.
    open                         run Open on the current disk state          -> actions | err
    store <first> <seal> e1 e2…  StoreLogs (entries as decimal ids)          -> actions
    del <min> <max>              DeleteRange, classified as wal.go does      -> actions | err
    setu <k> <v>                 stable set                                  -> actions
    crash <k> proc|old|new       image after the first k actions of the last call, then Open -> summary | err
    restore <k> proc|old|new     make that image the current state           -> ok
    state                        summary of the current state
-/
namespace Driver
open RaftWal RaftWal.Crash

structure CrashSt where
  cur  : Disk := emptyDisk
  prev : Disk := emptyDisk
  acts : List Act := []
  deriving Inhabited

def actStr : Act → String
  | .write id _ _ => s!"w{id}"
  | .fsync id => s!"s{id}"
  | .create id base => s!"c{id}:{base}"
  | .commit m => s!"m{m.segs.length}:{m.nextID}"
  | .delete id => s!"d{id}"
  | .ack => "ack"

/-- deletions of one call are issued in Go map order: runs of consecutive deletes are rendered sorted by id -/
def sortDeletes : List Act → List Act
  | [] => []
  | a :: rest =>
    match a with
    | .delete id =>
      let run := rest.takeWhile (fun b => match b with | .delete _ => true | _ => false)
      let ids := (id :: run.filterMap (fun b => match b with | .delete i => some i | _ => none)).mergeSort (· ≤ ·)
      ids.map Act.delete ++ sortDeletes (rest.drop run.length)
    | _ => a :: sortDeletes rest
termination_by l => l.length
decreasing_by all_goals (simp_wf; try omega)

def actsStr (as : List Act) : String := if as.isEmpty then "-" else " ".intercalate ((sortDeletes as).map actStr)

def summary (d : Disk) : String :=
  let l := absLog d
  let h := l.foldl (fun acc p => (acc + p.1 * 1000003 + p.2) % 18446744073709551616) 0
  s!"{firstIndex d} {lastIndex d} {l.length} {h}"

def kindOf (s : String) : CrashKind :=
  if s == "proc" then .proc
  else if s == "new" then .power (fun _ => true) (fun _ => true)
  else if s == "files" then .power (fun _ => false) (fun _ => true)
  else if s == "content" then .power (fun _ => true) (fun _ => false)
  else .power (fun _ => false) (fun _ => false)

def runOp (st : CrashSt) (as : List Act) : CrashSt × String :=
  ({ cur := st.cur.applyAll as, prev := st.cur, acts := as }, actsStr as)

def crashLine (st : CrashSt) (line : String) : CrashSt × String :=
  match words line with
  | ["case", _] => ({}, "case")
  | ["open"] =>
    let st := { st with cur := st.cur.crash .proc }   -- a new process: new handles
    match openProg st.cur with
    | none => ({ st with prev := st.cur, acts := [] }, "err")
    | some as => runOp st as
  | "store" :: first :: sl :: es => runOp st (storeProg st.cur (nat! first) (es.map nat!) (sl == "1"))
  | ["del", mn, mx] =>
    let mn := nat! mn
    let mx := nat! mx
    let first := firstIndex st.cur
    let last := lastIndex st.cur
    if mn > mx then runOp st []
    else if mx < first ∨ mn > last then runOp st []
    else if mn ≤ first then runOp st (delHeadProg st.cur ((if mx > last then last else mx) + 1))
    else if mx ≥ last then runOp st (delTailProg st.cur (mn - 1))
    else ({ st with prev := st.cur, acts := [] }, "err")
  | ["setu", k, v] =>
    let as := setProg st.cur (nat! k) (nat! v)
    ((runOp st as).1, "m= ack")
  | ["crash", k, kind] =>
    let img := (st.prev.applyAll (st.acts.take (nat! k))).crash (kindOf kind)
    (st, match openResult img with | none => "err" | some d => summary d)
  | ["restore", k, kind] =>
    let img := (st.prev.applyAll (st.acts.take (nat! k))).crash (kindOf kind)
    ({ cur := img, prev := img, acts := [] }, "ok")
  | ["state"] => (st, summary st.cur)
  | ["inv"] => (st, if quiescentSB st.cur then "true" else "false")
  | _ => (st, "bad-op")

end Driver
