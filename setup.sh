#!/bin/sh
# Build the framework from files on disk only (offline).
set -e
cd /verif
export GOFLAGS=-mod=mod GOPROXY=off GOSUMDB=off GOTOOLCHAIN=local CGO_ENABLED=0
./check --setup
