package segment

import (
	"encoding/binary"
	"hash/crc32"
	"testing"

	"github.com/hashicorp/raft-wal/types"
	"github.com/stretchr/testify/require"
)

// TestFailedAppendLeavesNothingBehindTheTail: an append whose fsync fails is
// rolled back in memory, but its bytes are in the file. If the next batch is
// shorter the rest must not survive behind the new tail: payload bytes that look
// like an entry frame followed by a commit frame would be accepted by the next
// recovery as a batch nobody stored.
func TestFailedAppendLeavesNothingBehindTheTail(t *testing.T) {
	vfs := newTestVFS()
	f := NewFiler("test", vfs)
	info := types.SegmentInfo{BaseIndex: 5, ID: 1, MinIndex: 5, SizeLimit: 4096, Codec: 1}
	w, err := f.Create(info)
	require.NoError(t, err)
	require.NoError(t, w.Append([]types.LogEntry{{Index: 5, Data: []byte{1, 2, 3}}}))

	// payload: 8 bytes of filler, then an entry frame holding [42] and a commit
	// frame carrying the CRC of that frame
	entry := []byte{FrameEntry, 0, 0, 0, 1, 0, 0, 0, 42, 0, 0, 0, 0, 0, 0, 0}
	commit := make([]byte, 8)
	commit[0] = FrameCommit
	binary.LittleEndian.PutUint32(commit[4:], crc32.Checksum(entry, castagnoliTable))
	payload := append(append(make([]byte, 8), entry...), commit...)

	file := testFileFor(t, w)
	file.failNextSync()
	require.Error(t, w.Append([]types.LogEntry{{Index: 6, Data: payload}}))
	require.Equal(t, uint64(5), w.LastIndex())

	// acknowledged, shorter: ends exactly where the embedded entry frame begins
	require.NoError(t, w.Append([]types.LogEntry{{Index: 6, Data: nil}}))
	require.Equal(t, uint64(6), w.LastIndex())
	require.NoError(t, w.Close())

	// clean restart
	w2, err := f.RecoverTail(info)
	require.NoError(t, err)
	require.Equal(t, uint64(6), w2.LastIndex(), "recovery found an entry that was never stored")
	_, err = w2.GetLog(7)
	require.ErrorIs(t, err, types.ErrNotFound)
}
