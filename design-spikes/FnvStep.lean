/-! Spike (design evidence, not framework code): the FNV-1a step is injective in the state. -/
theorem mul_prime_inj (a b : BitVec 64) (h : a * 1099511628211#64 = b * 1099511628211#64) : a = b := by
  have hinv : (1099511628211#64 * 0xce965057aff6957b#64) = 1#64 := by decide
  calc a = a * (1099511628211#64 * 0xce965057aff6957b#64) := by rw [hinv]; simp
    _ = (a * 1099511628211#64) * 0xce965057aff6957b#64 := by rw [BitVec.mul_assoc]
    _ = (b * 1099511628211#64) * 0xce965057aff6957b#64 := by rw [h]
    _ = b * (1099511628211#64 * 0xce965057aff6957b#64) := by rw [BitVec.mul_assoc]
    _ = b := by rw [hinv]; simp
#print axioms mul_prime_inj
