/-! Spike: segment file as a list of 8-byte chunks; frames; scan; scan_wellformed. -/
abbrev Bytes := List UInt8

/-- one 8-byte chunk, kept as a list with a length invariant carried separately -/
structure Chunk where
  bs : Bytes
  h  : bs.length = 8
deriving DecidableEq

def zeroChunk : Chunk := ⟨[0,0,0,0,0,0,0,0], rfl⟩

inductive FType | entry | index | commit deriving DecidableEq, Repr

def FType.code : FType → UInt8
  | .entry => 1 | .index => 2 | .commit => 3

def le32 (n : Nat) : Bytes :=
  [(n % 256).toUInt8, (n / 256 % 256).toUInt8, (n / 65536 % 256).toUInt8, (n / 16777216 % 256).toUInt8]

def get32 : Bytes → Nat
  | [a,b,c,d] => a.toNat + 256 * b.toNat + 65536 * c.toNat + 16777216 * d.toNat
  | _ => 0

theorem get32_le32 (n : Nat) (h : n < 2^32) : get32 (le32 n) = n := by
  simp [get32, le32, Nat.toUInt8]; omega

/-- frame header chunk: typ,0,0,0, le32 v -/
def hdrChunk (t : FType) (v : Nat) : Chunk :=
  ⟨[t.code, 0, 0, 0] ++ le32 v, by simp [le32]⟩

/-- number of payload chunks for a payload of n bytes (padding to 8) -/
def payloadChunks (n : Nat) : Nat := (n + 7) / 8

/-- parsed header: like readFrameHeader. none = stop (zero header or corrupt). -/
def parseHdr (c : Chunk) : Option (FType × Nat) :=
  match c.bs with
  | [t, _, _, _, a, b, cc, d] =>
    if t = 1 then some (.entry, get32 [a,b,cc,d])
    else if t = 2 then some (.index, get32 [a,b,cc,d])
    else if t = 3 then some (.commit, get32 [a,b,cc,d])
    else none
  | _ => none

theorem parseHdr_hdrChunk (t : FType) (v : Nat) (h : v < 2^32) :
    parseHdr (hdrChunk t v) = some (t, v) := by
  have := get32_le32 v h
  cases t <;> simp [parseHdr, hdrChunk, FType.code, le32] at * <;> simpa [get32, le32] using this

theorem parseHdr_zero : parseHdr zeroChunk = none := by decide

/-- skip length in chunks after the header chunk: commit frames carry a CRC, not a length -/
def skipOf : FType × Nat → Nat
  | (.commit, _) => 0
  | (_, len) => payloadChunks len

/-- scan: (frame type, value, chunk offset) list; structural on fuel -/
def scan : Nat → List Chunk → Nat → List (FType × Nat × Nat)
  | 0, _, _ => []
  | _, [], _ => []
  | fuel+1, c :: rest, off =>
    match parseHdr c with
    | none => []
    | some (t, v) =>
      let k := skipOf (t, v)
      (t, v, off) :: scan fuel (rest.drop k) (off + 1 + k)

/-- a well-formed frame as chunks -/
structure Frame where
  t : FType
  v : Nat                  -- len or crc
  payload : List Chunk     -- already padded into chunks
  hv : v < 2^32
  hp : payload.length = skipOf (t, v)

def Frame.chunks (f : Frame) : List Chunk := hdrChunk f.t f.v :: f.payload

def framesChunks : List Frame → List Chunk
  | [] => []
  | f :: fs => f.chunks ++ framesChunks fs

def framesDesc : List Frame → Nat → List (FType × Nat × Nat)
  | [], _ => []
  | f :: fs, off => (f.t, f.v, off) :: framesDesc fs (off + 1 + f.payload.length)

theorem scan_wellformed (fs : List Frame) (rest : List Chunk) (off fuel : Nat)
    (hfuel : fs.length < fuel)
    (hrest : scan (fuel - fs.length) rest (off + (framesChunks fs).length) = []) :
    scan fuel (framesChunks fs ++ rest) off = framesDesc fs off := by
  induction fs generalizing off fuel with
  | nil =>
    simp [framesChunks, framesDesc] at *
    exact hrest
  | cons f fs ih =>
    obtain ⟨fuel', rfl⟩ : ∃ k, fuel = k + 1 := ⟨fuel - 1, by simp at hfuel; omega⟩
    simp only [framesChunks, Frame.chunks, List.cons_append, List.append_assoc, scan,
      parseHdr_hdrChunk f.t f.v f.hv]
    have hk : skipOf (f.t, f.v) = f.payload.length := f.hp.symm
    simp only [framesDesc, hk]
    congr 1
    rw [List.drop_left' rfl]
    apply ih
    · simp at hfuel; omega
    · have : off + 1 + f.payload.length + (framesChunks fs).length
            = off + (framesChunks (f :: fs)).length := by
        simp [framesChunks, Frame.chunks]; omega
      rw [this]
      have h2 : fuel' - fs.length = fuel' + 1 - (f :: fs).length := by simp
      rw [h2]; exact hrest

#print axioms scan_wellformed

/-- torn write over a clean (all-zero) region: each chunk lands or stays zero -/
def maskChunks : List Bool → List Chunk → List Chunk
  | b :: bs, c :: cs => (if b then c else zeroChunk) :: maskChunks bs cs
  | _, cs => cs.map (fun _ => zeroChunk)   -- mask shorter than data: rest not landed

theorem maskChunks_length (m : List Bool) (cs : List Chunk) : (maskChunks m cs).length = cs.length := by
  induction cs generalizing m with
  | nil => cases m <;> simp [maskChunks]
  | cons c cs ih => cases m <;> simp [maskChunks, ih]

theorem maskChunks_append (m : List Bool) (xs ys : List Chunk) :
    maskChunks m (xs ++ ys) = maskChunks (m.take xs.length) xs ++ maskChunks (m.drop xs.length) ys := by
  induction xs generalizing m with
  | nil => cases m <;> simp [maskChunks]
  | cons x xs ih =>
    cases m with
    | nil => simp [maskChunks]
    | cons b bs => simp [maskChunks, ih]

theorem scan_zeros (fuel n off : Nat) : scan fuel (List.replicate n zeroChunk) off = [] := by
  cases fuel <;> cases n <;> simp [scan, List.replicate, parseHdr_zero]

/-- scanning a torn image of well-formed frames followed by zeros yields a prefix of the intended frames -/
theorem scan_torn_prefix (fs : List Frame) (m : List Bool) (nz off fuel : Nat) :
    (scan fuel (maskChunks m (framesChunks fs) ++ List.replicate nz zeroChunk) off) <+: framesDesc fs off := by
  induction fs generalizing m off fuel with
  | nil => simp [framesChunks, maskChunks, scan_zeros]
  | cons f fs ih =>
    cases fuel with
    | zero => simp [scan]
    | succ fuel =>
      simp only [framesChunks, Frame.chunks, List.cons_append]
      cases m with
      | nil =>
        simp [maskChunks, scan, parseHdr_zero]
      | cons b bs =>
        cases b with
        | false => simp [maskChunks, scan, parseHdr_zero]
        | true =>
          simp only [maskChunks, if_true, List.cons_append, scan, parseHdr_hdrChunk f.t f.v f.hv,
            framesDesc]
          rw [maskChunks_append, List.append_assoc]
          have hk : skipOf (f.t, f.v) = (maskChunks (bs.take f.payload.length) f.payload).length := by
            rw [maskChunks_length]; exact f.hp.symm
          rw [hk, List.drop_left' rfl, maskChunks_length]
          exact List.cons_prefix_cons.mpr ⟨rfl, ih _ _ _⟩

#print axioms scan_torn_prefix
