/-! Spike (design evidence, not framework code): Go's binary.PutUvarint / binary.Uvarint
    round-trip including the 10-byte overflow rule, core Lean only. -/
abbrev Bytes := List UInt8

/-- Go's binary.PutUvarint on a Nat. -/
def putUvarint (v : Nat) : Bytes :=
  if h : v < 128 then [v.toUInt8] else (v % 128 + 128).toUInt8 :: putUvarint (v / 128)
termination_by v
decreasing_by omega

/-- Go's binary.Uvarint returns (value, n): n>0 bytes read, n=0 buffer too small, n<0 overflow. -/
inductive UvErr | short | overflow deriving Repr, DecidableEq

def uvarintAux : (i : Nat) → (shift : Nat) → (acc : Nat) → Bytes → Except UvErr (Nat × Bytes)
  | _, _, _, [] => .error .short
  | i, s, x, b :: rest =>
    if i = 10 then .error .overflow
    else if b < 0x80 then
      if i = 9 ∧ b > 1 then .error .overflow
      else .ok (x + b.toNat * 2 ^ s, rest)
    else uvarintAux (i+1) (s+7) (x + (b.toNat % 128) * 2 ^ s) rest

def uvarint (bs : Bytes) := uvarintAux 0 0 0 bs

theorem uvarintAux_put (v : Nat) (i s x : Nat) (rest : Bytes)
    (hv : v < 2 ^ (64 - 7 * i)) (hi : i ≤ 9) (hs : s = 7 * i) :
    uvarintAux i s x (putUvarint v ++ rest) = .ok (x + v * 2 ^ s, rest) := by
  induction v using Nat.strongRecOn generalizing i s x with
  | _ v ih =>
    unfold putUvarint
    split
    · rename_i h
      simp only [List.cons_append, List.nil_append, uvarintAux]
      have hne : i ≠ 10 := by omega
      simp only [hne, if_false]
      have hb : v.toUInt8 < 0x80 := by
        show v.toUInt8.toNat < 128
        simp [Nat.toUInt8]; omega
      simp only [hb, if_true]
      have htn : v.toUInt8.toNat = v := by simp [Nat.toUInt8]; omega
      have : ¬ (i = 9 ∧ v.toUInt8 > 1) := by
        intro ⟨h9, hgt⟩
        have : v.toUInt8.toNat > 1 := hgt
        subst h9; simp at hv; omega
      simp [this, htn]
    · rename_i h
      simp only [List.cons_append, uvarintAux]
      have hi9 : i ≠ 9 := by
        intro h9; subst h9; simp at hv; omega
      have hne : i ≠ 10 := by omega
      simp only [hne, if_false]
      have hbn : (v % 128 + 128).toUInt8.toNat = v % 128 + 128 := by
        simp [Nat.toUInt8]; omega
      have hb : ¬ ((v % 128 + 128).toUInt8 < 0x80) := by
        intro hlt
        have : (v % 128 + 128).toUInt8.toNat < 128 := hlt
        omega
      simp only [hb, if_false]
      have hlt : v / 128 < v := by omega
      have hv' : v / 128 < 2 ^ (64 - 7 * (i+1)) := by
        have : 2 ^ (64 - 7 * i) = 128 * 2 ^ (64 - 7 * (i+1)) := by
          have : 64 - 7 * i = (64 - 7*(i+1)) + 7 := by omega
          rw [this, Nat.pow_add]; omega
        rw [this] at hv
        exact Nat.div_lt_of_lt_mul hv
      rw [ih (v/128) hlt (i+1) (s+7) _ hv' (by omega) (by omega)]
      congr 2
      rw [hbn]
      have : (v % 128 + 128) % 128 = v % 128 := by omega
      rw [this, Nat.pow_add]
      have := Nat.div_add_mod v 128
      calc x + v % 128 * 2 ^ s + v / 128 * (2 ^ s * 2 ^ 7)
          = x + (v % 128 + 128 * (v / 128)) * 2 ^ s := by
            rw [Nat.add_mul, Nat.add_assoc]; congr 1; congr 1
            rw [Nat.mul_comm (2^s), ← Nat.mul_assoc, Nat.mul_comm (v/128)]
        _ = x + v * 2 ^ s := by rw [Nat.add_comm (v % 128), this]

theorem uvarint_put (v : Nat) (hv : v < 2^64) (rest : Bytes) :
    uvarint (putUvarint v ++ rest) = .ok (v, rest) := by
  have := uvarintAux_put v 0 0 0 rest (by simpa using hv) (by omega) (by omega)
  simpa [uvarint] using this
#print axioms uvarint_put
