#!/bin/bash
# seedall.sh <tier> [ids...] : for every stored seeded change run the check of the property it targets.
tier=${1:-quick}; shift
ids=${@:-$(ls /verif/seeded)}
for id in $ids; do
  p=${id%%-*}
  /verif/tools/seedrun.sh $id $tier $p
done
