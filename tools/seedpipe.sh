#!/bin/bash
# seedpipe.sh <round> <prop>... : for each property: confirm the change of /tmp/seed<round>-<prop> in a scratch worktree
# (seedverify), store it under /verif/seeded/<prop>-<round>, run the quick check of its property against it (seedrun),
# and remove the agent's worktree. One after the other: seedrun applies the change to /repo itself.
r=$1; shift
for p in "$@"; do
  id=$p-$r; src=/tmp/seed$r-$p
  [ -f $src/seed_patch.diff ] || { echo "$id: no patch"; continue; }
  /verif/tools/seedverify.sh $id $src > /tmp/sv-$id.out 2>&1
  echo "== $id verify: $(grep -h 'suite exit' /tmp/sv-$id.out) | with: $(sed -n '/demo WITH change/,/demo WITHOUT/p' /tmp/sv-$id.out | grep -c -- '--- FAIL\|^FAIL\|panic') fail-lines | without: $(tail -3 /tmp/sv-$id.out | grep -c '^ok')x ok"
  /verif/tools/seedstore.sh $id $src > /dev/null
  cp /tmp/sv-$id.out /verif/seeded/$id/verify.log
  /verif/tools/seedrun.sh $id quick $p
done
