package main

// Generates golden WAL directories with the PINNED version of raft-wal (real FS + BoltDB) together with
// expected.json describing their logical content.

import (
	"encoding/hex"
	"encoding/json"
	"fmt"
	"os"
	"path/filepath"
	"time"

	"github.com/hashicorp/raft"
	wal "github.com/hashicorp/raft-wal"
)

type entry struct {
	Index uint64 `json:"index"`
	Term  uint64 `json:"term"`
	Type  uint8  `json:"type"`
	Data  string `json:"data"`
	Ext   string `json:"ext"`
	Time  string `json:"time"` // hex of MarshalBinary
}

type expected struct {
	SegmentSize int               `json:"segment_size"`
	First       uint64            `json:"first"`
	Last        uint64            `json:"last"`
	Entries     []entry           `json:"entries"`
	Stable      map[string]string `json:"stable"`
	StableU64   map[string]uint64 `json:"stable_u64"`
}

func mk(idx uint64, n int, seed byte) *raft.Log {
	d := make([]byte, n)
	for i := range d {
		d[i] = byte(i*13) ^ seed ^ byte(idx)
	}
	l := &raft.Log{Index: idx, Term: 1 + idx/7, Type: raft.LogType(idx % 4), Data: d, AppendedAt: time.Unix(1700000000+int64(idx), int64(idx)*1000).UTC()}
	if idx%5 == 0 {
		l.Extensions = []byte{byte(idx), 0xee}
	}
	return l
}

func gen(root, name string, segSize int, f func(w *wal.WAL, exp *expected)) {
	dir := filepath.Join(root, name)
	os.RemoveAll(dir)
	os.MkdirAll(dir, 0o755)
	w, err := wal.Open(dir, wal.WithSegmentSize(segSize))
	if err != nil {
		panic(err)
	}
	exp := &expected{SegmentSize: segSize, Stable: map[string]string{}, StableU64: map[string]uint64{}}
	f(w, exp)
	// let any background rotation finish, then read back what the pinned version itself returns
	w.DeleteRange(^uint64(0), ^uint64(0))
	exp.First, _ = w.FirstIndex()
	exp.Last, _ = w.LastIndex()
	for i := exp.First; i <= exp.Last && exp.Last > 0; i++ {
		var l raft.Log
		if err := w.GetLog(i, &l); err != nil {
			panic(fmt.Sprint(name, i, err))
		}
		tb, _ := l.AppendedAt.MarshalBinary()
		exp.Entries = append(exp.Entries, entry{l.Index, l.Term, uint8(l.Type), hex.EncodeToString(l.Data), hex.EncodeToString(l.Extensions), hex.EncodeToString(tb)})
	}
	w.Close()
	b, _ := json.MarshalIndent(exp, "", " ")
	os.WriteFile(filepath.Join(dir, "expected.json"), b, 0o644)
}

func store(w *wal.WAL, from, n uint64, size int) {
	for i := uint64(0); i < n; i++ {
		if err := w.StoreLog(mk(from+i, size, 3)); err != nil {
			panic(err)
		}
	}
}

func main() {
	root := os.Args[1]
	gen(root, "single-tail", 1<<20, func(w *wal.WAL, e *expected) { store(w, 1, 12, 40) })
	gen(root, "multi-sealed", 1024, func(w *wal.WAL, e *expected) { store(w, 1, 60, 70) })
	gen(root, "high-start", 2048, func(w *wal.WAL, e *expected) { store(w, 1<<40, 30, 50) })
	gen(root, "head-and-tail-truncated", 1024, func(w *wal.WAL, e *expected) {
		store(w, 1, 80, 60)
		w.DeleteRange(1, 23)
		w.DeleteRange(70, 80)
		store(w, 70, 5, 33)
	})
	gen(root, "emptied-then-refilled", 1024, func(w *wal.WAL, e *expected) {
		store(w, 1, 20, 60)
		w.DeleteRange(1, 20)
		store(w, 500, 25, 45)
	})
	gen(root, "large-entries", 256*1024, func(w *wal.WAL, e *expected) {
		for i, n := range []int{64*1024 - 16, 64*1024 - 8, 64 * 1024, 64*1024 + 8, 64*1024 + 16, 100000} {
			if err := w.StoreLog(mk(uint64(1+i), n, 9)); err != nil {
				panic(err)
			}
		}
	})
	gen(root, "all-padding-residues", 4096, func(w *wal.WAL, e *expected) {
		logs := []*raft.Log{}
		for i := 0; i < 24; i++ {
			logs = append(logs, mk(uint64(1+i), i, 5))
		}
		if err := w.StoreLogs(logs[:8]); err != nil {
			panic(err)
		}
		if err := w.StoreLogs(logs[8:]); err != nil {
			panic(err)
		}
	})
	gen(root, "stable-keys", 4096, func(w *wal.WAL, e *expected) {
		store(w, 1, 3, 10)
		w.SetUint64([]byte("CurrentTerm"), 42)
		w.SetUint64([]byte("LastVoteTerm"), 41)
		w.Set([]byte("LastVoteCand"), []byte("node-7"))
		w.Set([]byte("custom"), []byte{0, 1, 2, 255})
		e.StableU64["CurrentTerm"], e.StableU64["LastVoteTerm"] = 42, 41
		e.Stable["LastVoteCand"] = hex.EncodeToString([]byte("node-7"))
		e.Stable["custom"] = hex.EncodeToString([]byte{0, 1, 2, 255})
	})
}
