#!/bin/bash
# seedverify.sh <id> <seed-worktree> [test-tags] — confirm a seeded change in a scratch worktree of /repo:
#  (1) existing suite passes with the change, (2) demo fails with it, (3) demo passes without it.
# Demo test files are every untracked *_test.go in the seed worktree.
set -u
export GOFLAGS=-mod=mod GOPROXY=off GOSUMDB=off GOTOOLCHAIN=local
id=$1; src=$2; tags=${3:-}
w=/tmp/sv-$id
git -C /repo worktree remove --force $w 2>/dev/null
git -C /repo worktree add --detach $w HEAD -q || exit 2
cd $w
git apply $src/seed_patch.diff || { echo "PATCH DOES NOT APPLY"; exit 2; }
echo "== existing suite with change"
go build ./... && go test -vet=off -count=1 -timeout 25m ./... 2>&1 | grep -v "^ok\|no test files" | tail -20
echo "suite exit: ${PIPESTATUS[0]}"
demos=$(git -C $src ls-files --others --exclude-standard | grep '_test.go$')
for d in $demos; do mkdir -p $(dirname $d); cp $src/$d $d; done
pk=$(for d in $demos; do echo ./$(dirname $d); done | sort -u)
echo "== demo WITH change (expect FAIL): $demos"
go test -vet=off -count=1 ${tags:+-tags $tags} -run 'Seed' $pk 2>&1 | tail -15
git apply -R $src/seed_patch.diff
echo "== demo WITHOUT change (expect ok)"
go test -vet=off -count=1 ${tags:+-tags $tags} -run 'Seed' $pk 2>&1 | tail -5
cd /; git -C /repo worktree remove --force $w
