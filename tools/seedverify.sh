#!/bin/bash
# seedverify.sh <seed-id> <seed-worktree> — confirm a seeded change in a scratch worktree of /repo:
#  (1) existing suite passes with the change (up to 3 tries: two upstream tests are timing/fuzz flaky),
#  (2) demo fails with it, (3) demo passes without it.
# Demo test files are every untracked *_test.go in the seed worktree; -tags verif is used when a demo asks for it.
set -u
export GOFLAGS=-mod=mod GOPROXY=off GOSUMDB=off GOTOOLCHAIN=local
id=$1; src=$2
w=/tmp/sv-$id
git -C /repo worktree remove --force $w 2>/dev/null
git -C /repo worktree add --detach $w HEAD -q || exit 2
cd $w
git apply $src/seed_patch.diff || { echo "PATCH DOES NOT APPLY"; exit 2; }
echo "== existing suite with change"
for try in 1 2 3; do
  go build ./... && go test -vet=off -count=1 -timeout 25m ./... > /tmp/sv-$id.suite.log 2>&1; rc=$?
  [ $rc = 0 ] && break
done
echo "suite exit: $rc (tries: $try) $(grep -h '^--- FAIL' /tmp/sv-$id.suite.log | tr '\n' ' ')"
demos=$(git -C $src ls-files --others --exclude-standard | grep '_test.go$')
tags=""
for d in $demos; do mkdir -p $(dirname $d); cp $src/$d $d; grep -q '^//go:build verif' $src/$d && tags=verif; done
pk=$(for d in $demos; do echo ./$(dirname $d); done | sort -u)
pat=$(cat $(for d in $demos; do echo $src/$d; done) | grep -o '^func Test[A-Za-z0-9_]*' | sed 's/func //' | paste -sd'|')
echo "== demo WITH change (expect FAIL): $demos  -run '$pat' tags=$tags"
go test -vet=off -count=1 ${tags:+-tags $tags} -run "^($pat)\$" $pk 2>&1 | grep -v "^\s*$" | tail -12 | cut -c1-300
git apply -R $src/seed_patch.diff
echo "== demo WITHOUT change (expect ok)"
go test -vet=off -count=1 ${tags:+-tags $tags} -run "^($pat)\$" $pk 2>&1 | tail -4
cd /; git -C /repo worktree remove --force $w
