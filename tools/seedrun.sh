#!/bin/bash
# seedrun.sh <seed-id> <tier> <prop>... : apply /verif/seeded/<id>/patch.diff to /repo, run the checks, undo.
id=$1; tier=$2; shift 2
cd /verif
git -C /repo status --short | grep -q . && { echo "/repo not clean"; exit 2; }
git -C /repo apply /verif/seeded/$id/patch.diff || exit 2
mkdir -p /verif/seeded/$id/runs
for p in "$@"; do
  ./check $p $tier > /verif/seeded/$id/runs/$p.$tier.log 2>&1; rc=$?
  echo "seed=$id check=$p tier=$tier exit=$rc $(grep -c '^VIOLATION' /verif/seeded/$id/runs/$p.$tier.log) violation line(s)"
  grep '^VIOLATION' /verif/seeded/$id/runs/$p.$tier.log | head -3
done
git -C /repo checkout -- .
git -C /repo status --short
