#!/bin/bash
# seedstore.sh <seed-id> <src-worktree> : copy patch + demo + agent's notes into /verif/seeded/<seed-id>/
id=$1; src=$2; d=/verif/seeded/$id; mkdir -p $d
cp $src/seed_patch.diff $d/patch.diff
for f in $(git -C $src ls-files --others --exclude-standard | grep '_test.go$'); do mkdir -p $d/demo/$(dirname $f); cp $src/$f $d/demo/$f; done
[ -f $src/SEED_META.md ] && cp $src/SEED_META.md $d/SEED_META.md
ls -R $d | head -20
