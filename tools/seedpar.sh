#!/bin/bash
# seedpar.sh <round> <jobs> <prop>... : confirm the changes of /tmp/seed<round>-<prop> in scratch worktrees, <jobs> at a
# time (seedverify only needs its own worktree), and store them under /verif/seeded/<prop>-<round>.
# The runs against the checks (seedrun) stay sequential: they apply the change to /repo itself.
r=$1; j=$2; shift 2
one() {
  p=$1; r=$2; id=$p-$r
  /verif/tools/seedverify.sh $id /tmp/seed$r-$p > /tmp/sv-$id.out 2>&1
  /verif/tools/seedstore.sh $id /tmp/seed$r-$p > /dev/null
  cp /tmp/sv-$id.out /verif/seeded/$id/verify.log
  echo "verified $id: $(grep -h 'suite exit' /tmp/sv-$id.out) | with: $(sed -n '/demo WITH change/,/demo WITHOUT/p' /tmp/sv-$id.out | grep -c -- '--- FAIL\|^FAIL\|panic') fail-lines | without: $(tail -3 /tmp/sv-$id.out | grep -c '^ok')x ok"
}
export -f one
printf '%s\n' "$@" | xargs -P $j -I{} bash -c "one {} $r"
