package main

import (
	"bytes"
	"encoding/hex"
	"encoding/json"
	"fmt"
	"io"
	"os"
	"path/filepath"
	"sort"
	"strings"
	"time"

	"github.com/hashicorp/go-hclog"
	"github.com/hashicorp/raft"
	wal "github.com/hashicorp/raft-wal"
)

// golden suite (C09): directories written by the pinned version (real FS + BoltDB, /verif/golden) must open with the
// current tree with identical contents, and the independent README decoder (Spec.Format in the driver) must read
// their raw segment files to the same payloads.

type goldEntry struct {
	Index uint64 `json:"index"`
	Term  uint64 `json:"term"`
	Type  uint8  `json:"type"`
	Data  string `json:"data"`
	Ext   string `json:"ext"`
	Time  string `json:"time"`
}
type goldExpected struct {
	SegmentSize int               `json:"segment_size"`
	First       uint64            `json:"first"`
	Last        uint64            `json:"last"`
	Entries     []goldEntry       `json:"entries"`
	Stable      map[string]string `json:"stable"`
	StableU64   map[string]uint64 `json:"stable_u64"`
}

func copyDir(src, dst string) error {
	ents, err := os.ReadDir(src)
	if err != nil {
		return err
	}
	for _, e := range ents {
		if e.IsDir() || e.Name() == "expected.json" {
			continue
		}
		in, err := os.Open(filepath.Join(src, e.Name()))
		if err != nil {
			return err
		}
		out, err := os.Create(filepath.Join(dst, e.Name()))
		if err != nil {
			in.Close()
			return err
		}
		_, err = io.Copy(out, in)
		in.Close()
		out.Close()
		if err != nil {
			return err
		}
	}
	return nil
}

func fnvOf(b []byte) uint64 {
	h := uint64(0)
	for _, x := range b {
		h = (h ^ uint64(x)) * 1099511628211
	}
	return h
}

func suiteGolden(seed uint64, tier string) *Report {
	rep := newReport("golden", seed, tier)
	rep.Rule = "every golden directory under /verif/golden (written once by the pinned commit through the real filesystem and BoltDB: single tail, many sealed segments, first index 2^40, head+tail truncated, emptied then refilled, entries around the 64 KiB buffer, all padding residues, stable keys) is copied, opened with the current tree and compared entry by entry and key by key with its manifest; each raw segment file is also decoded by the independent README decoder in the Lean driver and must yield the encodings of exactly the manifest's entries of that segment. One case per directory; all are non-trivial."
	root := filepath.Join(envOr("VERIF_DIR", "/verif"), "golden")
	dirs, _ := os.ReadDir(root)
	var cases []*Case
	for _, de := range dirs {
		if !de.IsDir() {
			continue
		}
		name := de.Name()
		c := &Case{ID: "golden-" + name, Props: []string{"C09"}, NonTrivial: true, Shape: name, Tags: []string{"fixture:" + name}}
		var viols []Violation
		bad := func(what, detail string) {
			viols = append(viols, Violation{Property: "C09", What: what, Detail: name + ": " + detail})
		}
		var exp goldExpected
		raw, err := os.ReadFile(filepath.Join(root, name, "expected.json"))
		if err != nil || json.Unmarshal(raw, &exp) != nil {
			bad("golden manifest unreadable", fmt.Sprint(err))
		}
		tmp, _ := os.MkdirTemp(os.Getenv("VERIF_TMP"), "verif-golden-")
		func() {
			defer os.RemoveAll(tmp)
			if err := copyDir(filepath.Join(root, name), tmp); err != nil {
				bad("cannot copy fixture", err.Error())
				return
			}
			w, err := wal.Open(tmp, wal.WithLogger(hclog.NewNullLogger()), wal.WithSegmentSize(exp.SegmentSize))
			if err != nil {
				bad("a directory written by the pinned version does not open", err.Error())
				return
			}
			defer w.Close()
			first, _ := w.FirstIndex()
			last, _ := w.LastIndex()
			if first != exp.First || last != exp.Last {
				bad("FirstIndex/LastIndex differ from the golden manifest", fmt.Sprintf("got %d..%d want %d..%d", first, last, exp.First, exp.Last))
			}
			encByIndex := map[uint64][]byte{}
			for _, e := range exp.Entries {
				var l raft.Log
				if err := w.GetLog(e.Index, &l); err != nil {
					bad("entry of a golden directory unreadable", fmt.Sprintf("index %d: %v", e.Index, err))
					continue
				}
				var t time.Time
				tb, _ := hex.DecodeString(e.Time)
				t.UnmarshalBinary(tb)
				if l.Index != e.Index || l.Term != e.Term || uint8(l.Type) != e.Type || hex.EncodeToString(l.Data) != e.Data ||
					hex.EncodeToString(l.Extensions) != e.Ext || !l.AppendedAt.Equal(t) {
					bad("entry of a golden directory differs from the manifest", fmt.Sprintf("index %d", e.Index))
				}
				var b bytes.Buffer
				(&wal.BinaryCodec{}).Encode(&l, &b)
				encByIndex[e.Index] = b.Bytes()
			}
			for k, v := range exp.Stable {
				got, err := w.Get([]byte(k))
				if err != nil || hex.EncodeToString(got) != v {
					bad("stable key of a golden directory differs", k)
				}
			}
			for k, v := range exp.StableU64 {
				got, err := w.GetUint64([]byte(k))
				if err != nil || got != v {
					bad("stable uint64 key of a golden directory differs", k)
				}
			}
			// raw segment files through the independent decoder
			ents, _ := os.ReadDir(tmp)
			var names []string
			for _, e := range ents {
				if strings.HasSuffix(e.Name(), ".wal") {
					names = append(names, e.Name())
				}
			}
			sort.Strings(names)
			for ni, n := range names {
				data, _ := os.ReadFile(filepath.Join(tmp, n))
				nextBase := ^uint64(0)
				if ni+1 < len(names) {
					var nid uint64
					fmt.Sscanf(names[ni+1], "%020d-%016x.wal", &nextBase, &nid)
				}
				// trim the zero tail to keep lines small (the decoder stops at the first zero header anyway)
				end := len(data)
				for end > 0 && data[end-1] == 0 {
					end--
				}
				end = (end + 15) &^ 7
				if end > len(data) {
					end = len(data)
				}
				var base, id uint64
				fmt.Sscanf(n, "%020d-%016x.wal", &base, &id)
				c.Ops = append(c.Ops, "specdecode "+hx(data[:end]))
				// what the file must contain: encodings of consecutive entries from base — all that were ever
				// committed to it (a truncation only changes meta), so compare the prefix that the manifest knows
				var want []string
				for i := base; i < nextBase; i++ {
					enc, ok := encByIndex[i]
					if !ok {
						break
					}
					want = append(want, fmt.Sprint(fnvOf(enc)))
				}
				c.Impl = append(c.Impl, fmt.Sprintf("%d %s", len(want), strings.Join(want, " ")))
				_ = id
			}
		}()
		vv := viols
		c.Monitor = func(ops, impl []string) []Violation { return vv }
		cases = append(cases, c)
	}
	if len(cases) == 0 {
		rep.Notes = append(rep.Notes, "no golden fixtures found under "+root)
		rep.Divergences = append(rep.Divergences, Divergence{Props: []string{"C09"}, Case: "golden", Op: "list fixtures", Impl: "none found", Model: ""})
	}
	// the decoder may legitimately see MORE committed payloads than the manifest lists for a segment (entries
	// removed by a truncation stay in the file): compare on the common prefix
	RunCasesPrefix("golden", cases, rep)
	return rep
}

func init() { suites["golden"] = suiteGolden }
