package main

import (
	"context"
	"errors"
	"fmt"
	"math"
	"os"
	"path/filepath"
	"sort"
	"strings"
	"time"

	"github.com/hashicorp/go-hclog"
	"github.com/hashicorp/raft"
	raftboltdb "github.com/hashicorp/raft-boltdb/v2"
	wal "github.com/hashicorp/raft-wal"
	"github.com/hashicorp/raft-wal/migrate"
	"github.com/hashicorp/raft-wal/segment"
	"verifharness/simfs"
)

// migrate suite: migrate.CopyLogs / CopyStable between {WAL, raft-boltdb, raft.InmemStore}
// vs Model.Migrate; monitor C19: destination = source, cancellation leaves a
// prefix with the context's error, progress channel closed on return.

type countCtx struct {
	context.Context
	calls, at int
}

func (c *countCtx) Err() error {
	c.calls++
	if c.at >= 0 && c.calls > c.at {
		return context.Canceled
	}
	return nil
}

type batchRecorder struct {
	raft.LogStore
	sizes []int
}

func (b *batchRecorder) StoreLogs(logs []*raft.Log) error {
	b.sizes = append(b.sizes, len(logs))
	return b.LogStore.StoreLogs(logs)
}

// failingDest: a destination whose k-th StoreLogs fails (disk full at that point, a closed store, …)
type failingDest struct {
	raft.LogStore
	k, n int
}

func (f *failingDest) StoreLogs(logs []*raft.Log) error {
	f.n++
	if f.n == f.k {
		return errors.New("injected: destination write failed")
	}
	return f.LogStore.StoreLogs(logs)
}

func (f *failingDest) StoreLog(l *raft.Log) error { return f.StoreLogs([]*raft.Log{l}) }

type storePair struct {
	log     raft.LogStore
	stable  raft.StableStore
	cleanup func()
	kind    string
}

func mkStore(kind string) (*storePair, error) {
	switch kind {
	case "wal":
		d := simfs.New()
		d.Record = false
		w, err := wal.Open("d", wal.WithLogger(hclog.NewNullLogger()), wal.WithSegmentSize(4096),
			wal.WithSegmentFiler(segment.NewFiler("d", d)), wal.WithMetaStore(&simfs.Meta{D: d}))
		if err != nil {
			return nil, err
		}
		return &storePair{log: w, stable: w, cleanup: func() { w.Close() }, kind: kind}, nil
	case "inmem":
		s := raft.NewInmemStore()
		return &storePair{log: s, stable: s, cleanup: func() {}, kind: kind}, nil
	case "bolt":
		base := os.Getenv("VERIF_TMP")
		if base == "" {
			base = os.TempDir()
		}
		dir, err := os.MkdirTemp(base, "verif-bolt-")
		if err != nil {
			return nil, err
		}
		s, err := raftboltdb.New(raftboltdb.Options{Path: filepath.Join(dir, "raft.db"), NoSync: true})
		if err != nil {
			os.RemoveAll(dir)
			return nil, err
		}
		return &storePair{log: s, stable: s, cleanup: func() { s.Close(); os.RemoveAll(dir) }, kind: kind}, nil
	}
	return nil, fmt.Errorf("unknown store kind %s", kind)
}

// failingSource: a LogStore whose FirstIndex / LastIndex / GetLog fails with an I/O error
type failingSource struct {
	raft.LogStore
	mode string
}

func (f *failingSource) FirstIndex() (uint64, error) {
	if f.mode == "first" {
		return 0, errors.New("injected: FirstIndex failed")
	}
	return f.LogStore.FirstIndex()
}

func (f *failingSource) LastIndex() (uint64, error) {
	if f.mode == "last" {
		return 0, errors.New("injected: LastIndex failed")
	}
	return f.LogStore.LastIndex()
}

func (f *failingSource) GetLog(i uint64, l *raft.Log) error {
	if f.mode == "get" && i >= 3 {
		return errors.New("injected: GetLog failed")
	}
	return f.LogStore.GetLog(i, l)
}

func fnvDigest(logs []*raft.Log) uint64 {
	h := uint64(0)
	add := func(b byte) { h = (h ^ uint64(b)) * 1099511628211 }
	addU := func(u uint64) {
		for i := 7; i >= 0; i-- {
			add(byte(u >> (8 * uint(i))))
		}
	}
	for _, l := range logs {
		addU(l.Index)
		addU(l.Term)
		addU(uint64(l.Type))
		for _, b := range l.Data {
			add(b)
		}
		for _, b := range l.Extensions {
			add(b)
		}
	}
	return h
}

func resClass(err error) string {
	switch {
	case err == nil:
		return "ok"
	case errors.Is(err, context.Canceled):
		return "err-ctx"
	default:
		return "err"
	}
}

// progress handling: returns a channel (or nil) and a func reporting whether it was closed
func mkProgress(mode string) (chan string, func() string) {
	switch mode {
	case "p0":
		return nil, func() string { return "nil" }
	case "p1": // unbuffered, drained
		ch := make(chan string)
		closed := make(chan bool, 1)
		go func() {
			for range ch {
			}
			closed <- true
		}()
		return ch, func() string {
			select {
			case <-closed:
				return "closed"
			case <-time.After(3 * time.Second):
				return "open"
			}
		}
	default: // buffered, never drained during the copy
		ch := make(chan string, 2)
		return ch, func() string {
			deadline := time.After(3 * time.Second)
			for {
				select {
				case _, ok := <-ch:
					if !ok {
						return "closed"
					}
				case <-deadline:
					return "open"
				}
			}
		}
	}
}

func execMigrateWith(srcKind, dstKind string) func(ops []string) []string {
	return func(ops []string) []string {
		out := make([]string, len(ops))
		for i, op := range ops {
			out[i] = safeExec(func() string { return execMigrateOp(op, srcKind, dstKind) })
		}
		return out
	}
}

func execMigrateOp(op, srcKind, dstKind string) string {
	ws := strings.Fields(op)
	switch ws[0] {
	case "case":
		return "case"
	case "copylogs":
		src, err := mkStore(srcKind)
		if err != nil {
			return "setup-err " + err.Error()
		}
		defer src.cleanup()
		dst, err := mkStore(dstKind)
		if err != nil {
			return "setup-err " + err.Error()
		}
		defer dst.cleanup()
		var logs []*raft.Log
		for _, t := range ws[5:] {
			logs = append(logs, parseLogTok(t))
		}
		if len(logs) > 0 {
			if err := src.log.StoreLogs(logs); err != nil {
				return "setup-err " + err.Error()
			}
		}
		var bb int
		fmt.Sscanf(ws[1], "%d", &bb)
		at := -1
		if ws[2] != "-" {
			fmt.Sscanf(ws[2], "%d", &at)
		}
		ctx := &countCtx{Context: context.Background(), at: at}
		prog, closedFn := mkProgress(ws[3])
		rec := &batchRecorder{LogStore: dst.log}
		var pch chan<- string
		if prog != nil {
			pch = prog
		}
		err = migrate.CopyLogs(ctx, rec, src.log, bb, pch)
		first, _ := dst.log.FirstIndex()
		last, _ := dst.log.LastIndex()
		var got []*raft.Log
		if last >= first && last > 0 {
			for i := first; i <= last; i++ {
				var l raft.Log
				if e := dst.log.GetLog(i, &l); e != nil {
					return "dst-read-err " + e.Error()
				}
				got = append(got, &l)
			}
		}
		var sz []string
		for _, s := range rec.sizes {
			sz = append(sz, fmt.Sprint(s))
		}
		return fmt.Sprintf("%s %d %d %d %d batches=%s progress=%s", resClass(err), first, last, len(got), fnvDigest(got), strings.Join(sz, ","), closedFn())
	case "copydstfail":
		// copydstfail <batchBytes> <k> <first> toks…: the destination's k-th write fails: CopyLogs must return the error
		src, err := mkStore(srcKind)
		if err != nil {
			return "setup-err " + err.Error()
		}
		defer src.cleanup()
		dst, err := mkStore(dstKind)
		if err != nil {
			return "setup-err " + err.Error()
		}
		defer dst.cleanup()
		var logs []*raft.Log
		for _, t := range ws[4:] {
			logs = append(logs, parseLogTok(t))
		}
		if len(logs) > 0 {
			if err := src.log.StoreLogs(logs); err != nil {
				return "setup-err " + err.Error()
			}
		}
		var bb, k int
		fmt.Sscanf(ws[1], "%d", &bb)
		fmt.Sscanf(ws[2], "%d", &k)
		err = migrate.CopyLogs(context.Background(), &failingDest{LogStore: dst.log, k: k}, src.log, bb, nil)
		first, _ := dst.log.FirstIndex()
		last, _ := dst.log.LastIndex()
		var got []*raft.Log
		if last >= first && last > 0 {
			for i := first; i <= last; i++ {
				var l raft.Log
				if e := dst.log.GetLog(i, &l); e != nil {
					return "dst-read-err " + e.Error()
				}
				got = append(got, &l)
			}
		}
		return fmt.Sprintf("%s %d %d %d %d", resClass(err), first, last, len(got), fnvDigest(got))
	case "copyfail":
		// copyfail <first|last|get|closed> <prog>: the source fails (I/O error on an index lookup or a read, or it is a
		// WAL that has been closed): CopyLogs must return the error and still close the progress channel
		src, err := mkStore(srcKind)
		if err != nil {
			return "setup-err " + err.Error()
		}
		defer src.cleanup()
		dst, err := mkStore(dstKind)
		if err != nil {
			return "setup-err " + err.Error()
		}
		defer dst.cleanup()
		var logs []*raft.Log
		for i := uint64(1); i <= 5; i++ {
			logs = append(logs, &raft.Log{Index: i, Term: 1, Data: []byte("x")})
		}
		if err := src.log.StoreLogs(logs); err != nil {
			return "setup-err " + err.Error()
		}
		mode := ws[1]
		if mode == "closed" && srcKind != "wal" {
			mode = "first" // only the WAL has a closed state that makes every call fail
		}
		var source raft.LogStore = &failingSource{LogStore: src.log, mode: mode}
		if mode == "closed" {
			if c, ok := src.log.(interface{ Close() error }); ok {
				c.Close()
				source = src.log
			}
		}
		prog, closedFn := mkProgress(ws[2])
		var pch chan<- string
		if prog != nil {
			pch = prog
		}
		err = migrate.CopyLogs(context.Background(), dst.log, source, 64, pch)
		return fmt.Sprintf("%s progress=%s", resClass(err), closedFn())
	case "copystable":
		src, err := mkStore(srcKind)
		if err != nil {
			return "setup-err " + err.Error()
		}
		defer src.cleanup()
		dst, err := mkStore(dstKind)
		if err != nil {
			return "setup-err " + err.Error()
		}
		defer dst.cleanup()
		var xk, xi [][]byte
		var intKeys, kvKeys [][]byte
		for _, t := range ws[4:] {
			switch {
			case strings.HasPrefix(t, "I:"):
				kv := strings.SplitN(t[2:], "=", 2)
				src.stable.SetUint64(unhx(kv[0]), atoiU(kv[1]))
				intKeys = append(intKeys, unhx(kv[0]))
			case strings.HasPrefix(t, "K:"):
				kv := strings.SplitN(t[2:], "=", 2)
				src.stable.Set(unhx(kv[0]), unhx(kv[1]))
				kvKeys = append(kvKeys, unhx(kv[0]))
			case strings.HasPrefix(t, "XI:"):
				xi = append(xi, unhx(t[3:]))
			case strings.HasPrefix(t, "XK:"):
				xk = append(xk, unhx(t[3:]))
			}
		}
		dst.stable = &stableRecorder{StableStore: dst.stable, ints: map[string]uint64{}, kvs: map[string][]byte{}}
		at := -1
		if ws[2] != "-" {
			fmt.Sscanf(ws[2], "%d", &at)
		}
		ctx := &countCtx{Context: context.Background(), at: at}
		prog, closedFn := mkProgress(ws[3])
		var pch chan<- string
		if prog != nil {
			pch = prog
		}
		// callers typically carve both extra-key lists out of one list of application keys: the two slices then share a
		// backing array (and the first has spare capacity reaching into the second). CopyStable must not write to them.
		xkOrig, xiOrig := append([][]byte(nil), xk...), append([][]byte(nil), xi...)
		if len(ws[1])%2 == 0 {
			all := append(append(make([][]byte, 0, len(xi)+len(xk)+4), xi...), xk...)
			xi, xk = all[:len(xi)], all[len(xi):]
		} else {
			all := append(append(make([][]byte, 0, len(xi)+len(xk)+4), xk...), xi...)
			xk, xi = all[:len(xk)], all[len(xk):]
		}
		err = migrate.CopyStable(ctx, dst.stable, src.stable, xk, xi, pch)
		xk, xi = xkOrig, xiOrig
		// read back every key the call may have written
		var parts []string
		seen := map[string]bool{}
		for _, k := range append(append([][]byte{[]byte("CurrentTerm"), []byte("LastVoteTerm")}, xi...), intKeys...) {
			if seen["I"+string(k)] {
				continue
			}
			seen["I"+string(k)] = true
			if v, e := dstHasInt(dst, k); e {
				parts = append(parts, fmt.Sprintf("I:%s=%d", hx(k), v))
			}
		}
		for _, k := range append(append([][]byte{[]byte("LastVoteCand")}, xk...), kvKeys...) {
			if seen["K"+string(k)] {
				continue
			}
			seen["K"+string(k)] = true
			if v, e := dstHasKV(dst, k); e {
				parts = append(parts, fmt.Sprintf("K:%s=%s", hx(k), hx(v)))
			}
		}
		sort.Strings(parts)
		return strings.TrimRight(fmt.Sprintf("%s %s", resClass(err), strings.Join(parts, " ")), " ") + " progress=" + closedFn()
	}
	return "bad-op"
}

// which keys were written to dst: the model lists exactly the keys CopyStable set. For a WAL
// destination an int key set to 0 and an absent key both read 0, so presence is taken from a
// recording wrapper instead.
type stableRecorder struct {
	raft.StableStore
	ints map[string]uint64
	kvs  map[string][]byte
}

func (s *stableRecorder) SetUint64(k []byte, v uint64) error {
	if err := s.StableStore.SetUint64(k, v); err != nil {
		return err
	}
	s.ints[string(k)] = v
	return nil
}
func (s *stableRecorder) Set(k, v []byte) error {
	if err := s.StableStore.Set(k, v); err != nil {
		return err
	}
	s.kvs[string(k)] = append([]byte(nil), v...)
	return nil
}

func dstHasInt(p *storePair, k []byte) (uint64, bool) {
	r, ok := p.stable.(*stableRecorder)
	if !ok {
		return 0, false
	}
	if _, ok := r.ints[string(k)]; !ok {
		return 0, false
	}
	v, err := r.StableStore.GetUint64(k) // what the store really holds now
	if err != nil {
		return 0, false
	}
	return v, true
}

func dstHasKV(p *storePair, k []byte) ([]byte, bool) {
	r, ok := p.stable.(*stableRecorder)
	if !ok {
		return nil, false
	}
	if _, ok := r.kvs[string(k)]; !ok {
		return nil, false
	}
	v, err := r.StableStore.Get(k)
	if err != nil {
		return nil, true // set to empty on a store that reports empty as absent
	}
	return v, true
}

func migMonitor(ops, impl []string) []Violation {
	var vs []Violation
	for i, op := range ops {
		ws := strings.Fields(op)
		out := impl[i]
		add := func(what, detail string) {
			vs = append(vs, Violation{Property: "C19", What: what, Detail: detail, Ops: []string{op}, Impl: []string{out}})
		}
		if out == "panic" {
			add("migrate call panicked", op)
			continue
		}
		if strings.HasSuffix(out, "progress=open") {
			add("progress channel not closed on return", out)
		}
		if ws[0] == "copyfail" && !strings.HasPrefix(out, "setup-err") && !strings.HasPrefix(out, "err") {
			add("CopyLogs returned nil although the source failed", out)
		}
		if ws[0] == "copydstfail" && strings.HasPrefix(out, "ok ") {
			// CopyLogs returned nil: the destination must hold the whole source
			f := strings.Fields(out)
			if n := len(ws) - 4; len(f) >= 4 && int(atoiU(f[3])) != n {
				add("CopyLogs returned nil although a write to the destination failed: the destination is short of the source", fmt.Sprintf("source holds %d entries, destination %s", n, f[3]))
			}
		}
		if ws[0] != "copylogs" || strings.HasPrefix(out, "setup-err") {
			continue
		}
		var logs []*raft.Log
		for _, t := range ws[5:] {
			logs = append(logs, parseLogTok(t))
		}
		f := strings.Fields(out)
		if len(f) < 5 {
			continue
		}
		n := int(atoiU(f[3]))
		switch f[0] {
		case "ok":
			wantFirst, wantLast := uint64(0), uint64(0)
			if len(logs) > 0 {
				wantFirst, wantLast = logs[0].Index, logs[len(logs)-1].Index
			}
			if atoiU(f[1]) != wantFirst || atoiU(f[2]) != wantLast || n != len(logs) || atoiU(f[4]) != fnvDigest(logs) {
				add("destination differs from source after CopyLogs returned nil",
					fmt.Sprintf("want first=%d last=%d n=%d digest=%d got %s", wantFirst, wantLast, len(logs), fnvDigest(logs), out))
			}
		case "err-ctx":
			if ws[2] == "-" {
				add("context error returned without cancellation", out)
			}
			if n > len(logs) || atoiU(f[4]) != fnvDigest(logs[:n]) {
				add("after cancellation the destination is not a prefix of the source", out)
			}
		case "err":
			add("CopyLogs failed on a readable source and a writable, empty destination", out)
		}
		if f[0] != "err-ctx" && ws[2] != "-" && int(atoiU(ws[2])) < len(logs) {
			add("cancelled context did not stop the copy with the context's error", out)
		}
	}
	return vs
}

func suiteMigrate(seed uint64, tier string) *Report {
	rep := newReport("migrate", seed, tier)
	rep.Rule = "CopyLogs over source/destination pairings {WAL, raft-boltdb, raft.InmemStore}², source lengths 0..n, first index {1, 7, 2^40, random}, entry sizes around the batch threshold, batchBytes in {-1, 0, 1, around entry sizes, huge}, cancellation at every iteration (a context whose Err() flips after k calls), progress channel nil / unbuffered drained / buffered undrained; CopyStable with standard keys present or absent, extra keys, both absent-key behaviours. Non-trivial = non-empty source; distinct by (pairing, length, batchBytes class, cancellation, progress mode)."
	r := NewRng(seed ^ 0x316)
	kinds := []string{"wal", "inmem", "bolt"}
	n := 120
	if tier == "thorough" {
		n = 1500
	}
	var cases []*Case
	for i := 0; i < n; i++ {
		cr := r.Fork()
		sk, dk := pick(cr, kinds), pick(cr, kinds)
		c := &Case{ID: fmt.Sprintf("mig-%d-%d", seed, i), Props: []string{"C19"}, Exec: execMigrateWith(sk, dk), Monitor: migMonitor}
		nlogs := pick(cr, []int{0, 0, 1, 2, 3, 5, 8, 13, 30})
		first := pick(cr, []uint64{1, 1, 7, 1 << 40, uint64(2 + cr.Intn(1000))})
		var toks []string
		maxData := 0
		for j := 0; j < nlogs; j++ {
			l := &raft.Log{Index: first + uint64(j), Term: uint64(1 + cr.Intn(3)), Type: raft.LogType(cr.Intn(3)), Data: cr.Bytes(cr.Intn(60)), AppendedAt: time.Unix(1700000000, 0).UTC()}
			if cr.Chance(1, 8) {
				l.Extensions = cr.Bytes(1 + cr.Intn(8))
			}
			if len(l.Data) > maxData {
				maxData = len(l.Data)
			}
			toks = append(toks, logTok(l))
		}
		bb := pick(cr, []int{-1, 0, 1, 32, 33, 64, 100, 1 << 20, maxData + 32, maxData + 31, 2*maxData + 64,
			// "one batch, no limit": the extreme values of int (a size computed from batchBytes must not be handed to make)
			math.MaxInt, math.MaxInt / 2, 1 << 62, 1 << 31, 1<<32 + 1, math.MinInt})
		cancel := "-"
		if cr.Chance(1, 3) {
			cancel = fmt.Sprint(cr.Intn(nlogs + 2))
		}
		prog := pick(cr, []string{"p0", "p1", "p2"})
		c.Ops = append(c.Ops, strings.TrimRight(fmt.Sprintf("copylogs %d %s %s %d %s", bb, cancel, prog, first, strings.Join(toks, " ")), " "))
		// CopyStable
		pol := map[string]string{"wal": "zz", "inmem": "ze", "bolt": "ee"}[sk] // absent int key / absent key: zero or error
		var st []string
		for _, k := range []string{"CurrentTerm", "LastVoteTerm"} {
			if cr.Chance(3, 4) || sk != "wal" && cr.Chance(2, 3) {
				st = append(st, fmt.Sprintf("I:%s=%d", hx([]byte(k)), genU64(cr)))
			}
		}
		if cr.Chance(3, 4) {
			st = append(st, fmt.Sprintf("K:%s=%s", hx([]byte("LastVoteCand")), hx(cr.Bytes(1+cr.Intn(20)))))
		}
		if cr.Chance(1, 2) {
			k := hx([]byte("extraK"))
			st = append(st, "XK:"+k)
			if cr.Chance(4, 5) {
				st = append(st, fmt.Sprintf("K:%s=%s", k, hx(cr.Bytes(1+cr.Intn(5)))))
			}
		}
		if cr.Chance(1, 2) {
			k := hx([]byte("extraI"))
			st = append(st, "XI:"+k)
			if cr.Chance(4, 5) {
				st = append(st, fmt.Sprintf("I:%s=%d", k, cr.U64()))
			}
		}
		scancel := "-"
		if cr.Chance(1, 4) {
			scancel = fmt.Sprint(cr.Intn(5))
		}
		c.Ops = append(c.Ops, strings.TrimRight(fmt.Sprintf("copystable %s %s %s %s", pol, scancel, pick(cr, []string{"p0", "p1", "p2"}), strings.Join(st, " ")), " "))
		c.Ops = append(c.Ops, fmt.Sprintf("copyfail %s %s", pick(cr, []string{"first", "last", "get", "closed"}), pick(cr, []string{"p0", "p1", "p2"})))
		if nlogs > 0 {
			// the destination fails on one of its writes — the last one (often a partial batch) as likely as any
			bbF := pick(cr, []int{0, 64, 100, maxData + 32, 2*maxData + 64, 1 << 20})
			c.Ops = append(c.Ops, strings.TrimRight(fmt.Sprintf("copydstfail %d %d %d %s", bbF, 1+cr.Intn(4), first, strings.Join(toks, " ")), " "))
		}
		c.Impl = c.Exec(c.Ops)
		c.NonTrivial = nlogs > 0
		bbc := "small"
		if bb > 64 {
			bbc = "large"
		}
		if bb >= 1<<31 || bb == math.MinInt {
			bbc = "extreme"
		}
		c.Shape = fmt.Sprintf("%s>%s/%d/%s/%v/%s", sk, dk, nlogs, bbc, cancel != "-", prog)
		c.Tags = []string{"pair:" + sk + ">" + dk, fmt.Sprintf("n:%d", nlogs)}
		if cancel != "-" {
			c.Tags = append(c.Tags, "cancelled")
		}
		if nlogs == 0 {
			c.Tags = append(c.Tags, "empty-source")
		}
		cases = append(cases, c)
	}
	RunCases("migrate", cases, rep)
	return rep
}

func init() { suites["migrate"] = suiteMigrate }
