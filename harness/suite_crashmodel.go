package main

import (
	"fmt"
	"hash/fnv"
	"sort"
	"strings"

	"github.com/hashicorp/raft"
	wal "github.com/hashicorp/raft-wal"

	"verifharness/simfs"
)

// Correspondence of Model/Crash.lean (the I/O-action level crash model the C01–C04 crash theorems are about) with the
// real WAL on simfs:
//   (a) per API call, the canonicalised sequence of I/O events the real code issued (file writes, fsyncs, creates,
//       meta commits, deletes, and the point at which the call returned) equals the model's program for that call;
//   (b) for every crash point inside every call and each of {process crash, power loss with nothing un-fsynced
//       surviving, power loss with everything surviving}, the log the real Open recovers from the image equals the log
//       the model's Open computes from the model's image (first, last, length, content hash) — and Open fails in the
//       model iff it fails for real;
//   (c) the same after a restart from such an image (Open and a further append crashed again), so that the model's
//       recovery program is compared on non-quiescent states too.
// Chunk-granular power-loss images stay with the monitors of suite_crash.go: the model's granularity is the batch
// (C02: a torn batch recovers as absent or whole).

func entryHash(tok string) uint64 {
	h := fnv.New64a()
	h.Write([]byte(tokKey(tok)))
	return h.Sum64() % 1000000007
}

func segIDOf(name string) (id, base uint64, ok bool) {
	if !strings.HasSuffix(name, ".wal") {
		return 0, 0, false
	}
	var b, i uint64
	if _, err := fmt.Sscanf(name, "%020d-%016x.wal", &b, &i); err != nil {
		return 0, 0, false
	}
	return i, b, true
}

// canonActions maps the events of one call to model actions; mapped[i] tells whether event i (relative to the span)
// produced an action. inOpen: recovery's zeroing writes are not actions, repeated fsyncs of one file collapse.
func canonActions(evs []simfs.Event, inOpen bool) (acts []string, mapped []bool) {
	mapped = make([]bool, len(evs))
	last := ""
	for i, e := range evs {
		if e.Failed {
			continue
		}
		a := ""
		switch e.Kind {
		case "write":
			if id, _, ok := segIDOf(e.Name); ok && !inOpen {
				a = fmt.Sprintf("w%d", id)
			}
		case "sync":
			if id, _, ok := segIDOf(e.Name); ok {
				a = fmt.Sprintf("s%d", id)
				if inOpen && a == last {
					a = ""
				}
			}
		case "create":
			if id, b, ok := segIDOf(e.Name); ok {
				a = fmt.Sprintf("c%d:%d", id, b)
			}
		case "delete":
			if id, _, ok := segIDOf(e.Name); ok {
				a = fmt.Sprintf("d%d", id)
			}
		case "commit":
			a = fmt.Sprintf("m%d:%d", len(e.Meta.Segments), e.Meta.NextSegmentID)
		case "setstable":
			a = "m="
		}
		if a != "" {
			acts = append(acts, a)
			mapped[i] = true
			last = a
		}
	}
	return
}

// sortDeleteRuns: deletions of one call are issued in Go map order; runs of consecutive deletes are rendered sorted by id
func sortDeleteRuns(acts []string) []string {
	out := append([]string(nil), acts...)
	for i := 0; i < len(out); {
		if !strings.HasPrefix(out[i], "d") {
			i++
			continue
		}
		j := i
		for j < len(out) && strings.HasPrefix(out[j], "d") {
			j++
		}
		sort.Slice(out[i:j], func(a, b int) bool { return atoiU(out[i+a][1:]) < atoiU(out[i+b][1:]) })
		i = j
	}
	return out
}

func logSummary(w *wal.WAL) string {
	first, last, entries, err := readAll(w)
	if err != nil {
		return "unreadable: " + err.Error()
	}
	var h uint64
	for i, e := range entries {
		h += (first+uint64(i))*1000003 + entryHash(e)
	}
	return fmt.Sprintf("%d %d %d %d", first, last, len(entries), h)
}

type cmQuery struct {
	line   string
	impl   string
	replay []string
}

type cmCase struct {
	lines   []string // driver input
	expect  []string // impl answer per line ("" = not compared)
	replays [][]string
}

func (cc *cmCase) add(line, impl string, replay []string) {
	cc.lines = append(cc.lines, line)
	cc.expect = append(cc.expect, impl)
	cc.replays = append(cc.replays, replay)
}

// modelOpLine renders a workload op for the model; rotated: the real call rotated the tail (its sealing decision
// depends on byte sizes, which the crash model abstracts into an input)
func modelOpLine(op string, rotated bool) string {
	ws := strings.Fields(op)
	switch ws[0] {
	case "open":
		return "open"
	case "store":
		first := atoiU(strings.SplitN(ws[1], ":", 2)[0])
		var hs []string
		for _, t := range ws[1:] {
			hs = append(hs, fmt.Sprint(entryHash(t)))
		}
		s := 0
		if rotated {
			s = 1
		}
		return fmt.Sprintf("store %d %d %s", first, s, strings.Join(hs, " "))
	case "del":
		return fmt.Sprintf("del %s %s", ws[1], ws[2])
	case "setu":
		return "setu 1 " + ws[2]
	}
	return "state"
}

// crashModelTie builds the driver cases for one workload. prefix: model lines that re-create `start` in the model.
func crashModelTie(start *simfs.Disk, prefix []string, segSize int, ops []string, r *Rng, depth int, baseReplay []string, owds bool, out *[]*cmCase, stats map[string]int) {
	d := start.Clone()
	d.Record = true
	spans, w := runRecorded(d, segSize, ops)
	if w != nil {
		w.Close()
	}
	events := append([]simfs.Event(nil), d.Events...)
	cc := &cmCase{}
	cc.add("case x", "", nil)
	for _, l := range prefix {
		cc.add(l, "", nil)
	}
	tr := simfs.NewTracker(start)
	tr.OpenWriterDirSyncs = owds
	applied := 0
	var modelOps []string
	type nested struct {
		img    *simfs.Disk
		lines  []string
		replay []string
	}
	var nest []nested
	for si, sp := range spans {
		end := len(events)
		if si+1 < len(spans) {
			end = spans[si+1].start
		}
		evs := events[sp.start:end]
		isOpen := sp.op == "open"
		acts, mapped := canonActions(evs, isOpen)
		ackRel := sp.ack - sp.start
		hasAck := !isOpen && (sp.result == "ok" || strings.HasPrefix(sp.result, "ok"))
		// actions with the ack inserted where the call returned
		var full []string
		nBefore := 0
		for i := range evs {
			if i == ackRel && hasAck {
				full = append(full, "ack")
			}
			if mapped[i] {
				full = append(full, acts[nBefore])
				nBefore++
			}
		}
		if ackRel >= len(evs) && hasAck {
			full = append(full, "ack")
		}
		rotated := false
		if strings.HasPrefix(sp.op, "store") {
			for i := ackRel; i < len(evs); i++ {
				if evs[i].Kind == "commit" && !evs[i].Failed {
					rotated = true
				}
			}
		}
		implActs := strings.Join(sortDeleteRuns(full), " ")
		if len(full) == 0 {
			implActs = "-"
		}
		if !isOpen && !(sp.result == "ok" || strings.HasPrefix(sp.result, "ok")) {
			implActs = "err"
		}
		if isOpen && sp.result != "ok" {
			implActs = "err"
		}
		ml := modelOpLine(sp.op, rotated)
		rp := append(append([]string(nil), baseReplay...), fmt.Sprintf("run: %s", strings.Join(ops[:si+1], " ; ")))
		cc.add(ml, implActs, rp)
		if implActs != "err" {
			// the model's invariant of a live process between calls (Quiescent, the hypothesis of the crash theorems)
			// holds in the state the model reaches by shadowing the real call
			cc.add("inv", "true", append(rp, "model invariant Quiescent after the call"))
		}
		modelOps = append(modelOps, ml)
		stats["calls"]++
		// crash points inside this call
		for i := 0; i <= len(evs); i++ {
			for applied < sp.start+i {
				tr.Apply(events[applied])
				applied++
			}
			k := 0
			for j := 0; j < i; j++ {
				if mapped[j] {
					k++
				}
			}
			if hasAck && i >= ackRel {
				k++
			}
			if i < len(evs) && !mapped[i] && i != ackRel && i != 0 {
				continue // no model-visible step ends here: same image as the previous point
			}
			for _, kind := range []string{"proc", "old", "new", "files", "content"} {
				var img *simfs.Disk
				switch kind {
				case "proc":
					img = tr.ProcessCrash()
				case "old":
					img = tr.PowerLoss(powerChoices[0].mk(tr, r))
				case "new":
					img = tr.PowerLoss(powerChoices[1].mk(tr, r))
				case "files": // un-fsynced directory entries survive, un-fsynced batches do not
					img = tr.PowerLoss(powerChoices[2].mk(tr, r))
				default: // un-fsynced batches survive (in files whose entry is durable), un-fsynced entries do not
					img = tr.PowerLoss(powerChoices[3].mk(tr, r))
				}
				keep := img.Clone()
				w2, err := openWalOn(img, segSize, nil)
				impl := "err"
				if err == nil {
					impl = logSummary(w2)
					w2.Close()
				}
				rq := append(append([]string(nil), rp...), fmt.Sprintf("crash before event %d of the call (%s), %d model actions done, image: %s", i, evDesc(evs, i), k, kind), "then: Open")
				cc.add(fmt.Sprintf("crash %d %s", k, kind), impl, rq)
				stats["images:"+kind]++
				insideDeletes := i > 0 && i < len(evs) && evs[i].Kind == "delete" && evs[i-1].Kind == "delete"
				if depth > 1 && err == nil && !insideDeletes && r.Intn(12) == 0 && len(nest) < 6 {
					pl := append(append([]string(nil), prefix...), modelOps...)
					pl = append(pl, fmt.Sprintf("restore %d %s", k, kind))
					nest = append(nest, nested{img: keep, lines: pl, replay: rq})
				}
			}
		}
	}
	*out = append(*out, cc)
	for _, n := range nest {
		// restart from the image: Open (recovery) and one more append, each crashed again
		first, last := uint64(0), uint64(0)
		if w3, err := openWalOn(n.img.Clone(), segSize, nil); err == nil {
			first, _ = w3.FirstIndex()
			last, _ = w3.LastIndex()
			w3.Close()
		}
		_ = first
		tok := logTok(&raft.Log{Index: last + 1, Term: 11, Data: []byte("nested")})
		crashModelTie(n.img, n.lines, segSize, []string{"open", "store " + tok}, r, depth-1, append(n.replay, "restart from that image"), owds, out, stats)
		stats["nested"]++
	}
}

// runCrashModelCases pipes the cases through the driver and reports divergences.
func runCrashModelCases(cases []*cmCase, rep *Report) {
	var lines []string
	for _, c := range cases {
		lines = append(lines, c.lines...)
	}
	if len(lines) == 0 {
		return
	}
	model, err := runDriver("crash", lines)
	if err != nil {
		rep.Divergences = append(rep.Divergences, Divergence{Props: []string{"C01", "C02", "C03", "C04"}, Case: "crash-model", Op: "run driver", Model: err.Error()})
		return
	}
	pos := 0
	nd := 0
	for ci, c := range cases {
		base := pos
		pos += len(c.lines)
		for i, l := range c.lines {
			m := model[base+i]
			if c.expect[i] == "" || c.expect[i] == m {
				rep.Dist["crash_model_lines_compared"]++
				continue
			}
			rep.Dist["crash_model_divergences"]++
			if nd < 5 {
				nd++
				rep.Divergences = append(rep.Divergences, Divergence{Props: []string{"C01", "C02", "C03", "C04"}, Case: fmt.Sprintf("crash-model-%d", ci),
					Ops: append(append([]string(nil), c.replays[i]...), "model lines: "+strings.Join(clip(c.lines[:i+1], 14), " | ")), At: i, Op: l, Impl: c.expect[i], Model: m})
			}
			break // later lines of this case depend on the diverged state
		}
	}
}
