package main

import (
	"fmt"
	"math"
	"strings"

	"github.com/hashicorp/raft"
	"verifharness/simfs"
)

func init() {
	extraCommands["faultdebug"] = func(args []string) int {
		// faultdebug <segSize> <at> <landed> -- ops separated by " ; "
		segSize := int(atoiU(args[0]))
		plan := &faultPlan{at: int(atoiU(args[1])), landed: int(atoiU(args[2])), persistent: atoiU(args[2]) >= 1<<20}
		ops := strings.Split(strings.Join(args[3:], " "), " ; ")
		d := simfs.New()
		d.Fault = plan.hook
		w, err := openWalOn(d, segSize, nil)
		fmt.Println("open", err)
		for _, op := range ops {
			ws := strings.Fields(op)
			n0 := d.NumEvents()
			switch ws[0] {
			case "store":
				var logs []*raft.Log
				for _, t := range ws[1:] {
					logs = append(logs, parseLogTok(t))
				}
				err = w.StoreLogs(logs)
				w.DeleteRange(math.MaxUint64, math.MaxUint64)
			case "del":
				err = w.DeleteRange(atoiU(ws[1]), atoiU(ws[2]))
			case "reopen":
				w.Close()
				d.Fault = nil
				w, err = openWalOn(d, segSize, nil)
			}
			f, _ := w.FirstIndex()
			l, _ := w.LastIndex()
			fmt.Printf("%-40.40s -> %v   first=%d last=%d fired=%d\n", op, err, f, l, plan.fired)
			for _, e := range d.Events[n0:] {
				fmt.Printf("      %s %s failed=%v off=%d len=%d\n", e.Kind, e.Name, e.Failed, e.Off, len(e.Data))
			}
			if plan.fired > 0 {
				d.Fault = nil
			}
		}
		return 0
	}
}
