package main

func runFacts(repo, outdir string) error { return nil }
