package main

// T1 — fact extractor. Parses the repository's current source with go/parser and
// regenerates lean/RaftWal/Generated/*.lean. Only data and straight-line code
// are read (constants, byte layouts, call orders, metric call sites). When a
// function no longer has the shape understood here the extractor fails loudly
// (the tie is reported broken); it never guesses.

import (
	"bytes"
	"encoding/json"
	"fmt"
	"go/ast"
	"go/parser"
	"go/printer"
	"go/token"
	"os"
	"path/filepath"
	"sort"
	"strconv"
	"strings"
)

type factPkg struct {
	fset  *token.FileSet
	files map[string]*ast.File // file base name -> AST
	dir   string
}

func loadPkg(dir string) (*factPkg, error) {
	fset := token.NewFileSet()
	ents, err := os.ReadDir(dir)
	if err != nil {
		return nil, err
	}
	p := &factPkg{fset: fset, files: map[string]*ast.File{}, dir: dir}
	for _, e := range ents {
		n := e.Name()
		if e.IsDir() || !strings.HasSuffix(n, ".go") || strings.HasSuffix(n, "_test.go") {
			continue
		}
		f, err := parser.ParseFile(fset, filepath.Join(dir, n), nil, parser.ParseComments)
		if err != nil {
			return nil, err
		}
		// skip files guarded by the verif build tag being *off* duplicates (verif_noyield.go)
		if hasBuildTag(f, "!verif") {
			continue
		}
		p.files[n] = f
	}
	return p, nil
}

func hasBuildTag(f *ast.File, tag string) bool {
	for _, cg := range f.Comments {
		if cg.Pos() > f.Package {
			break
		}
		for _, c := range cg.List {
			if strings.HasPrefix(c.Text, "//go:build") && strings.TrimSpace(strings.TrimPrefix(c.Text, "//go:build")) == tag {
				return true
			}
		}
	}
	return false
}

func (p *factPkg) fn(recv, name string) (*ast.FuncDecl, error) {
	for _, f := range p.files {
		for _, d := range f.Decls {
			fd, ok := d.(*ast.FuncDecl)
			if !ok || fd.Name.Name != name {
				continue
			}
			r := ""
			if fd.Recv != nil && len(fd.Recv.List) == 1 {
				t := fd.Recv.List[0].Type
				if s, ok := t.(*ast.StarExpr); ok {
					t = s.X
				}
				if id, ok := t.(*ast.Ident); ok {
					r = id.Name
				}
			}
			if r == recv {
				return fd, nil
			}
		}
	}
	return nil, fmt.Errorf("function %s.%s not found in %s", recv, name, p.dir)
}

func (p *factPkg) src(n ast.Node) string {
	var b bytes.Buffer
	printer.Fprint(&b, p.fset, n)
	return b.String()
}

// constants: evaluates integer/string constant declarations (with iota) of the package.
type constEnv struct {
	ints map[string]uint64
	strs map[string]string
}

func (p *factPkg) consts() *constEnv {
	env := &constEnv{ints: map[string]uint64{}, strs: map[string]string{}}
	names := make([]string, 0, len(p.files))
	for n := range p.files {
		names = append(names, n)
	}
	sort.Strings(names)
	for pass := 0; pass < 3; pass++ {
		for _, n := range names {
			for _, d := range p.files[n].Decls {
				gd, ok := d.(*ast.GenDecl)
				if !ok || (gd.Tok != token.CONST && gd.Tok != token.VAR) {
					continue
				}
				var lastExprs []ast.Expr
				for i, s := range gd.Specs {
					vs := s.(*ast.ValueSpec)
					exprs := vs.Values
					if len(exprs) == 0 && gd.Tok == token.CONST {
						exprs = lastExprs
					} else {
						lastExprs = exprs
					}
					for j, id := range vs.Names {
						if j >= len(exprs) {
							continue
						}
						if v, ok := env.evalInt(exprs[j], uint64(i)); ok {
							env.ints[id.Name] = v
						} else if sv, ok := env.evalStr(exprs[j]); ok {
							env.strs[id.Name] = sv
						}
					}
				}
			}
		}
	}
	return env
}

func (e *constEnv) evalInt(x ast.Expr, iota uint64) (uint64, bool) {
	switch x := x.(type) {
	case *ast.BasicLit:
		if x.Kind == token.INT {
			v, err := strconv.ParseUint(strings.ReplaceAll(x.Value, "_", ""), 0, 64)
			return v, err == nil
		}
	case *ast.Ident:
		if x.Name == "iota" {
			return iota, true
		}
		v, ok := e.ints[x.Name]
		return v, ok
	case *ast.ParenExpr:
		return e.evalInt(x.X, iota)
	case *ast.CallExpr: // conversions like uint64(x)
		if len(x.Args) == 1 {
			if id, ok := x.Fun.(*ast.Ident); ok && strings.HasPrefix(id.Name, "uint") || ok && strings.HasPrefix(id.Name, "int") {
				return e.evalInt(x.Args[0], iota)
			}
		}
	case *ast.BinaryExpr:
		a, ok1 := e.evalInt(x.X, iota)
		b, ok2 := e.evalInt(x.Y, iota)
		if !ok1 || !ok2 {
			return 0, false
		}
		switch x.Op {
		case token.ADD:
			return a + b, true
		case token.SUB:
			return a - b, true
		case token.MUL:
			return a * b, true
		case token.SHL:
			return a << b, true
		case token.QUO:
			if b != 0 {
				return a / b, true
			}
		}
	}
	return 0, false
}

func (e *constEnv) evalStr(x ast.Expr) (string, bool) {
	switch x := x.(type) {
	case *ast.BasicLit:
		if x.Kind == token.STRING {
			s, err := strconv.Unquote(x.Value)
			return s, err == nil
		}
	case *ast.Ident:
		s, ok := e.strs[x.Name]
		return s, ok
	case *ast.BinaryExpr:
		if x.Op == token.ADD {
			a, ok1 := e.evalStr(x.X)
			b, ok2 := e.evalStr(x.Y)
			return a + b, ok1 && ok2
		}
	}
	return "", false
}

func leanStr(s string) string { return strconv.Quote(s) }

type leanFile struct {
	name string
	b    strings.Builder
}

func newLean(name, from string, imports ...string) *leanFile {
	l := &leanFile{name: name}
	fmt.Fprintf(&l.b, "-- GENERATED by `harness facts` from %s — do not edit.\n", from)
	for _, i := range imports {
		fmt.Fprintf(&l.b, "import %s\n", i)
	}
	fmt.Fprintf(&l.b, "namespace RaftWal.Generated\n\n")
	return l
}

func (l *leanFile) defNat(name string, v uint64, doc string) {
	fmt.Fprintf(&l.b, "/-- %s -/\ndef %s : Nat := %d\n\n", doc, name, v)
}
func (l *leanFile) defStr(name string, v string, doc string) {
	fmt.Fprintf(&l.b, "/-- %s -/\ndef %s : String := %s\n\n", doc, name, leanStr(v))
}
func (l *leanFile) raw(s string) { l.b.WriteString(s) }
func (l *leanFile) finish(outdir string) error {
	l.b.WriteString("end RaftWal.Generated\n")
	return os.WriteFile(filepath.Join(outdir, l.name), []byte(l.b.String()), 0o644)
}

func needInt(env *constEnv, pkg, name string) (uint64, error) {
	v, ok := env.ints[name]
	if !ok {
		return 0, fmt.Errorf("constant %s.%s not found or not an integer constant", pkg, name)
	}
	return v, nil
}
func needStr(env *constEnv, pkg, name string) (string, error) {
	v, ok := env.strs[name]
	if !ok {
		return "", fmt.Errorf("constant %s.%s not found or not a string constant", pkg, name)
	}
	return v, nil
}

// exprToLean translates a pure integer Go expression over the given parameter
// names and package constants to a Lean Nat expression.
func exprToLean(x ast.Expr, params map[string]bool, env *constEnv, calls map[string]string) (string, error) {
	switch x := x.(type) {
	case *ast.BasicLit:
		if x.Kind == token.INT {
			return x.Value, nil
		}
	case *ast.Ident:
		if params[x.Name] {
			return x.Name, nil
		}
		if v, ok := env.ints[x.Name]; ok {
			return fmt.Sprint(v), nil
		}
	case *ast.ParenExpr:
		s, err := exprToLean(x.X, params, env, calls)
		return "(" + s + ")", err
	case *ast.BinaryExpr:
		a, err := exprToLean(x.X, params, env, calls)
		if err != nil {
			return "", err
		}
		b, err := exprToLean(x.Y, params, env, calls)
		if err != nil {
			return "", err
		}
		op := map[token.Token]string{token.ADD: "+", token.SUB: "-", token.MUL: "*", token.REM: "%", token.QUO: "/", token.AND: "&&&", token.OR: "|||", token.SHL: "<<<", token.SHR: ">>>"}[x.Op]
		if op == "" {
			return "", fmt.Errorf("unsupported operator %s", x.Op)
		}
		return "(" + a + " " + op + " " + b + ")", nil
	case *ast.CallExpr:
		if id, ok := x.Fun.(*ast.Ident); ok {
			if id.Name == "int" || id.Name == "uint32" || id.Name == "uint64" {
				if len(x.Args) == 1 {
					return exprToLean(x.Args[0], params, env, calls)
				}
			}
			if ln, ok := calls[id.Name]; ok {
				var args []string
				for _, a := range x.Args {
					s, err := exprToLean(a, params, env, calls)
					if err != nil {
						return "", err
					}
					args = append(args, s)
				}
				return "(" + ln + " " + strings.Join(args, " ") + ")", nil
			}
		}
	}
	return "", fmt.Errorf("unsupported expression")
}

type layoutEntry struct {
	Lo, Hi int
	Kind   string // "le32" "le64" "byte"
	Field  string
}

func (e layoutEntry) lean() string {
	return fmt.Sprintf("(%d, %d, %s, %s)", e.Lo, e.Hi, leanStr(e.Kind), leanStr(e.Field))
}

func intLit(x ast.Expr, env *constEnv) (int, bool) {
	if x == nil {
		return 0, false
	}
	v, ok := env.evalInt(x, 0)
	return int(v), ok
}

// layoutOf extracts the byte layout written/read by a function: every
// `binary.LittleEndian.PutUintNN(buf[a:b], expr)`, `buf[i] = expr`,
// `x = binary.LittleEndian.UintNN(buf[a:b])` and comparison `buf[i] != expr`.
func (p *factPkg) layoutOf(fd *ast.FuncDecl, env *constEnv, bufName string) ([]layoutEntry, error) {
	var out []layoutEntry
	var ferr error
	sliceRange := func(x ast.Expr) (int, int, bool) {
		se, ok := x.(*ast.SliceExpr)
		if !ok {
			return 0, 0, false
		}
		if id, ok := se.X.(*ast.Ident); !ok || id.Name != bufName {
			return 0, 0, false
		}
		lo, ok1 := 0, true
		if se.Low != nil {
			lo, ok1 = intLit(se.Low, env)
		}
		hi, ok2 := intLit(se.High, env)
		return lo, hi, ok1 && ok2
	}
	ast.Inspect(fd.Body, func(n ast.Node) bool {
		switch n := n.(type) {
		case *ast.CallExpr:
			sel, ok := n.Fun.(*ast.SelectorExpr)
			if !ok {
				return true
			}
			name := sel.Sel.Name
			if strings.HasPrefix(name, "PutUint") && len(n.Args) == 2 {
				lo, hi, ok := sliceRange(n.Args[0])
				if !ok {
					ferr = fmt.Errorf("%s: PutUint with a non-literal range: %s", fd.Name.Name, p.src(n))
					return false
				}
				out = append(out, layoutEntry{lo, hi, "put-le" + strings.TrimPrefix(name, "PutUint"), p.src(n.Args[1])})
			} else if strings.HasPrefix(name, "Uint") && len(n.Args) == 1 {
				if lo, hi, ok := sliceRange(n.Args[0]); ok {
					out = append(out, layoutEntry{lo, hi, "get-le" + strings.TrimPrefix(name, "Uint"), ""})
				}
			}
		case *ast.AssignStmt:
			if len(n.Lhs) == 1 && len(n.Rhs) == 1 {
				if ix, ok := n.Lhs[0].(*ast.IndexExpr); ok {
					if id, ok := ix.X.(*ast.Ident); ok && id.Name == bufName {
						i, ok := intLit(ix.Index, env)
						if !ok {
							ferr = fmt.Errorf("%s: non-literal index %s", fd.Name.Name, p.src(n))
							return false
						}
						out = append(out, layoutEntry{i, i + 1, "put-byte", p.src(n.Rhs[0])})
					}
				}
				// x.F = binary.LittleEndian.UintNN(buf[a:b]) : annotate the field on the get entry
				if call, ok := n.Rhs[0].(*ast.CallExpr); ok {
					if sel, ok := call.Fun.(*ast.SelectorExpr); ok && strings.HasPrefix(sel.Sel.Name, "Uint") && len(call.Args) == 1 {
						if lo, hi, ok := sliceRange(call.Args[0]); ok {
							out = append(out, layoutEntry{lo, hi, "get-le" + strings.TrimPrefix(sel.Sel.Name, "Uint") + "-into", p.src(n.Lhs[0])})
						}
					}
				}
			}
		case *ast.BinaryExpr:
			if n.Op == token.NEQ || n.Op == token.EQL {
				if ix, ok := n.X.(*ast.IndexExpr); ok {
					if id, ok := ix.X.(*ast.Ident); ok && id.Name == bufName {
						if i, ok := intLit(ix.Index, env); ok {
							out = append(out, layoutEntry{i, i + 1, "cmp-byte" + n.Op.String(), p.src(n.Y)})
						}
					}
				}
			}
		}
		return true
	})
	// drop the un-annotated duplicate of each annotated get
	var filtered []layoutEntry
	for _, e := range out {
		if strings.HasPrefix(e.Kind, "get-le") && !strings.HasSuffix(e.Kind, "-into") {
			dup := false
			for _, f := range out {
				if f.Lo == e.Lo && f.Hi == e.Hi && f.Kind == e.Kind+"-into" {
					dup = true
				}
			}
			if dup {
				continue
			}
		}
		filtered = append(filtered, e)
	}
	return filtered, ferr
}

func leanList(items []string) string {
	if len(items) == 0 {
		return "[]"
	}
	return "[" + strings.Join(items, ",\n   ") + "]"
}

// callOrder lists `recv.method(arg)` calls on the given receiver variable in source order.
func (p *factPkg) callOrder(fd *ast.FuncDecl, recvVar string) []string {
	var out []string
	ast.Inspect(fd.Body, func(n ast.Node) bool {
		call, ok := n.(*ast.CallExpr)
		if !ok {
			return true
		}
		sel, ok := call.Fun.(*ast.SelectorExpr)
		if !ok {
			return true
		}
		if id, ok := sel.X.(*ast.Ident); ok && id.Name == recvVar {
			arg := ""
			if len(call.Args) > 0 {
				arg = p.src(call.Args[len(call.Args)-1])
			}
			out = append(out, fmt.Sprintf("(%s, %s)", leanStr(sel.Sel.Name), leanStr(arg)))
		}
		return true
	})
	return out
}

type metricSite struct {
	Pkg, Func, Kind, Name string
	Literal               bool
	Pos                   string
}

func (p *factPkg) metricSites(pkgName string) []metricSite {
	var out []metricSite
	names := make([]string, 0, len(p.files))
	for n := range p.files {
		names = append(names, n)
	}
	sort.Strings(names)
	for _, fn := range names {
		for _, d := range p.files[fn].Decls {
			fd, ok := d.(*ast.FuncDecl)
			if !ok || fd.Body == nil {
				continue
			}
			ast.Inspect(fd.Body, func(n ast.Node) bool {
				call, ok := n.(*ast.CallExpr)
				if !ok {
					return true
				}
				sel, ok := call.Fun.(*ast.SelectorExpr)
				if !ok || (sel.Sel.Name != "IncrementCounter" && sel.Sel.Name != "SetGauge") || len(call.Args) < 1 {
					return true
				}
				s := metricSite{Pkg: pkgName, Func: fd.Name.Name, Kind: map[string]string{"IncrementCounter": "counter", "SetGauge": "gauge"}[sel.Sel.Name],
					Pos: p.fset.Position(call.Pos()).String()}
				if bl, ok := call.Args[0].(*ast.BasicLit); ok && bl.Kind == token.STRING {
					s.Name, _ = strconv.Unquote(bl.Value)
					s.Literal = true
				} else {
					s.Name = p.src(call.Args[0])
				}
				out = append(out, s)
				return true
			})
		}
	}
	return out
}

// metricDefs reads `MetricDefinitions = metrics.Definitions{Counters: ..., Gauges: ...}`.
func (p *factPkg) metricDefs() (counters, gauges []string, err error) {
	for _, f := range p.files {
		for _, d := range f.Decls {
			gd, ok := d.(*ast.GenDecl)
			if !ok {
				continue
			}
			for _, s := range gd.Specs {
				vs, ok := s.(*ast.ValueSpec)
				if !ok || len(vs.Names) != 1 || vs.Names[0].Name != "MetricDefinitions" || len(vs.Values) != 1 {
					continue
				}
				cl, ok := vs.Values[0].(*ast.CompositeLit)
				if !ok {
					return nil, nil, fmt.Errorf("MetricDefinitions is not a composite literal")
				}
				for _, el := range cl.Elts {
					kv := el.(*ast.KeyValueExpr)
					key := kv.Key.(*ast.Ident).Name
					lst, ok := kv.Value.(*ast.CompositeLit)
					if !ok {
						return nil, nil, fmt.Errorf("MetricDefinitions.%s is not a literal", key)
					}
					for _, de := range lst.Elts {
						dl := de.(*ast.CompositeLit)
						for _, fe := range dl.Elts {
							fkv := fe.(*ast.KeyValueExpr)
							if fkv.Key.(*ast.Ident).Name == "Name" {
								bl, ok := fkv.Value.(*ast.BasicLit)
								if !ok {
									return nil, nil, fmt.Errorf("metric name is not a literal")
								}
								n, _ := strconv.Unquote(bl.Value)
								if key == "Counters" {
									counters = append(counters, n)
								} else {
									gauges = append(gauges, n)
								}
							}
						}
					}
				}
				return counters, gauges, nil
			}
		}
	}
	return nil, nil, fmt.Errorf("MetricDefinitions not found in %s", p.dir)
}

func strList(xs []string) string {
	q := make([]string, len(xs))
	for i, x := range xs {
		q[i] = leanStr(x)
	}
	return "[" + strings.Join(q, ", ") + "]"
}

func runFacts(repo, outdir string) error {
	segP, err := loadPkg(filepath.Join(repo, "segment"))
	if err != nil {
		return err
	}
	walP, err := loadPkg(repo)
	if err != nil {
		return err
	}
	metaP, err := loadPkg(filepath.Join(repo, "metadb"))
	if err != nil {
		return err
	}
	verP, err := loadPkg(filepath.Join(repo, "verifier"))
	if err != nil {
		return err
	}
	migP, err := loadPkg(filepath.Join(repo, "migrate"))
	if err != nil {
		return err
	}
	segC, walC, metaC, verC := segP.consts(), walP.consts(), metaP.consts(), verP.consts()

	// ---------- Consts ----------
	lc := newLean("Consts.lean", "segment/format.go, segment/filer.go, codec.go, wal.go, metadb/metadb.go, verifier/verifier.go")
	for _, n := range []string{"MaxEntrySize", "minBufSize", "fileHeaderLen", "version", "magic", "frameHeaderLen", "FrameInvalid", "FrameEntry", "FrameIndex", "FrameCommit"} {
		v, err := needInt(segC, "segment", n)
		if err != nil {
			return err
		}
		lc.defNat("seg_"+n, v, "segment."+n)
	}
	for _, n := range []string{"segmentFileSuffix", "segmentFileNamePattern"} {
		v, err := needStr(segC, "segment", n)
		if err != nil {
			return err
		}
		lc.defStr("seg_"+n, v, "segment."+n)
	}
	for _, n := range []string{"FirstExternalCodecID", "CodecBinaryV1", "DefaultSegmentSize"} {
		v, err := needInt(walC, "wal", n)
		if err != nil {
			return err
		}
		lc.defNat("wal_"+n, v, "wal."+n)
	}
	for _, n := range []string{"FileName", "MetaBucket", "StableBucket", "MetaKey"} {
		v, err := needStr(metaC, "metadb", n)
		if err != nil {
			return err
		}
		lc.defStr("metadb_"+n, v, "metadb."+n)
	}
	v, err := needInt(verC, "verifier", "ExtensionMagicPrefix")
	if err != nil {
		return err
	}
	lc.defNat("ver_ExtensionMagicPrefix", v, "verifier.ExtensionMagicPrefix")
	if err := lc.finish(outdir); err != nil {
		return err
	}

	// ---------- Layout ----------
	ll := newLean("Layout.lean", "segment/format.go")
	calls := map[string]string{}
	for _, fnName := range []string{"padLen", "encodedFrameSize"} {
		fd, err := segP.fn("", fnName)
		if err != nil {
			return err
		}
		if len(fd.Body.List) != 1 {
			return fmt.Errorf("segment.%s is no longer a single return statement", fnName)
		}
		rs, ok := fd.Body.List[0].(*ast.ReturnStmt)
		if !ok || len(rs.Results) != 1 {
			return fmt.Errorf("segment.%s is no longer a single return statement", fnName)
		}
		params := map[string]bool{}
		var pn []string
		for _, f := range fd.Type.Params.List {
			for _, n := range f.Names {
				params[n.Name] = true
				pn = append(pn, "("+n.Name+" : Nat)")
			}
		}
		ex, err := exprToLean(rs.Results[0], params, segC, calls)
		if err != nil {
			return fmt.Errorf("segment.%s: %v: %s", fnName, err, segP.src(rs.Results[0]))
		}
		ll.raw(fmt.Sprintf("/-- segment.%s: `%s` -/\ndef %s %s : Nat := %s\n\n", fnName, segP.src(rs.Results[0]), fnName, strings.Join(pn, " "), ex))
		calls[fnName] = fnName
	}
	{ // indexFrameSize: if numEntries == 0 { return 0 }; return encodedFrameSize(numEntries * 4)
		fd, err := segP.fn("", "indexFrameSize")
		if err != nil {
			return err
		}
		if len(fd.Body.List) != 2 {
			return fmt.Errorf("segment.indexFrameSize no longer has the shape `if c {return a}; return b`")
		}
		ifs, ok1 := fd.Body.List[0].(*ast.IfStmt)
		rs, ok2 := fd.Body.List[1].(*ast.ReturnStmt)
		if !ok1 || !ok2 || ifs.Else != nil || len(ifs.Body.List) != 1 {
			return fmt.Errorf("segment.indexFrameSize no longer has the shape `if c {return a}; return b`")
		}
		cond, ok := ifs.Cond.(*ast.BinaryExpr)
		if !ok || cond.Op != token.EQL {
			return fmt.Errorf("segment.indexFrameSize: condition is not an equality")
		}
		params := map[string]bool{fd.Type.Params.List[0].Names[0].Name: true}
		pn := fd.Type.Params.List[0].Names[0].Name
		ca, err1 := exprToLean(cond.X, params, segC, calls)
		cb, err2 := exprToLean(cond.Y, params, segC, calls)
		ra, err3 := exprToLean(ifs.Body.List[0].(*ast.ReturnStmt).Results[0], params, segC, calls)
		rb, err4 := exprToLean(rs.Results[0], params, segC, calls)
		for _, e := range []error{err1, err2, err3, err4} {
			if e != nil {
				return fmt.Errorf("segment.indexFrameSize: %v", e)
			}
		}
		ll.raw(fmt.Sprintf("/-- segment.indexFrameSize -/\ndef indexFrameSize (%s : Nat) : Nat := if %s = %s then %s else %s\n\n", pn, ca, cb, ra, rb))
	}
	for _, spec := range []struct{ fn, buf, name string }{
		{"writeFileHeader", "buf", "writeFileHeaderLayout"}, {"readFileHeader", "buf", "readFileHeaderLayout"},
		{"writeFrameHeader", "buf", "writeFrameHeaderLayout"}, {"readFrameHeader", "buf", "readFrameHeaderLayout"},
	} {
		fd, err := segP.fn("", spec.fn)
		if err != nil {
			return err
		}
		lay, err := segP.layoutOf(fd, segC, spec.buf)
		if err != nil {
			return err
		}
		var items []string
		for _, e := range lay {
			items = append(items, e.lean())
		}
		ll.raw(fmt.Sprintf("/-- byte layout statements of segment.%s: (lo, hi, kind, expression) -/\ndef %s : List (Nat × Nat × String × String) :=\n  %s\n\n", spec.fn, spec.name, leanList(items)))
	}
	{ // writeFrameHeader: which value goes into bytes 4..8 for which type
		fd, _ := segP.fn("", "writeFrameHeader")
		src := segP.src(fd.Body)
		commitUsesCRC := strings.Contains(src, "if h.typ == FrameCommit {\n\t\tlOrCRC = h.crc") && strings.Contains(src, "lOrCRC := h.len")
		ll.raw(fmt.Sprintf("/-- writeFrameHeader stores h.len in bytes 4..8 except for commit frames, which store h.crc -/\ndef frameHeaderCommitUsesCRC : Bool := %v\n\n", commitUsesCRC))
	}
	if err := ll.finish(outdir); err != nil {
		return err
	}

	// ---------- Codec ----------
	lcd := newLean("Codec.lean", "codec.go", "RaftWal.Model.Codec")
	enc, err := walP.fn("BinaryCodec", "Encode")
	if err != nil {
		return err
	}
	dec, err := walP.fn("BinaryCodec", "Decode")
	if err != nil {
		return err
	}
	lcd.raw("/-- order of `enc.*` calls in `BinaryCodec.Encode` -/\ndef encodeOrder : List (String × String) :=\n  " + leanList(walP.callOrder(enc, "enc")) + "\n\n")
	lcd.raw("/-- order of `dec.*` calls in `BinaryCodec.Decode` (with the conversion wrapped around, if any) -/\ndef decodeOrder : List (String × String) :=\n  " + leanList(walP.decodeAssignOrder(dec)) + "\n\n")
	db, err := walP.fn("decoder", "bytes")
	if err != nil {
		return err
	}
	dbs := walP.src(db.Body)
	copies := strings.Contains(dbs, "make([]byte, n)") && strings.Contains(dbs, "copy(bs, d.buf[:n])") && !strings.Contains(dbs, "bs := d.buf[")
	lcd.raw(fmt.Sprintf("/-- `decoder.bytes` copies out of the input buffer (`make` + `copy`) -/\ndef decoderBytesCopies : Bool := %v\n\n", copies))
	dv, err := walP.fn("decoder", "varint")
	if err != nil {
		return err
	}
	overflowPanics, shortIsErr, err := varintGuard(walP, dv)
	if err != nil {
		return err
	}
	lcd.raw(fmt.Sprintf("/-- how `decoder.varint` treats `binary.Uvarint`'s n (unguarded `d.buf[n:]` panics for n < 0) -/\ndef decodeCfg : RaftWal.DecodeCfg := { overflowPanics := %v, shortIsErr := %v }\n\n", overflowPanics, shortIsErr))
	{ // newSegment: which codec ID is recorded for a new segment
		ns, err := walP.fn("WAL", "newSegment")
		if err != nil {
			return err
		}
		expr := ""
		ast.Inspect(ns.Body, func(n ast.Node) bool {
			if kv, ok := n.(*ast.KeyValueExpr); ok {
				if id, ok := kv.Key.(*ast.Ident); ok && id.Name == "Codec" {
					expr = walP.src(kv.Value)
				}
			}
			return true
		})
		var fromCodec bool
		switch expr {
		case "w.codec.ID()":
			fromCodec = true
		case "CodecBinaryV1":
			fromCodec = false
		default:
			return fmt.Errorf("wal.newSegment: Codec field is %q, neither w.codec.ID() nor CodecBinaryV1", expr)
		}
		lcd.raw(fmt.Sprintf("/-- `newSegment` records `%s` as the segment's codec: true = the configured codec's ID -/\ndef newSegmentRecordsConfiguredCodec : Bool := %v\n\n", expr, fromCodec))
	}
	if err := lcd.finish(outdir); err != nil {
		return err
	}

	// ---------- Conc ----------
	{
		lcc := newLean("Conc.lean", "wal.go")
		all := true
		for _, name := range []string{"FirstIndex", "LastIndex", "GetLog"} {
			fd, err := walP.fn("WAL", name)
			if err != nil {
				return err
			}
			src := walP.src(fd.Body)
			ia := strings.Index(src, "acquireState()")
			ic := strings.Index(src, "s.tail == nil")
			ie := strings.Index(src, "ErrClosed")
			if ia < 0 || ic < ia || ie < ic {
				all = false
			}
		}
		lcc.raw(fmt.Sprintf("/-- FirstIndex, LastIndex and GetLog test the state they acquired for the empty state Close stores (`s.tail == nil`) and return ErrClosed -/\ndef readersCheckEmptyState : Bool := %v\n\n", all))
		cl, err := walP.fn("WAL", "Close")
		if err != nil {
			return err
		}
		cs := walP.src(cl.Body)
		wakes := strings.Contains(cs, "close(w.awaitRotate)")
		lcc.raw(fmt.Sprintf("/-- Close wakes a writer waiting for a pending rotation (`close(w.awaitRotate)`) -/\ndef closeWakesRotationWaiter : Bool := %v\n\n", wakes))
		recheck := true
		for _, name := range []string{"StoreLogs", "DeleteRange"} {
			fd, err := walP.fn("WAL", name)
			if err != nil {
				return err
			}
			src := walP.src(fd.Body)
			// the lock is (re)taken last by whichever of Lock() / awaitRotationLocked() (which drops and
			// re-takes it) comes last before the state is acquired; the closed check has to sit between that
			// point and acquireState() so that both happen in one uninterrupted critical section
			iacq := strings.Index(src, "w.acquireState()")
			if iacq < 0 {
				recheck = false
				continue
			}
			pre := src[:iacq]
			il := strings.LastIndex(pre, "w.writeMu.Lock()")
			if ia := strings.LastIndex(pre, "w.awaitRotationLocked()"); ia > il {
				il = ia
			}
			if il < 0 || !strings.Contains(pre[il:], "w.checkClosed()") {
				recheck = false
			}
		}
		lcc.raw(fmt.Sprintf("/-- StoreLogs and DeleteRange re-check the closed flag after the last point at which they (re)take the write lock (`Lock()` or `awaitRotationLocked()`) and before they acquire the state -/\ndef writersRecheckClosedUnderLock : Bool := %v\n\n", recheck))
		{
			// visibility gate of the tail reader: OffsetForFrame refuses idx > w.LastIndex() (the commit index,
			// published only after flush+fsync) before it touches the offsets slice (published before the flush)
			off, err := segP.fn("Writer", "OffsetForFrame")
			if err != nil {
				return err
			}
			osrc := segP.src(off.Body)
			ig := strings.Index(osrc, "idx > w.LastIndex()")
			io := strings.Index(osrc, "w.getOffsets()")
			li, err := segP.fn("Writer", "LastIndex")
			if err != nil {
				return err
			}
			lsrc := segP.src(li.Body)
			gated := ig >= 0 && io > ig && strings.Contains(osrc[ig:io], "ErrNotFound") && strings.Contains(lsrc, "atomic.LoadUint64(&w.commitIdx)")
			lcc.raw(fmt.Sprintf("/-- the tail reader is gated on the commit index: `OffsetForFrame` returns ErrNotFound for `idx > w.LastIndex()` before reading the offsets slice, and `LastIndex` is an atomic load of `commitIdx` -/\ndef readsGatedOnCommitIdx : Bool := %v\n\n", gated))
		}
		{
			// order inside mutateStateLocked: meta commit, then publish (w.s.Store), then attach the finalizer to the
			// replaced state — the order of the model's writer steps held → published → finSet. A finalizer attached
			// before the commit would run (closing and deleting files) when the commit fails.
			ms, err := walP.fn("WAL", "mutateStateLocked")
			if err != nil {
				return err
			}
			msrc := walP.src(ms.Body)
			ic := strings.Index(msrc, "w.metaDB.CommitState(")
			ip := strings.Index(msrc, "w.s.Store(")
			ifn := strings.Index(msrc, "s.finalizer.Store(")
			ordered := ic >= 0 && ip > ic && ifn > ip && strings.Count(msrc, "s.finalizer.Store(") == 1
			lcc.raw(fmt.Sprintf("/-- `mutateStateLocked` commits the meta state, then publishes the new state, then attaches the finalizer to the replaced one (in that order, once) -/\ndef finalizerAttachedAfterPublish : Bool := %v\n\n", ordered))
		}
		{
			// the rotation goroutine re-reads the closed flag after taking the write lock and before it rotates: a
			// rotation queued before Close must not run on the empty state Close installs
			rr, err := walP.fn("WAL", "runRotate")
			if err != nil {
				return err
			}
			rsrc := walP.src(rr.Body)
			il := strings.Index(rsrc, "w.writeMu.Lock()")
			ir := strings.Index(rsrc, "w.rotateSegmentLocked(")
			ok := il >= 0 && ir > il && (strings.Contains(rsrc[il:ir], "atomic.LoadUint32(&w.closed)") || strings.Contains(rsrc[il:ir], "w.checkClosed()")) && strings.Contains(rsrc[il:ir], "return")
			lcc.raw(fmt.Sprintf("/-- `runRotate` re-checks the closed flag between taking the write lock and rotating, and returns when closed -/\ndef rotationRechecksClosed : Bool := %v\n\n", ok))
		}
		{
			// every reference taken with acquireState is given back exactly once: each call site is a short variable
			// declaration `x, rel := w.acquireState()` (fresh variables, not a re-assignment of ones whose release is
			// already deferred) directly followed by `defer rel()` — the discipline Model.Conc's readers and the
			// refcount theorems (refcount_exact, no_double_close) assume of every caller
			paired := true
			sites := 0
			for _, f := range walP.files {
				ast.Inspect(f, func(n ast.Node) bool {
					bl, ok := n.(*ast.BlockStmt)
					if !ok {
						return true
					}
					for i, st := range bl.List {
						as, ok := st.(*ast.AssignStmt)
						if !ok || len(as.Rhs) != 1 || !strings.HasSuffix(walP.src(as.Rhs[0]), ".acquireState()") {
							continue
						}
						sites++
						good := as.Tok == token.DEFINE && len(as.Lhs) == 2
						if good {
							rel, ok := as.Lhs[1].(*ast.Ident)
							good = ok && i+1 < len(bl.List)
							if good {
								ds, ok := bl.List[i+1].(*ast.DeferStmt)
								good = ok && walP.src(ds.Call) == rel.Name+"()"
							}
						}
						if !good {
							paired = false
						}
					}
					return true
				})
			}
			// acquireState calls that are not statements of a block of this shape (e.g. inside an expression) would be missed above
			total := 0
			for _, f := range walP.files {
				total += strings.Count(walP.src(f), ".acquireState()")
			}
			lcc.raw(fmt.Sprintf("/-- every `acquireState()` call site declares fresh variables and defers the release in the next statement (%d sites) -/\ndef everyAcquireHasDeferredRelease : Bool := %v\n\n", sites, paired && sites > 0 && sites == total))
		}
		{
			// which functions of package wal touch a state's reference count (any atomic operation on, or assignment to,
			// a `.refCount` selector): the refcount theorems (Model.Conc) assume acquire and release are the only ones
			var touch []string
			seen := map[string]bool{}
			for _, f := range walP.files {
				for _, d := range f.Decls {
					fd, ok := d.(*ast.FuncDecl)
					if !ok || fd.Body == nil {
						continue
					}
					hit := false
					ast.Inspect(fd.Body, func(n ast.Node) bool {
						if se, ok := n.(*ast.SelectorExpr); ok && se.Sel.Name == "refCount" {
							hit = true
						}
						return true
					})
					if hit {
						name := fd.Name.Name
						if fd.Recv != nil && len(fd.Recv.List) == 1 {
							t := walP.src(fd.Recv.List[0].Type)
							name = strings.TrimPrefix(t, "*") + "." + name
						}
						if !seen[name] {
							seen[name] = true
							touch = append(touch, leanStr(name))
						}
					}
				}
			}
			sort.Strings(touch)
			lcc.raw("/-- the functions of package wal in which a state's `refCount` is read or written -/\ndef refCountTouchedBy : List String :=\n  " + leanList(touch) + "\n\n")
		}
		if err := lcc.finish(outdir); err != nil {
			return err
		}
	}

	// ---------- wal.go decision logic ----------
	{
		lw := newLean("WalLogic.lean", "wal.go")
		oneLine := func(x string) string { return strings.Join(strings.Fields(x), " ") }
		dr, err := walP.fn("WAL", "DeleteRange")
		if err != nil {
			return err
		}
		var sw *ast.SwitchStmt
		for _, st := range dr.Body.List {
			if x, ok := st.(*ast.SwitchStmt); ok && x.Tag == nil {
				sw = x
			}
		}
		if sw == nil {
			return fmt.Errorf("wal.DeleteRange: the classification switch was not found")
		}
		var items []string
		for _, cc := range sw.Body.List {
			c := cc.(*ast.CaseClause)
			cond := "default"
			if len(c.List) > 0 {
				var cs []string
				for _, e := range c.List {
					cs = append(cs, oneLine(walP.src(e)))
				}
				cond = strings.Join(cs, " , ")
			}
			var body []string
			for _, b := range c.Body {
				t := oneLine(walP.src(b))
				if strings.HasPrefix(t, "return fmt.Errorf(") {
					t = "return error"
				}
				body = append(body, t)
			}
			items = append(items, fmt.Sprintf("(%s, %s)", leanStr(cond), leanStr(strings.Join(body, " ; "))))
		}
		lw.raw("/-- the switch of `DeleteRange` that classifies (min, max) against (first, last): (condition, what is done) per case, in order -/\ndef deleteRangeSwitch : List (String × String) :=\n  " + leanList(items) + "\n\n")
		// guards before the switch: the early return for an empty range
		early := ""
		for _, st := range dr.Body.List {
			if is, ok := st.(*ast.IfStmt); ok && is.Init == nil {
				c := oneLine(walP.src(is.Cond))
				if c == "min > max" {
					early = c + " => " + oneLine(walP.src(is.Body.List[len(is.Body.List)-1]))
				}
			}
		}
		lw.raw(fmt.Sprintf("/-- the empty-range guard of `DeleteRange` -/\ndef deleteRangeEmptyGuard : String := %s\n\n", leanStr(early)))
		// the conditions of all `if` statements of a function whose body breaks out of / selects in a loop
		condsOf := func(fname string) ([]string, error) {
			fd, err := walP.fn("WAL", fname)
			if err != nil {
				return nil, err
			}
			var out []string
			ast.Inspect(fd.Body, func(n ast.Node) bool {
				if is, ok := n.(*ast.IfStmt); ok {
					hasBreak := false
					for _, b := range is.Body.List {
						if bs, ok := b.(*ast.BranchStmt); ok && bs.Tok == token.BREAK {
							hasBreak = true
						}
					}
					if hasBreak {
						out = append(out, oneLine(walP.src(is.Cond)))
					}
				}
				return true
			})
			return out, nil
		}
		tc, err := condsOf("truncateTailLocked")
		if err != nil {
			return err
		}
		hc, err := condsOf("truncateHeadLocked")
		if err != nil {
			return err
		}
		var tq, hq []string
		for _, c := range tc {
			tq = append(tq, leanStr(c))
		}
		for _, c := range hc {
			hq = append(hq, leanStr(c))
		}
		lw.raw("/-- conditions under which the segment scan of `truncateTailLocked` stops (the segment is kept) -/\ndef truncateTailStops : List String :=\n  " + leanList(tq) + "\n\n")
		lw.raw("/-- conditions under which the segment scan of `truncateHeadLocked` stops (the segment becomes the head) -/\ndef truncateHeadStops : List String :=\n  " + leanList(hq) + "\n\n")
		// StoreLogs: the base-reset condition and the monotonicity check
		sl, err := walP.fn("WAL", "StoreLogs")
		if err != nil {
			return err
		}
		reset, mono := "", ""
		ast.Inspect(sl.Body, func(n ast.Node) bool {
			if is, ok := n.(*ast.IfStmt); ok {
				c := oneLine(walP.src(is.Cond))
				b := walP.src(is.Body)
				if strings.Contains(b, "resetEmptyFirstSegmentBaseIndex(") && reset == "" {
					reset = c
				}
				if strings.Contains(b, "non-monotonic") && mono == "" {
					mono = c
				}
			}
			return true
		})
		lw.raw(fmt.Sprintf("/-- `StoreLogs`: when the empty tail is re-based -/\ndef storeResetCond : String := %s\n\n", leanStr(reset)))
		lw.raw(fmt.Sprintf("/-- `StoreLogs`: when an entry is refused as non-monotonic -/\ndef storeNonMonotonicCond : String := %s\n\n", leanStr(mono)))
		// both writers wait for a queued rotation right after taking the lock, before they look at the state
		waits := func(fd *ast.FuncDecl) bool {
			src := walP.src(fd.Body)
			il := strings.Index(src, "w.writeMu.Lock()")
			ia := strings.Index(src, "w.awaitRotationLocked()")
			is := strings.Index(src, "w.acquireState()")
			return il >= 0 && ia > il && is > ia && strings.Count(src, "w.awaitRotationLocked()") == 1
		}
		lw.raw(fmt.Sprintf("/-- `StoreLogs` and `DeleteRange` both wait for a queued rotation (`awaitRotationLocked`) after taking the write lock and before acquiring the state, whatever the call turns out to be -/\ndef writersAwaitRotationFirst : Bool := %v\n\n", waits(sl) && waits(dr)))
		if err := lw.finish(outdir); err != nil {
			return err
		}
	}

	// ---------- segment writer: what a failed append left behind the tail is removed before the next write ----------
	{
		sy, err := segP.fn("Writer", "sync")
		if err != nil {
			return err
		}
		src := segP.src(sy.Body)
		iClear := strings.Index(src, "w.clearStaleTail()")
		iSet := strings.Index(src, "w.writer.staleTail = true")
		iFlush := strings.Index(src, "w.flush()")
		iSync := strings.Index(src, "w.wf.Sync()")
		iReset := strings.Index(src, "w.writer.staleTail = false")
		guarded := false
		ast.Inspect(sy.Body, func(n ast.Node) bool {
			if is, ok := n.(*ast.IfStmt); ok && strings.Contains(segP.src(is.Cond), "staleTail") && strings.Contains(segP.src(is.Body), "clearStaleTail()") && strings.Contains(segP.src(is.Body), "return err") {
				guarded = true
			}
			return true
		})
		ok := guarded && iClear >= 0 && iClear < iSet && iSet < iFlush && iFlush < iSync && iSync < iReset
		lr := newLean("SegWriter.lean", "segment/writer.go (sync)")
		lr.raw(fmt.Sprintf("/-- `Writer.sync`: while the flag says an earlier write was not followed by a successful commit, `clearStaleTail()` runs first and its error is returned; the flag is set before the write and reset only after the fsync succeeded (the `dirty` flag of Model/SegmentRepair.lean) -/\ndef writerClearsStaleTailBeforeWrite : Bool := %v\n\n", ok))
		if err := lr.finish(outdir); err != nil {
			return err
		}
	}

	// ---------- read path buffer discipline (Pool.lean): the guards of Model.Pool, read from the call sites ----------
	if err := genPoolCfg(walP, segP, outdir); err != nil {
		return err
	}

	// ---------- wal.go decision logic translated into Lean functions (WalDecide.lean) ----------
	if err := genWalDecide(walP, outdir); err != nil {
		return err
	}

	// ---------- fs ----------
	{
		fsP, err := loadPkg(filepath.Join(repo, "fs"))
		if err != nil {
			return err
		}
		lf := newLean("Fs.lean", "fs/file.go")
		sy, err := fsP.fn("File", "Sync")
		if err != nil {
			return err
		}
		ssrc := fsP.src(sy.Body)
		iFile := strings.Index(ssrc, "f.File.Sync()")
		iDir := strings.Index(ssrc, "syncDir(")
		// first statement that writes the `new` flag
		iFlag := -1
		for _, w := range []string{"atomic.SwapUint32(&f.new", "atomic.CompareAndSwapUint32(&f.new", "atomic.StoreUint32(&f.new", "atomic.AddUint32(&f.new", "f.new ="} {
			if i := strings.Index(ssrc, w); i >= 0 && (iFlag < 0 || i < iFlag) {
				iFlag = i
			}
		}
		if iFile < 0 || iDir < 0 || iFlag < 0 {
			return fmt.Errorf("fs.File.Sync: file fsync, directory fsync or the write of the new flag not found")
		}
		pol := 1
		switch {
		case iFlag < iFile:
			pol = 0
		case iFlag > iDir && strings.Contains(ssrc[iDir:iFlag], "return"):
			// the error of syncDir is returned before the flag is written
			pol = 2
		}
		lf.raw(fmt.Sprintf("/-- where `File.Sync` clears the `new` flag: 0 = before the file's fsync, 1 = after it but before the directory fsync is known to have succeeded, 2 = only after the directory fsync succeeded -/\ndef fileSyncFlagPolicy : Nat := %d\n\n", pol))
		if err := lf.finish(outdir); err != nil {
			return err
		}
	}

	// ---------- Verifier ----------
	lv := newLean("Verifier.lean", "verifier/verifier.go, verifier/store.go")
	ck, err := verP.fn("", "checksumLog")
	if err != nil {
		return err
	}
	var ckItems []string
	for _, st := range ck.Body.List {
		switch st := st.(type) {
		case *ast.IfStmt:
			inner := ""
			for _, s := range st.Body.List {
				inner += strings.TrimSpace(verP.src(s)) + ";"
			}
			ckItems = append(ckItems, fmt.Sprintf("(%s, %s)", leanStr("if "+verP.src(st.Cond)), leanStr(inner)))
		case *ast.AssignStmt:
			ckItems = append(ckItems, fmt.Sprintf("(%s, %s)", leanStr("do"), leanStr(verP.src(st))))
		case *ast.ReturnStmt:
			ckItems = append(ckItems, fmt.Sprintf("(%s, %s)", leanStr("return"), leanStr(verP.src(st.Results[0]))))
		default:
			return fmt.Errorf("verifier.checksumLog: unexpected statement %s", verP.src(st))
		}
	}
	lv.raw("/-- statements of `checksumLog` in order: (guard | do | return, text) -/\ndef checksumLogStmts : List (String × String) :=\n  " + leanList(ckItems) + "\n\n")
	for _, spec := range []struct{ fn, buf, name string }{{"encodeCheckpointMeta", "buf", "encodeCheckpointMetaLayout"}, {"decodeCheckpointMeta", "bs", "decodeCheckpointMetaLayout"}} {
		fd, err := verP.fn("", spec.fn)
		if err != nil {
			return err
		}
		lay, err := verP.layoutOf(fd, verC, spec.buf)
		if err != nil {
			return err
		}
		var items []string
		for _, e := range lay {
			items = append(items, e.lean())
		}
		lv.raw(fmt.Sprintf("/-- layout of verifier.%s -/\ndef %s : List (Nat × Nat × String × String) :=\n  %s\n\n", spec.fn, spec.name, leanList(items)))
	}
	{ // does LogStore.DeleteRange reset the running checksum state?
		dr, err := verP.fn("LogStore", "DeleteRange")
		if err != nil {
			return err
		}
		src := verP.src(dr.Body)
		resets := strings.Contains(src, "&s.checksum, 0") && strings.Contains(src, "&s.sumStartIdx, 0")
		lv.raw(fmt.Sprintf("/-- `LogStore.DeleteRange` resets the running checksum and its start index -/\ndef verifierDeleteResets : Bool := %v\n\n", resets))
		// DeleteRange: the first thing that happens is the underlying DeleteRange, whose error is returned at once
		iu := strings.Index(src, "s.s.DeleteRange(min, max)")
		first := false
		if len(dr.Body.List) > 0 {
			if ifs, ok := dr.Body.List[0].(*ast.IfStmt); ok && ifs.Init != nil {
				isrc := verP.src(ifs.Init)
				bsrc := verP.src(ifs.Body)
				first = strings.Contains(isrc, "err := s.s.DeleteRange(min, max)") && strings.Contains(verP.src(ifs.Cond), "err != nil") && strings.Contains(bsrc, "return err")
			}
		}
		lv.raw(fmt.Sprintf("/-- `LogStore.DeleteRange` calls the underlying DeleteRange first and returns its error before touching its own state -/\ndef verifierDeleteReturnsUnderlyingError : Bool := %v\n\n", first && iu >= 0 && strings.Count(src, "s.s.DeleteRange(") == 1))
	}
	{ // StoreLogs: the running sum is published only after the underlying StoreLogs returned nil
		sl, err := verP.fn("LogStore", "StoreLogs")
		if err != nil {
			return err
		}
		src := verP.src(sl.Body)
		iu := strings.Index(src, "s.s.StoreLogs(logs)")
		ic := strings.Index(src, "atomic.StoreUint64(&s.checksum")
		ix := strings.Index(src, "atomic.StoreUint64(&s.sumStartIdx")
		it := strings.Index(src, "s.triggerVerify(")
		ok := iu >= 0 && ic > iu && ix > iu && it > iu
		if ok {
			lo := ic
			if ix < lo {
				lo = ix
			}
			between := src[iu:lo]
			ie := strings.Index(between, "err != nil")
			ok = ie >= 0 && strings.Contains(between[ie:], "return err") && strings.Count(src, "atomic.StoreUint64(&s.checksum") == 1 && strings.Count(src, "atomic.StoreUint64(&s.sumStartIdx") == 1
		}
		lv.raw(fmt.Sprintf("/-- `LogStore.StoreLogs` publishes the running checksum and its start index, and hands reports to the verifier, only after the underlying StoreLogs returned nil (its error is returned in between) -/\ndef verifierPublishesAfterStore : Bool := %v\n\n", ok))
	}
	if err := lv.finish(outdir); err != nil {
		return err
	}

	// ---------- Migrate ----------
	lm := newLean("Migrate.lean", "migrate/migrate.go")
	cs, err := migP.fn("", "CopyStable")
	if err != nil {
		return err
	}
	keys := map[string][]string{}
	ast.Inspect(cs.Body, func(n ast.Node) bool {
		as, ok := n.(*ast.AssignStmt)
		if !ok || len(as.Lhs) != 1 || len(as.Rhs) != 1 {
			return true
		}
		id, ok := as.Lhs[0].(*ast.Ident)
		if !ok || (id.Name != "knownIntKeys" && id.Name != "knownKeys") {
			return true
		}
		cl, ok := as.Rhs[0].(*ast.CompositeLit)
		if !ok {
			return true
		}
		for _, el := range cl.Elts {
			if call, ok := el.(*ast.CallExpr); ok && len(call.Args) == 1 {
				if bl, ok := call.Args[0].(*ast.BasicLit); ok {
					s, _ := strconv.Unquote(bl.Value)
					keys[id.Name] = append(keys[id.Name], s)
				}
			}
		}
		return true
	})
	if keys["knownIntKeys"] == nil || keys["knownKeys"] == nil {
		return fmt.Errorf("migrate.CopyStable: known key lists not found")
	}
	lm.raw("/-- migrate.CopyStable knownIntKeys -/\ndef knownIntKeys : List String := " + strList(keys["knownIntKeys"]) + "\n\n")
	lm.raw("/-- migrate.CopyStable knownKeys -/\ndef knownKeys : List String := " + strList(keys["knownKeys"]) + "\n\n")
	{ // does CopyLogs return early for an empty source?
		cl, err := migP.fn("", "CopyLogs")
		if err != nil {
			return err
		}
		guard := false
		for _, st := range cl.Body.List {
			if ifs, ok := st.(*ast.IfStmt); ok {
				c := strings.ReplaceAll(migP.src(ifs.Cond), " ", "")
				if (c == "last==0" || c == "last<first" || c == "last==0&&first==0" || c == "first==0&&last==0") && strings.Contains(migP.src(ifs.Body), "return nil") {
					guard = true
				}
			}
		}
		lm.raw(fmt.Sprintf("/-- CopyLogs returns nil early when the source log is empty -/\ndef copyLogsEmptyGuard : Bool := %v\n\n", guard))
	}
	if err := lm.finish(outdir); err != nil {
		return err
	}

	// ---------- Metrics ----------
	lmt := newLean("Metrics.lean", "wal.go, metrics.go, verifier/*.go")
	var sites []metricSite
	sites = append(sites, walP.metricSites("wal")...)
	sites = append(sites, verP.metricSites("verifier")...)
	var siteItems []string
	for _, s := range sites {
		siteItems = append(siteItems, fmt.Sprintf("(%s, %s, %s, %s, %v)", leanStr(s.Pkg), leanStr(s.Func), leanStr(s.Kind), leanStr(s.Name), s.Literal))
	}
	lmt.raw("/-- every `IncrementCounter` / `SetGauge` call site: (package, function, kind, name, name is a string literal) -/\ndef metricSites : List (String × String × String × String × Bool) :=\n  " + leanList(siteItems) + "\n\n")
	for _, pk := range []struct {
		p *factPkg
		n string
	}{{walP, "wal"}, {verP, "verifier"}} {
		cs, gs, err := pk.p.metricDefs()
		if err != nil {
			return err
		}
		lmt.raw(fmt.Sprintf("/-- %s.MetricDefinitions.Counters names -/\ndef %sCounters : List String := %s\n\n", pk.n, pk.n, strList(cs)))
		lmt.raw(fmt.Sprintf("/-- %s.MetricDefinitions.Gauges names -/\ndef %sGauges : List String := %s\n\n", pk.n, pk.n, strList(gs)))
	}
	if err := lmt.finish(outdir); err != nil {
		return err
	}
	side, _ := json.MarshalIndent(sites, "", " ")
	return os.WriteFile(filepath.Join(outdir, "metric_sites.json"), side, 0o644)
}

// decodeAssignOrder lists `l.F = [conv(]dec.m()[)]` assignments of BinaryCodec.Decode in order.
func (p *factPkg) decodeAssignOrder(fd *ast.FuncDecl) []string {
	var out []string
	for _, st := range fd.Body.List {
		as, ok := st.(*ast.AssignStmt)
		if !ok || len(as.Lhs) != 1 || len(as.Rhs) != 1 {
			continue
		}
		lhs, ok := as.Lhs[0].(*ast.SelectorExpr)
		if !ok {
			continue
		}
		rhs := as.Rhs[0]
		if call, ok := rhs.(*ast.CallExpr); ok {
			if sel, ok := call.Fun.(*ast.SelectorExpr); ok {
				if id, ok := sel.X.(*ast.Ident); ok && id.Name == "dec" {
					out = append(out, fmt.Sprintf("(%s, %s)", leanStr(sel.Sel.Name), leanStr(lhs.Sel.Name)))
					continue
				}
			}
			// conversion wrapping a dec call
			if len(call.Args) == 1 {
				if inner, ok := call.Args[0].(*ast.CallExpr); ok {
					if sel, ok := inner.Fun.(*ast.SelectorExpr); ok {
						if id, ok := sel.X.(*ast.Ident); ok && id.Name == "dec" {
							out = append(out, fmt.Sprintf("(%s, %s)", leanStr(sel.Sel.Name), leanStr(lhs.Sel.Name)))
						}
					}
				}
			}
		}
	}
	return out
}

// varintGuard reads decoder.varint: is `d.buf[n:]` guarded by a check of n's sign?
func varintGuard(p *factPkg, fd *ast.FuncDecl) (overflowPanics, shortIsErr bool, err error) {
	src := p.src(fd.Body)
	if !strings.Contains(src, "binary.Uvarint(d.buf)") || !strings.Contains(src, "d.buf = d.buf[n:]") {
		return false, false, fmt.Errorf("decoder.varint no longer has the shape `v, n := binary.Uvarint(d.buf); … d.buf = d.buf[n:]`")
	}
	// find an if statement between the two whose condition mentions n and whose body sets d.err and returns
	guardLE, guardLT := false, false
	for _, st := range fd.Body.List {
		ifs, ok := st.(*ast.IfStmt)
		if !ok {
			continue
		}
		c := strings.ReplaceAll(p.src(ifs.Cond), " ", "")
		body := p.src(ifs.Body)
		if !strings.Contains(body, "d.err") || !strings.Contains(body, "return") {
			continue
		}
		switch c {
		case "n<=0", "n<1":
			guardLE = true
		case "n<0":
			guardLT = true
		}
	}
	if guardLE {
		return false, true, nil
	}
	if guardLT {
		return false, false, nil
	}
	return true, false, nil
}

// ---------------------------------------------------------------------------------------------------------------------
// Translation of wal.go's decision logic into Lean *functions* (not text): the theorems of Props/C05 and C04 prove
// these equal to the model's own decisions for all arguments, so a rewrite of a condition that keeps its meaning still
// checks and one that changes it breaks a proof obligation.

// u64Lean translates a uint64-valued Go expression. Leaves (identifiers, selectors, calls) are looked up by their
// source text in names. + and - wrap as uint64 does.
func u64Lean(p *factPkg, x ast.Expr, names map[string]string) (string, error) {
	oneLine := func(x string) string { return strings.Join(strings.Fields(x), " ") }
	if v, ok := names[oneLine(p.src(x))]; ok {
		return v, nil
	}
	switch x := x.(type) {
	case *ast.BasicLit:
		if x.Kind == token.INT {
			return x.Value, nil
		}
	case *ast.ParenExpr:
		return u64Lean(p, x.X, names)
	case *ast.BinaryExpr:
		a, err := u64Lean(p, x.X, names)
		if err != nil {
			return "", err
		}
		b, err := u64Lean(p, x.Y, names)
		if err != nil {
			return "", err
		}
		switch x.Op {
		case token.ADD:
			return "(u64 (" + a + " + " + b + "))", nil
		case token.SUB:
			return "(u64sub " + a + " " + b + ")", nil
		}
		return "", fmt.Errorf("unsupported uint64 operator %s in %q", x.Op, oneLine(p.src(x)))
	case *ast.CallExpr:
		if id, ok := x.Fun.(*ast.Ident); ok && id.Name == "uint64" && len(x.Args) == 1 {
			return u64Lean(p, x.Args[0], names)
		}
	}
	return "", fmt.Errorf("operand %q is not understood (known: %v)", oneLine(p.src(x)), names)
}

// boolLean translates a Go condition over uint64 operands into a Lean Bool term.
func boolLean(p *factPkg, x ast.Expr, names map[string]string) (string, error) {
	oneLine := func(x string) string { return strings.Join(strings.Fields(x), " ") }
	if v, ok := names["bool:"+oneLine(p.src(x))]; ok {
		return v, nil
	}
	switch x := x.(type) {
	case *ast.ParenExpr:
		return boolLean(p, x.X, names)
	case *ast.UnaryExpr:
		if x.Op == token.NOT {
			a, err := boolLean(p, x.X, names)
			return "(!" + a + ")", err
		}
	case *ast.BinaryExpr:
		switch x.Op {
		case token.LAND, token.LOR:
			a, err := boolLean(p, x.X, names)
			if err != nil {
				return "", err
			}
			b, err := boolLean(p, x.Y, names)
			if err != nil {
				return "", err
			}
			op := "&&"
			if x.Op == token.LOR {
				op = "||"
			}
			return "(" + a + " " + op + " " + b + ")", nil
		case token.LSS, token.LEQ, token.GTR, token.GEQ, token.EQL, token.NEQ:
			a, err := u64Lean(p, x.X, names)
			if err != nil {
				return "", err
			}
			b, err := u64Lean(p, x.Y, names)
			if err != nil {
				return "", err
			}
			op := map[token.Token]string{token.LSS: "<", token.LEQ: "≤", token.GTR: ">", token.GEQ: "≥", token.EQL: "=", token.NEQ: "≠"}[x.Op]
			return "(decide (" + a + " " + op + " " + b + "))", nil
		}
	}
	return "", fmt.Errorf("condition %q is not understood", oneLine(p.src(x)))
}

// delBodyLean translates the statements of one case of DeleteRange's switch into a DelAction term.
func delBodyLean(p *factPkg, body []ast.Stmt, names map[string]string) (string, error) {
	oneLine := func(x string) string { return strings.Join(strings.Fields(x), " ") }
	if len(body) == 0 {
		return "", fmt.Errorf("a case of the switch falls out of it")
	}
	switch st := body[0].(type) {
	case *ast.ReturnStmt:
		if len(st.Results) != 1 {
			break
		}
		if id, ok := st.Results[0].(*ast.Ident); ok && id.Name == "nil" {
			return ".nothing", nil
		}
		if c, ok := st.Results[0].(*ast.CallExpr); ok {
			fn := oneLine(p.src(c.Fun))
			switch {
			case fn == "fmt.Errorf" || fn == "errors.New":
				return ".refuse", nil
			case (fn == "w.truncateHeadLocked" || fn == "w.truncateTailLocked") && len(c.Args) == 1:
				a, err := u64Lean(p, c.Args[0], names)
				if err != nil {
					return "", err
				}
				if fn == "w.truncateHeadLocked" {
					return "(.head " + a + ")", nil
				}
				return "(.tail " + a + ")", nil
			}
		}
	case *ast.IfStmt:
		// `if C { v = E }` (no else, no init): v is re-bound for the statements that follow
		if st.Init == nil && st.Else == nil && len(st.Body.List) == 1 {
			if as, ok := st.Body.List[0].(*ast.AssignStmt); ok && as.Tok == token.ASSIGN && len(as.Lhs) == 1 && len(as.Rhs) == 1 {
				v := oneLine(p.src(as.Lhs[0]))
				lv, known := names[v]
				if !known {
					return "", fmt.Errorf("assignment to %q, which is not an operand of the classification", v)
				}
				c, err := boolLean(p, st.Cond, names)
				if err != nil {
					return "", err
				}
				e, err := u64Lean(p, as.Rhs[0], names)
				if err != nil {
					return "", err
				}
				rest, err := delBodyLean(p, body[1:], names)
				if err != nil {
					return "", err
				}
				return "(let " + lv + " := if " + c + " then " + e + " else " + lv + "; " + rest + ")", nil
			}
		}
	case *ast.AssignStmt:
		if st.Tok == token.ASSIGN && len(st.Lhs) == 1 && len(st.Rhs) == 1 {
			v := oneLine(p.src(st.Lhs[0]))
			if lv, known := names[v]; known {
				e, err := u64Lean(p, st.Rhs[0], names)
				if err != nil {
					return "", err
				}
				rest, err := delBodyLean(p, body[1:], names)
				if err != nil {
					return "", err
				}
				return "(let " + lv + " := " + e + "; " + rest + ")", nil
			}
		}
	}
	return "", fmt.Errorf("statement %q in DeleteRange's switch is not understood", oneLine(p.src(body[0])))
}

func genWalDecide(walP *factPkg, outdir string) error {
	oneLine := func(x string) string { return strings.Join(strings.Fields(x), " ") }
	lw := newLean("WalDecide.lean", "wal.go (decision logic translated expression by expression)", "RaftWal.Model.WalDecide")
	lw.raw("open RaftWal\n\n")
	// ---- DeleteRange ----
	dr, err := walP.fn("WAL", "DeleteRange")
	if err != nil {
		return err
	}
	names := map[string]string{"min": "min", "max": "max"}
	// first/last must be bound to the state's firstIndex()/lastIndex() before the switch
	bound := false
	var sw *ast.SwitchStmt
	var early []string
	for _, st := range dr.Body.List {
		switch x := st.(type) {
		case *ast.AssignStmt:
			if x.Tok == token.DEFINE && len(x.Lhs) == len(x.Rhs) {
				for i := range x.Lhs {
					l, r := oneLine(walP.src(x.Lhs[i])), oneLine(walP.src(x.Rhs[i]))
					if r == "s.firstIndex()" {
						names[l] = "first"
						bound = true
					}
					if r == "s.lastIndex()" {
						names[l] = "last"
					}
				}
			}
		case *ast.IfStmt:
			// guards before the switch that return nil on a condition over min/max only (the empty range)
			if x.Init == nil && x.Else == nil && sw == nil && len(x.Body.List) >= 1 {
				if rs, ok := x.Body.List[len(x.Body.List)-1].(*ast.ReturnStmt); ok && len(rs.Results) == 1 && oneLine(walP.src(rs.Results[0])) == "nil" {
					c, err := boolLean(walP, x.Cond, map[string]string{"min": "min", "max": "max"})
					if err != nil {
						return fmt.Errorf("wal.DeleteRange: early return: %v", err)
					}
					early = append(early, c)
				}
			}
		case *ast.SwitchStmt:
			if x.Tag == nil {
				sw = x
			}
		}
	}
	if sw == nil || !bound || names["last"] == "" && func() bool {
		for _, v := range names {
			if v == "last" {
				return false
			}
		}
		return true
	}() {
		return fmt.Errorf("wal.DeleteRange: classification switch or the binding of first/last to the state's indexes not found")
	}
	var b strings.Builder
	b.WriteString("/-- `DeleteRange` from its early returns to the call it makes, as a function of (min, max) and the state's (firstIndex, lastIndex); uint64 arithmetic wraps -/\ndef deleteRangeDecide (min max first last : Nat) : DelAction :=\n")
	for _, c := range early {
		b.WriteString("  if " + c + " then .nothing else\n")
	}
	deflt := ""
	for _, cc := range sw.Body.List {
		c := cc.(*ast.CaseClause)
		body, err := delBodyLean(walP, c.Body, names)
		if err != nil {
			return fmt.Errorf("wal.DeleteRange: %v", err)
		}
		if len(c.List) == 0 {
			deflt = body
			continue
		}
		var cs []string
		for _, e := range c.List {
			t, err := boolLean(walP, e, names)
			if err != nil {
				return fmt.Errorf("wal.DeleteRange: %v", err)
			}
			cs = append(cs, t)
		}
		b.WriteString("  if " + strings.Join(cs, " || ") + " then " + body + " else\n")
	}
	if deflt == "" {
		// a switch without default falls through to what follows it; the code returns an error there
		return fmt.Errorf("wal.DeleteRange: the switch has no default case")
	}
	b.WriteString("  " + deflt + "\n\n")
	lw.raw(b.String())

	// ---- truncateTailLocked: the reverse scan keeps a segment (stops) when ... ----
	scan := func(fname string) ([]*ast.IfStmt, *ast.FuncDecl, error) {
		fd, err := walP.fn("WAL", fname)
		if err != nil {
			return nil, nil, err
		}
		var out []*ast.IfStmt
		ast.Inspect(fd.Body, func(n ast.Node) bool {
			if is, ok := n.(*ast.IfStmt); ok {
				for _, st := range is.Body.List {
					if bs, ok := st.(*ast.BranchStmt); ok && bs.Tok == token.BREAK {
						out = append(out, is)
					}
				}
			}
			return true
		})
		return out, fd, nil
	}
	tIfs, _, err := scan("truncateTailLocked")
	if err != nil {
		return err
	}
	if len(tIfs) != 1 {
		return fmt.Errorf("wal.truncateTailLocked: expected exactly one stop condition in the segment scan, found %d", len(tIfs))
	}
	tc, err := boolLean(walP, tIfs[0].Cond, map[string]string{"seg.BaseIndex": "segBase", "seg.MinIndex": "segMin", "seg.MaxIndex": "segMax", "newMax": "newMax"})
	if err != nil {
		return fmt.Errorf("wal.truncateTailLocked: %v", err)
	}
	lw.raw("/-- `truncateTailLocked`: the reverse scan stops at (keeps) a segment when -/\ndef truncateTailKeeps (segBase segMin segMax newMax : Nat) : Bool :=\n  " + tc + "\n\n")

	// ---- truncateHeadLocked: the forward scan stops at a segment (it becomes the head) when ... ----
	hIfs, _, err := scan("truncateHeadLocked")
	if err != nil {
		return err
	}
	// expected shape: if seg.SealTime.IsZero() { if C1 { head; break } } else if C2 { head; break }
	hnames := map[string]string{"seg.BaseIndex": "segBase", "seg.MinIndex": "segMin", "seg.MaxIndex": "segMax", "newMin": "newMin",
		"newState.lastIndex()": "stateLast", "bool:seg.SealTime.IsZero()": "(!segSealed)", "bool:!seg.SealTime.IsZero()": "segSealed"}
	hd, err := walP.fn("WAL", "truncateHeadLocked")
	if err != nil {
		return err
	}
	var loop *ast.ForStmt
	ast.Inspect(hd.Body, func(n ast.Node) bool {
		if f, ok := n.(*ast.ForStmt); ok && loop == nil {
			loop = f
		}
		return true
	})
	if loop == nil || len(hIfs) == 0 {
		return fmt.Errorf("wal.truncateHeadLocked: the segment scan was not found")
	}
	// translate the loop body's if-chain that leads to a break into one Bool: stops := OR over paths(conds along the path)
	var paths func(st ast.Stmt, along []string) ([]string, error)
	paths = func(st ast.Stmt, along []string) ([]string, error) {
		var out []string
		switch x := st.(type) {
		case *ast.BlockStmt:
			for _, s := range x.List {
				o, err := paths(s, along)
				if err != nil {
					return nil, err
				}
				out = append(out, o...)
			}
		case *ast.IfStmt:
			if x.Init != nil {
				return nil, fmt.Errorf("if with init in the scan")
			}
			c, err := boolLean(walP, x.Cond, hnames)
			if err != nil {
				// a condition that is not about the stop decision and has no break below it is skipped
				hasBreak := false
				ast.Inspect(x, func(n ast.Node) bool {
					if bs, ok := n.(*ast.BranchStmt); ok && bs.Tok == token.BREAK {
						hasBreak = true
					}
					return true
				})
				if hasBreak {
					return nil, err
				}
				return nil, nil
			}
			o, err := paths(x.Body, append(append([]string{}, along...), c))
			if err != nil {
				return nil, err
			}
			out = append(out, o...)
			if x.Else != nil {
				o, err := paths(x.Else, append(append([]string{}, along...), "(!"+c+")"))
				if err != nil {
					return nil, err
				}
				out = append(out, o...)
			}
		case *ast.BranchStmt:
			if x.Tok == token.BREAK {
				if len(along) == 0 {
					return []string{"true"}, nil
				}
				return []string{"(" + strings.Join(along, " && ") + ")"}, nil
			}
		}
		return out, nil
	}
	hp, err := paths(loop.Body, nil)
	if err != nil {
		return fmt.Errorf("wal.truncateHeadLocked: %v", err)
	}
	if len(hp) == 0 {
		return fmt.Errorf("wal.truncateHeadLocked: no path of the scan reaches a break")
	}
	lw.raw("/-- `truncateHeadLocked`: the forward scan stops at a segment (it becomes the new head) when — `stateLast` is `newState.lastIndex()` evaluated at that point of the scan -/\ndef truncateHeadStopsAt (segSealed : Bool) (segBase segMin segMax stateLast newMin : Nat) : Bool :=\n  " + strings.Join(hp, " || ") + "\n\n")

	// ---- counters: nTruncated of both truncations ----
	// head: `if C { upTo := newMin; if upTo > X { upTo = X }; nTruncated = upTo - oldFirstIndex }`
	// (translated as text-free arithmetic only when it has exactly that shape; otherwise left to the correspondence)

	// ---- StoreLogs: re-base condition and monotonicity check ----
	sl, err := walP.fn("WAL", "StoreLogs")
	if err != nil {
		return err
	}
	var resetIf, monoIf *ast.IfStmt
	ast.Inspect(sl.Body, func(n ast.Node) bool {
		if is, ok := n.(*ast.IfStmt); ok {
			bsrc := walP.src(is.Body)
			if strings.Contains(bsrc, "resetEmptyFirstSegmentBaseIndex(") && resetIf == nil {
				resetIf = is
			}
			if strings.Contains(bsrc, "non-monotonic") && monoIf == nil {
				monoIf = is
			}
		}
		return true
	})
	if resetIf == nil || monoIf == nil {
		return fmt.Errorf("wal.StoreLogs: re-base condition or monotonicity check not found")
	}
	rc, err := boolLean(walP, resetIf.Cond, map[string]string{"lastIdx": "lastIdx", "logs[0].Index": "firstNew", "ti.BaseIndex": "tailBase"})
	if err != nil {
		return fmt.Errorf("wal.StoreLogs: %v", err)
	}
	mc, err := boolLean(walP, monoIf.Cond, map[string]string{"lastIdx": "lastIdx", "l.Index": "idx"})
	if err != nil {
		return fmt.Errorf("wal.StoreLogs: %v", err)
	}
	lw.raw("/-- `StoreLogs`: the empty tail is re-based when -/\ndef storeRebases (lastIdx firstNew tailBase : Nat) : Bool :=\n  " + rc + "\n\n")
	lw.raw("/-- `StoreLogs`: an entry is refused as non-monotonic when (`lastIdx` is the index of the entry before it, 0 for none) -/\ndef storeRefusesIndex (lastIdx idx : Nat) : Bool :=\n  " + mc + "\n\n")
	return lw.finish(outdir)
}

// genPoolCfg reads the configuration of Model/Pool.lean off the source: WAL.GetLog (wal.go), Reader.readFrame and
// Reader.makeBuffer (segment/reader.go), decoder.bytes (codec.go).
func genPoolCfg(walP, segP *factPkg, outdir string) error {
	oneLine := func(x string) string { return strings.Join(strings.Fields(x), " ") }
	lp := newLean("Pool.lean", "wal.go (GetLog), segment/reader.go (readFrame, makeBuffer), codec.go (decoder.bytes)", "RaftWal.Model.Pool")
	// --- decoder.bytes copies
	db, err := walP.fn("decoder", "bytes")
	if err != nil {
		return err
	}
	dbs := walP.src(db.Body)
	copies := strings.Contains(dbs, "make([]byte, n)") && strings.Contains(dbs, "copy(bs, d.buf[:n])") && !strings.Contains(dbs, "bs := d.buf[")
	// --- WAL.GetLog: the buffer variable is the first result of s.getLog(...); every Close() of it; where Decode reads it
	gl, err := walP.fn("WAL", "GetLog")
	if err != nil {
		return err
	}
	rawVar := ""
	ast.Inspect(gl.Body, func(n ast.Node) bool {
		if as, ok := n.(*ast.AssignStmt); ok && len(as.Rhs) == 1 && rawVar == "" {
			if c, ok := as.Rhs[0].(*ast.CallExpr); ok && strings.HasSuffix(oneLine(walP.src(c.Fun)), ".getLog") && len(as.Lhs) >= 1 {
				rawVar = oneLine(walP.src(as.Lhs[0]))
			}
		}
		return true
	})
	if rawVar == "" {
		return fmt.Errorf("wal.GetLog: the call of getLog whose first result is the pooled buffer was not found")
	}
	// Close calls on the buffer, deferred or direct, in source order; the position of the Decode that reads rawVar.Bs
	type closeSite struct {
		pos      token.Pos
		deferred bool
	}
	var closes []closeSite
	deferredCalls := map[*ast.CallExpr]bool{}
	var decodePos token.Pos
	ast.Inspect(gl.Body, func(n ast.Node) bool {
		switch x := n.(type) {
		case *ast.DeferStmt:
			deferredCalls[x.Call] = true
			// a deferred closure that closes the buffer counts as one deferred close per Close call inside it
			if fl, ok := x.Call.Fun.(*ast.FuncLit); ok {
				ast.Inspect(fl.Body, func(m ast.Node) bool {
					if c, ok := m.(*ast.CallExpr); ok && oneLine(walP.src(c.Fun)) == rawVar+".Close" {
						deferredCalls[c] = true
					}
					return true
				})
			}
		case *ast.CallExpr:
			f := oneLine(walP.src(x.Fun))
			if f == rawVar+".Close" {
				closes = append(closes, closeSite{x.Pos(), deferredCalls[x]})
			}
			if strings.HasSuffix(f, ".Decode") && strings.Contains(walP.src(x), rawVar+".Bs") && decodePos == 0 {
				decodePos = x.Pos()
			}
		}
		return true
	})
	if decodePos == 0 {
		return fmt.Errorf("wal.GetLog: the Decode call reading %s.Bs was not found", rawVar)
	}
	nDeferred, nDirectBefore, nDirectAfter := 0, 0, 0
	for _, c := range closes {
		switch {
		case c.deferred:
			nDeferred++
		case c.pos < decodePos:
			nDirectBefore++
		default:
			nDirectAfter++
		}
	}
	// the buffer is Put after Decode returned iff no direct Close precedes the Decode (a deferred one runs at return)
	closeAfterDecode := nDirectBefore == 0 && (nDeferred+nDirectAfter) >= 1
	getLogClosesOnce := nDeferred+nDirectBefore+nDirectAfter == 1
	// --- Reader.readFrame: Close calls on the first buffer; the large path's buffer has no CloseFn; order
	rf, err := segP.fn("Reader", "readFrame")
	if err != nil {
		return err
	}
	bufVar := ""
	ast.Inspect(rf.Body, func(n ast.Node) bool {
		if as, ok := n.(*ast.AssignStmt); ok && len(as.Rhs) == 1 && bufVar == "" {
			if c, ok := as.Rhs[0].(*ast.CallExpr); ok && strings.HasSuffix(oneLine(segP.src(c.Fun)), ".makeBuffer") {
				bufVar = oneLine(segP.src(as.Lhs[0]))
			}
		}
		return true
	})
	if bufVar == "" {
		return fmt.Errorf("segment.readFrame: the makeBuffer call was not found")
	}
	var rfCloses []token.Pos
	var reassign *ast.AssignStmt
	ast.Inspect(rf.Body, func(n ast.Node) bool {
		switch x := n.(type) {
		case *ast.CallExpr:
			if oneLine(segP.src(x.Fun)) == bufVar+".Close" {
				rfCloses = append(rfCloses, x.Pos())
			}
		case *ast.AssignStmt:
			if x.Tok == token.ASSIGN && len(x.Lhs) == 1 && oneLine(segP.src(x.Lhs[0])) == bufVar && reassign == nil {
				reassign = x
			}
		}
		return true
	})
	if reassign == nil {
		return fmt.Errorf("segment.readFrame: the large path's re-binding of %s was not found", bufVar)
	}
	largePrivate := !strings.Contains(segP.src(reassign.Rhs[0]), "CloseFn")
	// Close calls on the first buffer: exactly one, and it precedes the re-binding (after which `buf` is another buffer)
	firstBufClosedOnce := len(rfCloses) == 1 && rfCloses[0] < reassign.Pos()
	nAfterRebind := 0
	for _, p := range rfCloses {
		if p > reassign.Pos() {
			nAfterRebind++
		}
	}
	largeClosesFirst := len(rfCloses) >= 1 && rfCloses[0] < reassign.Pos()
	// --- makeBuffer: the CloseFn Puts the buffer exactly once
	mb, err := segP.fn("Reader", "makeBuffer")
	if err != nil {
		return err
	}
	puts := strings.Count(segP.src(mb.Body), ".Put(")
	closeOnce := getLogClosesOnce && firstBufClosedOnce && nAfterRebind == 0 && puts == 1
	lp.raw(fmt.Sprintf("/-- the guards of the read path's buffer discipline as the source has them: `decoder.bytes` copies (make + copy); in `WAL.GetLog` no `%s.Close()` runs before the `Decode` that reads `%s.Bs` (%d deferred, %d direct before, %d direct after it); every pooled buffer is Put back once per Get (GetLog closes once: %v; `readFrame` closes its first buffer once and before re-binding `%s`: %v; `makeBuffer`'s CloseFn has %d Put); the large path's buffer is built without a CloseFn; the first buffer is closed before that -/\ndef poolCfg : RaftWal.Pool.PoolCfg :=\n  { decoderCopies := %v, closeAfterDecode := %v, closeOnce := %v, largePathPrivate := %v, largePathClosesFirst := %v }\n\n",
		rawVar, rawVar, nDeferred, nDirectBefore, nDirectAfter, getLogClosesOnce, bufVar, firstBufClosedOnce, puts,
		copies, closeAfterDecode, closeOnce, largePrivate, largeClosesFirst))
	return lp.finish(outdir)
}
