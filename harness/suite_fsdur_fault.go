package main

import (
	"bufio"
	"fmt"
	"math"
	"os"
	"os/exec"
	"path/filepath"
	"runtime"
	"strings"

	"github.com/hashicorp/go-hclog"
	"github.com/hashicorp/raft"
	wal "github.com/hashicorp/raft-wal"
	"github.com/hashicorp/raft-wal/fs"
)

// fsdur, part 5 — a real fsync(2) failure (C07): the kernel call itself is made to fail (strace -e inject) on the first
// fsync of a newly created segment file; StoreLogs returns the error; the caller retries and the disk behaves again.
// The retried, acknowledged append is the first commit into that segment: the containing directory must be fsynced
// before it returns. Nothing is stubbed: the production fs.File sees the error from the system call.
//
// strace counts invocations per thread, so the worker pins itself to one OS thread (every system call of StoreLogs
// is made by the calling goroutine); a dry run under strace finds which fsync of that thread is the target.

func fsdurFaultWork(args []string) int {
	runtime.LockOSThread()
	dir, variant := args[0], args[1]
	if variant == "h" {
		// the VFS handle alone: three Syncs on a freshly created file, a write before each
		vdir := filepath.Join(dir, "vfsfault")
		os.MkdirAll(vdir, 0o755)
		name := "00000000000000000001-0000000000000007.wal"
		f, err := fs.New().Create(vdir, name, 4096)
		if err != nil {
			fmt.Println("RESULT create-err", err)
			return 1
		}
		res := ""
		marker("fault-target")
		for i := 0; i < 3; i++ {
			f.WriteAt([]byte("12345678"), int64(8*i))
			marker("vfs-begin hsync " + name)
			err := f.Sync()
			if err != nil {
				marker("vfs-end err")
				res += "e"
			} else {
				marker("vfs-end ok")
				res += "o"
			}
		}
		f.Close()
		fmt.Printf("RESULT fault first=%v syncs=%s\n", res[0] == 'e', res)
		return 0
	}
	if variant == "d" {
		// Delete of one segment file, three attempts: the directory fsync of the first one is the call made to fail
		vdir := filepath.Join(dir, "vfsfault")
		os.MkdirAll(vdir, 0o755)
		name := "00000000000000000001-0000000000000009.wal"
		v := fs.New()
		f, err := v.Create(vdir, name, 4096)
		if err != nil {
			fmt.Println("RESULT create-err", err)
			return 1
		}
		f.WriteAt([]byte("12345678"), 0)
		f.Sync()
		f.Close()
		res := ""
		marker("fault-target")
		for i := 0; i < 3; i++ {
			marker("vfs-begin hdelete " + name)
			err := v.Delete(vdir, name)
			if err != nil {
				marker("vfs-end err")
				res += "e"
			} else {
				marker("vfs-end ok")
				res += "o"
			}
		}
		fmt.Printf("RESULT fault first=%v deletes=%s\n", res[0] == 'e', res)
		return 0
	}
	wdir := filepath.Join(dir, "walfault"+variant)
	os.MkdirAll(wdir, 0o755)
	marker("op-begin open 4096")
	w, err := wal.Open(wdir, wal.WithSegmentSize(4096), wal.WithLogger(hclog.NewNullLogger()))
	marker("op-end ok")
	if err != nil {
		fmt.Println("RESULT open-err", err)
		return 1
	}
	r := NewRng(77)
	next := uint64(1)
	store := func(label string, n, size int) error {
		var logs []*raft.Log
		for j := 0; j < n; j++ {
			logs = append(logs, &raft.Log{Index: next + uint64(j), Term: 1, Data: r.Bytes(size)})
		}
		marker(fmt.Sprintf("op-begin %s %d %d", label, next, n))
		err := w.StoreLogs(logs)
		w.DeleteRange(math.MaxUint64, math.MaxUint64)
		if err != nil {
			marker("op-end err")
		} else {
			marker("op-end ok")
			next += uint64(n)
		}
		return err
	}
	if variant == "1" {
		// the never-synced file is the one a rotation created
		store("store", 2, 1500)
		store("store", 2, 1500)
	}
	marker("fault-target")
	e1 := store("storefail", 2, 100)
	e2 := store("store", 2, 100) // the retry (same indexes when the first attempt failed)
	e3 := store("store", 1, 50)
	marker("op-begin close")
	w.Close()
	marker("op-end ok")
	fmt.Printf("RESULT fault first=%v retry=%v later=%v\n", e1 != nil, e2 != nil, e3 != nil)
	return 0
}

func init() { extraCommands["fsdurfault"] = fsdurFaultWork }

// targetFsync: in a dry-run trace, the 1-based number — among the fsync calls of the thread that issues the markers —
// of the first fsync after the "fault-target" marker; ok only when that call is on a segment file
func targetFsync(tracePath string, dirSync bool) (n int, ok bool) {
	f, err := os.Open(tracePath)
	if err != nil {
		return 0, false
	}
	defer f.Close()
	type ln struct{ pid, rest string }
	var lines []ln
	sc := bufio.NewScanner(f)
	sc.Buffer(make([]byte, 1<<20), 1<<26)
	tid := ""
	for sc.Scan() {
		m := reLine.FindStringSubmatch(sc.Text())
		if m == nil {
			continue
		}
		lines = append(lines, ln{m[1], m[2]})
		if strings.Contains(m[2], "/verif-marker/fault-target") {
			tid = m[1]
		}
	}
	if tid == "" {
		return 0, false
	}
	count, after := 0, false
	for _, l := range lines {
		if l.pid != tid {
			continue
		}
		if strings.Contains(l.rest, "/verif-marker/fault-target") {
			after = true
			continue
		}
		if strings.HasPrefix(l.rest, "fsync(") {
			count++
			if after && !dirSync {
				return count, strings.Contains(l.rest, ".wal>")
			}
			if after && dirSync {
				// the directory fsync that follows the first fsync of the new segment file
				if strings.Contains(l.rest, ".wal>") {
					continue
				}
				return count, strings.Contains(l.rest, "fault")
			}
		}
	}
	return 0, false
}

const fsdurTraceSet = "trace=openat,fallocate,pwrite64,write,fsync,fdatasync,unlink,unlinkat,rename,renameat,renameat2,ftruncate,newfstatat"

// fsdurFault runs both variants (fresh log; segment created by a rotation) and returns violations and notes
func fsdurFault(base string, rep *Report, shapes map[string]bool, c *Case) []Violation {
	var viols []Violation
	for _, vm := range []string{"0 file", "1 file", "0 dir", "1 dir", "h file", "h dir", "d dir"} {
		variant, mode := strings.Fields(vm)[0], strings.Fields(vm)[1]
		dir, err := os.MkdirTemp(base, "verif-fsdurf-")
		if err != nil {
			rep.Notes = append(rep.Notes, err.Error())
			continue
		}
		func() {
			defer os.RemoveAll(dir)
			dry := filepath.Join(dir, "dry")
			os.MkdirAll(dry, 0o755)
			tr := filepath.Join(dir, "dry.txt")
			if out, err := exec.Command("strace", "-f", "-y", "-s", "64", "-e", fsdurTraceSet, "-o", tr, os.Args[0], "fsdurfault", dry, variant).CombinedOutput(); err != nil {
				rep.Divergences = append(rep.Divergences, Divergence{Props: []string{"C07"}, Case: "fsdur-fault", Op: "dry run under strace", Impl: fmt.Sprintf("%v: %s", err, clipS(string(out))), Model: ""})
				return
			}
			n, ok := targetFsync(tr, mode == "dir")
			if !ok {
				rep.Notes = append(rep.Notes, "fsync-fault variant "+vm+": the first fsync after the target marker is not a segment fsync; skipped")
				rep.Dist["fsync-fault:skipped"]++
				return
			}
			run := filepath.Join(dir, "run")
			os.MkdirAll(run, 0o755)
			tr2 := filepath.Join(dir, "run.txt")
			out, err := exec.Command("strace", "-f", "-y", "-s", "64", "-e", fsdurTraceSet, "-e", fmt.Sprintf("inject=fsync:error=EIO:when=%d", n),
				"-o", tr2, os.Args[0], "fsdurfault", run, variant).CombinedOutput()
			if err != nil {
				// the storage layer must survive an fsync error
				viols = append(viols, Violation{Property: "C07", What: "the process failed after an fsync error on a segment file", Detail: fmt.Sprintf("variant %s: %v: %s", vm, err, clipS(string(out)))})
				return
			}
			raw, _ := os.ReadFile(tr2)
			injected := 0
			onWal := false
			for _, l := range strings.Split(string(raw), "\n") {
				if strings.Contains(l, "(INJECTED)") {
					injected++
					onWal = strings.Contains(l, ".wal>") == (mode == "file")
				}
			}
			res := ""
			for _, l := range strings.Split(string(out), "\n") {
				if strings.HasPrefix(l, "RESULT fault ") {
					res = l
				}
			}
			if injected != 1 || !onWal || !strings.Contains(res, "first=true") {
				if injected == 1 && onWal && strings.Contains(res, "first=false") {
					viols = append(viols, Violation{Property: "C07", What: "StoreLogs returned nil although the fsync of the segment file failed", Detail: "variant " + vm + ": " + res})
					return
				}
				rep.Notes = append(rep.Notes, fmt.Sprintf("fsync-fault variant %s: injection did not land as planned (injected=%d on-target=%v %s); inconclusive", vm, injected, onWal, res))
				rep.Dist["fsync-fault:inconclusive"]++
				return
			}
			rep.Dist["fsync-fault:landed-"+mode]++
			if strings.Contains(res, "retry=false") {
				rep.Dist["fsync-fault:retry-acknowledged-"+mode]++
			}
			evs, _ := parseTrace(tr2, run)
			if variant == "d" {
				// correspondence with Model.OsFs.fsDeleteF, and the contract itself: a Delete that returns nil has been
				// preceded, since the unlink of the name, by a successful fsync of the directory
				var parts []string
				var cur []sysEv
				in := false
				name := ""
				pendingUnlink := false
				for _, e := range evs {
					if e.call != "marker" {
						if in {
							cur = append(cur, e)
						}
						continue
					}
					if strings.HasPrefix(e.arg, "vfs-begin hdelete ") {
						in, cur, name = true, nil, strings.TrimPrefix(e.arg, "vfs-begin hdelete ")
					} else if strings.HasPrefix(e.arg, "vfs-end") && in {
						for _, x := range cur {
							if x.call == "unlink" {
								pendingUnlink = true
							}
							if x.call == "fsync-dir" && pendingUnlink {
								pendingUnlink = false
							}
						}
						r := strings.TrimPrefix(e.arg, "vfs-end ")
						if r == "ok" && pendingUnlink {
							viols = append(viols, Violation{Property: "C07", What: "a segment deletion was reported done with no successful directory fsync since its unlink",
								Detail: fmt.Sprintf("Delete attempt %d of %s returned nil; system calls of the attempt: %s (fsync #%d of the thread failed with EIO in the first attempt)", len(parts)+1, name, canonSeq(cur), n)})
						}
						parts = append(parts, canonSeq(cur)+" -> "+r)
						in = false
					}
				}
				c.Ops = append(c.Ops, fmt.Sprintf("hdeletes %s 0 1 1", name))
				c.Impl = append(c.Impl, strings.Join(parts, " | "))
				shapes["hdeletes:"+strings.Join(parts, " | ")] = true
				return
			}
			if variant == "h" {
				// correspondence with Model.OsFs.fileSync: per Sync, the system calls that took effect and the answer
				var parts []string
				var cur []sysEv
				in := false
				name := ""
				for _, e := range evs {
					if e.call != "marker" {
						if in {
							cur = append(cur, e)
						}
						continue
					}
					if strings.HasPrefix(e.arg, "vfs-begin hsync ") {
						in, cur, name = true, nil, strings.TrimPrefix(e.arg, "vfs-begin hsync ")
					} else if strings.HasPrefix(e.arg, "vfs-end") && in {
						var keep []sysEv
						for _, x := range cur {
							if x.call != "pwrite" {
								keep = append(keep, x)
							}
						}
						parts = append(parts, canonSeq(keep)+" -> "+strings.TrimPrefix(e.arg, "vfs-end "))
						in = false
					}
				}
				o1 := "01"
				if mode == "dir" {
					o1 = "10"
				}
				c.Ops = append(c.Ops, fmt.Sprintf("hsyncs %s %s 11 11", name, o1))
				c.Impl = append(c.Impl, strings.Join(parts, " | "))
				shapes["hsyncs:"+strings.Join(parts, " | ")] = true
				return
			}
			dirSynced := map[string]bool{}
			var cur []sysEv
			label := ""
			for _, e := range evs {
				if e.call != "marker" {
					if label != "" {
						cur = append(cur, e)
					}
					continue
				}
				switch {
				case strings.HasPrefix(e.arg, "op-begin "):
					label, cur = e.arg, nil
				case strings.HasPrefix(e.arg, "op-end"):
					if strings.HasPrefix(label, "op-begin ") {
						op := strings.TrimPrefix(label, "op-begin ")
						rs := strings.TrimPrefix(e.arg, "op-end ")
						for _, v := range contractViolations(cur, op, rs, dirSynced) {
							viols = append(viols, Violation{Property: "C07", What: v, Detail: fmt.Sprintf("fsync-fault variant %s (fsync #%d of the calling thread failed with EIO), during `%s` -> %s: %s", vm, n, op, rs, clipS(canonSeq(cur)))})
						}
						rep.Dist["fault-op:"+strings.Fields(op)[0]]++
						if len(cur) > 0 {
							shapes["fault:"+strings.Fields(op)[0]+":"+canonSeq(cur)] = true
						}
					}
					label = ""
				}
			}
		}()
	}
	return viols
}
