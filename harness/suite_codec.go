package main

import (
	"bytes"
	"encoding/binary"
	"fmt"
	"strings"
	"time"

	"github.com/hashicorp/raft"
	wal "github.com/hashicorp/raft-wal"
)

// codec suite: BinaryCodec.Encode / Decode vs Model.Codec; monitors for C12
// (round trip, no aliasing of the input buffer) and C11 (decode never panics).

var varintBoundaries = func() []uint64 {
	out := []uint64{0, 1, 2}
	for k := 1; k <= 9; k++ {
		out = append(out, (uint64(1)<<(7*k))-1, uint64(1)<<(7*k), (uint64(1)<<(7*k))+1)
	}
	out = append(out, 1<<63, 1<<63-1, ^uint64(0), ^uint64(0)-1)
	return out
}()

func genU64(r *Rng) uint64 {
	switch r.Intn(4) {
	case 0:
		return pick(r, varintBoundaries)
	case 1:
		return uint64(r.Intn(1000))
	case 2:
		return r.U64() >> uint(r.Intn(64))
	default:
		return r.U64()
	}
}

func genBlob(r *Rng, tier string) []byte {
	sizes := []int{0, 0, 1, 2, 7, 8, 9, 15, 16, 17, 100, 127, 128, 129, 255, 256, 1000}
	if r.Chance(1, 12) {
		sizes = []int{16383, 16384, 16385, 65535, 65536, 65537, 70000}
		if tier != "thorough" && r.Chance(1, 2) {
			sizes = []int{4000, 16383, 16384}
		}
	}
	n := pick(r, sizes)
	if r.Chance(1, 5) {
		n = r.Intn(300)
	}
	if n == 0 {
		if r.Bool() {
			return nil
		}
		return []byte{}
	}
	return r.Bytes(n)
}

func genTime(r *Rng) time.Time {
	base := time.Unix(int64(r.Intn(2000000000)), int64(r.Intn(1000000000)))
	switch r.Intn(10) {
	case 0:
		return time.Time{}
	case 1:
		return time.Now() // carries a monotonic reading
	case 2:
		return base.UTC()
	case 3:
		return base.In(time.FixedZone("x", 3600*(r.Intn(25)-12)))
	case 4:
		return base.In(time.FixedZone("y", 19800+r.Intn(60))) // sub-minute offset: version 2
	case 5:
		return base.In(time.FixedZone("z", -(r.Intn(86400)))) // negative, maybe sub-minute
	case 6:
		return base.In(time.FixedZone("bad", -60-r.Intn(60))) // offset/60 == -1: MarshalBinary fails
	case 7:
		return time.Unix(int64(r.U64()>>uint(1+r.Intn(40))), int64(r.Intn(1000000000))).UTC()
	case 8:
		return base.In(time.Local)
	default:
		return base.UTC()
	}
}

func encLine(l *raft.Log) string {
	tb, err := l.AppendedAt.MarshalBinary()
	th := "!"
	if err == nil {
		th = hx(tb)
	}
	return fmt.Sprintf("enc %d %d %d %s %s %s", l.Index, l.Term, uint8(l.Type), hx(l.Data), hx(l.Extensions), th)
}

func implEnc(l *raft.Log) (string, []byte) {
	var buf bytes.Buffer
	c := &wal.BinaryCodec{}
	if err := c.Encode(l, &buf); err != nil {
		return "err", nil
	}
	return "ok " + hx(buf.Bytes()), buf.Bytes()
}

func showGoTime(t time.Time) string {
	sec := uint64(t.Unix()) + 62135596800
	_, off := t.Zone()
	return fmt.Sprintf("%d %d %d", sec, t.Nanosecond(), off)
}

// implDec decodes with the real codec; also reports whether the decoded log
// aliases the input buffer.
func implDec(bs []byte) (out string, aliased bool) {
	defer func() {
		if r := recover(); r != nil {
			out = "panic"
		}
	}()
	in := append([]byte(nil), bs...)
	var l raft.Log
	c := &wal.BinaryCodec{}
	if err := c.Decode(in, &l); err != nil {
		return "err", false
	}
	out = fmt.Sprintf("ok %d %d %d %s %s %s", l.Index, l.Term, uint8(l.Type), hx(l.Data), hx(l.Extensions), showGoTime(l.AppendedAt))
	d0, e0 := append([]byte(nil), l.Data...), append([]byte(nil), l.Extensions...)
	for i := range in {
		in[i] ^= 0xff
	}
	if !bytes.Equal(d0, l.Data) || !bytes.Equal(e0, l.Extensions) {
		aliased = true
	}
	return out, aliased
}

func mutateBytes(r *Rng, b []byte) []byte {
	b = append([]byte(nil), b...)
	switch r.Intn(8) {
	case 0: // bit flip
		if len(b) > 0 {
			i := r.Intn(len(b))
			b[i] ^= 1 << uint(r.Intn(8))
		}
	case 1: // truncate
		if len(b) > 0 {
			b = b[:r.Intn(len(b))]
		}
	case 2: // extend
		b = append(b, r.Bytes(1+r.Intn(4))...)
	case 3: // set a byte to 0xff (continuation bits)
		if len(b) > 0 {
			b[r.Intn(len(b))] = 0xff
		}
	case 4: // splice a 10/11-byte overflowing varint at a field start
		ov := bytes.Repeat([]byte{0xff}, 9+r.Intn(3))
		ov = append(ov, byte(r.Intn(4)))
		pos := 0
		if len(b) > 0 && r.Bool() {
			pos = r.Intn(len(b))
		}
		b = append(append(append([]byte(nil), b[:pos]...), ov...), b[pos:]...)
	case 5: // zero run
		if len(b) > 2 {
			i := r.Intn(len(b) - 1)
			for j := i; j < len(b) && j < i+4; j++ {
				b[j] = 0
			}
		}
	case 6: // huge length field in place of first byte
		var tmp [10]byte
		n := binary.PutUvarint(tmp[:], r.U64())
		b = append(tmp[:n:n], b...)
	default: // drop a byte
		if len(b) > 1 {
			i := r.Intn(len(b))
			b = append(b[:i:i], b[i+1:]...)
		}
	}
	return b
}

func suiteCodec(seed uint64, tier string) *Report {
	rep := newReport("codec", seed, tier)
	rep.Rule = "structured raft.Log values (varint boundaries, nil/empty, sizes across 64KiB, zone/monotonic times) encoded and decoded by the real BinaryCodec and by Model.Codec; a separate malformed stream (mutations of valid encodings, overflowing varints, garbage) for Decode. A case is non-trivial if it hits a multi-byte varint, a non-empty payload, a non-UTC time or an error/panic outcome; distinct by (op, sizes class, outcome)."
	r := NewRng(seed)
	n := 400
	if tier == "thorough" {
		n = 6000
	}
	var cases []*Case
	child := &decChild{}
	defer child.stop()
	monitor := func(ops, impl []string) []Violation { return nil }
	_ = monitor
	for i := 0; i < n; i++ {
		cr := r.Fork()
		l := &raft.Log{Index: genU64(cr), Term: genU64(cr), Type: raft.LogType(cr.Intn(256)), Data: genBlob(cr, tier), Extensions: genBlob(cr, tier), AppendedAt: genTime(cr)}
		if cr.Chance(3, 4) {
			l.Type = raft.LogType(cr.Intn(7))
		}
		if len(l.Extensions) > 2000 {
			l.Extensions = l.Extensions[:cr.Intn(2000)]
		}
		c := &Case{ID: fmt.Sprintf("codec-%d-%d", seed, i), Props: []string{"C12"}}
		line := encLine(l)
		out, enc := implEnc(l)
		c.Ops = append(c.Ops, line)
		c.Impl = append(c.Impl, out)
		var viols []Violation
		outcome := "encerr"
		if enc != nil {
			outcome = "ok"
			// decode what was encoded
			dout, aliased := implDec(enc)
			c.Ops = append(c.Ops, "dec "+hx(enc))
			c.Impl = append(c.Impl, dout)
			// C12 monitor on the real code: round trip and no aliasing
			// the destination is a log that was used before (GetLog callers reuse them): every field must be overwritten
			back := raft.Log{Index: 9999, Term: 8888, Type: raft.LogBarrier, Data: []byte("stale data of an earlier read"),
				Extensions: []byte("stale extensions"), AppendedAt: time.Unix(12345, 678)}
			err := (&wal.BinaryCodec{}).Decode(append([]byte(nil), enc...), &back)
			if err != nil {
				viols = append(viols, Violation{Property: "C12", What: "decode(encode(log)) returned an error", Detail: err.Error()})
			} else if back.Index != l.Index || back.Term != l.Term || back.Type != l.Type || !bytes.Equal(back.Data, l.Data) ||
				!bytes.Equal(back.Extensions, l.Extensions) || !back.AppendedAt.Equal(l.AppendedAt) {
				viols = append(viols, Violation{Property: "C12", What: "decode(encode(log)) differs from log",
					Detail: fmt.Sprintf("in=%+v out=%+v", *l, back)})
			}
			if aliased {
				viols = append(viols, Violation{Property: "C12", What: "decoded log aliases the input buffer (changes when the buffer is reused)"})
			}
			// malformed stream derived from this encoding
			k := 2
			for j := 0; j < k; j++ {
				mb := mutateBytes(cr, enc)
				if cr.Chance(1, 3) {
					mb = mutateBytes(cr, mb)
				}
				if cr.Chance(1, 20) {
					mb = cr.Bytes(cr.Intn(40))
				}
				mout, alloc, died := child.decode(mb)
				if died {
					// the model never dies: keep the lines comparable and report the input
					viols = append(viols, Violation{Property: "C11", What: "decoding damaged bytes took the process down (" + mout + "): an allocation sized from the data",
						Detail: fmt.Sprintf("%d input bytes", len(mb)), Ops: []string{"dec " + hx(mb)}, Impl: []string{mout}})
					mout = "err"
					rep.Dist["decode:child-died"]++
				} else if alloc > 8*uint64(len(mb))+(1<<20) {
					viols = append(viols, Violation{Property: "C11", What: "Decode allocated memory out of proportion to the damaged input (sized from a length field in the data)",
						Detail: fmt.Sprintf("%d bytes allocated for %d input bytes", alloc, len(mb)), Ops: []string{"dec " + hx(mb)}, Impl: []string{mout}})
				}
				c.Ops = append(c.Ops, "dec "+hx(mb))
				c.Impl = append(c.Impl, mout)
				if mout == "panic" {
					viols = append(viols, Violation{Property: "C11", What: "BinaryCodec.Decode panicked on damaged bytes",
						Ops: []string{"dec " + hx(mb)}, Impl: []string{"panic"}})
					outcome = "panic"
				} else if strings.HasPrefix(mout, "err") && outcome == "ok" {
					outcome = "decerr"
				}
			}
		}
		c.Props = []string{"C12", "C11"}
		vv := viols
		c.Monitor = func(ops, impl []string) []Violation { return vv }
		big := len(l.Data) >= 128 || len(l.Extensions) >= 128
		multi := l.Index >= 128 || l.Term >= 128
		_, off := l.AppendedAt.Zone()
		c.NonTrivial = big || multi || off != 0 || outcome != "ok"
		c.Shape = fmt.Sprintf("%s/%d/%d/%v/%v", outcome, sizeClass(len(l.Data)), sizeClass(len(l.Extensions)), multi, off != 0)
		c.Tags = []string{"outcome:" + outcome, fmt.Sprintf("data:%d", sizeClass(len(l.Data)))}
		if off != 0 {
			c.Tags = append(c.Tags, "time:zoned")
		}
		cases = append(cases, c)
	}
	RunCases("codec", cases, rep)
	return rep
}

func sizeClass(n int) int {
	switch {
	case n == 0:
		return 0
	case n < 8:
		return 1
	case n < 128:
		return 2
	case n < 16384:
		return 3
	case n < 65536:
		return 4
	default:
		return 5
	}
}
