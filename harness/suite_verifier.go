package main

import (
	"bytes"
	"errors"
	"fmt"
	"strings"
	"sync"
	"time"

	"github.com/hashicorp/go-hclog"
	"github.com/hashicorp/raft"
	wal "github.com/hashicorp/raft-wal"
	"github.com/hashicorp/raft-wal/metrics"
	"github.com/hashicorp/raft-wal/segment"
	"github.com/hashicorp/raft-wal/verifier"
	"verifharness/simfs"
)

// verifier suite: multi-node histories through the real verifier.LogStore
// middleware (over the real WAL on simfs) vs Model.Verifier. Monitors: C16 (no
// false alarm on clean histories), C17 (injected divergence is reported), C18
// (transparency, never blocks, one report or one drop per checkpoint).

type corruptStore struct {
	raft.LogStore
	mu   sync.Mutex
	over map[uint64]*raft.Log
	// one-shot faults: the next StoreLogs / DeleteRange is rejected by the store (nothing is written or removed)
	failStore, failDel bool
}

var errInjectedStore = errors.New("injected store fault")

func (c *corruptStore) StoreLogs(logs []*raft.Log) error {
	if c.failStore {
		c.failStore = false
		return errInjectedStore
	}
	return c.LogStore.StoreLogs(logs)
}

func (c *corruptStore) StoreLog(l *raft.Log) error { return c.StoreLogs([]*raft.Log{l}) }

func (c *corruptStore) GetLog(idx uint64, out *raft.Log) error {
	if err := c.LogStore.GetLog(idx, out); err != nil {
		return err
	}
	c.mu.Lock()
	defer c.mu.Unlock()
	if o, ok := c.over[idx]; ok {
		*out = *o
	}
	return nil
}

func (c *corruptStore) DeleteRange(min, max uint64) error {
	if c.failDel {
		c.failDel = false
		return errInjectedStore
	}
	if err := c.LogStore.DeleteRange(min, max); err != nil {
		return err
	}
	c.mu.Lock()
	defer c.mu.Unlock()
	for i := range c.over {
		if i >= min && i <= max {
			delete(c.over, i)
		}
	}
	return nil
}

type vnode struct {
	w        *wal.WAL
	cs       *corruptStore
	ls       *verifier.LogStore
	coll     *metrics.AtomicCollector
	entered  chan verifier.VerificationReport
	release  chan struct{}
	pending  bool
	cur      verifier.VerificationReport
	queued   bool
	released int
}

type verImpl struct {
	nodes map[uint64]*vnode
}

func isCPFn(l *raft.Log) (bool, error) {
	if bytes.HasPrefix(l.Data, []byte("CE")) {
		return false, errors.New("checkpoint predicate failed")
	}
	return bytes.HasPrefix(l.Data, []byte("CP")), nil
}

func (n *vnode) newMiddleware() {
	n.entered = make(chan verifier.VerificationReport, 4)
	n.release = make(chan struct{})
	n.coll = metrics.NewAtomicCollector(verifier.MetricDefinitions)
	entered, release := n.entered, n.release
	n.ls = verifier.NewLogStore(n.cs, isCPFn, func(r verifier.VerificationReport) {
		entered <- r
		<-release
	}, n.coll)
	n.pending, n.queued, n.released = false, false, 0
}

func (n *vnode) waitEntered() bool {
	select {
	case r := <-n.entered:
		n.cur = r
		n.pending = true
		return true
	case <-time.After(10 * time.Second):
		return false
	}
}

func fmtReport(r verifier.VerificationReport) string {
	e := "none"
	var cm verifier.ErrChecksumMismatch
	switch {
	case r.Err == nil:
	case errors.As(r.Err, &cm):
		if strings.Contains(string(cm), "in-flight") {
			e = "mismatch-inflight"
		} else {
			e = "mismatch-storage"
		}
	case errors.Is(r.Err, verifier.ErrRangeMismatch):
		e = "range-mismatch"
	default:
		e = "read-error"
	}
	sk := "-"
	if r.SkippedRange != nil {
		sk = fmt.Sprintf("%d..%d", r.SkippedRange.Start, r.SkippedRange.End)
	}
	return fmt.Sprintf("report %d %d %d %d %d %s %s", r.Range.Start, r.Range.End, r.ExpectedSum, r.WrittenSum, r.ReadSum, e, sk)
}

func (v *verImpl) exec(op string) (out string) {
	defer func() {
		if r := recover(); r != nil {
			out = "panic"
		}
	}()
	ws := strings.Fields(op)
	if ws[0] == "case" {
		return "case"
	}
	if ws[0] == "sum" {
		// differential check of checksumLog via a throw-away leader middleware: the checkpoint that
		// follows one entry carries checksumLog(0, entry) as its expected sum
		return verSumOf(parseLogTok(ws[1]))
	}
	id := atoiU(ws[1])
	if ws[0] == "node" {
		d := simfs.New()
		d.Record = false
		w, err := wal.Open("d", wal.WithLogger(hclog.NewNullLogger()), wal.WithSegmentSize(512),
			wal.WithSegmentFiler(segment.NewFiler("d", d)), wal.WithMetaStore(&simfs.Meta{D: d}))
		if err != nil {
			return "err"
		}
		n := &vnode{w: w, cs: &corruptStore{LogStore: w, over: map[uint64]*raft.Log{}}}
		n.newMiddleware()
		v.nodes[id] = n
		return "ok"
	}
	n := v.nodes[id]
	if n == nil {
		return "err nonode"
	}
	switch ws[0] {
	case "vstorefail":
		// the store underneath rejects this batch
		var logs []*raft.Log
		for _, t := range ws[2:] {
			logs = append(logs, parseLogTok(t))
		}
		n.cs.failStore = true
		done := make(chan error, 1)
		go func() { done <- n.ls.StoreLogs(logs) }()
		var err error
		select {
		case err = <-done:
		case <-time.After(10 * time.Second):
			return "blocked"
		}
		n.cs.failStore = false
		if err != nil {
			return "err"
		}
		return "ok"
	case "vdelfail":
		n.cs.failDel = true
		err := n.ls.DeleteRange(atoiU(ws[2]), atoiU(ws[3]))
		n.cs.failDel = false
		if err != nil {
			return "err"
		}
		return "ok"
	case "vstore":
		var logs []*raft.Log
		hasCP := false
		for _, t := range ws[2:] {
			l := parseLogTok(t)
			logs = append(logs, l)
			if cp, _ := isCPFn(l); cp {
				hasCP = true
			}
		}
		done := make(chan error, 1)
		go func() { done <- n.ls.StoreLogs(logs) }()
		var err error
		select {
		case err = <-done:
		case <-time.After(10 * time.Second):
			return "blocked"
		}
		n.w.DeleteRange(^uint64(0), ^uint64(0)) // rotation barrier
		if err != nil {
			return "err"
		}
		if hasCP {
			if !n.pending {
				if !n.waitEntered() {
					return "ok no-verifier-pickup"
				}
			} else if !n.queued {
				n.queued = true
			}
		}
		return "ok"
	case "vdel":
		if err := n.ls.DeleteRange(atoiU(ws[2]), atoiU(ws[3])); err != nil {
			return "err"
		}
		return "ok"
	case "vget", "uget":
		var l raft.Log
		var err error
		if ws[0] == "vget" {
			err = n.ls.GetLog(atoiU(ws[2]), &l)
		} else {
			err = n.w.GetLog(atoiU(ws[2]), &l)
		}
		if err != nil {
			return walClass(err)
		}
		return fmtLog(&l)
	case "vfirst":
		x, _ := n.ls.FirstIndex()
		return fmt.Sprint(x)
	case "vlast":
		x, _ := n.ls.LastIndex()
		return fmt.Sprint(x)
	case "pending":
		if n.pending {
			return "1"
		}
		return "0"
	case "expect":
		return "ok"
	case "release":
		if !n.pending {
			return "none"
		}
		r := n.cur
		n.pending = false
		n.released++
		n.release <- struct{}{}
		if n.queued {
			n.queued = false
			if !n.waitEntered() {
				return fmtReport(r) + " next-not-picked-up"
			}
		}
		return fmtReport(r)
	case "restart":
		// let a blocked ReportFn go so the old goroutine can be torn down
		if n.pending {
			n.pending = false
			n.release <- struct{}{}
		}
		old := n.ls
		n.newMiddleware()
		_ = old
		return "ok"
	case "corrupt":
		n.cs.mu.Lock()
		n.cs.over[atoiU(ws[2])] = parseLogTok(ws[3])
		n.cs.mu.Unlock()
		return "ok"
	case "uncorrupt":
		n.cs.mu.Lock()
		n.cs.over = map[uint64]*raft.Log{}
		n.cs.mu.Unlock()
		return "ok"
	case "vmetrics":
		deadline := time.Now().Add(5 * time.Second)
		for {
			c := n.coll.Summary().Counters
			if int(c["ranges_verified"]) >= n.released || time.Now().After(deadline) {
				return fmt.Sprintf("cp=%d dropped=%d verified=%d readfail=%d writefail=%d", c["checkpoints_written"], c["dropped_reports"],
					c["ranges_verified"], c["read_checksum_failures"], c["write_checksum_failures"])
			}
			time.Sleep(time.Millisecond)
		}
	}
	return "bad-op"
}

// verSumOf computes checksumLog(0, l) through the public API only.
func verSumOf(l *raft.Log) string {
	st := raft.NewInmemStore()
	got := make(chan verifier.VerificationReport, 1)
	ls := verifier.NewLogStore(st, isCPFn, func(r verifier.VerificationReport) { got <- r }, &metrics.NoOpCollector{})
	cp := &raft.Log{Index: l.Index + 1, Term: l.Term, Type: raft.LogCommand, Data: []byte("CP")}
	ll := *l
	if err := ls.StoreLogs([]*raft.Log{&ll, cp}); err != nil {
		return "err"
	}
	select {
	case r := <-got:
		return fmt.Sprint(r.ExpectedSum)
	case <-time.After(5 * time.Second):
		return "timeout"
	}
}

func (v *verImpl) cleanup() {
	for _, n := range v.nodes {
		if n.pending {
			n.pending = false
			select {
			case n.release <- struct{}{}:
			case <-time.After(time.Second):
			}
		}
		n.w.Close()
	}
}

func execVerifier(ops []string) []string {
	v := &verImpl{nodes: map[uint64]*vnode{}}
	defer v.cleanup()
	out := make([]string, len(ops))
	for i, op := range ops {
		out[i] = safeExec(func() string { return v.exec(op) })
	}
	return out
}

// ---- monitor ----

func tokFields(tok string) []string { return strings.Split(tok, ":") }

func verMonitor(ops, impl []string) []Violation {
	var vs []Violation
	add := func(p, what, detail string, upto int) {
		vs = append(vs, Violation{Property: p, What: what, Detail: detail, Ops: ops[:upto+1], Impl: impl[:upto+1]})
	}
	expect := map[string][]string{} // "node/endIdx" -> FIFO of kinds
	stored := map[string][]string{} // "node/idx" -> token fields as passed to StoreLogs
	corrupted := map[string]bool{}  // node -> at-rest corruption active
	trig, rel := map[string]int{}, map[string]int{}
	lastEnd := map[string]uint64{} // per node: end of the range of the last report the verifier goroutine received
	lastVget := map[string]string{}
	magic := "03a59203d6f9d1af"
	for i, op := range ops {
		ws := strings.Fields(op)
		out := impl[i]
		if out == "panic" {
			add("C18", "verifier middleware panicked", op, i)
			continue
		}
		switch ws[0] {
		case "vstorefail", "vdelfail":
			if out == "blocked" {
				add("C18", "the call did not complete", op, i)
			} else if out != "err" && len(ws) > 2 {
				add("C18", "the underlying store rejected the call but the middleware reported success", op+" -> "+out, i)
			}
		case "vstore":
			if out == "blocked" {
				add("C18", "StoreLogs did not complete while the report callback was blocked", op, i)
			}
			if strings.Contains(out, "no-verifier-pickup") {
				add("C18", "a checkpoint produced neither a report nor a counted drop (idle verifier never picked it up)", op, i)
			}
			foreign := false
			for _, t := range ws[2:] {
				f := tokFields(t)
				isCP := strings.HasPrefix(f[3], "4350")
				if isCP && f[4] != "-" && !(len(f[4]) >= 48 && strings.HasPrefix(f[4], magic)) {
					foreign = true
				}
			}
			if foreign && strings.HasPrefix(out, "ok") {
				add("C18", "a checkpoint whose Extensions hold foreign data was accepted", op, i)
			}
			if strings.HasPrefix(out, "ok") {
				for _, t := range ws[2:] {
					f := tokFields(t)
					stored[ws[1]+"/"+f[0]] = f
					if strings.HasPrefix(f[3], "4350") {
						trig[ws[1]]++
					}
				}
			}
		case "vdel":
			// C16 quantifies over ranges not modified while their verification is outstanding: a truncation
			// on this node voids the expectations of its not-yet-delivered reports
			if out == "ok" {
				for k, q := range expect {
					if strings.HasPrefix(k, ws[1]+"/") {
						for j := range q {
							q[j] = "any"
						}
					}
				}
			}
		case "corrupt":
			corrupted[ws[1]] = true
		case "uncorrupt":
			corrupted[ws[1]] = false
		case "restart":
			trig[ws[1]], rel[ws[1]] = 0, 0
			lastEnd[ws[1]] = 0
			for k := range expect {
				if strings.HasPrefix(k, ws[1]+"/") {
					delete(expect, k)
				}
			}
		case "vget":
			lastVget[ws[1]+"/"+ws[2]] = out
		case "uget":
			key := ws[1] + "/" + ws[2]
			if g, ok := lastVget[key]; ok && !corrupted[ws[1]] && g != out {
				add("C18", "GetLog through the middleware differs from the underlying store", fmt.Sprintf("%s: %s vs %s", key, g, out), i)
			}
			if f, ok := stored[key]; ok && strings.HasPrefix(out, "ok ") {
				o := strings.Fields(out)
				same := o[1] == f[0] && o[2] == f[1] && o[3] == f[2] && o[4] == f[3]
				extOK := o[5] == f[4]
				if strings.HasPrefix(f[3], "4350") && f[4] == "-" {
					extOK = len(o[5]) == 48 && strings.HasPrefix(o[5], magic)
				}
				if !same || !extOK {
					add("C18", "entry stored through the middleware differs from what was passed in", fmt.Sprintf("%s stored %v got %s", key, f, out), i)
				}
			}
		case "expect":
			expect[ws[1]+"/"+ws[2]] = append(expect[ws[1]+"/"+ws[2]], ws[3])
		case "release":
			if !strings.HasPrefix(out, "report ") {
				continue
			}
			rel[ws[1]]++
			f := strings.Fields(out)
			errc := f[6]
			key := ws[1] + "/" + f[2]
			kind := ""
			if q := expect[key]; len(q) > 0 {
				kind, expect[key] = q[0], q[1:]
			}
			switch kind {
			case "clean":
				if strings.HasPrefix(errc, "mismatch") {
					add("C16", "checksum mismatch reported although every entry of the range is stored and read back as the leader wrote it", out, i)
				}
				if errc == "mismatch-inflight" {
					add("C17", "in-flight corruption blamed although the node wrote exactly what the leader checksummed", out, i)
				}
			case "mismatch":
				if !strings.HasPrefix(errc, "mismatch") {
					add("C17", "an altered entry inside a fully held, verified range was not reported as a checksum mismatch", out, i)
				}
			case "mismatch-atrest":
				if !strings.HasPrefix(errc, "mismatch") {
					add("C17", "an entry returned altered by the store was not reported as a checksum mismatch", out, i)
				}
				if errc == "mismatch-inflight" {
					add("C17", "in-flight corruption blamed although the node wrote exactly what the leader checksummed", out, i)
				}
			case "range":
				if errc != "range-mismatch" {
					add("C16", "a node lacking part of the range did not report ErrRangeMismatch", out, i)
				}
			}
			if strings.Contains(out, "next-not-picked-up") {
				add("C18", "a queued checkpoint was never picked up after the previous report returned", out, i)
			}
			// SkippedRange names exactly the gap between the previous checkpoint the verifier received on this node
			// (whatever the outcome of that verification) and this range — and is absent when there is no gap
			if len(f) >= 8 {
				start, end := atoiU(f[1]), atoiU(f[2])
				want := "-"
				if le := lastEnd[ws[1]]; le > 0 && le != start {
					want = fmt.Sprintf("%d..%d", le, start)
				}
				if f[7] != want {
					add("C18", "the report after dropped checkpoints does not name the skipped range (or names one although nothing was skipped)",
						fmt.Sprintf("node %s: report [%d,%d) carries SkippedRange %s, expected %s (previous received range ended at %d)", ws[1], start, end, f[7], want, lastEnd[ws[1]]), i)
				}
				lastEnd[ws[1]] = end
			}
		case "vmetrics":
			if !strings.HasPrefix(out, "cp=") || ws[len(ws)-1] != "final" {
				continue
			}
			var cp, dropped, verified, rf, wf int
			fmt.Sscanf(out, "cp=%d dropped=%d verified=%d readfail=%d writefail=%d", &cp, &dropped, &verified, &rf, &wf)
			if cp != trig[ws[1]] || verified != rel[ws[1]] || trig[ws[1]] != rel[ws[1]]+dropped {
				add("C18", "checkpoints are not accounted for as exactly one delivered report or one counted drop each",
					fmt.Sprintf("node %s: checkpoints stored=%d counted=%d delivered=%d verified-counter=%d dropped=%d", ws[1], trig[ws[1]], cp, rel[ws[1]], verified, dropped), i)
			}
		}
	}
	return vs
}

// ---- generator ----

type vgen struct {
	r      *Rng
	impl   *verImpl
	ops    []string
	out    []string
	tags   map[string]bool
	truth  map[uint64]*raft.Log
	tLast  uint64
	last   map[uint64]uint64
	first  map[uint64]uint64
	dirty  map[uint64]map[uint64]string
	leader uint64
	term   uint64
	nn     uint64
	// the scripted case knows that the leader's running sum covers everything since the previous checkpoint
	leaderRangeKnown bool
}

func (g *vgen) do(op string) string {
	o := safeExec(func() string { return g.impl.exec(op) })
	g.ops = append(g.ops, op)
	g.out = append(g.out, o)
	return o
}

func (g *vgen) mkEntry(idx uint64, cp bool) *raft.Log {
	r := g.r
	l := &raft.Log{Index: idx, Term: g.term, Type: raft.LogCommand, AppendedAt: time.Unix(1700000000, 0).UTC()}
	if cp {
		l.Data = append([]byte("CP"), r.Bytes(r.Intn(4))...)
		return l
	}
	l.Type = raft.LogType(r.Intn(6)) // includes LogConfiguration at any index (membership changes)
	if idx == 1 && r.Chance(1, 2) {
		l.Type = raft.LogConfiguration
	}
	l.Data = r.Bytes(r.Intn(24))
	if len(l.Data) >= 2 && l.Data[0] == 'C' && (l.Data[1] == 'P' || l.Data[1] == 'E') {
		l.Data[0] = 'x'
	}
	if r.Chance(1, 6) {
		l.Extensions = r.Bytes(1 + r.Intn(6))
	}
	return l
}

func (g *vgen) readStored(node, idx uint64) *raft.Log {
	var l raft.Log
	if err := g.impl.nodes[node].w.GetLog(idx, &l); err != nil {
		return nil
	}
	return &l
}

func (g *vgen) dirtyIn(node, s, e uint64) string {
	kind := ""
	for i := s; i < e; i++ {
		if k, ok := g.dirty[node][i]; ok {
			if k == "inflight" || kind == "" {
				kind = k
			}
		}
	}
	return kind
}

func leU64(b []byte) uint64 {
	var v uint64
	for i := 7; i >= 0; i-- {
		v = v<<8 | uint64(b[i])
	}
	return v
}

func (g *vgen) storeOn(node uint64, logs []*raft.Log) bool {
	var toks []string
	if g.r.Chance(1, 8) {
		// the store rejects the batch (nothing is written); a follower gets the same entries again, a leader either
		// retries or gives up (the next batch then carries other entries for these indexes)
		var ft []string
		for _, l := range logs {
			ft = append(ft, logTok(l))
		}
		g.do(fmt.Sprintf("vstorefail %d %s", node, strings.Join(ft, " ")))
		g.tags["store-fault"] = true
		if node == g.leader && g.r.Bool() {
			return false
		}
	}
	// hand-off simulation per checkpoint of the batch: one report may be running (pending) and one waiting
	// (queued); a further one is dropped. Batches with more than one checkpoint are generated only for a node whose
	// ReportFn is blocked (pending), where the outcome does not depend on how fast the verifier goroutine dequeues.
	pend, qd := g.impl.nodes[node].pending, g.impl.nodes[node].queued
	ncp := 0
	for _, l := range logs {
		toks = append(toks, logTok(l))
		if cp, _ := isCPFn(l); cp && (len(l.Extensions) >= 24 || len(l.Extensions) == 0) {
			ncp++
			switch {
			case pend && qd:
				g.tags["dropped-report"] = true
				if ncp > 1 {
					g.tags["multi-checkpoint-batch-drop"] = true
				}
				continue
			case pend:
				qd = true
			default:
				pend = true
			}
		}
		if cp, _ := isCPFn(l); cp && len(l.Extensions) >= 24 {
			s := leU64(l.Extensions[8:16])
			exp := "clean"
			if g.last[node] == 0 || g.first[node] > s {
				exp = "range"
				if g.last[node] == 0 && logs[0].Index <= s {
					exp = "clean"
				}
			}
			if exp == "clean" {
				switch g.dirtyIn(node, s, l.Index) {
				case "inflight":
					exp = "mismatch"
				case "atrest":
					exp = "mismatch-atrest"
				}
			}
			g.do(fmt.Sprintf("expect %d %d %s", node, l.Index, exp))
		} else if cp && len(l.Extensions) == 0 {
			exp := "clean"
			if g.dirtyIn(node, g.first[node], l.Index) != "" {
				exp = "any"
				if g.leaderRangeKnown {
					exp = "mismatch-atrest" // scripted case: the damaged entries are known to lie inside the leader's own range
				}
			}
			g.do(fmt.Sprintf("expect %d %d %s", node, l.Index, exp))
		}
	}
	o := g.do(fmt.Sprintf("vstore %d %s", node, strings.Join(toks, " ")))
	if !strings.HasPrefix(o, "ok") {
		g.tags["vstore:"+o] = true
		return false
	}
	if g.last[node] == 0 {
		g.first[node] = logs[0].Index
	}
	g.last[node] = logs[len(logs)-1].Index
	return true
}

func cloneLog(l *raft.Log) *raft.Log {
	c := *l
	c.Data = append([]byte(nil), l.Data...)
	c.Extensions = append([]byte(nil), l.Extensions...)
	if len(c.Data) == 0 {
		c.Data = nil
	}
	if len(c.Extensions) == 0 {
		c.Extensions = nil
	}
	return &c
}

func (g *vgen) mutate(l *raft.Log) *raft.Log {
	c := cloneLog(l)
	switch g.r.Intn(6) {
	case 0:
		c.Term++
	case 1:
		c.Type = raft.LogType((int(c.Type) + 1 + g.r.Intn(3)) % 6)
		if c.Index == 1 && c.Type == raft.LogConfiguration {
			c.Type = raft.LogNoop
		}
	case 2:
		if len(c.Data) > 0 {
			c.Data[g.r.Intn(len(c.Data))] ^= 1 << uint(g.r.Intn(8))
		} else {
			c.Data = []byte{byte(1 + g.r.Intn(200))}
		}
	case 3:
		c.Data = append(c.Data, byte(g.r.Intn(256)))
	case 4:
		if len(c.Data) > 1 {
			c.Data = c.Data[:len(c.Data)-1]
		} else {
			c.Term += 2
		}
	default:
		if len(c.Extensions) > 0 {
			c.Extensions[0] ^= 0x40
		} else {
			c.Term += 3
		}
	}
	if len(c.Data) >= 2 && c.Data[0] == 'C' && (c.Data[1] == 'P' || c.Data[1] == 'E') {
		c.Data[0] = 'y'
	}
	return c
}

func (g *vgen) appendLeader(k int, withCP bool) {
	var batch []*raft.Log
	cpAt, cpAt2 := -1, -1
	if withCP {
		cpAt = g.r.Intn(k)
		if g.impl.nodes[g.leader].pending && k > 1 && g.r.Chance(1, 2) {
			// several checkpoints in one batch while the leader's own ReportFn is blocked
			cpAt2 = g.r.Intn(k)
		}
	}
	for j := 0; j < k; j++ {
		batch = append(batch, g.mkEntry(g.tLast+1+uint64(j), j == cpAt || j == cpAt2))
	}
	if !g.storeOn(g.leader, batch) {
		return
	}
	for _, l := range batch {
		st := g.readStored(g.leader, l.Index)
		if st == nil {
			st = l
		}
		g.truth[l.Index] = st
	}
	g.tLast += uint64(k)
}

func (g *vgen) replicate(f uint64, corrupt bool) {
	if f == g.leader || g.last[f] >= g.tLast {
		return
	}
	from := g.last[f] + 1
	if g.last[f] == 0 {
		// a fresh follower may start anywhere (snapshot install); mostly from the leader's first entry
		from = g.first[g.leader]
		if g.r.Chance(1, 4) && g.tLast > from+1 {
			from += uint64(g.r.Intn(int(g.tLast - from)))
		}
	}
	upto := from + uint64(g.r.Intn(int(g.tLast-from)+1))
	for from <= upto {
		n := 1 + g.r.Intn(4)
		var batch []*raft.Log
		cps := 0
		for j := 0; j < n && from+uint64(j) <= upto; j++ {
			t := g.truth[from+uint64(j)]
			if t == nil {
				return
			}
			if cp, _ := isCPFn(t); cp {
				cps++
				if cps > 1 && !g.impl.nodes[f].pending {
					break
				}
			}
			batch = append(batch, cloneLog(t))
		}
		if len(batch) == 0 {
			return
		}
		if corrupt {
			// alter one non-checkpoint entry on its way to the follower
			for _, k := range g.r.perm(len(batch)) {
				if cp, _ := isCPFn(batch[k]); !cp && !(batch[k].Index == 1) {
					batch[k] = g.mutate(batch[k])
					if g.dirty[f] == nil {
						g.dirty[f] = map[uint64]string{}
					}
					g.dirty[f][batch[k].Index] = "inflight"
					g.tags["inflight-corruption"] = true
					corrupt = false
					break
				}
			}
		}
		if !g.storeOn(f, batch) {
			return
		}
		from += uint64(len(batch))
	}
}

func (r *Rng) perm(n int) []int {
	p := make([]int, n)
	for i := range p {
		p[i] = i
	}
	for i := n - 1; i > 0; i-- {
		j := r.Intn(i + 1)
		p[i], p[j] = p[j], p[i]
	}
	return p
}

func (g *vgen) clean(node uint64) bool { return len(g.dirty[node]) == 0 }

func (g *vgen) step() {
	r := g.r
	switch r.Intn(14) {
	case 0, 1, 2:
		g.appendLeader(1+r.Intn(4), r.Chance(1, 2))
	case 3, 4, 5:
		g.replicate(uint64(r.Intn(int(g.nn))), false)
	case 6:
		g.replicate(uint64(r.Intn(int(g.nn))), true)
	case 7: // at-rest corruption of one stored entry
		n := uint64(r.Intn(int(g.nn)))
		// only while no verification of this node is pending or queued: the expectation of a report is
		// fixed when its checkpoint is stored
		if g.last[n] > g.first[n]+1 && !g.impl.nodes[n].pending && r.Chance(1, 3) {
			// two stored entries returned in each other's place (each complete and well-formed)
			// among the most recent entries, so that both tend to fall into the range of the next checkpoint
			lo := g.first[n]
			if g.last[n] >= lo+3 {
				lo = g.last[n] - 3
			}
			a := lo + uint64(r.Intn(int(g.last[n]-lo)+1))
			b := lo + uint64(r.Intn(int(g.last[n]-lo)+1))
			ta, tb := g.readStored(n, a), g.readStored(n, b)
			cpa, _ := isCPFn(ta)
			cpb, _ := isCPFn(tb)
			if a != b && ta != nil && tb != nil && !cpa && !cpb && a != 1 && b != 1 && g.dirty[n][a] == "" && g.dirty[n][b] == "" && logTok(ta) != logTok(tb) {
				g.do(fmt.Sprintf("corrupt %d %d %s", n, a, logTok(tb)))
				g.do(fmt.Sprintf("corrupt %d %d %s", n, b, logTok(ta)))
				if g.dirty[n] == nil {
					g.dirty[n] = map[uint64]string{}
				}
				g.dirty[n][a], g.dirty[n][b] = "atrest", "atrest"
				g.tags["atrest-swap"] = true
			}
			return
		}
		if g.last[n] > g.first[n] && !g.impl.nodes[n].pending {
			idx := g.first[n] + uint64(r.Intn(int(g.last[n]-g.first[n])))
			t := g.readStored(n, idx)
			if cp, _ := isCPFn(t); t != nil && cp && len(t.Extensions) >= 24 && idx != 1 && g.dirty[n][idx] == "" && r.Chance(1, 2) {
				// a stored checkpoint entry is the first entry of the range the NEXT checkpoint closes: its Extensions (the
				// verifier's own metadata: magic, start index, sum) are part of what the leader checksummed. Damage that
				// keeps the magic and the length — one bit of the start index or of the sum
				c := cloneLog(t)
				c.Extensions[8+r.Intn(len(c.Extensions)-8)] ^= 1 << uint(r.Intn(8))
				g.do(fmt.Sprintf("corrupt %d %d %s", n, idx, logTok(c)))
				if g.dirty[n] == nil {
					g.dirty[n] = map[uint64]string{}
				}
				g.dirty[n][idx] = "atrest"
				g.tags["atrest-corruption"] = true
				g.tags["atrest-checkpoint-meta"] = true
				return
			}
			if cp, _ := isCPFn(t); t != nil && !cp && idx != 1 && g.dirty[n][idx] == "" {
				g.do(fmt.Sprintf("corrupt %d %d %s", n, idx, logTok(g.mutate(t))))
				if g.dirty[n] == nil {
					g.dirty[n] = map[uint64]string{}
				}
				g.dirty[n][idx] = "atrest"
				g.tags["atrest-corruption"] = true
			}
		}
	case 8: // leadership change with conflicting suffix
		var cands []uint64
		for n := uint64(0); n < g.nn; n++ {
			if n != g.leader && g.last[n] > 0 && g.clean(n) {
				cands = append(cands, n)
			}
		}
		if len(cands) == 0 {
			return
		}
		nl := pick(r, cands)
		g.leader = nl
		g.term++
		g.tLast = g.last[nl]
		for n := uint64(0); n < g.nn; n++ {
			if n != nl && g.last[n] > g.tLast {
				if g.tLast+1 > g.first[n] {
					if r.Chance(1, 3) {
						g.do(fmt.Sprintf("vdelfail %d %d %d", n, g.tLast+1, g.last[n]))
						g.tags["delete-fault"] = true
					}
					g.do(fmt.Sprintf("vdel %d %d %d", n, g.tLast+1, g.last[n]))
					for i := range g.dirty[n] {
						if i > g.tLast {
							delete(g.dirty[n], i)
						}
					}
					g.last[n] = g.tLast
				} else {
					// everything this node holds conflicts: drop its whole log
					g.do(fmt.Sprintf("vdel %d %d %d", n, g.first[n], g.last[n]))
					g.dirty[n] = map[uint64]string{}
					g.last[n], g.first[n] = 0, 0
				}
			}
		}
		for i := range g.truth {
			if i > g.tLast {
				delete(g.truth, i)
			}
		}
		g.tags["leader-change"] = true
	case 9: // head truncation on some node
		n := uint64(r.Intn(int(g.nn)))
		if g.last[n] > g.first[n]+1 {
			upto := g.first[n] + uint64(r.Intn(int(g.last[n]-g.first[n]-1)))
			if r.Chance(1, 4) {
				g.do(fmt.Sprintf("vdelfail %d %d %d", n, g.first[n], upto))
				g.tags["delete-fault"] = true
			}
			g.do(fmt.Sprintf("vdel %d %d %d", n, g.first[n], upto))
			for i := range g.dirty[n] {
				if i <= upto {
					delete(g.dirty[n], i)
				}
			}
			g.first[n] = upto + 1
			g.tags["head-trunc"] = true
		}
	case 10: // middleware restart
		n := uint64(r.Intn(int(g.nn)))
		g.do(fmt.Sprintf("restart %d", n))
		g.tags["restart"] = true
	case 11, 12:
		n := uint64(r.Intn(int(g.nn)))
		g.do(fmt.Sprintf("release %d", n))
	case 13: // checkpoint with foreign extension data / failing predicate
		l := g.mkEntry(g.tLast+1, true)
		if r.Bool() {
			l.Extensions = r.Bytes(1 + r.Intn(30))
			g.tags["foreign-ext"] = true
		} else {
			l.Data = []byte("CE")
			g.tags["predicate-error"] = true
		}
		g.do(fmt.Sprintf("vstore %d %s", g.leader, logTok(l)))
	}
}

func genVerCase(r *Rng, id string) *Case {
	g := &vgen{r: r, impl: &verImpl{nodes: map[uint64]*vnode{}}, tags: map[string]bool{}, truth: map[uint64]*raft.Log{},
		last: map[uint64]uint64{}, first: map[uint64]uint64{}, dirty: map[uint64]map[uint64]string{}, term: 1}
	defer g.impl.cleanup()
	g.nn = uint64(2 + r.Intn(2))
	for n := uint64(0); n < g.nn; n++ {
		g.do(fmt.Sprintf("node %d", n))
	}
	g.tLast = pick(r, []uint64{0, 0, 6, 99})
	steps := 8 + r.Intn(25)
	g.appendLeader(2+r.Intn(3), false)
	for i := 0; i < steps; i++ {
		g.step()
	}
	return g.finish(id)
}

// finish: release everything, read back, account; build the case
func (g *vgen) finish(id string) *Case {
	for n := uint64(0); n < g.nn; n++ {
		for k := 0; k < 3; k++ {
			g.do(fmt.Sprintf("release %d", n))
		}
		g.do(fmt.Sprintf("uncorrupt %d", n))
		g.do(fmt.Sprintf("vfirst %d", n))
		g.do(fmt.Sprintf("vlast %d", n))
		for i := g.first[n]; i <= g.last[n] && i < g.first[n]+6; i++ {
			g.do(fmt.Sprintf("vget %d %d", n, i))
			g.do(fmt.Sprintf("uget %d %d", n, i))
		}
		g.do(fmt.Sprintf("vmetrics %d final", n))
	}
	c := &Case{ID: id, Props: []string{"C16", "C17", "C18", "C20"}, Ops: g.ops, Impl: g.out, Exec: execVerifier, Monitor: verMonitor, NoShrinkMonitor: true}
	for t := range g.tags {
		c.Tags = append(c.Tags, t)
	}
	c.NonTrivial = len(g.tags) > 0
	c.Shape = strings.Join(sortedKeys(g.tags), ",") + fmt.Sprintf("/%d/%d", g.nn, len(g.ops)/8)
	return c
}

// genVerBoundaryCase: a leadership change whose truncation on the follower ends exactly at the index where the
// follower's running checksum starts (its last entry is an uncommitted checkpoint C of the deposed leader; the new
// leader held entries up to C-1, restarted, and appends from C). Nothing is corrupted anywhere: no mismatch may be
// reported, least of all one blaming the follower for having written something else.
func genVerBoundaryCase(r *Rng, id string) *Case {
	g := &vgen{r: r, impl: &verImpl{nodes: map[uint64]*vnode{}}, tags: map[string]bool{"boundary-truncation": true, "leader-change": true, "restart": true}, truth: map[uint64]*raft.Log{},
		last: map[uint64]uint64{}, first: map[uint64]uint64{}, dirty: map[uint64]map[uint64]string{}, term: 1}
	defer g.impl.cleanup()
	g.nn = 3
	for n := uint64(0); n < g.nn; n++ {
		g.do(fmt.Sprintf("node %d", n))
	}
	g.tLast = pick(r, []uint64{0, 0, 6})
	catchUp := func(f uint64) {
		for k := 0; k < 40 && g.last[f] < g.tLast; k++ {
			g.replicate(f, false)
		}
	}
	releaseAll := func() {
		for n := uint64(0); n < g.nn; n++ {
			for k := 0; k < 3; k++ {
				g.do(fmt.Sprintf("release %d", n))
			}
		}
	}
	g.appendLeader(3+r.Intn(4), r.Bool())
	catchUp(1)
	catchUp(2)
	releaseAll()
	// the checkpoint C reaches node 1 only
	g.appendLeader(1, true)
	c := g.tLast
	catchUp(1)
	releaseAll()
	// node 2 (log up to C-1) restarts and becomes leader; nodes 0 and 1 drop C
	g.do("restart 2")
	g.leader = 2
	g.term++
	g.tLast = g.last[2]
	for _, n := range []uint64{0, 1} {
		if g.last[n] >= c {
			g.do(fmt.Sprintf("vdel %d %d %d", n, c, g.last[n]))
			g.last[n] = c - 1
			for i := range g.dirty[n] {
				if i >= c {
					delete(g.dirty[n], i)
				}
			}
		}
	}
	for i := range g.truth {
		if i > g.tLast {
			delete(g.truth, i)
		}
	}
	g.appendLeader(2+r.Intn(3), false)
	g.appendLeader(1, true)
	catchUp(1)
	catchUp(0)
	releaseAll()
	g.appendLeader(1+r.Intn(3), true)
	catchUp(1)
	catchUp(0)
	return g.finish(id)
}

// blockingDeleteStore: a LogStore whose DeleteRange can be held open (raft compacts the log from its snapshot goroutine
// while the main loop keeps appending)
type blockingDeleteStore struct {
	raft.LogStore
	hold    chan struct{} // non-nil: DeleteRange waits on it after signalling entered
	entered chan struct{}
}

func (b *blockingDeleteStore) DeleteRange(min, max uint64) error {
	if b.hold != nil {
		b.entered <- struct{}{}
		<-b.hold
	}
	return b.LogStore.DeleteRange(min, max)
}

// verConcurrentCompaction: a head compaction of the follower's log is in flight (inside the underlying store) while
// appends are stored; the next checkpoint must still verify cleanly — every entry of the range is what the leader wrote.
func verConcurrentCompaction(r *Rng) []Violation {
	var viols []Violation
	steps := []string{"leader: entries 1..9, checkpoint 10; follower replicates and verifies", "leader: entries 11..15; follower stores 11..13",
		"follower: DeleteRange(1,5) enters the underlying store and is held there (compaction on another goroutine)", "follower: StoreLogs(14,15) completes meanwhile",
		"DeleteRange released", "leader: checkpoint 16; follower stores it and verifies [10,16)"}
	mk := func(under raft.LogStore) (*verifier.LogStore, chan verifier.VerificationReport) {
		ch := make(chan verifier.VerificationReport, 16)
		return verifier.NewLogStore(under, isCPFn, func(rp verifier.VerificationReport) { ch <- rp }, metrics.NewAtomicCollector(verifier.MetricDefinitions)), ch
	}
	lUnder := raft.NewInmemStore()
	leader, lch := mk(lUnder)
	fUnder := &blockingDeleteStore{LogStore: raft.NewInmemStore(), entered: make(chan struct{}, 1)}
	follower, fch := mk(fUnder)
	defer leader.Close()
	defer follower.Close()
	entry := func(i uint64, cp bool) *raft.Log {
		l := &raft.Log{Index: i, Term: 1, Type: raft.LogCommand, Data: r.Bytes(10 + r.Intn(20))}
		if cp {
			l.Data = []byte("CP")
		} else if len(l.Data) >= 2 && l.Data[0] == 'C' {
			l.Data[0] = 'x'
		}
		return l
	}
	lead := func(from, to uint64, cpAt uint64) {
		var b []*raft.Log
		for i := from; i <= to; i++ {
			b = append(b, entry(i, i == cpAt))
		}
		leader.StoreLogs(b)
	}
	repl := func(from, to uint64) error {
		var b []*raft.Log
		for i := from; i <= to; i++ {
			var l raft.Log
			if err := lUnder.GetLog(i, &l); err != nil {
				return err
			}
			b = append(b, &l)
		}
		return follower.StoreLogs(b)
	}
	wait := func(ch chan verifier.VerificationReport) *verifier.VerificationReport {
		select {
		case rp := <-ch:
			return &rp
		case <-time.After(5 * time.Second):
			return nil
		}
	}
	lead(1, 10, 10)
	wait(lch)
	repl(1, 10)
	if rp := wait(fch); rp == nil || rp.Err != nil {
		return nil // set-up did not behave as expected: nothing to conclude here
	}
	lead(11, 15, 0)
	repl(11, 13)
	fUnder.hold = make(chan struct{})
	done := make(chan error, 1)
	go func() { done <- follower.DeleteRange(1, 5) }()
	select {
	case <-fUnder.entered:
	case <-time.After(5 * time.Second):
		return nil
	}
	stored := make(chan error, 1)
	go func() { stored <- repl(14, 15) }()
	select {
	case err := <-stored:
		if err != nil {
			return nil
		}
	case <-time.After(2 * time.Second):
		// the middleware serialises DeleteRange and StoreLogs: no overlap is possible, nothing to check
		close(fUnder.hold)
		<-done
		<-stored
		return nil
	}
	close(fUnder.hold)
	<-done
	fUnder.hold = nil
	lead(16, 16, 16)
	wait(lch)
	repl(16, 16)
	rp := wait(fch)
	if rp == nil {
		return append(viols, Violation{Property: "C18", What: "a checkpoint produced no report", Ops: steps})
	}
	if rp.Err != nil {
		viols = append(viols, Violation{Property: "C16", What: "checksum mismatch reported although every entry of the range is stored as the leader wrote it (head compaction concurrent with appends)",
			Detail: rp.Err.Error(), Ops: steps})
	}
	return viols
}

// genVerCompactionCase: the leader compacts its log head past its last checkpoint (its running sum then starts afresh)
// while a follower keeps those entries; more entries and a checkpoint follow. Nothing is corrupted: whichever range the
// checkpoint names, a node that holds all of it unchanged must not report a mismatch, one that lacks part of it reports
// ErrRangeMismatch.
func genVerCompactionCase(r *Rng, id string) *Case {
	g := &vgen{r: r, impl: &verImpl{nodes: map[uint64]*vnode{}}, tags: map[string]bool{"leader-compaction-past-checkpoint": true, "head-trunc": true}, truth: map[uint64]*raft.Log{},
		last: map[uint64]uint64{}, first: map[uint64]uint64{}, dirty: map[uint64]map[uint64]string{}, term: 1}
	defer g.impl.cleanup()
	g.nn = 2 + uint64(r.Intn(2))
	for n := uint64(0); n < g.nn; n++ {
		g.do(fmt.Sprintf("node %d", n))
	}
	g.tLast = pick(r, []uint64{0, 0, 1233})
	catchUp := func(f uint64) {
		for k := 0; k < 40 && g.last[f] < g.tLast; k++ {
			g.replicate(f, false)
		}
	}
	releaseAll := func() {
		for n := uint64(0); n < g.nn; n++ {
			for k := 0; k < 3; k++ {
				g.do(fmt.Sprintf("release %d", n))
			}
		}
	}
	g.appendLeader(3+r.Intn(4), false)
	g.appendLeader(1, true) // checkpoint CP1
	cp1 := g.tLast
	for n := uint64(1); n < g.nn; n++ {
		catchUp(n)
	}
	releaseAll()
	g.appendLeader(3+r.Intn(4), false)
	for n := uint64(1); n < g.nn; n++ {
		catchUp(n)
	}
	// the leader (and perhaps one follower) compacts up to somewhere at or beyond CP1
	upto := cp1 + uint64(r.Intn(int(g.tLast-cp1)))
	who := []uint64{g.leader}
	if g.nn > 2 && r.Bool() {
		who = append(who, 2)
	}
	for _, n := range who {
		g.do(fmt.Sprintf("vdel %d %d %d", n, g.first[n], upto))
		for i := range g.dirty[n] {
			if i <= upto {
				delete(g.dirty[n], i)
			}
		}
		g.first[n] = upto + 1
	}
	g.appendLeader(1+r.Intn(3), false)
	g.appendLeader(1, true) // checkpoint CP2
	for n := uint64(1); n < g.nn; n++ {
		catchUp(n)
	}
	releaseAll()
	g.appendLeader(1+r.Intn(3), true)
	for n := uint64(1); n < g.nn; n++ {
		catchUp(n)
	}
	return g.finish(id)
}

// genVerSwapCase: inside the range of the next checkpoint two stored entries are returned in each other's place by the
// store of one node (each record complete and well-formed, only at the wrong index): that node's report for the range must
// carry a checksum mismatch, and must not blame in-flight corruption (what it wrote was right).
func genVerSwapCase(r *Rng, id string) *Case {
	g := &vgen{r: r, impl: &verImpl{nodes: map[uint64]*vnode{}}, tags: map[string]bool{"atrest-swap": true, "atrest-corruption": true}, truth: map[uint64]*raft.Log{},
		last: map[uint64]uint64{}, first: map[uint64]uint64{}, dirty: map[uint64]map[uint64]string{}, term: 1}
	defer g.impl.cleanup()
	g.nn = 2
	for n := uint64(0); n < g.nn; n++ {
		g.do(fmt.Sprintf("node %d", n))
	}
	g.tLast = pick(r, []uint64{0, 5, 400})
	catchUp := func(f uint64) {
		for k := 0; k < 40 && g.last[f] < g.tLast; k++ {
			g.replicate(f, false)
		}
	}
	releaseAll := func() {
		for n := uint64(0); n < g.nn; n++ {
			for k := 0; k < 3; k++ {
				g.do(fmt.Sprintf("release %d", n))
			}
		}
	}
	g.appendLeader(2+r.Intn(3), false)
	g.appendLeader(1, true)
	catchUp(1)
	releaseAll()
	lo := g.tLast + 1
	g.appendLeader(3+r.Intn(4), false)
	catchUp(1)
	n := uint64(r.Intn(2))
	hi := g.tLast
	a := lo + uint64(r.Intn(int(hi-lo)+1))
	b := lo + uint64(r.Intn(int(hi-lo)+1))
	if a == b {
		if a < hi {
			b = a + 1
		} else {
			b = a - 1
		}
	}
	ta, tb := g.readStored(n, a), g.readStored(n, b)
	if ta != nil && tb != nil && logTok(ta) != logTok(tb) {
		g.do(fmt.Sprintf("corrupt %d %d %s", n, a, logTok(tb)))
		g.do(fmt.Sprintf("corrupt %d %d %s", n, b, logTok(ta)))
		g.dirty[n] = map[uint64]string{a: "atrest", b: "atrest"}
		g.leaderRangeKnown = true
	}
	g.appendLeader(1, true)
	catchUp(1)
	releaseAll()
	return g.finish(id)
}

// genVerCheckpointMetaCase: the first entry of the range the next checkpoint closes is the previous checkpoint entry; its
// Extensions — the verifier's own metadata (magic, start index, sum) — are among the bytes the leader checksummed. One
// node's store returns that entry with one bit of the start index or of the sum flipped (magic and length intact): the
// node's report for the next range must carry a checksum mismatch and must not blame in-flight corruption.
func genVerCheckpointMetaCase(r *Rng, id string) *Case {
	g := &vgen{r: r, impl: &verImpl{nodes: map[uint64]*vnode{}}, tags: map[string]bool{"atrest-checkpoint-meta": true, "atrest-corruption": true}, truth: map[uint64]*raft.Log{},
		last: map[uint64]uint64{}, first: map[uint64]uint64{}, dirty: map[uint64]map[uint64]string{}, term: 1}
	defer g.impl.cleanup()
	g.nn = 2
	for n := uint64(0); n < g.nn; n++ {
		g.do(fmt.Sprintf("node %d", n))
	}
	g.tLast = pick(r, []uint64{0, 5, 400})
	catchUp := func(f uint64) {
		for k := 0; k < 40 && g.last[f] < g.tLast; k++ {
			g.replicate(f, false)
		}
	}
	releaseAll := func() {
		for n := uint64(0); n < g.nn; n++ {
			for k := 0; k < 3; k++ {
				g.do(fmt.Sprintf("release %d", n))
			}
		}
	}
	g.appendLeader(2+r.Intn(3), false)
	g.appendLeader(1, true) // checkpoint 1: the last entry appended
	cp1 := g.tLast
	catchUp(1)
	releaseAll()
	g.appendLeader(2+r.Intn(4), false)
	catchUp(1)
	n := uint64(r.Intn(2))
	if t := g.readStored(n, cp1); t != nil && len(t.Extensions) >= 24 {
		c := cloneLog(t)
		c.Extensions[8+r.Intn(len(c.Extensions)-8)] ^= 1 << uint(r.Intn(8))
		g.do(fmt.Sprintf("corrupt %d %d %s", n, cp1, logTok(c)))
		g.dirty[n] = map[uint64]string{cp1: "atrest"}
		g.leaderRangeKnown = true
	}
	g.appendLeader(1, true) // checkpoint 2 closes [cp1, cp2)
	catchUp(1)
	releaseAll()
	return g.finish(id)
}

func suiteVerifier(seed uint64, tier string) *Report {
	rep := newReport("verifier", seed, tier)
	rep.Rule = "multi-node histories (2–3 nodes) through the real verifier.LogStore over the real WAL: leader appends with checkpoints, replication of arbitrary slices in arbitrary batch splits, leadership changes that truncate conflicting suffixes, head truncations, middleware restarts, in-flight alterations of single fields, at-rest alterations returned by the store, foreign Extensions, a ReportFn the harness blocks and releases at chosen points; every delivered report (range, sums, error class, skipped range), every stored entry and the counters compared with Model.Verifier; plus single-entry checksums (field order / FNV-1a) via the `sum` op. Non-trivial = at least one of: corruption injected, leader change, truncation, restart, dropped/queued report; distinct by feature set, node count and length class."
	r := NewRng(seed ^ 0xbeef)
	n := 150
	if tier == "thorough" {
		n = 2500
	}
	var cases []*Case
	for i := 0; i < n; i++ {
		cases = append(cases, genVerCase(r.Fork(), fmt.Sprintf("ver-%d-%d", seed, i)))
	}
	rep.Violations = append(rep.Violations, verConcurrentCompaction(r.Fork())...)
	rep.Dist["concurrent-compaction-scenario"]++
	nb := 6
	if tier == "thorough" {
		nb = 60
	}
	for i := 0; i < nb; i++ {
		cases = append(cases, genVerBoundaryCase(r.Fork(), fmt.Sprintf("ver-boundary-%d-%d", seed, i)))
		cases = append(cases, genVerCompactionCase(r.Fork(), fmt.Sprintf("ver-compaction-%d-%d", seed, i)))
		cases = append(cases, genVerSwapCase(r.Fork(), fmt.Sprintf("ver-swap-%d-%d", seed, i)))
		cases = append(cases, genVerCheckpointMetaCase(r.Fork(), fmt.Sprintf("ver-cpmeta-%d-%d", seed, i)))
	}
	// single-entry checksum cases
	sc := &Case{ID: fmt.Sprintf("ver-sum-%d", seed), Props: []string{"C16", "C17"}, Exec: execVerifier, NonTrivial: true, Shape: "sum"}
	for i := 0; i < 60; i++ {
		l := &raft.Log{Index: genU64(r)>>1 + 2, Term: genU64(r), Type: raft.LogType(r.Intn(6)), Data: r.Bytes(r.Intn(40)), AppendedAt: time.Unix(1700000000, 0).UTC()}
		if r.Bool() {
			l.Extensions = r.Bytes(r.Intn(12))
		}
		if len(l.Data) >= 1 && l.Data[0] == 'C' {
			l.Data[0] = 'c'
		}
		if i == 0 {
			l = &raft.Log{Index: 1, Term: 1, Type: raft.LogConfiguration, Data: []byte("cfg"), AppendedAt: l.AppendedAt}
		}
		sc.Ops = append(sc.Ops, "sum "+logTok(l))
	}
	sc.Impl = execVerifier(sc.Ops)
	cases = append(cases, sc)
	RunCases("verifier", cases, rep)
	return rep
}

func init() { suites["verifier"] = suiteVerifier }
