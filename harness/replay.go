package main

import (
	"encoding/json"
	"fmt"
	"os"
	"strings"
)

// `harness replay <suite> <replay-file>`: re-executes the recorded operation sequence on the real code and on the
// model and prints both, so that a reported violation or divergence can be inspected by hand.
func init() {
	extraCommands["replay"] = func(args []string) int {
		if len(args) < 2 {
			fmt.Fprintln(os.Stderr, "usage: harness replay <suite> <file>")
			return 2
		}
		suite := args[0]
		raw, err := os.ReadFile(args[1])
		if err != nil {
			fmt.Fprintln(os.Stderr, err)
			return 2
		}
		var doc struct {
			Violation *Violation `json:"violation"`
		}
		if err := json.Unmarshal(raw, &doc); err != nil || doc.Violation == nil {
			fmt.Println(string(raw))
			return 1
		}
		v := doc.Violation
		fmt.Printf("property %s: %s\n%s\n", v.Property, v.What, v.Detail)
		var exec func([]string) []string
		switch suite {
		case "segment":
			exec = execSegment
		case "wal":
			exec = execWalWith(false)
		case "verifier":
			exec = execVerifier
		case "sizes":
			exec = execSizes
		case "codec":
			exec = func(ops []string) []string {
				out := make([]string, len(ops))
				for i, op := range ops {
					ws := strings.Fields(op)
					if ws[0] == "dec" {
						out[i], _ = implDec(unhx(ws[1]))
					} else {
						out[i] = "(encode ops are replayed through the suite)"
					}
				}
				return out
			}
		}
		if exec == nil || len(v.Ops) == 0 {
			fmt.Println("steps:")
			for _, o := range v.Ops {
				fmt.Println("  ", o)
			}
			return 1
		}
		impl := exec(v.Ops)
		model, merr := runDriver(suite, append([]string{"case replay"}, v.Ops...))
		for i, op := range v.Ops {
			m := ""
			if merr == nil && i+1 < len(model) {
				m = model[i+1]
			}
			fmt.Printf("%-60.60s\n    real : %s\n    model: %s\n", op, clipS(impl[i]), clipS(m))
		}
		return 1
	}
}
